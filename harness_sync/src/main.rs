//! The blocking-flavour cases of the correspondence harness (recv / conn / frame / resp), built against mpd_protocol without
//! the `async` feature.  Same sources as the main harness (harness/src/{util,conncases,framecases}.rs), same output format.
#[path = "../../harness/src/util.rs"]
mod util;
#[path = "../../harness/src/conncases.rs"]
mod conncases;
#[path = "../../harness/src/framecases.rs"]
mod framecases;

use std::io::{BufRead, Write};

fn main() {
    let args: Vec<String> = std::env::args().collect();
    std::panic::set_hook(Box::new(|_| {
        util::PANIC_COUNT.fetch_add(1, std::sync::atomic::Ordering::SeqCst);
    }));
    let f = std::fs::File::open(&args[1]).expect("open case file");
    let out = std::io::stdout();
    let mut out = std::io::BufWriter::new(out.lock());
    for line in std::io::BufReader::new(f).lines() {
        let line = line.expect("read line");
        if line.is_empty() {
            continue;
        }
        let toks: Vec<&str> = line.split(' ').collect();
        let res = match util::catch(|| match toks[0] {
            "recv" | "conn" | "bigbin" => conncases::run(&toks),
            "frame" | "resp" => framecases::run(&toks),
            other => format!("unknown-kind {}", other),
        }) {
            Ok(s) => s,
            Err(p) => format!("PANIC-UNCAUGHT {}", util::hex(p.as_bytes())),
        };
        writeln!(out, "{}", res).unwrap();
    }
}
