(* FilterModel.v — mpd_client/src/filter.rs: the FilterType tree, the public constructors exactly as
   the code builds them, and rendering.  Operator spellings and the replacement list of
   escape_filter_value come from Tables.v; no proofs in this file. *)
From MPD Require Import Bytes Tables TagModel CommandModel.
Open Scope N_scope.

(* enum FilterType *)
Inductive ftype :=
  | FTag (t : tag) (o : operator) (v : bytes)
  | FTNot (f : ftype)
  | FTAnd (l : list ftype).

(* const TAG_IS_ABSENT: &str = "" *)
Definition tag_is_absent : bytes := [].

(* Filter::new / tag / tag_exists / tag_absent *)
Definition filter_new (t : tag) (o : operator) (v : bytes) : ftype := FTag t o v.
Definition filter_tag (t : tag) (v : bytes) : ftype := filter_new t Op_Equal v.
Definition filter_tag_exists (t : tag) : ftype := filter_new t Op_NotEqual tag_is_absent.
Definition filter_tag_absent (t : tag) : ftype := filter_new t Op_Equal tag_is_absent.

(* Filter::negate and impl Not (which calls negate) *)
Definition filter_negate (f : ftype) : ftype := FTNot f.

(* Filter::and: self's And-children (or self), then other's And-children (or other) *)
Definition and_children (f : ftype) : list ftype :=
  match f with FTAnd l => l | c => [c] end.
Definition filter_and (a c : ftype) : ftype := FTAnd (and_children a ++ and_children c).

(* Tag::any() *)
Definition tag_any : tag := Other (b "any").

(* str::replace(char, &str) for an ASCII char, on the UTF-8 bytes *)
Definition replace_byte (c : N) (r : bytes) (s : bytes) : bytes :=
  flat_map (fun x => if x =? c then r else [x]) s.

(* escape_filter_value: the chain of replace calls in source order; borrowed when no guard char occurs *)
Definition escape_filter_value (v : bytes) : bytes :=
  if existsb (fun x => existsb (N.eqb x) filter_value_guard) v
  then fold_left (fun acc cr => replace_byte (fst cr) (snd cr) acc) filter_value_replacements v
  else v.

(* the loop of the And arm: " AND " before every item but the first *)
Fixpoint and_items (first : bool) (items : list bytes) : bytes :=
  match items with
  | [] => []
  | x :: r => (if first then [] else b " AND ") ++ x ++ and_items false r
  end.

(* FilterType::render; the And arm's assert! is accounted for by [and_ok] below *)
Fixpoint render_ftype (f : ftype) : bytes :=
  match f with
  | FTag t o v =>                                  (* write!(buf, r#"({} {} \"{}\")"#, ...) *)
    [40] ++ tag_as_str t ++ [SP] ++ operator_str o ++ [SP; BS; DQ] ++ escape_filter_value v ++ [BS; DQ; 41]
  | FTNot g => [40; 33] ++ render_ftype g ++ [41]
  | FTAnd l => [40] ++ and_items true (map render_ftype l) ++ [41]
  end.

(* assert!(inner.len() >= 2) holds at every And node that rendering visits *)
Fixpoint and_ok (f : ftype) : bool :=
  match f with
  | FTag _ _ _ => true
  | FTNot g => and_ok g
  | FTAnd l => Nat.leb 2 (length l) && forallb and_ok l
  end.

Inductive render_result := Rendered (r : bytes) | RenderPanic.

(* Filter::render (the Argument impl): quote, expression, quote — not through escape_argument *)
Definition render_filter (f : ftype) : render_result :=
  if and_ok f then Rendered ([DQ] ++ render_ftype f ++ [DQ]) else RenderPanic.

(* Command::argument(filter) on a command buffer: panics where add_argument returns an error
   (LF or NUL in the rendered bytes) and where rendering panics *)
Inductive send_result := Sent (c : bytes) | SendPanic.

Definition argument_filter (c : bytes) (f : ftype) : send_result :=
  match render_filter f with
  | RenderPanic => SendPanic
  | Rendered r =>
    match add_argument_raw c r with
    | (None, c') => Sent c'
    | (Some _, _) => SendPanic
    end
  end.
