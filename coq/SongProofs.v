(* SongProofs.v — lemmas for C14 (and the song part of C12): the SongBuilder model decodes every
   well-formed listing to exactly the songs listed; no input makes it panic. *)
From Coq Require Import ZifyBool ZifyN ZifyNat.
From MPD Require Import Bytes Tables TagModel TagProofs SongStd SongModel SongSpec.
Open Scope N_scope.

(* ====================================================================================== *)
(* 1. decimal numerals: parse_uint (render_dec n) = n                                       *)
(* ====================================================================================== *)

Lemma dec_acc_app a l1 l2 : dec_acc a (l1 ++ l2) = dec_acc (dec_acc a l1) l2.
Proof. revert a; induction l1 as [|d l1 IH]; intros a; simpl; [reflexivity | apply IH]. Qed.

Lemma render_aux_acc f : forall n acc, render_dec_aux f n acc = render_dec_aux f n [] ++ acc.
Proof.
  induction f as [|f IH]; intros n acc; simpl; [reflexivity|].
  destruct (n / 10 =? 0).
  - reflexivity.
  - rewrite (IH (n / 10) ((48 + n mod 10) :: acc)), (IH (n / 10) [48 + n mod 10]).
    rewrite <- app_assoc. reflexivity.
Qed.

Lemma digit_val_render n : digit_val (48 + n mod 10) = n mod 10.
Proof. unfold digit_val. lia. Qed.

Lemma is_digit_render n : is_digit (48 + n mod 10) = true.
Proof.
  unfold is_digit, in_range. pose proof (N.mod_lt n 10 ltac:(lia)). lia.
Qed.

Lemma render_aux_value f : forall n, n < 10 ^ N.of_nat f -> (0 < f)%nat ->
  dec_value (render_dec_aux f n []) = n /\ forallb is_digit (render_dec_aux f n []) = true
  /\ render_dec_aux f n [] <> [].
Proof.
  induction f as [|f IH]; intros n Hn Hf; [lia|].
  simpl. destruct (n / 10 =? 0) eqn:E.
  - apply N.eqb_eq in E. unfold dec_value. simpl. rewrite digit_val_render, is_digit_render.
    pose proof (N.div_mod' n 10). repeat split; try lia; discriminate.
  - apply N.eqb_neq in E. rewrite render_aux_acc.
    assert (Hlt : n / 10 < 10 ^ N.of_nat f).
    { rewrite Nnat.Nat2N.inj_succ, N.pow_succ_r' in Hn.
      apply N.div_lt_upper_bound; lia. }
    assert (Hf' : (0 < f)%nat).
    { destruct f; [|lia]. simpl in Hlt. change (10 ^ 0) with 1 in Hlt. lia. }
    destruct (IH (n / 10) Hlt Hf') as (Hv & Hd & Hne).
    unfold dec_value in *. rewrite dec_acc_app, Hv. simpl. rewrite digit_val_render.
    rewrite forallb_app, Hd. simpl. rewrite is_digit_render.
    pose proof (N.div_mod' n 10). repeat split; try lia.
    destruct (render_dec_aux f (n / 10) []); [congruence | discriminate].
Qed.

Lemma pow2_le_pow10 k : 2 ^ k <= 10 ^ k.
Proof. apply N.pow_le_mono_l. lia. Qed.

Lemma render_dec_facts n :
  dec_value (render_dec n) = n /\ forallb is_digit (render_dec n) = true /\ render_dec n <> [].
Proof.
  unfold render_dec. apply render_aux_value; [|lia].
  rewrite Nnat.Nat2N.inj_succ, Nnat.N2Nat.id.
  destruct (N.eq_dec n 0) as [->|Hn]; [vm_compute; reflexivity|].
  pose proof (N.log2_spec n ltac:(lia)) as [_ H].
  pose proof (pow2_le_pow10 (N.succ (N.log2 n))). lia.
Qed.

Lemma parse_uint_render bits n : n < 2 ^ bits -> parse_uint bits (render_dec n) = Some n.
Proof.
  intros Hn. destruct (render_dec_facts n) as (Hv & Hd & Hne).
  unfold parse_uint. destruct (render_dec n) as [|d r] eqn:E; [congruence|].
  assert (Hd0 : is_digit d = true) by (simpl in Hd; apply andb_true_iff in Hd; tauto).
  assert (d <> 43) by (unfold is_digit, in_range in Hd0; lia).
  assert (Hgo : parse_digits bits (d :: r) = Some n).
  { unfold parse_digits. rewrite Hd, Hv. apply N.ltb_lt in Hn. rewrite Hn. reflexivity. }
  destruct d as [|p]; [exact Hgo|].
  do 6 (destruct p as [p|p|]; try exact Hgo). congruence.
Qed.

(* ====================================================================================== *)
(* 2. the reference functions under "one more line"                                         *)
(* ====================================================================================== *)

Lemma pick_snoc {A} (f : attr -> option A) l a :
  pick f (l ++ [a]) = pick f l ++ match f a with Some x => [x] | None => [] end.
Proof. unfold pick. rewrite flat_map_app. simpl. rewrite app_nil_r. reflexivity. Qed.

Lemma last_opt_snoc {A} (l : list A) x : last_opt (l ++ [x]) = Some x.
Proof. unfold last_opt. rewrite rev_unit. reflexivity. Qed.

Lemma last_or_snoc {A} (d : A) l x : last_or d (l ++ [x]) = x.
Proof. unfold last_or. rewrite last_opt_snoc. reflexivity. Qed.

(* tag_eq is an equivalence (it is equality of protocol names, C20) *)
Lemma tag_eq_refl t : tag_eq t t = true.
Proof. apply beq_refl. Qed.
Lemma tag_eq_sym t u : tag_eq t u = tag_eq u t.
Proof.
  unfold tag_eq. destruct (beq (tag_as_str t) (tag_as_str u)) eqn:E.
  - apply beq_eq in E. rewrite E. symmetry. apply beq_refl.
  - destruct (beq (tag_as_str u) (tag_as_str t)) eqn:E2; [|reflexivity].
    apply beq_eq in E2. rewrite E2, beq_refl in E. discriminate.
Qed.
Lemma tag_eq_trans t u w : tag_eq t u = true -> tag_eq u w = true -> tag_eq t w = true.
Proof. unfold tag_eq. rewrite !beq_eq. congruence. Qed.

Fixpoint distinct (D : list tag) : Prop :=
  match D with
  | [] => True
  | u :: r => Forall (fun w => tag_eq w u = false) r /\ distinct r
  end.

Lemma distinct_filter q D : distinct D -> distinct (filter q D).
Proof.
  induction D as [|u D IH]; simpl; [tauto|]. intros [H1 H2].
  destruct (q u); simpl; [split|]; auto.
  rewrite Forall_forall in *. intros w Hw. apply filter_In in Hw. apply H1. tauto.
Qed.

Lemma first_keys_distinct ks : distinct (first_keys ks).
Proof.
  induction ks as [|k ks IH]; simpl; [exact I|]. split.
  - apply Forall_forall. intros w Hw. apply filter_In in Hw as [_ Hw].
    destruct (tag_eq w k); [discriminate | reflexivity].
  - apply distinct_filter. exact IH.
Qed.

Lemma existsb_filter_imp {A} (p q : A -> bool) l :
  (forall x, p x = true -> q x = true) -> existsb p (filter q l) = existsb p l.
Proof.
  intros H. induction l as [|x l IH]; simpl; [reflexivity|].
  destruct (q x) eqn:Q; simpl; rewrite IH; [reflexivity|].
  destruct (p x) eqn:P; [|reflexivity]. rewrite (H x P) in Q. discriminate.
Qed.

Lemma first_keys_exists t ks :
  existsb (fun u => tag_eq u t) (first_keys ks) = existsb (fun u => tag_eq u t) ks.
Proof.
  induction ks as [|k ks IH]; simpl; [reflexivity|].
  destruct (tag_eq k t) eqn:E; simpl; [reflexivity|].
  rewrite existsb_filter_imp; [exact IH|].
  intros w Hw. destruct (tag_eq w k) eqn:E2; [|reflexivity].
  rewrite tag_eq_sym in E2. rewrite (tag_eq_trans k w t E2 Hw) in E. discriminate.
Qed.

Lemma first_keys_snoc ks t :
  first_keys (ks ++ [t]) =
  if existsb (fun u => tag_eq u t) ks then first_keys ks else first_keys ks ++ [t].
Proof.
  induction ks as [|k ks IH]; simpl; [reflexivity|]. rewrite IH.
  destruct (existsb (fun u => tag_eq u t) ks); [rewrite orb_true_r; reflexivity|].
  rewrite orb_false_r, filter_app. simpl. rewrite (tag_eq_sym t k).
  destruct (tag_eq k t); simpl; [rewrite app_nil_r|]; reflexivity.
Qed.

Lemma values_of_snoc u ls t v :
  values_of u (ls ++ [(t, v)]) = values_of u ls ++ (if tag_eq u t then [v] else []).
Proof.
  unfold values_of. rewrite filter_app, map_app. simpl. rewrite (tag_eq_sym t u).
  destruct (tag_eq u t); reflexivity.
Qed.

Lemma values_of_none t ls :
  existsb (fun u => tag_eq u t) (map fst ls) = false -> values_of t ls = [].
Proof.
  unfold values_of. induction ls as [|[k v] ls IH]; simpl; [reflexivity|].
  intros H. apply orb_false_iff in H as [H1 H2]. rewrite H1. auto.
Qed.

Lemma push_map (F : tag -> list bytes) t v : forall D, distinct D ->
  tm_push (map (fun u => (u, F u)) D) t v =
  if existsb (fun u => tag_eq u t) D
  then map (fun u => (u, F u ++ (if tag_eq u t then [v] else []))) D
  else map (fun u => (u, F u)) D ++ [(t, [v])].
Proof.
  induction D as [|u D IH]; simpl; [reflexivity|]. intros [H1 H2].
  destruct (tag_eq u t) eqn:E; simpl.
  - f_equal. apply map_ext_in. intros w Hw. rewrite Forall_forall in H1. specialize (H1 w Hw).
    destruct (tag_eq w t) eqn:E2; [|rewrite app_nil_r; reflexivity].
    rewrite (tag_eq_sym u t) in E. rewrite (tag_eq_trans w t u E2 E) in H1. discriminate.
  - rewrite (IH H2). destruct (existsb (fun u0 => tag_eq u0 t) D); simpl; rewrite ?app_nil_r; reflexivity.
Qed.

Lemma group_tags_snoc ls t v : group_tags (ls ++ [(t, v)]) = tm_push (group_tags ls) t v.
Proof.
  unfold group_tags. rewrite map_app. simpl. rewrite first_keys_snoc.
  rewrite (push_map (fun u => values_of u ls) t v _ (first_keys_distinct _)).
  rewrite first_keys_exists.
  destruct (existsb (fun u => tag_eq u t) (map fst ls)) eqn:E.
  - apply map_ext. intros u. rewrite values_of_snoc. reflexivity.
  - rewrite map_app. simpl. rewrite values_of_snoc, tag_eq_refl, (values_of_none t ls E). simpl.
    f_equal. apply map_ext_in. intros u Hu. rewrite values_of_snoc.
    destruct (tag_eq u t) eqn:E2; [|rewrite app_nil_r; reflexivity].
    rewrite <- first_keys_exists in E.
    assert (existsb (fun u0 => tag_eq u0 t) (first_keys (map fst ls)) = true).
    { apply existsb_exists. exists u. auto. }
    congruence.
Qed.

(* the keyed reading of the reference: the values of a tag are the values of its lines, in order *)
Lemma tm_get_group ls t : tm_get (group_tags ls) t = values_of t ls.
Proof.
  induction ls as [|[k v] ls IH] using rev_ind; [reflexivity|].
  rewrite group_tags_snoc, values_of_snoc, <- IH. clear IH.
  induction (group_tags ls) as [|[u vs] m IHm]; simpl.
  - rewrite (tag_eq_sym k t). destruct (tag_eq t k); reflexivity.
  - destruct (tag_eq u k) eqn:E; simpl.
    + destruct (tag_eq u t) eqn:E2.
      * rewrite (tag_eq_sym u t) in E2. rewrite (tag_eq_trans t u k E2 E). reflexivity.
      * destruct (tag_eq t k) eqn:E3; [|rewrite app_nil_r; reflexivity].
        rewrite (tag_eq_sym t k) in E3. rewrite (tag_eq_trans u k t E E3) in E2. discriminate.
    + destruct (tag_eq u t) eqn:E2; [|exact IHm].
      destruct (tag_eq t k) eqn:E3; [|rewrite app_nil_r; reflexivity].
      rewrite (tag_eq_trans u t k E2 E3) in E. discriminate.
Qed.

(* ====================================================================================== *)
(* 3. facts about the key tables regenerated from song.rs (finite, by computation)          *)
(* ====================================================================================== *)

Lemma start_fields_are_the_entry_keys :
  is_start_field (b "file") = true /\ is_start_field (b "directory") = true /\
  is_start_field (b "playlist") = true.
Proof. vm_compute. auto. Qed.

Lemma start_fields_reserved_b : forallb (fun k => existsb (beq k) reserved_keys) start_fields = true.
Proof. vm_compute. reflexivity. Qed.

Lemma url_key_is_file : song_url_key = b "file".
Proof. vm_compute. reflexivity. Qed.

Lemma idle_skips :
  existsb (beq (b "directory")) start_skip_fields = true /\
  existsb (beq (b "playlist")) start_skip_fields = true /\
  existsb (beq (b "Last-Modified")) start_skip_fields = true.
Proof. vm_compute. auto. Qed.

(* tripwire: the attribute keys the model hard-codes are the literal arms of handle_song_field *)
Lemma attr_keys_are_the_match_arms :
  forallb (fun k => existsb (beq k) song_attr_keys)
          (map b ["duration"; "Time"; "Range"; "Format"; "Last-Modified"; "Prio"; "Pos"; "Id"]%string) = true
  /\ length song_attr_keys = 8%nat.
Proof. vm_compute. auto. Qed.

Lemma in_reserved k : existsb (beq k) reserved_keys = true -> In k reserved_keys.
Proof.
  intros H. apply existsb_exists in H as (x & Hx & He). apply beq_eq in He. subst. exact Hx.
Qed.

Lemma not_reserved_beq n k : ~ In n reserved_keys -> existsb (beq k) reserved_keys = true -> beq n k = false.
Proof.
  intros Hn Hk. destruct (beq n k) eqn:E; [|reflexivity].
  apply beq_eq in E. subst. exfalso. apply Hn. apply in_reserved. exact Hk.
Qed.

Lemma not_reserved_not_start n : ~ In n reserved_keys -> is_start_field n = false.
Proof.
  intros Hn. unfold is_start_field. destruct (existsb (beq n) start_fields) eqn:E; [|reflexivity].
  apply existsb_exists in E as (k & Hk & He). apply beq_eq in He. subst k.
  pose proof start_fields_reserved_b as H. rewrite forallb_forall in H.
  exfalso. apply Hn. apply in_reserved. apply H. exact Hk.
Qed.

(* ====================================================================================== *)
(* 4. one attribute line of a song in progress                                              *)
(* ====================================================================================== *)

Definition apply_attr (ch : bool) (x : builder) (a : attr) : builder :=
  match a with
  | ADuration t => set_dur x (Some (to_dur t))
  | ATime t => match b_dur x with None => set_dur x (Some (to_dur t)) | Some _ => x end
  | ARange f t => set_range x (Some (exp_range (f, t)))
  | AFormat t => set_format x (Some t)
  | ALastModified t => set_lm x (Some (to_ts ch t))
  | APrio n => set_prio x n
  | APos n => set_pos x n
  | AId n => set_id x n
  | ATag n v => set_tags x (tm_push (b_tags x) (canon_tag n) v)
  end.

Lemma apply_attr_url ch x a : b_url (apply_attr ch x a) = b_url x.
Proof. destruct a; simpl; try reflexivity. destruct (b_dur x); reflexivity. Qed.

Lemma dur_from_value_ok t f : std_duration t <> DurErr -> dur_from_value t f = Ok (to_dur t).
Proof. unfold dur_from_value, to_dur. destruct (std_duration t); congruence. Qed.

Lemma split_once_app c f r : ~ In c f -> split_once c (f ++ c :: r) = Some (f, r).
Proof.
  induction f as [|a f IH]; simpl; intros H.
  - rewrite N.eqb_refl. reflexivity.
  - destruct (a =? c) eqn:E; [apply N.eqb_eq in E; tauto|].
    rewrite IH; [reflexivity | tauto].
Qed.

Lemma field_name_valid n : field_name n -> valid_name n.
Proof.
  intros [Hne Hc]. split; [exact Hne|]. eapply Forall_impl; [|exact Hc].
  intros c [Hlt Hp]. rewrite (charset_is_protocol c Hlt). exact Hp.
Qed.

Lemma try_from_field_name n : field_name n -> tag_try_from n = TagOk (canon_tag n).
Proof.
  intros H. rewrite (try_from_valid n (field_name_valid n H)). unfold canon_tag.
  destruct (lookup_row tag_parse_table n); reflexivity.
Qed.

Lemma hsf_duration ch x v : handle_song_field ch x (b "duration") v =
  (d <- dur_from_value v (b "duration") ;; Ok (None, set_dur x (Some d))).
Proof. reflexivity. Qed.
Lemma hsf_time ch x v : handle_song_field ch x (b "Time") v =
  match b_dur x with
  | None => d <- dur_from_value v (b "Time") ;; Ok (None, set_dur x (Some d))
  | Some _ => Ok (None, x)
  end.
Proof. reflexivity. Qed.
Lemma hsf_range ch x v : handle_song_field ch x (b "Range") v =
  (r <- range_from_value v (b "Range") ;; Ok (None, set_range x (Some r))).
Proof. reflexivity. Qed.
Lemma hsf_format ch x v : handle_song_field ch x (b "Format") v = Ok (None, set_format x (Some v)).
Proof. reflexivity. Qed.
Lemma hsf_lm ch x v : handle_song_field ch x (b "Last-Modified") v =
  (t <- ts_from_value ch v (b "Last-Modified") ;; Ok (None, set_lm x (Some t))).
Proof. reflexivity. Qed.
Lemma hsf_prio ch x v : handle_song_field ch x (b "Prio") v =
  (n <- int_from_value 8 v (b "Prio") ;; Ok (None, set_prio x n)).
Proof. reflexivity. Qed.
Lemma hsf_pos ch x v : handle_song_field ch x (b "Pos") v =
  (n <- int_from_value 64 v (b "Pos") ;; Ok (None, set_pos x n)).
Proof. reflexivity. Qed.
Lemma hsf_id ch x v : handle_song_field ch x (b "Id") v =
  (n <- int_from_value 64 v (b "Id") ;; Ok (None, set_id x n)).
Proof. reflexivity. Qed.

Lemma hsf_tag ch x n v : field_name n -> ~ In n reserved_keys ->
  handle_song_field ch x n v = Ok (None, set_tags x (tm_push (b_tags x) (canon_tag n) v)).
Proof.
  intros Hf Hr. unfold handle_song_field.
  rewrite (not_reserved_not_start n Hr).
  repeat (rewrite (not_reserved_beq n _ Hr) by (vm_compute; reflexivity)).
  rewrite (try_from_field_name n Hf). reflexivity.
Qed.

Lemma int_from_value_render bits n f : n < 2 ^ bits -> int_from_value bits (render_dec n) f = Ok n.
Proof. intros H. unfold int_from_value. rewrite (parse_uint_render bits n H). reflexivity. Qed.

Lemma field_in_progress ch x k v : b_url x <> [] -> field ch x k v = handle_song_field ch x k v.
Proof. intros H. unfold field. destruct (b_url x); [congruence | reflexivity]. Qed.

Lemma field_attr ch x a : wf_attr ch a -> b_url x <> [] ->
  field ch x (fst (enc_attr a)) (snd (enc_attr a)) = Ok (None, apply_attr ch x a).
Proof.
  intros Hw Hu. rewrite (field_in_progress ch x _ _ Hu).
  destruct a as [t|t|f t|t|t|n|n|n|n v]; simpl in *.
  - rewrite hsf_duration, (dur_from_value_ok t _ Hw). reflexivity.
  - rewrite hsf_time. destruct (b_dur x); [reflexivity|].
    rewrite (dur_from_value_ok t _ Hw). reflexivity.
  - destruct Hw as (Hd & Hf & Ht). rewrite hsf_range. unfold range_from_value.
    rewrite (split_once_app 45 f _ Hd). simpl. rewrite (dur_from_value_ok f _ Hf). simpl.
    destruct t as [t|]; simpl.
    + destruct Ht as [Hne Ht]. destruct t as [|c t]; [congruence|].
      rewrite (dur_from_value_ok (c :: t) _ Ht). reflexivity.
    + reflexivity.
  - rewrite hsf_format. reflexivity.
  - rewrite hsf_lm. unfold ts_from_value, to_ts. destruct (std_timestamp ch t); [reflexivity | congruence].
  - rewrite hsf_prio, (int_from_value_render 8 n _ Hw). reflexivity.
  - rewrite hsf_pos, (int_from_value_render 64 n _ Hw). reflexivity.
  - rewrite hsf_id, (int_from_value_render 64 n _ Hw). reflexivity.
  - destruct Hw as [Hf Hr]. apply hsf_tag; assumption.
Qed.

(* ====================================================================================== *)
(* 5. all attribute lines of a song; the state they leave is the reference's song           *)
(* ====================================================================================== *)

Lemma fold_attrs_url ch attrs : forall x, b_url (fold_left (apply_attr ch) attrs x) = b_url x.
Proof.
  induction attrs as [|a attrs IH]; intros x; simpl; [reflexivity|].
  rewrite IH. apply apply_attr_url.
Qed.

Lemma run_attrs ch attrs : forall x rest, Forall (wf_attr ch) attrs -> b_url x <> [] ->
  run ch x (map enc_attr attrs ++ rest) = run ch (fold_left (apply_attr ch) attrs x) rest.
Proof.
  induction attrs as [|a attrs IH]; intros x rest Hw Hu; simpl; [reflexivity|].
  inversion Hw as [|? ? Ha Hrest]; subst.
  destruct (enc_attr a) as [k v] eqn:E.
  pose proof (field_attr ch x a Ha Hu) as Hf. rewrite E in Hf. simpl in Hf. rewrite Hf. simpl.
  rewrite (IH (apply_attr ch x a) rest Hrest) by (rewrite apply_attr_url; exact Hu).
  destruct (run ch (fold_left (apply_attr ch) attrs (apply_attr ch x a)) rest); reflexivity.
Qed.

Lemma run_single_attrs ch attrs : forall x rest, Forall (wf_attr ch) attrs -> b_url x <> [] ->
  run_single ch x (map enc_attr attrs ++ rest) = run_single ch (fold_left (apply_attr ch) attrs x) rest.
Proof.
  induction attrs as [|a attrs IH]; intros x rest Hw Hu; simpl; [reflexivity|].
  inversion Hw as [|? ? Ha Hrest]; subst.
  destruct (enc_attr a) as [k v] eqn:E.
  pose proof (field_attr ch x a Ha Hu) as Hf. rewrite E in Hf. simpl in Hf. rewrite Hf. simpl.
  apply IH; [exact Hrest | rewrite apply_attr_url; exact Hu].
Qed.

(* the builder the reference describes *)
Definition spec_builder (ch : bool) (url : bytes) (attrs : list attr) : builder :=
  mkB url (last_or 0 (pick get_pos attrs)) (last_or 0 (pick get_id attrs))
      (option_map exp_range (last_opt (pick get_range attrs)))
      (last_or 0 (pick get_prio attrs)) (exp_duration attrs) (exp_tags attrs)
      (last_opt (pick get_format attrs)) (option_map (to_ts ch) (last_opt (pick get_lm attrs))).

Lemma spec_builder_snoc ch url attrs a :
  apply_attr ch (spec_builder ch url attrs) a = spec_builder ch url (attrs ++ [a]).
Proof.
  unfold spec_builder, exp_duration, exp_tags, tag_lines.
  destruct a as [t|t|f t|t|t|n|n|n|n v];
    unfold apply_attr, set_dur, set_range, set_format, set_lm, set_prio, set_pos, set_id, set_tags;
    cbn [b_url b_pos b_id b_range b_prio b_dur b_tags b_format b_lm];
    rewrite !pick_snoc; cbn [get_dur get_time get_range get_format get_lm get_prio get_pos get_id];
    rewrite ?app_nil_r, ?last_opt_snoc, ?last_or_snoc; try reflexivity.
  - (* Time *)
    destruct (last_opt (pick get_dur attrs)); [reflexivity|].
    destruct (pick get_time attrs); reflexivity.
  - (* tag *)
    rewrite group_tags_snoc. reflexivity.
Qed.

Lemma fold_attrs_spec ch url attrs :
  fold_left (apply_attr ch) attrs (set_url b_default url) = spec_builder ch url attrs.
Proof.
  induction attrs as [|a attrs IH] using rev_ind; [reflexivity|].
  rewrite fold_left_app. simpl. rewrite IH. apply spec_builder_snoc.
Qed.

Lemma into_song_spec ch url attrs : url <> [] ->
  into_song (spec_builder ch url attrs) = Ok (expected_q ch url attrs).
Proof. intros H. unfold into_song. simpl. destruct url; [congruence | reflexivity]. Qed.

(* ====================================================================================== *)
(* 6. entry boundaries (for ALL inputs)                                                     *)
(* ====================================================================================== *)

(* a key that starts an entry completes the song in progress — exactly the builder's state before
   the line — and is then handled as if no song had ever been in progress *)
Lemma run_boundary ch x k v r : b_url x <> [] -> is_start_field k = true ->
  run ch x ((k, v) :: r) = (s <- into_song x ;; l <- run ch b_default ((k, v) :: r) ;; Ok (s :: l)).
Proof.
  intros Hu Hk. simpl. rewrite (field_in_progress ch x k v Hu).
  unfold handle_song_field. rewrite Hk. unfold field. simpl.
  destruct (into_song x); simpl; try reflexivity.
  destruct (handle_start_field b_default k v); simpl; try reflexivity.
  destruct (run ch x1 r); reflexivity.
Qed.

Lemma run_single_boundary ch x k v r : b_url x <> [] -> is_start_field k = true ->
  run_single ch x ((k, v) :: r) = (s <- into_song x ;; run_single ch b_default ((k, v) :: r)).
Proof.
  intros Hu Hk. simpl. rewrite (field_in_progress ch x k v Hu).
  unfold handle_song_field. rewrite Hk. unfold field. simpl.
  destruct (into_song x); simpl; try reflexivity.
  destruct (handle_start_field b_default k v); reflexivity.
Qed.

Lemma idle_file ch u : field ch b_default (b "file") u = Ok (None, set_url b_default u).
Proof. reflexivity. Qed.
Lemma idle_directory ch n : field ch b_default (b "directory") n = Ok (None, b_default).
Proof. reflexivity. Qed.
Lemma idle_playlist ch n : field ch b_default (b "playlist") n = Ok (None, b_default).
Proof. reflexivity. Qed.
Lemma idle_lm ch t : field ch b_default (b "Last-Modified") t = Ok (None, b_default).
Proof. reflexivity. Qed.

Lemma run_idle_skip ch k v r : field ch b_default k v = Ok (None, b_default) ->
  run ch b_default ((k, v) :: r) = run ch b_default r.
Proof.
  intros H. cbn [run]. rewrite H. cbn [bind snd fst olist].
  destruct (run ch b_default r); reflexivity.
Qed.

Lemma run_single_idle_skip ch k v r : field ch b_default k v = Ok (None, b_default) ->
  run_single ch b_default ((k, v) :: r) = run_single ch b_default r.
Proof. intros H. cbn [run_single]. rewrite H. reflexivity. Qed.

Definition is_dir_or_playlist (k : bytes) : Prop := k = b "directory" \/ k = b "playlist".

(* while no song is in progress a directory / playlist line and the Last-Modified line after it
   leave no trace, whatever the timestamp text *)
Lemma idle_dir_lm_skipped ch k n t r : is_dir_or_playlist k ->
  run ch b_default ((k, n) :: (b "Last-Modified", t) :: r) = run ch b_default r.
Proof.
  intros [-> | ->].
  - rewrite (run_idle_skip ch _ _ _ (idle_directory ch n)). apply run_idle_skip, idle_lm.
  - rewrite (run_idle_skip ch _ _ _ (idle_playlist ch n)). apply run_idle_skip, idle_lm.
Qed.

(* ... and after a song in progress the completed song is the builder's state BEFORE the
   directory / playlist line: that entry's Last-Modified is attributed to no song *)
Lemma dir_lm_not_attributed ch x k n t r : b_url x <> [] -> is_dir_or_playlist k ->
  run ch x ((k, n) :: (b "Last-Modified", t) :: r) =
  (s <- into_song x ;; l <- run ch b_default r ;; Ok (s :: l)).
Proof.
  intros Hu Hk. rewrite run_boundary; [|exact Hu|].
  - rewrite (idle_dir_lm_skipped ch k n t r Hk). reflexivity.
  - destruct start_fields_are_the_entry_keys as (_ & H1 & H2). destruct Hk as [-> | ->]; assumption.
Qed.

(* ====================================================================================== *)
(* 7. whole listings                                                                        *)
(* ====================================================================================== *)

Lemma enc_listing_starts e l : exists k v r,
  enc_listing (e :: l) = (k, v) :: r /\ is_start_field k = true.
Proof.
  destruct start_fields_are_the_entry_keys as (H0 & H1 & H2).
  destruct e; simpl; eexists _, _, _; split; try reflexivity; assumption.
Qed.

Lemma run_in_progress_listing ch x l : b_url x <> [] ->
  run ch x (enc_listing l) = (s <- into_song x ;; r <- run ch b_default (enc_listing l) ;; Ok (s :: r)).
Proof.
  intros Hu. destruct l as [|e l].
  - simpl. unfold finish. destruct (b_url x) eqn:E; [congruence|]. simpl.
    destruct (into_song x); reflexivity.
  - destruct (enc_listing_starts e l) as (k & v & r & -> & Hk). apply run_boundary; assumption.
Qed.

Lemma run_listing ch l : wf_listing ch l ->
  run ch b_default (enc_listing l) = Ok (listed_songs ch l).
Proof.
  induction l as [|e l IH]; intros Hw; [reflexivity|].
  inversion Hw as [|? ? He Hl]; subst. specialize (IH Hl).
  destruct e as [u attrs | n lm | n lm].
  - destruct He as [Hu Ha]. cbn [enc_listing flat_map enc_entry]. rewrite <- app_comm_cons.
    cbn [run]. rewrite idle_file. cbn [bind snd fst olist].
    fold (enc_listing l). rewrite (run_attrs ch attrs _ _ Ha) by exact Hu.
    rewrite run_in_progress_listing by (rewrite fold_attrs_url; exact Hu).
    rewrite fold_attrs_spec, (into_song_spec ch u attrs Hu), IH. reflexivity.
  - cbn [enc_listing flat_map enc_entry]. rewrite <- app_comm_cons. fold (enc_listing l).
    destruct lm as [t|]; cbn [enc_lm app].
    + rewrite (idle_dir_lm_skipped ch _ n t _ (or_introl eq_refl)). exact IH.
    + rewrite (run_idle_skip ch _ _ _ (idle_directory ch n)). exact IH.
  - cbn [enc_listing flat_map enc_entry]. rewrite <- app_comm_cons. fold (enc_listing l).
    destruct lm as [t|]; cbn [enc_lm app].
    + rewrite (idle_dir_lm_skipped ch _ n t _ (or_intror eq_refl)). exact IH.
    + rewrite (run_idle_skip ch _ _ _ (idle_playlist ch n)). exact IH.
Qed.

Lemma run_single_in_progress_listing ch x l : b_url x <> [] ->
  run_single ch x (enc_listing l) =
  match l with
  | [] => finish x
  | _ => s <- into_song x ;; run_single ch b_default (enc_listing l)
  end.
Proof.
  intros Hu. destruct l as [|e l]; [reflexivity|].
  destruct (enc_listing_starts e l) as (k & v & r & -> & Hk). apply run_single_boundary; assumption.
Qed.

Lemma finish_spec ch url attrs : url <> [] ->
  finish (spec_builder ch url attrs) = Ok (Some (expected_q ch url attrs)).
Proof. intros H. unfold finish, into_song. simpl. destruct url; [congruence | reflexivity]. Qed.

Lemma run_single_listing ch l : wf_listing ch l ->
  run_single ch b_default (enc_listing l) = Ok (last_song ch l).
Proof.
  induction l as [|e l IH]; intros Hw; [reflexivity|].
  inversion Hw as [|? ? He Hl]; subst. specialize (IH Hl).
  destruct e as [u attrs | n lm | n lm].
  - destruct He as [Hu Ha]. cbn [enc_listing flat_map enc_entry]. rewrite <- app_comm_cons.
    cbn [run_single]. rewrite idle_file. cbn [bind snd fst].
    fold (enc_listing l). rewrite (run_single_attrs ch attrs _ _ Ha) by exact Hu.
    rewrite run_single_in_progress_listing by (rewrite fold_attrs_url; exact Hu).
    rewrite fold_attrs_spec. destruct l as [|e' l'].
    + apply finish_spec. exact Hu.
    + rewrite (into_song_spec ch u attrs Hu). cbn [bind]. exact IH.
  - cbn [enc_listing flat_map enc_entry]. rewrite <- app_comm_cons. fold (enc_listing l).
    assert (Hl0 : last_song ch (DirE n lm :: l) = last_song ch l) by (destruct l; reflexivity).
    rewrite Hl0. destruct lm as [t|]; cbn [enc_lm app].
    + rewrite (run_single_idle_skip ch _ _ _ (idle_directory ch n)).
      rewrite (run_single_idle_skip ch _ _ _ (idle_lm ch t)). exact IH.
    + rewrite (run_single_idle_skip ch _ _ _ (idle_directory ch n)). exact IH.
  - cbn [enc_listing flat_map enc_entry]. rewrite <- app_comm_cons. fold (enc_listing l).
    assert (Hl0 : last_song ch (PlaylistE n lm :: l) = last_song ch l) by (destruct l; reflexivity).
    rewrite Hl0. destruct lm as [t|]; cbn [enc_lm app].
    + rewrite (run_single_idle_skip ch _ _ _ (idle_playlist ch n)).
      rewrite (run_single_idle_skip ch _ _ _ (idle_lm ch t)). exact IH.
    + rewrite (run_single_idle_skip ch _ _ _ (idle_playlist ch n)). exact IH.
Qed.

(* ---------- the three decoders ---------- *)
Theorem multi_q_correct ch l : wf_listing ch l ->
  qsongs_model ch (enc_listing l) = Ok (listed_songs ch l).
Proof. apply run_listing. Qed.

Theorem multi_correct ch l : wf_listing ch l ->
  songs_model ch (enc_listing l) = Ok (map q_song (listed_songs ch l)).
Proof. intros H. unfold songs_model. rewrite (run_listing ch l H). reflexivity. Qed.

Theorem single_correct ch l : wf_listing ch l ->
  single_model ch (enc_listing l) = Ok (last_song ch l).
Proof. apply run_single_listing. Qed.

(* the Song (queue-less) view of the listed songs is the reference's song of each file entry *)
Lemma listed_songs_plain ch l :
  map q_song (listed_songs ch l) =
  flat_map (fun e => match e with SongE u a => [expected_song ch u a] | _ => [] end) l.
Proof.
  induction l as [|e l IH]; [reflexivity|]. simpl. rewrite map_app, IH. destruct e; reflexivity.
Qed.

(* one song per file entry, in server order *)
Lemma listed_songs_count ch l :
  length (listed_songs ch l) = length (filter (fun e => match e with SongE _ _ => true | _ => false end) l).
Proof. induction l as [|e l IH]; [reflexivity|]. destruct e; simpl; rewrite IH; reflexivity. Qed.

Lemma listed_songs_urls ch l :
  map (fun q => s_url (q_song q)) (listed_songs ch l) =
  flat_map (fun e => match e with SongE u _ => [u] | _ => [] end) l.
Proof. induction l as [|e l IH]; [reflexivity|]. destruct e; simpl; rewrite ?IH; reflexivity. Qed.

(* a directory / playlist entry's modification date changes nothing in the decoded result *)
Corollary dir_lm_irrelevant ch l1 l2 n lm lm' :
  wf_listing ch (l1 ++ l2) ->
  qsongs_model ch (enc_listing (l1 ++ DirE n lm :: l2)) = qsongs_model ch (enc_listing (l1 ++ DirE n lm' :: l2))
  /\ qsongs_model ch (enc_listing (l1 ++ PlaylistE n lm :: l2)) = qsongs_model ch (enc_listing (l1 ++ PlaylistE n lm' :: l2))
  /\ qsongs_model ch (enc_listing (l1 ++ DirE n lm :: l2)) = qsongs_model ch (enc_listing (l1 ++ l2)).
Proof.
  intros Hw. unfold wf_listing in Hw. apply Forall_app in Hw as [H1 H2].
  assert (Hd : forall e, wf_entry ch e -> wf_listing ch (l1 ++ e :: l2)).
  { intros e He. apply Forall_app. split; [exact H1 | constructor; assumption]. }
  assert (Hl : forall e, entry_songs ch e = [] -> listed_songs ch (l1 ++ e :: l2) = listed_songs ch (l1 ++ l2)).
  { intros e He. unfold listed_songs. rewrite !flat_map_app. simpl. rewrite He. reflexivity. }
  rewrite !multi_q_correct; try (apply Hd; exact I); try (apply Forall_app; split; assumption).
  rewrite !Hl by reflexivity. auto.
Qed.

(* ====================================================================================== *)
(* 8. no input makes the decoder panic (the song part of C12)                               *)
(* ====================================================================================== *)

Definition parser_key (k : bytes) : Prop := field_name k.

Lemma bind_np {A B} (r : result A) (k : A -> result B) :
  r <> Panic -> (forall a, k a <> Panic) -> bind r k <> Panic.
Proof. destruct r; simpl; auto; congruence. Qed.

Lemma dur_np v f : dur_from_value v f <> Panic.
Proof. unfold dur_from_value. destruct (std_duration v); discriminate. Qed.
Lemma int_np bits v f : int_from_value bits v f <> Panic.
Proof. unfold int_from_value. destruct (parse_uint bits v); discriminate. Qed.
Lemma ts_np ch v f : ts_from_value ch v f <> Panic.
Proof. unfold ts_from_value. destruct (std_timestamp ch v); discriminate. Qed.
Lemma range_np v f : range_from_value v f <> Panic.
Proof.
  unfold range_from_value. destruct (split_once 45 v) as [[x y]|]; [|discriminate].
  apply bind_np; [apply dur_np|]. intros d. destruct y; [discriminate|].
  apply bind_np; [apply dur_np | discriminate].
Qed.
Lemma start_np x k v : handle_start_field x k v <> Panic.
Proof.
  unfold handle_start_field. destruct (beq k song_url_key); [discriminate|].
  destruct (existsb (beq k) start_skip_fields); discriminate.
Qed.

(* the builder invariant: into_song is only ever called with a song in progress *)
Lemma into_song_np x : b_url x <> [] -> into_song x <> Panic.
Proof. intros H. unfold into_song. destruct (b_url x); [congruence | discriminate]. Qed.

Lemma field_np ch x k v : parser_key k -> field ch x k v <> Panic.
Proof.
  intros Hk. unfold field. destruct (b_url x) as [|c u] eqn:E; simpl.
  - apply bind_np; [apply start_np | discriminate].
  - unfold handle_song_field.
    destruct (is_start_field k).
    { apply bind_np; [apply into_song_np; rewrite E; discriminate|]. intros s.
      apply bind_np; [apply start_np | discriminate]. }
    destruct (beq k (b "duration")); [apply bind_np; [apply dur_np | discriminate]|].
    destruct (beq k (b "Time")).
    { destruct (b_dur x); [discriminate|]. apply bind_np; [apply dur_np | discriminate]. }
    destruct (beq k (b "Range")); [apply bind_np; [apply range_np | discriminate]|].
    destruct (beq k (b "Format")); [discriminate|].
    destruct (beq k (b "Last-Modified")); [apply bind_np; [apply ts_np | discriminate]|].
    destruct (beq k (b "Prio")); [apply bind_np; [apply int_np | discriminate]|].
    destruct (beq k (b "Pos")); [apply bind_np; [apply int_np | discriminate]|].
    destruct (beq k (b "Id")); [apply bind_np; [apply int_np | discriminate]|].
    rewrite (try_from_field_name k Hk). discriminate.
Qed.

Lemma finish_np x : finish x <> Panic.
Proof.
  unfold finish. destruct (b_url x) eqn:E; simpl; [discriminate|].
  apply bind_np; [apply into_song_np; rewrite E; discriminate | discriminate].
Qed.

Lemma run_np ch fs : forall x, Forall parser_key (map fst fs) -> run ch x fs <> Panic.
Proof.
  induction fs as [|[k v] fs IH]; intros x H; simpl.
  - apply bind_np; [apply finish_np | discriminate].
  - inversion H; subst. apply bind_np; [apply field_np; assumption|]. intros p.
    apply bind_np; [apply IH; assumption | discriminate].
Qed.

Lemma run_single_np ch fs : forall x, Forall parser_key (map fst fs) -> run_single ch x fs <> Panic.
Proof.
  induction fs as [|[k v] fs IH]; intros x H; simpl; [apply finish_np|].
  inversion H; subst. apply bind_np; [apply field_np; assumption|]. intros p. apply IH. assumption.
Qed.

Theorem no_panic ch fs : Forall parser_key (map fst fs) ->
  qsongs_model ch fs <> Panic /\ songs_model ch fs <> Panic /\ single_model ch fs <> Panic.
Proof.
  intros H. repeat split.
  - apply run_np. exact H.
  - unfold songs_model. apply bind_np; [apply run_np; exact H | discriminate].
  - apply run_single_np. exact H.
Qed.

(* the assert in into_song is unreachable by the invariant alone, for arbitrary keys: with the
   try_from unwrap set aside, nothing else can panic *)
Lemma builder_invariant ch x k v p : field ch x k v = Ok p ->
  match fst p with Some s => s_url (q_song s) <> [] /\ s_url (q_song s) = b_url x | None => True end.
Proof.
  unfold field. destruct (b_url x) as [|c u] eqn:E; simpl.
  - destruct (handle_start_field x k v); simpl; intros H; inversion H; subst; exact I.
  - unfold handle_song_field. destruct (is_start_field k).
    + unfold into_song. rewrite E. simpl. destruct (handle_start_field b_default k v); simpl; intros H; inversion H; subst.
      simpl. split; [discriminate | reflexivity].
    + repeat match goal with
             | |- context [if ?c then _ else _] => destruct c
             | |- context [bind ?r _] => destruct r; simpl
             | |- context [match b_dur x with _ => _ end] => destruct (b_dur x)
             | |- context [match tag_try_from k with _ => _ end] => destruct (tag_try_from k)
             end; intros H; inversion H; subst; exact I.
Qed.

(* ====================================================================================== *)
(* 9. a concrete listing (non-vacuity)                                                      *)
(* ====================================================================================== *)

Definition ex_listing : listing :=
  [ SongE (b "a/one.flac")
      [ ATime (b "215"); ATag (b "Artist") (b "X"); ATag (b "artist") (b "Y"); ADuration (b "215.336");
        ALastModified (b "2020-06-12T17:53:00Z"); APos 3; AId 12; ATag (b "ARTIST") (b "Z: z") ];
    DirE (b "a/sub") (Some (b "2024-01-02T03:04:05Z"));
    PlaylistE (b "a/p.m3u") None;
    SongE (b "b.mp3") [ ARange (b "1.5") (Some (b "3.25")); AFormat (b "44100:16:2"); ATag (b "Foo") (b "v"); APrio 7 ] ].

Ltac wf_tag :=
  split; [split; [discriminate | repeat constructor; vm_compute; reflexivity]
         | let H := fresh in intro H; vm_compute in H; repeat (destruct H as [H|H]; [discriminate|]); exact H].

Lemma ex_listing_wf : wf_listing true ex_listing.
Proof.
  unfold ex_listing.
  repeat (first [ apply Forall_nil | apply Forall_cons ]); try exact I.
  - split; [discriminate|].
    repeat (first [ apply Forall_nil | apply Forall_cons ]); simpl;
      try (vm_compute; discriminate); try (vm_compute; reflexivity); wf_tag.
  - split; [discriminate|].
    repeat (first [ apply Forall_nil | apply Forall_cons ]); simpl;
      try exact I; try (vm_compute; reflexivity); try wf_tag.
    split; [vm_compute; intros H; repeat (destruct H as [H|H]; [discriminate|]); exact H|].
    split; [vm_compute; discriminate|]. split; [discriminate | vm_compute; discriminate].
Qed.

Lemma ex_listing_songs :
  listed_songs true ex_listing =
  [ mkQ 3 12 None 0
        (mkSong (b "a/one.flac") (Some (DNanos 215336000000))
                [(Named T_Artist, [b "X"; b "Y"; b "Z: z"])] None
                (Some (mkTs (b "2020-06-12T17:53:00Z") true)));
    mkQ 0 0 (Some (DNanos 1500000000, Some (DNanos 3250000000))) 7
        (mkSong (b "b.mp3") None [(Other (b "Foo"), [b "v"])] (Some (b "44100:16:2")) None) ].
Proof. vm_compute. reflexivity. Qed.

Corollary single_one ch u a : wf_entry ch (SongE u a) ->
  single_model ch (enc_listing [SongE u a]) = Ok (Some (expected_q ch u a)).
Proof. intros H. apply (single_correct ch [SongE u a]). constructor; [exact H | constructor]. Qed.

Corollary single_none ch : single_model ch (enc_listing []) = Ok None.
Proof. reflexivity. Qed.
