(* DriverConn.v — case kinds recv / conn (C02, C03, C09, C10, C18). *)
From MPD Require Import Bytes Tables Show ParserModel BuilderModel ConnModel.
Open Scope N_scope.

Definition show_frame (f : frame) : bytes :=
  b "(" ++ join [44] (map (fun kv => hex (fst kv) ++ [58] ++ hex (snd kv)) (f_fields f)) ++ b ")bin=" ++
  match f_binary f with Some d => hex d | None => [126] end.

Definition show_err (e : option err) : bytes :=
  match e with
  | None => b "err[none]"
  | Some e => b "err[" ++ show_N (e_code e) ++ [44] ++ show_N (e_index e) ++ [44] ++
              match e_command e with Some c => hex c | None => [126] end ++ [44] ++ hex (e_message e) ++ b "]"
  end.

Definition show_response (r : response) : bytes :=
  b "resp[" ++ join [47] (map show_frame (r_frames r)) ++ b "]" ++ show_err (r_error r).

Definition show_outcome (o : outcome) : bytes :=
  match o with
  | Resp r => show_response r
  | CleanEof => b "eof"
  | ErrInvalid => b "invalid"
  | ErrEof => b "ueof"
  | ErrIo _ => b "io"
  | Panic => b "PANIC"
  | OutOfFuel => b "OUT-OF-FUEL"
  end.

Definition policy0 (flavour : bytes) : policy :=
  if beq flavour (b "b") then Blocking (N.to_nat default_buffer_capacity) else Async.

Definition mk_reader (tail : bytes) (hs : list bytes) : reader :=
  mkReader (filter (fun c => negb (beq c [])) (map unhex hs))
           (if beq tail (b "err") then TFail 0 else TEof).

(* a reader with transient failures: the chunk list is cut at the markers "!"; at each marker one
   read fails (ErrIo) and the stream then goes on *)
Fixpoint split_parts (hs : list bytes) (cur : list bytes) : list (list bytes) :=
  match hs with
  | [] => [rev cur]
  | h :: r => if beq h [33] then rev cur :: split_parts r []
              else split_parts r (if beq h [] then cur else unhex h :: cur)
  end.

Fixpoint run_seq (fuel extra : nat) (c : conn) (cur : list bytes) (rest : list (list bytes)) (t : tail_kind) : list outcome :=
  match fuel with
  | O => []
  | S f =>
    match rest with
    | [] => run (S f) extra c (mkReader cur t)
    | nxt :: rest' =>
      match receive c (mkReader cur (TFail 0)) with
      | (Resp x, c', r') => Resp x :: run_seq f extra c' (chunks r') rest t
      | (ErrIo k, c', r') => ErrIo k :: run_seq f extra c' (chunks r' ++ nxt) rest' t
      | (o, c', r') => o :: match extra with O => [] | S e => run_seq f e c' (chunks r') rest t end
      end
    end
  end.

Definition run_conn (kind : bytes) (args : list bytes) : bytes :=
  match args with
  | flavour :: extra :: tail :: hs =>
    let r := mk_reader tail hs in
    let fuel := S (S (reader_bytes r)) in
    if beq kind (b "recv") then
      if existsb (fun h => beq h [33]) hs then
        match split_parts hs [] with
        | first :: rest =>
          let parts := map (filter (fun c => negb (beq c []))) (first :: rest) in
          let total := length (concat (concat parts)) in
          join (b " | ") (map show_outcome
            (run_seq (S (S total) + length parts + read_nat extra) (read_nat extra) (mkConn (policy0 flavour) [] Initial)
                     (hd [] parts) (tl parts) (if beq tail (b "err") then TFail 0 else TEof)))
        | [] => b "bad-case"
        end
      else
      join (b " | ") (map show_outcome (run (fuel + read_nat extra) (read_nat extra) (mkConn (policy0 flavour) [] Initial) r))
    else
      match connect (policy0 flavour) r with
      | (Connected v c, r') =>
        join (b " | ") ((b "connected:" ++ hex v) :: map show_outcome (run (fuel + read_nat extra) (read_nat extra) c r'))
      | (ConnInvalid, _) => b "connect:invalid"
      | (ConnEof, _) => b "connect:ueof"
      | (ConnIo _, _) => b "connect:io"
      | (ConnPanic, _) => b "PANIC"
      | (ConnOutOfFuel, _) => b "OUT-OF-FUEL"
      end
  | _ => b "bad-case"
  end.

Definition is_conn_kind (k : bytes) : bool := existsb (beq k) [b "recv"; b "conn"].
