(* DriverGrammar.v — case kind enc (C03): the SPEC-side encoder and well-formedness of Grammar.v as
   an executable, so that tools/props/c03.py can tie them to the Python generator it feeds the real
   connections with (tools/mpdgen.py enc_response / wf_response).

   enc <s|l> <error> <partial> <frame>*
     frame   := <fields>;<bin>;<binpos>      fields := ~ | hexkey:hexvalue(,hexkey:hexvalue)*
                                             bin    := ~ | hex payload     binpos := decimal
     error   := ~ | <code>,<index>,<cmd>,<hexmessage>     cmd := ~ | hex
     partial := ~ | frame
   (hex as everywhere: "-" is the empty byte string)
   prints   wf=<0|1> <hex of enc r> *)
From MPD Require Import Bytes Tables Show BuilderModel Grammar.
Open Scope N_scope.

Definition TILDE : bytes := [126].

Definition read_field (t : bytes) : bytes * bytes :=
  match split_on 58 t with
  | [k; v] => (unhex k, unhex v)
  | _ => ([], [])
  end.

Definition read_frame (t : bytes) : option aframe :=
  match split_on 59 t with
  | [fs; bn; pos] =>
    Some (mkAFrame (if beq fs TILDE then [] else map read_field (split_on 44 fs))
                   (if beq bn TILDE then None else Some (unhex bn))
                   (read_nat pos))
  | _ => None
  end.

Definition read_err (t : bytes) : option (option err) :=
  if beq t TILDE then Some None else
  match split_on 44 t with
  | [code; idx; cmd; msg] =>
    Some (Some (mkErr (read_N code) (read_N idx) (if beq cmd TILDE then None else Some (unhex cmd)) (unhex msg)))
  | _ => None
  end.

Fixpoint all_some {A} (l : list (option A)) : option (list A) :=
  match l with
  | [] => Some []
  | None :: _ => None
  | Some x :: r => option_map (cons x) (all_some r)
  end.

Definition read_aresp (args : list bytes) : option aresp :=
  match args with
  | form :: e :: p :: fs =>
    match read_err e, all_some (map read_frame fs) with
    | Some e', Some fs' =>
      let form' := if beq form (b "l") then FList else FSingle in
      if beq p TILDE then Some (mkAResp form' fs' e' None)
      else option_map (fun p' => mkAResp form' fs' e' (Some p')) (read_frame p)
    | _, _ => None
    end
  | _ => None
  end.

Definition run_grammar (kind : bytes) (args : list bytes) : bytes :=
  match read_aresp args with
  | Some r => words [kv "wf" (show_bool (wf_resp r)); hex (enc r)]
  | None => b "bad-case"
  end.

Definition is_grammar_kind (k : bytes) : bool := beq k (b "enc").
