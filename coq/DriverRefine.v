(* DriverRefine.v — case kind [loopfrag]: is a [loopm] case inside the fragment the refinement
   theorems (Props/C05.v, c05_exec_refines) quantify over?  Same arguments as [loopm]; the answer
   is "in" (no password, first label D0, every later label classified and good) or "out:<why>". *)
From MPD Require Import Bytes Tables Show ServerModel DriverLoop LoopRefine.
Open Scope N_scope.

Fixpoint first_bad (cf : sconf) (labs : list bytes) : option bytes :=
  match labs with
  | [] => None
  | l :: r =>
    match classify l with
    | Some g => if good cf g then first_bad cf r else Some l
    | None => Some l
    end
  end.

Definition run_loopfrag (args : list bytes) : bytes :=
  match args with
  | cspec :: conf :: d0 :: labs =>
    match split_on 58 cspec with
    | [_; _] => b "out:password"
    | _ =>
      if negb (beq d0 (b "D0")) then b "out:first-label"
      else match first_bad (parse_conf conf) labs with
           | None => b "in"
           | Some l => b "out:" ++ l
           end
    end
  | _ => b "out:short"
  end.

Definition is_refine_kind (k : bytes) : bool := beq k (b "loopfrag").
Definition run_refine_kind (kind : bytes) (args : list bytes) : bytes := run_loopfrag args.
