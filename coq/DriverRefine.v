(* DriverRefine.v — case kind [loopfrag]: is a [loopm] case inside the fragment the refinement
   theorems (Props/C05.v, c05_exec_refines) quantify over?  Same arguments as [loopm]; the answer
   is "in" (no password, first label D0, every later label classified and good) or "out:<why>".
   With cancellations (x<id>), which the refinement does not cover but the erasure theorem (Props/C01.v,
   c01_exec_cancel_session) reduces to the run without them: "in+x" when the label list is in that theorem's domain
   (cancel_ok: no h, no a, distinct request ids) and the list with every x replaced by t0 is in the fragment;
   "x-ok:<label>" when only the erasure theorem applies (<label> is the first one outside the fragment).
   With the event listener dropped (Z): the listener theorem (Props/C05.v c05_listener_erasure) reduces the run to the one with
   Z replaced by t0: "in+Z", "in+x+Z", or "Z-ok:<label>". *)
From MPD Require Import Bytes Tables Show ServerModel DriverLoop LoopRefine LoopCancel LoopMute.
Open Scope N_scope.

Fixpoint first_bad (cf : sconf) (labs : list bytes) : option bytes :=
  match labs with
  | [] => None
  | l :: r =>
    match classify l with
    | Some g => if good cf g then first_bad cf r else Some l
    | None => Some l
    end
  end.

Definition run_loopfrag (args : list bytes) : bytes :=
  match args with
  | cspec :: conf :: d0 :: labs =>
    match split_on 58 cspec with
    | [_; _] => b "out:password"
    | _ =>
      if negb (beq d0 (b "D0")) then b "out:first-label"
      else match first_bad (parse_conf conf) labs with
           | None => b "in"
           | Some l =>
             (* the listener theorem (Z -> t0) first, then the cancellation theorem (x -> t0) on what remains *)
             let hasz := existsb is_drop labs && mute_ok labs in
             let labs1 := if hasz then map mute_label labs else labs in
             let hasx := existsb is_cancel labs1 && cancel_ok [] labs1 in
             let labs2 := if hasx then map erase_label labs1 else labs1 in
             if hasz || hasx then
               match first_bad (parse_conf conf) labs2 with
               | None => b "in" ++ (if hasx then b "+x" else []) ++ (if hasz then b "+Z" else [])
               | Some l' => (if hasx then b "x-ok:" else b "Z-ok:") ++ l'
               end
             else b "out:" ++ l
           end
    end
  | _ => b "out:short"
  end.

Definition is_refine_kind (k : bytes) : bool := beq k (b "loopfrag").
Definition run_refine_kind (kind : bytes) (args : list bytes) : bytes := run_loopfrag args.
