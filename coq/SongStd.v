(* SongStd.v — models of the std / chrono behaviour that song decoding relies on (trusted,
   differential-tested through the harness), and the plain data types shared by the code model
   (SongModel.v) and the spec (SongSpec.v).  Nothing here describes code of /repo.

   Floats never appear: the text of an f64 literal is parsed syntactically, and
   [Duration::try_from_secs_f64 (str::parse::<f64> s)] is given as exact nanoseconds on the domain
   where std is exact (plain decimal, <= 9 fraction digits, integer part < 2^22: the f64 nearest to
   k/10^9 with k < 2^22*10^9 is within 2^-32 s < 0.5 ns of it and the conversion rounds to nearest),
   as an error where it certainly is one, and as [DOpaque] ("std decides") elsewhere. *)
From MPD Require Import Bytes TagModel.
Open Scope N_scope.

(* longest prefix satisfying p, and the rest *)
Fixpoint span (p : N -> bool) (s : bytes) : bytes * bytes :=
  match s with
  | a :: r => if p a then let (x, y) := span p r in (a :: x, y) else ([], s)
  | [] => ([], [])
  end.

(* str::split_once(c) *)
Fixpoint split_once (c : N) (s : bytes) : option (bytes * bytes) :=
  match s with
  | [] => None
  | a :: r => if a =? c then Some ([], r)
              else match split_once c r with Some (x, y) => Some (a :: x, y) | None => None end
  end.

(* ---------- <f64 as FromStr>: syntax only (core::num::dec2flt) ----------
   Float ::= Sign? ( 'inf' | 'infinity' | 'nan' | Number )      (words case-insensitive)
   Number ::= ( Digit+ | Digit+ '.' Digit* | Digit* '.' Digit+ ) Exp?     Exp ::= [eE] Sign? Digit+ *)
Inductive f64_syntax :=
  | FBad
  | FNan
  | FInf (neg : bool)
  | FNum (neg : bool) (ip fp : bytes) (ex : option (bool * bytes)).

Definition strip_sign (s : bytes) : bool * bytes :=
  match s with
  | 45 :: r => (true, r)
  | 43 :: r => (false, r)
  | _ => (false, s)
  end.

(* None = syntax error; Some None = no exponent *)
Definition parse_exp (s : bytes) : option (option (bool * bytes)) :=
  match s with
  | [] => Some None
  | c :: r =>
    if (c =? 101) || (c =? 69) then
      let (neg, r') := strip_sign r in
      let (ds, rest) := span is_digit r' in
      match ds, rest with
      | _ :: _, [] => Some (Some (neg, ds))
      | _, _ => None
      end
    else None
  end.

Definition parse_number (s : bytes) : option (bytes * bytes * option (bool * bytes)) :=
  let (ip, r1) := span is_digit s in
  let (fp, r2) := match r1 with 46 :: r => span is_digit r | _ => ([], r1) end in
  match ip, fp with
  | [], [] => None
  | _, _ => match parse_exp r2 with Some e => Some (ip, fp, e) | None => None end
  end.

Definition parse_f64 (s : bytes) : f64_syntax :=
  let (neg, r) := strip_sign s in
  match parse_number r with
  | Some (ip, fp, e) => FNum neg ip fp e
  | None =>
    if eq_ignore_case r (b "nan") then FNan
    else if eq_ignore_case r (b "inf") || eq_ignore_case r (b "infinity") then FInf neg
    else FBad
  end.

(* ---------- Duration::try_from_secs_f64 (parse::<f64> s) ---------- *)
Inductive dur := DNanos (n : N) | DOpaque.
Inductive dres := DurOk (d : dur) | DurErr.

Definition frac_nanos (fp : bytes) : N := dec_value fp * 10 ^ (9 - N.of_nat (length fp)).

Definition std_duration (s : bytes) : dres :=
  match parse_f64 s with
  | FBad | FNan | FInf _ => DurErr
  | FNum neg ip fp None =>
    if (N.of_nat (length fp) <=? 9) && (dec_value ip <? 2 ^ 22) then
      let n := dec_value ip * 10 ^ 9 + frac_nanos fp in
      if neg then (if n =? 0 then DurOk (DNanos 0) else DurErr) else DurOk (DNanos n)
    else if neg then (if 1 <=? dec_value ip then DurErr else DurOk DOpaque)
    else if 2 ^ 65 <=? dec_value ip then DurErr
    else DurOk DOpaque
  | FNum _ _ _ (Some _) => DurOk DOpaque
  end.

(* ---------- chrono::DateTime::parse_from_rfc3339 as an oracle ----------
   canonical UTC text YYYY-MM-DDTHH:MM:SSZ with day <= 28 is accepted; anything shorter than 20
   bytes is rejected; everything else: chrono decides. *)
Inductive ts_class := TsOk | TsErr | TsOpaque.

Definition two (a c : N) : N := (a - 48) * 10 + (c - 48).

Definition ts_classify (s : bytes) : ts_class :=
  if Nat.ltb (length s) 20 then TsErr else
  match s with
  | [y1; y2; y3; y4; 45; m1; m2; 45; d1; d2; 84; h1; h2; 58; n1; n2; 58; s1; s2; 90] =>
    if forallb is_digit [y1; y2; y3; y4; m1; m2; d1; d2; h1; h2; n1; n2; s1; s2]
       && in_range 1 12 (two m1 m2) && in_range 1 28 (two d1 d2)
       && (two h1 h2 <? 24) && (two n1 n2 <? 60) && (two s1 s2 <? 60)
    then TsOk else TsOpaque
  | _ => TsOpaque
  end.

(* Timestamp: the raw text is kept verbatim; [ts_sure = false] marks "chrono decides" *)
Record ts := mkTs { ts_raw : bytes; ts_sure : bool }.

(* feature chrono on: the oracle decides; off: every text is accepted.  None = rejected *)
Definition std_timestamp (chrono : bool) (s : bytes) : option ts :=
  if chrono then
    match ts_classify s with
    | TsOk => Some (mkTs s true)
    | TsErr => None
    | TsOpaque => Some (mkTs s false)
    end
  else Some (mkTs s true).

(* ---------- the decoded values (what Song / SongInQueue hold) ---------- *)
Definition tagmap := list (tag * list bytes).   (* HashMap<Tag, Vec<String>>: one entry per key *)
Definition srange := (dur * option dur)%type.   (* SongRange { from, to } *)

Record song := mkSong {
  s_url : bytes; s_duration : option dur; s_tags : tagmap; s_format : option bytes; s_lm : option ts }.
Record qsong := mkQ {
  q_pos : N; q_id : N; q_range : option srange; q_prio : N; q_song : song }.
