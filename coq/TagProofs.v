From Coq Require Import ZifyBool ZifyN ZifyNat.
From MPD Require Import Bytes Tables TagModel TagSpec.
Open Scope N_scope.

(* ---------- generic facts about byte strings ---------- *)

Lemma bcmp_eq x y : bcmp x y = Eq <-> x = y.
Proof.
  revert y; induction x as [|a x IH]; intros [|c y]; simpl; split; intro H; try congruence.
  - destruct (a ?= c) eqn:E; try discriminate. apply N.compare_eq in E. apply IH in H. congruence.
  - inversion H; subst. rewrite N.compare_refl. apply IH. reflexivity.
Qed.

Lemma bcmp_antisym x y : bcmp y x = CompOpp (bcmp x y).
Proof.
  revert y; induction x as [|a x IH]; intros [|c y]; simpl; try reflexivity.
  rewrite (N.compare_antisym a c). destruct (a ?= c); simpl; auto.
Qed.

Lemma bcmp_lt_trans x y z : bcmp x y = Lt -> bcmp y z = Lt -> bcmp x z = Lt.
Proof.
  revert y z; induction x as [|a x IH]; intros [|c y] [|d z]; simpl; try congruence.
  destruct (a ?= c) eqn:E1; destruct (c ?= d) eqn:E2; try discriminate; intros H1 H2.
  - apply N.compare_eq in E1, E2. subst. rewrite N.compare_refl. eauto.
  - apply N.compare_eq in E1. subst. rewrite E2. reflexivity.
  - apply N.compare_eq in E2. subst. rewrite E1. reflexivity.
  - assert (a < d) by (change (a < c) in E1; change (c < d) in E2; lia).
    change ((a ?= d) = Lt) in H. rewrite H. reflexivity.
Qed.

Lemma eq_ignore_case_lower s s' p :
  map to_lower s = map to_lower s' -> eq_ignore_case s p = eq_ignore_case s' p.
Proof. unfold eq_ignore_case. intros ->. reflexivity. Qed.

Lemma lookup_row_lower tbl s s' :
  map to_lower s = map to_lower s' -> lookup_row tbl s = lookup_row tbl s'.
Proof.
  intros H. induction tbl as [|[p v] r IH]; simpl; [reflexivity|].
  rewrite (eq_ignore_case_lower s s' p H), IH. reflexivity.
Qed.

Lemma index_of_none p s : index_of p s = None <-> forallb (fun c => negb (p c)) s = true.
Proof.
  induction s as [|a r IH]; simpl; [tauto|].
  destruct (p a); simpl; [split; discriminate|].
  destruct (index_of p r); simpl in *; split; intro H; try discriminate; try (apply IH; assumption).
  apply IH in H. discriminate.
Qed.

Lemma index_of_some p s n : index_of p s = Some n ->
  exists c, nth_error s n = Some c /\ p c = true /\ forallb (fun c => negb (p c)) (firstn n s) = true.
Proof.
  revert n; induction s as [|a r IH]; simpl; intros n H; [discriminate|].
  destruct (p a) eqn:E.
  - inversion H; subst. exists a. simpl. auto.
  - destruct (index_of p r) as [m|]; simpl in H; [|discriminate]. inversion H; subst.
    destruct (IH m eq_refl) as (c & H1 & H2 & H3). exists c. simpl. rewrite E. simpl. auto.
Qed.

(* ---------- the charset is closed under ASCII case folding ---------- *)

Lemma charset_fold_closed_bytes :
  forallb (fun c => forallb (fun d =>
     implb ((to_lower c =? to_lower d) && tag_charset d) (tag_charset c)) bytes256) bytes256 = true.
Proof. vm_compute. reflexivity. Qed.

Lemma to_lower_small c d : to_lower c = to_lower d -> d < 256 -> c < 256.
Proof.
  unfold to_lower, is_upper, in_range. intros H Hd.
  destruct ((65 <=? c) && (c <=? 90)) eqn:E1; destruct ((65 <=? d) && (d <=? 90)) eqn:E2; lia.
Qed.

Lemma charset_fold_closed c d :
  d < 256 -> to_lower c = to_lower d -> tag_charset d = true -> tag_charset c = true.
Proof.
  intros Hd Hl Hc. assert (Hcb : c < 256) by (eapply to_lower_small; eauto).
  pose proof charset_fold_closed_bytes as H.
  rewrite forallb_forall in H. specialize (H c (in_bytes256 c Hcb)).
  rewrite forallb_forall in H. specialize (H d (in_bytes256 d Hd)).
  rewrite Hl, N.eqb_refl, Hc in H. simpl in H. exact H.
Qed.

(* ---------- finite facts about the generated tables (complete enumeration) ---------- *)

Lemma all_tagv_complete v : In v all_tagv.
Proof. destruct v; vm_compute; tauto. Qed.

Lemma all_subv_complete v : In v all_subv.
Proof. destruct v; vm_compute; tauto. Qed.

Definition tagv_eqb (a c : tagv) : bool := Nat.eqb (tagv_index a) (tagv_index c).

Lemma tagv_eqb_eq a c : tagv_eqb a c = true -> a = c.
Proof. destruct a, c; vm_compute; intro H; try reflexivity; discriminate. Qed.

Lemma names_are_bytes_in_charset :
  forallb (fun v => forallb (fun c => (c <? 256) && tag_charset c) (tag_name v)
                    && negb (beq (tag_name v) [])) all_tagv = true.
Proof. vm_compute. reflexivity. Qed.

Lemma roundtrip_table :
  forallb (fun v => match tag_try_from (tag_name v) with
                    | TagOk (Named w) => tagv_eqb v w
                    | _ => false end) all_tagv = true.
Proof. vm_compute. reflexivity. Qed.

Lemma parse_table_sound_b :
  forallb (fun pv => beq (tag_name (snd pv)) (fst pv)) tag_parse_table = true.
Proof. vm_compute. reflexivity. Qed.

Lemma sub_table_sound_b :
  forallb (fun pv => beq (sub_name (snd pv)) (fst pv)) sub_parse_table = true.
Proof. vm_compute. reflexivity. Qed.

Lemma sub_table_complete_b :
  forallb (fun v => match sub_from_name (sub_name v) with
                    | SNamed w => Nat.eqb (subv_index v) (subv_index w)
                    | SOther _ => false end) all_subv = true.
Proof. vm_compute. reflexivity. Qed.

Lemma charsets_agree_b :
  forallb (fun c => Bool.eqb (tag_charset c) (parser_key_charset c)) bytes256 = true.
Proof. vm_compute. reflexivity. Qed.

(* ---------- the theorems ---------- *)

Lemma tag_roundtrip v : tag_try_from (tag_name v) = TagOk (Named v).
Proof.
  pose proof roundtrip_table as H. rewrite forallb_forall in H.
  specialize (H v (all_tagv_complete v)).
  destruct (tag_try_from (tag_name v)) as [[w|]| |]; try discriminate.
  apply tagv_eqb_eq in H. congruence.
Qed.

Lemma parse_table_sound : Forall (fun pv => tag_name (snd pv) = fst pv) tag_parse_table.
Proof.
  apply Forall_forall. intros pv Hin. pose proof parse_table_sound_b as H.
  rewrite forallb_forall in H. apply beq_eq. apply H. exact Hin.
Qed.

Lemma name_facts v :
  tag_name v <> [] /\ Forall (fun c => c < 256 /\ tag_charset c = true) (tag_name v).
Proof.
  pose proof names_are_bytes_in_charset as H. rewrite forallb_forall in H.
  specialize (H v (all_tagv_complete v)). apply andb_true_iff in H as [H1 H2].
  split.
  - intro E. rewrite E in H2. discriminate.
  - apply Forall_forall. intros c Hc. rewrite forallb_forall in H1. specialize (H1 c Hc).
    apply andb_true_iff in H1 as [Ha Hb]. apply N.ltb_lt in Ha. auto.
Qed.

Lemma lower_eq_charset s n :
  map to_lower s = map to_lower n ->
  Forall (fun c => c < 256 /\ tag_charset c = true) n ->
  forallb (fun c => negb (negb (tag_charset c))) s = true.
Proof.
  revert n; induction s as [|a s IH]; intros [|d n] H Hn; simpl in *; try discriminate; [reflexivity|].
  inversion H. inversion Hn as [|? ? [Hd Hc] Hn']; subst.
  rewrite (charset_fold_closed a d Hd H1 Hc). simpl. eapply IH; eauto.
Qed.

Definition valid_name (s : bytes) : Prop := s <> [] /\ Forall (fun c => tag_charset c = true) s.

Lemma try_from_valid s : valid_name s ->
  tag_try_from s = match lookup_row tag_parse_table s with
                   | Some v => TagOk (Named v) | None => TagOk (Other s) end.
Proof.
  intros [Hne Hcs]. unfold tag_try_from. destruct s as [|a r]; [congruence|].
  destruct (index_of (fun c => negb (tag_charset c)) (a :: r)) eqn:E; [|reflexivity].
  apply index_of_some in E as (c & H1 & H2 & _). apply nth_error_In in H1.
  rewrite Forall_forall in Hcs. rewrite (Hcs c H1) in H2. discriminate.
Qed.

Lemma forallb_negb_negb s :
  forallb (fun c => negb (negb (tag_charset c))) s = true -> Forall (fun c => tag_charset c = true) s.
Proof.
  intros H. apply Forall_forall. intros c Hc. rewrite forallb_forall in H. specialize (H c Hc).
  destruct (tag_charset c); [reflexivity | discriminate].
Qed.

Lemma case_insensitive s v :
  eq_ignore_case s (tag_name v) = true -> tag_try_from s = TagOk (Named v).
Proof.
  intros H. unfold eq_ignore_case in H. apply beq_eq in H.
  destruct (name_facts v) as [Hne Hcs].
  assert (Hvs : valid_name s).
  { split.
    - intro E. subst s. destruct (tag_name v); [congruence | discriminate].
    - apply forallb_negb_negb. eapply lower_eq_charset; eauto. }
  assert (Hvn : valid_name (tag_name v)).
  { split; [assumption|]. eapply Forall_impl; [|exact Hcs]. intros c [_ Hc]. exact Hc. }
  rewrite (try_from_valid s Hvs).
  rewrite (lookup_row_lower tag_parse_table s (tag_name v) H).
  pose proof (tag_roundtrip v) as Hrt. rewrite (try_from_valid _ Hvn) in Hrt.
  destruct (lookup_row tag_parse_table (tag_name v)); [exact Hrt | discriminate].
Qed.

Lemma rejects_empty : tag_try_from [] = TagEmpty.
Proof. reflexivity. Qed.

Lemma rejects_bad_char s c :
  In c s -> tag_charset c = false -> exists pos, tag_try_from s = TagInvalidChar pos.
Proof.
  intros Hin Hc. unfold tag_try_from. destruct s as [|a r]; [destruct Hin|].
  destruct (index_of (fun c => negb (tag_charset c)) (a :: r)) as [pos|] eqn:E; [eauto|].
  apply index_of_none in E. rewrite forallb_forall in E. specialize (E c Hin).
  rewrite Hc in E. discriminate.
Qed.

Lemma accepts_iff s :
  (exists t, tag_try_from s = TagOk t) <->
  (s <> [] /\ Forall (fun c => tag_charset c = true) s).
Proof.
  unfold tag_try_from. destruct s as [|a r].
  - split; [intros [t H]; discriminate | intros [H _]; congruence].
  - destruct (index_of (fun c => negb (tag_charset c)) (a :: r)) as [pos|] eqn:E.
    + split; [intros [t H]; discriminate|]. intros [_ H].
      apply index_of_some in E as (c & H1 & H2 & _). apply nth_error_In in H1.
      rewrite Forall_forall in H. rewrite (H c H1) in H2. discriminate.
    + split; [|intros _; destruct (lookup_row _ _); eauto].
      intros _. split; [discriminate|]. apply index_of_none in E.
      apply Forall_forall. intros c Hc. rewrite forallb_forall in E. specialize (E c Hc).
      destruct (tag_charset c); [reflexivity | discriminate].
Qed.

Lemma charset_is_protocol c : c < 256 -> tag_charset c = parser_key_charset c.
Proof.
  intros H. pose proof charsets_agree_b as Hb. rewrite forallb_forall in Hb.
  specialize (Hb c (in_bytes256 c H)). apply Bool.eqb_prop in Hb. exact Hb.
Qed.

Lemma other_verbatim s s' : tag_try_from s = TagOk (Other s') -> s' = s.
Proof.
  unfold tag_try_from. destruct s as [|a r]; [discriminate|].
  destruct (index_of _ _); [discriminate|]. destruct (lookup_row _ _); congruence.
Qed.

Lemma tag_eq_iff t u : tag_eq t u = true <-> tag_as_str t = tag_as_str u.
Proof. apply beq_eq. Qed.

Lemma tag_cmp_eq_iff t u : tag_cmp t u = Eq <-> tag_eq t u = true.
Proof. unfold tag_cmp. rewrite bcmp_eq, tag_eq_iff. tauto. Qed.

Section Hash.
  Variable H : bytes -> N.   (* any hasher: Hash for Tag feeds exactly as_str to it *)
  Definition tag_hash (t : tag) : N := H (tag_as_str t).
  Definition sub_hash (s : subsystem) : N := H (sub_as_str s).
  Lemma tag_hash_coherent t u : tag_eq t u = true -> tag_hash t = tag_hash u.
  Proof. intros E. apply tag_eq_iff in E. unfold tag_hash. rewrite E. reflexivity. Qed.
  Lemma sub_hash_coherent s u : sub_eq s u = true -> sub_hash s = sub_hash u.
  Proof. intros E. apply beq_eq in E. unfold sub_hash. rewrite E. reflexivity. Qed.
End Hash.

Lemma sub_lookup_sound tbl s v :
  Forall (fun pv => sub_name (snd pv) = fst pv) tbl -> sub_lookup tbl s = Some v -> sub_name v = s.
Proof.
  induction tbl as [|[p w] r IH]; simpl; intros Hf H; [discriminate|].
  inversion Hf; subst. destruct (beq s p) eqn:E.
  - apply beq_eq in E. inversion H; subst. assumption.
  - auto.
Qed.

Lemma subsystem_name_preserved s : sub_as_str (sub_from_name s) = s.
Proof.
  unfold sub_from_name. destruct (sub_lookup sub_parse_table s) as [v|] eqn:E; [|reflexivity].
  simpl. eapply sub_lookup_sound; [|exact E].
  apply Forall_forall. intros pv Hin. pose proof sub_table_sound_b as Hb.
  rewrite forallb_forall in Hb. apply beq_eq. apply Hb. exact Hin.
Qed.

Lemma subsystem_named_roundtrip v : sub_from_name (sub_name v) = SNamed v.
Proof.
  pose proof sub_table_complete_b as H. rewrite forallb_forall in H.
  specialize (H v (all_subv_complete v)).
  destruct (sub_from_name (sub_name v)) as [w|]; [|discriminate].
  f_equal. destruct v, w; vm_compute in H; try reflexivity; discriminate.
Qed.

(* ---------- round trip of a tag's own protocol name, and the known-failing class ---------- *)

(* K-C20 / D13: a catch-all value holding a known name in non-canonical letter case *)
Definition noncanonical_known (t : tag) : Prop :=
  exists s v, t = Other s /\ lookup_row tag_parse_table s = Some v /\ s <> tag_name v.

Lemma roundtrip_all t :
  valid_name (tag_as_str t) -> ~ noncanonical_known t ->
  exists u, tag_try_from (tag_as_str t) = TagOk u /\ tag_eq u t = true.
Proof.
  intros Hv Hk. destruct t as [v|s]; simpl in *.
  - exists (Named v). split; [apply tag_roundtrip | apply beq_refl].
  - rewrite (try_from_valid s Hv). destruct (lookup_row tag_parse_table s) as [v|] eqn:E.
    + exists (Named v). split; [reflexivity|]. apply tag_eq_iff. simpl.
      destruct (beq s (tag_name v)) eqn:B; [apply beq_eq in B; congruence|].
      exfalso. apply Hk. exists s, v. repeat split; auto. intro Heq. rewrite Heq, beq_refl in B. discriminate.
    + exists (Other s). split; [reflexivity | apply beq_refl].
Qed.

Lemma roundtrip_refuted :
  exists t, valid_name (tag_as_str t) /\ noncanonical_known t /\
            forall u, tag_try_from (tag_as_str t) = TagOk u -> tag_eq u t = false.
Proof.
  exists (Other (b "album")). split; [|split].
  - split; [discriminate|]. repeat constructor.
  - exists (b "album"), T_Album. split; [reflexivity|]. split; [vm_compute; reflexivity | discriminate].
  - intros u H. vm_compute in H. inversion H; subst. vm_compute. reflexivity.
Qed.

(* ---------- spec side: the names the library uses are MPD's ---------- *)

Lemma names_are_mpd_names : forall v, In (tag_name v) mpd_tag_names.
Proof.
  assert (H : names_are_mpd_names_b = true) by (vm_compute; reflexivity).
  intros v. unfold names_are_mpd_names_b in H. rewrite forallb_forall in H.
  specialize (H v (all_tagv_complete v)). apply existsb_exists in H as (n & Hin & He).
  apply beq_eq in He. rewrite He. exact Hin.
Qed.

Lemma names_distinct : forall v w, eq_ignore_case (tag_name v) (tag_name w) = true -> v = w.
Proof.
  assert (H : names_distinct_b = true) by (vm_compute; reflexivity).
  intros v w E. unfold names_distinct_b in H. rewrite forallb_forall in H.
  specialize (H v (all_tagv_complete v)). rewrite forallb_forall in H.
  specialize (H w (all_tagv_complete w)). rewrite E in H. simpl in H.
  rewrite orb_false_r in H. apply tagv_eqb_eq. exact H.
Qed.

Lemma sub_names_are_mpd_names : forall v, In (sub_name v) mpd_subsystem_names.
Proof.
  assert (H : sub_names_are_mpd_names_b = true) by (vm_compute; reflexivity).
  intros v. unfold sub_names_are_mpd_names_b in H. rewrite forallb_forall in H.
  specialize (H v (all_subv_complete v)). apply existsb_exists in H as (n & Hin & He).
  apply beq_eq in He. rewrite He. exact Hin.
Qed.
