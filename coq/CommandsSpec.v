(* CommandsSpec.v — SPEC SIDE, trusted: what the MPD protocol reference (doc/protocol.rst, MPD
   0.23, "Command reference"; written from memory) documents for each request the library's
   predefined commands stand for: the command word, the argument positions, and the MEANING of
   each argument.  Nothing here looks at how the library renders anything: the table below maps
   an abstract constructor path to (word, meanings), and [satb]/[sat] say when a token that MPD's
   tokenizer produced carries a meaning.

     playlistinfo [[SONGPOS] | [START:END]]      playlistid [SONGID]
     play [SONGPOS]   playid [SONGID]            seek SONGPOS TIME   seekid SONGID TIME
     seekcur TIME  (TIME prefixed with + or - is relative to the current position)
     setvol VOL  (0..100)      single 0|1|oneshot       replay_gain_mode off|track|album|auto
     consume|pause|random|repeat 0|1              crossfade SECONDS
     shuffle [START:END]       delete [POS | START:END]      deleteid SONGID
     move [FROM | START:END] TO     moveid FROM TO      (TO may be +N / -N: relative to the current song)
     addid URI [POSITION]      (POSITION may be +N / -N)
     find FILTER [sort TYPE] [window START:END]
     list TYPE [FILTER] [group GROUPTYPE]...      count [FILTER] [group GROUPTYPE]
     rename NAME NEW_NAME   load NAME [START:END]   playlistadd NAME URI [POSITION]
     playlistdelete NAME SONGPOS|START:END        playlistmove NAME FROM TO
     playlistclear NAME   rm NAME   save NAME   listplaylistinfo NAME   listallinfo [URI]
     binarylimit SIZE   albumart URI OFFSET   readpicture URI OFFSET
     tagtypes | tagtypes all | tagtypes clear | tagtypes disable NAME... | tagtypes enable NAME...
     sticker get|delete TYPE URI NAME   sticker set TYPE URI NAME VALUE   sticker list TYPE URI
     sticker find TYPE URI NAME [=|<|> VALUE]
     update [URI]   rescan [URI]   subscribe NAME   unsubscribe NAME   sendmessage CHANNEL TEXT
     clear next previous stop ping status stats currentsong listplaylists channels readmessages
     replay_gain_status

   Ranges: START:END denotes the positions {p | START <= p < END}; START: denotes {p | START <= p};
   a bare number N denotes {N}.  (MPD additionally refuses numbers above 2^32-1; no queue position
   is that large, and the comparison below is made on mathematical integers.) *)
From MPD Require Import Bytes Tables TagModel MpdTokenizer CommandsParams.
Open Scope N_scope.

(* ---------- what an argument can mean ---------- *)
Inductive meaning :=
  | MNumber (n : N)                       (* a non-negative integer *)
  | MBool (x : bool)                      (* 0 | 1 *)
  | MPositions (lo hi : bound)            (* the queue positions inside the Rust range lo..hi *)
  | MPosition (p : N)                     (* exactly the queue position p, written as a range *)
  | MRelative (p : pos_or_rel)            (* POSITION, or +N / -N relative to the current song *)
  | MTime (secs nanos : N)                (* a time in seconds, millisecond resolution *)
  | MSeekTime (m : seek_mode) (secs nanos : N)   (* the same with the +/- prefix of seekcur *)
  | MKeyword (k : bytes)
  | MString (s : bytes)                   (* one string argument, these bytes *)
  | MTag (t : tag)                        (* a tag type name *)
  | MFilter (f : sfilter).                (* a filter expression *)

Definition COLON : N := 58.
Definition MAXPOS : N := 2 ^ 64 - 1.      (* positions below usize::MAX are compared *)

(* membership in a Rust range value (RangeBounds::contains) *)
Definition in_rust_range (lo hi : bound) (p : N) : bool :=
  (match lo with Included a => a <=? p | Excluded a => a <? p | Unbounded => true end)
  && (match hi with Included z => p <=? z | Excluded z => p <? z | Unbounded => true end).

Definition all_digits (s : bytes) : bool := negb (beq s []) && forallb is_digit s.

(* the set of positions an MPD range argument denotes *)
Definition denote_range (t : bytes) : option (N -> bool) :=
  match split_on COLON t with
  | [s] => if all_digits s then Some (fun p => p =? dec_value s) else None
  | [s; e] =>
    if all_digits s then
      match e with
      | [] => Some (fun p => dec_value s <=? p)
      | _ => if all_digits e then Some (fun p => (dec_value s <=? p) && (p <? dec_value e)) else None
      end
    else None
  | _ => None
  end.

Definition denote_number (t : bytes) : option N := if all_digits t then Some (dec_value t) else None.

(* SECONDS.mmm -> milliseconds *)
Definition denote_time_ms (t : bytes) : option N :=
  match split_on 46 t with
  | [i; f] => if all_digits i && all_digits f && Nat.eqb (length f) 3
              then Some (dec_value i * 1000 + dec_value f) else None
  | _ => None
  end.

(* millisecond rounding (half a millisecond) plus the relative precision 2^-52 of the double the
   time passes through; for secs < 2^32 the second term is below one microsecond *)
Definition time_tolerance_ns (total_ns : N) : N := 500000 + total_ns / 2 ^ 52 + 2.
Definition time_close (secs nanos ms : N) : bool :=
  let t := secs * 1000000000 + nanos in
  let m := ms * 1000000 in
  (m <=? t + time_tolerance_ns t) && (t <=? m + time_tolerance_ns t).

Definition number_is (t : bytes) (n : N) : bool :=
  match denote_number t with Some v => v =? n | None => false end.

(* the filter grammar of the reference: (TAG OP "VALUE"), quotes and backslashes of VALUE
   protected by a backslash; (!EXPR) negates *)
Definition filter_quote (v : bytes) : bytes :=
  flat_map (fun c => if (c =? BS) || (c =? DQ) then [BS; c] else [c]) v.
Definition filter_expr (f : sfilter) : bytes :=
  let e := [40] ++ tag_as_str (f_tag f) ++ [SP] ++ operator_str (f_op f) ++ [SP; DQ]
           ++ filter_quote (f_value f) ++ [DQ; 41] in
  if f_neg f then [40; 33] ++ e ++ [41] else e.

Definition probes (lo hi : bound) : list N :=
  let around b := match b with
                  | Included a | Excluded a => [a - 1; a; a + 1]
                  | Unbounded => []
                  end in
  [0; 1; MAXPOS - 1] ++ around lo ++ around hi.

(* executable judgement used by the oracle: sets are compared on the probe positions only *)
Definition satb (m : meaning) (t : bytes) : bool :=
  match m with
  | MNumber n => number_is t n
  | MBool x => beq t (if x then [49] else [48])
  | MPositions lo hi =>
    match denote_range t with
    | Some f => forallb (fun p => negb (p <? MAXPOS) || Bool.eqb (f p) (in_rust_range lo hi p)) (probes lo hi)
    | None => false
    end
  | MPosition p =>
    match denote_range t with
    | Some f => forallb (fun q => negb (q <? MAXPOS) || Bool.eqb (f q) (q =? p)) [0; 1; p - 1; p; p + 1; MAXPOS - 1]
    | None => false
    end
  | MRelative (Absolute p) => number_is t p
  | MRelative (AfterCurrent n) => match t with 43 :: r => number_is r n | _ => false end
  | MRelative (BeforeCurrent n) => match t with 45 :: r => number_is r n | _ => false end
  | MTime s n => match denote_time_ms t with Some ms => time_close s n ms | None => false end
  | MSeekTime SeekAbsolute s n => match denote_time_ms t with Some ms => time_close s n ms | None => false end
  | MSeekTime SeekForward s n =>
    match t with 43 :: r => match denote_time_ms r with Some ms => time_close s n ms | None => false end | _ => false end
  | MSeekTime SeekBackward s n =>
    match t with 45 :: r => match denote_time_ms r with Some ms => time_close s n ms | None => false end | _ => false end
  | MKeyword k => beq t k
  | MString s => beq t s
  | MTag tg => beq t (tag_as_str tg)
  | MFilter f => beq t (filter_expr f)
  end.

(* the judgement the theorems are about: sets are compared on EVERY position below usize::MAX *)
Definition sat (m : meaning) (t : bytes) : Prop :=
  match m with
  | MPositions lo hi =>
    exists f, denote_range t = Some f /\ forall p, p < MAXPOS -> f p = in_rust_range lo hi p
  | MPosition p =>
    exists f, denote_range t = Some f /\ forall q, q < MAXPOS -> f q = (q =? p)
  | _ => satb m t = true
  end.

(* ---------- the reference table ---------- *)
Definition opt {A} (o : option A) (f : A -> list meaning) : list meaning :=
  match o with Some x => f x | None => [] end.
Definition kw (s : string) : meaning := MKeyword (b s).
Definition song_word (by_pos by_id : string) (s : song) : bytes * meaning :=
  match s with SongPos p => (b by_pos, MNumber p) | SongId i => (b by_id, MNumber i) end.
Definition positions (r : bound * bound) : meaning := MPositions (fst r) (snd r).

(* None: the constructor is documented to panic for these parameters *)
Definition spec (x : predef) : option (bytes * list meaning) :=
  match x with
  | PClearQueue => Some (b "clear", [])
  | PNext => Some (b "next", [])
  | PPing => Some (b "ping", [])
  | PPrevious => Some (b "previous", [])
  | PStop => Some (b "stop", [])
  | PReplayGainStatus => Some (b "replay_gain_status", [])
  | PStatus => Some (b "status", [])
  | PStats => Some (b "stats", [])
  | PQueue => Some (b "playlistinfo", [])
  | PQueueAll => Some (b "playlistinfo", [])
  | PCurrentSong => Some (b "currentsong", [])
  | PGetPlaylists => Some (b "listplaylists", [])
  | PGetEnabledTagTypes => Some (b "tagtypes", [])
  | PReadChannelMessages => Some (b "readmessages", [])
  | PListChannels => Some (b "channels", [])
  | PClearPlaylist s => Some (b "playlistclear", [MString s])
  | PDeletePlaylist s => Some (b "rm", [MString s])
  | PSaveQueueAsPlaylist s => Some (b "save", [MString s])
  | PSubscribeToChannel s => Some (b "subscribe", [MString s])
  | PUnsubscribeFromChannel s => Some (b "unsubscribe", [MString s])
  | PGetPlaylist s => Some (b "listplaylistinfo", [MString s])
  | PSetConsume x => Some (b "consume", [MBool x])
  | PSetPause x => Some (b "pause", [MBool x])
  | PSetRandom x => Some (b "random", [MBool x])
  | PSetRepeat x => Some (b "repeat", [MBool x])
  | PQueueSong s => let wm := song_word "playlistinfo" "playlistid" s in Some (fst wm, [snd wm])
  | PQueueRangeSong s => let wm := song_word "playlistinfo" "playlistid" s in Some (fst wm, [snd wm])
  | PQueueRange lo hi => Some (b "playlistinfo", [MPositions lo hi])
  | PQueueRangeRange lo hi => Some (b "playlistinfo", [MPositions lo hi])
  | PSetVolume v => Some (b "setvol", [MNumber (if v <=? 100 then v else 100)])
  | PSetSingle SingleDisabled => Some (b "single", [kw "0"])
  | PSetSingle SingleEnabled => Some (b "single", [kw "1"])
  | PSetSingle SingleOneshot => Some (b "single", [kw "oneshot"])
  | PSetReplayGainMode RgOff => Some (b "replay_gain_mode", [kw "off"])
  | PSetReplayGainMode RgTrack => Some (b "replay_gain_mode", [kw "track"])
  | PSetReplayGainMode RgAlbum => Some (b "replay_gain_mode", [kw "album"])
  | PSetReplayGainMode RgAuto => Some (b "replay_gain_mode", [kw "auto"])
  | PCrossfade secs _ => Some (b "crossfade", [MNumber secs])         (* whole seconds, rounded down *)
  | PSeekTo s secs nanos => let wm := song_word "seek" "seekid" s in Some (fst wm, [snd wm; MTime secs nanos])
  | PSeek m secs nanos => Some (b "seekcur", [MSeekTime m secs nanos])
  | PShuffleAll => Some (b "shuffle", [])
  | PShuffleRange lo hi => Some (b "shuffle", [MPositions lo hi])
  | PPlayCurrent => Some (b "play", [])
  | PPlaySong s => let wm := song_word "play" "playid" s in Some (fst wm, [snd wm])
  | PAdd uri pos => Some (b "addid", MString uri :: opt pos (fun p => [MRelative p]))
  | PDeleteId id => Some (b "deleteid", [MNumber id])
  | PDeletePosition p => Some (b "delete", [MPosition p])
  | PDeleteRange lo hi => Some (b "delete", [MPositions lo hi])
  | PMove (MfId id) to => Some (b "moveid", [MNumber id; MRelative to])
  | PMove (MfPosition p) to => Some (b "move", [MPosition p; MRelative to])
  | PMove (MfRange lo hi) to =>
    match hi with
    | Unbounded => None           (* "If a range with an open end is passed, this will panic" *)
    | _ => Some (b "move", [MPositions lo hi; MRelative to])
    end
  | PFind f sort window =>
    Some (b "find", MFilter f :: opt sort (fun t => [kw "sort"; MTag t]) ++ opt window (fun w => [kw "window"; positions w]))
  | PList t f groups =>
    Some (b "list", MTag t :: opt f (fun x => [MFilter x]) ++ flat_map (fun g => [kw "group"; MTag g]) groups)
  | PCount f => Some (b "count", [MFilter f])
  | PCountGroupBy f g => Some (b "count", [MFilter f; kw "group"; MTag g])
  | PCountGrouped g f => Some (b "count", opt f (fun x => [MFilter x]) ++ [kw "group"; MTag g])
  | PRenamePlaylist from to => Some (b "rename", [MString from; MString to])
  | PLoadPlaylist name r => Some (b "load", MString name :: opt r (fun w => [positions w]))
  | PAddToPlaylist pl url pos => Some (b "playlistadd", [MString pl; MString url] ++ opt pos (fun p => [MNumber p]))
  | PRemoveFromPlaylistPosition pl p => Some (b "playlistdelete", [MString pl; MNumber p])
  | PRemoveFromPlaylistRange pl lo hi => Some (b "playlistdelete", [MString pl; MPositions lo hi])
  | PMoveInPlaylist pl from to => Some (b "playlistmove", [MString pl; MNumber from; MNumber to])
  | PListAllInRoot => Some (b "listallinfo", [])
  | PListAllInDirectory d => Some (b "listallinfo", match d with [] => [] | _ => [MString d] end)
  | PSetBinaryLimit n => Some (b "binarylimit", [MNumber n])
  | PAlbumArt uri off => Some (b "albumart", [MString uri; MNumber (match off with Some o => o | None => 0 end)])
  | PAlbumArtEmbedded uri off => Some (b "readpicture", [MString uri; MNumber (match off with Some o => o | None => 0 end)])
  | PTagTypesEnableAll => Some (b "tagtypes", [kw "all"])
  | PTagTypesDisableAll => Some (b "tagtypes", [kw "clear"])
  | PTagTypesDisable l =>
    match l with [] => None | _ => Some (b "tagtypes", kw "disable" :: map MTag l) end   (* "Panics if called with an empty list" *)
  | PTagTypesEnable l =>
    match l with [] => None | _ => Some (b "tagtypes", kw "enable" :: map MTag l) end
  | PStickerGet uri name => Some (b "sticker", [kw "get"; kw "song"; MString uri; MString name])
  | PStickerSet uri name value => Some (b "sticker", [kw "set"; kw "song"; MString uri; MString name; MString value])
  | PStickerDelete uri name => Some (b "sticker", [kw "delete"; kw "song"; MString uri; MString name])
  | PStickerList uri => Some (b "sticker", [kw "list"; kw "song"; MString uri])
  | PStickerFind uri name flt =>
    Some (b "sticker", [kw "find"; kw "song"; MString uri; MString name]
                       ++ opt flt (fun ov => [kw (match fst ov with StEquals => "=" | StLessThan => "<" | StGreaterThan => ">" end);
                                              MString (snd ov)]))
  | PUpdate uri => Some (b "update", opt uri (fun u => [MString u]))
  | PRescan uri => Some (b "rescan", opt uri (fun u => [MString u]))
  | PSendChannelMessage ch msg => Some (b "sendmessage", [MString ch; MString msg])
  end.

(* the command words of the reference the library's predefined commands use *)
Definition documented_words : list bytes := map b [
  "addid"; "albumart"; "binarylimit"; "channels"; "clear"; "consume"; "count"; "crossfade"; "currentsong";
  "delete"; "deleteid"; "find"; "list"; "listallinfo"; "listplaylistinfo"; "listplaylists"; "load"; "move";
  "moveid"; "next"; "pause"; "ping"; "play"; "playid"; "playlistadd"; "playlistclear"; "playlistdelete";
  "playlistid"; "playlistinfo"; "playlistmove"; "previous"; "random"; "readmessages"; "readpicture"; "rename";
  "repeat"; "replay_gain_mode"; "replay_gain_status"; "rescan"; "rm"; "save"; "seek"; "seekcur"; "seekid";
  "sendmessage"; "setvol"; "shuffle"; "single"; "stats"; "status"; "sticker"; "stop"; "subscribe"; "tagtypes";
  "unsubscribe"; "update" ]%string.

(* ---------- judging an observation ---------- *)

(* bytes no request line can carry (LF ends the line, NUL ends MPD's C string): the library
   documents a panic ("invalid argument") for them — C07 *)
Definition bad_byte (c : N) : bool := (c =? LF) || (c =? 0).
Definition unsendable (m : meaning) : bool :=
  match m with
  | MString s | MKeyword s => existsb bad_byte s
  | MTag t => existsb bad_byte (tag_as_str t)
  | MFilter f => existsb bad_byte (tag_as_str (f_tag f)) || existsb bad_byte (f_value f)
  | _ => false
  end.

(* strings whose byte-level fidelity is another property's recorded finding, and tag values the
   library documents as the caller's responsibility ("manually constructing a tag with the Other
   variant may result in protocol errors if the tag is invalid"): not judged here *)
Definition c06_K (s : bytes) : bool :=
  negb (beq s []) && forallb (fun c => negb (is_ws c)) s
  && existsb (fun c => (c =? BS) || (c =? DQ) || (c =? SQ)) s.
Definition tag_valid (t : tag) : bool :=
  match t with
  | Named _ => true
  | Other s => negb (beq s []) && forallb tag_charset s
  end.
Definition delegated (m : meaning) : bool :=
  match m with
  | MString s => c06_K s
  | MTag t => negb (tag_valid t)
  | MFilter f => negb (tag_valid (f_tag f)) || existsb (N.eqb DQ) (f_value f)    (* C11's recorded finding *)
  | _ => false
  end.

Fixpoint first_mismatch (ms : list meaning) (ts : list bytes) (i : nat) : option bytes :=
  match ms, ts with
  | m :: ms', t :: ts' => if satb m t then first_mismatch ms' ts' (S i)
                          else Some (b "argument-" ++ render_dec (N.of_nat i))
  | [], [] => None
  | _, _ => Some (b "argument-count")
  end.

(* obs = None: the call panicked; Some w: the bytes written.  Result None = conforms. *)
Definition judge (x : predef) (obs : option bytes) : option bytes :=
  match spec x with
  | None => match obs with None => None | Some _ => Some (b "expected-documented-panic") end
  | Some (word, ms) =>
    if existsb unsendable ms then
      match obs with None => None | Some _ => Some (b "sent-unsendable-bytes") end
    else
      match obs with
      | None => Some (b "unexpected-panic")
      | Some w =>
        match mpd_tokenize w with
        | None => if existsb delegated ms then None else Some (b "not-tokenizable")
        | Some [] => Some (b "no-word")
        | Some (w0 :: toks) =>
          if negb (beq w0 word) then Some (b "command-word")
          else if existsb delegated ms then None
          else first_mismatch ms toks 1
        end
      end
  end.
