(* MpdTokenizer.v — SPEC SIDE, trusted: port of MPD 0.23's request tokenizer, written from memory
   (util/Tokenizer.cxx, util/CharUtil.hxx, client/Read.cxx, command/AllCommands.cxx):
     line      := bytes up to LF; strip trailing bytes <= 0x20; C string: cut at the first NUL
     NextWord  := first byte [A-Za-z], then [A-Za-z0-9_]* up to a byte <= 0x20 or the end
     NextParam := NextString if the next byte is a double quote, else NextUnquoted
   Every function returns None where MPD throws. *)
From MPD Require Import Bytes.
Open Scope N_scope.

Definition is_ws (c : N) : bool := c <=? 32.         (* IsWhitespaceOrNull / IsWhitespaceFast *)

Fixpoint strip_left (s : bytes) : bytes :=
  match s with
  | c :: r => if is_ws c then strip_left r else s
  | [] => []
  end.

Definition strip_right (s : bytes) : bytes := rev (strip_left (rev s)).

Fixpoint take_until (p : N -> bool) (s : bytes) : bytes :=
  match s with
  | [] => []
  | c :: r => if p c then [] else c :: take_until p r
  end.

(* Client::OnSocketInput: the first LF-terminated line, right-stripped, as a C string *)
Definition mpd_line (raw : bytes) : bytes :=
  take_until (N.eqb 0) (strip_right (take_until (N.eqb LF) raw)).

Definition valid_word_first (c : N) : bool := is_alpha c.
Definition valid_word_char (c : N) : bool := is_alpha c || is_digit c || (c =? 95).
Definition valid_unquoted_char (c : N) : bool := negb (is_ws c) && negb (c =? DQ) && negb (c =? SQ).

(* scan a token whose characters satisfy [ok] up to whitespace/end; None on any other byte *)
Fixpoint scan (ok : N -> bool) (s : bytes) : option (bytes * bytes) :=
  match s with
  | [] => Some ([], [])
  | c :: r =>
    if is_ws c then Some ([], strip_left r)
    else if ok c then
      match scan ok r with
      | Some (t, rest) => Some (c :: t, rest)
      | None => None
      end
    else None
  end.

Definition next_word (s : bytes) : option (bytes * bytes) :=
  match s with
  | [] => None                                  (* No command given *)
  | c :: r =>
    if valid_word_first c then
      match scan valid_word_char r with
      | Some (t, rest) => Some (c :: t, rest)
      | None => None
      end
    else None                                   (* Letter expected *)
  end.

Definition next_unquoted (s : bytes) : option (bytes * bytes) :=
  match s with
  | [] => None
  | c :: r =>
    if valid_unquoted_char c then
      match scan valid_unquoted_char r with
      | Some (t, rest) => Some (c :: t, rest)
      | None => None
      end
    else None                                   (* Invalid unquoted character *)
  end.

(* after the opening quote *)
Fixpoint string_body (s : bytes) : option (bytes * bytes) :=
  match s with
  | [] => None                                  (* Missing closing quote *)
  | c :: r =>
    if c =? DQ then
      match r with
      | [] => Some ([], [])
      | d :: _ => if is_ws d then Some ([], strip_left r) else None  (* Space expected after closing quote *)
      end
    else if c =? BS then
      match r with
      | [] => None
      | d :: r' =>
        match string_body r' with
        | Some (t, rest) => Some (d :: t, rest)
        | None => None
        end
      end
    else
      match string_body r with
      | Some (t, rest) => Some (c :: t, rest)
      | None => None
      end
  end.

Definition next_param (s : bytes) : option (bytes * bytes) :=
  match s with
  | c :: r => if c =? DQ then string_body r else next_unquoted s
  | [] => None
  end.

Fixpoint params (fuel : nat) (s : bytes) : option (list bytes) :=
  match s with
  | [] => Some []
  | _ =>
    match fuel with
    | O => None
    | S f =>
      match next_param s with
      | None => None
      | Some (t, rest) =>
        match params f rest with
        | Some l => Some (t :: l)
        | None => None
        end
      end
    end
  end.

(* command_process: the words MPD sees for one request line; None = the line is rejected *)
Definition mpd_tokenize (raw : bytes) : option (list bytes) :=
  match next_word (mpd_line raw) with
  | None => None
  | Some (w, rest) =>
    match params (length rest) rest with
    | Some l => Some (w :: l)
    | None => None
    end
  end.
