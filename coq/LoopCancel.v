(* LoopCancel.v — definitions for the cancellation theorem of the executable loop system (DriverLoop.v):
   a caller that gives up (label x<id>: its future is dropped, the oneshot receiver goes away) changes NOTHING
   but the absence of its own result.  The run with cancellations is the run in which every x<id> is replaced
   by a no-op (t0) — same bytes on the wire, same events, same results for everybody else, same state of the
   connection, the queue and the server — with the results of cancelled callers filtered out.
   This holds for every label the model knows except h (the handle is dropped: then the number of live
   callers decides when the loop sees its channel closed) and a (album art: a caller that issues follow-up
   requests; a cancelled one stops doing so), including all fault labels.  Proofs: LoopCancelProofs.v. *)
From MPD Require Import Bytes Tables Show ParserModel BuilderModel Grammar ConnModel CommandModel MpdTokenizer
  LoopModel ServerModel CallerModel DriverConn DriverLoop LoopSpec LoopRefine.
Open Scope N_scope.

Definition memN (i : N) (c : list N) : bool := existsb (N.eqb i) c.

(* a caller entry is live unless its id was cancelled *)
Definition live (c : list N) (e : N * ckind) : bool := negb (memN (fst e) c).

(* the state with the cancelled callers removed; everything else untouched *)
Definition hide (c : list N) (x : xsys) : xsys := set_qc x (x_queue x) (filter (live c) (x_callers x)).

(* the segment without the results of cancelled callers; writes, connection result, events, panic untouched *)
Definition hide_seg (c : list N) (g : seg) : seg :=
  mkSeg (g_w g) (g_conn g) (filter (fun r => negb (memN (fst r) c)) (g_res g)) (g_ev g) (g_panic g).

(* ---------- labels ---------- *)

Definition kind_of (lab : bytes) : option N := match fst (label_parts lab) with k :: _ => Some k | [] => None end.
Definition id_of (lab : bytes) : N := read_N (tl (fst (label_parts lab))).

Definition is_cancel (lab : bytes) : bool := match kind_of lab with Some k => k =? 120 | None => false end.
(* i / c / v / y: a caller with one request (raw or typed list) *)
Definition is_issue (lab : bytes) : bool :=
  match kind_of lab with Some k => existsb (N.eqb k) [105; 99; 118; 121] | None => false end.
(* h / a *)
Definition is_excluded (lab : bytes) : bool :=
  match kind_of lab with Some k => (k =? 104) || (k =? 97) | None => false end.

Definition tick0 : bytes := b "t0".
Definition erase_label (lab : bytes) : bytes := if is_cancel lab then tick0 else lab.

(* the label lists the theorem covers: no h, no a; the ids of the issued requests are pairwise distinct (an id names ONE
   caller: the real client has no ids, every request has its own channel) *)
Fixpoint cancel_ok (seen : list N) (ls : list bytes) : bool :=
  match ls with
  | [] => true
  | l :: r =>
    negb (is_excluded l) &&
    (if is_issue l then negb (memN (id_of l) seen) && cancel_ok (id_of l :: seen) r else cancel_ok seen r)
  end.

Definition seen_after (seen : list N) (l : bytes) : list N := if is_issue l then id_of l :: seen else seen.
Definition cancelled_after (seen c : list N) (l : bytes) : list N :=
  if is_cancel l && memN (id_of l) seen then id_of l :: c else c.

(* the specification of a run with cancellations in terms of the run without them: run the ERASED labels, hide *)
Fixpoint hide_run (seen c : list N) (x : xsys) (ls : list bytes) : xsys * list seg :=
  match ls with
  | [] => (hide c x, [])
  | l :: r =>
    let c' := cancelled_after seen c l in
    let seen' := seen_after seen l in
    match apply_label_g x (erase_label l) with
    | (_, x', Some g) => let '(xf, gs) := hide_run seen' c' x' r in (xf, hide_seg c' g :: gs)
    | (_, x', None) => hide_run seen' c' x' r
    end
  end.

(* all ids a label list cancels *)
Definition cancels (ls : list bytes) : list N := map id_of (filter is_cancel ls).

(* what the erasure theorem needs of the state: connected, the handle alive, no album-art caller, caller ids distinct and known *)
Definition noart (k : ckind) : bool := match k with KArt _ => false | _ => true end.

Record CInv (seen : list N) (x : xsys) : Prop := mkCInv {
  ci_h : x_h x = HDone;
  ci_handle : x_handle x = true;
  ci_noart : Forall (fun e => noart (snd e) = true) (x_callers x);
  ci_nodup : NoDup (map fst (x_callers x));
  ci_seen : incl (map fst (x_callers x)) seen
}.

(* one segment of the run with cancellations against the segment of the erased run *)
Definition seg_hidden (call : list N) (gh ge : seg) : Prop :=
  exists c, incl c call /\ gh = hide_seg c ge.
