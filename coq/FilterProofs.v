(* FilterProofs.v — C11: what the client renders for a filter, read back by MPD's tokenizer and
   filter grammar, is the filter that was built. *)
From Coq Require Import PeanoNat ZifyBool ZifyN ZifyNat.
From MPD Require Import Bytes Tables TagModel CommandModel MpdTokenizer MpdFilter FilterModel CommandProofs EscapeProofs.
Open Scope N_scope.

(* ---------- induction over the filter tree (children lists are nested) ---------- *)

Section FtypeInd.
  Variable P : ftype -> Prop.
  Hypothesis Htag : forall t o v, P (FTag t o v).
  Hypothesis Hnot : forall g, P g -> P (FTNot g).
  Hypothesis Hand : forall l, Forall P l -> P (FTAnd l).
  Fixpoint ftype_ind' (f : ftype) : P f :=
    match f with
    | FTag t o v => Htag t o v
    | FTNot g => Hnot g (ftype_ind' g)
    | FTAnd l => Hand l ((fix go (l : list ftype) : Forall P l :=
                            match l with
                            | [] => Forall_nil P
                            | c :: r => Forall_cons c (ftype_ind' c) (go r)
                            end) l)
    end.
End FtypeInd.

(* ---------- the expression a filter denotes, in the vocabulary of the spec side ---------- *)

Definition spec_op (o : operator) : fop :=
  match o with
  | Op_Equal => FEq | Op_NotEqual => FNe | Op_Contain => FContains | Op_Match => FMatch | Op_NotMatch => FNotMatch
  end.

Fixpoint shape_of (f : ftype) : fast :=
  match f with
  | FTag t o v => FLeaf (tag_as_str t) (spec_op o) v
  | FTNot g => FNot (shape_of g)
  | FTAnd l => FAnd (map shape_of l)
  end.

Lemma shape_of_and l : shape_of (FTAnd l) = FAnd (map shape_of l).
Proof. reflexivity. Qed.

Lemma eval_and leaf l : eval leaf (FAnd l) = forallb (eval leaf) l.
Proof. reflexivity. Qed.

(* the (tag, value) pairs of a filter *)
Fixpoint leaves (f : ftype) : list (tag * bytes) :=
  match f with
  | FTag t o v => [(t, v)]
  | FTNot g => leaves g
  | FTAnd l => flat_map leaves l
  end.

Lemma leaves_and l : leaves (FTAnd l) = flat_map leaves l.
Proof. reflexivity. Qed.

Lemma Forall_flat_map' {A B} (P : B -> Prop) (g : A -> list B) l :
  Forall P (flat_map g l) -> Forall (fun x => Forall P (g x)) l.
Proof.
  induction l as [|x r IH]; cbn [flat_map]; intros H; [constructor|].
  apply Forall_app in H as [H1 H2]. constructor; auto.
Qed.

(* ---------- the constructors keep AND lists flat and of length >= 2 ---------- *)

Definition is_and (f : ftype) : bool := match f with FTAnd _ => true | _ => false end.

Fixpoint wfb (f : ftype) : bool :=
  match f with
  | FTag _ _ _ => true
  | FTNot g => wfb g
  | FTAnd l => Nat.leb 2 (length l) && forallb (fun c => negb (is_and c) && wfb c) l
  end.

Lemma wfb_and l : wfb (FTAnd l) = Nat.leb 2 (length l) && forallb (fun c => negb (is_and c) && wfb c) l.
Proof. reflexivity. Qed.

Lemma and_ok_and l : and_ok (FTAnd l) = Nat.leb 2 (length l) && forallb and_ok l.
Proof. reflexivity. Qed.

(* everything the public API can build: new (tag, tag_exists, tag_absent are instances), negate / !, and *)
Inductive built : ftype -> Prop :=
  | built_new t o v : built (filter_new t o v)
  | built_negate f : built f -> built (filter_negate f)
  | built_and a c : built a -> built c -> built (filter_and a c).

Lemma built_tag t v : built (filter_tag t v).
Proof. apply built_new. Qed.
Lemma built_tag_exists t : built (filter_tag_exists t).
Proof. apply built_new. Qed.
Lemma built_tag_absent t : built (filter_tag_absent t).
Proof. apply built_new. Qed.

Lemma and_children_wf f : wfb f = true ->
  forallb (fun c => negb (is_and c) && wfb c) (and_children f) = true /\ (1 <= length (and_children f))%nat.
Proof.
  destruct f as [t o v|g|l]; intros H.
  - split; [reflexivity | cbn; lia].
  - cbn [and_children forallb is_and negb andb]. rewrite H. split; [reflexivity | cbn; lia].
  - rewrite wfb_and in H. apply andb_true_iff in H as [H1 H2]. cbn [and_children]. split; [exact H2|].
    apply Nat.leb_le in H1. lia.
Qed.

Lemma built_wf f : built f -> wfb f = true.
Proof.
  induction 1 as [t o v|f _ IH|a c _ IHa _ IHc]; [reflexivity | exact IH |].
  unfold filter_and. rewrite wfb_and.
  destruct (and_children_wf a IHa) as [Fa La]. destruct (and_children_wf c IHc) as [Fc Lc].
  rewrite forallb_app, Fa, Fc, app_length. apply andb_true_iff. split; [apply Nat.leb_le; lia | reflexivity].
Qed.

(* conversely every such tree is produced by the constructors *)
Lemma and_extend pre s : built (FTAnd pre) -> Forall (fun x => built x /\ is_and x = false) s ->
  built (FTAnd (pre ++ s)).
Proof.
  intros Hp Hs. revert pre Hp. induction Hs as [|z s' [Hz Nz] _ IHs]; intros pre Hp.
  - rewrite app_nil_r. exact Hp.
  - replace (pre ++ z :: s') with ((pre ++ [z]) ++ s') by (rewrite <- app_assoc; reflexivity).
    apply IHs. replace (FTAnd (pre ++ [z])) with (filter_and (FTAnd pre) z); [apply built_and; assumption|].
    destruct z; try discriminate; reflexivity.
Qed.

Lemma and_of_list c l : built c -> is_and c = false -> Forall (fun x => built x /\ is_and x = false) l -> l <> [] ->
  built (FTAnd (c :: l)).
Proof.
  intros Hc Nc Hl Hne. destruct l as [|x r]; [congruence|]. inversion Hl as [|? ? [Hx Nx] Hr]; subst.
  change (c :: x :: r) with ([c; x] ++ r). apply and_extend; [|exact Hr].
  replace (FTAnd [c; x]) with (filter_and c x); [apply built_and; assumption|].
  destruct c, x; try discriminate; reflexivity.
Qed.

Lemma children_built l :
  Forall (fun f => wfb f = true -> built f) l ->
  forallb (fun c => negb (is_and c) && wfb c) l = true ->
  Forall (fun x => built x /\ is_and x = false) l.
Proof.
  induction 1 as [|x r Px _ IHr]; intros H2; [constructor|].
  cbn [forallb] in H2. apply andb_true_iff in H2 as [Hx H2]. apply andb_true_iff in Hx as [Nx Wx].
  constructor; [split; [apply Px; exact Wx | destruct (is_and x); [discriminate | reflexivity]] | apply IHr; exact H2].
Qed.

Lemma wf_built f : wfb f = true -> built f.
Proof.
  induction f as [t o v|g IH|l IH] using ftype_ind'; intros H.
  - apply built_new.
  - apply (built_negate g). apply IH. exact H.
  - rewrite wfb_and in H. apply andb_true_iff in H as [H1 H2]. apply Nat.leb_le in H1.
    apply (children_built l IH) in H2.
    destruct l as [|c l']; [cbn in H1; lia|]. destruct l' as [|c2 l'']; [cbn in H1; lia|].
    inversion H2 as [|? ? [Hc Nc] Hr]; subst.
    apply and_of_list; [exact Hc | exact Nc | exact Hr | discriminate].
Qed.

Lemma wf_and_ok f : wfb f = true -> and_ok f = true.
Proof.
  induction f as [t o v|g IH|l IH] using ftype_ind'; intros H; [reflexivity | apply IH; exact H |].
  rewrite wfb_and in H. rewrite and_ok_and. apply andb_true_iff in H as [H1 H2]. rewrite H1. cbn [andb].
  clear H1. induction IH as [|c r Pc _ IHr]; [reflexivity|]. cbn [forallb] in *.
  apply andb_true_iff in H2 as [Hc H2]. apply andb_true_iff in Hc as [_ Wc]. rewrite (Pc Wc), (IHr H2). reflexivity.
Qed.

(* ---------- the text of a filter, generic in how values are written ---------- *)

Section Text.
  Variable val : bytes -> bytes.   (* how a value is written *)
  Variable q : bytes.              (* the quote written before and after it *)

  Fixpoint text (f : ftype) : bytes :=
    match f with
    | FTag t o v => [LP] ++ tag_as_str t ++ [SP] ++ operator_str o ++ [SP] ++ q ++ val v ++ q ++ [RP]
    | FTNot g => [LP; BANG] ++ text g ++ [RP]
    | FTAnd l => [LP] ++ and_items true (map text l) ++ [RP]
    end.

  Definition tail_text (l : list ftype) : bytes := flat_map (fun c => b " AND " ++ text c) l.

  Lemma text_and c l : text (FTAnd (c :: l)) = [LP] ++ text c ++ tail_text l ++ [RP].
  Proof.
    cbn [text map and_items]. cbn [app]. f_equal. rewrite <- app_assoc. f_equal. f_equal.
    unfold tail_text. induction l as [|x r IH]; [reflexivity|]. cbn [flat_map map and_items]. rewrite <- IH. rewrite <- app_assoc. reflexivity.
  Qed.

  Lemma text_head f : exists t, text f = LP :: t.
  Proof. destruct f; cbn [text app]; eexists; reflexivity. Qed.
End Text.

(* escaping for one level of double-quoted string: backslash before backslash and double quote *)
Definition esc (s : bytes) : bytes :=
  flat_map (fun c => if (c =? BS) || (c =? DQ) then [BS; c] else [c]) s.

(* what MPD's filter parser must be given for [f] (value quoted and escaped once) ... *)
Definition inner_text (f : ftype) : bytes := text esc [DQ] f.
(* ... and that text escaped once more, which is what must be written between the argument's quotes *)
Definition outer_text (f : ftype) : bytes := text (fun v => esc (esc v)) [BS; DQ] f.

Lemma esc_app x y : esc (x ++ y) = esc x ++ esc y.
Proof. apply flat_map_app. Qed.

Definition plain (c : N) : bool := negb ((c =? BS) || (c =? DQ)).

Lemma esc_plain s : forallb plain s = true -> esc s = s.
Proof.
  induction s as [|c s IH]; [reflexivity|]. cbn [forallb]. intros H. apply andb_true_iff in H as [H1 H2].
  unfold esc. cbn [flat_map]. fold (esc s). unfold plain in H1. apply negb_true_iff in H1. rewrite H1, (IH H2). reflexivity.
Qed.

(* MPD word characters are neither backslash nor quote nor blank nor parenthesis nor '!' *)
Lemma tag_char_facts c : is_tag_name_char c = true ->
  plain c = true /\ is_ws c = false /\ (c =? LP) = false /\ (c =? BANG) = false /\ (c =? RP) = false.
Proof.
  unfold is_tag_name_char, plain, is_ws, is_alpha, is_upper, is_lower, in_range, LP, RP, BANG, BS, DQ. intros H.
  repeat split; lia.
Qed.

Definition valid_tagb (t : tag) : bool :=
  match tag_as_str t with [] => false | s => forallb is_tag_name_char s end.

Lemma valid_tag_plain t : valid_tagb t = true -> forallb plain (tag_as_str t) = true.
Proof.
  unfold valid_tagb. intros H. assert (F : forallb is_tag_name_char (tag_as_str t) = true) by (destruct (tag_as_str t); [discriminate | exact H]).
  clear H. induction (tag_as_str t) as [|c s IH]; [reflexivity|]. cbn [forallb] in *. apply andb_true_iff in F as [F1 F2].
  destruct (tag_char_facts c F1) as [P _]. rewrite P, (IH F2). reflexivity.
Qed.

Lemma named_valid v : valid_tagb (Named v) = true.
Proof. destruct v; vm_compute; reflexivity. Qed.

Lemma operator_plain o : forallb plain (operator_str o) = true.
Proof. destruct o; vm_compute; reflexivity. Qed.

(* escaping the inner text once more gives the outer text *)
Lemma esc_inner_text f : Forall (fun tv => valid_tagb (fst tv) = true) (leaves f) -> esc (inner_text f) = outer_text f.
Proof.
  unfold inner_text, outer_text. induction f as [t o v|g IH|l IH] using ftype_ind'; intros H.
  - cbn [leaves] in H. inversion H as [|? ? Ht _]; subst. cbn [fst] in Ht. cbn [text].
    rewrite !esc_app. rewrite (esc_plain _ (valid_tag_plain t Ht)), (esc_plain _ (operator_plain o)). reflexivity.
  - cbn [leaves] in H. cbn [text]. rewrite !esc_app, (IH H). reflexivity.
  - rewrite leaves_and in H. apply Forall_flat_map' in H.
    destruct l as [|c r]; [reflexivity|]. rewrite !text_and. rewrite !esc_app.
    inversion IH as [|? ? Pc Pr]; inversion H as [|? ? Hc Hr]; subst. rewrite (Pc Hc).
    f_equal. f_equal. f_equal.
    clear - Pr Hr. induction Pr as [|x s Px _ IHs]; [reflexivity|]. inversion Hr as [|? ? Hx Hs]; subst.
    cbn [tail_text flat_map]. rewrite !esc_app, (Px Hx). fold (tail_text esc [DQ] s). rewrite (IHs Hs). reflexivity.
Qed.

(* ---------- the code's rendering ---------- *)

Lemma render_is_text f : render_ftype f = text escape_filter_value [BS; DQ] f.
Proof.
  induction f as [t o v|g IH|l IH] using ftype_ind'.
  - reflexivity.
  - cbn [render_ftype text]. rewrite IH. reflexivity.
  - cbn [render_ftype text]. replace (map render_ftype l) with (map (text escape_filter_value [BS; DQ]) l); [reflexivity|].
    induction IH as [|c r Pc _ IHr]; [reflexivity|]. cbn [map]. rewrite Pc, IHr. reflexivity.
Qed.

Lemma text_ext val1 val2 q f :
  Forall (fun tv => val1 (snd tv) = val2 (snd tv)) (leaves f) -> text val1 q f = text val2 q f.
Proof.
  induction f as [t o v|g IH|l IH] using ftype_ind'; intros H.
  - cbn [leaves] in H. inversion H as [|? ? Hv _]; subst. cbn [snd] in Hv. cbn [text]. rewrite Hv. reflexivity.
  - cbn [text]. rewrite (IH H). reflexivity.
  - rewrite leaves_and in H. apply Forall_flat_map' in H. cbn [text].
    replace (map (text val1 q) l) with (map (text val2 q) l); [reflexivity|].
    induction IH as [|c r Pc _ IHr]; [reflexivity|]. inversion H as [|? ? Hc Hr]; subst.
    cbn [map]. rewrite (Pc Hc), (IHr Hr). reflexivity.
Qed.

(* the replacement chain of escape_filter_value, as it stands in the source; the borrowed fast path is
   sound as long as its guard covers both replaced characters *)
Lemma filter_value_tables :
  filter_value_replacements = [(BS, [BS; BS; BS; BS]); (DQ, [BS; BS; DQ])] /\
  existsb (N.eqb BS) filter_value_guard = true /\ existsb (N.eqb DQ) filter_value_guard = true.
Proof. repeat split; reflexivity. Qed.

Definition no_dq (v : bytes) : bool := negb (existsb (N.eqb DQ) v).

Lemma replace_byte_app c r x y : replace_byte c r (x ++ y) = replace_byte c r x ++ replace_byte c r y.
Proof. apply flat_map_app. Qed.

(* the code's double escaping is right exactly when there is no double quote to escape *)
Lemma escape_filter_value_ok v : no_dq v = true -> escape_filter_value v = esc (esc v).
Proof.
  intros H. unfold escape_filter_value. destruct filter_value_tables as (-> & GB & GD).
  assert (R : fold_left (fun acc cr => replace_byte (fst cr) (snd cr) acc) [(BS, [BS; BS; BS; BS]); (DQ, [BS; BS; DQ])] v
              = esc (esc v)).
  { cbn [fold_left fst snd]. unfold no_dq in H. apply negb_true_iff in H.
    induction v as [|c v IH]; [reflexivity|]. cbn [existsb] in H. apply orb_false_iff in H as [Hc Hv].
    change (c :: v) with ([c] ++ v). rewrite !replace_byte_app, !esc_app, (IH Hv). f_equal.
    unfold replace_byte, esc. cbn [flat_map app]. rewrite N.eqb_sym in Hc. rewrite Hc, orb_false_r.
    destruct (c =? BS) eqn:E; [apply N.eqb_eq in E; subst c; reflexivity|]. cbn [flat_map app]. rewrite Hc, E. reflexivity. }
  destruct (existsb _ v) eqn:G; [exact R|].
  assert (P : forallb plain v = true).
  { clear - G GB GD. induction v as [|c v IH]; [reflexivity|]. cbn [existsb forallb] in *.
    apply orb_false_iff in G as [G1 G2]. rewrite (IH G2), andb_true_r. unfold plain. apply negb_true_iff.
    apply orb_false_iff. split; (destruct (c =? _) eqn:E; [apply N.eqb_eq in E; subst c; congruence | reflexivity]). }
  rewrite (esc_plain v P), (esc_plain v P). reflexivity.
Qed.

Lemma render_is_outer_escape f :
  Forall (fun tv => valid_tagb (fst tv) = true /\ no_dq (snd tv) = true) (leaves f) ->
  render_ftype f = esc (inner_text f).
Proof.
  intros H. rewrite render_is_text, esc_inner_text.
  - apply text_ext. eapply Forall_impl; [|exact H]. intros tv [_ Hv]. apply escape_filter_value_ok. exact Hv.
  - eapply Forall_impl; [|exact H]. intros tv [Ht _]. exact Ht.
Qed.

(* ---------- the two unquoting layers, one string at a time ---------- *)

(* MPD's tokenizer (NextString) undoes [esc] on every byte string *)
Lemma string_body_esc a tail : sep_tail tail ->
  string_body (esc a ++ DQ :: tail) = Some (a, strip_left tail).
Proof.
  intros Ht. induction a as [|c a IH].
  - cbn [esc flat_map app string_body]. change (DQ =? DQ) with true. cbv iota.
    destruct Ht as [->|[r ->]]; reflexivity.
  - unfold esc. cbn [flat_map]. fold (esc a).
    destruct (c =? BS) eqn:E1; [|destruct (c =? DQ) eqn:E2]; cbn [orb app string_body].
    + change (BS =? DQ) with false. change (BS =? BS) with true. cbv iota. rewrite IH. reflexivity.
    + change (BS =? DQ) with false. change (BS =? BS) with true. cbv iota. rewrite IH. reflexivity.
    + rewrite E2, E1, IH. reflexivity.
Qed.

(* MPD's filter parser (ExpectQuoted with the double quote) undoes [esc] on every byte string *)
Lemma quoted_body_esc v tail : quoted_body DQ (esc v ++ DQ :: tail) = Some (v, tail).
Proof.
  induction v as [|c v IH].
  - cbn [esc flat_map app quoted_body]. change (DQ =? DQ) with true. reflexivity.
  - unfold esc. cbn [flat_map]. fold (esc v).
    destruct (c =? BS) eqn:E1; [|destruct (c =? DQ) eqn:E2]; cbn [orb app quoted_body].
    + change (BS =? DQ) with false. change (BS =? BS) with true. cbv iota. rewrite IH. reflexivity.
    + change (BS =? DQ) with false. change (BS =? BS) with true. cbv iota. rewrite IH. reflexivity.
    + rewrite E2, E1, IH. reflexivity.
Qed.

Lemma expect_quoted_esc v tail : N.of_nat (length v) < quoted_max ->
  expect_quoted (DQ :: esc v ++ DQ :: tail) = Some (v, strip_left tail).
Proof.
  intros H. unfold expect_quoted. change (is_quote DQ) with true. cbv iota. rewrite quoted_body_esc.
  destruct (quoted_max <=? N.of_nat (length v)) eqn:E; [lia | reflexivity].
Qed.

(* ---------- one leaf ---------- *)

Lemma parse_expr_S lenient f s :
  parse_expr lenient (S f) s = expr_body lenient (parse_expr lenient f) (parse_and lenient f) s.
Proof. reflexivity. Qed.

Lemma parse_and_S lenient f s :
  parse_and lenient (S f) s = and_body lenient (parse_expr lenient f) (parse_and lenient f) s.
Proof. reflexivity. Qed.

Lemma span_word w c r : forallb is_tag_name_char w = true -> is_tag_name_char c = false ->
  span is_tag_name_char (w ++ c :: r) = (w, c :: r).
Proof.
  intros Hw Hc. induction w as [|x w IH]; cbn [app span].
  - rewrite Hc. reflexivity.
  - cbn [forallb] in Hw. apply andb_true_iff in Hw as [H1 H2]. rewrite H1, (IH H2). reflexivity.
Qed.

Lemma parse_op_str o body : parse_op (operator_str o ++ SP :: DQ :: body) = Some (spec_op o, DQ :: body).
Proof. destruct o; reflexivity. Qed.

Lemma strip_sp_op o x : strip_left (SP :: operator_str o ++ x) = operator_str o ++ x.
Proof. destruct o; reflexivity. Qed.

Lemma parse_leaf lenient fuel w o v rest :
  w <> [] -> forallb is_tag_name_char w = true -> N.of_nat (length v) < quoted_max ->
  parse_expr lenient (S fuel) (LP :: w ++ SP :: operator_str o ++ SP :: DQ :: esc v ++ DQ :: RP :: rest)
  = Some (FLeaf w (spec_op o) v, strip_left rest).
Proof.
  intros Hne Hw Hv. destruct w as [|c0 w']; [congruence|].
  pose proof Hw as Hw0. cbn [forallb] in Hw0. apply andb_true_iff in Hw0 as [Hc0 _].
  destruct (tag_char_facts c0 Hc0) as (_ & Ws & NL & NB & _).
  assert (EW : expect_word ((c0 :: w') ++ SP :: operator_str o ++ SP :: DQ :: esc v ++ DQ :: RP :: rest)
               = Some (c0 :: w', operator_str o ++ SP :: DQ :: esc v ++ DQ :: RP :: rest)).
  { unfold expect_word. rewrite (span_word (c0 :: w') SP _ Hw); [|reflexivity]. rewrite strip_sp_op. reflexivity. }
  assert (PS : parse_string_filter (operator_str o ++ SP :: DQ :: esc v ++ DQ :: RP :: rest) = Some (spec_op o, v, RP :: rest)).
  { unfold parse_string_filter. rewrite parse_op_str, (expect_quoted_esc v _ Hv). reflexivity. }
  rewrite parse_expr_S. unfold expr_body. change (LP =? LP) with true. cbn [negb]. cbv zeta.
  cbn [app strip_left]. rewrite Ws. cbv iota. rewrite NL, NB.
  cbn [app] in EW. rewrite EW, PS. change (RP =? RP) with true. reflexivity.
Qed.

(* ---------- negation and conjunction: one step of ParseExpression each ---------- *)

Definition AND_ : bytes := [65; 78; 68; 32].          (* "AND " *)
Definition _AND_ : bytes := SP :: AND_.                (* " AND " *)

Lemma parse_not_step lenient fuel tg a rest :
  parse_expr lenient fuel (LP :: tg ++ RP :: rest) = Some (a, RP :: rest) ->
  parse_expr lenient (S fuel) (LP :: BANG :: LP :: tg ++ RP :: rest) = Some (FNot a, strip_left rest).
Proof.
  intros H. rewrite parse_expr_S. unfold expr_body. change (LP =? LP) with true. cbn [negb]. cbv zeta.
  change (strip_left (BANG :: LP :: tg ++ RP :: rest)) with (BANG :: LP :: tg ++ RP :: rest). cbv iota.
  change (BANG =? LP) with false. change (BANG =? BANG) with true. cbv iota.
  change (strip_left (LP :: tg ++ RP :: rest)) with (LP :: tg ++ RP :: rest). cbv iota.
  change (LP =? LP) with true. cbn [negb]. rewrite H. change (RP =? RP) with true. reflexivity.
Qed.

Lemma parse_and_first lenient fuel t1 a1 x items rest' :
  parse_expr lenient fuel (LP :: t1 ++ _AND_ ++ LP :: x) = Some (a1, AND_ ++ LP :: x) ->
  parse_and lenient fuel (LP :: x) = Some (items, rest') ->
  parse_expr lenient (S fuel) (LP :: LP :: t1 ++ _AND_ ++ LP :: x) = Some (FAnd (a1 :: items), rest').
Proof.
  intros H1 H2. rewrite parse_expr_S. unfold expr_body. change (LP =? LP) with true. cbn [negb]. cbv zeta.
  change (strip_left (LP :: t1 ++ _AND_ ++ LP :: x)) with (LP :: t1 ++ _AND_ ++ LP :: x). cbv iota.
  change (LP =? LP) with true. cbv iota. rewrite H1. unfold AND_. cbn [app]. change (65 =? RP) with false. cbv iota.
  change (expect_word (65 :: 78 :: 68 :: 32 :: LP :: x)) with (Some (and_word, LP :: x)). cbv iota.
  change (beq and_word and_word) with true. cbv iota. rewrite H2. reflexivity.
Qed.

Lemma parse_and_more lenient fuel t a x items rest' :
  parse_expr lenient fuel (LP :: t ++ _AND_ ++ LP :: x) = Some (a, AND_ ++ LP :: x) ->
  parse_and lenient fuel (LP :: x) = Some (items, rest') ->
  parse_and lenient (S fuel) (LP :: t ++ _AND_ ++ LP :: x) = Some (a :: items, rest').
Proof.
  intros H1 H2. rewrite parse_and_S. unfold and_body. change (LP =? LP) with true. cbn [negb]. rewrite H1.
  unfold AND_. cbn [app]. change (65 =? RP) with false. cbv iota.
  change (expect_word (65 :: 78 :: 68 :: 32 :: LP :: x)) with (Some (and_word, LP :: x)). cbv iota.
  change (beq and_word and_word) with true. cbv iota. rewrite H2. reflexivity.
Qed.

Lemma parse_and_last lenient fuel t a rest :
  parse_expr lenient fuel (LP :: t ++ RP :: rest) = Some (a, RP :: rest) ->
  parse_and lenient (S fuel) (LP :: t ++ RP :: rest) = Some ([a], fin lenient rest).
Proof.
  intros H. rewrite parse_and_S. unfold and_body. change (LP =? LP) with true. cbn [negb]. rewrite H.
  change (RP =? RP) with true. reflexivity.
Qed.

(* ---------- the filter grammar reads back the whole tree ---------- *)

(* fuel that suffices *)
Fixpoint need (f : ftype) : nat :=
  match f with
  | FTag _ _ _ => 1
  | FTNot g => S (need g)
  | FTAnd l => S (list_sum (map (fun c => S (need c)) l))
  end.

(* what MPD leaves unread after the expression *)
Definition after (lenient : bool) (f : ftype) (rest : bytes) : bytes :=
  if is_and f then fin lenient rest else strip_left rest.

Definition leaf_ok (tv : tag * bytes) : Prop :=
  valid_tagb (fst tv) = true /\ N.of_nat (length (snd tv)) < quoted_max.

Lemma after_rp lenient f rest : after lenient f (RP :: rest) = RP :: rest.
Proof. unfold after, fin. destruct (is_and f), lenient; reflexivity. Qed.

Lemma valid_tag_word t : valid_tagb t = true -> tag_as_str t <> [] /\ forallb is_tag_name_char (tag_as_str t) = true.
Proof. unfold valid_tagb. destruct (tag_as_str t); [discriminate|]. intros H. split; [discriminate | exact H]. Qed.

Definition parses (f : ftype) : Prop :=
  forall lenient fuel rest, wfb f = true -> Forall leaf_ok (leaves f) -> (need f <= fuel)%nat ->
  parse_expr lenient fuel (inner_text f ++ rest) = Some (shape_of f, after lenient f rest).

(* the AND loop over the children c :: cs, entered at c *)
Lemma parse_children lenient rest cs : forall c fuel,
  Forall parses (c :: cs) ->
  forallb (fun c => negb (is_and c) && wfb c) (c :: cs) = true ->
  Forall (fun x => Forall leaf_ok (leaves x)) (c :: cs) ->
  (list_sum (map (fun c => S (need c)) (c :: cs)) <= fuel)%nat ->
  parse_and lenient fuel (inner_text c ++ tail_text esc [DQ] cs ++ RP :: rest)
  = Some (map shape_of (c :: cs), fin lenient rest).
Proof.
  induction cs as [|c' cs' IH]; intros c fuel HP HW HL HF.
  - inversion HP as [|? ? Pc _]; subst. inversion HL as [|? ? Lc _]; subst.
    cbn [forallb] in HW. rewrite andb_true_r in HW. apply andb_true_iff in HW as [Nc Wc]. apply negb_true_iff in Nc.
    cbn [map list_sum fold_right] in HF. destruct fuel as [|fuel]; [lia|].
    destruct (text_head esc [DQ] c) as [t Et]. cbn [tail_text flat_map app].
    pose proof (Pc lenient fuel (RP :: rest) Wc Lc ltac:(lia)) as H.
    unfold after in H. rewrite Nc in H. change (strip_left (RP :: rest)) with (RP :: rest) in H.
    unfold inner_text in *. rewrite Et in *. cbn [app] in *. apply parse_and_last. exact H.
  - inversion HP as [|? ? Pc HP']; subst. inversion HL as [|? ? Lc HL']; subst.
    cbn [forallb] in HW. apply andb_true_iff in HW as [HWc HW']. apply andb_true_iff in HWc as [Nc Wc].
    apply negb_true_iff in Nc. cbn [map list_sum fold_right] in HF. destruct fuel as [|fuel]; [lia|].
    destruct (text_head esc [DQ] c) as [t Et]. destruct (text_head esc [DQ] c') as [t' Et'].
    specialize (IH c' fuel HP' HW' HL' ltac:(cbn [map list_sum fold_right]; lia)).
    cbn [tail_text flat_map]. fold (tail_text esc [DQ] cs').
    pose proof (Pc lenient fuel ((b " AND " ++ text esc [DQ] c') ++ tail_text esc [DQ] cs' ++ RP :: rest) Wc Lc ltac:(lia)) as H.
    unfold after in H. rewrite Nc in H.
    unfold inner_text in *. rewrite Et, Et' in *. rewrite <- !app_assoc in *. cbn [app] in *.
    change (b " AND " ++ LP :: t' ++ tail_text esc [DQ] cs' ++ RP :: rest)
      with (_AND_ ++ LP :: t' ++ tail_text esc [DQ] cs' ++ RP :: rest) in *.
    change (strip_left (_AND_ ++ LP :: t' ++ tail_text esc [DQ] cs' ++ RP :: rest))
      with (AND_ ++ LP :: t' ++ tail_text esc [DQ] cs' ++ RP :: rest) in H.
    cbn [map]. cbn [map] in IH. apply parse_and_more; assumption.
Qed.

Theorem parse_inner_text f : parses f.
Proof.
  induction f as [t o v|g IH|l IH] using ftype_ind'; intros lenient fuel rest HW HL HF.
  - cbn [leaves] in HL. inversion HL as [|? ? [Ht Hv] _]; subst. cbn [fst snd] in *.
    destruct (valid_tag_word t Ht) as [Hne Hw]. cbn [need] in HF. destruct fuel as [|fuel]; [lia|].
    unfold inner_text. cbn [text]. rewrite <- !app_assoc. cbn [app shape_of].
    unfold after. cbn [is_and]. apply parse_leaf; assumption.
  - cbn [need] in HF. destruct fuel as [|fuel]; [lia|]. cbn [wfb leaves] in *.
    destruct (text_head esc [DQ] g) as [tg Eg].
    pose proof (IH lenient fuel (RP :: rest) HW HL ltac:(lia)) as H. rewrite after_rp in H.
    unfold inner_text in *. cbn [text shape_of]. rewrite Eg in *. rewrite <- !app_assoc. cbn [app] in *.
    unfold after. cbn [is_and]. apply parse_not_step. exact H.
  - rewrite wfb_and in HW. apply andb_true_iff in HW as [H2 HW]. apply Nat.leb_le in H2.
    rewrite leaves_and in HL. apply Forall_flat_map' in HL.
    destruct l as [|c1 l1]; [cbn in H2; lia|]. destruct l1 as [|c2 cs]; [cbn in H2; lia|].
    cbn [need] in HF. destruct fuel as [|fuel]; [lia|]. cbn [map list_sum fold_right] in HF.
    inversion IH as [|? ? Pc1 IH']; subst. inversion HL as [|? ? Lc1 HL']; subst.
    cbn [forallb] in HW. apply andb_true_iff in HW as [HW1 HW']. apply andb_true_iff in HW1 as [Nc1 Wc1].
    apply negb_true_iff in Nc1.
    pose proof (parse_children lenient rest cs c2 fuel IH' HW' HL' ltac:(cbn [map list_sum fold_right]; lia)) as HA.
    destruct (text_head esc [DQ] c1) as [t1 E1]. destruct (text_head esc [DQ] c2) as [t2 E2].
    pose proof (Pc1 lenient fuel ((b " AND " ++ text esc [DQ] c2) ++ tail_text esc [DQ] cs ++ RP :: rest) Wc1 Lc1 ltac:(lia)) as H.
    unfold after in H. rewrite Nc1 in H.
    unfold inner_text in *. rewrite text_and. cbn [tail_text flat_map]. fold (tail_text esc [DQ] cs).
    rewrite E1, E2 in *. rewrite <- !app_assoc in *. cbn [app] in *.
    change (b " AND " ++ LP :: t2 ++ tail_text esc [DQ] cs ++ RP :: rest)
      with (_AND_ ++ LP :: t2 ++ tail_text esc [DQ] cs ++ RP :: rest) in *.
    change (strip_left (_AND_ ++ LP :: t2 ++ tail_text esc [DQ] cs ++ RP :: rest))
      with (AND_ ++ LP :: t2 ++ tail_text esc [DQ] cs ++ RP :: rest) in H.
    rewrite shape_of_and. cbn [map]. cbn [map] in HA. unfold after. cbn [is_and].
    apply parse_and_first; assumption.
Qed.

(* ---------- fuel = length of the argument is enough ---------- *)

Lemma tail_text_length val q l :
  Forall (fun c => (need c <= length (text val q c))%nat) l ->
  (list_sum (map (fun c => S (need c)) l) <= length (tail_text val q l))%nat.
Proof.
  induction 1 as [|c r Hc _ IH]; [cbn; lia|].
  cbn [map list_sum fold_right tail_text flat_map]. fold (tail_text val q r). rewrite !app_length.
  change (length (b " AND ")) with 5%nat. unfold list_sum in IH. lia.
Qed.

Lemma need_le_length val q f : (need f <= length (text val q f))%nat.
Proof.
  induction f as [t o v|g IH|l IH] using ftype_ind'.
  - cbn [need text app length]. lia.
  - cbn [need text app length]. rewrite app_length. lia.
  - destruct l as [|c r]; [cbn; lia|]. rewrite text_and. inversion IH as [|? ? Hc Hr]; subst.
    pose proof (tail_text_length val q r Hr) as HT. cbn [need map list_sum fold_right]. unfold list_sum in HT.
    rewrite !app_length. cbn [length]. lia.
Qed.

Theorem parse_filter_inner_text lenient f :
  wfb f = true -> Forall leaf_ok (leaves f) ->
  mpd_parse_filter_gen lenient (inner_text f) = Some (shape_of f, []).
Proof.
  intros HW HL. unfold mpd_parse_filter_gen.
  pose proof (parse_inner_text f lenient (length (inner_text f)) [] HW HL (need_le_length esc [DQ] f)) as H.
  rewrite app_nil_r in H. rewrite H.
  unfold after, fin. destruct (is_and f), lenient; reflexivity.
Qed.

(* ---------- the whole request line ---------- *)

Definition value_ok (tv : tag * bytes) : Prop :=
  valid_tagb (fst tv) = true /\ no_dq (snd tv) = true /\ N.of_nat (length (snd tv)) < quoted_max.

Lemma reject_free x : argument_reject x = false -> x <> LF /\ x <> 0.
Proof.
  intros H. split; intros E; subst x; [rewrite argument_reject_lf in H | rewrite argument_reject_nul in H]; discriminate.
Qed.

Theorem filter_roundtrip lenient name c0 c f :
  wf_bytes name -> build name = inr c0 ->
  wfb f = true -> Forall value_ok (leaves f) ->
  argument_filter c0 f = Sent c ->
  mpd_tokenize (send_bytes c) = Some [name; inner_text f] /\
  mpd_parse_filter_gen lenient (inner_text f) = Some (shape_of f, []).
Proof.
  intros Wn Hb HW HV HS. split.
  2:{ apply parse_filter_inner_text; [exact HW|]. eapply Forall_impl; [|exact HV]. intros tv (A & _ & C). split; assumption. }
  apply build_ok_iff in Hb as (-> & Hfo & Hcs & _).
  unfold argument_filter, render_filter in HS. rewrite (wf_and_ok f HW) in HS.
  rewrite (render_is_outer_escape f) in HS by (eapply Forall_impl; [|exact HV]; intros tv (A & B & _); split; assumption).
  set (e := inner_text f) in *.
  destruct (add_argument_raw_cases name ([DQ] ++ esc e ++ [DQ])) as [(i & E & _)|(E & F)]; rewrite E in HS; [discriminate|].
  inversion HS; subst c; clear HS E.
  assert (Hname : Forall (fun x => valid_word_char x = true /\ is_ws x = false /\ x <> LF /\ x <> 0) name).
  { apply Forall_forall. intros x Hin. unfold wf_bytes in Wn. rewrite Forall_forall in Wn, Hcs.
    destruct (command_charset_plain x (Wn x Hin) (Hcs x Hin)) as (A & B & C & _).
    split; [apply command_charset_word; auto | auto]. }
  assert (Hline : mpd_line (send_bytes (name ++ [SP] ++ [DQ] ++ esc e ++ [DQ])) = name ++ [SP] ++ [DQ] ++ esc e ++ [DQ]).
  { apply mpd_line_send.
    - apply Forall_app. split; [eapply Forall_impl; [|exact Hname]; cbn; tauto|].
      constructor; [split; discriminate|]. eapply Forall_impl; [|exact F]. intros x Hx. apply reject_free. exact Hx.
    - rewrite !app_assoc. apply ends_app. exists DQ, []. split; reflexivity. }
  cbn [app] in Hline. unfold mpd_tokenize. rewrite Hline.
  destruct name as [|n0 n']; [contradiction|]. cbn [first_ok] in Hfo.
  assert (Hl : valid_word_first n0 = true) by (apply first_charset_letter; [inversion Wn; assumption | exact Hfo]).
  cbn [app next_word]. rewrite Hl. inversion Hname as [|? ? _ Hn']; subst.
  rewrite (scan_word n' (SP :: DQ :: esc e ++ [DQ])); [| eapply Forall_impl; [|exact Hn']; cbn; tauto | right; eexists; reflexivity].
  change (strip_left (SP :: DQ :: esc e ++ [DQ])) with (DQ :: esc e ++ [DQ]).
  cbn [length params next_param]. change (DQ =? DQ) with true. cbv iota.
  rewrite (string_body_esc e [] (or_introl eq_refl)). cbn [strip_left]. destruct (length (esc e ++ [DQ])); reflexivity.
Qed.

(* ---------- meaning: and is conjunction, negate is negation ---------- *)

Lemma eval_and_children leaf f :
  forallb (eval leaf) (map shape_of (and_children f)) = eval leaf (shape_of f).
Proof.
  destruct f as [t o v|g|l]; cbn [and_children map forallb]; [apply andb_true_r | apply andb_true_r |].
  rewrite shape_of_and, eval_and. reflexivity.
Qed.

Theorem eval_filter_and leaf a c :
  eval leaf (shape_of (filter_and a c)) = eval leaf (shape_of a) && eval leaf (shape_of c).
Proof.
  unfold filter_and. rewrite shape_of_and, eval_and, map_app, forallb_app, !eval_and_children. reflexivity.
Qed.

Theorem eval_filter_negate leaf a : eval leaf (shape_of (filter_negate a)) = negb (eval leaf (shape_of a)).
Proof. reflexivity. Qed.

Theorem filter_and_assoc a c d : filter_and (filter_and a c) d = filter_and a (filter_and c d).
Proof. unfold filter_and. cbn [and_children]. rewrite app_assoc. reflexivity. Qed.

(* Tag::try_from accepts exactly the names MPD's ExpectWord reads as one word *)
Lemma tag_charset_is_word_char c : c < 256 -> tag_charset c = is_tag_name_char c.
Proof.
  intros H. apply Bool.eqb_prop.
  apply (sweep (fun c => Bool.eqb (tag_charset c) (is_tag_name_char c))); [vm_compute; reflexivity | exact H].
Qed.

Lemma try_from_valid s t : wf_bytes s -> tag_try_from s = TagOk t -> valid_tagb t = true.
Proof.
  intros W H. unfold tag_try_from in H. destruct s as [|c0 s0] eqn:Es; [discriminate|]. rewrite <- Es in *.
  destruct (index_of (fun c => negb (tag_charset c)) s) eqn:E; [discriminate|].
  destruct (lookup_row tag_parse_table s); inversion H; subst t; [apply named_valid|].
  unfold valid_tagb. cbn [tag_as_str]. rewrite Es. rewrite <- Es.
  apply index_of_none_forall in E. apply forallb_forall. intros x Hin.
  rewrite Forall_forall in E. specialize (E x Hin). unfold wf_bytes in W. rewrite Forall_forall in W.
  rewrite <- (tag_charset_is_word_char x (W x Hin)). destruct (tag_charset x); [reflexivity | discriminate].
Qed.

(* ---------- when Command::argument accepts the filter ---------- *)

Definition okc (x : N) : Prop := argument_reject x = false.

Lemma okc_intro x : x < 256 -> x <> LF -> x <> 0 -> okc x.
Proof.
  intros H1 H2 H3. unfold okc. destruct (argument_reject x) eqn:E; [|reflexivity].
  destruct (argument_reject_spec x H1 E); contradiction.
Qed.

Lemma okc_tag_char x : is_tag_name_char x = true -> okc x.
Proof.
  intros H. apply okc_intro; unfold is_tag_name_char, is_alpha, is_upper, is_lower, in_range, LF in *; lia.
Qed.

Lemma text_okc val q f :
  Forall okc q ->
  Forall (fun tv => valid_tagb (fst tv) = true /\ Forall okc (val (snd tv))) (leaves f) ->
  Forall okc (text val q f).
Proof.
  intros Hq. assert (K : forall l, forallb (fun x => negb (argument_reject x)) l = true -> Forall okc l).
  { intros l H. apply Forall_forall. intros x Hin. rewrite forallb_forall in H. specialize (H x Hin).
    unfold okc. destruct (argument_reject x); [discriminate | reflexivity]. }
  induction f as [t o v|g IH|l IH] using ftype_ind'; intros H.
  - cbn [leaves] in H. inversion H as [|? ? [Ht Hv] _]; subst. cbn [fst snd] in *. cbn [text].
    destruct (valid_tag_word t Ht) as [_ Hw].
    repeat (apply Forall_app; split); try assumption; try (apply K; reflexivity).
    + apply Forall_forall. intros x Hin. apply okc_tag_char. rewrite forallb_forall in Hw. apply Hw. exact Hin.
    + apply K. destruct o; reflexivity.
  - cbn [leaves] in H. cbn [text]. repeat (apply Forall_app; split); try (apply K; reflexivity). apply IH. exact H.
  - rewrite leaves_and in H. apply Forall_flat_map' in H. cbn [text].
    repeat (apply Forall_app; split); try (apply K; reflexivity).
    generalize true. induction IH as [|c r Pc _ IHr]; intros first; [constructor|].
    inversion H as [|? ? Hc Hr]; subst. cbn [map and_items].
    repeat (apply Forall_app; split); [destruct first; apply K; reflexivity | apply Pc; exact Hc | apply IHr; exact Hr].
Qed.

Lemma esc_okc s : Forall okc s -> Forall okc (esc s).
Proof.
  induction 1 as [|c s Hc _ IH]; [constructor|]. unfold esc. cbn [flat_map]. fold (esc s).
  apply Forall_app. split; [|exact IH]. destruct ((c =? BS) || (c =? DQ)); repeat constructor; exact Hc.
Qed.

(* a filter whose values hold no LF and no NUL is accepted, and this is what is written *)
Theorem sent_when_clean name f :
  wfb f = true -> Forall value_ok (leaves f) ->
  Forall (fun tv => Forall (fun x => x < 256 /\ x <> LF /\ x <> 0) (snd tv)) (leaves f) ->
  argument_filter name f = Sent (name ++ [SP] ++ [DQ] ++ esc (inner_text f) ++ [DQ]).
Proof.
  intros HW HV HC. unfold argument_filter, render_filter. rewrite (wf_and_ok f HW).
  assert (F : Forall okc ([DQ] ++ render_ftype f ++ [DQ])).
  { apply Forall_app. split; [repeat constructor; unfold okc; reflexivity|].
    apply Forall_app. split; [|repeat constructor; unfold okc; reflexivity].
    rewrite render_is_text. apply text_okc; [repeat constructor; unfold okc; reflexivity|].
    rewrite Forall_forall in *. intros tv Hin. destruct (HV tv Hin) as (A & B & _). split; [exact A|].
    rewrite (escape_filter_value_ok _ B). apply esc_okc, esc_okc.
    eapply Forall_impl; [|exact (HC tv Hin)]. intros x (X1 & X2 & X3). apply okc_intro; assumption. }
  destruct (add_argument_raw_spec name ([DQ] ++ render_ftype f ++ [DQ])) as [_ S]. rewrite (S F).
  rewrite (render_is_outer_escape f); [reflexivity|].
  eapply Forall_impl; [|exact HV]. intros tv (A & B & _). split; assumption.
Qed.

(* ---------- the filter among other arguments (list <tag> <filter>, count <filter> group <tag>, ...) ---------- *)

(* a rendered parameter [r] that MPD's NextParam reads as [a], whatever follows after a separator *)
Definition rparam (it : bytes * bytes) : Prop :=
  let (r, a) := it in
  (exists h t, r = h :: t /\ is_ws h = false) /\
  ends_nonws r /\
  Forall (fun x => x <> LF /\ x <> 0) r /\
  forall tail, sep_tail tail -> next_param (r ++ tail) = Some (a, strip_left tail).

Fixpoint gwire (items : list (bytes * bytes)) : bytes :=
  match items with
  | [] => []
  | (r, _) :: rest => SP :: r ++ gwire rest
  end.

Lemma gwire_sep_tail items : sep_tail (gwire items).
Proof. destruct items as [|[r a] rest]; [left; reflexivity | right; eexists; reflexivity]. Qed.

Lemma gwire_app x y : gwire (x ++ y) = gwire x ++ gwire y.
Proof.
  induction x as [|[r a] x IH]; [reflexivity|]. cbn [app gwire]. rewrite IH, <- app_assoc. reflexivity.
Qed.

Lemma gparams items : Forall rparam items -> forall fuel, (length items <= fuel)%nat ->
  params fuel (strip_left (gwire items)) = Some (map snd items).
Proof.
  induction 1 as [|[r a] rest ((h & t & E & W) & _ & _ & NP) _ IH]; intros fuel Hf.
  - cbn [gwire strip_left map]. destruct fuel; reflexivity.
  - cbn [length] in Hf. destruct fuel as [|fuel]; [lia|].
    cbn [gwire]. change (strip_left (SP :: r ++ gwire rest)) with (strip_left (r ++ gwire rest)).
    specialize (NP (gwire rest) (gwire_sep_tail rest)). subst r. cbn [app strip_left] in *. rewrite W.
    cbn [params]. rewrite NP. rewrite (IH fuel ltac:(lia)). reflexivity.
Qed.

Lemma gwire_clean items : Forall rparam items -> Forall (fun x => x <> LF /\ x <> 0) (gwire items).
Proof.
  induction 1 as [|[r a] rest (_ & _ & C & _) _ IH]; [constructor|]. cbn [gwire].
  constructor; [split; discriminate|]. apply Forall_app. split; assumption.
Qed.

Lemma gwire_ends items : items <> [] -> Forall rparam items -> ends_nonws (gwire items).
Proof.
  intros Hne H. induction H as [|[r a] rest (_ & E & _) Hr IH]; [congruence|]. cbn [gwire].
  destruct rest as [|it rest'].
  - cbn [gwire]. rewrite app_nil_r. apply (ends_app [SP]). exact E.
  - change (SP :: r ++ gwire (it :: rest')) with ((SP :: r) ++ gwire (it :: rest')). apply ends_app. apply IH. discriminate.
Qed.

Lemma gwire_len items : (length items <= length (gwire items))%nat.
Proof.
  induction items as [|[r a] rest IH]; [cbn; lia|]. cbn [gwire length]. rewrite app_length. lia.
Qed.

(* the tokenizer's fuel (the length of the text) is enough: every item takes at least one byte *)
Lemma gwire_fuel items : Forall rparam items -> (length items <= length (strip_left (gwire items)))%nat.
Proof.
  intros H. destruct H as [|[r a] rest ((h & t & E & W) & _) _]; [cbn; lia|].
  cbn [gwire]. change (strip_left (SP :: r ++ gwire rest)) with (strip_left (r ++ gwire rest)).
  subst r. cbn [app strip_left]. rewrite W. pose proof (gwire_len rest). cbn [length]. rewrite app_length. lia.
Qed.

(* one request line: a valid command name followed by any rendered parameters *)
Theorem tokenize_items name items :
  wf_bytes name -> build name = inr name -> Forall rparam items ->
  mpd_tokenize (send_bytes (name ++ gwire items)) = Some (name :: map snd items).
Proof.
  intros Wn Hb HI. apply build_ok_iff in Hb as (_ & Hfo & Hcs & _).
  assert (Hname : Forall (fun x => valid_word_char x = true /\ is_ws x = false /\ x <> LF /\ x <> 0) name).
  { apply Forall_forall. intros x Hin. unfold wf_bytes in Wn. rewrite Forall_forall in Wn, Hcs.
    destruct (command_charset_plain x (Wn x Hin) (Hcs x Hin)) as (A & B & C & _).
    split; [apply command_charset_word; auto | auto]. }
  assert (Hline : mpd_line (send_bytes (name ++ gwire items)) = name ++ gwire items).
  { apply mpd_line_send.
    - apply Forall_app. split; [eapply Forall_impl; [|exact Hname]; cbn; tauto | apply gwire_clean; exact HI].
    - destruct items as [|it rest].
      + cbn [gwire]. rewrite app_nil_r. destruct (rev name) as [|l rr] eqn:E.
        * apply (f_equal (@rev N)) in E. rewrite rev_involutive in E. cbn in E. subst name. contradiction.
        * exists l, rr. split; [exact E|]. assert (In l name) by (apply in_rev; rewrite E; left; reflexivity).
          rewrite Forall_forall in Hname. apply Hname. assumption.
      + apply ends_app. apply gwire_ends; [discriminate | exact HI]. }
  unfold mpd_tokenize. rewrite Hline.
  destruct name as [|n0 n']; [contradiction|]. cbn [first_ok] in Hfo.
  assert (Hl : valid_word_first n0 = true) by (apply first_charset_letter; [inversion Wn; assumption | exact Hfo]).
  cbn [app next_word]. rewrite Hl. inversion Hname as [|? ? _ Hn']; subst.
  rewrite (scan_word n' (gwire items)); [| eapply Forall_impl; [|exact Hn']; cbn; tauto | apply gwire_sep_tail].
  rewrite (gparams items HI _ (gwire_fuel items HI)). reflexivity.
Qed.

(* the two kinds of parameter used here: a string argument of C06, and a filter *)
Lemma rparam_str a : wf_bytes a -> K a = false ->
  Forall (fun x => argument_reject x = false) (escape_argument a) -> rparam (escape_argument a, a).
Proof.
  intros W HK R. repeat split.
  - destruct (escape_head a HK) as (h & t & E & Wh). eauto.
  - apply ends_escape. exact HK.
  - eapply Forall_impl; [|exact R]. intros x Hx. apply reject_free. exact Hx.
  - intros tail Ht. apply next_param_escape; assumption.
Qed.

Lemma rparam_filter e : Forall (fun x => argument_reject x = false) ([DQ] ++ esc e ++ [DQ]) ->
  rparam ([DQ] ++ esc e ++ [DQ], e).
Proof.
  intros R. repeat split.
  - exists DQ, (esc e ++ [DQ]). split; reflexivity.
  - rewrite app_assoc. apply ends_app. exists DQ, []. split; reflexivity.
  - eapply Forall_impl; [|exact R]. intros x Hx. apply reject_free. exact Hx.
  - intros tail Ht. rewrite <- !app_assoc. cbn [app next_param]. change (DQ =? DQ) with true. cbv iota.
    apply string_body_esc. exact Ht.
Qed.

Definition str_items (args : list bytes) : list (bytes * bytes) := map (fun a => (escape_argument a, a)) args.

Lemma wire_gwire args : wire args = gwire (str_items args).
Proof. induction args as [|a r IH]; [reflexivity|]. cbn [wire str_items map gwire]. fold (str_items r). rewrite IH. reflexivity. Qed.

Lemma str_items_rparam args :
  Forall wf_bytes args -> Forall (fun a => K a = false) args ->
  Forall (fun a => Forall (fun x => argument_reject x = false) (escape_argument a)) args ->
  Forall rparam (str_items args).
Proof.
  intros W. revert W. induction args as [|a r IH]; intros W HK HR; [constructor|].
  inversion W; inversion HK; inversion HR; subst. cbn [str_items map]. constructor; [apply rparam_str; assumption | apply IH; assumption].
Qed.

(* string arguments before and after the filter: MPD sees exactly name, the arguments before, the
   expression, the arguments after — and reads the expression back *)
Theorem filter_roundtrip_args lenient name pre post b0 c0 c1 c f :
  wf_bytes name -> Forall wf_bytes pre -> Forall wf_bytes post ->
  Forall (fun a => K a = false) pre -> Forall (fun a => K a = false) post ->
  build name = inr b0 -> add_all_str b0 pre = Some c0 ->
  wfb f = true -> Forall value_ok (leaves f) -> argument_filter c0 f = Sent c1 ->
  add_all_str c1 post = Some c ->
  mpd_tokenize (send_bytes c) = Some (name :: pre ++ [inner_text f] ++ post) /\
  mpd_parse_filter_gen lenient (inner_text f) = Some (shape_of f, []).
Proof.
  intros Wn Wpre Wpost Kpre Kpost Hb Hpre HW HV HS Hpost. split.
  2:{ apply parse_filter_inner_text; [exact HW|]. eapply Forall_impl; [|exact HV]. intros tv (A & _ & C). split; assumption. }
  pose proof Hb as Hb'. apply build_ok_iff in Hb' as (-> & _).
  apply add_all_str_wire in Hpre as [-> Rpre].
  unfold argument_filter, render_filter in HS. rewrite (wf_and_ok f HW) in HS.
  rewrite (render_is_outer_escape f) in HS by (eapply Forall_impl; [|exact HV]; intros tv (A & B & _); split; assumption).
  set (e := inner_text f) in *.
  destruct (add_argument_raw_cases (name ++ wire pre) ([DQ] ++ esc e ++ [DQ])) as [(i & E & _)|(E & F)]; rewrite E in HS; [discriminate|].
  inversion HS; subst c1; clear HS E.
  apply add_all_str_wire in Hpost as [-> Rpost].
  replace (((name ++ wire pre) ++ SP :: DQ :: esc e ++ [DQ]) ++ wire post)
    with (name ++ gwire (str_items pre ++ [([DQ] ++ esc e ++ [DQ], e)] ++ str_items post)).
  - rewrite tokenize_items; [| exact Wn | exact Hb |].
    + rewrite !map_app. unfold str_items. rewrite !map_map. cbn [snd map]. rewrite !map_id. reflexivity.
    + apply Forall_app. split; [apply str_items_rparam; assumption|].
      apply Forall_app. split; [constructor; [apply rparam_filter; exact F | constructor] | apply str_items_rparam; assumption].
  - rewrite !gwire_app, <- !wire_gwire. cbn [gwire]. rewrite <- !app_assoc. cbn [app]. reflexivity.
Qed.

(* ---------- the failing class is exact: EVERY filter with a double quote in a value is rejected ---------- *)

(* escape_filter_value, character by character, for all values *)
Definition efv_char (c : N) : bytes :=
  if c =? BS then [BS; BS; BS; BS] else if c =? DQ then [BS; BS; DQ] else [c].

Lemma escape_filter_value_chars v : escape_filter_value v = flat_map efv_char v.
Proof.
  unfold escape_filter_value. destruct filter_value_tables as (-> & GB & GD).
  assert (R : fold_left (fun acc cr => replace_byte (fst cr) (snd cr) acc) [(BS, [BS; BS; BS; BS]); (DQ, [BS; BS; DQ])] v
              = flat_map efv_char v).
  { cbn [fold_left fst snd]. induction v as [|c v IH]; [reflexivity|].
    change (c :: v) with ([c] ++ v). rewrite !replace_byte_app, flat_map_app, IH. f_equal.
    unfold replace_byte, efv_char. cbn [flat_map app].
    destruct (c =? BS) eqn:E; [reflexivity|]. cbn [flat_map app]. destruct (c =? DQ); reflexivity. }
  destruct (existsb _ v) eqn:G; [exact R|].
  clear R. induction v as [|c v IH]; [reflexivity|]. cbn [existsb flat_map] in *.
  apply orb_false_iff in G as [G1 G2]. rewrite <- (IH G2). unfold efv_char.
  destruct (c =? BS) eqn:E1; [apply N.eqb_eq in E1; subst c; congruence|].
  destruct (c =? DQ) eqn:E2; [apply N.eqb_eq in E2; subst c; congruence|]. reflexivity.
Qed.

Lemma efv_char_esc c : (c =? DQ) = false -> efv_char c = esc (esc [c]).
Proof.
  intros E. unfold efv_char, esc. cbn [flat_map app]. rewrite E, orb_false_r.
  destruct (c =? BS) eqn:E1; [apply N.eqb_eq in E1; subst c; reflexivity|]. cbn [flat_map app]. rewrite E, E1. reflexivity.
Qed.

(* texts that are an escaped string / that contain a quote which is NOT escaped for the outer layer *)
Definition Resc (s : bytes) : Prop := exists x, s = esc x.
Definition Rbad (s : bytes) : Prop := exists x s', s = esc x ++ [BS; BS; DQ] ++ s'.

Lemma Resc_app a c : Resc a -> Resc c -> Resc (a ++ c).
Proof. intros [x ->] [y ->]. exists (x ++ y). rewrite esc_app. reflexivity. Qed.

Lemma Resc_Rbad_app a c : Resc a -> Rbad c -> Rbad (a ++ c).
Proof. intros [x ->] (y & s' & ->). exists (x ++ y), s'. rewrite esc_app, <- !app_assoc. reflexivity. Qed.

Lemma Rbad_app a c : Rbad a -> Rbad (a ++ c).
Proof. intros (x & s' & ->). exists x, (s' ++ c). rewrite <- !app_assoc. reflexivity. Qed.

Lemma Resc_plain s : forallb plain s = true -> Resc s.
Proof. intros H. exists s. symmetry. apply esc_plain. exact H. Qed.

Lemma efv_R v : if existsb (N.eqb DQ) v then Rbad (flat_map efv_char v) else Resc (flat_map efv_char v).
Proof.
  induction v as [|c v IH]; [exists []; reflexivity|]. cbn [existsb flat_map]. rewrite N.eqb_sym.
  destruct (c =? DQ) eqn:E; cbn [orb].
  - apply N.eqb_eq in E. subst c. exists [], (flat_map efv_char v). reflexivity.
  - assert (Rc : Resc (efv_char c)) by (eexists; apply efv_char_esc; exact E).
    destruct (existsb (N.eqb DQ) v); [apply Resc_Rbad_app | apply Resc_app]; assumption.
Qed.

Definition leaf_dq (tv : tag * bytes) : bool := existsb (N.eqb DQ) (snd tv).
Definition has_dq (f : ftype) : bool := existsb leaf_dq (leaves f).

Definition code_text : ftype -> bytes := text (flat_map efv_char) [BS; DQ].

Lemma render_is_code_text f : render_ftype f = code_text f.
Proof.
  rewrite render_is_text. apply text_ext. apply Forall_forall. intros tv _. apply escape_filter_value_chars.
Qed.

Lemma code_text_R f : Forall (fun tv => valid_tagb (fst tv) = true) (leaves f) ->
  if has_dq f then Rbad (code_text f) else Resc (code_text f).
Proof.
  unfold code_text, has_dq. induction f as [t o v|g IH|l IH] using ftype_ind'; intros H.
  - cbn [leaves] in *. inversion H as [|? ? Ht _]; subst. cbn [fst snd existsb text leaf_dq] in *. rewrite orb_false_r.
    pose proof (efv_R v) as Rv.
    assert (R1 : Resc ([LP] ++ tag_as_str t ++ [SP] ++ operator_str o ++ [SP] ++ [BS; DQ])).
    { repeat apply Resc_app; try (apply Resc_plain; reflexivity).
      - apply Resc_plain. apply valid_tag_plain. exact Ht.
      - apply Resc_plain. apply operator_plain.
      - exists [DQ]. reflexivity. }
    assert (R2 : Resc ([BS; DQ] ++ [RP])) by (exists [DQ; RP]; reflexivity).
    replace ([LP] ++ tag_as_str t ++ [SP] ++ operator_str o ++ [SP] ++ [BS; DQ] ++ flat_map efv_char v ++ [BS; DQ] ++ [RP])
      with (([LP] ++ tag_as_str t ++ [SP] ++ operator_str o ++ [SP] ++ [BS; DQ]) ++ flat_map efv_char v ++ ([BS; DQ] ++ [RP]))
      by (rewrite <- !app_assoc; reflexivity).
    destruct (existsb (N.eqb DQ) v).
    + apply Resc_Rbad_app; [exact R1|]. apply Rbad_app. exact Rv.
    + apply Resc_app; [exact R1|]. apply Resc_app; assumption.
  - cbn [leaves text] in *. specialize (IH H).
    assert (R1 : Resc [LP; BANG]) by (apply Resc_plain; reflexivity).
    assert (R2 : Resc [RP]) by (apply Resc_plain; reflexivity).
    destruct (existsb leaf_dq (leaves g)).
    + apply Resc_Rbad_app; [exact R1|]. apply Rbad_app. exact IH.
    + apply Resc_app; [exact R1|]. apply Resc_app; assumption.
  - rewrite leaves_and in *. apply Forall_flat_map' in H. cbn [text].
    assert (R1 : Resc [LP]) by (apply Resc_plain; reflexivity).
    assert (R2 : Resc [RP]) by (apply Resc_plain; reflexivity).
    assert (G : forall first,
      if existsb leaf_dq (flat_map leaves l)
      then Rbad (and_items first (map (text (flat_map efv_char) [BS; DQ]) l))
      else Resc (and_items first (map (text (flat_map efv_char) [BS; DQ]) l))).
    { induction IH as [|c r Pc _ IHr]; intros first; [exists []; reflexivity|].
      inversion H as [|? ? Hc Hr]; subst. specialize (Pc Hc). specialize (IHr Hr false).
      cbn [flat_map map and_items]. rewrite existsb_app.
      assert (Rs : Resc (if first then [] else b " AND ")) by (destruct first; apply Resc_plain; reflexivity).
      destruct (existsb leaf_dq (leaves c)); cbn [orb].
      - apply Resc_Rbad_app; [exact Rs|]. apply Rbad_app. exact Pc.
      - destruct (existsb leaf_dq (flat_map leaves r)).
        + apply Resc_Rbad_app; [exact Rs|]. apply Resc_Rbad_app; assumption.
        + apply Resc_app; [exact Rs|]. apply Resc_app; assumption. }
    specialize (G true). destruct (existsb leaf_dq (flat_map leaves l)).
    + apply Resc_Rbad_app; [exact R1|]. apply Rbad_app. exact G.
    + apply Resc_app; [exact R1|]. apply Resc_app; assumption.
Qed.

(* every double quote in the written text is preceded by a non-blank byte *)
Fixpoint gdn (prev_ok : bool) (s : bytes) : bool :=
  match s with
  | [] => true
  | c :: r => (if c =? DQ then prev_ok else true) && gdn (negb (is_ws c)) r
  end.

Lemma gdn_mono s p : gdn false s = true -> gdn p s = true.
Proof.
  destruct s as [|c r]; [reflexivity|]. cbn [gdn]. intros H. apply andb_true_iff in H as [H1 H2].
  rewrite H2, andb_true_r. destruct (c =? DQ); [discriminate | reflexivity].
Qed.

Lemma gdn_app p a c : gdn p a = true -> gdn false c = true -> gdn p (a ++ c) = true.
Proof.
  revert p. induction a as [|x a IH]; intros p Ha Hc; [apply gdn_mono; exact Hc|].
  cbn [app gdn] in *. apply andb_true_iff in Ha as [H1 H2]. rewrite H1, (IH _ H2 Hc). reflexivity.
Qed.

Lemma gdn_suffix p a c r : gdn p (a ++ c :: r) = true -> gdn (negb (is_ws c)) r = true.
Proof.
  revert p. induction a as [|x a IH]; intros p H; cbn [app gdn] in H; apply andb_true_iff in H as [_ H]; [exact H | eapply IH; exact H].
Qed.

Lemma gdn_nodq p s : existsb (N.eqb DQ) s = false -> gdn p s = true.
Proof.
  revert p. induction s as [|c s IH]; intros p H; [reflexivity|]. cbn [existsb gdn] in *.
  apply orb_false_iff in H as [H1 H2]. rewrite N.eqb_sym in H1. rewrite H1, (IH _ H2). reflexivity.
Qed.

Lemma gdn_snoc p t l : gdn p (t ++ [l]) = true -> is_ws l = false -> gdn p ((t ++ [l]) ++ [DQ]) = true.
Proof.
  revert p. induction t as [|c t IH]; intros p H W; cbn [app gdn] in *.
  - apply andb_true_iff in H as [H1 _]. rewrite H1. change (DQ =? DQ) with true. rewrite W. reflexivity.
  - apply andb_true_iff in H as [H1 H2]. rewrite H1. cbn [andb]. apply IH; assumption.
Qed.

Lemma plain_nodq s : forallb plain s = true -> existsb (N.eqb DQ) s = false.
Proof.
  induction s as [|c s IH]; [reflexivity|]. cbn [forallb existsb]. intros H. apply andb_true_iff in H as [H1 H2].
  rewrite (IH H2), orb_false_r. unfold plain in H1. apply negb_true_iff in H1. apply orb_false_iff in H1 as [_ H1].
  rewrite N.eqb_sym. exact H1.
Qed.

Lemma efv_gdn v : gdn false (flat_map efv_char v) = true.
Proof.
  induction v as [|c v IH]; [reflexivity|]. cbn [flat_map]. apply gdn_app; [|exact IH].
  unfold efv_char. destruct (c =? BS) eqn:E1; [reflexivity|]. destruct (c =? DQ) eqn:E2; [reflexivity|].
  cbn [gdn]. rewrite E2. reflexivity.
Qed.

Lemma code_text_gdn f : Forall (fun tv => valid_tagb (fst tv) = true) (leaves f) -> gdn false (code_text f) = true.
Proof.
  unfold code_text. induction f as [t o v|g IH|l IH] using ftype_ind'; intros H.
  - cbn [leaves] in H. inversion H as [|? ? Ht _]; subst. cbn [fst] in Ht. cbn [text].
    repeat (apply gdn_app); try reflexivity.
    + apply gdn_nodq, plain_nodq, valid_tag_plain. exact Ht.
    + apply gdn_nodq, plain_nodq, operator_plain.
    + apply efv_gdn.
  - cbn [leaves] in H. cbn [text]. repeat (apply gdn_app); try reflexivity. apply IH. exact H.
  - rewrite leaves_and in H. apply Forall_flat_map' in H. cbn [text].
    assert (A : forall first, gdn false (and_items first (map (text (flat_map efv_char) [BS; DQ]) l)) = true).
    { induction IH as [|c r Pc _ IHr]; intros first; [reflexivity|].
      inversion H as [|? ? Hc Hr]; subst. cbn [map and_items].
      repeat (apply gdn_app); [destruct first; reflexivity | apply Pc; exact Hc | apply IHr; exact Hr]. }
    repeat (apply gdn_app); try reflexivity. apply A.
Qed.

Lemma text_last val q f : exists t, text val q f = t ++ [RP].
Proof.
  destruct f as [t o v|g|l]; cbn [text].
  - exists ([LP] ++ tag_as_str t ++ [SP] ++ operator_str o ++ [SP] ++ q ++ val v ++ q). rewrite <- !app_assoc. reflexivity.
  - exists ([LP; BANG] ++ text val q g). rewrite <- !app_assoc. reflexivity.
  - exists ([LP] ++ and_items true (map (text val q) l)). rewrite <- !app_assoc. reflexivity.
Qed.

(* MPD's tokenizer after a blank: the next parameter cannot start with a quote, and a quote inside an
   unquoted parameter is an error *)
Lemma strip_left_gdn r : gdn false r = true -> existsb (N.eqb DQ) r = true ->
  exists c' r', strip_left r = c' :: r' /\ is_ws c' = false /\ (c' =? DQ) = false /\
                gdn true r' = true /\ existsb (N.eqb DQ) r' = true /\ (length r' < length r)%nat.
Proof.
  induction r as [|c r IH]; intros G E; [discriminate|]. cbn [gdn existsb strip_left length] in *.
  apply andb_true_iff in G as [G1 G2].
  destruct (is_ws c) eqn:W.
  - assert (Ec : (DQ =? c) = false) by (destruct (DQ =? c) eqn:X; [apply N.eqb_eq in X; subst c; discriminate | reflexivity]).
    rewrite Ec in E. cbn [orb negb] in *. destruct (IH G2 E) as (c' & r' & A & B & C & D & F & L).
    exists c', r'. repeat split; try assumption. lia.
  - cbn [negb] in G2. exists c, r. destruct (c =? DQ) eqn:Ec; [discriminate|].
    rewrite N.eqb_sym, Ec in E. cbn [orb] in E. repeat split; try assumption. lia.
Qed.

Lemma scan_gdn ok r : ok DQ = false -> gdn true r = true -> existsb (N.eqb DQ) r = true ->
  scan ok r = None \/
  exists t c' r', scan ok r = Some (t, c' :: r') /\ is_ws c' = false /\ (c' =? DQ) = false /\
                  gdn true r' = true /\ existsb (N.eqb DQ) r' = true /\ (length r' < length r)%nat.
Proof.
  intros Hok. induction r as [|c r IH]; intros G E; [discriminate|]. cbn [gdn existsb scan length] in *.
  apply andb_true_iff in G as [G1 G2].
  destruct (is_ws c) eqn:W.
  - assert (Ec : (DQ =? c) = false) by (destruct (DQ =? c) eqn:X; [apply N.eqb_eq in X; subst c; discriminate | reflexivity]).
    rewrite Ec in E. cbn [orb negb] in *. destruct (strip_left_gdn r G2 E) as (c' & r' & A & B & C & D & F & L).
    right. exists [], c', r'. rewrite A. repeat split; try assumption. lia.
  - cbn [negb] in G2. destruct (c =? DQ) eqn:Ec.
    + apply N.eqb_eq in Ec. subst c. rewrite Hok. left. reflexivity.
    + rewrite N.eqb_sym, Ec in E. cbn [orb] in E. destruct (ok c); [|left; reflexivity].
      destruct (IH G2 E) as [->|(t & c' & r' & A & B & C & D & F & L)]; [left; reflexivity|].
      right. exists (c :: t), c', r'. rewrite A. repeat split; try assumption. lia.
Qed.

Lemma params_gdn n : forall fuel c r, (length r < n)%nat ->
  is_ws c = false -> (c =? DQ) = false -> gdn true r = true -> existsb (N.eqb DQ) r = true ->
  params fuel (c :: r) = None.
Proof.
  induction n as [|n IH]; intros fuel c r L W Ec G E; [lia|].
  destruct fuel as [|fuel]; [reflexivity|]. cbn [params next_param]. rewrite Ec. unfold next_unquoted.
  destruct (valid_unquoted_char c); [|reflexivity].
  destruct (scan_gdn valid_unquoted_char r eq_refl G E) as [->|(t & c' & r' & A & B & C & D & F & L')]; [reflexivity|].
  rewrite A. rewrite (IH fuel c' r'); [reflexivity | lia | assumption..].
Qed.

(* NextString on an escaped string followed by a closing quote, whatever comes after *)
Lemma string_body_esc_gen a tail :
  string_body (esc a ++ DQ :: tail) =
  match tail with [] => Some (a, []) | d :: _ => if is_ws d then Some (a, strip_left tail) else None end.
Proof.
  induction a as [|c a IH].
  - cbn [esc flat_map app string_body]. change (DQ =? DQ) with true. reflexivity.
  - unfold esc. cbn [flat_map]. fold (esc a).
    destruct (c =? BS) eqn:E1; [|destruct (c =? DQ) eqn:E2]; cbn [orb app string_body].
    + change (BS =? DQ) with false. change (BS =? BS) with true. cbv iota. rewrite IH. destruct tail as [|d t]; [reflexivity|]. destruct (is_ws d); reflexivity.
    + change (BS =? DQ) with false. change (BS =? BS) with true. cbv iota. rewrite IH. destruct tail as [|d t]; [reflexivity|]. destruct (is_ws d); reflexivity.
    + rewrite E2, E1, IH. destruct tail as [|d t]; [reflexivity|]. destruct (is_ws d); reflexivity.
Qed.

Theorem dquote_rejected name c0 c f :
  wf_bytes name -> build name = inr c0 ->
  wfb f = true -> Forall (fun tv => valid_tagb (fst tv) = true) (leaves f) ->
  has_dq f = true ->
  argument_filter c0 f = Sent c ->
  mpd_tokenize (send_bytes c) = None.
Proof.
  intros Wn Hb HW HT HD HS.
  apply build_ok_iff in Hb as (-> & Hfo & Hcs & _).
  unfold argument_filter, render_filter in HS. rewrite (wf_and_ok f HW) in HS.
  rewrite render_is_code_text in HS.
  destruct (add_argument_raw_cases name ([DQ] ++ code_text f ++ [DQ])) as [(i & E & _)|(E & F)]; rewrite E in HS; [discriminate|].
  inversion HS; subst c; clear HS E.
  assert (Hname : Forall (fun x => valid_word_char x = true /\ is_ws x = false /\ x <> LF /\ x <> 0) name).
  { apply Forall_forall. intros x Hin. unfold wf_bytes in Wn. rewrite Forall_forall in Wn, Hcs.
    destruct (command_charset_plain x (Wn x Hin) (Hcs x Hin)) as (A & B & C & _).
    split; [apply command_charset_word; auto | auto]. }
  assert (Hline : mpd_line (send_bytes (name ++ [SP] ++ [DQ] ++ code_text f ++ [DQ])) = name ++ [SP] ++ [DQ] ++ code_text f ++ [DQ]).
  { apply mpd_line_send.
    - apply Forall_app. split; [eapply Forall_impl; [|exact Hname]; cbn; tauto|].
      constructor; [split; discriminate|]. eapply Forall_impl; [|exact F]. intros x Hx. apply reject_free. exact Hx.
    - rewrite !app_assoc. apply ends_app. exists DQ, []. split; reflexivity. }
  cbn [app] in Hline. unfold mpd_tokenize. rewrite Hline.
  destruct name as [|n0 n']; [contradiction|]. cbn [first_ok] in Hfo.
  assert (Hl : valid_word_first n0 = true) by (apply first_charset_letter; [inversion Wn; assumption | exact Hfo]).
  cbn [app next_word]. rewrite Hl. inversion Hname as [|? ? _ Hn']; subst.
  rewrite (scan_word n' (SP :: DQ :: code_text f ++ [DQ])); [| eapply Forall_impl; [|exact Hn']; cbn; tauto | right; eexists; reflexivity].
  change (strip_left (SP :: DQ :: code_text f ++ [DQ])) with (DQ :: code_text f ++ [DQ]).
  (* the text: an escaped string, then the quote that closes the argument too early *)
  pose proof (code_text_R f HT) as R. unfold has_dq in HD. fold (has_dq f) in R. unfold has_dq in R. rewrite HD in R.
  destruct R as (x & s' & ET).
  pose proof (code_text_gdn f HT) as G.
  destruct (text_last (flat_map efv_char) [BS; DQ] f) as [tl EL]. fold (code_text f) in EL.
  assert (G' : gdn false (code_text f ++ [DQ]) = true).
  { rewrite EL. apply gdn_snoc; [rewrite <- EL; exact G | reflexivity]. }
  assert (ED : code_text f ++ [DQ] = esc (x ++ [BS]) ++ DQ :: (s' ++ [DQ])).
  { rewrite ET, esc_app, <- !app_assoc. reflexivity. }
  cbn [length]. generalize (length (code_text f ++ [DQ])) as fuel. intros fuel.
  cbn [params next_param]. change (DQ =? DQ) with true. cbv iota.
  rewrite ED, string_body_esc_gen.
  destruct (s' ++ [DQ]) as [|d tail'] eqn:Etail; [destruct s'; discriminate|].
  destruct (is_ws d) eqn:Wd; [|reflexivity].
  rewrite ED in G'. apply gdn_suffix in G'. change (negb (is_ws DQ)) with true in G'.
  cbn [gdn] in G'. apply andb_true_iff in G' as [_ G2]. rewrite Wd in G2. cbn [negb] in G2.
  assert (Dd : (DQ =? d) = false) by (destruct (DQ =? d) eqn:X; [apply N.eqb_eq in X; subst d; discriminate | reflexivity]).
  assert (Et : existsb (N.eqb DQ) tail' = true).
  { assert (X : existsb (N.eqb DQ) (d :: tail') = true).
    { rewrite <- Etail. rewrite existsb_app. cbn [existsb]. change (DQ =? DQ) with true. apply orb_true_r. }
    cbn [existsb] in X. rewrite Dd in X. exact X. }
  destruct (strip_left_gdn tail' G2 Et) as (c' & r' & A & B & C & D & F' & L).
  cbn [strip_left]. rewrite Wd, A.
  pose proof (params_gdn (S (length r')) fuel c' r' (Nat.lt_succ_diag_r _) B C D F') as PG.
  rewrite PG. reflexivity.
Qed.

Lemma has_dq_false f : has_dq f = false <-> Forall (fun tv => no_dq (snd tv) = true) (leaves f).
Proof.
  unfold has_dq. induction (leaves f) as [|tv l IH]; cbn [existsb]; [split; auto|].
  unfold leaf_dq at 1, no_dq. split.
  - intros H. apply orb_false_iff in H as [H1 H2]. constructor; [rewrite H1; reflexivity | apply IH; exact H2].
  - intros H. inversion H as [|? ? H1 H2]; subst. apply negb_true_iff in H1. rewrite H1. apply IH. exact H2.
Qed.

(* for filters with MPD-word tags and values below MPD's length limit that were sent: the server reads
   back what was built IF AND ONLY IF no value holds a double quote *)
Theorem roundtrip_iff lenient name c0 c f :
  wf_bytes name -> build name = inr c0 -> wfb f = true ->
  Forall leaf_ok (leaves f) ->
  argument_filter c0 f = Sent c ->
  ((exists e, mpd_tokenize (send_bytes c) = Some [name; e] /\ mpd_parse_filter_gen lenient e = Some (shape_of f, []))
   <-> has_dq f = false).
Proof.
  intros Wn Hb HW HL HS. split.
  - intros (e & T & _). destruct (has_dq f) eqn:D; [|reflexivity].
    rewrite (dquote_rejected name c0 c f Wn Hb HW) in T; [discriminate | | exact D | exact HS].
    eapply Forall_impl; [|exact HL]. intros tv [A _]. exact A.
  - intros D. exists (inner_text f). apply (filter_roundtrip lenient name c0 c f Wn Hb HW); [|exact HS].
    apply has_dq_false in D. rewrite Forall_forall in *. intros tv Hin. destruct (HL tv Hin) as [A B].
    split; [exact A | split; [apply D; exact Hin | exact B]].
Qed.
