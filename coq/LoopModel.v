(* LoopModel.v — mpd_client/src/client/connection.rs (the run loop) and the request plumbing of
   client/mod.rs, as a transition system over the five points at which the loop task can be
   suspended.  The client logic [cstep] is a pure function of the control point and the event that
   resumes it; it is shared by the executable byte-level system (DriverLoop.v, compared with the
   real client by the replayer) and by the abstract system the theorems are about (LoopProofs.v). *)
From MPD Require Import Bytes Tables ParserModel BuilderModel ConnModel CommandModel.
Open Scope N_scope.

(* MpdProtocolError *)
Inductive perr := EInvalid | EUeof | EIo.

(* result of a completed [AsyncConnection::receive] *)
Inductive rres := RResp (r : response) | RClean | RErr (e : perr).

(* ConnectionError carried by the closing event *)
Inductive closekind := CKProto (e : perr) | CKInvalidResponse.

(* what a caller's one-shot responder is sent *)
Inductive reply := RepResp (r : response) | RepProto (e : perr).

Record request := mkReq { q_id : N; q_bytes : bytes }.   (* q_bytes: what send_list writes *)

Inductive point :=
  | PIdle                       (* select!{receive, commands.recv} *)
  | PCancel (q : request)       (* noidle written; receive() inside handle_command *)
  | PWait (id : N)              (* receive() in the WaitingForCommandReply arm *)
  | PWindow                     (* timeout(NEXT_COMMAND_IDLE_TIMEOUT, commands.recv()) *)
  | PExited.                    (* loop left: State (queue, responders, transport) dropped *)

Inductive cin :=
  | InRecv (r : rres)               (* the pending receive completes *)
  | InCmd (q : option request)      (* commands.recv(): a request, or None = all senders gone *)
  | InTimeout.

Inductive cout :=
  | OWrite (bs : bytes)
  | OReply (id : N) (r : reply)     (* responder.send(..) *)
  | ODropResp (id : N)              (* responder dropped unanswered: the caller sees Closed *)
  | OEvent (name : bytes)           (* ConnectionEvent::SubsystemChange *)
  | OClosed (k : closekind)         (* ConnectionEvent::ConnectionClosed *)
  | OPanic.

Definition idle_line : bytes := idle_word ++ [LF].
Definition noidle_line : bytes := noidle_word ++ [LF].

(* Response::into_single_frame: first of frames ++ error; None = the unwrap would panic *)
Definition single_frame (r : response) : option (frame + err) :=
  match r_frames r with
  | f :: _ => Some (inl f)
  | [] => match r_error r with Some e => Some (inr e) | None => None end
  end.

(* Subsystem::from_frame: every [changed] value, in order (repeated Frame::get) *)
Definition changed_of (f : frame) : list bytes :=
  map snd (filter (fun kv => beq (fst kv) sub_field_key) (f_fields f)).

Definition events_of (f : frame) : list cout := map OEvent (changed_of f).

(* a write: the bytes, or failure when the transport refuses writes *)
Definition cstep (wfail : bool) (p : point) (i : cin) : point * list cout :=
  match p, i with
  (* ---- Idling: handle_idle_response ---- *)
  | PIdle, InRecv (RResp r) =>
    match single_frame r with
    | Some (inl f) =>
      if wfail then (PExited, events_of f ++ [OClosed (CKProto EIo)])
      else (PIdle, events_of f ++ [OWrite idle_line])
    | Some (inr _) => (PExited, [OClosed CKInvalidResponse])
    | None => (PExited, [OPanic])
    end
  | PIdle, InRecv RClean => (PExited, [])
  | PIdle, InRecv (RErr e) => (PExited, [OClosed (CKProto e)])
  (* ---- Idling: handle_command ---- *)
  | PIdle, InCmd None => (PExited, [])
  | PIdle, InCmd (Some q) =>
    if wfail then (PExited, [OReply (q_id q) (RepProto EIo)])
    else (PCancel q, [OWrite noidle_line])
  | PCancel q, InRecv RClean => (PExited, [ODropResp (q_id q)])
  | PCancel q, InRecv (RErr e) => (PExited, [OReply (q_id q) (RepProto e)])
  | PCancel q, InRecv (RResp r) =>
    match single_frame r with
    | Some (inl f) =>
      if wfail then (PExited, events_of f ++ [OReply (q_id q) (RepProto EIo)])
      else (PWait (q_id q), events_of f ++ [OWrite (q_bytes q)])
    | Some (inr _) => (PExited, [OClosed CKInvalidResponse; ODropResp (q_id q)])
    | None => (PExited, [OPanic; ODropResp (q_id q)])
    end
  (* ---- WaitingForCommandReply ---- *)
  | PWait id, InRecv RClean => (PExited, [ODropResp id])
  | PWait id, InRecv (RResp r) => (PWindow, [OReply id (RepResp r)])
  | PWait id, InRecv (RErr e) => (PWindow, [OReply id (RepProto e)])
  | PWindow, InCmd (Some q) =>
    if wfail then (PExited, [OReply (q_id q) (RepProto EIo)])
    else (PWait (q_id q), [OWrite (q_bytes q)])
  | PWindow, InCmd None => (PExited, [])
  | PWindow, InTimeout =>
    if wfail then (PExited, [OClosed (CKProto EIo)])
    else (PIdle, [OWrite idle_line])
  (* an event the loop is not waiting for at this point: not enabled *)
  | _, _ => (p, [])
  end.

(* which events the loop is waiting for at a point *)
Definition wants_recv (p : point) : bool :=
  match p with PIdle | PCancel _ | PWait _ => true | _ => false end.
Definition wants_cmd (p : point) : bool :=
  match p with PIdle | PWindow => true | _ => false end.

(* ------------------------------------------------------------------------------------------ *)
(* Client::raw_command / raw_command_list (client/mod.rs): how a reply is split for the caller *)

Inductive cmd_result :=
  | CROk (frames : list frame)
  | CRAck (e : err) (frames : list frame)
  | CRProto (e : perr)
  | CRClosed
  | CRTyped
  | CRPanic.

(* raw_command_list: the frames of the commands that succeeded, then the error if any *)
Definition split_list (r : response) : cmd_result :=
  match r_error r with
  | None => CROk (r_frames r)
  | Some e => CRAck e (r_frames r)
  end.

(* raw_command: into_single_frame; an error carries no frames *)
Definition split_single (r : response) : cmd_result :=
  match single_frame r with
  | Some (inl f) => CROk [f]
  | Some (inr e) => CRAck e []
  | None => CRPanic
  end.

Definition result_of_reply (single : bool) (r : reply) : cmd_result :=
  match r with
  | RepResp x => if single then split_single x else split_list x
  | RepProto e => CRProto e
  end.

(* ------------------------------------------------------------------------------------------ *)
(* do_connect (client/mod.rs): greeting, optional password exchange, then the loop is spawned and
   writes idle.  Modelled as the sequential program it is, over the same receive results. *)

Inductive hpoint :=
  | HGreeting                       (* AsyncConnection::connect in progress *)
  | HPassword (version : bytes)     (* password written, waiting for its reply *)
  | HDone.

Inductive connect_result :=
  | ConnOk (version : bytes)
  | ConnErr (e : perr)
  | ConnBadPassword.

(* the password command line: RawCommand::new("password").argument(pw); None = argument() panics *)
Definition password_line (pw : bytes) : option bytes :=
  match add_str (b "password") pw with
  | (None, c) => Some (send_bytes c)
  | (Some _, _) => None
  end.

(* after the greeting was accepted *)
Definition after_greeting (wfail : bool) (pw : option bytes) (version : bytes)
  : hpoint * list cout * option connect_result * bool (* loop spawned *) :=
  match pw with
  | None => (HDone, [], Some (ConnOk version), true)
  | Some p =>
    match password_line p with
    | None => (HDone, [OPanic], None, false)
    | Some line =>
      if wfail then (HDone, [], Some (ConnErr EIo), false)
      else (HPassword version, [OWrite line], None, false)
    end
  end.

(* the reply to the password command *)
Definition after_password (version : bytes) (r : rres)
  : option connect_result * bool (* loop spawned *) :=
  match r with
  | RErr e => (Some (ConnErr e), false)
  | RClean => (Some (ConnErr EUeof), false)
  | RResp x => if match r_error x with Some _ => true | None => false end
               then (Some ConnBadPassword, false)
               else (Some (ConnOk version), true)
  end.

(* run_loop entry: the initial idle *)
Definition loop_entry (wfail : bool) : point * list cout :=
  if wfail then (PExited, [OClosed (CKProto EIo)]) else (PIdle, [OWrite idle_line]).
