(* CommandsModel.v — mpd_client/src/commands/definitions.rs + commands/mod.rs + the Argument impls
   of mpd_protocol/src/command.rs: what every predefined command writes, for abstract parameter
   values.  One state type per Rust struct (mirroring its private fields), one [*_command]
   function per [impl Command for X { fn command(&self) }], one constructor of [predef] per public
   constructor/builder path.  Arguments are kept UNESCAPED ([AStr]) or as the bytes a non-string
   renderer emits ([ARaw]); the wire line is obtained through CommandModel.add_str /
   add_argument_raw / send_bytes.  Every panic site ([RawCommand::argument], [.unwrap()] on
   add_argument, [panic!]/[assert_ne!] in constructors) is an explicit [Panic]/[None].
   No proofs in this file. *)
From MPD Require Import Bytes Tables TagModel CommandModel CommandsParams.
Open Scope N_scope.

(* ---------- integers: Rust widths ---------- *)
Definition u8_max : N := 255.
Definition u64_max : N := 2 ^ 64 - 1.
Definition usize_max : N := 2 ^ 64 - 1.          (* 64-bit target *)
(* usize::saturating_add(1) *)
Definition saturating_succ (x : N) : N := N.min (x + 1) usize_max.

(* struct SongRange { from: usize, to: Option<usize> } *)
Record song_range := mk_range { sr_from : N; sr_to : option N }.

(* SongRange::new_usize; SongRange::new only unwraps SongPosition and calls it *)
Definition song_range_new (lo hi : bound) : song_range :=
  {| sr_from := match lo with
                | Excluded p => saturating_succ p
                | Included p => p
                | Unbounded => 0
                end;
     sr_to := match hi with
              | Excluded p => Some p
              | Included p => Some (saturating_succ p)
              | Unbounded => None
              end |}.

Definition COLON : N := 58.
(* impl Argument for SongRange *)
Definition render_range (r : song_range) : bytes :=
  match sr_to r with
  | Some t => render_dec (sr_from r) ++ [COLON] ++ render_dec t
  | None => render_dec (sr_from r) ++ [COLON]
  end.

(* ---------- f64 as exact dyadic rationals (never a Coq float) ----------
   A finite non-negative f64 is [num / 2^k].  [rn53 a c] is the f64 nearest to a/c (53-bit
   significand, ties to even); the values used here (0, or >= 1e-9 and < 2^65) are far from the
   subnormal and overflow ranges, so only the significand width matters. *)
Definition f64 := (N * N)%type.

Definition div_rne (n d : N) : N :=          (* n/d rounded to nearest, ties to even *)
  let q := n / d in
  let r := n mod d in
  match (2 * r) ?= d with
  | Lt => q
  | Gt => q + 1
  | Eq => if N.even q then q else q + 1
  end.

Definition rn53 (a c : N) : f64 :=
  if a =? 0 then (0, 0) else
  let la := N.log2 a in
  let lc := N.log2 c in
  (* a * 2^(52+lc) / (c * 2^la) lies in (2^51, 2^53) *)
  let d := c * 2 ^ la in
  let n0 := a * 2 ^ (52 + lc) in
  if n0 <? 2 ^ 52 * d
  then (div_rne (2 * n0) d * 2 ^ la, 53 + lc)
  else (div_rne n0 d * 2 ^ la, 52 + lc).

Definition NANOS_PER_SEC : N := 1000000000.

(* Duration::as_secs_f64: (secs as f64) + (nanos as f64) / 1e9 *)
Definition as_secs_f64 (secs nanos : N) : f64 :=
  let s := rn53 secs 1 in
  let q := rn53 nanos NANOS_PER_SEC in
  rn53 (fst s * 2 ^ snd q + fst q * 2 ^ snd s) (2 ^ (snd s + snd q)).

Definition pad3 (n : N) : bytes := [48 + n / 100; 48 + (n / 10) mod 10; 48 + n mod 10].

(* format!("{:.3}", x): the exact value rounded to 3 decimals, ties to even *)
Definition fmt3 (x : f64) : bytes :=
  let ms := div_rne (fst x * 1000) (2 ^ snd x) in
  render_dec (ms / 1000) ++ [46] ++ pad3 (ms mod 1000).

(* impl Argument for Duration *)
Definition render_duration (secs nanos : N) : bytes := fmt3 (as_secs_f64 secs nanos).

Definition single_ident (m : single_mode) : bytes :=
  match m with SingleEnabled => b "Enabled" | SingleDisabled => b "Disabled" | SingleOneshot => b "Oneshot" end.
Definition rg_ident (m : rg_mode) : bytes :=
  match m with RgOff => b "Off" | RgTrack => b "Track" | RgAlbum => b "Album" | RgAuto => b "Auto" end.

Fixpoint lookup_ident (tbl : list (bytes * bytes)) (id : bytes) : bytes :=
  match tbl with
  | [] => []
  | (k, v) :: r => if beq k id then v else lookup_ident r id
  end.

(* the match tables of SetSingle / SetReplayGainMode, regenerated from the source *)
Definition single_str (m : single_mode) : bytes := lookup_ident single_render (single_ident m).
Definition rg_str (m : rg_mode) : bytes := lookup_ident replaygain_render (rg_ident m).

(* impl Argument for PositionOrRelative *)
Definition render_pos_or_rel (p : pos_or_rel) : bytes :=
  match p with
  | Absolute x => render_dec x
  | AfterCurrent x => [43] ++ render_dec x
  | BeforeCurrent x => [45] ++ render_dec x
  end.

(* ---------- filter.rs, single-tag filters with optional negation (all of it is C11's) ---------- *)
Definition escape_filter_value (v : bytes) : bytes :=
  flat_map (fun c => if c =? BS then (if filter_escapes_backslash then [BS; BS; BS; BS] else [BS])
                     else if c =? DQ then [BS; BS; DQ] else [c]) v.

Definition filter_inner (f : sfilter) : bytes :=
  let t := [40] ++ tag_as_str (f_tag f) ++ [SP] ++ operator_str (f_op f) ++ [SP; BS; DQ]
           ++ escape_filter_value (f_value f) ++ [BS; DQ; 41] in
  if f_neg f then [40; 33] ++ t ++ [41] else t.

(* Filter::render: the whole expression between double quotes *)
Definition render_filter (f : sfilter) : bytes := [DQ] ++ filter_inner f ++ [DQ].

(* ---------- building the request ---------- *)
Inductive arg :=
  | AStr (s : bytes)            (* &str / String: escape_argument *)
  | ARaw (r : bytes)            (* integers, bool, Duration, SongRange, PositionOrRelative, &Tag *)
  | AFilter (f : sfilter).      (* &Filter *)

Definition arg_rendered (a : arg) : bytes :=
  match a with
  | AStr s => escape_argument s
  | ARaw r => r
  | AFilter f => render_filter f
  end.

Inductive outcome := Panic | Sent (wire : bytes).

(* every add is [.argument(..)] or [.add_argument(..).unwrap()/.expect(..)]: rejection = panic *)
Fixpoint add_args (c : bytes) (l : list arg) : option bytes :=
  match l with
  | [] => Some c
  | a :: r =>
    match add_argument_raw c (arg_rendered a) with
    | (None, c') => add_args c' r
    | (Some _, _) => None
    end
  end.

Definition request := (bytes * list arg)%type.

Definition render_request (q : request) : outcome :=
  match build (fst q) with
  | inl _ => Panic                               (* RawCommand::new panics *)
  | inr c => match add_args c (snd q) with
             | Some c' => Sent (send_bytes c')
             | None => Panic
             end
  end.

Definition num (n : N) : arg := ARaw (render_dec n).
Definition bool_arg (x : bool) : arg := ARaw (if x then [49] else [48]).
Definition tag_arg (t : tag) : arg := ARaw (tag_as_str t).      (* impl Argument for Tag: put_slice(as_str) *)
Definition range_arg (r : song_range) : arg := ARaw (render_range r).
Definition opt_args {A} (o : option A) (f : A -> list arg) : list arg :=
  match o with Some x => f x | None => [] end.

(* ---------- definitions.rs: one function per [impl Command] ---------- *)

(* argless_command! / the hand-written argless structs *)
Definition argless_command (word : bytes) : request := (word, []).
(* single_arg_command!(.., &str, ..) and GetPlaylist *)
Definition str_command (word s : bytes) : request := (word, [AStr s]).
(* single_arg_command!(.., bool, ..) *)
Definition bool_command (word : bytes) (x : bool) : request := (word, [bool_arg x]).

(* QueueRange(SongOrSongRange) *)
Inductive song_or_range := SorSingle (s : song) | SorRange (r : song_range).
Definition queue_range_command (x : song_or_range) : request :=
  match x with
  | SorSingle (SongId id) => (b "playlistid", [num id])
  | SorSingle (SongPos p) => (b "playlistinfo", [num p])
  | SorRange r => (b "playlistinfo", [range_arg r])
  end.

Definition set_volume_command (v : N) : request := (b "setvol", [num (N.min v volume_max)]).
Definition set_single_command (m : single_mode) : request := (b "single", [AStr (single_str m)]).
Definition set_replay_gain_mode_command (m : rg_mode) : request := (b "replay_gain_mode", [AStr (rg_str m)]).
(* Duration::as_secs *)
Definition crossfade_command (secs nanos : N) : request := (b "crossfade", [num secs]).

Definition seek_to_command (s : song) (secs nanos : N) : request :=
  match s with
  | SongPos p => (b "seek", [num p; ARaw (render_duration secs nanos)])
  | SongId id => (b "seekid", [num id; ARaw (render_duration secs nanos)])
  end.

(* the time is formatted into a String first, so it goes through escape_argument *)
Definition seek_command (m : seek_mode) (secs nanos : N) : request :=
  let t := render_duration secs nanos in
  (b "seekcur", [AStr (match m with
                       | SeekAbsolute => t
                       | SeekForward => [43] ++ t
                       | SeekBackward => [45] ++ t
                       end)]).

Definition shuffle_command (r : option song_range) : request :=
  (b "shuffle", opt_args r (fun x => [range_arg x])).

Definition play_command (s : option song) : request :=
  match s with
  | None => (b "play", [])
  | Some (SongPos p) => (b "play", [num p])
  | Some (SongId id) => (b "playid", [num id])
  end.

Definition add_command (uri : bytes) (pos : option pos_or_rel) : request :=
  (b "addid", AStr uri :: opt_args pos (fun p => [ARaw (render_pos_or_rel p)])).

(* enum Target *)
Inductive target := TId (id : N) | TRange (r : song_range).
Definition delete_command (t : target) : request :=
  match t with
  | TId id => (b "deleteid", [num id])
  | TRange r => (b "delete", [range_arg r])
  end.

Definition move_command (from : target) (to : pos_or_rel) : request :=
  match from with
  | TId id => (b "moveid", [num id; ARaw (render_pos_or_rel to)])
  | TRange r => (b "move", [range_arg r; ARaw (render_pos_or_rel to)])
  end.

(* sort goes through sort.as_str() (a &str: escaped); the window through SongRange *)
Definition find_command (f : sfilter) (sort : option tag) (window : option song_range) : request :=
  (b "find", AFilter f
             :: opt_args sort (fun t => [AStr (b "sort"); AStr (tag_as_str t)])
             ++ opt_args window (fun w => [AStr (b "window"); range_arg w])).

Definition list_command (t : tag) (f : option sfilter) (group_by : list tag) : request :=
  (b "list", tag_arg t :: opt_args f (fun x => [AFilter x])
             ++ flat_map (fun g => [AStr (b "group"); tag_arg g]) group_by).

Definition count_command (f : sfilter) : request := (b "count", [AFilter f]).
Definition count_grouped_command (group_by : tag) (f : option sfilter) : request :=
  (b "count", opt_args f (fun x => [AFilter x]) ++ [AStr (b "group"); tag_arg group_by]).

Definition rename_playlist_command (from to : bytes) : request := (b "rename", [AStr from; AStr to]).
Definition load_playlist_command (name : bytes) (r : option song_range) : request :=
  (b "load", AStr name :: opt_args r (fun x => [range_arg x])).
Definition add_to_playlist_command (pl url : bytes) (pos : option N) : request :=
  (b "playlistadd", [AStr pl; AStr url] ++ opt_args pos (fun p => [num p])).

(* enum PositionOrRange *)
Inductive pos_or_range := PorPosition (p : N) | PorRange (r : song_range).
Definition remove_from_playlist_command (pl : bytes) (t : pos_or_range) : request :=
  (b "playlistdelete", [AStr pl; match t with PorPosition p => num p | PorRange r => range_arg r end]).
Definition move_in_playlist_command (pl : bytes) (from to : N) : request :=
  (b "playlistmove", [AStr pl; num from; num to]).
Definition list_all_in_command (dir : bytes) : request :=
  (b "listallinfo", match dir with [] => [] | _ => [AStr dir] end).
Definition set_binary_limit_command (n : N) : request := (b "binarylimit", [num n]).
Definition album_art_command (uri : bytes) (offset : N) : request := (b "albumart", [AStr uri; num offset]).
Definition album_art_embedded_command (uri : bytes) (offset : N) : request := (b "readpicture", [AStr uri; num offset]).

(* enum TagTypesAction *)
Inductive tag_types_action := TtEnableAll | TtClear | TtDisable (l : list tag) | TtEnable (l : list tag).
Definition tag_types_command (a : tag_types_action) : request :=
  (b "tagtypes", match a with
                 | TtEnableAll => [AStr (b "all")]
                 | TtClear => [AStr (b "clear")]
                 | TtDisable l => AStr (b "disable") :: map tag_arg l
                 | TtEnable l => AStr (b "enable") :: map tag_arg l
                 end).

Definition sticker_get_command (uri name : bytes) : request :=
  (b "sticker", [AStr (b "get"); AStr (b "song"); AStr uri; AStr name]).
Definition sticker_set_command (uri name value : bytes) : request :=
  (b "sticker", [AStr (b "set"); AStr (b "song"); AStr uri; AStr name; AStr value]).
Definition sticker_delete_command (uri name : bytes) : request :=
  (b "sticker", [AStr (b "delete"); AStr (b "song"); AStr uri; AStr name]).
Definition sticker_list_command (uri : bytes) : request :=
  (b "sticker", [AStr (b "list"); AStr (b "song"); AStr uri]).
Definition sticker_find_command (uri name : bytes) (flt : option (sticker_op * bytes)) : request :=
  (b "sticker", [AStr (b "find"); AStr (b "song"); AStr uri; AStr name]
                ++ opt_args flt (fun ov => [AStr (match fst ov with
                                                  | StEquals => [61] | StGreaterThan => [62] | StLessThan => [60]
                                                  end); AStr (snd ov)])).

Definition update_command (uri : option bytes) : request := (b "update", opt_args uri (fun u => [AStr u])).
Definition rescan_command (uri : option bytes) : request := (b "rescan", opt_args uri (fun u => [AStr u])).
Definition send_channel_message_command (ch msg : bytes) : request := (b "sendmessage", [AStr ch; AStr msg]).

Definition range_of (lh : bound * bound) : song_range := song_range_new (fst lh) (snd lh).

(* None = the constructor itself panics (documented) *)
Definition model (x : predef) : option request :=
  match x with
  | PClearQueue => Some (argless_command (b "clear"))
  | PNext => Some (argless_command (b "next"))
  | PPing => Some (argless_command (b "ping"))
  | PPrevious => Some (argless_command (b "previous"))
  | PStop => Some (argless_command (b "stop"))
  | PReplayGainStatus => Some (argless_command (b "replay_gain_status"))
  | PStatus => Some (argless_command (b "status"))
  | PStats => Some (argless_command (b "stats"))
  | PQueue | PQueueAll => Some (argless_command (b "playlistinfo"))
  | PCurrentSong => Some (argless_command (b "currentsong"))
  | PGetPlaylists => Some (argless_command (b "listplaylists"))
  | PGetEnabledTagTypes => Some (argless_command (b "tagtypes"))
  | PReadChannelMessages => Some (argless_command (b "readmessages"))
  | PListChannels => Some (argless_command (b "channels"))
  | PClearPlaylist s => Some (str_command (b "playlistclear") s)
  | PDeletePlaylist s => Some (str_command (b "rm") s)
  | PSaveQueueAsPlaylist s => Some (str_command (b "save") s)
  | PSubscribeToChannel s => Some (str_command (b "subscribe") s)
  | PUnsubscribeFromChannel s => Some (str_command (b "unsubscribe") s)
  | PGetPlaylist s => Some (str_command (b "listplaylistinfo") s)
  | PSetConsume x => Some (bool_command (b "consume") x)
  | PSetPause x => Some (bool_command (b "pause") x)
  | PSetRandom x => Some (bool_command (b "random") x)
  | PSetRepeat x => Some (bool_command (b "repeat") x)
  | PQueueSong s | PQueueRangeSong s => Some (queue_range_command (SorSingle s))
  | PQueueRange lo hi | PQueueRangeRange lo hi => Some (queue_range_command (SorRange (song_range_new lo hi)))
  | PSetVolume v => Some (set_volume_command v)
  | PSetSingle m => Some (set_single_command m)
  | PSetReplayGainMode m => Some (set_replay_gain_mode_command m)
  | PCrossfade s n => Some (crossfade_command s n)
  | PSeekTo sg s n => Some (seek_to_command sg s n)
  | PSeek m s n => Some (seek_command m s n)
  | PShuffleAll => Some (shuffle_command None)
  | PShuffleRange lo hi => Some (shuffle_command (Some (song_range_new lo hi)))
  | PPlayCurrent => Some (play_command None)
  | PPlaySong s => Some (play_command (Some s))
  | PAdd uri pos => Some (add_command uri pos)
  | PDeleteId id => Some (delete_command (TId id))
  | PDeletePosition p => Some (delete_command (TRange (song_range_new (Included p) (Included p))))
  | PDeleteRange lo hi => Some (delete_command (TRange (song_range_new lo hi)))
  | PMove (MfId id) to => Some (move_command (TId id) to)
  | PMove (MfPosition p) to => Some (move_command (TRange (song_range_new (Included p) (Included p))) to)
  | PMove (MfRange lo Unbounded) to => None          (* panic!("move commands must not have an open end") *)
  | PMove (MfRange lo hi) to => Some (move_command (TRange (song_range_new lo hi)) to)
  | PFind f sort window => Some (find_command f sort (option_map range_of window))
  | PList t f g => Some (list_command t f g)
  | PCount f => Some (count_command f)
  | PCountGroupBy f g => Some (count_grouped_command g (Some f))
  | PCountGrouped g f => Some (count_grouped_command g f)
  | PRenamePlaylist from to => Some (rename_playlist_command from to)
  | PLoadPlaylist name r => Some (load_playlist_command name (option_map range_of r))
  | PAddToPlaylist pl url pos => Some (add_to_playlist_command pl url pos)
  | PRemoveFromPlaylistPosition pl p => Some (remove_from_playlist_command pl (PorPosition p))
  | PRemoveFromPlaylistRange pl lo hi => Some (remove_from_playlist_command pl (PorRange (song_range_new lo hi)))
  | PMoveInPlaylist pl from to => Some (move_in_playlist_command pl from to)
  | PListAllInRoot => Some (list_all_in_command [])
  | PListAllInDirectory d => Some (list_all_in_command d)
  | PSetBinaryLimit n => Some (set_binary_limit_command n)
  | PAlbumArt uri off => Some (album_art_command uri (match off with Some o => o | None => 0 end))
  | PAlbumArtEmbedded uri off => Some (album_art_embedded_command uri (match off with Some o => o | None => 0 end))
  | PTagTypesEnableAll => Some (tag_types_command TtEnableAll)
  | PTagTypesDisableAll => Some (tag_types_command TtClear)
  | PTagTypesDisable [] => None                      (* assert_ne!(tags.len(), 0, ..) *)
  | PTagTypesDisable l => Some (tag_types_command (TtDisable l))
  | PTagTypesEnable [] => None
  | PTagTypesEnable l => Some (tag_types_command (TtEnable l))
  | PStickerGet uri name => Some (sticker_get_command uri name)
  | PStickerSet uri name value => Some (sticker_set_command uri name value)
  | PStickerDelete uri name => Some (sticker_delete_command uri name)
  | PStickerList uri => Some (sticker_list_command uri)
  | PStickerFind uri name flt => Some (sticker_find_command uri name flt)
  | PUpdate uri => Some (update_command uri)
  | PRescan uri => Some (rescan_command uri)
  | PSendChannelMessage ch msg => Some (send_channel_message_command ch msg)
  end.

(* what is written for a constructor path *)
Definition run_predef (x : predef) : outcome :=
  match model x with
  | None => Panic
  | Some q => render_request q
  end.
