(* Bytes.v — byte strings as [list N], byte classes, decimal numerals, hex, UTF-8 validity.
   Models std behaviour the repository relies on (trusted, differential-tested by the harness). *)
From Coq Require Export String Ascii.
From Coq Require Export List NArith Bool Lia.
Export ListNotations.
Open Scope N_scope.

Arguments N.add : simpl never.
Arguments N.sub : simpl never.
Arguments N.mul : simpl never.
Arguments N.div : simpl never.
Arguments N.modulo : simpl never.
Arguments N.eqb : simpl never.
Arguments N.ltb : simpl never.
Arguments N.leb : simpl never.

Definition byte := N.
Definition bytes := list N.

(* string literals: [b "OK"] is the list of character codes *)
Fixpoint b (s : string) : bytes :=
  match s with
  | EmptyString => []
  | String c r => N_of_ascii c :: b r
  end.

Definition LF : N := 10.
Definition SP : N := 32.
Definition TAB : N := 9.
Definition DQ : N := 34.   (* double quote *)
Definition SQ : N := 39.   (* single quote *)
Definition BS : N := 92.   (* backslash *)

Definition in_range (lo hi x : N) : bool := (lo <=? x) && (x <=? hi).
Definition is_upper (x : N) : bool := in_range 65 90 x.
Definition is_lower (x : N) : bool := in_range 97 122 x.
Definition is_alpha (x : N) : bool := is_upper x || is_lower x.
Definition is_digit (x : N) : bool := in_range 48 57 x.
Definition is_byte (x : N) : bool := x <? 256.
Definition to_lower (x : N) : N := if is_upper x then x + 32 else x.

Fixpoint beq (x y : bytes) : bool :=
  match x, y with
  | [], [] => true
  | a :: x', c :: y' => (a =? c) && beq x' y'
  | _, _ => false
  end.

Lemma beq_eq x y : beq x y = true <-> x = y.
Proof.
  revert y; induction x as [|a x IH]; intros [|c y]; simpl; split; intro H; try congruence; try reflexivity.
  - apply andb_true_iff in H as [H1 H2]. apply N.eqb_eq in H1. apply IH in H2. congruence.
  - inversion H; subst. rewrite N.eqb_refl. simpl. apply IH. reflexivity.
Qed.

Lemma beq_refl x : beq x x = true.
Proof. apply beq_eq; reflexivity. Qed.

Definition eq_ignore_case (x y : bytes) : bool := beq (map to_lower x) (map to_lower y).

(* lexicographic comparison of byte strings = Rust's [str::cmp] (byte-wise) *)
Fixpoint bcmp (x y : bytes) : comparison :=
  match x, y with
  | [], [] => Eq
  | [], _ :: _ => Lt
  | _ :: _, [] => Gt
  | a :: x', c :: y' => match a ?= c with Eq => bcmp x' y' | r => r end
  end.

Fixpoint is_prefix (p s : bytes) : bool :=
  match p, s with
  | [], _ => true
  | a :: p', c :: s' => (a =? c) && is_prefix p' s'
  | _ :: _, [] => false
  end.

Lemma is_prefix_app p s : is_prefix p s = true <-> exists r, s = p ++ r.
Proof.
  revert s; induction p as [|a p IH]; intros s; simpl.
  - split; [intros _; exists s; reflexivity | reflexivity].
  - destruct s as [|c s]; [split; [discriminate | intros [r Hr]; discriminate]|].
    rewrite andb_true_iff, N.eqb_eq, IH. split.
    + intros [-> [r ->]]. exists r; reflexivity.
    + intros [r Hr]. inversion Hr; subst. split; [reflexivity | exists r; reflexivity].
Qed.

(* ---------- decimal numerals ---------- *)

Definition digit_val (d : N) : N := d - 48.

(* value of a digit string, most significant first; total (non-digits are the caller's guard) *)
Fixpoint dec_acc (acc : N) (ds : bytes) : N :=
  match ds with
  | [] => acc
  | d :: r => dec_acc (acc * 10 + digit_val d) r
  end.
Definition dec_value (ds : bytes) : N := dec_acc 0 ds.

(* Rust [str::parse::<uN>] on a string already known to be ASCII digits (nom [digit1]):
   overflow of the width is an error. *)
Definition parse_digits (bits : N) (ds : bytes) : option N :=
  match ds with
  | [] => None
  | _ => if forallb is_digit ds
         then (let v := dec_value ds in if v <? 2 ^ bits then Some v else None)
         else None
  end.

(* Rust [str::parse::<uN>] on an arbitrary string: optional leading '+', then digits. *)
Definition parse_uint (bits : N) (s : bytes) : option N :=
  match s with
  | 43 :: r => parse_digits bits r
  | _ => parse_digits bits s
  end.

(* rendering ([{}] on unsigned integers) *)
Fixpoint render_dec_aux (fuel : nat) (n : N) (acc : bytes) : bytes :=
  match fuel with
  | O => acc
  | S f => let acc' := (48 + n mod 10) :: acc in
           if n / 10 =? 0 then acc' else render_dec_aux f (n / 10) acc'
  end.
Definition render_dec (n : N) : bytes := render_dec_aux (S (N.to_nat (N.log2 n))) n [].

(* ---------- hex (case-file syntax of the correspondence harness) ---------- *)

Definition hex_digit (x : N) : N := if x <? 10 then 48 + x else 87 + x.
Definition hex_byte (x : N) : bytes := [hex_digit (x / 16); hex_digit (x mod 16)].
Definition hex (s : bytes) : bytes :=
  match s with [] => [45] | _ => flat_map hex_byte s end.

Definition unhex_digit (c : N) : N :=
  if is_digit c then c - 48 else if in_range 97 102 c then c - 87 else 0.
Fixpoint unhex (s : bytes) : bytes :=
  match s with
  | h :: l :: r => (unhex_digit h * 16 + unhex_digit l) :: unhex r
  | _ => []
  end.

(* ---------- UTF-8 validity = Rust [core::str::from_utf8] ---------- *)

Definition is_cont (x : N) : bool := in_range 128 191 x.

Fixpoint utf8_valid (s : bytes) : bool :=
  match s with
  | [] => true
  | a :: r =>
    if a <? 128 then utf8_valid r
    else if in_range 194 223 a then
      match r with c1 :: r1 => is_cont c1 && utf8_valid r1 | _ => false end
    else if in_range 224 239 a then
      match r with
      | c1 :: ((c2 :: r2) as r1) =>
        (if a =? 224 then in_range 160 191 c1
         else if a =? 237 then in_range 128 159 c1
         else is_cont c1) && is_cont c2 && utf8_valid r2
      | _ => false
      end
    else if in_range 240 244 a then
      match r with
      | c1 :: c2 :: c3 :: r3 =>
        (if a =? 240 then in_range 144 191 c1
         else if a =? 244 then in_range 128 143 c1
         else is_cont c1) && is_cont c2 && is_cont c3 && utf8_valid r3
      | _ => false
      end
    else false
  end.

(* ---------- small list utilities ---------- *)

Fixpoint index_of (p : N -> bool) (s : bytes) : option nat :=
  match s with
  | [] => None
  | a :: r => if p a then Some O else option_map S (index_of p r)
  end.

Definition contains (c : N) (s : bytes) : bool := existsb (N.eqb c) s.

(* split on a separator byte *)
Fixpoint split_on (sep : N) (s : bytes) : list bytes :=
  match s with
  | [] => [[]]
  | a :: r =>
    if a =? sep then [] :: split_on sep r
    else match split_on sep r with
         | [] => [[a]]
         | h :: t => (a :: h) :: t
         end
  end.

Fixpoint join (sep : bytes) (l : list bytes) : bytes :=
  match l with
  | [] => []
  | [x] => x
  | x :: r => x ++ sep ++ join sep r
  end.

(* ---------- all 256 byte values, for finite sweeps over generated predicates ---------- *)

Definition bytes256 : list N := map N.of_nat (seq 0 256).

Lemma in_bytes256 c : c < 256 -> In c bytes256.
Proof.
  intros H. unfold bytes256. apply in_map_iff. exists (N.to_nat c). split; [lia|].
  apply in_seq. lia.
Qed.

Lemma sweep (P : N -> bool) : forallb P bytes256 = true -> forall c, c < 256 -> P c = true.
Proof. intros H c Hc. rewrite forallb_forall in H. apply H. apply in_bytes256. exact Hc. Qed.

Definition wf_bytes (s : bytes) : Prop := Forall (fun c => c < 256) s.
