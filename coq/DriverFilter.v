(* DriverFilter.v — case kinds for filters (C11).

   filter <how> <tree>      what the client writes for a filter built by the construction script <tree>
                            through the command <how>; prints "ok <hex of the wire line>" or "panic"
     <how>  ::= find | count | list | countg       (Find::new(f) | Count::new(f) |
                                                    List::new(Tag::Album).filter(f) |
                                                    Count::new(f).group_by(Tag::Artist))
     <tree> ::= T/<tag>/<Operator>/<hexvalue>      Filter::new(tag, Operator::<Operator>, value)
              | t/<tag>/<hexvalue>                 Filter::tag(tag, value)
              | E/<tag>  |  A/<tag>                Filter::tag_exists(tag) | Filter::tag_absent(tag)
              | N(<tree>)  |  !(<tree>)            f.negate() | !f
              | &(<tree>,<tree>)                   a.and(b)   (nesting = the association used)
     <tag>  ::= n:<Ident> | o:<hex> | any          named variant | Tag::Other(..) | Tag::any()

   filter_parse <index> <hex of wire line>
                            ORACLE (spec side only): MPD's tokenizer on the line, then MPD's filter
                            grammar on token <index>; prints "notok" | "tokens=<n> parse=none" |
                            "tokens=<n> parse=<ast>" with <ast> ::= L(<hexword>,<op>,<hexvalue>) |
                            N(<ast>) | A(<ast>;...) *)
From MPD Require Import Bytes Tables Show TagModel CommandModel MpdTokenizer MpdFilter FilterModel.
Open Scope N_scope.

Definition ftag_of_spec (spec : bytes) : option tag :=
  if beq spec (b "any") then Some tag_any else
  match strip_prefix (b "n:") spec with
  | Some id => option_map Named (find (fun v => beq (tagv_ident v) id) all_tagv)
  | None =>
    match strip_prefix (b "o:") spec with
    | Some h => Some (Other (unhex h))
    | None => None
    end
  end.

Definition operator_ident (o : operator) : bytes :=
  nth (operator_index o) [b "Equal"; b "NotEqual"; b "Contain"; b "Match"; b "NotMatch"] [].

Definition op_of_ident (s : bytes) : option operator :=
  find (fun o => beq (operator_ident o) s) all_operators.

Definition is_tree_delim (c : N) : bool := (c =? 40) || (c =? 41) || (c =? 44).

Definition leaf_of (fields : list bytes) : option ftype :=
  match fields with
  | [k; t; o; v] =>
    if beq k (b "T") then
      match ftag_of_spec t, op_of_ident o with
      | Some tg, Some op => Some (filter_new tg op (unhex v))
      | _, _ => None
      end
    else None
  | [k; t; v] =>
    if beq k (b "t") then option_map (fun tg => filter_tag tg (unhex v)) (ftag_of_spec t) else None
  | [k; t] =>
    if beq k (b "E") then option_map filter_tag_exists (ftag_of_spec t)
    else if beq k (b "A") then option_map filter_tag_absent (ftag_of_spec t)
    else None
  | _ => None
  end.

Fixpoint parse_tree (fuel : nat) (s : bytes) : option (ftype * bytes) :=
  match fuel with
  | O => None
  | S f =>
    match s with
    | k :: 40 :: r =>
      if (k =? 78) || (k =? 33) then                          (* N( or !( *)
        match parse_tree f r with
        | Some (x, 41 :: r') => Some (filter_negate x, r')
        | _ => None
        end
      else if k =? 82 then                                     (* R( : the filter is rendered once by reference here; a value, not a history *)
        match parse_tree f r with
        | Some (x, 41 :: r') => Some (x, r')
        | _ => None
        end
      else if k =? 38 then                                     (* &( *)
        match parse_tree f r with
        | Some (x, 44 :: r') =>
          match parse_tree f r' with
          | Some (y, 41 :: r'') => Some (filter_and x y, r'')
          | _ => None
          end
        | _ => None
        end
      else None
    | _ =>
      let (tok, rest) := MpdFilter.span (fun c => negb (is_tree_delim c)) s in
      match leaf_of (split_on 47 tok) with
      | Some x => Some (x, rest)
      | None => None
      end
    end
  end.

Definition tree_of (s : bytes) : option ftype :=
  match parse_tree (length s) s with
  | Some (x, []) => Some x
  | _ => None
  end.

Definition show_send (r : send_result) : bytes :=
  match r with
  | Sent c => words [b "ok"; hex (send_bytes c)]
  | SendPanic => b "panic"
  end.

Definition run_how (how : bytes) (f : ftype) : bytes :=
  if beq how (b "find") then show_send (argument_filter (b "find") f)
  else if beq how (b "count") then show_send (argument_filter (b "count") f)
  else if beq how (b "list") || beq how (b "list2") then show_send (argument_filter (b "list Album") f)   (* list2/countg2: filter() called twice, the last one counts *)
  else if beq how (b "countg") || beq how (b "countg2") then
    match argument_filter (b "count") f with
    | Sent c => show_send (Sent (c ++ b " group Artist"))
    | SendPanic => b "panic"
    end
  else b "bad-case".

Definition show_fop (o : fop) : bytes :=
  match o with
  | FEq => b "==" | FNe => b "!=" | FContains => b "contains" | FMatch => b "=~" | FNotMatch => b "!~"
  end.

Fixpoint show_fast (a : fast) : bytes :=
  match a with
  | FLeaf w o v => b "L(" ++ hex w ++ [44] ++ show_fop o ++ [44] ++ hex v ++ [41]
  | FNot x => b "N(" ++ show_fast x ++ [41]
  | FAnd l => b "A(" ++ join [59] (map show_fast l) ++ [41]
  end.

Definition run_filter (kind : bytes) (args : list bytes) : bytes :=
  if beq kind (b "filter") then
    match args with
    | [how; tree] =>
      match tree_of tree with
      | Some f => run_how how f
      | None => b "bad-tree"
      end
    | _ => b "bad-case"
    end
  else if beq kind (b "filter_parse") then
    match args with
    | [idx; h] =>
      match mpd_tokenize (unhex h) with
      | None => b "notok"
      | Some toks =>
        words [kv "tokens" (show_nat (length toks));
               kv "parse" (match nth_error toks (read_nat idx) with
                           | None => b "none"
                           | Some e =>
                             match mpd_parse_filter e with
                             | Some (a, _) => show_fast a
                             | None => b "none"
                             end
                           end)]
      end
    | _ => b "bad-case"
    end
  else b "unknown-kind".

Definition is_filter_kind (k : bytes) : bool := existsb (beq k) [b "filter"; b "filter_parse"].
