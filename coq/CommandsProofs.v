(* CommandsProofs.v — C15: the rendering model of the predefined commands (CommandsModel) against the
   MPD reference table (CommandsSpec), for all parameter values. *)
From Coq Require Import ZifyBool ZifyN ZifyNat.
From MPD Require Import Bytes Tables TagModel CommandModel MpdTokenizer CommandProofs EscapeProofs
                        CommandsParams CommandsModel CommandsSpec.
Open Scope N_scope.

(* ================= decimal numerals: rendering and reading are inverse ================= *)

Lemma dec_acc_app a x y : dec_acc a (x ++ y) = dec_acc (dec_acc a x) y.
Proof. revert a; induction x as [|d x IH]; intros a; simpl; [reflexivity | apply IH]. Qed.

Lemma render_dec_aux_acc f : forall n acc, render_dec_aux f n acc = render_dec_aux f n [] ++ acc.
Proof.
  induction f as [|f IH]; intros n acc; simpl; [reflexivity|].
  destruct (n / 10 =? 0); [reflexivity|].
  rewrite IH. rewrite (IH (n / 10) [48 + n mod 10]). rewrite <- app_assoc. reflexivity.
Qed.

Lemma render_dec_aux_S f n acc :
  render_dec_aux (S f) n acc =
  if n / 10 =? 0 then (48 + n mod 10) :: acc else render_dec_aux f (n / 10) ((48 + n mod 10) :: acc).
Proof. reflexivity. Qed.

Lemma digit_range n : is_digit (48 + n mod 10) = true /\ digit_val (48 + n mod 10) = n mod 10.
Proof.
  pose proof (N.mod_upper_bound n 10 ltac:(lia)) as H.
  unfold is_digit, in_range, digit_val. split; lia.
Qed.

Lemma render_dec_aux_spec f : forall n, n < 2 ^ N.of_nat (S f) ->
  dec_value (render_dec_aux (S f) n []) = n /\
  forallb is_digit (render_dec_aux (S f) n []) = true /\
  render_dec_aux (S f) n [] <> [].
Proof.
  induction f as [|f IH]; intros n Hn.
  - change (2 ^ N.of_nat 1) with 2 in Hn.
    assert (E : n / 10 = 0) by (apply N.div_small; lia).
    rewrite render_dec_aux_S, E. change (0 =? 0) with true. cbv iota.
    destruct (digit_range n) as [D V]. unfold dec_value. cbn [dec_acc forallb]. rewrite D, V.
    rewrite N.mod_small by lia. split; [lia | split; [reflexivity | discriminate]].
  - rewrite (render_dec_aux_S (S f) n []). destruct (digit_range n) as [D V].
    destruct (n / 10 =? 0) eqn:E.
    + apply N.eqb_eq in E. unfold dec_value. cbn [dec_acc forallb]. rewrite D, V.
      pose proof (N.div_mod n 10 ltac:(lia)). split; [lia | split; [reflexivity | discriminate]].
    + rewrite render_dec_aux_acc.
      assert (Hq : n / 10 < 2 ^ N.of_nat (S f)).
      { rewrite Nat2N.inj_succ in Hn. rewrite N.pow_succ_r' in Hn.
        pose proof (N.div_mod n 10 ltac:(lia)). pose proof (N.mod_upper_bound n 10 ltac:(lia)).
        remember (2 ^ N.of_nat (S f)) as P. lia. }
      destruct (IH (n / 10) Hq) as (V1 & D1 & N1).
      unfold dec_value in *. rewrite dec_acc_app, V1. cbn [dec_acc]. rewrite V.
      rewrite forallb_app, D1. cbn [forallb]. rewrite D.
      pose proof (N.div_mod n 10 ltac:(lia)). split; [lia | split; [reflexivity|]].
      intro X. apply app_eq_nil in X as [_ X]. discriminate.
Qed.

Lemma render_dec_spec n :
  dec_value (render_dec n) = n /\ forallb is_digit (render_dec n) = true /\ render_dec n <> [].
Proof.
  unfold render_dec. apply render_dec_aux_spec.
  rewrite Nat2N.inj_succ, N2Nat.id.
  destruct n as [|p]; [vm_compute; reflexivity|].
  apply N.log2_spec. lia.
Qed.

Lemma dec_value_render_dec n : dec_value (render_dec n) = n.
Proof. apply render_dec_spec. Qed.

Lemma all_digits_render_dec n : all_digits (render_dec n) = true.
Proof.
  destruct (render_dec_spec n) as (_ & D & Ne). unfold all_digits. rewrite D.
  destruct (render_dec n); [congruence | reflexivity].
Qed.

Lemma number_is_render_dec n : number_is (render_dec n) n = true.
Proof. unfold number_is, denote_number. rewrite all_digits_render_dec, dec_value_render_dec. apply N.eqb_refl. Qed.

Lemma digits_no (sep : N) s : forallb is_digit s = true -> is_digit sep = false -> Forall (fun x => x <> sep) s.
Proof.
  intros H Hs. apply Forall_forall. intros x Hin E. subst x.
  rewrite forallb_forall in H. rewrite (H sep Hin) in Hs. discriminate.
Qed.

Lemma render_dec_no sep n : is_digit sep = false -> Forall (fun x => x <> sep) (render_dec n).
Proof. intros H. apply digits_no; [apply render_dec_spec | exact H]. Qed.

(* ================= ranges denote the positions of the Rust range ================= *)

Lemma denote_range_closed a z :
  denote_range (render_dec a ++ [COLON] ++ render_dec z) = Some (fun p => (a <=? p) && (p <? z)).
Proof.
  unfold denote_range. cbn [app].
  rewrite split_on_app by (apply render_dec_no; reflexivity).
  rewrite split_on_no_sep by (apply render_dec_no; reflexivity).
  rewrite !all_digits_render_dec, !dec_value_render_dec.
  destruct (render_dec_spec z) as (_ & _ & Ne). destruct (render_dec z); [congruence | reflexivity].
Qed.

Lemma denote_range_open a :
  denote_range (render_dec a ++ [COLON]) = Some (fun p => a <=? p).
Proof.
  unfold denote_range.
  rewrite split_on_app by (apply render_dec_no; reflexivity).
  cbn [split_on]. rewrite all_digits_render_dec, dec_value_render_dec. reflexivity.
Qed.

Lemma saturating_succ_spec x : saturating_succ x = if x + 1 <=? usize_max then x + 1 else usize_max.
Proof. unfold saturating_succ. destruct (x + 1 <=? usize_max) eqn:E; lia. Qed.

Lemma usize_max_is_MAXPOS : usize_max = MAXPOS.
Proof. reflexivity. Qed.

(* all nine shapes, every endpoint value (also beyond the width), every position below usize::MAX *)
Theorem range_denotes lo hi :
  exists f, denote_range (render_range (song_range_new lo hi)) = Some f /\
            forall p, p < MAXPOS -> f p = in_rust_range lo hi p.
Proof.
  unfold render_range, song_range_new, in_rust_range. cbn [sr_from sr_to].
  assert (M : MAXPOS = usize_max) by reflexivity.
  destruct hi as [z|z|].
  - (* Included z *)
    eexists. split; [apply denote_range_closed|]. intros p Hp. cbv beta.
    rewrite (saturating_succ_spec z).
    destruct lo as [a|a|]; [| rewrite (saturating_succ_spec a) |];
      destruct (z + 1 <=? usize_max) eqn:E1; try destruct (a + 1 <=? usize_max) eqn:E2; lia.
  - eexists. split; [apply denote_range_closed|]. intros p Hp. cbv beta.
    destruct lo as [a|a|]; [| rewrite (saturating_succ_spec a); destruct (a + 1 <=? usize_max) eqn:E2 |]; lia.
  - eexists. split; [apply denote_range_open|]. intros p Hp. cbv beta.
    destruct lo as [a|a|]; [| rewrite (saturating_succ_spec a); destruct (a + 1 <=? usize_max) eqn:E2 |]; lia.
Qed.

(* Delete::position / Move::position: pos..=pos denotes exactly {pos} *)
Theorem position_denotes p :
  exists f, denote_range (render_range (song_range_new (Included p) (Included p))) = Some f /\
            forall q, q < MAXPOS -> f q = (q =? p).
Proof.
  destruct (range_denotes (Included p) (Included p)) as (f & Hf & Hp).
  exists f. split; [exact Hf|]. intros q Hq. rewrite (Hp q Hq). unfold in_rust_range. cbv iota. lia.
Qed.

(* the empty and the inverted ranges denote the empty set on both sides *)
Corollary range_empty_or_inverted a z p :
  z <= a -> p < MAXPOS ->
  in_rust_range (Included a) (Excluded z) p = false /\
  exists f, denote_range (render_range (song_range_new (Included a) (Excluded z))) = Some f /\ f p = false.
Proof.
  intros H Hp. assert (E : in_rust_range (Included a) (Excluded z) p = false) by (unfold in_rust_range; cbv iota; lia).
  split; [exact E|]. destruct (range_denotes (Included a) (Excluded z)) as (f & Hf & Hq).
  exists f. split; [exact Hf|]. rewrite (Hq p Hp). exact E.
Qed.

(* saturation instead of wrapping: ..=usize::MAX still holds every position below usize::MAX *)
Corollary range_saturates p :
  p < MAXPOS ->
  exists f, denote_range (render_range (song_range_new Unbounded (Included usize_max))) = Some f /\ f p = true.
Proof.
  intros Hp. destruct (range_denotes Unbounded (Included usize_max)) as (f & Hf & Hq).
  exists f. split; [exact Hf|]. rewrite (Hq p Hp). unfold in_rust_range. cbv iota. change usize_max with MAXPOS. lia.
Qed.

(* ================= SetVolume ================= *)

Theorem volume_clamped v :
  N.min v volume_max <= 100 /\ N.min v volume_max = (if v <=? 100 then v else 100) /\
  (v <= 100 -> N.min v volume_max = v).
Proof. change volume_max with 100. destruct (v <=? 100) eqn:E; repeat split; lia. Qed.
