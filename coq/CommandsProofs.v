(* CommandsProofs.v — C15: the rendering model of the predefined commands (CommandsModel) against the
   MPD reference table (CommandsSpec), for all parameter values. *)
From Coq Require Import ZifyBool ZifyN ZifyNat.
From MPD Require Import Bytes Tables TagModel CommandModel MpdTokenizer CommandProofs EscapeProofs
                        CommandsParams CommandsModel CommandsSpec.
Open Scope N_scope.

(* ================= decimal numerals: rendering and reading are inverse ================= *)

Lemma dec_acc_app a x y : dec_acc a (x ++ y) = dec_acc (dec_acc a x) y.
Proof. revert a; induction x as [|d x IH]; intros a; simpl; [reflexivity | apply IH]. Qed.

Lemma render_dec_aux_acc f : forall n acc, render_dec_aux f n acc = render_dec_aux f n [] ++ acc.
Proof.
  induction f as [|f IH]; intros n acc; simpl; [reflexivity|].
  destruct (n / 10 =? 0); [reflexivity|].
  rewrite IH. rewrite (IH (n / 10) [48 + n mod 10]). rewrite <- app_assoc. reflexivity.
Qed.

Lemma render_dec_aux_S f n acc :
  render_dec_aux (S f) n acc =
  if n / 10 =? 0 then (48 + n mod 10) :: acc else render_dec_aux f (n / 10) ((48 + n mod 10) :: acc).
Proof. reflexivity. Qed.

Lemma digit_range n : is_digit (48 + n mod 10) = true /\ digit_val (48 + n mod 10) = n mod 10.
Proof.
  pose proof (N.mod_upper_bound n 10 ltac:(lia)) as H.
  unfold is_digit, in_range, digit_val. split; lia.
Qed.

Lemma render_dec_aux_spec f : forall n, n < 2 ^ N.of_nat (S f) ->
  dec_value (render_dec_aux (S f) n []) = n /\
  forallb is_digit (render_dec_aux (S f) n []) = true /\
  render_dec_aux (S f) n [] <> [].
Proof.
  induction f as [|f IH]; intros n Hn.
  - change (2 ^ N.of_nat 1) with 2 in Hn.
    assert (E : n / 10 = 0) by (apply N.div_small; lia).
    rewrite render_dec_aux_S, E. change (0 =? 0) with true. cbv iota.
    destruct (digit_range n) as [D V]. unfold dec_value. cbn [dec_acc forallb]. rewrite D, V.
    rewrite N.mod_small by lia. split; [lia | split; [reflexivity | discriminate]].
  - rewrite (render_dec_aux_S (S f) n []). destruct (digit_range n) as [D V].
    destruct (n / 10 =? 0) eqn:E.
    + apply N.eqb_eq in E. unfold dec_value. cbn [dec_acc forallb]. rewrite D, V.
      pose proof (N.div_mod n 10 ltac:(lia)). split; [lia | split; [reflexivity | discriminate]].
    + rewrite render_dec_aux_acc.
      assert (Hq : n / 10 < 2 ^ N.of_nat (S f)).
      { rewrite Nat2N.inj_succ in Hn. rewrite N.pow_succ_r' in Hn.
        pose proof (N.div_mod n 10 ltac:(lia)). pose proof (N.mod_upper_bound n 10 ltac:(lia)).
        remember (2 ^ N.of_nat (S f)) as P. lia. }
      destruct (IH (n / 10) Hq) as (V1 & D1 & N1).
      unfold dec_value in *. rewrite dec_acc_app, V1. cbn [dec_acc]. rewrite V.
      rewrite forallb_app, D1. cbn [forallb]. rewrite D.
      pose proof (N.div_mod n 10 ltac:(lia)). split; [lia | split; [reflexivity|]].
      intro X. apply app_eq_nil in X as [_ X]. discriminate.
Qed.

Lemma render_dec_spec n :
  dec_value (render_dec n) = n /\ forallb is_digit (render_dec n) = true /\ render_dec n <> [].
Proof.
  unfold render_dec. apply render_dec_aux_spec.
  rewrite Nat2N.inj_succ, N2Nat.id.
  destruct n as [|p]; [vm_compute; reflexivity|].
  apply N.log2_spec. lia.
Qed.

Lemma dec_value_render_dec n : dec_value (render_dec n) = n.
Proof. apply render_dec_spec. Qed.

Lemma all_digits_render_dec n : all_digits (render_dec n) = true.
Proof.
  destruct (render_dec_spec n) as (_ & D & Ne). unfold all_digits. rewrite D.
  destruct (render_dec n); [congruence | reflexivity].
Qed.

Lemma number_is_render_dec n : number_is (render_dec n) n = true.
Proof. unfold number_is, denote_number. rewrite all_digits_render_dec, dec_value_render_dec. apply N.eqb_refl. Qed.

Lemma digits_no (sep : N) s : forallb is_digit s = true -> is_digit sep = false -> Forall (fun x => x <> sep) s.
Proof.
  intros H Hs. apply Forall_forall. intros x Hin E. subst x.
  rewrite forallb_forall in H. rewrite (H sep Hin) in Hs. discriminate.
Qed.

Lemma render_dec_no sep n : is_digit sep = false -> Forall (fun x => x <> sep) (render_dec n).
Proof. intros H. apply digits_no; [apply render_dec_spec | exact H]. Qed.

(* ================= ranges denote the positions of the Rust range ================= *)

Lemma denote_range_closed a z :
  denote_range (render_dec a ++ [COLON] ++ render_dec z) = Some (fun p => (a <=? p) && (p <? z)).
Proof.
  unfold denote_range. cbn [app].
  rewrite split_on_app by (apply render_dec_no; reflexivity).
  rewrite split_on_no_sep by (apply render_dec_no; reflexivity).
  rewrite !all_digits_render_dec, !dec_value_render_dec.
  destruct (render_dec_spec z) as (_ & _ & Ne). destruct (render_dec z); [congruence | reflexivity].
Qed.

Lemma denote_range_open a :
  denote_range (render_dec a ++ [COLON]) = Some (fun p => a <=? p).
Proof.
  unfold denote_range.
  rewrite split_on_app by (apply render_dec_no; reflexivity).
  cbn [split_on]. rewrite all_digits_render_dec, dec_value_render_dec. reflexivity.
Qed.

Lemma saturating_succ_spec x : saturating_succ x = if x + 1 <=? usize_max then x + 1 else usize_max.
Proof. unfold saturating_succ. destruct (x + 1 <=? usize_max) eqn:E; lia. Qed.

Lemma usize_max_is_MAXPOS : usize_max = MAXPOS.
Proof. reflexivity. Qed.

(* all nine shapes, every endpoint value (also beyond the width), every position below usize::MAX *)
Theorem range_denotes lo hi :
  exists f, denote_range (render_range (song_range_new lo hi)) = Some f /\
            forall p, p < MAXPOS -> f p = in_rust_range lo hi p.
Proof.
  unfold render_range, song_range_new, in_rust_range. cbn [sr_from sr_to].
  assert (M : MAXPOS = usize_max) by reflexivity.
  destruct hi as [z|z|].
  - (* Included z *)
    eexists. split; [apply denote_range_closed|]. intros p Hp. cbv beta.
    rewrite (saturating_succ_spec z).
    destruct lo as [a|a|]; [| rewrite (saturating_succ_spec a) |];
      destruct (z + 1 <=? usize_max) eqn:E1; try destruct (a + 1 <=? usize_max) eqn:E2; lia.
  - eexists. split; [apply denote_range_closed|]. intros p Hp. cbv beta.
    destruct lo as [a|a|]; [| rewrite (saturating_succ_spec a); destruct (a + 1 <=? usize_max) eqn:E2 |]; lia.
  - eexists. split; [apply denote_range_open|]. intros p Hp. cbv beta.
    destruct lo as [a|a|]; [| rewrite (saturating_succ_spec a); destruct (a + 1 <=? usize_max) eqn:E2 |]; lia.
Qed.

(* Delete::position / Move::position: pos..=pos denotes exactly {pos} *)
Theorem position_denotes p :
  exists f, denote_range (render_range (song_range_new (Included p) (Included p))) = Some f /\
            forall q, q < MAXPOS -> f q = (q =? p).
Proof.
  destruct (range_denotes (Included p) (Included p)) as (f & Hf & Hp).
  exists f. split; [exact Hf|]. intros q Hq. rewrite (Hp q Hq). unfold in_rust_range. cbv iota. lia.
Qed.

(* the empty and the inverted ranges denote the empty set on both sides *)
Corollary range_empty_or_inverted a z p :
  z <= a -> p < MAXPOS ->
  in_rust_range (Included a) (Excluded z) p = false /\
  exists f, denote_range (render_range (song_range_new (Included a) (Excluded z))) = Some f /\ f p = false.
Proof.
  intros H Hp. assert (E : in_rust_range (Included a) (Excluded z) p = false) by (unfold in_rust_range; cbv iota; lia).
  split; [exact E|]. destruct (range_denotes (Included a) (Excluded z)) as (f & Hf & Hq).
  exists f. split; [exact Hf|]. rewrite (Hq p Hp). exact E.
Qed.

(* saturation instead of wrapping: ..=usize::MAX still holds every position below usize::MAX *)
Corollary range_saturates p :
  p < MAXPOS ->
  exists f, denote_range (render_range (song_range_new Unbounded (Included usize_max))) = Some f /\ f p = true.
Proof.
  intros Hp. destruct (range_denotes Unbounded (Included usize_max)) as (f & Hf & Hq).
  exists f. split; [exact Hf|]. rewrite (Hq p Hp). unfold in_rust_range. cbv iota. change usize_max with MAXPOS. lia.
Qed.

(* ================= SetVolume ================= *)

Theorem volume_clamped v :
  N.min v volume_max <= 100 /\ N.min v volume_max = (if v <=? 100 then v else 100) /\
  (v <= 100 -> N.min v volume_max = v).
Proof. change volume_max with 100. destruct (v <=? 100) eqn:E; repeat split; lia. Qed.

(* ================= every argument of every command carries the documented meaning ================= *)

(* the token MPD's tokenizer is to produce for an argument (shown in [tokenize_request] below) *)
Definition arg_token (a : arg) : bytes :=
  match a with
  | AStr s => s
  | ARaw r => r
  | AFilter f => filter_expr f
  end.

Lemma sat_string s : sat (MString s) s.
Proof. apply beq_refl. Qed.
Lemma sat_keyword k : sat (MKeyword k) k.
Proof. apply beq_refl. Qed.
Lemma sat_tag t : sat (MTag t) (tag_as_str t).
Proof. apply beq_refl. Qed.
Lemma sat_filter f : sat (MFilter f) (filter_expr f).
Proof. apply beq_refl. Qed.
Lemma sat_number n : sat (MNumber n) (render_dec n).
Proof. apply number_is_render_dec. Qed.
Lemma sat_bool x : sat (MBool x) (if x then [49] else [48]).
Proof. destruct x; reflexivity. Qed.
Lemma sat_positions lo hi : sat (MPositions lo hi) (render_range (song_range_new lo hi)).
Proof. apply range_denotes. Qed.
Lemma sat_position p : sat (MPosition p) (render_range (song_range_new (Included p) (Included p))).
Proof. apply position_denotes. Qed.
Lemma sat_relative p : sat (MRelative p) (render_pos_or_rel p).
Proof. destruct p; cbn [sat satb render_pos_or_rel app]; apply number_is_render_dec. Qed.
Lemma sat_volume v : sat (MNumber (if v <=? 100 then v else 100)) (render_dec (N.min v volume_max)).
Proof. destruct (volume_clamped v) as (_ & -> & _). apply sat_number. Qed.

(* the enum spellings regenerated from the match tables are the documented keywords *)
Lemma single_spellings_documented :
  single_str SingleDisabled = b "0" /\ single_str SingleEnabled = b "1" /\ single_str SingleOneshot = b "oneshot".
Proof. repeat split; vm_compute; reflexivity. Qed.
Lemma replay_gain_spellings_documented :
  rg_str RgOff = b "off" /\ rg_str RgTrack = b "track" /\ rg_str RgAlbum = b "album" /\ rg_str RgAuto = b "auto".
Proof. repeat split; vm_compute; reflexivity. Qed.

(* ================= durations: the f64 path on exact integers ================= *)

Lemma div_rne_spec n d : 0 < d ->
  2 * (div_rne n d * d) <= 2 * n + d /\ 2 * n <= 2 * (div_rne n d * d) + d.
Proof.
  intros Hd. unfold div_rne. cbv zeta.
  pose proof (N.div_mod n d ltac:(lia)) as E. pose proof (N.mod_upper_bound n d ltac:(lia)) as R.
  rewrite (N.mul_comm d (n / d)) in E.
  remember (n / d) as q. remember (n mod d) as r.
  assert (S1 : (q + 1) * d = q * d + d) by lia.
  remember (q * d) as qd.
  destruct (2 * r ?= d) eqn:C.
  - rewrite N.compare_eq_iff in C. destruct (N.even q); [rewrite <- Heqqd | rewrite S1]; lia.
  - rewrite N.compare_lt_iff in C. rewrite <- Heqqd. lia.
  - rewrite N.compare_gt_iff in C. rewrite S1. lia.
Qed.

Definition E53 : N := 2 ^ 53.

(* relative error of the nearest double: |M/2^K - a/c| <= (a/c) / 2^53, without divisions *)
Lemma rn53_err a c : 0 < c ->
  let r := rn53 a c in
  E53 * (fst r * c) <= (E53 + 1) * (a * 2 ^ snd r) /\ (E53 - 1) * (a * 2 ^ snd r) <= E53 * (fst r * c).
Proof.
  intros Hc. unfold rn53. cbv zeta. destruct (a =? 0) eqn:Ea.
  - apply N.eqb_eq in Ea. subst a. cbn [fst snd]. lia.
  - apply N.eqb_neq in Ea.
    destruct (N.log2_spec a ltac:(lia)) as [La1 La2]. destruct (N.log2_spec c Hc) as [Lc1 Lc2].
    remember (N.log2 a) as la. remember (N.log2 c) as lc.
    rewrite N.pow_succ_r' in La2, Lc2.
    assert (P1 : 2 ^ (52 + lc) = 2 ^ 52 * 2 ^ lc) by (apply N.pow_add_r).
    assert (P2 : 2 ^ (53 + lc) = 2 * (2 ^ 52 * 2 ^ lc)).
    { replace (53 + lc) with (N.succ (52 + lc)) by lia. rewrite N.pow_succ_r', P1. reflexivity. }
    remember (2 ^ la) as pa. remember (2 ^ lc) as pc.
    assert (Hpa : 0 < pa) by (subst pa; pose proof (N.pow_nonzero 2 la ltac:(lia)); lia).
    assert (Hpc : 0 < pc) by (subst pc; pose proof (N.pow_nonzero 2 lc ltac:(lia)); lia).
    set (d := c * pa). set (n0 := a * 2 ^ (52 + lc)).
    assert (Hd : 0 < d) by (unfold d; apply N.mul_pos_pos; assumption).
    (* 2^52 * d <= 2 * n0 *)
    assert (B : 2 ^ 52 * d <= 2 * n0).
    { unfold d, n0. rewrite P1.
      assert (X1 : c * pa <= 2 * pc * pa) by (apply N.mul_le_mono_r; lia).
      assert (X2 : pa * (2 ^ 52 * pc) <= a * (2 ^ 52 * pc)) by (apply N.mul_le_mono_r; lia).
      assert (X3 : 2 ^ 52 * (c * pa) <= 2 ^ 52 * (2 * pc * pa)) by (apply N.mul_le_mono_l; exact X1).
      replace (2 ^ 52 * (2 * pc * pa)) with (2 * (pa * (2 ^ 52 * pc))) in X3 by lia. lia. }
    destruct (n0 <? 2 ^ 52 * d) eqn:Cmp; cbn [fst snd].
    + destruct (div_rne_spec (2 * n0) d Hd) as [D1 D2].
      remember (div_rne (2 * n0) d) as m.
      replace (m * pa * c) with (m * d) by (unfold d; lia).
      replace (a * 2 ^ (53 + lc)) with (2 * n0) by (unfold n0; rewrite P1, P2; lia).
      remember (m * d) as md. unfold E53. lia.
    + apply N.ltb_ge in Cmp.
      destruct (div_rne_spec n0 d Hd) as [D1 D2].
      remember (div_rne n0 d) as m.
      replace (m * pa * c) with (m * d) by (unfold d; lia).
      fold n0. remember (m * d) as md. unfold E53. lia.
Qed.

(* composition of relative errors, products only *)
Lemma compose_upper e ep G Ms Mq M P1 P2 P secs nanos : 0 < P1 -> 0 < P2 ->
  e*Ms <= ep*(secs*P1) -> e*(Mq*G) <= ep*(nanos*P2) ->
  e*(M*(P1*P2)) <= ep*((Ms*P2+Mq*P1)*P) ->
  e*e*(M*G) <= ep*ep*((secs*G+nanos)*P).
Proof.
  intros H1 H2 A B C.
  apply (N.mul_le_mono_pos_r _ _ (P1*P2)); [apply N.mul_pos_pos; assumption|].
  assert (A' : e*Ms*(P2*G) <= ep*(secs*P1)*(P2*G)) by (apply N.mul_le_mono_r; exact A).
  assert (B' : e*(Mq*G)*P1 <= ep*(nanos*P2)*P1) by (apply N.mul_le_mono_r; exact B).
  assert (S : e*((Ms*P2+Mq*P1)*G) <= ep*((secs*G+nanos)*(P1*P2))).
  { replace (e*((Ms*P2+Mq*P1)*G)) with (e*Ms*(P2*G) + e*(Mq*G)*P1) by ring.
    replace (ep*((secs*G+nanos)*(P1*P2))) with (ep*(secs*P1)*(P2*G) + ep*(nanos*P2)*P1) by ring. lia. }
  assert (C' : e*(M*(P1*P2))*(e*G) <= ep*((Ms*P2+Mq*P1)*P)*(e*G)) by (apply N.mul_le_mono_r; exact C).
  assert (S' : e*((Ms*P2+Mq*P1)*G)*(ep*P) <= ep*((secs*G+nanos)*(P1*P2))*(ep*P)) by (apply N.mul_le_mono_r; exact S).
  replace (e*e*(M*G)*(P1*P2)) with (e*(M*(P1*P2))*(e*G)) by ring.
  replace (ep*ep*((secs*G+nanos)*P)*(P1*P2)) with (ep*((secs*G+nanos)*(P1*P2))*(ep*P)) by ring.
  replace (ep*((Ms*P2+Mq*P1)*P)*(e*G)) with (e*((Ms*P2+Mq*P1)*G)*(ep*P)) in C' by ring.
  lia.
Qed.
Lemma compose_lower e em G Ms Mq M P1 P2 P secs nanos : 0 < P1 -> 0 < P2 ->
  em*(secs*P1) <= e*Ms -> em*(nanos*P2) <= e*(Mq*G) ->
  em*((Ms*P2+Mq*P1)*P) <= e*(M*(P1*P2)) ->
  em*em*((secs*G+nanos)*P) <= e*e*(M*G).
Proof.
  intros H1 H2 A B C.
  apply (N.mul_le_mono_pos_r _ _ (P1*P2)); [apply N.mul_pos_pos; assumption|].
  assert (A' : em*(secs*P1)*(P2*G) <= e*Ms*(P2*G)) by (apply N.mul_le_mono_r; exact A).
  assert (B' : em*(nanos*P2)*P1 <= e*(Mq*G)*P1) by (apply N.mul_le_mono_r; exact B).
  assert (S : em*((secs*G+nanos)*(P1*P2)) <= e*((Ms*P2+Mq*P1)*G)).
  { replace (e*((Ms*P2+Mq*P1)*G)) with (e*Ms*(P2*G) + e*(Mq*G)*P1) by ring.
    replace (em*((secs*G+nanos)*(P1*P2))) with (em*(secs*P1)*(P2*G) + em*(nanos*P2)*P1) by ring. lia. }
  assert (C' : em*((Ms*P2+Mq*P1)*P)*(e*G) <= e*(M*(P1*P2))*(e*G)) by (apply N.mul_le_mono_r; exact C).
  assert (S' : em*((secs*G+nanos)*(P1*P2))*(em*P) <= e*((Ms*P2+Mq*P1)*G)*(em*P)) by (apply N.mul_le_mono_r; exact S).
  replace (e*e*(M*G)*(P1*P2)) with (e*(M*(P1*P2))*(e*G)) by ring.
  replace (em*em*((secs*G+nanos)*P)*(P1*P2)) with (em*((secs*G+nanos)*(P1*P2))*(em*P)) by ring.
  replace (em*((Ms*P2+Mq*P1)*P)*(e*G)) with (e*((Ms*P2+Mq*P1)*G)*(em*P)) in C' by ring.
  lia.
Qed.

Definition G9 : N := 1000000000.

(* |as_secs_f64 d - d| <= d * (2/2^53 + 1/2^106), in products: value = M / 2^K, d = T / 10^9 *)
Lemma as_secs_f64_err secs nanos :
  let x := as_secs_f64 secs nanos in
  let T := secs * G9 + nanos in
  E53 * E53 * (fst x * G9) <= (E53 + 1) * (E53 + 1) * (T * 2 ^ snd x) /\
  (E53 - 1) * (E53 - 1) * (T * 2 ^ snd x) <= E53 * E53 * (fst x * G9).
Proof.
  cbv zeta. unfold as_secs_f64. change NANOS_PER_SEC with G9.
  destruct (rn53_err secs 1 ltac:(lia)) as [S1 S2].
  destruct (rn53_err nanos G9 ltac:(reflexivity)) as [Q1 Q2].
  remember (rn53 secs 1) as s. remember (rn53 nanos G9) as q.
  destruct s as [Ms Ks]. destruct q as [Mq Kq]. cbn [fst snd] in *.
  rewrite N.mul_1_r in S1, S2.
  assert (P1 : 0 < 2 ^ Ks) by (pose proof (N.pow_nonzero 2 Ks ltac:(lia)); lia).
  assert (P2 : 0 < 2 ^ Kq) by (pose proof (N.pow_nonzero 2 Kq ltac:(lia)); lia).
  assert (PC : 0 < 2 ^ (Ks + Kq)) by (pose proof (N.pow_nonzero 2 (Ks + Kq) ltac:(lia)); lia).
  destruct (rn53_err (Ms * 2 ^ Kq + Mq * 2 ^ Ks) (2 ^ (Ks + Kq)) PC) as [X1 X2].
  remember (rn53 (Ms * 2 ^ Kq + Mq * 2 ^ Ks) (2 ^ (Ks + Kq))) as x. destruct x as [M K]. cbn [fst snd] in *.
  rewrite N.pow_add_r in X1, X2.
  split.
  - apply (compose_upper E53 (E53 + 1) G9 Ms Mq M (2 ^ Ks) (2 ^ Kq) (2 ^ K) secs nanos); assumption.
  - apply (compose_lower E53 (E53 - 1) G9 Ms Mq M (2 ^ Ks) (2 ^ Kq) (2 ^ K) secs nanos); assumption.
Qed.

(* the rendered text reads back as the millisecond count it was made from *)
Lemma pad3_spec r : r < 1000 ->
  forallb is_digit (pad3 r) = true /\ dec_value (pad3 r) = r /\ length (pad3 r) = 3%nat.
Proof.
  intros H. unfold pad3, dec_value. cbn [dec_acc forallb length].
  pose proof (N.div_mod r 100 ltac:(lia)). pose proof (N.mod_upper_bound r 100 ltac:(lia)).
  pose proof (N.div_mod r 10 ltac:(lia)). pose proof (N.mod_upper_bound r 10 ltac:(lia)).
  pose proof (N.div_mod (r / 10) 10 ltac:(lia)). pose proof (N.mod_upper_bound (r / 10) 10 ltac:(lia)).
  assert (r / 100 = r / 10 / 10) by (rewrite N.div_div by lia; reflexivity).
  assert (r / 100 < 10) by (apply N.div_lt_upper_bound; lia).
  remember (r / 100) as a. remember (r / 10) as t. remember (t mod 10) as m. remember (r mod 10) as c.
  unfold is_digit, in_range, digit_val. repeat split; lia.
Qed.

Lemma denote_time_render ms :
  denote_time_ms (render_dec (ms / 1000) ++ [46] ++ pad3 (ms mod 1000)) = Some ms.
Proof.
  pose proof (N.mod_upper_bound ms 1000 ltac:(lia)) as R.
  destruct (pad3_spec (ms mod 1000) R) as (D & V & L).
  unfold denote_time_ms. cbn [app].
  rewrite split_on_app by (apply render_dec_no; reflexivity).
  rewrite split_on_no_sep by (apply digits_no; [exact D | reflexivity]).
  rewrite all_digits_render_dec, dec_value_render_dec, V, L.
  unfold all_digits. rewrite D. cbn [pad3 beq negb andb Nat.eqb].
  pose proof (N.div_mod ms 1000 ltac:(lia)). f_equal. lia.
Qed.

Definition dur_in_domain (secs nanos : N) : Prop := secs < 2 ^ 64 /\ nanos < G9.

(* Duration's Argument impl: the text is a millisecond count within half a millisecond of the exact
   value, plus the relative precision of the double it passes through *)
Theorem duration_close secs nanos : dur_in_domain secs nanos ->
  exists ms, denote_time_ms (render_duration secs nanos) = Some ms /\ time_close secs nanos ms = true.
Proof.
  intros [Hs Hn]. unfold render_duration, fmt3.
  destruct (as_secs_f64_err secs nanos) as [U L]. cbv zeta in U, L.
  remember (as_secs_f64 secs nanos) as x. destruct x as [M K]. cbn [fst snd] in *.
  assert (HP : 0 < 2 ^ K) by (pose proof (N.pow_nonzero 2 K ltac:(lia)); lia).
  destruct (div_rne_spec (M * 1000) (2 ^ K) HP) as [R1 R2].
  remember (div_rne (M * 1000) (2 ^ K)) as ms.
  exists ms. split; [apply denote_time_render|].
  unfold time_close, time_tolerance_ns. change 1000000000 with G9.
  remember (secs * G9 + nanos) as T.
  assert (HT : T < 2 ^ 94) by (subst T; unfold G9 in *; lia).
  pose proof (N.div_mod T (2 ^ 52) ltac:(lia)) as DF. pose proof (N.mod_upper_bound T (2 ^ 52) ltac:(lia)) as RF.
  remember (T / 2 ^ 52) as F. remember (T mod 2 ^ 52) as rF.
  remember (2 ^ K) as P.
  (* (2e+1) T <= e^2 (F+2), scaled by P *)
  assert (L1 : (2 * E53 + 1) * (T * P) <= E53 * E53 * ((F + 2) * P)).
  { replace ((2 * E53 + 1) * (T * P)) with ((2 * E53 + 1) * T * P) by ring.
    replace (E53 * E53 * ((F + 2) * P)) with (E53 * E53 * (F + 2) * P) by ring.
    apply N.mul_le_mono_r. unfold E53. lia. }
  assert (C : forall a c, a * (E53 * E53 * P) <= c * (E53 * E53 * P) -> a <= c).
  { intros a c H. apply (N.mul_le_mono_pos_r a c (E53 * E53 * P)); [|exact H].
    apply N.mul_pos_pos; [reflexivity | exact HP]. }
  remember (ms * P) as msP. remember (T * P) as TP.
  assert (FP : (F + 2) * P = F * P + 2 * P) by ring. remember (F * P) as FP'.
  apply andb_true_iff. split; apply N.leb_le; apply C.
  - replace (ms * 1000000 * (E53 * E53 * P)) with (1000000 * (E53 * E53) * msP) by (subst msP; ring).
    replace ((T + (500000 + F + 2)) * (E53 * E53 * P)) with (E53 * E53 * TP + E53 * E53 * (500000 * P) + E53 * E53 * ((F + 2) * P))
      by (subst TP; ring).
    unfold E53, G9 in *. lia.
  - replace ((ms * 1000000 + (500000 + F + 2)) * (E53 * E53 * P))
      with (1000000 * (E53 * E53) * msP + E53 * E53 * (500000 * P) + E53 * E53 * ((F + 2) * P)) by (subst msP; ring).
    replace (T * (E53 * E53 * P)) with (E53 * E53 * TP) by (subst TP; ring).
    unfold E53, G9 in *. lia.
Qed.

Lemma sat_time secs nanos : dur_in_domain secs nanos -> sat (MTime secs nanos) (render_duration secs nanos).
Proof.
  intros H. destruct (duration_close secs nanos H) as (ms & E & C). cbn [sat satb]. rewrite E. exact C.
Qed.

Lemma sat_seek_time m secs nanos : dur_in_domain secs nanos ->
  sat (MSeekTime m secs nanos)
      (match m with
       | SeekAbsolute => render_duration secs nanos
       | SeekForward => [43] ++ render_duration secs nanos
       | SeekBackward => [45] ++ render_duration secs nanos
       end).
Proof.
  intros H. destruct (duration_close secs nanos H) as (ms & E & C).
  destruct m; cbn [sat satb app]; rewrite E; exact C.
Qed.

(* parameters the three time-taking commands are stated for: values a Duration can hold *)
Definition params_in_domain (x : predef) : Prop :=
  match x with
  | PSeekTo _ secs nanos | PSeek _ secs nanos => dur_in_domain secs nanos
  | _ => True
  end.

Lemma sat_groups l :
  Forall2 sat (flat_map (fun g => [kw "group"; MTag g]) l)
              (map arg_token (flat_map (fun g => [AStr (b "group"); tag_arg g]) l)).
Proof.
  induction l as [|g l IH]; cbn [flat_map map app]; [constructor|].
  constructor; [apply sat_keyword|]. constructor; [apply sat_tag | exact IH].
Qed.

Lemma sat_tags l : Forall2 sat (map MTag l) (map arg_token (map tag_arg l)).
Proof. induction l as [|g l IH]; cbn [map]; constructor; [apply sat_tag | exact IH]. Qed.

Ltac sat1 :=
  first [ apply sat_string | apply sat_keyword | apply sat_tag | apply sat_filter | apply sat_number
        | apply sat_bool | apply sat_positions | apply sat_position | apply sat_relative | apply sat_volume ].
Ltac sat_all :=
  cbn [map arg_token app opt_args opt fst snd option_map range_of positions];
  repeat (apply Forall2_cons; [sat1|]); try apply Forall2_nil.

(* (d) for every constructor path: the command word is the documented one and every argument, in
   the documented position, carries the documented meaning of the Rust value; the constructor
   panics exactly where that is documented *)
Theorem model_meets_spec x : params_in_domain x ->
  match model x, spec x with
  | None, None => True
  | Some (w, args), Some (w', ms) => w = w' /\ Forall2 sat ms (map arg_token args)
  | _, _ => False
  end.
Proof.
  intros Hd. destruct x; cbn [model spec]; try exact I;
    try (split; [reflexivity | sat_all; fail]).
  all: try (destruct s; cbn [queue_range_command play_command song_word fst snd]; split; try reflexivity; sat_all; fail).
  - (* SetSingle *) destruct m; split; try reflexivity; constructor; try constructor; reflexivity.
  - destruct m; split; try reflexivity; constructor; try constructor; reflexivity.
  - (* SeekTo *) destruct s; cbn [seek_to_command song_word fst snd]; split; try reflexivity;
      (constructor; [apply sat_number | constructor; [apply sat_time; exact Hd | constructor]]).
  - (* Seek *) split; [reflexivity|]. constructor; [|constructor]. apply (sat_seek_time m secs nanos Hd).
  - (* Add *) destruct pos; split; try reflexivity; sat_all.
  - (* Move *) destruct from as [id|p|lo hi]; [| | destruct hi]; try exact I; split; try reflexivity; sat_all.
  - (* Find *) destruct sort, window; split; try reflexivity; sat_all.
  - (* List *) split; [reflexivity|]. unfold list_command. cbn [snd map arg_token tag_arg].
    constructor; [apply sat_tag|]. rewrite map_app. apply Forall2_app; [|apply sat_groups].
    destruct f; sat_all.
  - (* CountGrouped *) destruct f; split; try reflexivity; sat_all.
  - (* Load *) destruct r; split; try reflexivity; sat_all.
  - (* AddToPlaylist *) destruct pos; split; try reflexivity; sat_all.
  - (* ListAllIn.directory *) destruct d; split; try reflexivity; sat_all.
  - (* TagTypes.disable *) destruct l as [|t l]; [exact I|]. split; [reflexivity|].
    cbn [tag_types_command snd map arg_token]. constructor; [apply sat_keyword|]. apply (sat_tags (t :: l)).
  - destruct l as [|t l]; [exact I|]. split; [reflexivity|].
    cbn [tag_types_command snd map arg_token]. constructor; [apply sat_keyword|]. apply (sat_tags (t :: l)).
  - (* StickerFind *) destruct flt as [[o v]|]; [destruct o|]; split; try reflexivity; sat_all.
  - destruct uri; split; try reflexivity; sat_all.
  - destruct uri; split; try reflexivity; sat_all.
Qed.

(* ================= one token per argument: the written line under MPD's tokenizer ================= *)

(* [w] is a wire text that MPD's NextParam reads as exactly the token [t], whatever follows *)
Definition good (w t : bytes) : Prop :=
  (forall tail, sep_tail tail -> next_param (w ++ tail) = Some (t, strip_left tail)) /\
  (exists h r, w = h :: r /\ is_ws h = false) /\
  ends_nonws w /\
  Forall (fun x => x < 256 /\ x <> LF /\ x <> 0) w.

Fixpoint wire_items (ws : list bytes) : bytes :=
  match ws with
  | [] => []
  | w :: r => SP :: w ++ wire_items r
  end.
Definition wire_items' (ws : list bytes) : bytes :=
  match ws with
  | [] => []
  | w :: r => w ++ wire_items r
  end.

Lemma wire_items_sep ws : sep_tail (wire_items ws).
Proof. destruct ws; [left; reflexivity | right; eexists; reflexivity]. Qed.

Lemma strip_left_items ws ts : Forall2 good ws ts -> strip_left (wire_items ws) = wire_items' ws.
Proof.
  intros H. destruct H as [|w t ws ts (_ & (h & r & -> & W) & _) _]; [reflexivity|].
  simpl. rewrite W. reflexivity.
Qed.

Lemma params_items ws : forall ts fuel,
  Forall2 good ws ts -> (length ws <= fuel)%nat -> params fuel (wire_items' ws) = Some ts.
Proof.
  induction ws as [|w ws IH]; intros ts fuel H Hf.
  - inversion H; subst. destruct fuel; reflexivity.
  - inversion H as [|w' t ws' ts' G Hr]; subst.
    destruct G as (NP & (h & r & E & W) & _).
    destruct fuel as [|f]; [simpl in Hf; lia|].
    specialize (NP (wire_items ws) (wire_items_sep ws)).
    unfold wire_items'. rewrite E in *. cbn [params app]. cbn [app] in NP. rewrite NP.
    rewrite (strip_left_items ws ts' Hr), (IH ts' f Hr); [reflexivity | simpl in Hf; lia].
Qed.

Lemma ends_items ws ts : ws <> [] -> Forall2 good ws ts -> ends_nonws (wire_items ws).
Proof.
  intros Hne H. induction H as [|w t ws ts G Hr IH]; [congruence|].
  simpl. destruct ws as [|w2 ws2].
  - simpl. rewrite app_nil_r. apply (ends_app [SP]). apply G.
  - change (SP :: w ++ wire_items (w2 :: ws2)) with ((SP :: w) ++ wire_items (w2 :: ws2)).
    apply ends_app. apply IH. discriminate.
Qed.

Lemma items_length ws ts : Forall2 good ws ts -> (length ws <= length (wire_items' ws))%nat.
Proof.
  intros H. assert (G : (length ws <= length (wire_items ws))%nat).
  { induction H as [|w t ws ts (_ & (h & r & -> & _) & _) Hr IH]; simpl; [lia|]. rewrite app_length. lia. }
  destruct H as [|w t ws ts (_ & (h & r & -> & _) & _) Hr]; simpl; [lia|].
  rewrite app_length.
  assert (G2 : (length ws <= length (wire_items ws))%nat).
  { clear G. induction Hr as [|w2 t2 ws2 ts2 (_ & (h2 & r2 & -> & _) & _) Hr2 IH2]; simpl; [lia|]. rewrite app_length. lia. }
  lia.
Qed.

Lemma items_clean ws ts : Forall2 good ws ts -> Forall (fun x => x <> LF /\ x <> 0) (wire_items ws).
Proof.
  induction 1 as [|w t ws ts (_ & _ & _ & C) Hr IH]; simpl; [constructor|].
  constructor; [split; discriminate|]. apply Forall_app. split; [|exact IH].
  eapply Forall_impl; [|exact C]. simpl. tauto.
Qed.

Theorem tokenize_items name ws ts :
  wf_bytes name -> build name = inr name -> Forall2 good ws ts ->
  mpd_tokenize (send_bytes (name ++ wire_items ws)) = Some (name :: ts).
Proof.
  intros Wn Hb HG.
  apply build_ok_iff in Hb as (_ & Hfo & Hcs & _).
  assert (Hname : Forall (fun x => valid_word_char x = true /\ is_ws x = false /\ x <> LF /\ x <> 0) name).
  { apply Forall_forall. intros x Hin. unfold wf_bytes in Wn. rewrite Forall_forall in Wn, Hcs.
    destruct (command_charset_plain x (Wn x Hin) (Hcs x Hin)) as (A & B & C & _).
    split; [apply command_charset_word; auto | auto]. }
  assert (Hline : mpd_line (send_bytes (name ++ wire_items ws)) = name ++ wire_items ws).
  { apply mpd_line_send.
    - apply Forall_app. split; [eapply Forall_impl; [|exact Hname]; simpl; tauto | apply (items_clean ws ts HG)].
    - destruct ws as [|w r].
      + simpl. rewrite app_nil_r. destruct (rev name) as [|l rr] eqn:E.
        * apply (f_equal (@rev N)) in E. rewrite rev_involutive in E. simpl in E. subst name. contradiction.
        * exists l, rr. split; [exact E|]. assert (In l name) by (apply in_rev; rewrite E; left; reflexivity).
          rewrite Forall_forall in Hname. apply Hname. assumption.
      + apply ends_app. apply (ends_items (w :: r) ts); [discriminate | exact HG]. }
  unfold mpd_tokenize. rewrite Hline.
  destruct name as [|c n]; [contradiction|]. simpl in Hfo.
  assert (Hl : valid_word_first c = true).
  { apply first_charset_letter; [|exact Hfo]. inversion Wn; assumption. }
  cbn [app next_word]. rewrite Hl. inversion Hname; subst.
  rewrite (scan_word n (wire_items ws)); [| eapply Forall_impl; [|exact H2]; simpl; tauto | apply wire_items_sep].
  rewrite (strip_left_items ws ts HG).
  rewrite (params_items ws ts _ HG); [reflexivity | apply (items_length ws ts HG)].
Qed.

(* what add_args appends *)
Lemma add_args_wire l : forall c,
  Forall (fun a => Forall (fun x => argument_reject x = false) (arg_rendered a)) l ->
  add_args c l = Some (c ++ wire_items (map arg_rendered l)).
Proof.
  induction l as [|a l IH]; intros c H; simpl.
  - rewrite app_nil_r. reflexivity.
  - inversion H as [|a' l' Ha Hl]; subst.
    destruct (add_argument_raw_spec c (arg_rendered a)) as [_ OK]. rewrite (OK Ha).
    rewrite (IH _ Hl). rewrite <- !app_assoc. reflexivity.
Qed.

Lemma good_not_rejected w t : good w t -> Forall (fun x => argument_reject x = false) w.
Proof.
  intros (_ & _ & _ & C). eapply Forall_impl; [|exact C]. simpl. intros x (Hx & H1 & H2).
  destruct (argument_reject x) eqn:E; [|reflexivity].
  destruct (argument_reject_spec x Hx E); congruence.
Qed.

(* ----- the three kinds of argument ----- *)

(* strings: C06's theorem, per argument *)
Definition str_ok (s : bytes) : Prop := wf_bytes s /\ K s = false /\ Forall (fun x => x <> LF /\ x <> 0) s.

Lemma good_str s : str_ok s -> good (escape_argument s) s.
Proof.
  intros (W & HK & C). split; [|split; [|split]].
  - intros tail Ht. apply next_param_escape; assumption.
  - apply escape_head. exact HK.
  - apply ends_escape. exact HK.
  - apply Forall_forall. intros x Hin. unfold wf_bytes in W. rewrite Forall_forall in W, C.
    apply escape_bytes in Hin as [Hin|[E|E]]; [| subst x; unfold BS, LF; lia | subst x; unfold DQ, LF; lia].
    destruct (C x Hin). split; [apply W; exact Hin | tauto].
Qed.

(* what the non-string renderers emit: bytes the unquoted form carries unchanged *)
Definition plain_char (c : N) : bool := (c <? 256) && valid_unquoted_char c && negb (should_escape c).
Definition plain (r : bytes) : bool := negb (beq r []) && forallb plain_char r.

Lemma good_plain r : plain r = true -> good r r.
Proof.
  unfold plain. intros H. apply andb_true_iff in H as [Hne Hall].
  destruct r as [|c r]; [discriminate|].
  assert (Hv : forallb valid_unquoted_char (c :: r) = true).
  { apply forallb_forall. intros x Hin. rewrite forallb_forall in Hall. specialize (Hall x Hin).
    unfold plain_char in Hall. destruct (valid_unquoted_char x); [reflexivity|]. rewrite andb_false_r in Hall. discriminate. }
  assert (Hb : Forall (fun x => x < 256 /\ is_ws x = false) (c :: r)).
  { apply Forall_forall. intros x Hin. rewrite forallb_forall in Hall, Hv. specialize (Hall x Hin).
    destruct (valid_unquoted_not_ws x (Hv x Hin)) as [W _]. unfold plain_char in Hall. split; [lia | exact W]. }
  split; [|split; [|split]].
  - intros tail Ht. simpl in Hv. apply andb_true_iff in Hv as [Hc Hr].
    cbn [app next_param]. destruct (valid_unquoted_not_ws c Hc) as [_ D]. rewrite D.
    unfold next_unquoted. rewrite Hc, (scan_unquoted r tail Hr Ht). reflexivity.
  - exists c, r. split; [reflexivity|]. inversion Hb; tauto.
  - destruct (rev (c :: r)) as [|l rr] eqn:E.
    + apply (f_equal (@rev N)) in E. rewrite rev_involutive in E. discriminate.
    + exists l, rr. split; [exact E|]. assert (In l (c :: r)) by (apply in_rev; rewrite E; left; reflexivity).
      rewrite Forall_forall in Hb. apply Hb. assumption.
  - eapply Forall_impl; [|exact Hb]. simpl. intros x [H1 H2]. unfold is_ws, LF in *. lia.
Qed.

(* filters: Filter::render wraps the expression in quotes and protects its inner quotes; MPD's
   NextString undoes exactly that (values without a double quote; see C11 for the rest) *)
Definition sb_then (pre : bytes) (o : option (bytes * bytes)) : option (bytes * bytes) :=
  match o with Some (t, r) => Some (pre ++ t, r) | None => None end.

Lemma sb_plain a rest :
  Forall (fun c => c <> DQ /\ c <> BS) a -> string_body (a ++ rest) = sb_then a (string_body rest).
Proof.
  induction 1 as [|c a [H1 H2] _ IH]; cbn [app]; [destruct (string_body rest) as [[t r]|]; reflexivity|].
  cbn [string_body]. apply N.eqb_neq in H1, H2. rewrite H1, H2, IH.
  destruct (string_body rest) as [[t r]|]; reflexivity.
Qed.

Lemma sb_esc d rest : string_body (BS :: d :: rest) = sb_then [d] (string_body rest).
Proof. cbn [string_body]. change (BS =? DQ) with false. change (BS =? BS) with true. cbv iota. reflexivity. Qed.

Lemma sb_then_then p q o : sb_then p (sb_then q o) = sb_then (p ++ q) o.
Proof. destruct o as [[t r]|]; cbn [sb_then]; [rewrite app_assoc|]; reflexivity. Qed.

Lemma sb_filter_value v rest :
  Forall (fun c => c <> DQ) v ->
  string_body (escape_filter_value v ++ rest) = sb_then (filter_quote v) (string_body rest).
Proof.
  assert (FB : filter_escapes_backslash = true) by reflexivity.
  induction 1 as [|c v Hc _ IH].
  - cbn. destruct (string_body rest) as [[t r]|]; reflexivity.
  - unfold escape_filter_value, filter_quote. cbn [flat_map]. fold (escape_filter_value v). fold (filter_quote v).
    rewrite FB. apply N.eqb_neq in Hc. rewrite Hc. rewrite orb_false_r.
    destruct (c =? BS) eqn:E.
    + apply N.eqb_eq in E. subst c. cbn [app]. rewrite sb_esc, sb_esc, IH, !sb_then_then. reflexivity.
    + cbn [app string_body]. rewrite Hc, E, IH. destruct (string_body rest) as [[t r]|]; reflexivity.
Qed.

Lemma sb_close tail : sep_tail tail -> string_body (DQ :: tail) = Some ([], strip_left tail).
Proof. intros [->|[r ->]]; reflexivity. Qed.

Definition filter_ok (f : sfilter) : Prop :=
  plain (tag_as_str (f_tag f)) = true /\ wf_bytes (f_value f) /\
  Forall (fun c => c <> DQ /\ c <> LF /\ c <> 0) (f_value f).

Lemma plain_chars r : plain r = true ->
  Forall (fun c => c < 256 /\ is_ws c = false /\ c <> DQ /\ c <> BS /\ c <> LF /\ c <> 0) r.
Proof.
  unfold plain. intros H. apply andb_true_iff in H as [_ H]. apply Forall_forall. intros x Hin.
  rewrite forallb_forall in H. specialize (H x Hin). unfold plain_char in H.
  assert (Hx : x < 256) by lia. rewrite (should_escape_spec x Hx) in H.
  unfold valid_unquoted_char, is_ws in *. unfold DQ, BS, SQ, LF in *. lia.
Qed.

Lemma operator_chars o : Forall (fun c => c < 256 /\ c <> DQ /\ c <> BS /\ c <> LF /\ c <> 0) (operator_str o).
Proof. destruct o; repeat constructor; unfold DQ, BS, LF; lia. Qed.

Lemma filter_inner_reads f tail : filter_ok f -> sep_tail tail ->
  string_body (filter_inner f ++ DQ :: tail) = Some (filter_expr f, strip_left tail).
Proof.
  intros (Ht & Wv & Cv) Hs.
  assert (Pt : Forall (fun c => c <> DQ /\ c <> BS) (tag_as_str (f_tag f))).
  { eapply Forall_impl; [|apply (plain_chars _ Ht)]. simpl. tauto. }
  assert (Po : Forall (fun c => c <> DQ /\ c <> BS) (operator_str (f_op f))).
  { eapply Forall_impl; [|apply operator_chars]. simpl. tauto. }
  assert (Pv : Forall (fun c => c <> DQ) (f_value f)).
  { eapply Forall_impl; [|exact Cv]. simpl. tauto. }
  assert (Core : forall rest,
    string_body (([40] ++ tag_as_str (f_tag f) ++ [SP] ++ operator_str (f_op f) ++ [SP; BS; DQ]
                  ++ escape_filter_value (f_value f) ++ [BS; DQ; 41]) ++ rest)
    = sb_then ([40] ++ tag_as_str (f_tag f) ++ [SP] ++ operator_str (f_op f) ++ [SP; DQ]
               ++ filter_quote (f_value f) ++ [DQ; 41]) (string_body rest)).
  { intros rest. rewrite <- !app_assoc.
    rewrite (sb_plain [40]) by (repeat constructor; discriminate).
    rewrite (sb_plain (tag_as_str (f_tag f))) by exact Pt.
    rewrite (sb_plain [SP]) by (repeat constructor; discriminate).
    rewrite (sb_plain (operator_str (f_op f))) by exact Po.
    change ([SP; BS; DQ] ++ escape_filter_value (f_value f) ++ [BS; DQ; 41] ++ rest)
      with ([SP] ++ BS :: DQ :: (escape_filter_value (f_value f) ++ BS :: DQ :: ([41] ++ rest))).
    rewrite (sb_plain [SP]) by (repeat constructor; discriminate).
    rewrite sb_esc, (sb_filter_value _ _ Pv), sb_esc.
    rewrite (sb_plain [41]) by (repeat constructor; discriminate).
    rewrite !sb_then_then. rewrite <- !app_assoc. reflexivity. }
  unfold filter_inner, filter_expr. cbv zeta.
  set (T := [40] ++ tag_as_str (f_tag f) ++ [SP] ++ operator_str (f_op f) ++ [SP; BS; DQ]
            ++ escape_filter_value (f_value f) ++ [BS; DQ; 41]) in *.
  destruct (f_neg f).
  - replace (([40; 33] ++ T ++ [41]) ++ DQ :: tail) with ([40; 33] ++ (T ++ ([41] ++ DQ :: tail)))
      by (rewrite <- !app_assoc; reflexivity).
    rewrite (sb_plain [40; 33]) by (repeat constructor; discriminate).
    rewrite Core.
    rewrite (sb_plain [41]) by (repeat constructor; discriminate).
    rewrite (sb_close tail Hs). cbn [sb_then]. rewrite app_nil_r, <- !app_assoc. reflexivity.
  - rewrite Core, (sb_close tail Hs). cbn [sb_then]. rewrite app_nil_r. reflexivity.
Qed.

Lemma good_filter f : filter_ok f -> good (render_filter f) (filter_expr f).
Proof.
  intros Hf. pose proof Hf as (Ht & Wv & Cv). split; [|split; [|split]].
  - intros tail Hs. unfold render_filter. rewrite <- !app_assoc. cbn [app next_param].
    change (DQ =? DQ) with true. cbv iota. apply filter_inner_reads; assumption.
  - exists DQ, (filter_inner f ++ [DQ]). split; reflexivity.
  - unfold render_filter. rewrite app_assoc. apply ends_app. exists DQ, []. split; reflexivity.
  - assert (Ct : Forall (fun x => x < 256 /\ x <> LF /\ x <> 0) (tag_as_str (f_tag f))).
    { eapply Forall_impl; [|apply (plain_chars _ Ht)]. simpl. tauto. }
    assert (Co : Forall (fun x => x < 256 /\ x <> LF /\ x <> 0) (operator_str (f_op f))).
    { eapply Forall_impl; [|apply operator_chars]. simpl. tauto. }
    assert (Ce : Forall (fun x => x < 256 /\ x <> LF /\ x <> 0) (escape_filter_value (f_value f))).
    { unfold escape_filter_value. apply Forall_forall. intros x Hin. apply in_flat_map in Hin as (y & Hy & Hx).
      unfold wf_bytes in Wv. rewrite Forall_forall in Wv, Cv. specialize (Wv y Hy). destruct (Cv y Hy) as (_ & C1 & C2).
      destruct (y =? BS); [destruct filter_escapes_backslash; simpl in Hx; unfold BS, LF in *; lia|].
      destruct (y =? DQ); simpl in Hx; unfold BS, DQ, LF in *; lia. }
    assert (Lit : forall l, forallb (fun x => (x <? 256) && negb (x =? LF) && negb (x =? 0)) l = true ->
                            Forall (fun x => x < 256 /\ x <> LF /\ x <> 0) l).
    { intros l H. apply Forall_forall. intros x Hin. rewrite forallb_forall in H. specialize (H x Hin). lia. }
    unfold render_filter, filter_inner.
    destruct (f_neg f); repeat (apply Forall_app; split); try assumption; apply Lit; reflexivity.
Qed.

(* ================= the command words ================= *)

Definition builds (w : bytes) : bool :=
  forallb (fun c => c <? 256) w && match build w with inr c => beq c w | inl _ => false end.

Lemma builds_ok w : builds w = true -> wf_bytes w /\ build w = inr w.
Proof.
  unfold builds. intros H. apply andb_true_iff in H as [W B]. split.
  - apply Forall_forall. intros x Hin. rewrite forallb_forall in W. specialize (W x Hin). lia.
  - destruct (build w) as [e|c]; [discriminate|]. apply beq_eq in B. subst c. reflexivity.
Qed.

(* the RawCommand::new literals found in definitions.rs (regenerated) are exactly the documented
   words, and each is a command name the builder accepts: a literal the reference does not know,
   or one the model does not produce, fails here *)
Lemma source_words_are_documented :
  forallb (fun w => existsb (beq w) documented_words) predefined_command_words = true /\
  forallb (fun w => existsb (beq w) predefined_command_words) documented_words = true /\
  forallb builds documented_words = true.
Proof. repeat split; vm_compute; reflexivity. Qed.

Lemma spec_word_documented x w ms : spec x = Some (w, ms) -> existsb (beq w) documented_words = true.
Proof.
  destruct x; cbn [spec]; intros H; unfold song_word in H; cbv zeta in H;
    repeat match type of H with
           | context [match ?v with _ => _ end] => destruct v
           end;
    try discriminate; inversion H; subst; try reflexivity.
Qed.

Lemma model_word_builds x q : model x = Some q -> wf_bytes (fst q) /\ build (fst q) = inr (fst q).
Proof.
  intros H. destruct q as [w args].
  assert (D : exists ms, spec x = Some (w, ms)).
  { destruct x; cbn [model] in H; cbn [spec];
      unfold song_word, queue_range_command, play_command, seek_to_command, delete_command, move_command in *; cbv zeta;
      repeat match type of H with
             | context [match ?v with _ => _ end] => destruct v
             end;
      try discriminate; inversion H; subst;
      repeat match goal with |- context [match ?v with _ => _ end] => is_var v; destruct v end;
      eexists; reflexivity. }
  destruct D as (ms & D). apply spec_word_documented in D.
  apply existsb_exists in D as (w' & Hin & E). apply beq_eq in E. subst w'.
  destruct source_words_are_documented as (_ & _ & B). rewrite forallb_forall in B.
  apply builds_ok. apply B. exact Hin.
Qed.

(* ================= (e) every string parameter is exactly one token ================= *)

(* what the caller supplies besides numbers: strings (escaped on the way out), tags that are
   written raw, filters *)
Inductive input := IStr (s : bytes) | IRawTag (t : tag) | IFilter (f : sfilter).

Definition opt_in {A} (o : option A) (f : A -> list input) : list input :=
  match o with Some x => f x | None => [] end.

Definition inputs (x : predef) : list input :=
  match x with
  | PClearPlaylist s | PDeletePlaylist s | PSaveQueueAsPlaylist s | PSubscribeToChannel s
  | PUnsubscribeFromChannel s | PGetPlaylist s | PStickerList s => [IStr s]
  | PListAllInDirectory d => match d with [] => [] | _ => [IStr d] end
  | PAdd uri _ => [IStr uri]
  | PFind f sort _ => IFilter f :: opt_in sort (fun t => [IStr (tag_as_str t)])     (* sort.as_str() is escaped *)
  | PList t f g => IRawTag t :: opt_in f (fun x => [IFilter x]) ++ map IRawTag g
  | PCount f => [IFilter f]
  | PCountGroupBy f g => [IFilter f; IRawTag g]
  | PCountGrouped g f => opt_in f (fun x => [IFilter x]) ++ [IRawTag g]
  | PRenamePlaylist a z => [IStr a; IStr z]
  | PLoadPlaylist n _ => [IStr n]
  | PAddToPlaylist p u _ => [IStr p; IStr u]
  | PRemoveFromPlaylistPosition p _ | PRemoveFromPlaylistRange p _ _ | PMoveInPlaylist p _ _ => [IStr p]
  | PAlbumArt u _ | PAlbumArtEmbedded u _ => [IStr u]
  | PTagTypesDisable l | PTagTypesEnable l => map IRawTag l
  | PStickerGet u n | PStickerDelete u n => [IStr u; IStr n]
  | PStickerSet u n v => [IStr u; IStr n; IStr v]
  | PStickerFind u n flt => [IStr u; IStr n] ++ opt_in flt (fun ov => [IStr (snd ov)])
  | PUpdate u | PRescan u => opt_in u (fun s => [IStr s])
  | PSendChannelMessage c m => [IStr c; IStr m]
  | _ => []
  end.

(* strings outside C06's recorded class K and without LF/NUL; raw tags made of bytes the unquoted
   form carries (every named tag is: [named_tags_plain]); filter values without a double quote *)
Definition input_ok (i : input) : Prop :=
  match i with
  | IStr s => str_ok s
  | IRawTag t => plain (tag_as_str t) = true
  | IFilter f => filter_ok f
  end.

Definition user_ok (a : arg) : Prop :=
  match a with
  | AStr s => str_ok s
  | ARaw r => plain r = true
  | AFilter f => filter_ok f
  end.

Lemma named_tags_plain : forallb (fun v => plain (tag_name v)) all_tagv = true.
Proof. vm_compute. reflexivity. Qed.

Definition str_okb (s : bytes) : bool :=
  forallb (fun c => c <? 256) s && negb (K s) && forallb (fun c => negb (c =? LF) && negb (c =? 0)) s.
Lemma str_okb_ok s : str_okb s = true -> str_ok s.
Proof.
  unfold str_okb. intros H. apply andb_true_iff in H as [H C]. apply andb_true_iff in H as [W HK].
  split; [|split].
  - apply Forall_forall. intros x Hin. rewrite forallb_forall in W. specialize (W x Hin). lia.
  - destruct (K s); [discriminate | reflexivity].
  - apply Forall_forall. intros x Hin. rewrite forallb_forall in C. specialize (C x Hin). lia.
Qed.

Lemma digit_plain c : is_digit c = true -> plain_char c = true.
Proof.
  unfold is_digit, in_range. intros H. assert (Hc : c < 256) by lia.
  unfold plain_char. rewrite (should_escape_spec c Hc). unfold valid_unquoted_char, is_ws, DQ, SQ, BS. lia.
Qed.

Lemma digits_pc s : forallb is_digit s = true -> forallb plain_char s = true.
Proof.
  intros H. apply forallb_forall. intros x Hin. rewrite forallb_forall in H. apply digit_plain. auto.
Qed.

Lemma plain_intro s : s <> [] -> forallb plain_char s = true -> plain s = true.
Proof. intros Hne H. unfold plain. rewrite H. destruct s; [congruence | reflexivity]. Qed.

Lemma plain_num n : plain (render_dec n) = true.
Proof. destruct (render_dec_spec n) as (_ & D & Ne). apply plain_intro; [exact Ne | apply digits_pc; exact D]. Qed.

Lemma pc_num n : forallb plain_char (render_dec n) = true.
Proof. apply digits_pc. apply render_dec_spec. Qed.

Lemma plain_range r : plain (render_range r) = true.
Proof.
  unfold render_range. destruct (sr_to r); apply plain_intro;
    try (intro X; apply app_eq_nil in X as [_ X]; discriminate);
    rewrite !forallb_app, !pc_num; reflexivity.
Qed.

Lemma plain_rel p : plain (render_pos_or_rel p) = true.
Proof.
  destruct p; cbn [render_pos_or_rel]; [apply plain_num | |]; apply plain_intro; try discriminate;
    rewrite forallb_app, pc_num; reflexivity.
Qed.

Lemma pc_duration secs nanos : forallb plain_char (render_duration secs nanos) = true /\ render_duration secs nanos <> [].
Proof.
  unfold render_duration, fmt3. split.
  - remember (div_rne (fst (as_secs_f64 secs nanos) * 1000) (2 ^ snd (as_secs_f64 secs nanos))) as ms.
    pose proof (N.mod_upper_bound ms 1000 ltac:(lia)) as R. destruct (pad3_spec _ R) as (D & _ & _).
    rewrite !forallb_app, pc_num. cbn [forallb andb].
    rewrite (digits_pc _ D). reflexivity.
  - intro X. apply app_eq_nil in X as [_ X]. discriminate.
Qed.

Lemma plain_bool (x : bool) : plain (if x then [49] else [48]) = true.
Proof. destruct x; reflexivity. Qed.

(* the time of seekcur goes through a String: it is plain, hence unchanged by escape_argument and
   outside K *)
Lemma plain_str_ok s : plain s = true -> str_ok s.
Proof.
  intros H. pose proof (plain_chars s H) as C. split; [|split].
  - eapply Forall_impl; [|exact C]. simpl. tauto.
  - unfold K. apply andb_false_iff. right. apply negb_false_iff. unfold unquoted_ok.
    unfold plain in H. apply andb_true_iff in H as [H1 H2]. rewrite H1. cbn [andb].
    apply forallb_forall. intros x Hin. rewrite forallb_forall in H2. specialize (H2 x Hin).
    unfold plain_char in H2. apply andb_true_iff in H2 as [H2 H3]. apply andb_true_iff in H2 as [_ H2].
    rewrite H2, H3. reflexivity.
  - eapply Forall_impl; [|exact C]. simpl. tauto.
Qed.

Lemma good_arg a : user_ok a -> good (arg_rendered a) (arg_token a).
Proof.
  destruct a; cbn [user_ok arg_rendered arg_token]; [apply good_str | apply good_plain | apply good_filter].
Qed.

Theorem tokenize_request name args :
  wf_bytes name -> build name = inr name -> Forall user_ok args ->
  exists w, render_request (name, args) = Sent w /\ mpd_tokenize w = Some (name :: map arg_token args).
Proof.
  intros Wn Hb Ha.
  assert (G : Forall2 good (map arg_rendered args) (map arg_token args)).
  { induction Ha as [|a l Ha _ IH]; cbn [map]; constructor; [apply good_arg; exact Ha | exact IH]. }
  assert (R : Forall (fun a => Forall (fun x => argument_reject x = false) (arg_rendered a)) args).
  { eapply Forall_impl; [|exact Ha]. intros a H. apply (good_not_rejected _ (arg_token a)). apply good_arg. exact H. }
  unfold render_request. cbn [fst snd]. rewrite Hb, (add_args_wire args name R).
  eexists. split; [reflexivity|]. apply tokenize_items; assumption.
Qed.

Lemma kw_ok (s : bytes) : str_okb s = true -> user_ok (AStr s).
Proof. apply str_okb_ok. Qed.

Lemma raw_tags_ok l : Forall input_ok (map IRawTag l) -> Forall user_ok (map tag_arg l).
Proof. induction l as [|t l IH]; cbn [map]; intros H; inversion H; subst; constructor; auto. Qed.

Lemma groups_ok l : Forall input_ok (map IRawTag l) ->
  Forall user_ok (flat_map (fun g => [AStr (b "group"); tag_arg g]) l).
Proof.
  induction l as [|t l IH]; cbn [map flat_map app]; intros H; inversion H; subst; [constructor|].
  constructor; [apply kw_ok; reflexivity|]. constructor; auto.
Qed.

Ltac ok1 :=
  first [ assumption | apply plain_num | apply plain_range | apply plain_rel | apply plain_bool
        | (apply kw_ok; reflexivity) ].
Ltac inv_inputs :=
  repeat match goal with
         | H : Forall input_ok (_ :: _) |- _ => inversion H; subst; clear H
         | H : Forall input_ok [] |- _ => clear H
         | H : input_ok (IStr _) |- _ => cbn [input_ok] in H
         | H : input_ok (IFilter _) |- _ => cbn [input_ok] in H
         | H : input_ok (IRawTag _) |- _ => cbn [input_ok] in H
         end.
Ltac ok_all := cbn [app opt_args map]; repeat (apply Forall_cons; [cbn [user_ok num bool_arg tag_arg range_arg]; ok1|]); try apply Forall_nil.

Lemma model_args_ok x q : model x = Some q -> Forall input_ok (inputs x) -> Forall user_ok (snd q).
Proof.
  intros H Hin.
  destruct x; cbn [model] in H; cbn [inputs opt_in app] in Hin;
    unfold queue_range_command, play_command, seek_to_command, delete_command, move_command in H;
    repeat match type of H with
           | context [match ?v with _ => _ end] => destruct v
           end;
    try discriminate; inversion H; subst; clear H; cbn [snd opt_in app map] in *; inv_inputs;
    try (ok_all; fail).
  - (* SetSingle *) destruct m; constructor; try constructor; apply str_okb_ok; reflexivity.
  - destruct m; constructor; try constructor; apply str_okb_ok; reflexivity.
  - (* SeekTo id *) constructor; [apply plain_num|]. constructor; [|constructor].
    destruct (pc_duration secs nanos). apply plain_intro; assumption.
  - constructor; [apply plain_num|]. constructor; [|constructor].
    destruct (pc_duration secs nanos). apply plain_intro; assumption.
  - (* Seek *) constructor; [|constructor]. cbn [user_ok]. apply plain_str_ok.
    destruct (pc_duration secs nanos) as [P Ne].
    destruct m; [| |apply plain_intro; assumption]; apply plain_intro; try discriminate;
      rewrite forallb_app, P; reflexivity.
  - (* Add *) unfold add_command. destruct pos; cbn [snd opt_in app map] in *; inv_inputs; ok_all.
  - (* Find *) unfold find_command. destruct sort, window; cbn [snd opt_in app map option_map] in *; inv_inputs; ok_all.
  - (* List *) unfold list_command. cbn [snd].
    match goal with Hr : Forall input_ok (_ ++ _) |- _ => apply Forall_app in Hr as [Hf Hg] end.
    constructor; [cbn [user_ok tag_arg]; assumption|]. apply Forall_app. split; [|apply groups_ok; exact Hg].
    destruct f; cbn [opt_in opt_args] in *; inv_inputs; ok_all.
  - (* CountGrouped *) unfold count_grouped_command. destruct f; cbn [snd opt_in app map] in *; inv_inputs; ok_all.
  - (* Load *) unfold load_playlist_command. destruct r; cbn [snd opt_in app map option_map] in *; inv_inputs; ok_all.
  - (* AddToPlaylist *) unfold add_to_playlist_command. destruct pos; cbn [snd opt_in app map] in *; inv_inputs; ok_all.
  - (* ListAllIn.directory *) unfold list_all_in_command. destruct d; cbn [snd] in *; inv_inputs; ok_all.
  - (* TagTypes *) cbn [tag_types_command snd map]. constructor; [apply kw_ok; reflexivity|].
    constructor; [cbn [user_ok tag_arg]; assumption | apply raw_tags_ok; assumption].
  - cbn [tag_types_command snd map]. constructor; [apply kw_ok; reflexivity|].
    constructor; [cbn [user_ok tag_arg]; assumption | apply raw_tags_ok; assumption].
  - (* StickerFind *) unfold sticker_find_command. destruct flt as [[o v]|]; [destruct o|];
      cbn [snd opt_in app map fst] in *; inv_inputs; ok_all.
  - unfold update_command. destruct uri; cbn [snd opt_in app map] in *; inv_inputs; ok_all.
  - unfold rescan_command. destruct uri; cbn [snd opt_in app map] in *; inv_inputs; ok_all.
Qed.

(* (e) for every constructor path whose strings are outside C06's class K (and LF/NUL-free), whose
   raw tags are plain and whose filter values hold no double quote: nothing panics, and MPD's
   tokenizer splits the written line into the command word and exactly one token per argument —
   each string parameter the very bytes given *)
Theorem predef_tokenizes x q :
  model x = Some q -> Forall input_ok (inputs x) ->
  exists w, run_predef x = Sent w /\ mpd_tokenize w = Some (fst q :: map arg_token (snd q)).
Proof.
  intros Hm Hin. unfold run_predef. rewrite Hm.
  destruct (model_word_builds x q Hm) as [W B]. destruct q as [name args]. cbn [fst snd] in *.
  apply tokenize_request; [exact W | exact B | apply (model_args_ok x (name, args) Hm Hin)].
Qed.

(* panics: only the documented ones — a constructor documented to panic, or an argument holding
   LF/NUL (C07) *)
Theorem predef_panics_only_documented x :
  run_predef x = Panic ->
  spec x = None \/ exists q a, model x = Some q /\ In a (snd q) /\ Exists (fun c => argument_reject c = true) (arg_rendered a).
Proof.
  unfold run_predef. intros H. destruct (model x) as [q|] eqn:Hm.
  - right. destruct (model_word_builds x q Hm) as [_ B]. unfold render_request in H. rewrite B in H.
    exists q. revert H. generalize (fst q). induction (snd q) as [|a l IH]; intros c H; [discriminate|].
    cbn [add_args] in H.
    destruct (add_argument_raw_cases c (arg_rendered a)) as [(i & E & Ex)|(E & _)]; rewrite E in H.
    + exists a. split; [reflexivity|]. split; [left; reflexivity | exact Ex].
    + destruct (IH _ H) as (a' & _ & Hin & Ex). exists a'. split; [reflexivity|]. split; [right; exact Hin | exact Ex].
  - left. pose proof (model_meets_spec x) as M. rewrite Hm in M.
    assert (D : params_in_domain x) by (destruct x; try exact I; discriminate).
    specialize (M D). destruct (spec x) as [[w ms]|]; [contradiction | reflexivity].
Qed.

(* pins of the renderers whose meaning CommandsModel.v writes out by hand, as far as they are decided over a
   complete finite universe by the translator (static reading cross-checked / replaced by a probe of the
   compiled code): x+1 saturating at usize::MAX in SongRange::new_usize (the two ranges that touch the
   maximum), Tag's raw rendering of its protocol name (every variant, Other(name) in four letter cases).
   The "{}:{}" / "{}:" formats and "{:.3}" of as_secs_f64 in Duration's and Seek's rendering have no finite
   complete universe: they are tripwires recorded in the evidence only (Tables.v comment, no identifier);
   what they stand for is decided on every run by the correspondence and the oracle of C15. *)
Lemma renderer_pins :
  range_saturating = true /\ pin_tag_argument = true.
Proof. repeat split; reflexivity. Qed.
