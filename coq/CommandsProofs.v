(* CommandsProofs.v — C15: the rendering model of the predefined commands (CommandsModel) against the
   MPD reference table (CommandsSpec), for all parameter values. *)
From Coq Require Import ZifyBool ZifyN ZifyNat.
From MPD Require Import Bytes Tables TagModel CommandModel MpdTokenizer CommandProofs EscapeProofs
                        CommandsParams CommandsModel CommandsSpec.
Open Scope N_scope.

(* ================= decimal numerals: rendering and reading are inverse ================= *)

Lemma dec_acc_app a x y : dec_acc a (x ++ y) = dec_acc (dec_acc a x) y.
Proof. revert a; induction x as [|d x IH]; intros a; simpl; [reflexivity | apply IH]. Qed.

Lemma render_dec_aux_acc f : forall n acc, render_dec_aux f n acc = render_dec_aux f n [] ++ acc.
Proof.
  induction f as [|f IH]; intros n acc; simpl; [reflexivity|].
  destruct (n / 10 =? 0); [reflexivity|].
  rewrite IH. rewrite (IH (n / 10) [48 + n mod 10]). rewrite <- app_assoc. reflexivity.
Qed.

Lemma render_dec_aux_S f n acc :
  render_dec_aux (S f) n acc =
  if n / 10 =? 0 then (48 + n mod 10) :: acc else render_dec_aux f (n / 10) ((48 + n mod 10) :: acc).
Proof. reflexivity. Qed.

Lemma digit_range n : is_digit (48 + n mod 10) = true /\ digit_val (48 + n mod 10) = n mod 10.
Proof.
  pose proof (N.mod_upper_bound n 10 ltac:(lia)) as H.
  unfold is_digit, in_range, digit_val. split; lia.
Qed.

Lemma render_dec_aux_spec f : forall n, n < 2 ^ N.of_nat (S f) ->
  dec_value (render_dec_aux (S f) n []) = n /\
  forallb is_digit (render_dec_aux (S f) n []) = true /\
  render_dec_aux (S f) n [] <> [].
Proof.
  induction f as [|f IH]; intros n Hn.
  - change (2 ^ N.of_nat 1) with 2 in Hn.
    assert (E : n / 10 = 0) by (apply N.div_small; lia).
    rewrite render_dec_aux_S, E. change (0 =? 0) with true. cbv iota.
    destruct (digit_range n) as [D V]. unfold dec_value. cbn [dec_acc forallb]. rewrite D, V.
    rewrite N.mod_small by lia. split; [lia | split; [reflexivity | discriminate]].
  - rewrite (render_dec_aux_S (S f) n []). destruct (digit_range n) as [D V].
    destruct (n / 10 =? 0) eqn:E.
    + apply N.eqb_eq in E. unfold dec_value. cbn [dec_acc forallb]. rewrite D, V.
      pose proof (N.div_mod n 10 ltac:(lia)). split; [lia | split; [reflexivity | discriminate]].
    + rewrite render_dec_aux_acc.
      assert (Hq : n / 10 < 2 ^ N.of_nat (S f)).
      { rewrite Nat2N.inj_succ in Hn. rewrite N.pow_succ_r' in Hn.
        pose proof (N.div_mod n 10 ltac:(lia)). pose proof (N.mod_upper_bound n 10 ltac:(lia)).
        remember (2 ^ N.of_nat (S f)) as P. lia. }
      destruct (IH (n / 10) Hq) as (V1 & D1 & N1).
      unfold dec_value in *. rewrite dec_acc_app, V1. cbn [dec_acc]. rewrite V.
      rewrite forallb_app, D1. cbn [forallb]. rewrite D.
      pose proof (N.div_mod n 10 ltac:(lia)). split; [lia | split; [reflexivity|]].
      intro X. apply app_eq_nil in X as [_ X]. discriminate.
Qed.

Lemma render_dec_spec n :
  dec_value (render_dec n) = n /\ forallb is_digit (render_dec n) = true /\ render_dec n <> [].
Proof.
  unfold render_dec. apply render_dec_aux_spec.
  rewrite Nat2N.inj_succ, N2Nat.id.
  destruct n as [|p]; [vm_compute; reflexivity|].
  apply N.log2_spec. lia.
Qed.

Lemma dec_value_render_dec n : dec_value (render_dec n) = n.
Proof. apply render_dec_spec. Qed.

Lemma all_digits_render_dec n : all_digits (render_dec n) = true.
Proof.
  destruct (render_dec_spec n) as (_ & D & Ne). unfold all_digits. rewrite D.
  destruct (render_dec n); [congruence | reflexivity].
Qed.

Lemma number_is_render_dec n : number_is (render_dec n) n = true.
Proof. unfold number_is, denote_number. rewrite all_digits_render_dec, dec_value_render_dec. apply N.eqb_refl. Qed.

Lemma digits_no (sep : N) s : forallb is_digit s = true -> is_digit sep = false -> Forall (fun x => x <> sep) s.
Proof.
  intros H Hs. apply Forall_forall. intros x Hin E. subst x.
  rewrite forallb_forall in H. rewrite (H sep Hin) in Hs. discriminate.
Qed.

Lemma render_dec_no sep n : is_digit sep = false -> Forall (fun x => x <> sep) (render_dec n).
Proof. intros H. apply digits_no; [apply render_dec_spec | exact H]. Qed.

(* ================= ranges denote the positions of the Rust range ================= *)

Lemma denote_range_closed a z :
  denote_range (render_dec a ++ [COLON] ++ render_dec z) = Some (fun p => (a <=? p) && (p <? z)).
Proof.
  unfold denote_range. cbn [app].
  rewrite split_on_app by (apply render_dec_no; reflexivity).
  rewrite split_on_no_sep by (apply render_dec_no; reflexivity).
  rewrite !all_digits_render_dec, !dec_value_render_dec.
  destruct (render_dec_spec z) as (_ & _ & Ne). destruct (render_dec z); [congruence | reflexivity].
Qed.

Lemma denote_range_open a :
  denote_range (render_dec a ++ [COLON]) = Some (fun p => a <=? p).
Proof.
  unfold denote_range.
  rewrite split_on_app by (apply render_dec_no; reflexivity).
  cbn [split_on]. rewrite all_digits_render_dec, dec_value_render_dec. reflexivity.
Qed.

Lemma saturating_succ_spec x : saturating_succ x = if x + 1 <=? usize_max then x + 1 else usize_max.
Proof. unfold saturating_succ. destruct (x + 1 <=? usize_max) eqn:E; lia. Qed.

Lemma usize_max_is_MAXPOS : usize_max = MAXPOS.
Proof. reflexivity. Qed.

(* all nine shapes, every endpoint value (also beyond the width), every position below usize::MAX *)
Theorem range_denotes lo hi :
  exists f, denote_range (render_range (song_range_new lo hi)) = Some f /\
            forall p, p < MAXPOS -> f p = in_rust_range lo hi p.
Proof.
  unfold render_range, song_range_new, in_rust_range. cbn [sr_from sr_to].
  assert (M : MAXPOS = usize_max) by reflexivity.
  destruct hi as [z|z|].
  - (* Included z *)
    eexists. split; [apply denote_range_closed|]. intros p Hp. cbv beta.
    rewrite (saturating_succ_spec z).
    destruct lo as [a|a|]; [| rewrite (saturating_succ_spec a) |];
      destruct (z + 1 <=? usize_max) eqn:E1; try destruct (a + 1 <=? usize_max) eqn:E2; lia.
  - eexists. split; [apply denote_range_closed|]. intros p Hp. cbv beta.
    destruct lo as [a|a|]; [| rewrite (saturating_succ_spec a); destruct (a + 1 <=? usize_max) eqn:E2 |]; lia.
  - eexists. split; [apply denote_range_open|]. intros p Hp. cbv beta.
    destruct lo as [a|a|]; [| rewrite (saturating_succ_spec a); destruct (a + 1 <=? usize_max) eqn:E2 |]; lia.
Qed.

(* Delete::position / Move::position: pos..=pos denotes exactly {pos} *)
Theorem position_denotes p :
  exists f, denote_range (render_range (song_range_new (Included p) (Included p))) = Some f /\
            forall q, q < MAXPOS -> f q = (q =? p).
Proof.
  destruct (range_denotes (Included p) (Included p)) as (f & Hf & Hp).
  exists f. split; [exact Hf|]. intros q Hq. rewrite (Hp q Hq). unfold in_rust_range. cbv iota. lia.
Qed.

(* the empty and the inverted ranges denote the empty set on both sides *)
Corollary range_empty_or_inverted a z p :
  z <= a -> p < MAXPOS ->
  in_rust_range (Included a) (Excluded z) p = false /\
  exists f, denote_range (render_range (song_range_new (Included a) (Excluded z))) = Some f /\ f p = false.
Proof.
  intros H Hp. assert (E : in_rust_range (Included a) (Excluded z) p = false) by (unfold in_rust_range; cbv iota; lia).
  split; [exact E|]. destruct (range_denotes (Included a) (Excluded z)) as (f & Hf & Hq).
  exists f. split; [exact Hf|]. rewrite (Hq p Hp). exact E.
Qed.

(* saturation instead of wrapping: ..=usize::MAX still holds every position below usize::MAX *)
Corollary range_saturates p :
  p < MAXPOS ->
  exists f, denote_range (render_range (song_range_new Unbounded (Included usize_max))) = Some f /\ f p = true.
Proof.
  intros Hp. destruct (range_denotes Unbounded (Included usize_max)) as (f & Hf & Hq).
  exists f. split; [exact Hf|]. rewrite (Hq p Hp). unfold in_rust_range. cbv iota. change usize_max with MAXPOS. lia.
Qed.

(* ================= SetVolume ================= *)

Theorem volume_clamped v :
  N.min v volume_max <= 100 /\ N.min v volume_max = (if v <=? 100 then v else 100) /\
  (v <= 100 -> N.min v volume_max = v).
Proof. change volume_max with 100. destruct (v <=? 100) eqn:E; repeat split; lia. Qed.

(* ================= every argument of every command carries the documented meaning ================= *)

(* the token MPD's tokenizer is to produce for an argument (shown in [tokenize_request] below) *)
Definition arg_token (a : arg) : bytes :=
  match a with
  | AStr s => s
  | ARaw r => r
  | AFilter f => filter_expr f
  end.

Lemma sat_string s : sat (MString s) s.
Proof. apply beq_refl. Qed.
Lemma sat_keyword k : sat (MKeyword k) k.
Proof. apply beq_refl. Qed.
Lemma sat_tag t : sat (MTag t) (tag_as_str t).
Proof. apply beq_refl. Qed.
Lemma sat_filter f : sat (MFilter f) (filter_expr f).
Proof. apply beq_refl. Qed.
Lemma sat_number n : sat (MNumber n) (render_dec n).
Proof. apply number_is_render_dec. Qed.
Lemma sat_bool x : sat (MBool x) (if x then [49] else [48]).
Proof. destruct x; reflexivity. Qed.
Lemma sat_positions lo hi : sat (MPositions lo hi) (render_range (song_range_new lo hi)).
Proof. apply range_denotes. Qed.
Lemma sat_position p : sat (MPosition p) (render_range (song_range_new (Included p) (Included p))).
Proof. apply position_denotes. Qed.
Lemma sat_relative p : sat (MRelative p) (render_pos_or_rel p).
Proof. destruct p; cbn [sat satb render_pos_or_rel app]; apply number_is_render_dec. Qed.
Lemma sat_volume v : sat (MNumber (if v <=? 100 then v else 100)) (render_dec (N.min v volume_max)).
Proof. destruct (volume_clamped v) as (_ & -> & _). apply sat_number. Qed.

(* the enum spellings regenerated from the match tables are the documented keywords *)
Lemma single_spellings_documented :
  single_str SingleDisabled = b "0" /\ single_str SingleEnabled = b "1" /\ single_str SingleOneshot = b "oneshot".
Proof. repeat split; vm_compute; reflexivity. Qed.
Lemma replay_gain_spellings_documented :
  rg_str RgOff = b "off" /\ rg_str RgTrack = b "track" /\ rg_str RgAlbum = b "album" /\ rg_str RgAuto = b "auto".
Proof. repeat split; vm_compute; reflexivity. Qed.

(* ================= durations: the f64 path on exact integers ================= *)

Lemma div_rne_spec n d : 0 < d ->
  2 * (div_rne n d * d) <= 2 * n + d /\ 2 * n <= 2 * (div_rne n d * d) + d.
Proof.
  intros Hd. unfold div_rne. cbv zeta.
  pose proof (N.div_mod n d ltac:(lia)) as E. pose proof (N.mod_upper_bound n d ltac:(lia)) as R.
  rewrite (N.mul_comm d (n / d)) in E.
  remember (n / d) as q. remember (n mod d) as r.
  assert (S1 : (q + 1) * d = q * d + d) by lia.
  remember (q * d) as qd.
  destruct (2 * r ?= d) eqn:C.
  - rewrite N.compare_eq_iff in C. destruct (N.even q); [rewrite <- Heqqd | rewrite S1]; lia.
  - rewrite N.compare_lt_iff in C. rewrite <- Heqqd. lia.
  - rewrite N.compare_gt_iff in C. rewrite S1. lia.
Qed.

Definition E53 : N := 2 ^ 53.

(* relative error of the nearest double: |M/2^K - a/c| <= (a/c) / 2^53, without divisions *)
Lemma rn53_err a c : 0 < c ->
  let r := rn53 a c in
  E53 * (fst r * c) <= (E53 + 1) * (a * 2 ^ snd r) /\ (E53 - 1) * (a * 2 ^ snd r) <= E53 * (fst r * c).
Proof.
  intros Hc. unfold rn53. cbv zeta. destruct (a =? 0) eqn:Ea.
  - apply N.eqb_eq in Ea. subst a. cbn [fst snd]. lia.
  - apply N.eqb_neq in Ea.
    destruct (N.log2_spec a ltac:(lia)) as [La1 La2]. destruct (N.log2_spec c Hc) as [Lc1 Lc2].
    remember (N.log2 a) as la. remember (N.log2 c) as lc.
    rewrite N.pow_succ_r' in La2, Lc2.
    assert (P1 : 2 ^ (52 + lc) = 2 ^ 52 * 2 ^ lc) by (apply N.pow_add_r).
    assert (P2 : 2 ^ (53 + lc) = 2 * (2 ^ 52 * 2 ^ lc)).
    { replace (53 + lc) with (N.succ (52 + lc)) by lia. rewrite N.pow_succ_r', P1. reflexivity. }
    remember (2 ^ la) as pa. remember (2 ^ lc) as pc.
    assert (Hpa : 0 < pa) by (subst pa; pose proof (N.pow_nonzero 2 la ltac:(lia)); lia).
    assert (Hpc : 0 < pc) by (subst pc; pose proof (N.pow_nonzero 2 lc ltac:(lia)); lia).
    set (d := c * pa). set (n0 := a * 2 ^ (52 + lc)).
    assert (Hd : 0 < d) by (unfold d; apply N.mul_pos_pos; assumption).
    (* 2^52 * d <= 2 * n0 *)
    assert (B : 2 ^ 52 * d <= 2 * n0).
    { unfold d, n0. rewrite P1.
      assert (X1 : c * pa <= 2 * pc * pa) by (apply N.mul_le_mono_r; lia).
      assert (X2 : pa * (2 ^ 52 * pc) <= a * (2 ^ 52 * pc)) by (apply N.mul_le_mono_r; lia).
      assert (X3 : 2 ^ 52 * (c * pa) <= 2 ^ 52 * (2 * pc * pa)) by (apply N.mul_le_mono_l; exact X1).
      replace (2 ^ 52 * (2 * pc * pa)) with (2 * (pa * (2 ^ 52 * pc))) in X3 by lia. lia. }
    destruct (n0 <? 2 ^ 52 * d) eqn:Cmp; cbn [fst snd].
    + destruct (div_rne_spec (2 * n0) d Hd) as [D1 D2].
      remember (div_rne (2 * n0) d) as m.
      replace (m * pa * c) with (m * d) by (unfold d; lia).
      replace (a * 2 ^ (53 + lc)) with (2 * n0) by (unfold n0; rewrite P1, P2; lia).
      remember (m * d) as md. unfold E53. lia.
    + apply N.ltb_ge in Cmp.
      destruct (div_rne_spec n0 d Hd) as [D1 D2].
      remember (div_rne n0 d) as m.
      replace (m * pa * c) with (m * d) by (unfold d; lia).
      fold n0. remember (m * d) as md. unfold E53. lia.
Qed.

(* composition of relative errors, products only *)
Lemma compose_upper e ep G Ms Mq M P1 P2 P secs nanos : 0 < P1 -> 0 < P2 ->
  e*Ms <= ep*(secs*P1) -> e*(Mq*G) <= ep*(nanos*P2) ->
  e*(M*(P1*P2)) <= ep*((Ms*P2+Mq*P1)*P) ->
  e*e*(M*G) <= ep*ep*((secs*G+nanos)*P).
Proof.
  intros H1 H2 A B C.
  apply (N.mul_le_mono_pos_r _ _ (P1*P2)); [apply N.mul_pos_pos; assumption|].
  assert (A' : e*Ms*(P2*G) <= ep*(secs*P1)*(P2*G)) by (apply N.mul_le_mono_r; exact A).
  assert (B' : e*(Mq*G)*P1 <= ep*(nanos*P2)*P1) by (apply N.mul_le_mono_r; exact B).
  assert (S : e*((Ms*P2+Mq*P1)*G) <= ep*((secs*G+nanos)*(P1*P2))).
  { replace (e*((Ms*P2+Mq*P1)*G)) with (e*Ms*(P2*G) + e*(Mq*G)*P1) by ring.
    replace (ep*((secs*G+nanos)*(P1*P2))) with (ep*(secs*P1)*(P2*G) + ep*(nanos*P2)*P1) by ring. lia. }
  assert (C' : e*(M*(P1*P2))*(e*G) <= ep*((Ms*P2+Mq*P1)*P)*(e*G)) by (apply N.mul_le_mono_r; exact C).
  assert (S' : e*((Ms*P2+Mq*P1)*G)*(ep*P) <= ep*((secs*G+nanos)*(P1*P2))*(ep*P)) by (apply N.mul_le_mono_r; exact S).
  replace (e*e*(M*G)*(P1*P2)) with (e*(M*(P1*P2))*(e*G)) by ring.
  replace (ep*ep*((secs*G+nanos)*P)*(P1*P2)) with (ep*((secs*G+nanos)*(P1*P2))*(ep*P)) by ring.
  replace (ep*((Ms*P2+Mq*P1)*P)*(e*G)) with (e*((Ms*P2+Mq*P1)*G)*(ep*P)) in C' by ring.
  lia.
Qed.
Lemma compose_lower e em G Ms Mq M P1 P2 P secs nanos : 0 < P1 -> 0 < P2 ->
  em*(secs*P1) <= e*Ms -> em*(nanos*P2) <= e*(Mq*G) ->
  em*((Ms*P2+Mq*P1)*P) <= e*(M*(P1*P2)) ->
  em*em*((secs*G+nanos)*P) <= e*e*(M*G).
Proof.
  intros H1 H2 A B C.
  apply (N.mul_le_mono_pos_r _ _ (P1*P2)); [apply N.mul_pos_pos; assumption|].
  assert (A' : em*(secs*P1)*(P2*G) <= e*Ms*(P2*G)) by (apply N.mul_le_mono_r; exact A).
  assert (B' : em*(nanos*P2)*P1 <= e*(Mq*G)*P1) by (apply N.mul_le_mono_r; exact B).
  assert (S : em*((secs*G+nanos)*(P1*P2)) <= e*((Ms*P2+Mq*P1)*G)).
  { replace (e*((Ms*P2+Mq*P1)*G)) with (e*Ms*(P2*G) + e*(Mq*G)*P1) by ring.
    replace (em*((secs*G+nanos)*(P1*P2))) with (em*(secs*P1)*(P2*G) + em*(nanos*P2)*P1) by ring. lia. }
  assert (C' : em*((Ms*P2+Mq*P1)*P)*(e*G) <= e*(M*(P1*P2))*(e*G)) by (apply N.mul_le_mono_r; exact C).
  assert (S' : em*((secs*G+nanos)*(P1*P2))*(em*P) <= e*((Ms*P2+Mq*P1)*G)*(em*P)) by (apply N.mul_le_mono_r; exact S).
  replace (e*e*(M*G)*(P1*P2)) with (e*(M*(P1*P2))*(e*G)) by ring.
  replace (em*em*((secs*G+nanos)*P)*(P1*P2)) with (em*((secs*G+nanos)*(P1*P2))*(em*P)) by ring.
  replace (em*((Ms*P2+Mq*P1)*P)*(e*G)) with (e*((Ms*P2+Mq*P1)*G)*(em*P)) in C' by ring.
  lia.
Qed.

Definition G9 : N := 1000000000.

(* |as_secs_f64 d - d| <= d * (2/2^53 + 1/2^106), in products: value = M / 2^K, d = T / 10^9 *)
Lemma as_secs_f64_err secs nanos :
  let x := as_secs_f64 secs nanos in
  let T := secs * G9 + nanos in
  E53 * E53 * (fst x * G9) <= (E53 + 1) * (E53 + 1) * (T * 2 ^ snd x) /\
  (E53 - 1) * (E53 - 1) * (T * 2 ^ snd x) <= E53 * E53 * (fst x * G9).
Proof.
  cbv zeta. unfold as_secs_f64. change NANOS_PER_SEC with G9.
  destruct (rn53_err secs 1 ltac:(lia)) as [S1 S2].
  destruct (rn53_err nanos G9 ltac:(reflexivity)) as [Q1 Q2].
  remember (rn53 secs 1) as s. remember (rn53 nanos G9) as q.
  destruct s as [Ms Ks]. destruct q as [Mq Kq]. cbn [fst snd] in *.
  rewrite N.mul_1_r in S1, S2.
  assert (P1 : 0 < 2 ^ Ks) by (pose proof (N.pow_nonzero 2 Ks ltac:(lia)); lia).
  assert (P2 : 0 < 2 ^ Kq) by (pose proof (N.pow_nonzero 2 Kq ltac:(lia)); lia).
  assert (PC : 0 < 2 ^ (Ks + Kq)) by (pose proof (N.pow_nonzero 2 (Ks + Kq) ltac:(lia)); lia).
  destruct (rn53_err (Ms * 2 ^ Kq + Mq * 2 ^ Ks) (2 ^ (Ks + Kq)) PC) as [X1 X2].
  remember (rn53 (Ms * 2 ^ Kq + Mq * 2 ^ Ks) (2 ^ (Ks + Kq))) as x. destruct x as [M K]. cbn [fst snd] in *.
  rewrite N.pow_add_r in X1, X2.
  split.
  - apply (compose_upper E53 (E53 + 1) G9 Ms Mq M (2 ^ Ks) (2 ^ Kq) (2 ^ K) secs nanos); assumption.
  - apply (compose_lower E53 (E53 - 1) G9 Ms Mq M (2 ^ Ks) (2 ^ Kq) (2 ^ K) secs nanos); assumption.
Qed.

(* the rendered text reads back as the millisecond count it was made from *)
Lemma pad3_spec r : r < 1000 ->
  forallb is_digit (pad3 r) = true /\ dec_value (pad3 r) = r /\ length (pad3 r) = 3%nat.
Proof.
  intros H. unfold pad3, dec_value. cbn [dec_acc forallb length].
  pose proof (N.div_mod r 100 ltac:(lia)). pose proof (N.mod_upper_bound r 100 ltac:(lia)).
  pose proof (N.div_mod r 10 ltac:(lia)). pose proof (N.mod_upper_bound r 10 ltac:(lia)).
  pose proof (N.div_mod (r / 10) 10 ltac:(lia)). pose proof (N.mod_upper_bound (r / 10) 10 ltac:(lia)).
  assert (r / 100 = r / 10 / 10) by (rewrite N.div_div by lia; reflexivity).
  assert (r / 100 < 10) by (apply N.div_lt_upper_bound; lia).
  remember (r / 100) as a. remember (r / 10) as t. remember (t mod 10) as m. remember (r mod 10) as c.
  unfold is_digit, in_range, digit_val. repeat split; lia.
Qed.

Lemma denote_time_render ms :
  denote_time_ms (render_dec (ms / 1000) ++ [46] ++ pad3 (ms mod 1000)) = Some ms.
Proof.
  pose proof (N.mod_upper_bound ms 1000 ltac:(lia)) as R.
  destruct (pad3_spec (ms mod 1000) R) as (D & V & L).
  unfold denote_time_ms. cbn [app].
  rewrite split_on_app by (apply render_dec_no; reflexivity).
  rewrite split_on_no_sep by (apply digits_no; [exact D | reflexivity]).
  rewrite all_digits_render_dec, dec_value_render_dec, V, L.
  unfold all_digits. rewrite D. cbn [pad3 beq negb andb Nat.eqb].
  pose proof (N.div_mod ms 1000 ltac:(lia)). f_equal. lia.
Qed.

Definition dur_in_domain (secs nanos : N) : Prop := secs < 2 ^ 64 /\ nanos < G9.

(* Duration's Argument impl: the text is a millisecond count within half a millisecond of the exact
   value, plus the relative precision of the double it passes through *)
Theorem duration_close secs nanos : dur_in_domain secs nanos ->
  exists ms, denote_time_ms (render_duration secs nanos) = Some ms /\ time_close secs nanos ms = true.
Proof.
  intros [Hs Hn]. unfold render_duration, fmt3.
  destruct (as_secs_f64_err secs nanos) as [U L]. cbv zeta in U, L.
  remember (as_secs_f64 secs nanos) as x. destruct x as [M K]. cbn [fst snd] in *.
  assert (HP : 0 < 2 ^ K) by (pose proof (N.pow_nonzero 2 K ltac:(lia)); lia).
  destruct (div_rne_spec (M * 1000) (2 ^ K) HP) as [R1 R2].
  remember (div_rne (M * 1000) (2 ^ K)) as ms.
  exists ms. split; [apply denote_time_render|].
  unfold time_close, time_tolerance_ns. change 1000000000 with G9.
  remember (secs * G9 + nanos) as T.
  assert (HT : T < 2 ^ 94) by (subst T; unfold G9 in *; lia).
  pose proof (N.div_mod T (2 ^ 52) ltac:(lia)) as DF. pose proof (N.mod_upper_bound T (2 ^ 52) ltac:(lia)) as RF.
  remember (T / 2 ^ 52) as F. remember (T mod 2 ^ 52) as rF.
  remember (2 ^ K) as P.
  (* (2e+1) T <= e^2 (F+2), scaled by P *)
  assert (L1 : (2 * E53 + 1) * (T * P) <= E53 * E53 * ((F + 2) * P)).
  { replace ((2 * E53 + 1) * (T * P)) with ((2 * E53 + 1) * T * P) by ring.
    replace (E53 * E53 * ((F + 2) * P)) with (E53 * E53 * (F + 2) * P) by ring.
    apply N.mul_le_mono_r. unfold E53. lia. }
  assert (C : forall a c, a * (E53 * E53 * P) <= c * (E53 * E53 * P) -> a <= c).
  { intros a c H. apply (N.mul_le_mono_pos_r a c (E53 * E53 * P)); [|exact H].
    apply N.mul_pos_pos; [reflexivity | exact HP]. }
  remember (ms * P) as msP. remember (T * P) as TP.
  assert (FP : (F + 2) * P = F * P + 2 * P) by ring. remember (F * P) as FP'.
  apply andb_true_iff. split; apply N.leb_le; apply C.
  - replace (ms * 1000000 * (E53 * E53 * P)) with (1000000 * (E53 * E53) * msP) by (subst msP; ring).
    replace ((T + (500000 + F + 2)) * (E53 * E53 * P)) with (E53 * E53 * TP + E53 * E53 * (500000 * P) + E53 * E53 * ((F + 2) * P))
      by (subst TP; ring).
    unfold E53, G9 in *. lia.
  - replace ((ms * 1000000 + (500000 + F + 2)) * (E53 * E53 * P))
      with (1000000 * (E53 * E53) * msP + E53 * E53 * (500000 * P) + E53 * E53 * ((F + 2) * P)) by (subst msP; ring).
    replace (T * (E53 * E53 * P)) with (E53 * E53 * TP) by (subst TP; ring).
    unfold E53, G9 in *. lia.
Qed.

Lemma sat_time secs nanos : dur_in_domain secs nanos -> sat (MTime secs nanos) (render_duration secs nanos).
Proof.
  intros H. destruct (duration_close secs nanos H) as (ms & E & C). cbn [sat satb]. rewrite E. exact C.
Qed.

Lemma sat_seek_time m secs nanos : dur_in_domain secs nanos ->
  sat (MSeekTime m secs nanos)
      (match m with
       | SeekAbsolute => render_duration secs nanos
       | SeekForward => [43] ++ render_duration secs nanos
       | SeekBackward => [45] ++ render_duration secs nanos
       end).
Proof.
  intros H. destruct (duration_close secs nanos H) as (ms & E & C).
  destruct m; cbn [sat satb app]; rewrite E; exact C.
Qed.

(* parameters the three time-taking commands are stated for: values a Duration can hold *)
Definition params_in_domain (x : predef) : Prop :=
  match x with
  | PSeekTo _ secs nanos | PSeek _ secs nanos => dur_in_domain secs nanos
  | _ => True
  end.

Lemma sat_groups l :
  Forall2 sat (flat_map (fun g => [kw "group"; MTag g]) l)
              (map arg_token (flat_map (fun g => [AStr (b "group"); tag_arg g]) l)).
Proof.
  induction l as [|g l IH]; cbn [flat_map map app]; [constructor|].
  constructor; [apply sat_keyword|]. constructor; [apply sat_tag | exact IH].
Qed.

Lemma sat_tags l : Forall2 sat (map MTag l) (map arg_token (map tag_arg l)).
Proof. induction l as [|g l IH]; cbn [map]; constructor; [apply sat_tag | exact IH]. Qed.

Ltac sat1 :=
  first [ apply sat_string | apply sat_keyword | apply sat_tag | apply sat_filter | apply sat_number
        | apply sat_bool | apply sat_positions | apply sat_position | apply sat_relative | apply sat_volume ].
Ltac sat_all :=
  cbn [map arg_token app opt_args opt fst snd option_map range_of positions];
  repeat (apply Forall2_cons; [sat1|]); try apply Forall2_nil.

(* (d) for every constructor path: the command word is the documented one and every argument, in
   the documented position, carries the documented meaning of the Rust value; the constructor
   panics exactly where that is documented *)
Theorem model_meets_spec x : params_in_domain x ->
  match model x, spec x with
  | None, None => True
  | Some (w, args), Some (w', ms) => w = w' /\ Forall2 sat ms (map arg_token args)
  | _, _ => False
  end.
Proof.
  intros Hd. destruct x; cbn [model spec]; try exact I;
    try (split; [reflexivity | sat_all; fail]).
  all: try (destruct s; cbn [queue_range_command play_command song_word fst snd]; split; try reflexivity; sat_all; fail).
  - (* SetSingle *) destruct m; split; try reflexivity; constructor; try constructor; reflexivity.
  - destruct m; split; try reflexivity; constructor; try constructor; reflexivity.
  - (* SeekTo *) destruct s; cbn [seek_to_command song_word fst snd]; split; try reflexivity;
      (constructor; [apply sat_number | constructor; [apply sat_time; exact Hd | constructor]]).
  - (* Seek *) split; [reflexivity|]. constructor; [|constructor]. apply (sat_seek_time m secs nanos Hd).
  - (* Add *) destruct pos; split; try reflexivity; sat_all.
  - (* Move *) destruct from as [id|p|lo hi]; [| | destruct hi]; try exact I; split; try reflexivity; sat_all.
  - (* Find *) destruct sort, window; split; try reflexivity; sat_all.
  - (* List *) split; [reflexivity|]. unfold list_command. cbn [snd map arg_token tag_arg].
    constructor; [apply sat_tag|]. rewrite map_app. apply Forall2_app; [|apply sat_groups].
    destruct f; sat_all.
  - (* CountGrouped *) destruct f; split; try reflexivity; sat_all.
  - (* Load *) destruct r; split; try reflexivity; sat_all.
  - (* AddToPlaylist *) destruct pos; split; try reflexivity; sat_all.
  - (* ListAllIn.directory *) destruct d; split; try reflexivity; sat_all.
  - (* TagTypes.disable *) destruct l as [|t l]; [exact I|]. split; [reflexivity|].
    cbn [tag_types_command snd map arg_token]. constructor; [apply sat_keyword|]. apply (sat_tags (t :: l)).
  - destruct l as [|t l]; [exact I|]. split; [reflexivity|].
    cbn [tag_types_command snd map arg_token]. constructor; [apply sat_keyword|]. apply (sat_tags (t :: l)).
  - (* StickerFind *) destruct flt as [[o v]|]; [destruct o|]; split; try reflexivity; sat_all.
  - destruct uri; split; try reflexivity; sat_all.
  - destruct uri; split; try reflexivity; sat_all.
Qed.
