(* BuilderModel.v — mpd_protocol/src/response/mod.rs: ResponseBuilder / Response. *)
From MPD Require Import Bytes Tables ParserModel.
Open Scope N_scope.

Record frame := mkFrame { f_fields : list (bytes * bytes); f_binary : option bytes }.
Definition empty_frame : frame := mkFrame [] None.

Record err := mkErr { e_code : N; e_index : N; e_command : option bytes; e_message : bytes }.
Record response := mkResp { r_frames : list frame; r_error : option err }.

Inductive bstate :=
  | Initial
  | InProgress (current : frame)
  | ListInProgress (current : frame) (completed : list frame).

Definition push_field (f : frame) (k v : bytes) : frame := mkFrame (f_fields f ++ [(k, v)]) (f_binary f).
Definition set_binary (f : frame) (d : bytes) : frame := mkFrame (f_fields f) (Some d).

Definition b_field (st : bstate) (k v : bytes) : bstate :=
  match st with
  | Initial => InProgress (push_field empty_frame k v)
  | InProgress cur => InProgress (push_field cur k v)
  | ListInProgress cur done => ListInProgress (push_field cur k v) done
  end.

Definition b_binary (st : bstate) (d : bytes) : bstate :=
  match st with
  | Initial => InProgress (set_binary empty_frame d)
  | InProgress cur => InProgress (set_binary cur d)
  | ListInProgress cur done => ListInProgress (set_binary cur d) done
  end.

Definition b_finish_frame (st : bstate) : bstate :=
  match st with
  | Initial => ListInProgress empty_frame [empty_frame]
  | InProgress cur => ListInProgress empty_frame [cur]
  | ListInProgress cur done => ListInProgress empty_frame (done ++ [cur])
  end.

Definition b_finish (st : bstate) : response :=
  match st with
  | Initial => mkResp [empty_frame] None
  | InProgress cur => mkResp [cur] None
  | ListInProgress _ done => mkResp done None
  end.

Definition b_error (st : bstate) (e : err) : response :=
  match st with
  | Initial | InProgress _ => mkResp [] (Some e)
  | ListInProgress _ done => mkResp done (Some e)
  end.

Definition in_progress (st : bstate) : bool := match st with Initial => false | _ => true end.

Inductive bres := Complete (r : response) | NeedMore | BInvalid.

(* ResponseBuilder::parse: consume whole components while the buffer is non-empty.
   Returns the builder state, the bytes left in the buffer and the verdict. *)
Fixpoint bparse (fuel : nat) (st : bstate) (buf : bytes) : bstate * bytes * bres :=
  match buf with
  | [] => (st, buf, NeedMore)
  | _ =>
    match fuel with
    | O => (st, buf, NeedMore)   (* not reached: every component consumes at least one byte *)
    | S f =>
      match parse_component buf with
      | RIncomplete => (st, buf, NeedMore)
      | RError | RFailure => (st, buf, BInvalid)
      | ROk n c =>
        let msg := firstn n buf in
        let rest := skipn n buf in
        match c with
        | CField k v => bparse f (b_field st k v) rest
        | CBinary len => bparse f (b_binary st (firstn len (skipn (n - (len + 1)) msg))) rest
        | CError code idx cmd m => (Initial, rest, Complete (b_error st (mkErr code idx cmd m)))
        | EndOfFrame => bparse f (b_finish_frame st) rest
        | EndOfResponse => (Initial, rest, Complete (b_finish st))
        end
      end
    end
  end.

Definition bparse_all (st : bstate) (buf : bytes) : bstate * bytes * bres :=
  bparse (S (length buf)) st buf.
