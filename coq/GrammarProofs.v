(* GrammarProofs.v — evaluation lemmas for the combinators on concrete shapes; classification of
   the greeting (C18); the clean-EOF rule (C10). *)
From Coq Require Import ZifyBool ZifyN ZifyNat PeanoNat.
From MPD Require Import Bytes Tables ParserModel BuilderModel ConnModel ParserProofs ConnProofs.
Open Scope N_scope.

(* ---------- evaluating primitives ---------- *)

Lemma tag_exact t r : p_tag t (t ++ r) = ROk (length t) tt.
Proof. induction t as [|c t IH]; simpl; [reflexivity|]. rewrite N.eqb_refl, IH. reflexivity. Qed.

Lemma tag_prefix_incomplete t p : is_prefix p t = true -> p <> t -> p_tag t p = RIncomplete.
Proof.
  revert p; induction t as [|c t IH]; intros p H N.
  - destruct p; [congruence | discriminate].
  - destruct p as [|d p]; [reflexivity|]. simpl in *. apply andb_true_iff in H as [H1 H2].
    apply N.eqb_eq in H1. subst d. rewrite N.eqb_refl. rewrite IH; [reflexivity | exact H2 | congruence].
Qed.

(* streams that are neither an extension nor a prefix of the tag are rejected at once *)
Lemma tag_error t i : is_prefix t i = false -> is_prefix i t = false -> p_tag t i = RError.
Proof.
  revert i; induction t as [|c t IH]; intros i H1 H2; [discriminate|].
  destruct i as [|d i]; [discriminate|]. simpl in *.
  destruct (c =? d) eqn:E.
  - apply N.eqb_eq in E. subst d. rewrite N.eqb_refl in H2. simpl in *. rewrite IH; auto.
  - reflexivity.
Qed.

Lemma span_len_all p s : forallb p s = true -> forall c r, p c = false -> span_len p (s ++ c :: r) = Some (length s).
Proof.
  induction s as [|x s IH]; simpl; intros H c r Hc; [rewrite Hc; reflexivity|].
  apply andb_true_iff in H as [H1 H2]. rewrite H1, (IH H2 c r Hc). reflexivity.
Qed.

Lemma span_len_none p s : forallb p s = true -> span_len p s = None.
Proof.
  induction s as [|x s IH]; simpl; intros H; [reflexivity|].
  apply andb_true_iff in H as [H1 H2]. rewrite H1, (IH H2). reflexivity.
Qed.

Lemma firstn_app_exact {A} (s r : list A) : firstn (length s) (s ++ r) = s.
Proof. rewrite firstn_app, Nat.sub_diag, firstn_all. simpl. apply app_nil_r. Qed.

Lemma skipn_app_exact {A} (s r : list A) : skipn (length s) (s ++ r) = r.
Proof. rewrite skipn_app, Nat.sub_diag, skipn_all. reflexivity. Qed.

Lemma take_while1_exact p s c r :
  s <> [] -> forallb p s = true -> p c = false -> p_take_while1 p (s ++ c :: r) = ROk (length s) s.
Proof.
  intros N H Hc. unfold p_take_while1. rewrite (span_len_all p s H c r Hc).
  destruct s as [|x s']; [congruence|]. cbn [length]. rewrite <- (firstn_app_exact (x :: s') (c :: r)) at 2. reflexivity.
Qed.

Lemma take_while1_empty p c r : p c = false -> p_take_while1 p (c :: r) = RError.
Proof. intros H. unfold p_take_while1. simpl. rewrite H. reflexivity. Qed.

Lemma take_while1_incomplete p s : forallb p s = true -> p_take_while1 p s = RIncomplete.
Proof. intros H. unfold p_take_while1. rewrite (span_len_none p s H). reflexivity. Qed.

(* ---------- the greeting (C18) ---------- *)

Definition GP : bytes := b "OK MPD ".
Definition no_lf_b (v : bytes) : bool := forallb (fun c => negb (c =? LF)) v.

Lemma greeting_valid v rest :
  v <> [] -> no_lf_b v = true -> utf8_valid v = true ->
  p_greeting (GP ++ v ++ LF :: rest) = ROk (length GP + length v + 1) v.
Proof.
  intros N L U. unfold p_greeting, p_bind at 1. fold GP. rewrite tag_exact, skipn_app_exact.
  unfold p_bind at 1, p_map_res. rewrite (take_while1_exact _ v LF rest N L); [|rewrite N.eqb_refl; reflexivity].
  unfold utf8. rewrite U. rewrite skipn_app_exact.
  unfold p_bind, p_newline, p_char, p_ret. rewrite N.eqb_refl. simpl skipn. f_equal; try lia.
Qed.

Lemma greeting_bad_version v rest :
  no_lf_b v = true -> (v = [] \/ utf8_valid v = false) ->
  p_greeting (GP ++ v ++ LF :: rest) = RError.
Proof.
  intros L H. unfold p_greeting, p_bind at 1. fold GP. rewrite tag_exact, skipn_app_exact.
  unfold p_bind at 1, p_map_res.
  destruct v as [|x v'].
  - simpl app. rewrite take_while1_empty; [reflexivity | rewrite N.eqb_refl; reflexivity].
  - destruct H as [H|H]; [discriminate|].
    rewrite (take_while1_exact _ (x :: v') LF rest); [| discriminate | exact L | rewrite N.eqb_refl; reflexivity].
    unfold utf8. rewrite H. reflexivity.
Qed.

(* a stream that stops before the line feed of an otherwise possible greeting *)
Lemma greeting_incomplete_prefix p : is_prefix p GP = true -> p <> GP -> p_greeting p = RIncomplete.
Proof.
  intros H N. unfold p_greeting, p_bind at 1. fold GP. rewrite (tag_prefix_incomplete GP p H N). reflexivity.
Qed.

Lemma greeting_incomplete_version v : no_lf_b v = true -> p_greeting (GP ++ v) = RIncomplete.
Proof.
  intros L. unfold p_greeting, p_bind at 1. fold GP.
  rewrite <- (app_nil_r (GP ++ v)), <- app_assoc, tag_exact, skipn_app_exact, app_nil_r.
  unfold p_bind at 1, p_map_res. rewrite (take_while1_incomplete _ v L). reflexivity.
Qed.

Lemma greeting_wrong_prefix i : is_prefix GP i = false -> is_prefix i GP = false -> p_greeting i = RError.
Proof.
  intros H1 H2. unfold p_greeting, p_bind at 1. fold GP. rewrite (tag_error GP i H1 H2). reflexivity.
Qed.

(* ---------- the clean-EOF rule (C10) ---------- *)

Lemma b_field_not_initial st k v : b_field st k v <> Initial.
Proof. destruct st; discriminate. Qed.
Lemma b_binary_not_initial st d : b_binary st d <> Initial.
Proof. destruct st; discriminate. Qed.
Lemma b_finish_frame_not_initial st : b_finish_frame st <> Initial.
Proof. destruct st; discriminate. Qed.

Lemma needmore_keeps_progress : forall k buf st st' rest,
  (length buf <= k)%nat -> st <> Initial -> bparse_all st buf = (st', rest, NeedMore) -> st' <> Initial.
Proof.
  induction k as [|k IH]; intros buf st st' rest Hk Hs B.
  - destruct buf; [|simpl in Hk; lia]. rewrite bparse_all_unfold in B. inversion B; subst. exact Hs.
  - rewrite bparse_all_unfold in B. destruct buf as [|c buf']; [inversion B; subst; exact Hs|].
    set (buf := c :: buf') in *. rewrite bstep_nonempty in B by discriminate. unfold bstep_ne in B.
    destruct (parse_component buf) as [n comp| | |] eqn:E; try (inversion B; subst; assumption); try discriminate.
    destruct (parse_ok_stable buf n comp E) as [[L1 L2] _].
    assert (LS : (length (skipn n buf) <= k)%nat) by (rewrite skipn_length; lia).
    destruct comp; try discriminate.
    + eapply IH; [exact LS | apply b_finish_frame_not_initial | exact B].
    + eapply IH; [exact LS | apply b_field_not_initial | exact B].
    + eapply IH; [exact LS | apply b_binary_not_initial | exact B].
Qed.

Lemma needmore_initial_untouched buf rest :
  bparse_all Initial buf = (Initial, rest, NeedMore) -> rest = buf.
Proof.
  intros B. rewrite bparse_all_unfold in B. destruct buf as [|c buf']; [inversion B; reflexivity|].
  set (buf := c :: buf') in *. rewrite bstep_nonempty in B by discriminate. unfold bstep_ne in B.
  destruct (parse_component buf) as [n comp| | |] eqn:E; try (inversion B; subst; reflexivity); try discriminate.
  exfalso. destruct comp; try discriminate.
  - eapply (needmore_keeps_progress _ _ _ _ _ (le_n _) (b_finish_frame_not_initial Initial) B). reflexivity.
  - eapply (needmore_keeps_progress _ _ _ _ _ (le_n _) (b_field_not_initial Initial key value) B). reflexivity.
  - eapply (needmore_keeps_progress _ _ _ _ _ (le_n _) (b_binary_not_initial Initial _) B). reflexivity.
Qed.

(* end of stream is clean iff NOTHING follows the last complete response *)
Theorem clean_eof_iff all : fst (ref_from Initial all TEof) = CleanEof <-> all = [].
Proof.
  split.
  - unfold ref_from. destruct (bparse_all Initial all) as [[st' rest] [r| |]] eqn:B; simpl; try discriminate.
    destruct st'; simpl; try discriminate.
    destruct rest as [|x rest]; simpl; [|discriminate]. intros _.
    apply needmore_initial_untouched in B. congruence.
  - intros ->. reflexivity.
Qed.

(* and it is never clean when the stream fails instead of ending *)
Theorem eof_outcomes all :
  let o := fst (ref_from Initial all TEof) in
  (exists r, o = Resp r) \/ o = ErrInvalid \/ (o = CleanEof /\ all = []) \/ (o = ErrEof /\ all <> []).
Proof.
  simpl. pose proof (clean_eof_iff all) as C. unfold ref_from in *.
  destruct (bparse_all Initial all) as [[st' rest] [r| |]] eqn:B; simpl in *; eauto.
  destruct (in_progress st' || negb (beq rest [])) eqn:E.
  - right. right. right. split; [reflexivity|]. intros ->. destruct C as [_ C]. specialize (C eq_refl). discriminate.
  - right. right. left. split; [reflexivity|]. apply C. reflexivity.
Qed.
