(* CommandModel.v — mpd_protocol/src/command.rs: validation, escaping, argument rollback,
   command-list rendering.  Charsets, prefixes and framing literals come from Tables.v. *)
From MPD Require Import Bytes Tables.
Open Scope N_scope.

Inductive cmd_error := CmdEmpty | CmdInvalidChar (pos : nat) | CmdList.

Definition is_command_list_command (s : bytes) : bool := is_prefix command_list_prefix s.

Definition validate_command_part (s : bytes) : option cmd_error :=
  match s with
  | [] => Some CmdEmpty
  | c0 :: _ =>
    if negb (command_first_charset c0) then Some (CmdInvalidChar 0) else
    match index_of (fun c => negb (command_charset c)) s with
    | Some i => Some (CmdInvalidChar i)
    | None => if is_command_list_command s then Some CmdList else None
    end
  end.

Definition first_ok (s : bytes) : Prop :=
  match s with c :: _ => command_first_charset c = true | [] => False end.

(* Command::build: the command buffer is the name itself *)
Definition build (s : bytes) : cmd_error + bytes :=
  match validate_command_part s with
  | Some e => inl e
  | None => inr s
  end.

Definition validate_argument (r : bytes) : option nat := index_of argument_reject r.

(* Command::add_argument for an Argument impl whose render appends [r] (arbitrary bytes):
   result and the command buffer afterwards. *)
Definition add_argument_raw (c r : bytes) : option nat * bytes :=
  match validate_argument r with
  | Some i => (Some i, c)
  | None => (None, c ++ [SP] ++ r)
  end.

Definition needs_quotes (s : bytes) : bool :=
  existsb quote_trigger s || (quote_when_empty && match s with [] => true | _ => false end).

Definition escape_body (s : bytes) : bytes :=
  flat_map (fun c => if should_escape c then [BS; c] else [c]) s.

Definition escape_argument (s : bytes) : bytes :=
  if needs_quotes s then [DQ] ++ escape_body s ++ [DQ] else escape_body s.

(* the three string Argument impls (str, String, Cow) all render escape_argument *)
Definition add_str (c s : bytes) : option nat * bytes := add_argument_raw c (escape_argument s).

Fixpoint add_all_str (c : bytes) (args : list bytes) : option bytes :=
  match args with
  | [] => Some c
  | a :: r => match add_str c a with
              | (None, c') => add_all_str c' r
              | (Some _, _) => None
              end
  end.

(* Connection::send *)
Definition send_bytes (c : bytes) : bytes := c ++ [LF].

(* CommandList::render *)
Definition render_list (cmds : list bytes) : bytes :=
  match cmds with
  | [c] => c ++ [LF]
  | _ => command_list_begin ++ flat_map (fun c => c ++ [LF]) cmds ++ command_list_end
  end.

(* the LF-terminated lines of a byte string *)
Definition lines (s : bytes) : list bytes := removelast (split_on LF s).
