(* ParserModel.v — mpd_protocol/src/parser.rs, written with the same nom 7 *streaming* combinators
   the source uses (semantics read off nom 7.1.3, DESIGN.md appendix A).  A parser maps the
   unconsumed bytes to: ROk n v (n bytes consumed), RIncomplete (need more bytes), RError
   (recoverable, [alt] tries the next branch) or RFailure ([cut]).  The connection maps RIncomplete
   to "read more" and RError/RFailure to InvalidMessage. *)
From MPD Require Import Bytes Tables.
Open Scope N_scope.

Inductive res (A : Type) : Type :=
  | ROk (n : nat) (v : A)
  | RIncomplete
  | RError
  | RFailure.
Arguments ROk {A} n v.
Arguments RIncomplete {A}.
Arguments RError {A}.
Arguments RFailure {A}.

Definition parser (A : Type) := bytes -> res A.

(* ---------- combinators ---------- *)

Fixpoint p_tag (t : bytes) : parser unit := fun i =>
  match t with
  | [] => ROk 0 tt
  | a :: t' =>
    match i with
    | [] => RIncomplete
    | c :: i' =>
      if a =? c then
        match p_tag t' i' with
        | ROk n v => ROk (S n) v
        | RIncomplete => RIncomplete
        | RError => RError
        | RFailure => RFailure
        end
      else RError
    end
  end.

(* position of the first byte NOT satisfying p *)
Fixpoint span_len (p : N -> bool) (i : bytes) : option nat :=
  match i with
  | [] => None
  | c :: r => if p c then option_map S (span_len p r) else Some O
  end.

Definition p_take_while (p : N -> bool) : parser bytes := fun i =>
  match span_len p i with
  | None => RIncomplete
  | Some n => ROk n (firstn n i)
  end.

Definition p_take_while1 (p : N -> bool) : parser bytes := fun i =>
  match span_len p i with
  | None => RIncomplete
  | Some O => RError
  | Some n => ROk n (firstn n i)
  end.

Definition p_take (n : N) : parser bytes := fun i =>
  if N.of_nat (length i) <? n then RIncomplete
  else ROk (N.to_nat n) (firstn (N.to_nat n) i).

Definition p_char (c : N) : parser unit := fun i =>
  match i with
  | [] => RIncomplete
  | x :: _ => if x =? c then ROk 1 tt else RError
  end.

Definition p_bind {A B} (p : parser A) (f : A -> parser B) : parser B := fun i =>
  match p i with
  | ROk n v =>
    match f v (skipn n i) with
    | ROk m w => ROk (n + m) w
    | RIncomplete => RIncomplete
    | RError => RError
    | RFailure => RFailure
    end
  | RIncomplete => RIncomplete
  | RError => RError
  | RFailure => RFailure
  end.

Definition p_ret {A} (v : A) : parser A := fun _ => ROk 0 v.

Definition p_map_res {A B} (p : parser A) (f : A -> option B) : parser B := fun i =>
  match p i with
  | ROk n v => match f v with Some w => ROk n w | None => RError end
  | RIncomplete => RIncomplete
  | RError => RError
  | RFailure => RFailure
  end.

Definition p_map {A B} (p : parser A) (f : A -> B) : parser B :=
  p_map_res p (fun v => Some (f v)).

Definition p_opt {A} (p : parser A) : parser (option A) := fun i =>
  match p i with
  | ROk n v => ROk n (Some v)
  | RError => ROk 0 None
  | RIncomplete => RIncomplete
  | RFailure => RFailure
  end.

Definition p_cut {A} (p : parser A) : parser A := fun i =>
  match p i with
  | RError => RFailure
  | r => r
  end.

Definition p_alt {A} (p q : parser A) : parser A := fun i =>
  match p i with
  | RError => q i
  | r => r
  end.

Notation "x <- p ;; q" := (p_bind p (fun x => q)) (at level 61, p at next level, right associativity).
Notation "p ;;; q" := (p_bind p (fun _ => q)) (at level 61, right associativity).

Definition utf8 (s : bytes) : option bytes := if utf8_valid s then Some s else None.

(* ---------- the grammar of parser.rs ---------- *)

Definition p_newline : parser unit := p_char LF.

(* map_res(map_res(digit1, from_utf8), str::parse::<uN>) *)
Definition p_number (bits : N) : parser N := p_map_res (p_take_while1 is_digit) (parse_digits bits).

(* greeting: delimited(tag("OK MPD "), map_res(take_while1(|c| c != b'\n'), from_utf8), newline) *)
Definition p_greeting : parser bytes :=
  p_tag (b "OK MPD ") ;;;
  v <- p_map_res (p_take_while1 (fun c => negb (c =? LF))) utf8 ;;
  p_newline ;;; p_ret v.

Inductive component :=
  | EndOfFrame
  | EndOfResponse
  | CError (code index : N) (command : option bytes) (message : bytes)
  | CField (key value : bytes)
  | CBinary (data_length : nat).

(* error_code_and_index *)
Definition p_code_and_index : parser (N * N) :=
  p_char 91 ;;; code <- p_number 64 ;; p_char 64 ;;; idx <- p_number 64 ;; p_char 93 ;;; p_ret (code, idx).

(* error_current_command *)
Definition p_current_command : parser (option bytes) :=
  p_char 123 ;;;
  c <- p_opt (p_map_res (p_take_while1 parser_command_charset) utf8) ;;
  p_char 125 ;;; p_ret c.

Definition p_error : parser component :=
  p_tag (b "ACK ") ;;;
  ci <- p_code_and_index ;; p_char SP ;;;
  cmd <- p_current_command ;; p_char SP ;;;
  msg <- p_map_res (p_take_while (fun c => negb (c =? LF))) utf8 ;;
  p_newline ;;; p_ret (CError (fst ci) (snd ci) cmd msg).

(* field_value: take_until("\n") then skip the line feed *)
Definition p_field_value : parser bytes :=
  v <- p_take_while (fun c => negb (c =? LF)) ;; p_char LF ;;; p_ret v.

Definition p_key_value : parser component :=
  k <- p_map_res (p_take_while1 parser_key_charset) utf8 ;;
  p_tag (b ": ") ;;;
  v <- p_map_res p_field_value utf8 ;;
  p_ret (CField k v).

Definition p_binary_prefix : parser N :=
  p_tag (b "binary: ") ;;; n <- p_number 64 ;; p_newline ;;; p_ret n.

Definition p_binary : parser component :=
  len <- p_binary_prefix ;;
  p_cut (d <- p_take len ;; p_newline ;;; p_ret (CBinary (length d))).

Definition parse_component : parser component :=
  p_alt (p_map (p_tag (b "OK" ++ [LF])) (fun _ => EndOfResponse))
 (p_alt (p_map (p_tag (b "list_OK" ++ [LF])) (fun _ => EndOfFrame))
 (p_alt p_error
 (p_alt p_binary
        p_key_value))).
