(* SongModel.v — executable model of mpd_client/src/responses/song.rs AS IT IS NOW:
   SongBuilder (field / handle_start_field / handle_song_field / finish / into_song),
   Song::from_frame_multi, SongInQueue::from_frame_multi / from_frame_single, SongRange::from_value,
   the FromFieldValue impls it uses (responses/mod.rs: parse_duration, integers; timestamp.rs) and the
   helper accessors of Song.  Every Rust panic site is an explicit [Panic] outcome:
     - [Tag::try_from(tag).unwrap()] in handle_song_field,
     - [assert!(!self.url.is_empty())] in into_song.
   The sets of keys (is_start_field, the url key, the keys skipped while idle) come from Tables.v,
   regenerated from the source on every run.  usize is 64 bits.  No proofs in this file. *)
From MPD Require Import Bytes Tables TagModel SongStd.
Open Scope N_scope.

Inductive ekind :=
  | EMissing (field : bytes)
  | EUnexpected (expected found : bytes)
  | EInvalid (field value : bytes)
  | EOther.

Inductive result (A : Type) := Ok (x : A) | Err (e : ekind) | Panic.
Arguments Ok {A} x.
Arguments Err {A} e.
Arguments Panic {A}.

Definition bind {A B} (r : result A) (f : A -> result B) : result B :=
  match r with Ok x => f x | Err e => Err e | Panic => Panic end.
Notation "x <- r ;; k" := (bind r (fun x => k)) (at level 61, r at next level, right associativity).

(* ---------- FromFieldValue ---------- *)
(* Duration::from_value = parse_duration: str::parse::<f64> then Duration::try_from_secs_f64 *)
Definition dur_from_value (v field : bytes) : result dur :=
  match std_duration v with DurOk d => Ok d | DurErr => Err (EInvalid field v) end.

(* parse_integer::<uN> *)
Definition int_from_value (bits : N) (v field : bytes) : result N :=
  match parse_uint bits v with Some n => Ok n | None => Err (EInvalid field v) end.

(* SongRange::from_value: "<start>-<end?>", split at the FIRST '-'; the error of a bad half carries
   that half, the error of a missing '-' the whole value *)
Definition range_from_value (v field : bytes) : result srange :=
  match split_once 45 v with
  | None => Err (EInvalid field v)
  | Some (f, t) =>
    df <- dur_from_value f field ;;
    match t with
    | [] => Ok (df, None)
    | _ => dt <- dur_from_value t field ;; Ok (df, Some dt)
    end
  end.

(* Timestamp::from_value, both cfgs *)
Definition ts_from_value (chrono : bool) (v field : bytes) : result ts :=
  match std_timestamp chrono v with Some t => Ok t | None => Err (EInvalid field v) end.

(* ---------- HashMap<Tag, Vec<String>>: entry(tag).or_default().push(value) ---------- *)
Fixpoint tm_push (m : tagmap) (t : tag) (v : bytes) : tagmap :=
  match m with
  | [] => [(t, [v])]
  | (u, vs) :: r => if tag_eq u t then (u, vs ++ [v]) :: r else (u, vs) :: tm_push r t v
  end.

Fixpoint tm_get (m : tagmap) (t : tag) : list bytes :=
  match m with
  | [] => []
  | (u, vs) :: r => if tag_eq u t then vs else tm_get r t
  end.

(* ---------- SongBuilder ---------- *)
Record builder := mkB {
  b_url : bytes; b_pos : N; b_id : N; b_range : option srange; b_prio : N;
  b_dur : option dur; b_tags : tagmap; b_format : option bytes; b_lm : option ts }.

Definition b_default : builder := mkB [] 0 0 None 0 None [] None None.

Definition set_url (x : builder) v := mkB v (b_pos x) (b_id x) (b_range x) (b_prio x) (b_dur x) (b_tags x) (b_format x) (b_lm x).
Definition set_pos (x : builder) v := mkB (b_url x) v (b_id x) (b_range x) (b_prio x) (b_dur x) (b_tags x) (b_format x) (b_lm x).
Definition set_id (x : builder) v := mkB (b_url x) (b_pos x) v (b_range x) (b_prio x) (b_dur x) (b_tags x) (b_format x) (b_lm x).
Definition set_range (x : builder) v := mkB (b_url x) (b_pos x) (b_id x) v (b_prio x) (b_dur x) (b_tags x) (b_format x) (b_lm x).
Definition set_prio (x : builder) v := mkB (b_url x) (b_pos x) (b_id x) (b_range x) v (b_dur x) (b_tags x) (b_format x) (b_lm x).
Definition set_dur (x : builder) v := mkB (b_url x) (b_pos x) (b_id x) (b_range x) (b_prio x) v (b_tags x) (b_format x) (b_lm x).
Definition set_tags (x : builder) v := mkB (b_url x) (b_pos x) (b_id x) (b_range x) (b_prio x) (b_dur x) v (b_format x) (b_lm x).
Definition set_format (x : builder) v := mkB (b_url x) (b_pos x) (b_id x) (b_range x) (b_prio x) (b_dur x) (b_tags x) v (b_lm x).
Definition set_lm (x : builder) v := mkB (b_url x) (b_pos x) (b_id x) (b_range x) (b_prio x) (b_dur x) (b_tags x) (b_format x) v.

Definition is_empty (s : bytes) : bool := match s with [] => true | _ => false end.

(* is_start_field *)
Definition is_start_field (k : bytes) : bool := existsb (beq k) start_fields.

(* into_song: assert!(!self.url.is_empty()) *)
Definition into_song (x : builder) : result qsong :=
  if is_empty (b_url x) then Panic
  else Ok (mkQ (b_pos x) (b_id x) (b_range x) (b_prio x)
               (mkSong (b_url x) (b_dur x) (b_tags x) (b_format x) (b_lm x))).

(* handle_start_field: "file" => url = value; "directory" | "playlist" | "Last-Modified" => ();
   other => Err(unexpected_field("file", other)) *)
Definition handle_start_field (x : builder) (k v : bytes) : result builder :=
  if beq k song_url_key then Ok (set_url x v)
  else if existsb (beq k) start_skip_fields then Ok x
  else Err (EUnexpected start_expected_name k).

Definition handle_song_field (chrono : bool) (x : builder) (k v : bytes) : result (option qsong * builder) :=
  if is_start_field k then
    (* mem::take(self).into_song(); then the field is handled by the fresh builder *)
    s <- into_song x ;;
    x' <- handle_start_field b_default k v ;;
    Ok (Some s, x')
  else if beq k (b "duration") then
    d <- dur_from_value v (b "duration") ;; Ok (None, set_dur x (Some d))
  else if beq k (b "Time") then
    match b_dur x with
    | None => d <- dur_from_value v (b "Time") ;; Ok (None, set_dur x (Some d))
    | Some _ => Ok (None, x)          (* not even parsed *)
    end
  else if beq k (b "Range") then
    r <- range_from_value v (b "Range") ;; Ok (None, set_range x (Some r))
  else if beq k (b "Format") then Ok (None, set_format x (Some v))
  else if beq k (b "Last-Modified") then
    t <- ts_from_value chrono v (b "Last-Modified") ;; Ok (None, set_lm x (Some t))
  else if beq k (b "Prio") then
    n <- int_from_value 8 v (b "Prio") ;; Ok (None, set_prio x n)
  else if beq k (b "Pos") then
    n <- int_from_value 64 v (b "Pos") ;; Ok (None, set_pos x n)
  else if beq k (b "Id") then
    n <- int_from_value 64 v (b "Id") ;; Ok (None, set_id x n)
  else
    match tag_try_from k with
    | TagOk t => Ok (None, set_tags x (tm_push (b_tags x) t v))
    | _ => Panic                                  (* Tag::try_from(tag).unwrap() *)
    end.

(* SongBuilder::field *)
Definition field (chrono : bool) (x : builder) (k v : bytes) : result (option qsong * builder) :=
  if is_empty (b_url x) then
    x' <- handle_start_field x k v ;; Ok (None, x')
  else handle_song_field chrono x k v.

(* SongBuilder::finish *)
Definition finish (x : builder) : result (option qsong) :=
  if is_empty (b_url x) then Ok None else s <- into_song x ;; Ok (Some s).

Definition olist {A} (o : option A) : list A := match o with Some x => [x] | None => [] end.

(* the loop of from_frame_multi from a given builder state: completed songs in order *)
Fixpoint run (chrono : bool) (x : builder) (fs : list (bytes * bytes)) : result (list qsong) :=
  match fs with
  | [] => o <- finish x ;; Ok (olist o)
  | (k, v) :: r =>
    p <- field chrono x k v ;;
    l <- run chrono (snd p) r ;;
    Ok (olist (fst p) ++ l)
  end.

(* the loop of from_frame_single: completed songs are dropped, the builder's last song is returned *)
Fixpoint run_single (chrono : bool) (x : builder) (fs : list (bytes * bytes)) : result (option qsong) :=
  match fs with
  | [] => finish x
  | (k, v) :: r => p <- field chrono x k v ;; run_single chrono (snd p) r
  end.

(* SongInQueue::from_frame_multi / Song::from_frame_multi / SongInQueue::from_frame_single *)
Definition qsongs_model (chrono : bool) (fs : list (bytes * bytes)) : result (list qsong) :=
  run chrono b_default fs.
Definition songs_model (chrono : bool) (fs : list (bytes * bytes)) : result (list song) :=
  l <- run chrono b_default fs ;; Ok (map q_song l).
Definition single_model (chrono : bool) (fs : list (bytes * bytes)) : result (option qsong) :=
  run_single chrono b_default fs.

(* ---------- Song's helper accessors ---------- *)
Definition tag_values (s : song) (t : tag) : list bytes := tm_get (s_tags s) t.
Definition single_tag_value (s : song) (t : tag) : option bytes := hd_error (tag_values s t).
Definition song_artists (s : song) := tag_values s (Named T_Artist).
Definition song_album_artists (s : song) := tag_values s (Named T_AlbumArtist).
Definition song_album (s : song) := single_tag_value s (Named T_Album).
Definition song_title (s : song) := single_tag_value s (Named T_Title).
Definition num_or_zero (o : option bytes) : N :=
  match o with
  | Some v => match parse_uint 64 v with Some n => n | None => 0 end
  | None => 0
  end.
Definition song_number (s : song) : N * N :=
  (num_or_zero (single_tag_value s (Named T_Disc)), num_or_zero (single_tag_value s (Named T_Track))).
