(* TagSpec.v — spec side (trusted, from MPD's tag/Names.cxx, written from memory):
   the tag names MPD itself knows.  Every name the library attaches to a variant must be one. *)
From MPD Require Import Bytes Tables TagModel.

Definition mpd_tag_names : list bytes := map b [
  "Artist"; "ArtistSort"; "Album"; "AlbumSort"; "AlbumArtist"; "AlbumArtistSort";
  "Title"; "TitleSort"; "Track"; "Name"; "Genre"; "Mood"; "Date"; "OriginalDate";
  "Composer"; "ComposerSort"; "Performer"; "Conductor"; "Work"; "Ensemble"; "Movement";
  "MovementNumber"; "ShowMovement"; "Location"; "Grouping"; "Comment"; "Disc"; "Label";
  "MUSICBRAINZ_ARTISTID"; "MUSICBRAINZ_ALBUMID"; "MUSICBRAINZ_ALBUMARTISTID";
  "MUSICBRAINZ_TRACKID"; "MUSICBRAINZ_RELEASETRACKID"; "MUSICBRAINZ_WORKID";
  "MUSICBRAINZ_RELEASEGROUPID" ]%string.

(* idle subsystem names of the protocol reference *)
Definition mpd_subsystem_names : list bytes := map b [
  "database"; "update"; "stored_playlist"; "playlist"; "player"; "mixer"; "output"; "options";
  "partition"; "sticker"; "subscription"; "message"; "neighbor"; "mount" ]%string.

Definition names_are_mpd_names_b : bool :=
  forallb (fun v => existsb (beq (tag_name v)) mpd_tag_names) all_tagv.
Definition names_distinct_b : bool :=
  forallb (fun v => forallb (fun w => Nat.eqb (tagv_index v) (tagv_index w)
                                      || negb (eq_ignore_case (tag_name v) (tag_name w))) all_tagv) all_tagv.
Definition sub_names_are_mpd_names_b : bool :=
  forallb (fun v => existsb (beq (sub_name v)) mpd_subsystem_names) all_subv.
