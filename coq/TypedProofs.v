(* TypedProofs.v — lemmas for C12 (totality) and C16 (faithful decoding) about TypedModel. *)
From Coq Require Import ZArith ZifyBool ZifyN ZifyNat Permutation.
From MPD Require Import Bytes Tables BuilderModel FrameModel FrameProofs TagModel TagProofs TypedModel TypedSpec.
Open Scope N_scope.

(* ====================================================================================== *)
(* A. numerals: render_dec / parse_uint / span_digits                                      *)
(* ====================================================================================== *)

Lemma dec_acc_app a x y : dec_acc a (x ++ y) = dec_acc (dec_acc a x) y.
Proof. revert a; induction x as [|d x IH]; intros a; simpl; auto. Qed.

Lemma dec_acc_shift a x : dec_acc a x = a * 10 ^ N.of_nat (length x) + dec_acc 0 x.
Proof.
  revert a; induction x as [|d x IH]; intros a.
  - simpl. change (10 ^ N.of_nat 0) with 1. lia.
  - cbn [dec_acc length]. rewrite (IH (a * 10 + digit_val d)), (IH (0 * 10 + digit_val d)).
    rewrite Nat2N.inj_succ, N.pow_succ_r'. lia.
Qed.

Lemma dec_value_app x y : dec_value (x ++ y) = dec_value x * 10 ^ N.of_nat (length y) + dec_value y.
Proof. unfold dec_value. rewrite dec_acc_app, dec_acc_shift. reflexivity. Qed.

Lemma digit_of_mod n : is_digit (48 + n mod 10) = true /\ digit_val (48 + n mod 10) = n mod 10.
Proof.
  pose proof (N.mod_lt n 10 ltac:(lia)). unfold is_digit, in_range, digit_val. split; lia.
Qed.

Lemma rda_unfold f n acc :
  render_dec_aux (S f) n acc =
  if n / 10 =? 0 then (48 + n mod 10) :: acc else render_dec_aux f (n / 10) ((48 + n mod 10) :: acc).
Proof. reflexivity. Qed.

(* the characterisation of render_dec_aux: it prepends the digits of n *)
Lemma render_dec_aux_spec fuel : forall n acc, n < 2 ^ N.of_nat (S fuel) ->
  exists ds, render_dec_aux (S fuel) n acc = ds ++ acc /\ ds <> [] /\ forallb is_digit ds = true /\ dec_value ds = n.
Proof.
  induction fuel as [|f IH]; intros n acc H.
  - change (2 ^ N.of_nat 1) with 2 in H.
    rewrite rda_unfold. assert (E : n / 10 = 0) by (apply N.div_small; lia). rewrite E.
    change (0 =? 0) with true. cbn iota.
    exists [48 + n mod 10]. destruct (digit_of_mod n) as [D1 D2].
    split; [reflexivity|]. split; [discriminate|]. split; [simpl; rewrite D1; reflexivity|].
    unfold dec_value. cbn [dec_acc]. rewrite D2. rewrite N.mod_small by lia. lia.
  - rewrite rda_unfold. destruct (digit_of_mod n) as [D1 D2].
    destruct (n / 10 =? 0) eqn:E.
    + exists [48 + n mod 10]. split; [reflexivity|]. split; [discriminate|]. split; [simpl; rewrite D1; reflexivity|].
      unfold dec_value. cbn [dec_acc]. rewrite D2. apply N.eqb_eq in E.
      pose proof (N.div_mod n 10 ltac:(lia)). lia.
    + assert (Hn : n / 10 < 2 ^ N.of_nat (S f)).
      { rewrite Nat2N.inj_succ, N.pow_succ_r' in H.
        assert (n / 10 <= n / 2).
        { pose proof (N.div_mod n 10 ltac:(lia)). pose proof (N.div_mod n 2 ltac:(lia)).
          pose proof (N.mod_lt n 10 ltac:(lia)). pose proof (N.mod_lt n 2 ltac:(lia)). lia. }
        assert (n / 2 < 2 ^ N.of_nat (S f)) by (apply N.div_lt_upper_bound; lia). lia. }
      destruct (IH (n / 10) ((48 + n mod 10) :: acc) Hn) as (ds & H1 & H2 & H3 & H4).
      exists (ds ++ [48 + n mod 10]). split.
      * rewrite H1, <- app_assoc. reflexivity.
      * split; [destruct ds; discriminate|]. split.
        -- rewrite forallb_app, H3. simpl. rewrite D1. reflexivity.
        -- rewrite dec_value_app, H4. unfold dec_value. cbn [dec_acc length]. rewrite D2.
           change (10 ^ N.of_nat 1) with 10. pose proof (N.div_mod n 10 ltac:(lia)). lia.
Qed.

Lemma render_dec_spec n :
  render_dec n <> [] /\ forallb is_digit (render_dec n) = true /\ dec_value (render_dec n) = n.
Proof.
  unfold render_dec.
  assert (H : n < 2 ^ N.of_nat (S (N.to_nat (N.log2 n)))).
  { rewrite Nat2N.inj_succ, N2Nat.id. destruct (N.eq_dec n 0) as [->|Hn]; [reflexivity|].
    apply N.log2_spec. lia. }
  destruct (render_dec_aux_spec _ n [] H) as (ds & H1 & H2 & H3 & H4).
  rewrite H1, app_nil_r. auto.
Qed.

Lemma render_dec_head n : exists d r, render_dec n = d :: r /\ is_digit d = true.
Proof.
  destruct (render_dec_spec n) as (H1 & H2 & _). destruct (render_dec n) as [|d r]; [congruence|].
  exists d, r. simpl in H2. apply andb_true_iff in H2. tauto.
Qed.

Lemma parse_digits_render bits n : parse_digits bits (render_dec n) = if n <? 2 ^ bits then Some n else None.
Proof.
  destruct (render_dec_spec n) as (H1 & H2 & H3). unfold parse_digits.
  destruct (render_dec n) as [|d r] eqn:E; [congruence|]. rewrite H2, H3. reflexivity.
Qed.

(* Rust str::parse::<uN> accepts the canonical numeral of n exactly when n fits the width *)
Lemma parse_uint_render bits n : parse_uint bits (render_dec n) = if n <? 2 ^ bits then Some n else None.
Proof.
  rewrite <- parse_digits_render. unfold parse_uint.
  destruct (render_dec_head n) as (d & r & E & D). rewrite E.
  assert (d <> 43) by (unfold is_digit, in_range in D; lia).
  destruct d as [|p]; [reflexivity|].
  repeat (destruct p as [p|p|]; try reflexivity); congruence.
Qed.

Lemma parse_uint_render_iff bits n : parse_uint bits (render_dec n) = Some n <-> n < 2 ^ bits.
Proof.
  rewrite parse_uint_render. destruct (n <? 2 ^ bits) eqn:E; split; intro H; try lia; try discriminate; reflexivity.
Qed.

(* whatever parse_uint returns fits the width: overflow can only be an error *)
Lemma parse_uint_sound bits s n : parse_uint bits s = Some n -> n < 2 ^ bits.
Proof.
  assert (P : forall t, parse_digits bits t = Some n -> n < 2 ^ bits).
  { intros t. unfold parse_digits. destruct t; [discriminate|]. destruct (forallb is_digit (n0 :: t)); [|discriminate].
    destruct (dec_value (n0 :: t) <? 2 ^ bits) eqn:E; [|discriminate]. intros H; inversion H; subst. lia. }
  unfold parse_uint. destruct s as [|c r]; [apply P|].
  destruct (N.eq_dec c 43) as [->|Hc]; [apply P|].
  destruct c as [|p]; [apply P|].
  repeat (destruct p as [p|p|]; try apply P).
Qed.

Lemma span_digits_app ds r :
  forallb is_digit ds = true -> match r with [] => True | c :: _ => is_digit c = false end ->
  span_digits (ds ++ r) = (ds, r).
Proof.
  intros H Hr. induction ds as [|d ds IH]; simpl in *.
  - destruct r as [|c r']; [reflexivity|]. simpl. rewrite Hr. reflexivity.
  - apply andb_true_iff in H as [H1 H2]. rewrite H1, (IH H2). reflexivity.
Qed.

(* ====================================================================================== *)
(* B. programs over a frame: order-independence of distinct keys                           *)
(* ====================================================================================== *)

Lemma s_get_find l k : fst (s_get l k) = s_find l k.
Proof.
  induction l as [|[k' v] r IH]; simpl; [reflexivity|].
  destruct (beq k' k); [reflexivity|]. destruct (s_get r k) as [o r']. simpl in *. exact IH.
Qed.

Lemma s_get_other l k k' : k' <> k -> s_find (snd (s_get l k)) k' = s_find l k'.
Proof.
  intros Hk. induction l as [|[k0 v] r IH]; simpl; [reflexivity|].
  destruct (beq k0 k) eqn:E.
  - apply beq_eq in E. subst. simpl. destruct (beq k k') eqn:E2; [apply beq_eq in E2; congruence|reflexivity].
  - destruct (s_get r k) as [o r'] eqn:G. simpl in *. rewrite IH. reflexivity.
Qed.

(* [uses p ks]: along every path p asks for keys in the order of ks, each at most once
   (it may stop early and may skip keys) *)
Inductive uses {A} : prog A -> list bytes -> Prop :=
  | u_ret r ks : uses (Ret r) ks
  | u_get k c ks : (forall o, uses (c o) ks) -> uses (Get k c) (k :: ks)
  | u_skip p k ks : uses p ks -> uses p (k :: ks).

Lemma uses_weaken {A} (p : prog A) ks0 ks : uses p ks -> uses p (ks0 ++ ks).
Proof. intros H. induction ks0 as [|k ks0 IH]; simpl; [exact H|]. apply u_skip. exact IH. Qed.

Lemma uses_nil_r {A} (p : prog A) ks ks' : uses p ks -> uses p (ks ++ ks').
Proof.
  intros H. induction H; simpl.
  - apply u_ret.
  - apply u_get. auto.
  - apply u_skip. auto.
Qed.

Lemma uses_bind {A B} (p : prog A) (f : A -> prog B) ks1 ks2 :
  uses p ks1 -> (forall a, uses (f a) ks2) -> uses (bind p f) (ks1 ++ ks2).
Proof.
  intros H Hf. induction H as [r ks|k c ks H IH|p k ks H IH]; simpl.
  - destruct r as [a|e|]; [apply uses_weaken; apply Hf| apply u_ret | apply u_ret].
  - apply u_get. intros o. apply IH.
  - apply u_skip. exact IH.
Qed.

(* Frame::get on distinct keys = lookup in the original frame *)
Theorem run_lookup {A} (p : prog A) ks : uses p ks -> NoDup ks ->
  forall fs fs', (forall k, In k ks -> s_find fs' k = s_find fs k) -> fst (run p fs') = runL p (s_find fs).
Proof.
  intros H. induction H as [r ks|k c ks H IH|p k ks H IH]; intros ND fs fs' Hf.
  - reflexivity.
  - cbn [run runL]. pose proof (s_get_find fs' k) as G1. pose proof (fun k' => s_get_other fs' k k') as G2.
    destruct (s_get fs' k) as [o fs'']. cbn [fst snd] in *. subst o.
    rewrite (Hf k (or_introl eq_refl)). inversion ND; subst. apply IH; [assumption|].
    intros k' Hk'. rewrite G2; [apply Hf; right; exact Hk'|]. intros ->. contradiction.
  - inversion ND; subst. apply IH; [assumption|]. intros k' Hk'. apply Hf. right. exact Hk'.
Qed.

Corollary exec_lookup {A} (p : prog A) ks fs : uses p ks -> NoDup ks -> exec p fs = runL p (s_find fs).
Proof. intros H ND. unfold exec. apply (run_lookup p ks H ND fs fs). reflexivity. Qed.

Lemma runL_bind {A B} (p : prog A) (f : A -> prog B) look :
  runL (bind p f) look = tbind (runL p look) (fun a => runL (f a) look).
Proof.
  induction p as [r|k c IH]; simpl.
  - destruct r; reflexivity.
  - apply IH.
Qed.

Fixpoint nodupb (l : list bytes) : bool :=
  match l with
  | [] => true
  | x :: r => negb (existsb (beq x) r) && nodupb r
  end.

Lemma nodupb_sound l : nodupb l = true -> NoDup l.
Proof.
  induction l as [|x r IH]; simpl; intros H; [constructor|].
  apply andb_true_iff in H as [H1 H2]. constructor; [|auto].
  intros Hin. apply negb_true_iff in H1. assert (existsb (beq x) r = true); [|congruence].
  apply existsb_exists. exists x. split; [assumption|apply beq_refl].
Qed.

Lemma uses_value {A} k (cv : conv A) : uses (value k cv) [k].
Proof. apply u_get. intros [v|]; apply u_ret. Qed.
Lemma uses_optional {A} k (cv : conv A) : uses (optional_value k cv) [k].
Proof. apply u_get. intros [v|]; apply u_ret. Qed.
Lemma uses_get_raw k : uses (get_raw k) [k].
Proof. apply u_get. intros o; apply u_ret. Qed.
Lemma uses_song_identifier pk ik : uses (song_identifier pk ik) [pk; ik].
Proof.
  unfold song_identifier. apply (uses_bind _ _ [pk] [ik]); [apply uses_optional|].
  intros [p|]; [|apply u_ret]. rewrite <- (app_nil_r [ik]). apply uses_bind; [apply uses_value|]. intros; apply u_ret.
Qed.
Lemma uses_p_single : uses p_single [b "single"].
Proof. apply u_get. intros [v|]; apply u_ret. Qed.
Lemma uses_p_duration : uses p_duration [b "duration"; b "Time"].
Proof.
  apply u_get. intros [v|]; [apply u_ret|]. apply u_get. intros [t|]; [|apply u_ret].
  destruct (split_once 58 t) as [[x y]|]; apply u_ret.
Qed.

Definition status_keys : list bytes :=
  [b "single"] ++ [b "duration"; b "Time"] ++ [b "volume"] ++ [b "state"] ++ [b "repeat"] ++ [b "random"] ++ [b "consume"] ++
  [b "playlistlength"] ++ [b "playlist"] ++ [b "song"; b "songid"] ++ [b "nextsong"; b "nextsongid"] ++ [b "elapsed"] ++
  [b "bitrate"] ++ [b "xfade"] ++ [b "updating_db"] ++ [b "error"] ++ [b "partition"] ++ [].

Lemma uses_status : uses status_prog status_keys.
Proof.
  unfold status_prog, status_keys.
  repeat (apply uses_bind;
          [ first [apply uses_p_single | apply uses_p_duration | apply uses_value | apply uses_optional
                  | apply uses_song_identifier | apply uses_get_raw] | intros ? ]).
  apply u_ret.
Qed.

(* the tie to the source: the keys of the model are the literals of Status::from_frame, in order *)
Lemma status_keys_are_source : status_keys = status_fields_read.
Proof. vm_compute. reflexivity. Qed.

Lemma status_keys_nodup : NoDup status_fields_read.
Proof. apply nodupb_sound. vm_compute. reflexivity. Qed.

Theorem status_is_lookup fs : exec status_prog fs = runL status_prog (s_find fs).
Proof.
  apply (exec_lookup _ status_fields_read).
  - rewrite <- status_keys_are_source. apply uses_status.
  - apply status_keys_nodup.
Qed.

Definition stats_keys : list bytes :=
  [b "artists"] ++ [b "albums"] ++ [b "songs"] ++ [b "uptime"] ++ [b "playtime"] ++ [b "db_playtime"] ++ [b "db_update"] ++ [].

Lemma uses_stats : uses stats_prog stats_keys.
Proof.
  unfold stats_prog, stats_keys. repeat (apply uses_bind; [apply uses_value | intros ?]). apply u_ret.
Qed.

Theorem stats_is_lookup fs : exec stats_prog fs = runL stats_prog (s_find fs).
Proof. apply (exec_lookup _ stats_keys); [apply uses_stats|]. apply nodupb_sound. vm_compute. reflexivity. Qed.

Theorem count_is_lookup fs : exec count_prog fs = runL count_prog (s_find fs).
Proof.
  apply (exec_lookup _ ([b "songs"] ++ [b "playtime"] ++ [])).
  - unfold count_prog. repeat (apply uses_bind; [apply uses_value | intros ?]). apply u_ret.
  - apply nodupb_sound. vm_compute. reflexivity.
Qed.

Theorem value_is_lookup {A} k (cv : conv A) fs : exec (value k cv) fs = runL (value k cv) (s_find fs).
Proof. apply (exec_lookup _ [k]); [apply uses_value|]. repeat constructor. intros []. Qed.

Theorem albumart_is_lookup fs : exec albumart_prog fs = runL albumart_prog (s_find fs).
Proof.
  apply (exec_lookup _ ([b "size"] ++ [b "type"] ++ [])).
  - unfold albumart_prog. apply uses_bind; [apply uses_value|intros ?]. apply uses_bind; [apply uses_get_raw|intros ?]. apply u_ret.
  - apply nodupb_sound. vm_compute. reflexivity.
Qed.

(* lookups are invariant under permutation when keys are pairwise distinct *)
Lemma s_find_in l k v : s_find l k = Some v -> In (k, v) l.
Proof.
  induction l as [|[k' v'] r IH]; simpl; [discriminate|]. destruct (beq k' k) eqn:E.
  - intros H; inversion H; subst. apply beq_eq in E. subst. left; reflexivity.
  - intros H. right. auto.
Qed.

Lemma s_find_nodup l k v : NoDup (map fst l) -> In (k, v) l -> s_find l k = Some v.
Proof.
  induction l as [|[k' v'] r IH]; simpl; intros ND H; [contradiction|]. inversion ND; subst.
  destruct H as [H|H].
  - inversion H; subst. rewrite beq_refl. reflexivity.
  - destruct (beq k' k) eqn:E; [|auto]. apply beq_eq in E. subst. exfalso. apply H2.
    apply in_map_iff. exists (k, v). auto.
Qed.

Lemma s_find_none l k : s_find l k = None <-> ~ In k (map fst l).
Proof.
  induction l as [|[k' v'] r IH]; simpl; [tauto|]. destruct (beq k' k) eqn:E.
  - apply beq_eq in E. subst. split; [discriminate|]. intros H. exfalso. apply H. left; reflexivity.
  - rewrite IH. split; intros H; [|tauto]. intros [H1|H1]; [|tauto]. subst. rewrite beq_refl in E. discriminate.
Qed.

Lemma s_find_perm l l' k : NoDup (map fst l) -> Permutation l l' -> s_find l' k = s_find l k.
Proof.
  intros ND P. assert (ND' : NoDup (map fst l')) by (eapply Permutation_NoDup; [apply Permutation_map; exact P|exact ND]).
  destruct (s_find l k) as [v|] eqn:E.
  - apply s_find_nodup; [exact ND'|]. eapply Permutation_in; [exact P|]. apply s_find_in. exact E.
  - apply s_find_none. apply s_find_none in E. intros H. apply E.
    eapply Permutation_in; [apply Permutation_sym; apply Permutation_map; exact P|exact H].
Qed.

(* ====================================================================================== *)
(* C. totality (C12): no reply makes any conversion panic                                  *)
(* ====================================================================================== *)

Inductive np {A} : prog A -> Prop :=
  | np_ret r : r <> TPanic -> np (Ret r)
  | np_get k c : (forall o, np (c o)) -> np (Get k c).

Lemma np_run {A} (p : prog A) : np p -> forall fs, fst (run p fs) <> TPanic.
Proof.
  induction 1 as [r H|k c H IH]; intros fs; simpl; [exact H|]. destruct (s_get fs k) as [o fs']. apply IH.
Qed.

Lemma np_bind {A B} (p : prog A) (f : A -> prog B) : np p -> (forall a, np (f a)) -> np (bind p f).
Proof.
  induction 1 as [r H|k c H IH]; intros Hf; simpl.
  - destruct r; [apply Hf|constructor; discriminate|congruence].
  - constructor. intros o. apply IH. exact Hf.
Qed.

Definition conv_np {A} (cv : conv A) : Prop := forall v f, cv v f <> TPanic.

Lemma tmap_np {A B} (g : A -> B) r : r <> TPanic -> tmap g r <> TPanic.
Proof. destruct r; simpl; congruence. Qed.

Lemma np_value {A} k (cv : conv A) : conv_np cv -> np (value k cv).
Proof. intros H. constructor. intros [v|]; constructor; [apply H|discriminate]. Qed.
Lemma np_optional {A} k (cv : conv A) : conv_np cv -> np (optional_value k cv).
Proof. intros H. constructor. intros [v|]; constructor; [apply tmap_np; apply H|discriminate]. Qed.
Lemma np_get_raw k : np (get_raw k).
Proof. constructor. intros o. constructor. discriminate. Qed.

Lemma from_uint_np bits : conv_np (from_uint bits).
Proof. intros v f. unfold from_uint. destruct (parse_uint bits v); discriminate. Qed.
Lemma from_enum_np tbl : conv_np (from_enum tbl).
Proof. intros v f. unfold from_enum. destruct (lookup_spelling tbl v); discriminate. Qed.
Lemma from_bool_np : conv_np from_bool.
Proof. intros v f. unfold from_bool. apply tmap_np. apply from_enum_np. Qed.
(* the repaired parse_duration: try_from_secs_f64 has no panicking input; whatever std's float
   parser decides, the outcome is a value or an error *)
Lemma parse_duration_np : conv_np parse_duration.
Proof. intros v f. unfold parse_duration. destruct (parse_f64 v); [destruct (classify f0)|]; discriminate. Qed.
Lemma timestamp_np v f : timestamp_from_value v f <> TPanic.
Proof. unfold timestamp_from_value. destruct (canonical_timestamp v); [discriminate|]. destruct (obviously_not_timestamp v); discriminate. Qed.

Lemma np_song_identifier pk ik : np (song_identifier pk ik).
Proof.
  unfold song_identifier. apply np_bind; [apply np_optional; apply from_uint_np|].
  intros [p|]; [|constructor; discriminate]. apply np_bind; [apply np_value; apply from_uint_np|].
  intros; constructor; discriminate.
Qed.

Lemma np_status : np status_prog.
Proof.
  unfold status_prog.
  apply np_bind.
  { constructor. intros [v|]; constructor; [apply from_enum_np|discriminate]. }
  intros ?. apply np_bind.
  { constructor. intros [v|]; [constructor; apply tmap_np; apply parse_duration_np|].
    constructor. intros [t|]; [|constructor; discriminate].
    destruct (split_once 58 t) as [[x y]|]; constructor; [apply tmap_np; apply parse_duration_np|discriminate]. }
  intros ?.
  repeat (apply np_bind;
          [ first [ apply np_song_identifier | apply np_get_raw
                  | apply np_value; first [apply from_uint_np | apply from_enum_np | apply from_bool_np | apply parse_duration_np]
                  | apply np_optional; first [apply from_uint_np | apply from_enum_np | apply from_bool_np | apply parse_duration_np] ]
          | intros ? ]).
  constructor. discriminate.
Qed.

Ltac np_auto :=
  repeat (apply np_bind;
          [ first [ apply np_get_raw
                  | apply np_value; first [apply from_uint_np | apply from_enum_np | apply from_bool_np | apply parse_duration_np]
                  | apply np_optional; first [apply from_uint_np | apply from_enum_np | apply from_bool_np | apply parse_duration_np] ]
          | intros ? ]);
  try (constructor; discriminate).

Lemma np_stats : np stats_prog.
Proof. unfold stats_prog. np_auto. Qed.
Lemma np_count : np count_prog.
Proof. unfold count_prog. np_auto. Qed.
Lemma np_replaygain : np replaygain_prog.
Proof. apply np_value. apply from_enum_np. Qed.
Lemma np_update : np update_prog.
Proof. apply np_value. apply from_uint_np. Qed.
Lemma np_addid : np addid_prog.
Proof. apply np_value. apply from_uint_np. Qed.
Lemma np_albumart : np albumart_prog.
Proof. unfold albumart_prog. np_auto. Qed.

Lemma exec_np {A} (p : prog A) fs : np p -> exec p fs <> TPanic.
Proof. intros H. apply np_run. exact H. Qed.

(* build_grouped_values: the two unwraps run only after the loop condition said both are set *)
Lemma count_grouped_np g fs : forall cur acc, count_grouped g cur acc fs <> TPanic.
Proof.
  induction fs as [|[k v] r IH]; intros cur acc; cbn [count_grouped].
  - destruct cur as [[[val s] p]|]; [destruct (isnone s)|]; discriminate.
  - destruct cur as [[[val s] p]|].
    + destruct (beq k (b "songs")).
      * destruct s as [n|]; [discriminate|].
        pose proof (from_uint_np 64 v (b "songs")) as H. destruct (from_uint 64 v (b "songs")) as [n|e|]; [|discriminate|congruence].
        destruct p as [d|]; cbn [isnone orb]; apply IH.
      * destruct (beq k (b "playtime")); [|discriminate].
        destruct p as [d|]; [discriminate|].
        pose proof (parse_duration_np v (b "playtime")) as H. destruct (parse_duration v (b "playtime")) as [d|e|]; [|discriminate|congruence].
        destruct s as [n|]; cbn [isnone orb]; apply IH.
    + destruct (beq k g); [apply IH|discriminate].
Qed.

(* a field name the parser accepts: non-empty, bytes of the parser's key alphabet *)
Definition parser_key (k : bytes) : Prop :=
  k <> [] /\ Forall (fun c => c < 256 /\ parser_key_charset c = true) k.

Lemma parser_key_is_tag k : parser_key k -> exists t, tag_try_from k = TagOk t.
Proof.
  intros [H1 H2]. apply accepts_iff. split; [exact H1|].
  eapply Forall_impl; [|exact H2]. intros c [Hc Hp]. cbv beta. rewrite charset_is_protocol; assumption.
Qed.

(* List::from_frame: Tag::try_from(key).unwrap() cannot fail on keys the parser produced *)
Lemma list_fields_np fs : Forall (fun f => parser_key (fst f)) fs -> list_fields fs <> TPanic.
Proof.
  induction 1 as [|[k v] r H _ IH]; simpl; [discriminate|].
  destruct (parser_key_is_tag k H) as [t E]. rewrite E. apply tmap_np. exact IH.
Qed.

Lemma position_lt {A} (p : A -> bool) l n : position p l = Some n -> (n < length l)%nat.
Proof.
  revert n; induction l as [|x r IH]; simpl; intros n H; [discriminate|].
  destruct (p x); [inversion H; lia|]. destruct (position p r) as [m|]; [|discriminate].
  inversion H. specialize (IH m eq_refl). lia.
Qed.

Lemma set_nth_some {A} n (x : A) l : (n < length l)%nat -> exists l', set_nth n x l = Some l' /\ length l' = length l.
Proof.
  revert n; induction l as [|y r IH]; simpl; intros n H; [lia|].
  destruct n as [|m]; [exists (x :: r); auto|]. simpl.
  destruct (IH m ltac:(lia)) as (l' & E & L). rewrite E. exists (y :: l'). simpl. auto.
Qed.

(* GroupedListValuesIter: the index into grouping_values is always in range *)
Lemma grouped_iter_np primary gts fs : forall gvals, length gvals = length gts -> grouped_iter primary gts gvals fs <> TPanic.
Proof.
  induction fs as [|[t v] r IH]; intros gvals L; simpl; [discriminate|].
  destruct (tag_eq t primary); [apply tmap_np; auto|].
  destruct (position (fun g => tag_eq g t) gts) as [idx|] eqn:P; [|auto].
  apply position_lt in P. rewrite <- L in P. destruct (set_nth_some idx v gvals P) as (l' & E & L').
  rewrite E. apply IH. congruence.
Qed.

Theorem grouped_values_total l : grouped_values l <> TPanic.
Proof. unfold grouped_values. apply grouped_iter_np. apply map_length. Qed.

Lemma playlists_np fs : forall cur acc, playlists cur acc fs <> TPanic.
Proof.
  induction fs as [|[k v] r IH]; intros cur acc; cbn [playlists]; [discriminate|].
  destruct cur as [name|].
  - destruct (beq k (b "Last-Modified")); [|discriminate].
    pose proof (timestamp_np v (b "Last-Modified")). destruct (timestamp_from_value v (b "Last-Modified")); [apply IH|discriminate|congruence].
  - destruct (beq k (b "playlist")); [apply IH|discriminate].
Qed.

Lemma parse_sticker_np v : parse_sticker_value v <> TPanic.
Proof. unfold parse_sticker_value. destruct (split_once 61 v); discriminate. Qed.

Lemma sticker_get_np fs : sticker_get_model fs <> TPanic.
Proof.
  destruct fs as [|[k v] r]; cbn [sticker_get_model]; [discriminate|]. destruct (beq k (b "sticker")); [|discriminate].
  apply tmap_np. apply parse_sticker_np.
Qed.

Lemma sticker_list_np fs : forall m, sticker_list m fs <> TPanic.
Proof.
  induction fs as [|[k v] r IH]; intros m; simpl; [discriminate|].
  pose proof (parse_sticker_np v). destruct (parse_sticker_value v) as [[n x]|e|]; [apply IH|discriminate|congruence].
Qed.

Lemma sticker_find_np fs : forall file m, sticker_find file m fs <> TPanic.
Proof.
  induction fs as [|[k v] r IH]; intros file m; cbn [sticker_find]; [discriminate|].
  destruct (beq k (b "file")); [apply IH|]. destruct (beq k (b "sticker")); [|discriminate].
  pose proof (parse_sticker_np v). destruct (parse_sticker_value v) as [[n x]|e|]; [apply IH|discriminate|congruence].
Qed.

Lemma channels_np fs : channels_model fs <> TPanic.
Proof.
  induction fs as [|[k v] r IH]; cbn [channels_model]; [discriminate|]. destruct (beq k (b "channel")); [apply tmap_np; exact IH|discriminate].
Qed.

Lemma messages_np : forall n fs, (length fs <= n)%nat -> messages_model fs <> TPanic.
Proof.
  induction n as [|n IH]; intros fs L.
  - destruct fs; [simpl; discriminate|simpl in L; lia].
  - destruct fs as [|[k v] r]; cbn [messages_model]; [discriminate|]. destruct (beq k (b "channel")); [|discriminate].
    destruct r as [|[k2 v2] r2]; [discriminate|]. destruct (beq k2 (b "message")); [|discriminate].
    apply tmap_np. apply IH. simpl in L. lia.
Qed.

Lemma tagtypes_np fs : tagtypes_model fs <> TPanic.
Proof.
  induction fs as [|[k v] r IH]; cbn [tagtypes_model]; [discriminate|]. destruct (beq k (b "tagtype")); [|discriminate].
  destruct (tag_try_from v); try discriminate. apply tmap_np. exact IH.
Qed.

Definition frame_keys_ok (f : frame) : Prop := Forall (fun kv => parser_key (fst kv)) (f_fields f).

Theorem response_total c f : frame_keys_ok f -> response_model c f <> TPanic.
Proof.
  intros K. destruct c; cbn [response_model]; try discriminate; apply tmap_np;
    try (apply exec_np; first [apply np_status | apply np_stats | apply np_replaygain | apply np_count | apply np_addid | apply np_update]).
  - apply count_grouped_np.
  - unfold list_model. apply tmap_np. apply list_fields_np. exact K.
  - apply playlists_np.
  - apply tagtypes_np.
  - apply sticker_get_np.
  - apply sticker_list_np.
  - apply sticker_find_np.
  - eapply messages_np. apply Nat.le_refl.
  - apply channels_np.
  - unfold albumart_model. destruct (f_binary f); [apply tmap_np; apply exec_np; apply np_albumart|discriminate].
  - unfold albumart_model. destruct (f_binary f); [apply tmap_np; apply exec_np; apply np_albumart|discriminate].
Qed.

Theorem consume_total v : consume_model v <> TPanic.
Proof. destruct v; simpl; try discriminate. apply tmap_np. apply grouped_values_total. Qed.

Lemma zip_responses_np cmds : forall frames, Forall frame_keys_ok frames -> zip_responses cmds frames <> TPanic.
Proof.
  induction cmds as [|c cr IH]; intros frames K; simpl; [discriminate|].
  destruct frames as [|f fr]; [discriminate|]. inversion K; subst.
  pose proof (response_total c f H1). destruct (response_model c f); [apply tmap_np; auto|discriminate|congruence].
Qed.

Lemma tuple_go_np cmds idxs : forall frames, Forall frame_keys_ok frames -> tuple_go idxs cmds frames <> TPanic.
Proof.
  induction idxs as [|i r IH]; intros frames K; simpl; [discriminate|].
  destruct frames as [|f fr]; [discriminate|]. inversion K; subst.
  destruct (nth_error cmds i) as [c|]; [|discriminate].
  pose proof (response_total c f H1). destruct (response_model c f); [apply tmap_np; auto|discriminate|congruence].
Qed.

(* typed command lists: no hypothesis relating the number of frames to the number of commands *)
Theorem responses_total sh cmds frames : Forall frame_keys_ok frames -> responses_model sh cmds frames <> TPanic.
Proof.
  intros K. destruct sh; simpl.
  - unfold vec_responses. destruct (Nat.eqb (length cmds) (length frames)); [apply zip_responses_np; exact K|discriminate].
  - unfold tuple_responses. destruct (find _ tuple_impls); [apply tuple_go_np; exact K|discriminate].
Qed.

(* ---------- the hypothesis of C12 is what the protocol parser guarantees ---------- *)
From MPD Require Import ParserModel.

Lemma span_len_prefix p i n : span_len p i = Some n -> Forall (fun c => p c = true) (firstn n i).
Proof.
  revert n; induction i as [|c r IH]; simpl; intros n H; [discriminate|].
  destruct (p c) eqn:E; [|inversion H; constructor].
  destruct (span_len p r) as [m|]; [|discriminate]. inversion H; subst. simpl. constructor; auto.
Qed.

Lemma key_charset_is_byte c : parser_key_charset c = true -> c < 256.
Proof. unfold parser_key_charset, is_alpha, is_upper, is_lower, in_range. lia. Qed.

Ltac dm H := repeat match type of H with
                    | context [match ?x with _ => _ end] =>
                      lazymatch x with
                      | context [match _ with _ => _ end] => fail
                      | _ => destruct x eqn:?; try discriminate
                      end
                    end.

Lemma key_value_key i n k v : p_key_value i = ROk n (CField k v) -> parser_key k.
Proof.
  unfold p_key_value, p_bind, p_map_res, p_take_while1, p_ret, utf8. intros H.
  destruct (span_len parser_key_charset i) as [[|m]|] eqn:E; try discriminate.
  destruct (utf8_valid (firstn (S m) i)); try discriminate.
  dm H. inversion H; subst. split.
  - destruct i; [simpl in E; discriminate|simpl; discriminate].
  - apply span_len_prefix in E.
    eapply Forall_impl; [|exact E]. intros c Hc. split; [apply key_charset_is_byte|]; exact Hc.
Qed.

Theorem parsed_field_has_parser_key i n k v : parse_component i = ROk n (CField k v) -> parser_key k.
Proof.
  unfold parse_component, p_alt. intros H.
  destruct (p_map (p_tag (b "OK" ++ [LF])) (fun _ => EndOfResponse) i) eqn:E1.
  { unfold p_map, p_map_res in E1. dm E1. congruence. }
  all: try discriminate.
  destruct (p_map (p_tag (b "list_OK" ++ [LF])) (fun _ => EndOfFrame) i) eqn:E2.
  { unfold p_map, p_map_res in E2. dm E2. congruence. }
  all: try discriminate.
  destruct (p_error i) eqn:E3.
  { unfold p_error, p_bind, p_ret in E3. dm E3. congruence. }
  all: try discriminate.
  destruct (p_binary i) eqn:E4.
  { unfold p_binary, p_cut, p_bind, p_ret in E4. dm E4. congruence. }
  all: try discriminate.
  eapply key_value_key. exact H.
Qed.

(* ====================================================================================== *)
(* D. faithful decoding (C16)                                                               *)
(* ====================================================================================== *)

(* ---------- enumerations: the MPD spellings decode to the right variant, nothing else does ---------- *)

Definition playstate_ident (x : playstate) : bytes :=
  match x with SPlay => b "Playing" | SPause => b "Paused" | SStop => b "Stopped" end.
Definition single_ident (x : singlemode) : bytes :=
  match x with SingleOff => b "Disabled" | SingleOn => b "Enabled" | SingleOneshot => b "Oneshot" end.
Definition rgmode_ident (x : rgmode) : bytes :=
  match x with RgOff => b "Off" | RgTrack => b "Track" | RgAlbum => b "Album" | RgAuto => b "Auto" end.

Lemma playstate_rt x f : from_playstate (playstate_wire x) f = TOk (playstate_ident x).
Proof. destruct x; vm_compute; reflexivity. Qed.
Lemma single_rt x f : from_enum single_spellings (single_wire x) f = TOk (single_ident x).
Proof. destruct x; vm_compute; reflexivity. Qed.
Lemma rgmode_rt x f : from_replaygain (rgmode_wire x) f = TOk (rgmode_ident x).
Proof. destruct x; vm_compute; reflexivity. Qed.
Lemma bool_rt x f : from_bool (bool_wire x) f = TOk x.
Proof. destruct x; vm_compute; reflexivity. Qed.

Lemma lookup_spelling_in tbl v i : lookup_spelling tbl v = Some i -> In (v, i) tbl.
Proof.
  induction tbl as [|[p j] r IH]; simpl; [discriminate|]. destruct (beq v p) eqn:E.
  - intros H; inversion H; subst. apply beq_eq in E. subst. left; reflexivity.
  - intros H. right. auto.
Qed.

(* domain: a decoded enum value was spelled exactly as the protocol spells it *)
Lemma playstate_domain v f i : from_playstate v f = TOk i -> exists x, v = playstate_wire x /\ i = playstate_ident x.
Proof.
  unfold from_playstate, from_enum. destruct (lookup_spelling playstate_spellings v) as [j|] eqn:E; [|discriminate].
  intros H; inversion H; subst. apply lookup_spelling_in in E.
  repeat (destruct E as [E|E]; [inversion E; subst; first [exists SPlay; split; reflexivity | exists SPause; split; reflexivity | exists SStop; split; reflexivity]|]).
  destruct E.
Qed.
Lemma single_domain v f i : from_enum single_spellings v f = TOk i -> exists x, v = single_wire x /\ i = single_ident x.
Proof.
  unfold from_enum. destruct (lookup_spelling single_spellings v) as [j|] eqn:E; [|discriminate].
  intros H; inversion H; subst. apply lookup_spelling_in in E.
  repeat (destruct E as [E|E]; [inversion E; subst; first [exists SingleOff; split; reflexivity | exists SingleOn; split; reflexivity | exists SingleOneshot; split; reflexivity]|]).
  destruct E.
Qed.
Lemma rgmode_domain v f i : from_replaygain v f = TOk i -> exists x, v = rgmode_wire x /\ i = rgmode_ident x.
Proof.
  unfold from_replaygain, from_enum. destruct (lookup_spelling replaygain_spellings v) as [j|] eqn:E; [|discriminate].
  intros H; inversion H; subst. apply lookup_spelling_in in E.
  repeat (destruct E as [E|E]; [inversion E; subst; first [exists RgOff; split; reflexivity | exists RgTrack; split; reflexivity | exists RgAlbum; split; reflexivity | exists RgAuto; split; reflexivity]|]).
  destruct E.
Qed.
Lemma bool_domain v f x : from_bool v f = TOk x -> v = bool_wire x.
Proof.
  unfold from_bool, from_enum. destruct (lookup_spelling bool_spellings v) as [j|] eqn:E; [|discriminate].
  simpl. intros H; inversion H; subst. apply lookup_spelling_in in E.
  repeat (destruct E as [E|E]; [inversion E; subst; reflexivity|]). destruct E.
Qed.

Lemma from_uint_rt bits n f : n < 2 ^ bits -> from_uint bits (render_dec n) f = TOk n.
Proof. intros H. unfold from_uint. rewrite parse_uint_render. destruct (n <? 2 ^ bits) eqn:E; [reflexivity|lia]. Qed.

(* domain: integers — an accepted value fits the width; the canonical numeral of a value that does
   not fit is an error *)
Lemma from_uint_domain bits v f n : from_uint bits v f = TOk n -> n < 2 ^ bits.
Proof. unfold from_uint. destruct (parse_uint bits v) eqn:E; [|discriminate]. intros H; inversion H; subst. eapply parse_uint_sound; eauto. Qed.
Lemma from_uint_overflow bits n f : 2 ^ bits <= n -> from_uint bits (render_dec n) f = TErr (KInvalid f).
Proof. intros H. unfold from_uint. rewrite parse_uint_render. destruct (n <? 2 ^ bits) eqn:E; [lia|reflexivity]. Qed.

(* ---------- durations ---------- *)

Lemma split_sign_digit d r : is_digit d = true -> split_sign (d :: r) = (false, d :: r).
Proof.
  unfold split_sign, is_digit, in_range. intros H.
  destruct (d =? 43) eqn:E1; [lia|]. destruct (d =? 45) eqn:E2; [lia|]. reflexivity.
Qed.

Lemma not_word_digit d r w : is_digit d = true -> (forall c, In c (firstn 1 w) -> 97 <= c) -> w <> [] ->
  eq_ignore_case (d :: r) w = false.
Proof.
  intros H Hw Hn. destruct w as [|c w']; [congruence|]. unfold eq_ignore_case. cbn [map beq].
  assert (97 <= c) by (apply Hw; left; reflexivity).
  assert (to_lower d = d) by (unfold to_lower, is_upper, is_digit, in_range in *; destruct ((65 <=? d) && (d <=? 90)) eqn:E; lia).
  assert (97 <= to_lower c) by (unfold to_lower, is_upper, in_range; destruct ((65 <=? c) && (c <=? 90)); lia).
  rewrite H1. destruct (d =? to_lower c) eqn:E; [|reflexivity]. unfold is_digit, in_range in H. lia.
Qed.

Lemma parse_f64_digits ds fp :
  ds <> [] -> forallb is_digit ds = true -> forallb is_digit fp = true ->
  parse_f64 (ds ++ match fp with [] => [] | _ => 46 :: fp end) = Some (FNum false ds fp None).
Proof.
  intros Hn Hd Hf. destruct ds as [|d r]; [congruence|].
  assert (Dd : is_digit d = true) by (simpl in Hd; apply andb_true_iff in Hd; tauto).
  unfold parse_f64. cbn [app]. rewrite split_sign_digit by exact Dd.
  rewrite !not_word_digit; try exact Dd; try discriminate;
    try (intros c [<-|[]]; vm_compute; discriminate).
  cbn [orb]. unfold parse_number.
  change (d :: r ++ match fp with [] => [] | _ => 46 :: fp end) with ((d :: r) ++ match fp with [] => [] | _ => 46 :: fp end).
  destruct fp as [|f0 fr].
  - rewrite span_digits_app by (exact Hd || exact I). reflexivity.
  - rewrite span_digits_app; [|exact Hd|reflexivity].
    rewrite <- (app_nil_r (f0 :: fr)) at 1. rewrite span_digits_app by (exact Hf || exact I).
    reflexivity.
Qed.

Lemma pad_right_nil_value : dec_value (pad_right 9 []) = 0.
Proof. vm_compute. reflexivity. Qed.

(* whole seconds (xfade, uptime, playtime, db_playtime): exact below 2^53 *)
Lemma parse_duration_secs n f : n < 2 ^ 53 -> parse_duration (render_dec n) f = TOk (Some (n * 10 ^ 9)).
Proof.
  intros H. destruct (render_dec_spec n) as (H1 & H2 & H3). unfold parse_duration.
  pose proof (parse_f64_digits (render_dec n) [] H1 H2 eq_refl) as P. rewrite app_nil_r in P. rewrite P.
  unfold classify. rewrite app_nil_r, H3. destruct (n =? 0) eqn:E; [apply N.eqb_eq in E; subst; reflexivity|].
  unfold exact_nanos. cbn [length Nat.leb andb]. rewrite H3. destruct (n <? 2 ^ 22) eqn:E2.
  - rewrite pad_right_nil_value. f_equal. f_equal. lia.
  - change (dec_value []) with 0. change (0 =? 0) with true. cbn [andb].
    destruct (n <? 2 ^ 53) eqn:E3; [reflexivity|lia].
Qed.

Lemma pad3_spec m : m < 1000 -> forallb is_digit (pad3 m) = true /\ dec_value (pad3 m) = m /\ dec_value (pad_right 9 (pad3 m)) = m * 10 ^ 6.
Proof.
  intros H. unfold pad3.
  pose proof (N.div_mod m 10 ltac:(lia)). pose proof (N.mod_lt m 10 ltac:(lia)).
  pose proof (N.div_mod (m / 10) 10 ltac:(lia)). pose proof (N.mod_lt (m / 10) 10 ltac:(lia)).
  assert (m / 100 = m / 10 / 10) by (rewrite N.div_div by lia; reflexivity).
  assert (m / 100 < 10) by (apply N.div_lt_upper_bound; lia).
  set (x := m / 100) in *. set (y := (m / 10) mod 10) in *. set (z := m mod 10) in *.
  repeat split.
  - cbn [forallb]. unfold is_digit, in_range. lia.
  - unfold dec_value. cbn [dec_acc]. unfold digit_val. lia.
  - cbn [pad_right]. unfold dec_value. cbn [dec_acc]. unfold digit_val. lia.
Qed.

(* seconds.milliseconds (elapsed, duration): exact below 2^22 s *)
Lemma parse_duration_ms ms f : ms < 2 ^ 22 * 1000 -> parse_duration (ms_wire ms) f = TOk (Some (ms * 10 ^ 6)).
Proof.
  intros H.
  pose proof (N.div_mod ms 1000 ltac:(lia)) as DM. pose proof (N.mod_lt ms 1000 ltac:(lia)) as ML.
  assert (Q : ms / 1000 < 2 ^ 22) by (apply N.div_lt_upper_bound; lia).
  unfold parse_duration, ms_wire.
  remember (ms / 1000) as q eqn:Eq. remember (ms mod 1000) as m eqn:Em.
  destruct (render_dec_spec q) as (H1 & H2 & H3). destruct (pad3_spec m ML) as (P1 & P2 & P3).
  pose proof (parse_f64_digits (render_dec q) (pad3 m) H1 H2 P1) as P. unfold pad3 at 1 in P. fold (pad3 m) in P.
  change ([46] ++ pad3 m) with (46 :: pad3 m). rewrite P.
  unfold classify. rewrite dec_value_app, H3, P2. change (N.of_nat (length (pad3 m))) with 3.
  destruct (q * 10 ^ 3 + m =? 0) eqn:E.
  - apply N.eqb_eq in E. assert (Z0 : ms = 0) by lia. rewrite Z0. reflexivity.
  - unfold exact_nanos. change (Nat.leb (length (pad3 m)) 9) with true. rewrite H3. cbn [andb].
    destruct (q <? 2 ^ 22) eqn:E2; [|lia]. rewrite P3. f_equal. f_equal. lia.
Qed.

(* ---------- lookups in an encoded reply ---------- *)

Fixpoint look (l : list (bytes * option bytes)) (k : bytes) : option bytes :=
  match l with
  | [] => None
  | (k', o) :: r => if beq k' k then match o with Some v => Some v | None => look r k end else look r k
  end.

Lemma s_find_enc l k : s_find (enc_fields l) k = look l k.
Proof.
  induction l as [|[k' o] r IH]; simpl; [reflexivity|]. destruct o as [v|]; simpl.
  - destruct (beq k' k); [reflexivity|exact IH].
  - rewrite IH. destruct (beq k' k); reflexivity.
Qed.

(* with pairwise distinct keys the first table entry decides *)
Fixpoint look1 (l : list (bytes * option bytes)) (k : bytes) : option bytes :=
  match l with
  | [] => None
  | (k', o) :: r => if beq k' k then o else look1 r k
  end.

Lemma look_absent l k : ~ In k (map fst l) -> look l k = None.
Proof.
  induction l as [|[k' o] r IH]; simpl; intros H; [reflexivity|].
  destruct (beq k' k) eqn:E; [apply beq_eq in E; subst; tauto|]. apply IH. tauto.
Qed.

Lemma look_look1 l k : NoDup (map fst l) -> look l k = look1 l k.
Proof.
  induction l as [|[k' o] r IH]; simpl; intros H; [reflexivity|]. inversion H; subst.
  destruct (beq k' k) eqn:E; [|auto]. apply beq_eq in E. subst.
  destruct o; [reflexivity|]. apply look_absent. assumption.
Qed.

Lemma enc_fields_keys l : NoDup (map fst l) -> NoDup (map fst (enc_fields l)).
Proof.
  induction l as [|[k o] r IH]; simpl; intros H; [constructor|]. inversion H; subst.
  destruct o as [v|]; simpl; [|auto]. constructor; [|auto].
  intros Hin. apply H2. clear -Hin. induction r as [|[k' o'] r IH]; simpl in *; [contradiction|].
  destruct o'; simpl in *; [destruct Hin; auto|auto].
Qed.

Lemma runL_ext {A} (p : prog A) look1 look2 : (forall k, look1 k = look2 k) -> runL p look1 = runL p look2.
Proof. intros H. induction p as [r|k c IH]; simpl; [reflexivity|]. rewrite H. apply IH. Qed.

(* one step of a decoder against a lookup function *)
Lemma step_val {A B} k (cv : conv A) (f : A -> prog B) lk v a :
  lk k = Some v -> cv v k = TOk a -> runL (bind (value k cv) f) lk = runL (f a) lk.
Proof. intros H1 H2. rewrite runL_bind. simpl. rewrite H1. simpl. rewrite H2. reflexivity. Qed.

Lemma step_opt {A B X} k (cv : conv A) (f : option A -> prog B) lk (o : option X) (rnd : X -> bytes) (g : X -> A) :
  lk k = option_map rnd o -> (forall x, o = Some x -> cv (rnd x) k = TOk (g x)) ->
  runL (bind (optional_value k cv) f) lk = runL (f (option_map g o)) lk.
Proof.
  intros H1 H2. rewrite runL_bind. simpl. rewrite H1. destruct o as [x|]; simpl; [|reflexivity].
  rewrite (H2 x eq_refl). reflexivity.
Qed.

Lemma step_raw {B} k (f : option bytes -> prog B) lk o :
  lk k = o -> runL (bind (get_raw k) f) lk = runL (f o) lk.
Proof. intros H. rewrite runL_bind. simpl. rewrite H. reflexivity. Qed.

Lemma step_song {B} pk ik (f : option (N * N) -> prog B) lk (o : option (N * N)) :
  lk pk = num (option_map fst o) -> lk ik = num (option_map snd o) -> pair_lt o (2 ^ 64) ->
  runL (bind (song_identifier pk ik) f) lk = runL (f o) lk.
Proof.
  intros H1 H2 W. rewrite runL_bind. unfold song_identifier. rewrite runL_bind. simpl. rewrite H1.
  destruct o as [[p i]|]; simpl; [|reflexivity].
  destruct (W (p, i) eq_refl) as [Wp Wi]. simpl in Wp, Wi.
  rewrite from_uint_rt by exact Wp. simpl. rewrite H2. simpl. rewrite from_uint_rt by exact Wi. reflexivity.
Qed.

(* ---------- status ---------- *)

Definition ms_dur (ms : N) : dur := Some (ms * 10 ^ 6).

(* the value a faithful decoder returns for an abstract status reply.  Only the defaults are not
   the identity: a missing volume reads 0, a missing xfade 0 s (MPD omits xfade when it is 0). *)
Definition expected_status (s : status) : m_status :=
  mkStatus (or_default 0 (s_volume s)) (playstate_ident (s_state s)) (s_repeat s) (s_random s) (s_consume s)
           (single_ident (s_single s)) (s_playlist s) (s_playlistlength s) (s_song s) (s_nextsong s)
           (option_map ms_dur (s_elapsed s)) (option_map ms_dur (s_duration s)) (s_bitrate s)
           (or_default (Some 0) (option_map (fun x => Some (x * 10 ^ 9)) (s_xfade s)))
           (s_updating_db s) (s_error s) (s_partition s).

Lemma status_wire_keys s : NoDup (map fst (status_wire s)).
Proof. apply nodupb_sound. vm_compute. reflexivity. Qed.

Theorem status_roundtrip s fs :
  wf_status s -> Permutation (enc_status s) fs -> exec status_prog fs = TOk (expected_status s).
Proof.
  intros (Wvol & Wpl & Wpll & Wxf & Wsong & Wnext & Wel & Wdu & Wbr & Wup) P.
  rewrite status_is_lookup.
  rewrite (runL_ext _ _ (look1 (status_wire s))).
  2:{ intros k. rewrite (s_find_perm (enc_status s) fs k); [|apply enc_fields_keys; apply status_wire_keys|exact P].
      unfold enc_status. rewrite s_find_enc. apply look_look1. apply status_wire_keys. }
  unfold status_prog.
  (* single *)
  rewrite runL_bind. cbn [p_single runL]. change (look1 (status_wire s) (b "single")) with (Some (single_wire (s_single s))).
  cbn [runL]. rewrite single_rt. cbn [tbind].
  (* duration / Time *)
  rewrite runL_bind. cbn [p_duration runL].
  change (look1 (status_wire s) (b "duration")) with (option_map ms_wire (s_duration s)).
  change (look1 (status_wire s) (b "Time")) with (@None bytes).
  assert (D : runL match option_map ms_wire (s_duration s) with
                   | Some v => Ret (tmap Some (parse_duration v (b "duration")))
                   | None => ret None
                   end (look1 (status_wire s)) = TOk (option_map ms_dur (s_duration s))).
  { destruct (s_duration s) as [d|] eqn:E; simpl; [|reflexivity]. rewrite parse_duration_ms by (apply Wdu; reflexivity). reflexivity. }
  match goal with |- tbind ?X _ = _ => replace X with (TOk (option_map ms_dur (s_duration s))) end.
  2:{ symmetry. destruct (s_duration s) as [d|] eqn:E; simpl in *; exact D. }
  cbn [tbind].
  rewrite (step_opt _ _ _ _ (s_volume s) render_dec (fun x => x)); [|reflexivity|intros x Hx; apply from_uint_rt; apply Wvol; exact Hx].
  rewrite (step_val _ _ _ _ (playstate_wire (s_state s)) (playstate_ident (s_state s))); [|reflexivity|apply playstate_rt].
  rewrite (step_val _ _ _ _ (bool_wire (s_repeat s)) (s_repeat s)); [|reflexivity|apply bool_rt].
  rewrite (step_val _ _ _ _ (bool_wire (s_random s)) (s_random s)); [|reflexivity|apply bool_rt].
  rewrite (step_val _ _ _ _ (bool_wire (s_consume s)) (s_consume s)); [|reflexivity|apply bool_rt].
  rewrite (step_opt _ _ _ _ (Some (s_playlistlength s)) render_dec (fun x => x)); [|reflexivity|intros x Hx; inversion Hx; subst; apply from_uint_rt; exact Wpll].
  rewrite (step_opt _ _ _ _ (Some (s_playlist s)) render_dec (fun x => x)); [|reflexivity|intros x Hx; inversion Hx; subst; apply from_uint_rt; exact Wpl].
  rewrite (step_song _ _ _ _ (s_song s)); [|reflexivity|reflexivity|exact Wsong].
  rewrite (step_song _ _ _ _ (s_nextsong s)); [|reflexivity|reflexivity|exact Wnext].
  rewrite (step_opt _ _ _ _ (s_elapsed s) ms_wire ms_dur); [|reflexivity|intros x Hx; apply parse_duration_ms; apply Wel; exact Hx].
  rewrite (step_opt _ _ _ _ (s_bitrate s) render_dec (fun x => x)); [|reflexivity|intros x Hx; apply from_uint_rt; apply Wbr; exact Hx].
  rewrite (step_opt _ _ _ _ (s_xfade s) render_dec (fun x => Some (x * 10 ^ 9))); [|reflexivity|intros x Hx; apply parse_duration_secs; specialize (Wxf x Hx); lia].
  rewrite (step_opt _ _ _ _ (s_updating_db s) render_dec (fun x => x)); [|reflexivity|intros x Hx; apply from_uint_rt; apply Wup; exact Hx].
  rewrite (step_raw _ _ _ (s_error s)) by reflexivity.
  rewrite (step_raw _ _ _ (s_partition s)) by reflexivity.
  cbn [ret runL]. unfold expected_status. f_equal. f_equal; try (destruct (s_volume s); reflexivity);
    try (destruct (s_bitrate s); reflexivity); try (destruct (s_updating_db s); reflexivity).
Qed.

(* ---------- stats, count, ids, replay gain ---------- *)

Definition secs_dur (n : N) : dur := Some (n * 10 ^ 9).

Definition expected_stats (s : stats) : m_stats :=
  mkStats (t_artists s) (t_albums s) (t_songs s) (secs_dur (t_uptime s)) (secs_dur (t_playtime s))
          (secs_dur (t_db_playtime s)) (t_db_update s).

Lemma enc_stats_keys s : NoDup (map fst (enc_stats s)).
Proof. apply nodupb_sound. vm_compute. reflexivity. Qed.

Theorem stats_roundtrip s fs :
  wf_stats s -> Permutation (enc_stats s) fs -> exec stats_prog fs = TOk (expected_stats s).
Proof.
  intros (W1 & W2 & W3 & W4 & W5 & W6 & W7) P. rewrite stats_is_lookup.
  rewrite (runL_ext _ _ (s_find (enc_stats s))).
  2:{ intros k. apply s_find_perm; [apply enc_stats_keys|exact P]. }
  unfold stats_prog.
  rewrite (step_val _ _ _ _ (render_dec (t_artists s)) (t_artists s)); [|reflexivity|apply from_uint_rt; exact W1].
  rewrite (step_val _ _ _ _ (render_dec (t_albums s)) (t_albums s)); [|reflexivity|apply from_uint_rt; exact W2].
  rewrite (step_val _ _ _ _ (render_dec (t_songs s)) (t_songs s)); [|reflexivity|apply from_uint_rt; exact W3].
  rewrite (step_val _ _ _ _ (render_dec (t_uptime s)) (secs_dur (t_uptime s))); [|reflexivity|apply parse_duration_secs; exact W5].
  rewrite (step_val _ _ _ _ (render_dec (t_playtime s)) (secs_dur (t_playtime s))); [|reflexivity|apply parse_duration_secs; exact W7].
  rewrite (step_val _ _ _ _ (render_dec (t_db_playtime s)) (secs_dur (t_db_playtime s))); [|reflexivity|apply parse_duration_secs; exact W6].
  rewrite (step_val _ _ _ _ (render_dec (t_db_update s)) (t_db_update s)); [|reflexivity|apply from_uint_rt; exact W4].
  reflexivity.
Qed.

Theorem count_roundtrip c fs :
  wf_count c -> Permutation (enc_count c) fs -> exec count_prog fs = TOk (c_songs c, secs_dur (c_playtime c)).
Proof.
  intros (W1 & W2) P. rewrite count_is_lookup.
  rewrite (runL_ext _ _ (s_find (enc_count c))).
  2:{ intros k. apply s_find_perm; [apply nodupb_sound; vm_compute; reflexivity|exact P]. }
  unfold count_prog.
  rewrite (step_val _ _ _ _ (render_dec (c_songs c)) (c_songs c)); [|reflexivity|apply from_uint_rt; exact W1].
  rewrite (step_val _ _ _ _ (render_dec (c_playtime c)) (secs_dur (c_playtime c))); [|reflexivity|apply parse_duration_secs; exact W2].
  reflexivity.
Qed.

Lemma value_single {A} k (cv : conv A) v a : cv v k = TOk a -> exec (value k cv) [(k, v)] = TOk a.
Proof. intros H. rewrite value_is_lookup. simpl. rewrite beq_refl. exact H. Qed.

Theorem update_roundtrip job : job < 2 ^ 64 -> exec update_prog (enc_update job) = TOk job.
Proof. intros H. apply value_single. apply from_uint_rt. exact H. Qed.
Theorem addid_roundtrip id : id < 2 ^ 64 -> exec addid_prog (enc_addid id) = TOk id.
Proof. intros H. apply value_single. apply from_uint_rt. exact H. Qed.
Theorem replay_gain_roundtrip m : exec replaygain_prog (enc_replay_gain m) = TOk (rgmode_ident m).
Proof. apply value_single. apply rgmode_rt. Qed.

(* ---------- soundness for ARBITRARY frames: a decoded status is determined, field by field, by the
   first occurrence of the field's key; absent exactly when omitted; out-of-domain => no value ---------- *)

Definition field_opt {A} (lk : bytes -> option bytes) (k : bytes) (cv : conv A) (o : option A) : Prop :=
  match lk k with
  | None => o = None
  | Some v => exists a, cv v k = TOk a /\ o = Some a
  end.
Definition field_req {A} (lk : bytes -> option bytes) (k : bytes) (cv : conv A) (a : A) : Prop :=
  exists v, lk k = Some v /\ cv v k = TOk a.
Definition field_pair (lk : bytes -> option bytes) (pk ik : bytes) (o : option (N * N)) : Prop :=
  match lk pk with
  | None => o = None
  | Some vp => exists p i, from_uint usize_bits vp pk = TOk p /\ field_req lk ik (from_uint 64) i /\ o = Some (p, i)
  end.

Lemma bind_inv {A B} (p : prog A) (f : A -> prog B) lk r :
  runL (bind p f) lk = TOk r -> exists a, runL p lk = TOk a /\ runL (f a) lk = TOk r.
Proof. rewrite runL_bind. destruct (runL p lk) as [a|e|]; simpl; [|discriminate|discriminate]. intros H. exists a. auto. Qed.

Lemma value_inv {A} k (cv : conv A) lk a : runL (value k cv) lk = TOk a -> field_req lk k cv a.
Proof. simpl. unfold field_req. destruct (lk k) as [v|]; simpl; [|discriminate]. intros H. exists v. auto. Qed.

Lemma optional_inv {A} k (cv : conv A) lk o : runL (optional_value k cv) lk = TOk o -> field_opt lk k cv o.
Proof.
  simpl. unfold field_opt. destruct (lk k) as [v|]; simpl.
  - destruct (cv v k) as [a|e|]; simpl; try discriminate. intros H; inversion H. exists a. auto.
  - intros H; inversion H. reflexivity.
Qed.

Lemma song_identifier_inv pk ik lk o : runL (song_identifier pk ik) lk = TOk o -> field_pair lk pk ik o.
Proof.
  unfold song_identifier. intros H. apply bind_inv in H as (p & H1 & H2). apply optional_inv in H1.
  unfold field_opt in H1. unfold field_pair. destruct (lk pk) as [vp|].
  - destruct H1 as (a & C & ->). apply bind_inv in H2 as (i & H3 & H4). apply value_inv in H3.
    simpl in H4. inversion H4; subst. exists a, i. auto.
  - subst p. simpl in H2. inversion H2. reflexivity.
Qed.

Record status_facts (lk : bytes -> option bytes) (r : m_status) : Prop := {
  sf_single : match lk (b "single") with
              | None => st_single r = b "Disabled"
              | Some v => from_enum single_spellings v (b "single") = TOk (st_single r)
              end;
  sf_duration : match lk (b "duration") with
                | Some v => exists d, parse_duration v (b "duration") = TOk d /\ st_duration r = Some d
                | None => match lk (b "Time") with
                          | None => st_duration r = None
                          | Some t => exists x y d, split_once 58 t = Some (x, y) /\ parse_duration y (b "Time") = TOk d /\ st_duration r = Some d
                          end
                end;
  sf_volume : exists o, field_opt lk (b "volume") (from_uint 8) o /\ st_volume r = or_default 0 o;
  sf_state : field_req lk (b "state") from_playstate (st_state r);
  sf_repeat : field_req lk (b "repeat") from_bool (st_repeat r);
  sf_random : field_req lk (b "random") from_bool (st_random r);
  sf_consume : field_req lk (b "consume") from_bool (st_consume r);
  sf_playlistlength : exists o, field_opt lk (b "playlistlength") (from_uint usize_bits) o /\ st_playlist_length r = or_default 0 o;
  sf_playlist : exists o, field_opt lk (b "playlist") (from_uint 32) o /\ st_playlist_version r = or_default 0 o;
  sf_song : field_pair lk (b "song") (b "songid") (st_current_song r);
  sf_nextsong : field_pair lk (b "nextsong") (b "nextsongid") (st_next_song r);
  sf_elapsed : field_opt lk (b "elapsed") parse_duration (st_elapsed r);
  sf_bitrate : field_opt lk (b "bitrate") (from_uint 64) (st_bitrate r);
  sf_xfade : exists o, field_opt lk (b "xfade") parse_duration o /\ st_crossfade r = or_default (Some 0) o;
  sf_updating_db : field_opt lk (b "updating_db") (from_uint 64) (st_update_job r);
  sf_error : st_error r = lk (b "error");
  sf_partition : st_partition r = lk (b "partition") }.

Theorem status_sound_lookup lk r : runL status_prog lk = TOk r -> status_facts lk r.
Proof.
  unfold status_prog. intros H.
  apply bind_inv in H as (single & Hsingle & H).
  apply bind_inv in H as (duration & Hduration & H).
  apply bind_inv in H as (volume & Hvolume & H). apply optional_inv in Hvolume.
  apply bind_inv in H as (state & Hstate & H). apply value_inv in Hstate.
  apply bind_inv in H as (repeat & Hrepeat & H). apply value_inv in Hrepeat.
  apply bind_inv in H as (random & Hrandom & H). apply value_inv in Hrandom.
  apply bind_inv in H as (consume & Hconsume & H). apply value_inv in Hconsume.
  apply bind_inv in H as (plen & Hplen & H). apply optional_inv in Hplen.
  apply bind_inv in H as (pver & Hpver & H). apply optional_inv in Hpver.
  apply bind_inv in H as (cur & Hcur & H). apply song_identifier_inv in Hcur.
  apply bind_inv in H as (nxt & Hnxt & H). apply song_identifier_inv in Hnxt.
  apply bind_inv in H as (elapsed & Helapsed & H). apply optional_inv in Helapsed.
  apply bind_inv in H as (bitrate & Hbitrate & H). apply optional_inv in Hbitrate.
  apply bind_inv in H as (xfade & Hxfade & H). apply optional_inv in Hxfade.
  apply bind_inv in H as (upd & Hupd & H). apply optional_inv in Hupd.
  apply bind_inv in H as (error & Herror & H). simpl in Herror. inversion Herror; subst error.
  apply bind_inv in H as (partition & Hpartition & H). simpl in Hpartition. inversion Hpartition; subst partition.
  simpl in H. inversion H; subst r. clear H Herror Hpartition.
  constructor; cbn [st_single st_duration st_volume st_state st_repeat st_random st_consume st_playlist_length
                    st_playlist_version st_current_song st_next_song st_elapsed st_bitrate st_crossfade st_update_job
                    st_error st_partition]; try assumption; try reflexivity; try (eexists; split; [eassumption|reflexivity]).
  - cbn [p_single runL] in Hsingle. destruct (lk (b "single")) as [v|]; [exact Hsingle|]. cbn [runL ret] in Hsingle. inversion Hsingle. reflexivity.
  - cbn [p_duration runL] in Hduration. destruct (lk (b "duration")) as [v|].
    + cbn [runL] in Hduration. destruct (parse_duration v (b "duration")) as [d|e|]; cbn [tmap] in Hduration; try discriminate.
      inversion Hduration. exists d. auto.
    + cbn [runL] in Hduration. destruct (lk (b "Time")) as [t|]; [|cbn [runL ret] in Hduration; inversion Hduration; reflexivity].
      destruct (split_once 58 t) as [[x y]|]; [|cbn [runL] in Hduration; discriminate].
      cbn [runL] in Hduration. destruct (parse_duration y (b "Time")) as [d|e|] eqn:PD; cbn [tmap] in Hduration; try discriminate.
      inversion Hduration. exists x, y, d. auto.
Qed.

Theorem status_sound fs r : exec status_prog fs = TOk r -> status_facts (s_find fs) r.
Proof. rewrite status_is_lookup. apply status_sound_lookup. Qed.

(* optional fields are absent exactly when the server omitted them *)
Theorem status_absent_iff fs r : exec status_prog fs = TOk r ->
  let omitted k := ~ In k (map fst fs) in
  (st_elapsed r = None <-> omitted (b "elapsed")) /\
  (st_bitrate r = None <-> omitted (b "bitrate")) /\
  (st_update_job r = None <-> omitted (b "updating_db")) /\
  (st_error r = None <-> omitted (b "error")) /\
  (st_partition r = None <-> omitted (b "partition")) /\
  (st_current_song r = None <-> omitted (b "song")) /\
  (st_next_song r = None <-> omitted (b "nextsong")) /\
  (st_duration r = None <-> omitted (b "duration") /\ omitted (b "Time")).
Proof.
  intros H omitted. apply status_sound in H. destruct H.
  assert (O : forall {A} k (cv : conv A) o, field_opt (s_find fs) k cv o -> (o = None <-> omitted k)).
  { intros A k cv o F. unfold omitted. rewrite <- s_find_none. unfold field_opt in F.
    destruct (s_find fs k); [destruct F as (a & _ & ->); split; discriminate|subst; tauto]. }
  assert (Pr : forall pk ik o, field_pair (s_find fs) pk ik o -> (o = None <-> omitted pk)).
  { intros pk ik o F. unfold omitted. rewrite <- s_find_none. unfold field_pair in F.
    destruct (s_find fs pk); [destruct F as (p & i & _ & _ & ->); split; discriminate|subst; tauto]. }
  repeat split; try (eapply O; eassumption); try (eapply Pr; eassumption);
    unfold omitted in *; rewrite <- ?s_find_none in *.
  - rewrite sf_error0. tauto.
  - rewrite sf_error0. tauto.
  - rewrite sf_partition0. tauto.
  - rewrite sf_partition0. tauto.
  - match goal with H : st_duration r = None |- _ => rename H into E end.
    destruct (s_find fs (b "duration")); [destruct sf_duration0 as (d & _ & E2); congruence|reflexivity].
  - match goal with H : st_duration r = None |- _ => rename H into E end.
    destruct (s_find fs (b "duration")); [destruct sf_duration0 as (d & _ & E2); congruence|].
    destruct (s_find fs (b "Time")); [destruct sf_duration0 as (x & y & d & _ & _ & E2); congruence|reflexivity].
  - intros [E1 E2]. rewrite E1, E2 in sf_duration0. exact sf_duration0.
Qed.

(* a field whose value is outside its domain never yields a value: the conversion reports an error *)
Theorem status_domain fs k :
  In k [b "volume"; b "playlistlength"; b "playlist"; b "song"; b "songid"; b "nextsong"; b "nextsongid";
        b "bitrate"; b "updating_db"; b "state"; b "repeat"; b "random"; b "consume"; b "single";
        b "elapsed"; b "xfade"; b "duration"] ->
  forall v, s_find fs k = Some v ->
  (In k [b "volume"] -> parse_uint 8 v = None) ->
  (In k [b "playlist"] -> parse_uint 32 v = None) ->
  (In k [b "playlistlength"; b "song"; b "songid"; b "nextsong"; b "nextsongid"; b "bitrate"; b "updating_db"] -> parse_uint 64 v = None) ->
  (In k [b "state"] -> lookup_spelling playstate_spellings v = None) ->
  (In k [b "repeat"; b "random"; b "consume"] -> lookup_spelling bool_spellings v = None) ->
  (In k [b "single"] -> lookup_spelling single_spellings v = None) ->
  (In k [b "elapsed"; b "xfade"; b "duration"] -> forall d, parse_duration v k <> TOk d) ->
  (k = b "songid" -> s_find fs (b "song") <> None) -> (k = b "nextsongid" -> s_find fs (b "nextsong") <> None) ->
  exists e, exec status_prog fs = TErr e.
Proof.
  intros Hk v Hv D8 D32 D64 Dst Dbool Dsingle Ddur Hsid Hnid.
  destruct (exec status_prog fs) as [r|e|] eqn:E; [exfalso|exists e; reflexivity|exfalso; revert E; apply exec_np; apply np_status].
  apply status_sound in E. destruct E.
  assert (U : forall bits f n, from_uint bits v f = TOk n -> parse_uint bits v = None -> False).
  { intros bits f n. unfold from_uint. destruct (parse_uint bits v); [discriminate|discriminate]. }
  assert (En : forall tbl f i, from_enum tbl v f = TOk i -> lookup_spelling tbl v = None -> False).
  { intros tbl f i. unfold from_enum. destruct (lookup_spelling tbl v); discriminate. }
  cbn [In] in Hk.
  repeat (destruct Hk as [<-|Hk]); [..|destruct Hk].
  - destruct sf_volume0 as (o & F & _). unfold field_opt in F. rewrite Hv in F. destruct F as (a & F & _). eapply U; [exact F|apply D8; left; reflexivity].
  - destruct sf_playlistlength0 as (o & F & _). unfold field_opt in F. rewrite Hv in F. destruct F as (a & F & _). eapply U; [exact F|apply D64; cbn; tauto].
  - destruct sf_playlist0 as (o & F & _). unfold field_opt in F. rewrite Hv in F. destruct F as (a & F & _). eapply U; [exact F|apply D32; left; reflexivity].
  - unfold field_pair in sf_song0. rewrite Hv in sf_song0. destruct sf_song0 as (p & i & F & _). eapply U; [exact F|apply D64; cbn; tauto].
  - unfold field_pair in sf_song0. destruct (s_find fs (b "song")) as [vp|] eqn:Es; [|apply Hsid; reflexivity].
    destruct sf_song0 as (p & i & _ & (v' & Hv' & F) & _). rewrite Hv in Hv'. inversion Hv'; subst v'. eapply U; [exact F|apply D64; cbn; tauto].
  - unfold field_pair in sf_nextsong0. rewrite Hv in sf_nextsong0. destruct sf_nextsong0 as (p & i & F & _). eapply U; [exact F|apply D64; cbn; tauto].
  - unfold field_pair in sf_nextsong0. destruct (s_find fs (b "nextsong")) as [vp|] eqn:Es; [|apply Hnid; reflexivity].
    destruct sf_nextsong0 as (p & i & _ & (v' & Hv' & F) & _). rewrite Hv in Hv'. inversion Hv'; subst v'. eapply U; [exact F|apply D64; cbn; tauto].
  - unfold field_opt in sf_bitrate0. rewrite Hv in sf_bitrate0. destruct sf_bitrate0 as (a & F & _). eapply U; [exact F|apply D64; cbn; tauto].
  - unfold field_opt in sf_updating_db0. rewrite Hv in sf_updating_db0. destruct sf_updating_db0 as (a & F & _). eapply U; [exact F|apply D64; cbn; tauto].
  - destruct sf_state0 as (v' & Hv' & F). rewrite Hv in Hv'. inversion Hv'; subst v'. eapply En; [exact F|apply Dst; left; reflexivity].
  - destruct sf_repeat0 as (v' & Hv' & F). rewrite Hv in Hv'. inversion Hv'; subst v'. unfold from_bool in F.
    destruct (from_enum bool_spellings v (b "repeat")) eqn:G; simpl in F; try discriminate. eapply En; [exact G|apply Dbool; cbn; tauto].
  - destruct sf_random0 as (v' & Hv' & F). rewrite Hv in Hv'. inversion Hv'; subst v'. unfold from_bool in F.
    destruct (from_enum bool_spellings v (b "random")) eqn:G; simpl in F; try discriminate. eapply En; [exact G|apply Dbool; cbn; tauto].
  - destruct sf_consume0 as (v' & Hv' & F). rewrite Hv in Hv'. inversion Hv'; subst v'. unfold from_bool in F.
    destruct (from_enum bool_spellings v (b "consume")) eqn:G; simpl in F; try discriminate. eapply En; [exact G|apply Dbool; cbn; tauto].
  - rewrite Hv in sf_single0. eapply En; [exact sf_single0|apply Dsingle; left; reflexivity].
  - unfold field_opt in sf_elapsed0. rewrite Hv in sf_elapsed0. destruct sf_elapsed0 as (a & F & _). eapply Ddur; [cbn; tauto|exact F].
  - destruct sf_xfade0 as (o & F & _). unfold field_opt in F. rewrite Hv in F. destruct F as (a & F & _). eapply Ddur; [cbn; tauto|exact F].
  - rewrite Hv in sf_duration0. destruct sf_duration0 as (d & F & _). eapply Ddur; [cbn; tauto|exact F].
Qed.

(* ---------- count grouped: any sequence of groups, repeated and changing keys, either inner order ---------- *)

Definition expected_group (g : bytes * count * bool) : bytes * (N * dur) :=
  let '(v, c, _) := g in (v, (c_songs c, secs_dur (c_playtime c))).

Lemma beq_songs_playtime : beq (b "playtime") (b "songs") = false /\ beq (b "songs") (b "songs") = true /\ beq (b "playtime") (b "playtime") = true.
Proof. repeat split; vm_compute; reflexivity. Qed.

Theorem count_grouped_roundtrip tagname gs : Forall (fun g => wf_count (snd (fst g))) gs ->
  forall acc, count_grouped tagname None acc (enc_count_grouped tagname gs) = TOk (rev acc ++ map expected_group gs).
Proof.
  destruct beq_songs_playtime as (B1 & B2 & B3).
  induction 1 as [|[[v c] swap] gs [W1 W2] _ IH]; intros acc.
  - simpl. rewrite app_nil_r. reflexivity.
  - unfold enc_count_grouped. cbn [flat_map enc_count_group]. simpl in W1, W2.
    pose proof (from_uint_rt 64 (c_songs c) (b "songs") W1) as S1.
    pose proof (parse_duration_secs (c_playtime c) (b "playtime") W2) as S2.
    destruct swap; cbn [app count_grouped]; rewrite beq_refl.
    + rewrite B1, B3, S2. cbn [isnone orb]. rewrite B2, S1. cbn [isnone orb].
      fold (enc_count_grouped tagname gs). rewrite IH. cbn [rev map expected_group]. rewrite <- app_assoc. reflexivity.
    + rewrite B2, S1. cbn [isnone orb]. rewrite B1, B3, S2. cbn [isnone orb].
      fold (enc_count_grouped tagname gs). rewrite IH. cbn [rev map expected_group]. rewrite <- app_assoc. reflexivity.
Qed.

(* ---------- list ---------- *)

(* a tag the server echoes under the name the client sent, and which parses back to an equal tag
   (every named variant; Other(s) unless s is a known name in another letter case, C20) *)
Definition tag_rt (t : tag) : Prop := exists u, tag_try_from (tag_as_str t) = TagOk u /\ tag_eq u t = true.

Lemma tag_eq_sym t u : tag_eq t u = tag_eq u t.
Proof. unfold tag_eq. destruct (beq (tag_as_str t) (tag_as_str u)) eqn:E.
  - apply beq_eq in E. rewrite E. symmetry. apply beq_refl.
  - destruct (beq (tag_as_str u) (tag_as_str t)) eqn:E2; [|reflexivity]. apply beq_eq in E2. rewrite E2, beq_refl in E. discriminate.
Qed.

Lemma tag_eq_trans_l t u w : tag_eq t u = true -> tag_eq t w = tag_eq u w.
Proof. unfold tag_eq. intros H. apply beq_eq in H. rewrite H. reflexivity. Qed.

Lemma set_nth_spec {A} n (x : A) l : (n < length l)%nat -> set_nth n x l = Some (firstn n l ++ x :: skipn (S n) l).
Proof.
  revert n; induction l as [|y r IH]; intros n H; simpl in H; [lia|].
  destruct n as [|m]; [reflexivity|]. simpl. rewrite IH by lia. reflexivity.
Qed.

Lemma upd_length {A} i (x : A) l : (i < length l)%nat -> length (firstn i l ++ x :: skipn (S i) l) = length l.
Proof.
  revert i; induction l as [|y r IH]; intros i H; simpl in H; [lia|].
  destruct i as [|j]; [reflexivity|]. simpl. f_equal. apply IH. lia.
Qed.

Lemma position_nodup (names : list bytes) i (f : bytes -> bool) :
  NoDup names -> (i < length names)%nat -> (forall n, f n = beq n (nth i names [])) ->
  position f names = Some i.
Proof.
  revert i; induction names as [|n r IH]; intros i ND Hi Hf; simpl in Hi; [lia|]. inversion ND; subst.
  destruct i as [|j]; simpl.
  - rewrite Hf. simpl. rewrite beq_refl. reflexivity.
  - rewrite Hf. simpl. destruct (beq n (nth j r [])) eqn:E.
    + apply beq_eq in E. exfalso. apply H1. rewrite E. apply nth_In. lia.
    + rewrite (IH j); [reflexivity|assumption|lia|]. intros m. rewrite Hf. reflexivity.
Qed.

Lemma position_map {A B} (g : A -> B) (f : B -> bool) l : position f (map g l) = position (fun x => f (g x)) l.
Proof. induction l as [|x r IH]; simpl; [reflexivity|]. rewrite IH. reflexivity. Qed.

Definition row_value (r : list_row) : bytes * list bytes := (snd (fst r), snd r).

(* headers applied through the iterator's own update *)
Lemma grouped_iter_headers primary groups hs : forall cur rest,
  NoDup (map tag_as_str (primary :: groups)) ->
  Forall (fun h => (fst h < length groups)%nat) hs -> length cur = length groups ->
  forall hdr_tags, Forall2 (fun h u => tag_eq u (nth (fst h) groups primary) = true) hs hdr_tags ->
  grouped_iter primary groups cur (combine hdr_tags (map snd hs) ++ rest) =
  grouped_iter primary groups (apply_headers hs cur) rest.
Proof.
  induction hs as [|[i v] hs IH]; intros cur rest ND Hi L hdr_tags F2.
  { inversion F2; subst. reflexivity. }
  inversion F2 as [|h0 u hs0 tags Hu Htags]; subst.
  inversion Hi as [|h1 hs1 Hlt Hrest]; subst. cbn [fst snd] in *. cbn [map combine app grouped_iter apply_headers].
  assert (Ni : In (nth i groups primary) groups) by (apply nth_In; assumption).
  pose proof ND as ND'. simpl in ND'. inversion ND' as [|n0 l0 Hnotin NDg]; subst.
  assert (Np : tag_eq u primary = false).
  { rewrite (tag_eq_trans_l u (nth i groups primary) primary) by assumption. unfold tag_eq.
    destruct (beq (tag_as_str (nth i groups primary)) (tag_as_str primary)) eqn:E; [|reflexivity].
    apply beq_eq in E. exfalso. apply Hnotin. rewrite <- E. apply in_map. exact Ni. }
  rewrite Np.
  assert (P : position (fun g => tag_eq g u) groups = Some i).
  { transitivity (position (fun n => beq n (tag_as_str u)) (map tag_as_str groups)); [rewrite position_map; reflexivity|].
    apply position_nodup; [assumption|rewrite map_length; assumption|].
    intros n. rewrite (nth_indep _ [] (tag_as_str primary)) by (rewrite map_length; assumption).
    rewrite map_nth. unfold tag_eq in Hu. apply beq_eq in Hu. rewrite Hu. reflexivity. }
  rewrite P. rewrite set_nth_spec by (rewrite L; assumption).
  apply IH; try assumption.
  rewrite upd_length by (rewrite L; assumption). exact L.
Qed.

Lemma apply_headers_length hs : forall cur n, Forall (fun h => (fst h < n)%nat) hs -> length cur = n -> length (apply_headers hs cur) = n.
Proof.
  induction hs as [|[i v] hs IH]; intros cur n F L; [exact L|]. inversion F as [|h0 hs0 Hlt Hrest]; subst.
  cbn [fst] in *. cbn [apply_headers].
  apply IH; [assumption|]. apply upd_length. assumption.
Qed.

(* the parsed form of an encoded listing: every key parses to a tag equal to the one it names *)
Fixpoint parsed_rows (prim : tag) (hdrs : list (list tag)) (rows : list list_row) : list (tag * bytes) :=
  match rows, hdrs with
  | (hs, v, _) :: r, h :: hr => combine h (map snd hs) ++ (prim, v) :: parsed_rows prim hr r
  | _, _ => []
  end.

Lemma grouped_iter_rows primary groups prim' : tag_eq prim' primary = true ->
  NoDup (map tag_as_str (primary :: groups)) ->
  forall rows cur hdrs, length cur = length groups -> rows_ok (length groups) cur rows ->
  Forall2 (fun (row : list_row) h => Forall2 (fun x u => tag_eq u (nth (fst x) groups primary) = true) (fst (fst row)) h) rows hdrs ->
  grouped_iter primary groups cur (parsed_rows prim' hdrs rows) = TOk (map row_value rows).
Proof.
  intros Ep ND. induction rows as [|[[hs v] gs] rows IH]; intros cur hdrs L OK F2; inversion F2; subst; [reflexivity|].
  destruct OK as (Hi & Happ & OK). cbn [parsed_rows fst snd] in *.
  rewrite (grouped_iter_headers primary groups hs cur _ ND Hi L y H1).
  cbn [grouped_iter]. rewrite Ep. rewrite Happ. rewrite (IH gs l'); [reflexivity| |exact OK|assumption].
  rewrite <- Happ. apply apply_headers_length; assumption.
Qed.

Lemma list_fields_app x y : list_fields (x ++ y) = tbind (list_fields x) (fun a => tmap (app a) (list_fields y)).
Proof.
  induction x as [|[k v] r IH]; simpl; [destruct (list_fields y); reflexivity|].
  destruct (tag_try_from k); try reflexivity. rewrite IH. destruct (list_fields r); simpl; try reflexivity.
  destruct (list_fields y); reflexivity.
Qed.

Lemma list_fields_headers groups primary (hs : list (nat * bytes)) :
  Forall tag_rt groups -> tag_rt primary -> Forall (fun h => (fst h < length groups)%nat) hs ->
  exists tags, list_fields (map (fun h => (nth (fst h) (map tag_as_str groups) [], snd h)) hs) = TOk (combine tags (map snd hs)) /\
               Forall2 (fun h u => tag_eq u (nth (fst h) groups primary) = true) hs tags.
Proof.
  intros RG RP. induction hs as [|[i v] hs IH]; intros F; [exists []; split; [reflexivity|constructor]|].
  inversion F; subst. cbn [fst snd] in *. destruct (IH H2) as (tags & E & F2).
  assert (RT : tag_rt (nth i groups primary)). { rewrite Forall_forall in RG. apply RG. apply nth_In. assumption. }
  destruct RT as (u & Eu & Equ).
  exists (u :: tags). split; [|constructor; assumption].
  cbn [map list_fields fst snd]. rewrite (nth_indep _ [] (tag_as_str primary)) by (rewrite map_length; assumption).
  rewrite map_nth, Eu, E. reflexivity.
Qed.

Theorem list_grouped_roundtrip primary groups rows :
  tag_rt primary -> Forall tag_rt groups -> NoDup (map tag_as_str (primary :: groups)) ->
  rows_ok (length groups) (map (fun _ => []) groups) rows ->
  tbind (list_model primary groups (enc_list (tag_as_str primary) (map tag_as_str groups) rows)) grouped_values
  = TOk (map row_value rows).
Proof.
  intros RP RG ND OK. destruct RP as (pu & Epu & Eqpu).
  assert (RP : tag_rt primary) by (exists pu; auto).
  assert (E : forall rows cur, rows_ok (length groups) cur rows ->
              exists hdrs, list_fields (enc_list (tag_as_str primary) (map tag_as_str groups) rows) = TOk (parsed_rows pu hdrs rows) /\
                Forall2 (fun (row : list_row) h => Forall2 (fun x u => tag_eq u (nth (fst x) groups primary) = true) (fst (fst row)) h) rows hdrs).
  { clear OK rows. induction rows as [|[[hs v] gs] rows IH]; intros cur OK; [exists []; split; [reflexivity|constructor]|].
    destruct OK as (Hi & Happ & OK). destruct (IH gs OK) as (hdrs & E1 & F1).
    destruct (list_fields_headers groups primary hs RG RP Hi) as (tags & E2 & F2).
    exists (tags :: hdrs). split; [|constructor; assumption].
    unfold enc_list. cbn [flat_map enc_list_row]. fold (enc_list (tag_as_str primary) (map tag_as_str groups) rows).
    rewrite <- app_assoc, list_fields_app, E2. cbn [tbind app list_fields]. rewrite Epu, E1. cbn [tmap parsed_rows].
    reflexivity. }
  destruct (E rows _ OK) as (hdrs & E1 & F1).
  unfold list_model. rewrite E1. cbn [tmap tbind]. unfold grouped_values. cbn [l_primary l_groupings l_fields].
  apply grouped_iter_rows; try assumption. apply map_length.
Qed.

(* plain list: the values in order *)
Theorem list_plain_roundtrip primary values : tag_rt primary ->
  tmap list_values (list_model primary [] (map (fun v => (tag_as_str primary, v)) values)) = TOk values.
Proof.
  intros (u & Eu & _). unfold list_model. induction values as [|v r IH]; [reflexivity|].
  cbn [map list_fields]. rewrite Eu. destruct (list_fields (map (fun v0 => (tag_as_str primary, v0)) r)) as [l|e|]; simpl in *; try discriminate.
  unfold list_values in *. simpl in *. inversion IH. reflexivity.
Qed.

(* ---------- stickers: the FIRST '=' separates name and value ---------- *)

Lemma split_once_first sep x y : ~ In sep x -> split_once sep (x ++ sep :: y) = Some (x, y).
Proof.
  induction x as [|c r IH]; intros H; simpl.
  - rewrite N.eqb_refl. reflexivity.
  - destruct (c =? sep) eqn:E; [apply N.eqb_eq in E; subst; exfalso; apply H; left; reflexivity|].
    rewrite IH; [reflexivity|]. intros Hin. apply H. right. exact Hin.
Qed.

Lemma sticker_value_rt name value : sticker_name_ok name -> parse_sticker_value (sticker_line name value) = TOk (name, value).
Proof. intros H. unfold parse_sticker_value, sticker_line. cbn [app]. rewrite split_once_first by exact H. reflexivity. Qed.

(* a value containing '=' survives *)
Theorem sticker_get_roundtrip name value : sticker_name_ok name ->
  sticker_get_model (enc_sticker_get name value) = TOk value.
Proof.
  intros H. unfold sticker_get_model, enc_sticker_get. rewrite beq_refl, sticker_value_rt by exact H. reflexivity.
Qed.

Lemma map_insert_fresh k v m : ~ In k (map fst m) -> map_insert k v m = m ++ [(k, v)].
Proof.
  induction m as [|[k' v'] r IH]; simpl; intros H; [reflexivity|].
  destruct (beq k' k) eqn:E; [apply beq_eq in E; subst; tauto|]. rewrite IH by tauto. reflexivity.
Qed.

Lemma nodup_app_fresh (m : list (bytes * bytes)) k v l : NoDup (map fst (m ++ (k, v) :: l)) ->
  ~ In k (map fst m) /\ NoDup (map fst ((m ++ [(k, v)]) ++ l)).
Proof.
  intros H. rewrite <- app_assoc. split; [|exact H].
  rewrite map_app in H. simpl in H. apply NoDup_remove_2 in H. intros Hin. apply H. apply in_or_app. left. exact Hin.
Qed.

Theorem sticker_list_roundtrip l : Forall (fun p => sticker_name_ok (fst p)) l ->
  forall m, NoDup (map fst (m ++ l)) -> sticker_list m (enc_sticker_list l) = TOk (m ++ l).
Proof.
  induction 1 as [|[n v] l Hn _ IH]; intros m ND; simpl; [rewrite app_nil_r; reflexivity|].
  rewrite sticker_value_rt by exact Hn. destruct (nodup_app_fresh m n v l ND) as [F ND'].
  rewrite map_insert_fresh by exact F. rewrite IH by exact ND'. rewrite <- app_assoc. reflexivity.
Qed.

(* find: each sticker is paired with the file line that precedes it *)
Theorem sticker_find_roundtrip name l : sticker_name_ok name ->
  forall m file, NoDup (map fst (m ++ l)) -> sticker_find file m (enc_sticker_find name l) = TOk (m ++ l).
Proof.
  intros Hn. induction l as [|[f v] l IH]; intros m file ND; [simpl; rewrite app_nil_r; reflexivity|].
  unfold enc_sticker_find. cbn [flat_map app fst snd sticker_find].
  change (beq (b "file") (b "file")) with true. change (beq (b "sticker") (b "file")) with false.
  change (beq (b "sticker") (b "sticker")) with true. cbn iota.
  rewrite sticker_value_rt by exact Hn. destruct (nodup_app_fresh m f v l ND) as [F ND'].
  rewrite map_insert_fresh by exact F. fold (enc_sticker_find name l). rewrite IH by exact ND'.
  rewrite <- app_assoc. reflexivity.
Qed.

(* ---------- playlists, channels, messages, tag types ---------- *)

Theorem playlists_roundtrip l : Forall (fun p => canonical_timestamp (snd p) = true) l ->
  forall acc, playlists None acc (enc_playlists l) = TOk (rev acc ++ l).
Proof.
  induction 1 as [|[n ts] l Hts _ IH]; intros acc; [simpl; rewrite app_nil_r; reflexivity|].
  unfold enc_playlists. cbn [flat_map app fst snd playlists].
  change (beq (b "playlist") (b "playlist")) with true. change (beq (b "Last-Modified") (b "Last-Modified")) with true. cbn iota.
  unfold timestamp_from_value. simpl in Hts. rewrite Hts. fold (enc_playlists l). rewrite IH.
  cbn [rev]. rewrite <- app_assoc. reflexivity.
Qed.

Theorem channels_roundtrip l : channels_model (enc_channels l) = TOk l.
Proof.
  induction l as [|c l IH]; [reflexivity|]. cbn [enc_channels map channels_model].
  change (beq (b "channel") (b "channel")) with true. cbn iota. fold (enc_channels l). rewrite IH. reflexivity.
Qed.

Theorem messages_roundtrip l : messages_model (enc_messages l) = TOk l.
Proof.
  induction l as [|[c m] l IH]; [reflexivity|]. unfold enc_messages. cbn [flat_map app fst snd messages_model].
  change (beq (b "channel") (b "channel")) with true. change (beq (b "message") (b "message")) with true. cbn iota.
  fold (enc_messages l). rewrite IH. reflexivity.
Qed.

Theorem tagtypes_roundtrip names tags : Forall2 (fun n t => tag_try_from n = TagOk t) names tags ->
  tagtypes_model (enc_tagtypes names) = TOk tags.
Proof.
  induction 1 as [|n t names tags E _ IH]; [reflexivity|]. cbn [enc_tagtypes map tagtypes_model].
  change (beq (b "tagtype") (b "tagtype")) with true. cbn iota. rewrite E. fold (enc_tagtypes names). rewrite IH. reflexivity.
Qed.

(* ---------- album art chunk: size, optional type, payload ---------- *)

Theorem albumart_roundtrip size mime data : size < 2 ^ 64 ->
  albumart_model (mkFrame (enc_fields [(b "size", Some (render_dec size)); (b "type", mime)]) (Some data))
  = TOk (Some (size, mime, data)).
Proof.
  intros H. unfold albumart_model. cbn [f_binary f_fields]. rewrite albumart_is_lookup.
  rewrite (runL_ext _ _ (look1 [(b "size", Some (render_dec size)); (b "type", mime)])).
  2:{ intros k. rewrite s_find_enc. apply look_look1. apply nodupb_sound. vm_compute. reflexivity. }
  unfold albumart_prog.
  rewrite (step_val _ _ _ _ (render_dec size) size); [|reflexivity|apply from_uint_rt; exact H].
  rewrite (step_raw _ _ _ mime) by reflexivity. reflexivity.
Qed.

Theorem albumart_none fs : albumart_model (mkFrame fs None) = TOk None.
Proof. reflexivity. Qed.
