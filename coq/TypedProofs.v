(* TypedProofs.v — lemmas for C12 (totality) and C16 (faithful decoding) about TypedModel. *)
From Coq Require Import ZArith ZifyBool ZifyN ZifyNat Permutation.
From MPD Require Import Bytes Tables BuilderModel FrameModel FrameProofs TagModel TagProofs TypedModel.
Open Scope N_scope.

(* ====================================================================================== *)
(* A. numerals: render_dec / parse_uint / span_digits                                      *)
(* ====================================================================================== *)

Lemma dec_acc_app a x y : dec_acc a (x ++ y) = dec_acc (dec_acc a x) y.
Proof. revert a; induction x as [|d x IH]; intros a; simpl; auto. Qed.

Lemma dec_acc_shift a x : dec_acc a x = a * 10 ^ N.of_nat (length x) + dec_acc 0 x.
Proof.
  revert a; induction x as [|d x IH]; intros a.
  - simpl. change (10 ^ N.of_nat 0) with 1. lia.
  - cbn [dec_acc length]. rewrite (IH (a * 10 + digit_val d)), (IH (0 * 10 + digit_val d)).
    rewrite Nat2N.inj_succ, N.pow_succ_r'. lia.
Qed.

Lemma dec_value_app x y : dec_value (x ++ y) = dec_value x * 10 ^ N.of_nat (length y) + dec_value y.
Proof. unfold dec_value. rewrite dec_acc_app, dec_acc_shift. reflexivity. Qed.

Lemma digit_of_mod n : is_digit (48 + n mod 10) = true /\ digit_val (48 + n mod 10) = n mod 10.
Proof.
  pose proof (N.mod_lt n 10 ltac:(lia)). unfold is_digit, in_range, digit_val. split; lia.
Qed.

Lemma rda_unfold f n acc :
  render_dec_aux (S f) n acc =
  if n / 10 =? 0 then (48 + n mod 10) :: acc else render_dec_aux f (n / 10) ((48 + n mod 10) :: acc).
Proof. reflexivity. Qed.

(* the characterisation of render_dec_aux: it prepends the digits of n *)
Lemma render_dec_aux_spec fuel : forall n acc, n < 2 ^ N.of_nat (S fuel) ->
  exists ds, render_dec_aux (S fuel) n acc = ds ++ acc /\ ds <> [] /\ forallb is_digit ds = true /\ dec_value ds = n.
Proof.
  induction fuel as [|f IH]; intros n acc H.
  - change (2 ^ N.of_nat 1) with 2 in H.
    rewrite rda_unfold. assert (E : n / 10 = 0) by (apply N.div_small; lia). rewrite E.
    change (0 =? 0) with true. cbn iota.
    exists [48 + n mod 10]. destruct (digit_of_mod n) as [D1 D2].
    split; [reflexivity|]. split; [discriminate|]. split; [simpl; rewrite D1; reflexivity|].
    unfold dec_value. cbn [dec_acc]. rewrite D2. rewrite N.mod_small by lia. lia.
  - rewrite rda_unfold. destruct (digit_of_mod n) as [D1 D2].
    destruct (n / 10 =? 0) eqn:E.
    + exists [48 + n mod 10]. split; [reflexivity|]. split; [discriminate|]. split; [simpl; rewrite D1; reflexivity|].
      unfold dec_value. cbn [dec_acc]. rewrite D2. apply N.eqb_eq in E.
      pose proof (N.div_mod n 10 ltac:(lia)). lia.
    + assert (Hn : n / 10 < 2 ^ N.of_nat (S f)).
      { rewrite Nat2N.inj_succ, N.pow_succ_r' in H.
        assert (n / 10 <= n / 2).
        { pose proof (N.div_mod n 10 ltac:(lia)). pose proof (N.div_mod n 2 ltac:(lia)).
          pose proof (N.mod_lt n 10 ltac:(lia)). pose proof (N.mod_lt n 2 ltac:(lia)). lia. }
        assert (n / 2 < 2 ^ N.of_nat (S f)) by (apply N.div_lt_upper_bound; lia). lia. }
      destruct (IH (n / 10) ((48 + n mod 10) :: acc) Hn) as (ds & H1 & H2 & H3 & H4).
      exists (ds ++ [48 + n mod 10]). split.
      * rewrite H1, <- app_assoc. reflexivity.
      * split; [destruct ds; discriminate|]. split.
        -- rewrite forallb_app, H3. simpl. rewrite D1. reflexivity.
        -- rewrite dec_value_app, H4. unfold dec_value. cbn [dec_acc length]. rewrite D2.
           change (10 ^ N.of_nat 1) with 10. pose proof (N.div_mod n 10 ltac:(lia)). lia.
Qed.

Lemma render_dec_spec n :
  render_dec n <> [] /\ forallb is_digit (render_dec n) = true /\ dec_value (render_dec n) = n.
Proof.
  unfold render_dec.
  assert (H : n < 2 ^ N.of_nat (S (N.to_nat (N.log2 n)))).
  { rewrite Nat2N.inj_succ, N2Nat.id. destruct (N.eq_dec n 0) as [->|Hn]; [reflexivity|].
    apply N.log2_spec. lia. }
  destruct (render_dec_aux_spec _ n [] H) as (ds & H1 & H2 & H3 & H4).
  rewrite H1, app_nil_r. auto.
Qed.

Lemma render_dec_head n : exists d r, render_dec n = d :: r /\ is_digit d = true.
Proof.
  destruct (render_dec_spec n) as (H1 & H2 & _). destruct (render_dec n) as [|d r]; [congruence|].
  exists d, r. simpl in H2. apply andb_true_iff in H2. tauto.
Qed.

Lemma parse_digits_render bits n : parse_digits bits (render_dec n) = if n <? 2 ^ bits then Some n else None.
Proof.
  destruct (render_dec_spec n) as (H1 & H2 & H3). unfold parse_digits.
  destruct (render_dec n) as [|d r] eqn:E; [congruence|]. rewrite H2, H3. reflexivity.
Qed.

(* Rust str::parse::<uN> accepts the canonical numeral of n exactly when n fits the width *)
Lemma parse_uint_render bits n : parse_uint bits (render_dec n) = if n <? 2 ^ bits then Some n else None.
Proof.
  rewrite <- parse_digits_render. unfold parse_uint.
  destruct (render_dec_head n) as (d & r & E & D). rewrite E.
  assert (d <> 43) by (unfold is_digit, in_range in D; lia).
  destruct d as [|p]; [reflexivity|].
  repeat (destruct p as [p|p|]; try reflexivity); congruence.
Qed.

Lemma parse_uint_render_iff bits n : parse_uint bits (render_dec n) = Some n <-> n < 2 ^ bits.
Proof.
  rewrite parse_uint_render. destruct (n <? 2 ^ bits) eqn:E; split; intro H; try lia; try discriminate; reflexivity.
Qed.

(* whatever parse_uint returns fits the width: overflow can only be an error *)
Lemma parse_uint_sound bits s n : parse_uint bits s = Some n -> n < 2 ^ bits.
Proof.
  assert (P : forall t, parse_digits bits t = Some n -> n < 2 ^ bits).
  { intros t. unfold parse_digits. destruct t; [discriminate|]. destruct (forallb is_digit (n0 :: t)); [|discriminate].
    destruct (dec_value (n0 :: t) <? 2 ^ bits) eqn:E; [|discriminate]. intros H; inversion H; subst. lia. }
  unfold parse_uint. destruct s as [|c r]; [apply P|].
  destruct (N.eq_dec c 43) as [->|Hc]; [apply P|].
  destruct c as [|p]; [apply P|].
  repeat (destruct p as [p|p|]; try apply P).
Qed.

Lemma span_digits_app ds r :
  forallb is_digit ds = true -> match r with [] => True | c :: _ => is_digit c = false end ->
  span_digits (ds ++ r) = (ds, r).
Proof.
  intros H Hr. induction ds as [|d ds IH]; simpl in *.
  - destruct r as [|c r']; [reflexivity|]. simpl. rewrite Hr. reflexivity.
  - apply andb_true_iff in H as [H1 H2]. rewrite H1, (IH H2). reflexivity.
Qed.

(* ====================================================================================== *)
(* B. programs over a frame: order-independence of distinct keys                           *)
(* ====================================================================================== *)

Lemma s_get_find l k : fst (s_get l k) = s_find l k.
Proof.
  induction l as [|[k' v] r IH]; simpl; [reflexivity|].
  destruct (beq k' k); [reflexivity|]. destruct (s_get r k) as [o r']. simpl in *. exact IH.
Qed.

Lemma s_get_other l k k' : k' <> k -> s_find (snd (s_get l k)) k' = s_find l k'.
Proof.
  intros Hk. induction l as [|[k0 v] r IH]; simpl; [reflexivity|].
  destruct (beq k0 k) eqn:E.
  - apply beq_eq in E. subst. simpl. destruct (beq k k') eqn:E2; [apply beq_eq in E2; congruence|reflexivity].
  - destruct (s_get r k) as [o r'] eqn:G. simpl in *. rewrite IH. reflexivity.
Qed.

(* [uses p ks]: along every path p asks for keys in the order of ks, each at most once
   (it may stop early and may skip keys) *)
Inductive uses {A} : prog A -> list bytes -> Prop :=
  | u_ret r ks : uses (Ret r) ks
  | u_get k c ks : (forall o, uses (c o) ks) -> uses (Get k c) (k :: ks)
  | u_skip p k ks : uses p ks -> uses p (k :: ks).

Lemma uses_weaken {A} (p : prog A) ks0 ks : uses p ks -> uses p (ks0 ++ ks).
Proof. intros H. induction ks0 as [|k ks0 IH]; simpl; [exact H|]. apply u_skip. exact IH. Qed.

Lemma uses_nil_r {A} (p : prog A) ks ks' : uses p ks -> uses p (ks ++ ks').
Proof.
  intros H. induction H; simpl.
  - apply u_ret.
  - apply u_get. auto.
  - apply u_skip. auto.
Qed.

Lemma uses_bind {A B} (p : prog A) (f : A -> prog B) ks1 ks2 :
  uses p ks1 -> (forall a, uses (f a) ks2) -> uses (bind p f) (ks1 ++ ks2).
Proof.
  intros H Hf. induction H as [r ks|k c ks H IH|p k ks H IH]; simpl.
  - destruct r as [a|e|]; [apply uses_weaken; apply Hf| apply u_ret | apply u_ret].
  - apply u_get. intros o. apply IH.
  - apply u_skip. exact IH.
Qed.

(* Frame::get on distinct keys = lookup in the original frame *)
Theorem run_lookup {A} (p : prog A) ks : uses p ks -> NoDup ks ->
  forall fs fs', (forall k, In k ks -> s_find fs' k = s_find fs k) -> fst (run p fs') = runL p (s_find fs).
Proof.
  intros H. induction H as [r ks|k c ks H IH|p k ks H IH]; intros ND fs fs' Hf.
  - reflexivity.
  - cbn [run runL]. pose proof (s_get_find fs' k) as G1. pose proof (fun k' => s_get_other fs' k k') as G2.
    destruct (s_get fs' k) as [o fs'']. cbn [fst snd] in *. subst o.
    rewrite (Hf k (or_introl eq_refl)). inversion ND; subst. apply IH; [assumption|].
    intros k' Hk'. rewrite G2; [apply Hf; right; exact Hk'|]. intros ->. contradiction.
  - inversion ND; subst. apply IH; [assumption|]. intros k' Hk'. apply Hf. right. exact Hk'.
Qed.

Corollary exec_lookup {A} (p : prog A) ks fs : uses p ks -> NoDup ks -> exec p fs = runL p (s_find fs).
Proof. intros H ND. unfold exec. apply (run_lookup p ks H ND fs fs). reflexivity. Qed.

Lemma runL_bind {A B} (p : prog A) (f : A -> prog B) look :
  runL (bind p f) look = tbind (runL p look) (fun a => runL (f a) look).
Proof.
  induction p as [r|k c IH]; simpl.
  - destruct r; reflexivity.
  - apply IH.
Qed.

Fixpoint nodupb (l : list bytes) : bool :=
  match l with
  | [] => true
  | x :: r => negb (existsb (beq x) r) && nodupb r
  end.

Lemma nodupb_sound l : nodupb l = true -> NoDup l.
Proof.
  induction l as [|x r IH]; simpl; intros H; [constructor|].
  apply andb_true_iff in H as [H1 H2]. constructor; [|auto].
  intros Hin. apply negb_true_iff in H1. assert (existsb (beq x) r = true); [|congruence].
  apply existsb_exists. exists x. split; [assumption|apply beq_refl].
Qed.

Lemma uses_value {A} k (cv : conv A) : uses (value k cv) [k].
Proof. apply u_get. intros [v|]; apply u_ret. Qed.
Lemma uses_optional {A} k (cv : conv A) : uses (optional_value k cv) [k].
Proof. apply u_get. intros [v|]; apply u_ret. Qed.
Lemma uses_get_raw k : uses (get_raw k) [k].
Proof. apply u_get. intros o; apply u_ret. Qed.
Lemma uses_song_identifier pk ik : uses (song_identifier pk ik) [pk; ik].
Proof.
  unfold song_identifier. apply (uses_bind _ _ [pk] [ik]); [apply uses_optional|].
  intros [p|]; [|apply u_ret]. rewrite <- (app_nil_r [ik]). apply uses_bind; [apply uses_value|]. intros; apply u_ret.
Qed.
Lemma uses_p_single : uses p_single [b "single"].
Proof. apply u_get. intros [v|]; apply u_ret. Qed.
Lemma uses_p_duration : uses p_duration [b "duration"; b "Time"].
Proof.
  apply u_get. intros [v|]; [apply u_ret|]. apply u_get. intros [t|]; [|apply u_ret].
  destruct (split_once 58 t) as [[x y]|]; apply u_ret.
Qed.

Definition status_keys : list bytes :=
  [b "single"] ++ [b "duration"; b "Time"] ++ [b "volume"] ++ [b "state"] ++ [b "repeat"] ++ [b "random"] ++ [b "consume"] ++
  [b "playlistlength"] ++ [b "playlist"] ++ [b "song"; b "songid"] ++ [b "nextsong"; b "nextsongid"] ++ [b "elapsed"] ++
  [b "bitrate"] ++ [b "xfade"] ++ [b "updating_db"] ++ [b "error"] ++ [b "partition"] ++ [].

Lemma uses_status : uses status_prog status_keys.
Proof.
  unfold status_prog, status_keys.
  repeat (apply uses_bind;
          [ first [apply uses_p_single | apply uses_p_duration | apply uses_value | apply uses_optional
                  | apply uses_song_identifier | apply uses_get_raw] | intros ? ]).
  apply u_ret.
Qed.

(* the tie to the source: the keys of the model are the literals of Status::from_frame, in order *)
Lemma status_keys_are_source : status_keys = status_fields_read.
Proof. vm_compute. reflexivity. Qed.

Lemma status_keys_nodup : NoDup status_fields_read.
Proof. apply nodupb_sound. vm_compute. reflexivity. Qed.

Theorem status_is_lookup fs : exec status_prog fs = runL status_prog (s_find fs).
Proof.
  apply (exec_lookup _ status_fields_read).
  - rewrite <- status_keys_are_source. apply uses_status.
  - apply status_keys_nodup.
Qed.

Definition stats_keys : list bytes :=
  [b "artists"] ++ [b "albums"] ++ [b "songs"] ++ [b "uptime"] ++ [b "playtime"] ++ [b "db_playtime"] ++ [b "db_update"] ++ [].

Lemma uses_stats : uses stats_prog stats_keys.
Proof.
  unfold stats_prog, stats_keys. repeat (apply uses_bind; [apply uses_value | intros ?]). apply u_ret.
Qed.

Theorem stats_is_lookup fs : exec stats_prog fs = runL stats_prog (s_find fs).
Proof. apply (exec_lookup _ stats_keys); [apply uses_stats|]. apply nodupb_sound. vm_compute. reflexivity. Qed.

Theorem count_is_lookup fs : exec count_prog fs = runL count_prog (s_find fs).
Proof.
  apply (exec_lookup _ ([b "songs"] ++ [b "playtime"] ++ [])).
  - unfold count_prog. repeat (apply uses_bind; [apply uses_value | intros ?]). apply u_ret.
  - apply nodupb_sound. vm_compute. reflexivity.
Qed.

Theorem value_is_lookup {A} k (cv : conv A) fs : exec (value k cv) fs = runL (value k cv) (s_find fs).
Proof. apply (exec_lookup _ [k]); [apply uses_value|]. repeat constructor. intros []. Qed.

Theorem albumart_is_lookup fs : exec albumart_prog fs = runL albumart_prog (s_find fs).
Proof.
  apply (exec_lookup _ ([b "size"] ++ [b "type"] ++ [])).
  - unfold albumart_prog. apply uses_bind; [apply uses_value|intros ?]. apply uses_bind; [apply uses_get_raw|intros ?]. apply u_ret.
  - apply nodupb_sound. vm_compute. reflexivity.
Qed.

(* lookups are invariant under permutation when keys are pairwise distinct *)
Lemma s_find_in l k v : s_find l k = Some v -> In (k, v) l.
Proof.
  induction l as [|[k' v'] r IH]; simpl; [discriminate|]. destruct (beq k' k) eqn:E.
  - intros H; inversion H; subst. apply beq_eq in E. subst. left; reflexivity.
  - intros H. right. auto.
Qed.

Lemma s_find_nodup l k v : NoDup (map fst l) -> In (k, v) l -> s_find l k = Some v.
Proof.
  induction l as [|[k' v'] r IH]; simpl; intros ND H; [contradiction|]. inversion ND; subst.
  destruct H as [H|H].
  - inversion H; subst. rewrite beq_refl. reflexivity.
  - destruct (beq k' k) eqn:E; [|auto]. apply beq_eq in E. subst. exfalso. apply H2.
    apply in_map_iff. exists (k, v). auto.
Qed.

Lemma s_find_none l k : s_find l k = None <-> ~ In k (map fst l).
Proof.
  induction l as [|[k' v'] r IH]; simpl; [tauto|]. destruct (beq k' k) eqn:E.
  - apply beq_eq in E. subst. split; [discriminate|]. intros H. exfalso. apply H. left; reflexivity.
  - rewrite IH. split; intros H; [|tauto]. intros [H1|H1]; [|tauto]. subst. rewrite beq_refl in E. discriminate.
Qed.

Lemma s_find_perm l l' k : NoDup (map fst l) -> Permutation l l' -> s_find l' k = s_find l k.
Proof.
  intros ND P. assert (ND' : NoDup (map fst l')) by (eapply Permutation_NoDup; [apply Permutation_map; exact P|exact ND]).
  destruct (s_find l k) as [v|] eqn:E.
  - apply s_find_nodup; [exact ND'|]. eapply Permutation_in; [exact P|]. apply s_find_in. exact E.
  - apply s_find_none. apply s_find_none in E. intros H. apply E.
    eapply Permutation_in; [apply Permutation_sym; apply Permutation_map; exact P|exact H].
Qed.

(* ====================================================================================== *)
(* C. totality (C12): no reply makes any conversion panic                                  *)
(* ====================================================================================== *)

Inductive np {A} : prog A -> Prop :=
  | np_ret r : r <> TPanic -> np (Ret r)
  | np_get k c : (forall o, np (c o)) -> np (Get k c).

Lemma np_run {A} (p : prog A) : np p -> forall fs, fst (run p fs) <> TPanic.
Proof.
  induction 1 as [r H|k c H IH]; intros fs; simpl; [exact H|]. destruct (s_get fs k) as [o fs']. apply IH.
Qed.

Lemma np_bind {A B} (p : prog A) (f : A -> prog B) : np p -> (forall a, np (f a)) -> np (bind p f).
Proof.
  induction 1 as [r H|k c H IH]; intros Hf; simpl.
  - destruct r; [apply Hf|constructor; discriminate|congruence].
  - constructor. intros o. apply IH. exact Hf.
Qed.

Definition conv_np {A} (cv : conv A) : Prop := forall v f, cv v f <> TPanic.

Lemma tmap_np {A B} (g : A -> B) r : r <> TPanic -> tmap g r <> TPanic.
Proof. destruct r; simpl; congruence. Qed.

Lemma np_value {A} k (cv : conv A) : conv_np cv -> np (value k cv).
Proof. intros H. constructor. intros [v|]; constructor; [apply H|discriminate]. Qed.
Lemma np_optional {A} k (cv : conv A) : conv_np cv -> np (optional_value k cv).
Proof. intros H. constructor. intros [v|]; constructor; [apply tmap_np; apply H|discriminate]. Qed.
Lemma np_get_raw k : np (get_raw k).
Proof. constructor. intros o. constructor. discriminate. Qed.

Lemma from_uint_np bits : conv_np (from_uint bits).
Proof. intros v f. unfold from_uint. destruct (parse_uint bits v); discriminate. Qed.
Lemma from_enum_np tbl : conv_np (from_enum tbl).
Proof. intros v f. unfold from_enum. destruct (lookup_spelling tbl v); discriminate. Qed.
Lemma from_bool_np : conv_np from_bool.
Proof. intros v f. unfold from_bool. apply tmap_np. apply from_enum_np. Qed.
(* the repaired parse_duration: try_from_secs_f64 has no panicking input; whatever std's float
   parser decides, the outcome is a value or an error *)
Lemma parse_duration_np : conv_np parse_duration.
Proof. intros v f. unfold parse_duration. destruct (parse_f64 v); [destruct (classify f0)|]; discriminate. Qed.
Lemma timestamp_np v f : timestamp_from_value v f <> TPanic.
Proof. unfold timestamp_from_value. destruct (canonical_timestamp v); [discriminate|]. destruct (obviously_not_timestamp v); discriminate. Qed.

Lemma np_song_identifier pk ik : np (song_identifier pk ik).
Proof.
  unfold song_identifier. apply np_bind; [apply np_optional; apply from_uint_np|].
  intros [p|]; [|constructor; discriminate]. apply np_bind; [apply np_value; apply from_uint_np|].
  intros; constructor; discriminate.
Qed.

Lemma np_status : np status_prog.
Proof.
  unfold status_prog.
  apply np_bind.
  { constructor. intros [v|]; constructor; [apply from_enum_np|discriminate]. }
  intros ?. apply np_bind.
  { constructor. intros [v|]; [constructor; apply tmap_np; apply parse_duration_np|].
    constructor. intros [t|]; [|constructor; discriminate].
    destruct (split_once 58 t) as [[x y]|]; constructor; [apply tmap_np; apply parse_duration_np|discriminate]. }
  intros ?.
  repeat (apply np_bind;
          [ first [ apply np_song_identifier | apply np_get_raw
                  | apply np_value; first [apply from_uint_np | apply from_enum_np | apply from_bool_np | apply parse_duration_np]
                  | apply np_optional; first [apply from_uint_np | apply from_enum_np | apply from_bool_np | apply parse_duration_np] ]
          | intros ? ]).
  constructor. discriminate.
Qed.

Ltac np_auto :=
  repeat (apply np_bind;
          [ first [ apply np_get_raw
                  | apply np_value; first [apply from_uint_np | apply from_enum_np | apply from_bool_np | apply parse_duration_np]
                  | apply np_optional; first [apply from_uint_np | apply from_enum_np | apply from_bool_np | apply parse_duration_np] ]
          | intros ? ]);
  try (constructor; discriminate).

Lemma np_stats : np stats_prog.
Proof. unfold stats_prog. np_auto. Qed.
Lemma np_count : np count_prog.
Proof. unfold count_prog. np_auto. Qed.
Lemma np_replaygain : np replaygain_prog.
Proof. apply np_value. apply from_enum_np. Qed.
Lemma np_update : np update_prog.
Proof. apply np_value. apply from_uint_np. Qed.
Lemma np_addid : np addid_prog.
Proof. apply np_value. apply from_uint_np. Qed.
Lemma np_albumart : np albumart_prog.
Proof. unfold albumart_prog. np_auto. Qed.

Lemma exec_np {A} (p : prog A) fs : np p -> exec p fs <> TPanic.
Proof. intros H. apply np_run. exact H. Qed.

(* build_grouped_values: the two unwraps run only after the loop condition said both are set *)
Lemma count_grouped_np g fs : forall cur acc, count_grouped g cur acc fs <> TPanic.
Proof.
  induction fs as [|[k v] r IH]; intros cur acc; cbn [count_grouped].
  - destruct cur as [[[val s] p]|]; [destruct (isnone s)|]; discriminate.
  - destruct cur as [[[val s] p]|].
    + destruct (beq k (b "songs")).
      * destruct s as [n|]; [discriminate|].
        pose proof (from_uint_np 64 v (b "songs")) as H. destruct (from_uint 64 v (b "songs")) as [n|e|]; [|discriminate|congruence].
        destruct p as [d|]; cbn [isnone orb]; apply IH.
      * destruct (beq k (b "playtime")); [|discriminate].
        destruct p as [d|]; [discriminate|].
        pose proof (parse_duration_np v (b "playtime")) as H. destruct (parse_duration v (b "playtime")) as [d|e|]; [|discriminate|congruence].
        destruct s as [n|]; cbn [isnone orb]; apply IH.
    + destruct (beq k g); [apply IH|discriminate].
Qed.

(* a field name the parser accepts: non-empty, bytes of the parser's key alphabet *)
Definition parser_key (k : bytes) : Prop :=
  k <> [] /\ Forall (fun c => c < 256 /\ parser_key_charset c = true) k.

Lemma parser_key_is_tag k : parser_key k -> exists t, tag_try_from k = TagOk t.
Proof.
  intros [H1 H2]. apply accepts_iff. split; [exact H1|].
  eapply Forall_impl; [|exact H2]. intros c [Hc Hp]. cbv beta. rewrite charset_is_protocol; assumption.
Qed.

(* List::from_frame: Tag::try_from(key).unwrap() cannot fail on keys the parser produced *)
Lemma list_fields_np fs : Forall (fun f => parser_key (fst f)) fs -> list_fields fs <> TPanic.
Proof.
  induction 1 as [|[k v] r H _ IH]; simpl; [discriminate|].
  destruct (parser_key_is_tag k H) as [t E]. rewrite E. apply tmap_np. exact IH.
Qed.

Lemma position_lt {A} (p : A -> bool) l n : position p l = Some n -> (n < length l)%nat.
Proof.
  revert n; induction l as [|x r IH]; simpl; intros n H; [discriminate|].
  destruct (p x); [inversion H; lia|]. destruct (position p r) as [m|]; [|discriminate].
  inversion H. specialize (IH m eq_refl). lia.
Qed.

Lemma set_nth_some {A} n (x : A) l : (n < length l)%nat -> exists l', set_nth n x l = Some l' /\ length l' = length l.
Proof.
  revert n; induction l as [|y r IH]; simpl; intros n H; [lia|].
  destruct n as [|m]; [exists (x :: r); auto|]. simpl.
  destruct (IH m ltac:(lia)) as (l' & E & L). rewrite E. exists (y :: l'). simpl. auto.
Qed.

(* GroupedListValuesIter: the index into grouping_values is always in range *)
Lemma grouped_iter_np primary gts fs : forall gvals, length gvals = length gts -> grouped_iter primary gts gvals fs <> TPanic.
Proof.
  induction fs as [|[t v] r IH]; intros gvals L; simpl; [discriminate|].
  destruct (tag_eq t primary); [apply tmap_np; auto|].
  destruct (position (fun g => tag_eq g t) gts) as [idx|] eqn:P; [|auto].
  apply position_lt in P. rewrite <- L in P. destruct (set_nth_some idx v gvals P) as (l' & E & L').
  rewrite E. apply IH. congruence.
Qed.

Theorem grouped_values_total l : grouped_values l <> TPanic.
Proof. unfold grouped_values. apply grouped_iter_np. apply map_length. Qed.

Lemma playlists_np fs : forall cur acc, playlists cur acc fs <> TPanic.
Proof.
  induction fs as [|[k v] r IH]; intros cur acc; cbn [playlists]; [discriminate|].
  destruct cur as [name|].
  - destruct (beq k (b "Last-Modified")); [|discriminate].
    pose proof (timestamp_np v (b "Last-Modified")). destruct (timestamp_from_value v (b "Last-Modified")); [apply IH|discriminate|congruence].
  - destruct (beq k (b "playlist")); [apply IH|discriminate].
Qed.

Lemma parse_sticker_np v : parse_sticker_value v <> TPanic.
Proof. unfold parse_sticker_value. destruct (split_once 61 v); discriminate. Qed.

Lemma sticker_get_np fs : sticker_get_model fs <> TPanic.
Proof.
  destruct fs as [|[k v] r]; cbn [sticker_get_model]; [discriminate|]. destruct (beq k (b "sticker")); [|discriminate].
  apply tmap_np. apply parse_sticker_np.
Qed.

Lemma sticker_list_np fs : forall m, sticker_list m fs <> TPanic.
Proof.
  induction fs as [|[k v] r IH]; intros m; simpl; [discriminate|].
  pose proof (parse_sticker_np v). destruct (parse_sticker_value v) as [[n x]|e|]; [apply IH|discriminate|congruence].
Qed.

Lemma sticker_find_np fs : forall file m, sticker_find file m fs <> TPanic.
Proof.
  induction fs as [|[k v] r IH]; intros file m; cbn [sticker_find]; [discriminate|].
  destruct (beq k (b "file")); [apply IH|]. destruct (beq k (b "sticker")); [|discriminate].
  pose proof (parse_sticker_np v). destruct (parse_sticker_value v) as [[n x]|e|]; [apply IH|discriminate|congruence].
Qed.

Lemma channels_np fs : channels_model fs <> TPanic.
Proof.
  induction fs as [|[k v] r IH]; cbn [channels_model]; [discriminate|]. destruct (beq k (b "channel")); [apply tmap_np; exact IH|discriminate].
Qed.

Lemma messages_np : forall n fs, (length fs <= n)%nat -> messages_model fs <> TPanic.
Proof.
  induction n as [|n IH]; intros fs L.
  - destruct fs; [simpl; discriminate|simpl in L; lia].
  - destruct fs as [|[k v] r]; cbn [messages_model]; [discriminate|]. destruct (beq k (b "channel")); [|discriminate].
    destruct r as [|[k2 v2] r2]; [discriminate|]. destruct (beq k2 (b "message")); [|discriminate].
    apply tmap_np. apply IH. simpl in L. lia.
Qed.

Lemma tagtypes_np fs : tagtypes_model fs <> TPanic.
Proof.
  induction fs as [|[k v] r IH]; cbn [tagtypes_model]; [discriminate|]. destruct (beq k (b "tagtype")); [|discriminate].
  destruct (tag_try_from v); try discriminate. apply tmap_np. exact IH.
Qed.

Definition frame_keys_ok (f : frame) : Prop := Forall (fun kv => parser_key (fst kv)) (f_fields f).

Theorem response_total c f : frame_keys_ok f -> response_model c f <> TPanic.
Proof.
  intros K. destruct c; cbn [response_model]; try discriminate; apply tmap_np;
    try (apply exec_np; first [apply np_status | apply np_stats | apply np_replaygain | apply np_count | apply np_addid | apply np_update]).
  - apply count_grouped_np.
  - unfold list_model. apply tmap_np. apply list_fields_np. exact K.
  - apply playlists_np.
  - apply tagtypes_np.
  - apply sticker_get_np.
  - apply sticker_list_np.
  - apply sticker_find_np.
  - eapply messages_np. apply Nat.le_refl.
  - apply channels_np.
  - unfold albumart_model. destruct (f_binary f); [apply tmap_np; apply exec_np; apply np_albumart|discriminate].
  - unfold albumart_model. destruct (f_binary f); [apply tmap_np; apply exec_np; apply np_albumart|discriminate].
Qed.

Theorem consume_total v : consume_model v <> TPanic.
Proof. destruct v; simpl; try discriminate. apply tmap_np. apply grouped_values_total. Qed.

Lemma zip_responses_np cmds : forall frames, Forall frame_keys_ok frames -> zip_responses cmds frames <> TPanic.
Proof.
  induction cmds as [|c cr IH]; intros frames K; simpl; [discriminate|].
  destruct frames as [|f fr]; [discriminate|]. inversion K; subst.
  pose proof (response_total c f H1). destruct (response_model c f); [apply tmap_np; auto|discriminate|congruence].
Qed.

Lemma tuple_go_np cmds idxs : forall frames, Forall frame_keys_ok frames -> tuple_go idxs cmds frames <> TPanic.
Proof.
  induction idxs as [|i r IH]; intros frames K; simpl; [discriminate|].
  destruct frames as [|f fr]; [discriminate|]. inversion K; subst.
  destruct (nth_error cmds i) as [c|]; [|discriminate].
  pose proof (response_total c f H1). destruct (response_model c f); [apply tmap_np; auto|discriminate|congruence].
Qed.

(* typed command lists: no hypothesis relating the number of frames to the number of commands *)
Theorem responses_total sh cmds frames : Forall frame_keys_ok frames -> responses_model sh cmds frames <> TPanic.
Proof.
  intros K. destruct sh; simpl.
  - unfold vec_responses. destruct (Nat.eqb (length cmds) (length frames)); [apply zip_responses_np; exact K|discriminate].
  - unfold tuple_responses. destruct (find _ tuple_impls); [apply tuple_go_np; exact K|discriminate].
Qed.

(* ---------- the hypothesis of C12 is what the protocol parser guarantees ---------- *)
From MPD Require Import ParserModel.

Lemma span_len_prefix p i n : span_len p i = Some n -> Forall (fun c => p c = true) (firstn n i).
Proof.
  revert n; induction i as [|c r IH]; simpl; intros n H; [discriminate|].
  destruct (p c) eqn:E; [|inversion H; constructor].
  destruct (span_len p r) as [m|]; [|discriminate]. inversion H; subst. simpl. constructor; auto.
Qed.

Lemma key_charset_is_byte c : parser_key_charset c = true -> c < 256.
Proof. unfold parser_key_charset, is_alpha, is_upper, is_lower, in_range. lia. Qed.

Ltac dm H := repeat match type of H with
                    | context [match ?x with _ => _ end] =>
                      lazymatch x with
                      | context [match _ with _ => _ end] => fail
                      | _ => destruct x eqn:?; try discriminate
                      end
                    end.

Lemma key_value_key i n k v : p_key_value i = ROk n (CField k v) -> parser_key k.
Proof.
  unfold p_key_value, p_bind, p_map_res, p_take_while1, p_ret, utf8. intros H.
  destruct (span_len parser_key_charset i) as [[|m]|] eqn:E; try discriminate.
  destruct (utf8_valid (firstn (S m) i)); try discriminate.
  dm H. inversion H; subst. split.
  - destruct i; [simpl in E; discriminate|simpl; discriminate].
  - apply span_len_prefix in E.
    eapply Forall_impl; [|exact E]. intros c Hc. split; [apply key_charset_is_byte|]; exact Hc.
Qed.

Theorem parsed_field_has_parser_key i n k v : parse_component i = ROk n (CField k v) -> parser_key k.
Proof.
  unfold parse_component, p_alt. intros H.
  destruct (p_map (p_tag (b "OK" ++ [LF])) (fun _ => EndOfResponse) i) eqn:E1.
  { unfold p_map, p_map_res in E1. dm E1. congruence. }
  all: try discriminate.
  destruct (p_map (p_tag (b "list_OK" ++ [LF])) (fun _ => EndOfFrame) i) eqn:E2.
  { unfold p_map, p_map_res in E2. dm E2. congruence. }
  all: try discriminate.
  destruct (p_error i) eqn:E3.
  { unfold p_error, p_bind, p_ret in E3. dm E3. congruence. }
  all: try discriminate.
  destruct (p_binary i) eqn:E4.
  { unfold p_binary, p_cut, p_bind, p_ret in E4. dm E4. congruence. }
  all: try discriminate.
  eapply key_value_key. exact H.
Qed.
