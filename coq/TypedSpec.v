(* TypedSpec.v — SPEC side of C16, independent of the code: what the MPD protocol reference says a
   reply to status / stats / count / list / listplaylists / sticker / channels / readmessages /
   tagtypes / update / replay_gain_status / addid contains (written from memory of the protocol
   documentation of MPD 0.23; trusted, DESIGN.md 1.5), as abstract records with option fields, and
   the encoder to the ordered field list the server prints.  Nothing here mentions the client.

   Field tables (name : domain : required?) --------------------------------------------------
   status:  volume : 0..100 : only with a mixer | repeat random consume : 0|1 : yes |
            single : 0|1|oneshot : yes (since 0.15) | partition : text : since 0.22 |
            playlist : unsigned 31 bit : yes | playlistlength : unsigned : yes | mixrampdb : float : yes |
            state : play|stop|pause : yes | xfade : seconds : when non-zero | mixrampdelay : seconds : when set |
            song songid : unsigned : together, when there is a current song |
            time : "elapsed:total" whole seconds : deprecated twin of elapsed/duration, lower case |
            elapsed : seconds.milliseconds : when playing/paused | bitrate : kbit/s : when playing/paused |
            duration : seconds.milliseconds : when known | audio : rate:bits:channels : when playing |
            updating_db : job id : while an update runs | error : text : after an error |
            nextsong nextsongid : unsigned : together, when there is a next song
            (0.24 additionally allows consume: oneshot and prints lastloadedplaylist; not part of this spec)
   stats:   artists albums songs : unsigned | uptime db_playtime playtime : whole seconds |
            db_update : UNIX time   — all required
   count:   songs : unsigned | playtime : whole seconds;  grouped: per group  <Tag>: value, songs, playtime
   list:    one "<Tag>: value" line per distinct value; with "group G1 group G2": a "<G>: value" line
            whenever the value of that group (or of an outer group) changes
   listplaylists: per playlist  playlist: name, Last-Modified: RFC 3339 UTC timestamp
   sticker get:  sticker: name=value | sticker list: one such line per sticker |
   sticker find: per song  file: uri, sticker: name=value        (a sticker NAME never contains '=')
   channels: channel: name ... | readmessages: channel: name, message: text ... |
   tagtypes: tagtype: name ... | update/rescan: updating_db: job id | addid: Id: song id |
   replay_gain_status: replay_gain_mode : off|track|album|auto *)
From MPD Require Import Bytes.
Open Scope N_scope.

(* ---------- spellings ---------- *)

Inductive playstate := SPlay | SPause | SStop.
Definition playstate_wire (x : playstate) : bytes :=
  match x with SPlay => b "play" | SPause => b "pause" | SStop => b "stop" end.

Inductive singlemode := SingleOff | SingleOn | SingleOneshot.
Definition single_wire (x : singlemode) : bytes :=
  match x with SingleOff => b "0" | SingleOn => b "1" | SingleOneshot => b "oneshot" end.

Inductive rgmode := RgOff | RgTrack | RgAlbum | RgAuto.
Definition rgmode_wire (x : rgmode) : bytes :=
  match x with RgOff => b "off" | RgTrack => b "track" | RgAlbum => b "album" | RgAuto => b "auto" end.

Definition bool_wire (x : bool) : bytes := if x then b "1" else b "0".

(* "%u.%03u": seconds with millisecond precision, as MPD prints elapsed and duration *)
Definition pad3 (n : N) : bytes := [48 + n / 100; 48 + (n / 10) mod 10; 48 + n mod 10].
Definition ms_wire (ms : N) : bytes := render_dec (ms / 1000) ++ [46] ++ pad3 (ms mod 1000).

(* fields the server may omit: the encoder prints the ones that are present, in table order *)
Definition enc_fields (l : list (bytes * option bytes)) : list (bytes * bytes) :=
  flat_map (fun p => match snd p with Some v => [(fst p, v)] | None => [] end) l.

(* ---------- status ---------- *)

Record status := mkSt {
  s_volume : option N;
  s_repeat : bool; s_random : bool; s_single : singlemode; s_consume : bool;
  s_partition : option bytes;
  s_playlist : N; s_playlistlength : N;
  s_mixrampdb : option bytes;
  s_state : playstate;
  s_xfade : option N;              (* whole seconds, printed when non-zero *)
  s_mixrampdelay : option bytes;
  s_song : option (N * N);         (* position, id *)
  s_time : option bytes;
  s_elapsed : option N;            (* milliseconds *)
  s_bitrate : option N;
  s_duration : option N;           (* milliseconds *)
  s_audio : option bytes;
  s_updating_db : option N;
  s_error : option bytes;
  s_nextsong : option (N * N) }.

Definition status_layout (volume repeat random single consume partition playlist playlistlength mixrampdb
                          state xfade mixrampdelay song songid time elapsed bitrate duration audio updating_db
                          error nextsong nextsongid : option bytes) : list (bytes * option bytes) :=
  [(b "volume", volume); (b "repeat", repeat); (b "random", random); (b "single", single);
   (b "consume", consume); (b "partition", partition); (b "playlist", playlist);
   (b "playlistlength", playlistlength); (b "mixrampdb", mixrampdb); (b "state", state);
   (b "xfade", xfade); (b "mixrampdelay", mixrampdelay); (b "song", song); (b "songid", songid);
   (b "time", time); (b "elapsed", elapsed); (b "bitrate", bitrate); (b "duration", duration);
   (b "audio", audio); (b "updating_db", updating_db); (b "error", error);
   (b "nextsong", nextsong); (b "nextsongid", nextsongid)].

Definition num (o : option N) : option bytes := option_map render_dec o.

Definition status_wire (s : status) : list (bytes * option bytes) :=
  status_layout
    (num (s_volume s)) (Some (bool_wire (s_repeat s))) (Some (bool_wire (s_random s)))
    (Some (single_wire (s_single s))) (Some (bool_wire (s_consume s))) (s_partition s)
    (Some (render_dec (s_playlist s))) (Some (render_dec (s_playlistlength s))) (s_mixrampdb s)
    (Some (playstate_wire (s_state s))) (num (s_xfade s)) (s_mixrampdelay s)
    (num (option_map fst (s_song s))) (num (option_map snd (s_song s))) (s_time s)
    (option_map ms_wire (s_elapsed s)) (num (s_bitrate s)) (option_map ms_wire (s_duration s))
    (s_audio s) (num (s_updating_db s)) (s_error s)
    (num (option_map fst (s_nextsong s))) (num (option_map snd (s_nextsong s))).

Definition enc_status (s : status) : list (bytes * bytes) := enc_fields (status_wire s).

Definition opt_lt (o : option N) (bound : N) : Prop := forall n, o = Some n -> n < bound.
Definition pair_lt (o : option (N * N)) (bound : N) : Prop := forall p, o = Some p -> fst p < bound /\ snd p < bound.

(* the numeric domains, as wide as the client can represent them: every value MPD can print
   (32-bit counters, times below 2^22 s = 48 days with milliseconds) lies inside *)
Definition wf_status (s : status) : Prop :=
  opt_lt (s_volume s) (2 ^ 8) /\ s_playlist s < 2 ^ 32 /\ s_playlistlength s < 2 ^ 64 /\
  opt_lt (s_xfade s) (2 ^ 22) /\ pair_lt (s_song s) (2 ^ 64) /\ pair_lt (s_nextsong s) (2 ^ 64) /\
  opt_lt (s_elapsed s) (2 ^ 22 * 1000) /\ opt_lt (s_duration s) (2 ^ 22 * 1000) /\
  opt_lt (s_bitrate s) (2 ^ 64) /\ opt_lt (s_updating_db s) (2 ^ 64).

(* ---------- stats ---------- *)

Record stats := mkSs {
  t_artists : N; t_albums : N; t_songs : N; t_uptime : N; t_db_playtime : N; t_db_update : N; t_playtime : N }.

Definition enc_stats (s : stats) : list (bytes * bytes) :=
  [(b "artists", render_dec (t_artists s)); (b "albums", render_dec (t_albums s)); (b "songs", render_dec (t_songs s));
   (b "uptime", render_dec (t_uptime s)); (b "db_playtime", render_dec (t_db_playtime s));
   (b "db_update", render_dec (t_db_update s)); (b "playtime", render_dec (t_playtime s))].

Definition wf_stats (s : stats) : Prop :=
  t_artists s < 2 ^ 64 /\ t_albums s < 2 ^ 64 /\ t_songs s < 2 ^ 64 /\ t_db_update s < 2 ^ 64 /\
  t_uptime s < 2 ^ 53 /\ t_db_playtime s < 2 ^ 53 /\ t_playtime s < 2 ^ 53.

(* ---------- count ---------- *)

Record count := mkCount { c_songs : N; c_playtime : N }.
Definition wf_count (c : count) : Prop := c_songs c < 2 ^ 64 /\ c_playtime c < 2 ^ 53.

Definition enc_count (c : count) : list (bytes * bytes) :=
  [(b "songs", render_dec (c_songs c)); (b "playtime", render_dec (c_playtime c))].

(* grouped: the group header, then songs and playtime (either order is accepted; [swap] says
   which one the server printed first for that group) *)
Definition enc_count_group (tagname : bytes) (g : bytes * count * bool) : list (bytes * bytes) :=
  let '(v, c, swap) := g in
  (tagname, v) :: (if swap then [(b "playtime", render_dec (c_playtime c)); (b "songs", render_dec (c_songs c))]
                   else [(b "songs", render_dec (c_songs c)); (b "playtime", render_dec (c_playtime c))]).

Definition enc_count_grouped (tagname : bytes) (gs : list (bytes * count * bool)) : list (bytes * bytes) :=
  flat_map (enc_count_group tagname) gs.

(* ---------- list ---------- *)

(* Abstract grouped listing: rows (primary value, value of each grouping tag), printed as header
   lines [headers] followed by the primary line.  MPD prints a header for a group when its value
   (or an outer group's) changes; the theorem holds for ANY choice of headers that keeps the
   running group values equal to the row's, which [headers_ok] states. *)
Definition list_row := (list (nat * bytes) * bytes * list bytes)%type.   (* headers (group index, value), primary value, group values *)

Fixpoint apply_headers (hs : list (nat * bytes)) (cur : list bytes) : list bytes :=
  match hs with
  | [] => cur
  | (i, v) :: r => apply_headers r (firstn i cur ++ v :: skipn (S i) cur)
  end.

Fixpoint rows_ok (ngroups : nat) (cur : list bytes) (rows : list list_row) : Prop :=
  match rows with
  | [] => True
  | (hs, _, gs) :: r =>
    Forall (fun h => (fst h < ngroups)%nat) hs /\ apply_headers hs cur = gs /\ rows_ok ngroups gs r
  end.

Definition enc_list_row (primary : bytes) (groups : list bytes) (row : list_row) : list (bytes * bytes) :=
  let '(hs, v, _) := row in
  map (fun h => (nth (fst h) groups [], snd h)) hs ++ [(primary, v)].

Definition enc_list (primary : bytes) (groups : list bytes) (rows : list list_row) : list (bytes * bytes) :=
  flat_map (enc_list_row primary groups) rows.

(* ---------- playlists, stickers, channels, messages, tag types, ids ---------- *)

Definition enc_playlists (l : list (bytes * bytes)) : list (bytes * bytes) :=
  flat_map (fun p => [(b "playlist", fst p); (b "Last-Modified", snd p)]) l.

Definition sticker_line (name value : bytes) : bytes := name ++ [61] ++ value.
Definition sticker_name_ok (name : bytes) : Prop := ~ In 61 name.

Definition enc_sticker_get (name value : bytes) : list (bytes * bytes) := [(b "sticker", sticker_line name value)].
Definition enc_sticker_list (l : list (bytes * bytes)) : list (bytes * bytes) :=
  map (fun p => (b "sticker", sticker_line (fst p) (snd p))) l.
(* sticker find <name>: per matching song its uri and that sticker *)
Definition enc_sticker_find (name : bytes) (l : list (bytes * bytes)) : list (bytes * bytes) :=
  flat_map (fun p => [(b "file", fst p); (b "sticker", sticker_line name (snd p))]) l.

Definition enc_channels (l : list bytes) : list (bytes * bytes) := map (fun c => (b "channel", c)) l.
Definition enc_messages (l : list (bytes * bytes)) : list (bytes * bytes) :=
  flat_map (fun p => [(b "channel", fst p); (b "message", snd p)]) l.
Definition enc_tagtypes (l : list bytes) : list (bytes * bytes) := map (fun t => (b "tagtype", t)) l.
Definition enc_update (job : N) : list (bytes * bytes) := [(b "updating_db", render_dec job)].
Definition enc_addid (id : N) : list (bytes * bytes) := [(b "Id", render_dec id)].
Definition enc_replay_gain (m : rgmode) : list (bytes * bytes) := [(b "replay_gain_mode", rgmode_wire m)].
