(* LoopRefine.v — definitions for the refinement between the two loop systems: every fault-free run
   of the EXECUTABLE byte-level system (DriverLoop.v: the one the replayer compares with the real
   client, label by label) is a run of the ABSTRACT response-level system (LoopSpec.v: the one the
   session theorems are proved about).  This file holds the fragment (which labels, which
   requests), the relation and the structured run; the proofs are in LoopRefineProofs.v. *)
From MPD Require Import Bytes Tables Show ParserModel BuilderModel Grammar ConnModel CommandModel MpdTokenizer
  LoopModel ServerModel CallerModel DriverConn DriverLoop LoopSpec.
Open Scope N_scope.

(* ---------- the fragment ---------- *)

(* labels of DriverLoop.apply_label_g, parsed *)
Inductive glabel :=
  | GIssue (id : N) (line : bytes)      (* c<id>:<spec> — Client::command-style single request *)
  | GNotify (name : bytes)              (* N:<hexname> *)
  | GServe (all : bool)                 (* S / S* *)
  | GDeliver (k : N)                    (* D<k> *)
  | GTick (ms : N).                     (* t<ms> *)

Definition label_parts (lab : bytes) : bytes * bytes :=
  match split_on 58 lab with
  | [h] => (h, [])
  | h :: a :: _ => (h, a)
  | [] => ([], [])
  end.

Definition classify (lab : bytes) : option glabel :=
  let '(head, arg) := label_parts lab in
  match head with
  | [] => None
  | kind :: idtxt =>
    let id := read_N idtxt in
    if kind =? 78 then Some (GNotify (unhex arg))
    else if kind =? 83 then Some (GServe (beq idtxt [42]))
    else if kind =? 68 then Some (GDeliver id)
    else if kind =? 116 then Some (GTick id)
    else if kind =? 99 then
      match all_some_l (map parse_spec (split_specs arg)) with
      | Some (l :: _) => Some (GIssue id l)
      | _ => None
      end
    else None
  end.

Section Fragment.
Variable cf : sconf.

(* what the simulated server writes for one request line outside idle and outside a list *)
Definition srv_out (l : bytes) : bytes :=
  match exec_cmd cf 0 l with inl body => body ++ ok_line | inr ack => ack end.

(* ... and how the client must decode it *)
Definition reply_of_line (l : bytes) : response :=
  match bparse_all Initial (srv_out l) with (_, _, Complete r) => r | _ => mkResp [] None end.

(* the abstract (Grammar.v) response with that decoding: fields, then the binary part *)
Definition aresp_of (r : response) : aresp :=
  mkAResp FSingle (map (fun f => mkAFrame (f_fields f) (f_binary f) (length (f_fields f))) (r_frames r)) (r_error r) None.

(* a request line of the fragment: one line, none of the words with a meaning for the session, and
   the server's answer is the encoding of ONE well-formed response (an echo, an ACK, a binary
   reply, a picture chunk ... whatever the simulated server's command table says) *)
Definition echo_line (l : bytes) : bool :=
  no_lf l &&
  negb (beq l idle_word) && negb (beq l noidle_word) &&
  negb (beq l (removelast command_list_begin)) &&
  (wf_resp (aresp_of (reply_of_line l)) && beq (srv_out l) (enc (aresp_of (reply_of_line l)))).

Definition good (g : glabel) : bool :=
  match g with
  | GIssue _ l => echo_line l
  | GNotify n => wf_text n
  | _ => true
  end.

(* the reply of the simulated server to a request (its bytes as written: line + LF) *)
Definition echo_reply (u : bytes) : response := reply_of_line (removelast u).

(* ---------- the structured run of the executable system ---------- *)

Fixpoint xrun (x : xsys) (labs : list bytes) : xsys * list seg :=
  match labs with
  | [] => (x, [])
  | l :: r =>
    match apply_label_g x l with
    | (_, x', Some g) => let '(xf, gs) := xrun x' r in (xf, g :: gs)
    | (_, x', None) => xrun x' r
    end
  end.

(* the state run_loopm starts from (no password), and the state once the greeting has arrived *)
Definition xstart : xsys :=
  mkX HGreeting None false false PIdle false [] Initial [] false false false [] [] true 0 false
      cf s0 [] greeting_bytes false [] false [].

Definition xinit : xsys := snd (fst (apply_label_g xstart (b "D0"))).

(* ---------- the relation ---------- *)

Definition ent (q : request) : N * ckind := (q_id q, KRaw true).

Definition callers_for (p : point) (queue : list request) : list (N * ckind) :=
  match p with
  | PWait id => (id, KRaw true) :: map ent queue
  | _ => map ent (held p ++ queue)
  end.

Definition req_ok (u : bytes) : Prop := exists l, u = l ++ [LF] /\ echo_line l = true.
Definition write_ok (u : bytes) : Prop := u = idle_line \/ u = noidle_line \/ req_ok u.

(* what the server wrote for an abstract response *)
Definition enc_s (r : sresp) : bytes :=
  match r with
  | SIdle ns => changed_lines ns ++ ok_line
  | SReply u => srv_out (removelast u)
  end.

Definition wf_s (r : sresp) : Prop :=
  match r with
  | SIdle ns => Forall (fun n => wf_text n = true) ns
  | SReply u => echo_line (removelast u) = true
  end.

(* the builder state [st] and buffer [buf] are what is left after the bytes [done] were consumed *)
Definition parked (st : bstate) (buf done : bytes) : Prop :=
  forall z, bparse_all st (buf ++ z) = bparse_all Initial (done ++ buf ++ z).

Definition S2C (st : bstate) (buf inbox wire : bytes) (rs : list sresp) : Prop :=
  exists done, parked st buf done /\ done ++ buf ++ inbox ++ wire = flat_map enc_s rs.

Record Rel (x : xsys) (s : asys) : Prop := mkRel {
  r_h : x_h x = HDone;
  r_client : x_client x = true;
  r_failed : x_failed x = false;
  r_spawned : x_spawned x = true;
  r_eof : x_eof x = false;
  r_rerr : x_rerr x = false;
  r_wfail : x_wfail x = false;
  r_handle : x_handle x = true;
  r_wp : x_wp x = false;
  r_wh : x_wh x = [];
  r_evq : x_evq x = false;
  r_cf : x_cf x = cf;
  r_pt : x_pt x = a_pt s;
  r_queue : x_queue x = a_queue s;
  r_callers : x_callers x = callers_for (a_pt s) (a_queue s);
  r_reqs : Forall (fun q => req_ok (q_bytes q)) (held (a_pt s) ++ a_queue s);
  r_c2s : x_c2s x = concat (a_c2s s);
  r_writes : Forall write_ok (a_c2s s);
  r_idle : s_idle (x_srv x) = a_idle s;
  r_pending : s_pending (x_srv x) = a_pending s;
  r_pending_wf : Forall (fun n => wf_text n = true) (a_pending s);
  r_list : s_list (x_srv x) = None;
  r_violated : s_violated (x_srv x) = a_violated s;
  r_reported : s_reported (x_srv x) = a_reported s;
  r_s2c_wf : Forall wf_s (a_s2c s);
  r_s2c : S2C (x_bst x) (x_buf x) (x_inbox x) (x_s2c x) (a_s2c s)
}.

(* the text of a segment while the loop is alive (DriverLoop.show_seg) *)
Definition seg_text (g : seg) : bytes :=
  b "[" ++ join [59]
    ((match g_w g with [] => [] | w => [b "w:" ++ hex w] end) ++
     g_conn g ++
     map (fun r => b "r" ++ show_N (fst r) ++ [61] ++ snd r) (sort_res (g_res g)) ++
     g_ev g ++
     (if g_panic g then [b "PANIC"] else [])) ++ b "]".

(* what a segment shows for a reply / an event *)
Definition res_text (r : N * response) : N * bytes :=
  (fst r, show_cmd_result (split_single (snd r))).
Definition ev_text (n : bytes) : bytes := b "ev:" ++ hex n.

End Fragment.
