(* LoopRefine.v — definitions for the refinement between the two loop systems: every fault-free run
   of the EXECUTABLE byte-level system (DriverLoop.v: the one the replayer compares with the real
   client, label by label) is a run of the ABSTRACT response-level system (LoopSpec.v: the one the
   session theorems are proved about).  This file holds the fragment (which labels, which
   requests), the relation and the structured run; the proofs are in LoopRefineProofs.v. *)
From MPD Require Import Bytes Tables Show ParserModel BuilderModel Grammar ConnModel CommandModel MpdTokenizer
  LoopModel ServerModel CallerModel DriverConn DriverLoop LoopSpec.
Open Scope N_scope.

(* ---------- the fragment ---------- *)

(* labels of DriverLoop.apply_label_g, parsed *)
Inductive glabel :=
  | GIssue (id : N) (line : bytes)      (* c<id>:<spec> — Client::command-style single request *)
  | GIssueL (id : N) (ls : list bytes)  (* i<id>:<spec>,... — Client::command_list-style request (1 line: bare, >= 2: a list) *)
  | GNotify (name : bytes)              (* N:<hexname> *)
  | GServe (all : bool)                 (* S / S* *)
  | GDeliver (k : N)                    (* D<k> *)
  | GTick (ms : N).                     (* t<ms> *)

Definition label_parts (lab : bytes) : bytes * bytes :=
  match split_on 58 lab with
  | [h] => (h, [])
  | h :: a :: _ => (h, a)
  | [] => ([], [])
  end.

Definition classify (lab : bytes) : option glabel :=
  let '(head, arg) := label_parts lab in
  match head with
  | [] => None
  | kind :: idtxt =>
    let id := read_N idtxt in
    if kind =? 78 then Some (GNotify (unhex arg))
    else if kind =? 83 then Some (GServe (beq idtxt [42]))
    else if kind =? 68 then Some (GDeliver id)
    else if kind =? 116 then Some (GTick id)
    else if kind =? 99 then
      match all_some_l (map parse_spec (split_specs arg)) with
      | Some (l :: _) => Some (GIssue id l)
      | _ => None
      end
    else if kind =? 105 then
      match all_some_l (map parse_spec (split_specs arg)) with
      | Some (l :: ls) => Some (GIssueL id (l :: ls))
      | _ => None
      end
    else None
  end.

Section Fragment.
Variable cf : sconf.

(* what the simulated server writes for one request line outside idle and outside a list *)
Definition srv_out (l : bytes) : bytes :=
  match exec_cmd cf 0 l with inl body => body ++ ok_line | inr ack => ack end.

(* ... and how the client must decode it *)
Definition reply_of_line (l : bytes) : response :=
  match bparse_all Initial (srv_out l) with (_, _, Complete r) => r | _ => mkResp [] None end.

(* the abstract (Grammar.v) response with that decoding: fields, then the binary part *)
Definition aresp_of (r : response) : aresp :=
  mkAResp FSingle (map (fun f => mkAFrame (f_fields f) (f_binary f) (length (f_fields f))) (r_frames r)) (r_error r) None.

(* a request line of the fragment: one line, none of the words with a meaning for the session, and
   the server's answer is the encoding of ONE well-formed response (an echo, an ACK, a binary
   reply, a picture chunk ... whatever the simulated server's command table says) *)
Definition echo_line (l : bytes) : bool :=
  no_lf l &&
  negb (beq l idle_word) && negb (beq l noidle_word) &&
  negb (beq l (removelast command_list_begin)) &&
  (wf_resp (aresp_of (reply_of_line l)) && beq (srv_out l) (enc (aresp_of (reply_of_line l)))).

(* ---- command lists ---- *)

Definition end_word : bytes := removelast command_list_end.
Definition begin_word : bytes := removelast command_list_begin.

Definition list_bytes (ls : list bytes) : bytes :=
  command_list_begin ++ flat_map (fun l => l ++ [LF]) ls ++ command_list_end.

Definition is_list (u : bytes) : bool := is_prefix command_list_begin u.

(* the lines between command_list_ok_begin and command_list_end *)
Definition list_lines (u : bytes) : list bytes := removelast (tl (lines u)).

(* what the simulated server writes when the list is closed, and how the client must decode it *)
Definition reply_of_list (ls : list bytes) : response :=
  match bparse_all Initial (exec_list cf 0 ls) with (_, _, Complete r) => r | _ => mkResp [] None end.

Definition aresp_of_list (r : response) : aresp :=
  mkAResp FList (map (fun f => mkAFrame (f_fields f) (f_binary f) (length (f_fields f))) (r_frames r)) (r_error r) None.

Definition list_line (l : bytes) : bool := no_lf l && negb (beq l end_word).

(* a list of the fragment: at least two lines, none of them closing the list early, answered by ONE well-formed response *)
Definition list_good (ls : list bytes) : bool :=
  Nat.leb 2 (length ls) && forallb list_line ls &&
  (wf_resp (aresp_of_list (reply_of_list ls)) && beq (exec_list cf 0 ls) (enc (aresp_of_list (reply_of_list ls)))).

(* a request of the fragment, as the bytes written *)
Definition req_good (u : bytes) : bool :=
  if is_list u then list_good (list_lines u) && beq u (list_bytes (list_lines u))
  else match u with [] => false | _ => beq u (removelast u ++ [LF]) && echo_line (removelast u) end.

Definition good (g : glabel) : bool :=
  match g with
  | GIssue _ l => echo_line l
  | GIssueL _ [l] => echo_line l
  | GIssueL _ ls => list_good ls
  | GNotify n => wf_text n
  | _ => true
  end.

(* the reply of the simulated server to a request (its bytes as written) *)
Definition echo_reply (u : bytes) : response :=
  if is_list u then reply_of_list (list_lines u) else reply_of_line (removelast u).

(* how raw_command / raw_command_list hand a reply to the caller: a list keeps all frames *)
Definition res_of (u : bytes) (r : response) : cmd_result :=
  if is_list u then split_list r else split_single r.

(* ---------- the structured run of the executable system ---------- *)

Fixpoint xrun (x : xsys) (labs : list bytes) : xsys * list seg :=
  match labs with
  | [] => (x, [])
  | l :: r =>
    match apply_label_g x l with
    | (_, x', Some g) => let '(xf, gs) := xrun x' r in (xf, g :: gs)
    | (_, x', None) => xrun x' r
    end
  end.

(* the state run_loopm starts from (no password), and the state once the greeting has arrived *)
Definition xstart : xsys :=
  mkX HGreeting None false false PIdle false [] Initial [] false false false [] [] true 0 false
      cf s0 [] greeting_bytes false [] false [].

Definition xinit : xsys := snd (fst (apply_label_g xstart (b "D0"))).

(* ---------- the relation ---------- *)

(* the requests whose callers are waiting, oldest first: the one in flight (the last one written), the one held behind a
   cancelled idle, the queue *)
Definition outstanding (s : asys) : list request :=
  match a_pt s with
  | PWait _ => [last (a_sent s) (mkReq 0 [])]
  | p => held p
  end ++ a_queue s.

(* a caller entry and its request: same id; Client::command-style callers (KRaw true) only for single lines *)
Definition crel (c : N * ckind) (q : request) : Prop :=
  fst c = q_id q /\ ((snd c = KRaw true /\ is_list (q_bytes q) = false) \/ snd c = KRaw false).

Definition req_ok (u : bytes) : Prop := req_good u = true.
Definition write_ok (u : bytes) : Prop := u = idle_line \/ u = noidle_line \/ req_ok u.

(* what the server wrote for an abstract response *)
Definition enc_s (r : sresp) : bytes :=
  match r with
  | SIdle ns => changed_lines ns ++ ok_line
  | SReply u => if is_list u then exec_list cf 0 (list_lines u) else srv_out (removelast u)
  end.

Definition wf_s (r : sresp) : Prop :=
  match r with
  | SIdle ns => Forall (fun n => wf_text n = true) ns
  | SReply u => req_good u = true
  end.

(* the builder state [st] and buffer [buf] are what is left after the bytes [done] were consumed *)
Definition parked (st : bstate) (buf done : bytes) : Prop :=
  forall z, bparse_all st (buf ++ z) = bparse_all Initial (done ++ buf ++ z).

Definition S2C (st : bstate) (buf inbox wire : bytes) (rs : list sresp) : Prop :=
  exists done, parked st buf done /\ done ++ buf ++ inbox ++ wire = flat_map enc_s rs.

(* the client->server bytes: the writes the server has not read yet, in order — where the head write may be a command list of
   which the server has already read the opening line and some commands (it reads line by line, the abstract server whole writes) *)
Definition C2S (x : xsys) (s : asys) : Prop :=
  match s_list (x_srv x) with
  | None => x_c2s x = concat (a_c2s s)
  | Some acc =>
    exists rest todo, a_c2s s = list_bytes (acc ++ todo) :: rest /\
      x_c2s x = flat_map (fun l => l ++ [LF]) todo ++ command_list_end ++ concat rest /\
      a_idle s = false /\ list_good (acc ++ todo) = true
  end.

Record Rel (x : xsys) (s : asys) : Prop := mkRel {
  r_h : x_h x = HDone;
  r_client : x_client x = true;
  r_failed : x_failed x = false;
  r_spawned : x_spawned x = true;
  r_eof : x_eof x = false;
  r_rerr : x_rerr x = false;
  r_wfail : x_wfail x = false;
  r_handle : x_handle x = true;
  r_wp : x_wp x = false;
  r_wh : x_wh x = [];
  r_evq : x_evq x = false;
  r_cf : x_cf x = cf;
  r_pt : x_pt x = a_pt s;
  r_queue : x_queue x = a_queue s;
  r_callers : Forall2 crel (x_callers x) (outstanding s);
  r_reqs : Forall (fun q => req_ok (q_bytes q)) (held (a_pt s) ++ a_queue s);
  r_c2s : C2S x s;
  r_writes : Forall write_ok (a_c2s s);
  r_idle : s_idle (x_srv x) = a_idle s;
  r_pending : s_pending (x_srv x) = a_pending s;
  r_pending_wf : Forall (fun n => wf_text n = true) (a_pending s);
  r_violated : s_violated (x_srv x) = a_violated s;
  r_reported : s_reported (x_srv x) = a_reported s;
  r_s2c_wf : Forall wf_s (a_s2c s);
  r_s2c : S2C (x_bst x) (x_buf x) (x_inbox x) (x_s2c x) (a_s2c s)
}.

(* the text of a segment while the loop is alive (DriverLoop.show_seg) *)
Definition seg_text (g : seg) : bytes :=
  b "[" ++ join [59]
    ((match g_w g with [] => [] | w => [b "w:" ++ hex w] end) ++
     g_conn g ++
     map (fun r => b "r" ++ show_N (fst r) ++ [61] ++ snd r) (sort_res (g_res g)) ++
     g_ev g ++
     (if g_panic g then [b "PANIC"] else [])) ++ b "]".

(* what a segment shows for the reply to a request / an event *)
Definition res_text (q : request) : N * bytes :=
  (q_id q, show_cmd_result (res_of (q_bytes q) (echo_reply (q_bytes q)))).
Definition ev_text (n : bytes) : bytes := b "ev:" ++ hex n.

End Fragment.
