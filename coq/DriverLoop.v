(* DriverLoop.v — the executable byte-level system around LoopModel.cstep: transport (inbox, EOF /
   error switches), the AsyncConnection receive state, the request queue, callers, the paused
   clock, and the simulated server with its two network queues.  Case kind [loopm]: a list of
   labels -> the concrete operations for the replayer (harness/src/loopcases.rs) and the trace the
   real client must produce. *)
From MPD Require Import Bytes Tables Show ParserModel BuilderModel ConnModel CommandModel MpdTokenizer
  LoopModel ServerModel CallerModel DriverConn.
Open Scope N_scope.

Inductive ckind :=
  | KRaw (single : bool)
  | KVec (cmds : list anyc)
  | KTuple (cmds : list anyc)
  | KArt (st : art_state).

Record xsys := mkX {
  x_h : hpoint; x_pw : option bytes; x_client : bool (* connect returned Ok *); x_failed : bool;
  x_pt : point; x_spawned : bool;
  x_buf : bytes; x_bst : bstate;                 (* AsyncConnection: recv_buf, parked builder state *)
  x_inbox : bytes; x_eof : bool; x_rerr : bool; x_wfail : bool;
  x_queue : list request;
  x_callers : list (N * ckind);                  (* live callers, each with one outstanding request *)
  x_handle : bool;                               (* the harness still holds its Client *)
  x_elapsed : N;
  x_evend : bool;                                (* ev:end already reported *)
  x_cf : sconf; x_srv : sstate; x_c2s : bytes; x_s2c : bytes;
  x_wp : bool;                                   (* the peer does not read: writes block *)
  x_wh : bytes;                                  (* the write the loop task is blocked in *)
  x_evq : bool;                                  (* the application does not poll ConnectionEvents for now *)
  x_evh : list bytes                             (* events delivered to the channel but not polled yet *)
}.

(* one trace segment under construction *)
Record seg := mkSeg { g_w : bytes; g_conn : list bytes; g_res : list (N * bytes); g_ev : list bytes; g_panic : bool }.
Definition seg0 : seg := mkSeg [] [] [] [] false.

Definition set_pt (x : xsys) (p : point) (el : N) : xsys :=
  mkX (x_h x) (x_pw x) (x_client x) (x_failed x) p (x_spawned x) (x_buf x) (x_bst x) (x_inbox x) (x_eof x) (x_rerr x)
      (x_wfail x) (x_queue x) (x_callers x) (x_handle x) el (x_evend x) (x_cf x) (x_srv x) (x_c2s x) (x_s2c x) (x_wp x) (x_wh x) (x_evq x) (x_evh x).
Definition set_conn (x : xsys) (buf : bytes) (st : bstate) (inbox : bytes) : xsys :=
  mkX (x_h x) (x_pw x) (x_client x) (x_failed x) (x_pt x) (x_spawned x) buf st inbox (x_eof x) (x_rerr x)
      (x_wfail x) (x_queue x) (x_callers x) (x_handle x) (x_elapsed x) (x_evend x) (x_cf x) (x_srv x) (x_c2s x) (x_s2c x) (x_wp x) (x_wh x) (x_evq x) (x_evh x).
Definition set_qc (x : xsys) (q : list request) (cs : list (N * ckind)) : xsys :=
  mkX (x_h x) (x_pw x) (x_client x) (x_failed x) (x_pt x) (x_spawned x) (x_buf x) (x_bst x) (x_inbox x) (x_eof x) (x_rerr x)
      (x_wfail x) q cs (x_handle x) (x_elapsed x) (x_evend x) (x_cf x) (x_srv x) (x_c2s x) (x_s2c x) (x_wp x) (x_wh x) (x_evq x) (x_evh x).
Definition set_h (x : xsys) (h : hpoint) (client failed spawned : bool) : xsys :=
  mkX h (x_pw x) client failed (x_pt x) spawned (x_buf x) (x_bst x) (x_inbox x) (x_eof x) (x_rerr x)
      (x_wfail x) (x_queue x) (x_callers x) (x_handle x) (x_elapsed x) (x_evend x) (x_cf x) (x_srv x) (x_c2s x) (x_s2c x) (x_wp x) (x_wh x) (x_evq x) (x_evh x).
Definition set_flags (x : xsys) (eof rerr wfail handle evend : bool) : xsys :=
  mkX (x_h x) (x_pw x) (x_client x) (x_failed x) (x_pt x) (x_spawned x) (x_buf x) (x_bst x) (x_inbox x) eof rerr
      wfail (x_queue x) (x_callers x) handle (x_elapsed x) evend (x_cf x) (x_srv x) (x_c2s x) (x_s2c x) (x_wp x) (x_wh x) (x_evq x) (x_evh x).
Definition set_w (x : xsys) (wp : bool) (wh : bytes) : xsys :=
  mkX (x_h x) (x_pw x) (x_client x) (x_failed x) (x_pt x) (x_spawned x) (x_buf x) (x_bst x) (x_inbox x) (x_eof x) (x_rerr x)
      (x_wfail x) (x_queue x) (x_callers x) (x_handle x) (x_elapsed x) (x_evend x) (x_cf x) (x_srv x) (x_c2s x) (x_s2c x) wp wh (x_evq x) (x_evh x).
Definition set_ev (x : xsys) (q : bool) (h : list bytes) : xsys :=
  mkX (x_h x) (x_pw x) (x_client x) (x_failed x) (x_pt x) (x_spawned x) (x_buf x) (x_bst x) (x_inbox x) (x_eof x) (x_rerr x)
      (x_wfail x) (x_queue x) (x_callers x) (x_handle x) (x_elapsed x) (x_evend x) (x_cf x) (x_srv x) (x_c2s x) (x_s2c x) (x_wp x) (x_wh x) q h.
Definition set_net (x : xsys) (srv : sstate) (c2s s2c : bytes) : xsys :=
  mkX (x_h x) (x_pw x) (x_client x) (x_failed x) (x_pt x) (x_spawned x) (x_buf x) (x_bst x) (x_inbox x) (x_eof x) (x_rerr x)
      (x_wfail x) (x_queue x) (x_callers x) (x_handle x) (x_elapsed x) (x_evend x) (x_cf x) srv c2s s2c (x_wp x) (x_wh x) (x_evq x) (x_evh x).

(* ---------- canonical printing (same format as harness/src/loopcases.rs) ---------- *)

Definition show_perr (e : perr) : bytes :=
  match e with EInvalid => b "invalid" | EUeof => b "ueof" | EIo => b "io" end.

Definition show_frames (fs : list frame) : bytes := join [47] (map show_frame fs).

Definition show_cmd_result (r : cmd_result) : bytes :=
  match r with
  | CROk fs => b "ok[" ++ show_frames fs ++ b "]"
  | CRAck e fs =>
    b "ack(" ++ show_N (e_code e) ++ [44] ++ show_N (e_index e) ++ [44] ++
    match e_command e with Some c => hex c | None => [126] end ++ [44] ++ hex (e_message e) ++ b ")[" ++
    show_frames fs ++ b "]"
  | CRProto e => b "proto:" ++ show_perr e
  | CRClosed => b "closed"
  | CRTyped => b "typed"
  | CRPanic => b "PANIC"
  end.

Definition show_typed (r : typed_result) : bytes :=
  match r with
  | TROk vs => b "ok[" ++ join [44] (map (fun v => match v with Some n => show_N n | None => [126] end) vs) ++ b "]"
  | TRErr e => show_cmd_result e
  end.

Definition show_art (r : art_final) : bytes :=
  match r with
  | ArtNone => b "art:none"
  | ArtSome d m => b "art:some(" ++ hex d ++ [44] ++ match m with Some x => hex x | None => [126] end ++ b ")"
  | ArtErr e => show_cmd_result e
  end.

Definition show_closekind (k : closekind) : bytes :=
  match k with CKProto e => show_perr e | CKInvalidResponse => b "invalidresponse" end.

(* ---------- the connection: one attempt to complete the pending receive ---------- *)

(* None = the read would block (state parked, buffered bytes kept) *)
Definition try_receive (x : xsys) : option rres * xsys :=
  (* failing reads are persistent: once set, bytes still in the transport are never read *)
  let avail := if x_rerr x then [] else x_inbox x in
  let left := if x_rerr x then x_inbox x else [] in
  let all := x_buf x ++ avail in
  match bparse_all (x_bst x) all with
  | (st', rest, Complete r) => (Some (RResp r), set_conn x rest st' left)
  | (st', rest, BInvalid) => (Some (RErr EInvalid), set_conn x rest st' left)
  | (st', rest, NeedMore) =>
    let x' := set_conn x rest st' left in
    if x_rerr x then (Some (RErr EIo), x')
    else if x_eof x then
      (Some (if in_progress st' || negb (beq rest []) then RErr EUeof else RClean), x')
    else (None, x')
  end.

(* ---------- routing what the loop emits ---------- *)

Fixpoint remove_caller (id : N) (cs : list (N * ckind)) : list (N * ckind) :=
  match cs with
  | [] => []
  | (i, k) :: r => if i =? id then r else (i, k) :: remove_caller id r
  end.

Fixpoint find_caller (id : N) (cs : list (N * ckind)) : option ckind :=
  match cs with
  | [] => None
  | (i, k) :: r => if i =? id then Some k else find_caller id r
  end.

Definition add_res (g : seg) (id : N) (s : bytes) : seg :=
  mkSeg (g_w g) (g_conn g) (g_res g ++ [(id, s)]) (g_ev g) (g_panic g).
Definition add_ev (g : seg) (s : bytes) : seg := mkSeg (g_w g) (g_conn g) (g_res g) (g_ev g ++ [s]) (g_panic g).
Definition add_w (g : seg) (s : bytes) : seg := mkSeg (g_w g ++ s) (g_conn g) (g_res g) (g_ev g) (g_panic g).
Definition add_conn (g : seg) (s : bytes) : seg := mkSeg (g_w g) (g_conn g ++ [s]) (g_res g) (g_ev g) (g_panic g).
Definition set_panic (g : seg) : seg := mkSeg (g_w g) (g_conn g) (g_res g) (g_ev g) true.

(* the result a caller's outstanding request resolves with *)
Definition caller_result (x : xsys) (g : seg) (id : N) (k : ckind) (r : option reply) : xsys * seg :=
  let cs := remove_caller id (x_callers x) in
  match k with
  | KRaw single =>
    (set_qc x (x_queue x) cs,
     add_res g id (show_cmd_result (match r with Some rep => result_of_reply single rep | None => CRClosed end)))
  | KVec cmds =>
    let res := match r with
               | None => TRErr CRClosed
               | Some rep => match result_of_reply false rep with
                             | CROk fs => vec_responses cmds fs
                             | other => TRErr other
                             end
               end in
    (set_qc x (x_queue x) cs, add_res g id (show_typed res))
  | KTuple cmds =>
    let res := match r with
               | None => TRErr CRClosed
               | Some rep => match result_of_reply false rep with
                             | CROk fs => tuple_responses cmds fs
                             | other => TRErr other
                             end
               end in
    (set_qc x (x_queue x) cs, add_res g id (show_typed res))
  | KArt st =>
    match art_step st (match r with Some rep => result_of_reply true rep | None => CRClosed end) with
    | inr fin => (set_qc x (x_queue x) cs, add_res g id (show_art fin))
    | inl st' =>
      match art_request st' with
      | None => (set_qc x (x_queue x) cs, set_panic g)
      | Some line =>
        (* do_send of the next request; the loop is alive (it has just answered) *)
        (set_qc x (x_queue x ++ [mkReq id (line ++ [LF])]) (cs ++ [(id, KArt st')]), g)
      end
    end
  end.

Definition route (x : xsys) (g : seg) (o : cout) : xsys * seg :=
  match o with
  | OWrite bs =>
    if x_wp x then (set_w x true (x_wh x ++ bs), g)      (* write_all blocks: nothing reaches the wire yet *)
    else (set_net x (x_srv x) (x_c2s x ++ bs) (x_s2c x), add_w g bs)
  | OReply id rep =>
    match find_caller id (x_callers x) with
    | Some k => caller_result x g id k (Some rep)
    | None => (x, g)
    end
  | ODropResp id =>
    match find_caller id (x_callers x) with
    | Some k => caller_result x g id k None
    | None => (x, g)
    end
  | OEvent n => if x_evq x then (set_ev x true (x_evh x ++ [b "ev:" ++ hex n]), g) else (x, add_ev g (b "ev:" ++ hex n))
  | OClosed k => let t := b "ev:closed(" ++ show_closekind k ++ b ")" in
                 if x_evq x then (set_ev x true (x_evh x ++ [t]), g) else (x, add_ev g t)
  | OPanic => (x, set_panic g)
  end.

Fixpoint route_all (x : xsys) (g : seg) (os : list cout) : xsys * seg :=
  match os with
  | [] => (x, g)
  | o :: r => let '(x', g') := route x g o in route_all x' g' r
  end.

(* the loop left: queue and responders dropped *)
Fixpoint drop_queue (x : xsys) (g : seg) (q : list request) : xsys * seg :=
  match q with
  | [] => (x, g)
  | r :: rest =>
    let '(x', g') := match find_caller (q_id r) (x_callers x) with
                     | Some k => caller_result x g (q_id r) k None
                     | None => (x, g)
                     end in
    drop_queue x' g' rest
  end.

Definition on_exit (x : xsys) (g : seg) : xsys * seg :=
  match x_pt x with
  | PExited => let q := x_queue x in drop_queue (set_qc x [] (x_callers x)) g q
  | _ => (x, g)
  end.

Definition chan_closed (x : xsys) : bool :=
  negb (x_handle x) && match x_callers x with [] => true | _ => false end.

(* one resumption of the client, if any event it waits for is available *)
Definition client_event (x : xsys) : option (cin * xsys) :=
  match x_pt x with
  | PExited => None
  | p =>
    let recv := if wants_recv p then
                  match try_receive x with
                  | (Some r, x') => Some (InRecv r, x')
                  | (None, x') => None
                  end
                else None in
    match recv with
    | Some e => Some e
    | None =>
      (* buffered bytes moved into the connection even when the read blocks *)
      let x1 := if wants_recv p then snd (try_receive x) else x in
      if wants_cmd p then
        match x_queue x1 with
        | q :: rest => Some (InCmd (Some q), set_qc x1 rest (x_callers x1))
        | [] =>
          if chan_closed x1 then Some (InCmd None, x1)
          else match p with
               | PWindow => if idle_timeout_ms <=? x_elapsed x1 then Some (InTimeout, x1) else None
               | _ => None
               end
        end
      else None
    end
  end.

(* do_connect before the loop exists *)
Definition handshake_event (x : xsys) (g : seg) : option (xsys * seg) :=
  match x_h x with
  | HDone => None
  | HGreeting =>
    let all := x_buf x ++ x_inbox x in
    let x1 := set_conn x all Initial [] in
    let fail e := Some (set_h x1 HDone false true false, add_conn g (b "conn=err:" ++ show_perr e)) in
    let need_more :=
        if x_rerr x then fail EIo else if x_eof x then fail EUeof else None in
    match (if x_rerr x then [] else x_inbox x) with
    | [] => need_more        (* connect reads before it parses *)
    | _ =>
      match p_greeting all with
      | ROk n v =>
        let x2 := set_conn x (skipn n all) Initial [] in
        match after_greeting (x_wfail x) (x_pw x) v with
        | (h, outs, res, spawned) =>
          let '(x3, g3) := route_all x2 g outs in
          match res with
          | Some (ConnOk ver) =>
            let '(p, outs2) := loop_entry (x_wfail x) in
            let '(x4, g4) := route_all (set_pt (set_h x3 HDone true false true) p 0) (add_conn g3 (b "conn=ok:" ++ hex ver)) outs2 in
            Some (on_exit x4 g4)
          | Some (ConnErr e) => Some (set_h x3 HDone false true false, add_conn g3 (b "conn=err:" ++ show_perr e))
          | Some ConnBadPassword => Some (set_h x3 HDone false true false, add_conn g3 (b "conn=err:badpassword"))
          | None => Some (set_h x3 h false (match h with HDone => true | _ => false end) false, g3)
          end
        end
      | RIncomplete => Some (x1, g)      (* next: read again *)
      | RError | RFailure => fail EInvalid
      end
    end
  | HPassword v =>
    match try_receive x with
    | (None, x1) => if beq (x_inbox x) (x_inbox x1) then None else Some (x1, g)
    | (Some r, x1) =>
      match after_password v r with
      | (Some (ConnOk ver), _) =>
        let '(p, outs2) := loop_entry (x_wfail x) in
        let '(x4, g4) := route_all (set_pt (set_h x1 HDone true false true) p 0) (add_conn g (b "conn=ok:" ++ hex ver)) outs2 in
        Some (on_exit x4 g4)
      | (Some (ConnErr e), _) => Some (set_h x1 HDone false true false, add_conn g (b "conn=err:" ++ show_perr e))
      | (Some ConnBadPassword, _) => Some (set_h x1 HDone false true false, add_conn g (b "conn=err:badpassword"))
      | (None, _) => None
      end
    end
  end.

(* run until every task is pending *)
Fixpoint settle (fuel : nat) (x : xsys) (g : seg) : xsys * seg :=
  match fuel with
  | O => (x, set_panic g)     (* not reached: each step consumes input, a request or the timer *)
  | S f =>
    match handshake_event x g with
    | Some (x', g') => settle f x' g'
    | None =>
      if negb (x_spawned x) then (x, g) else
      if match x_wh x with [] => false | _ => true end then (x, g) else     (* the loop task is blocked in a write *)
      match client_event x with
      | None => (x, g)
      | Some (i, x1) =>
        let '(p, outs) := cstep (x_wfail x1) (x_pt x1) i in
        let x2 := set_pt x1 p (match p with PWindow => match x_pt x1 with PWindow => x_elapsed x1 | _ => 0 end | _ => x_elapsed x1 end) in
        let '(x3, g3) := route_all x2 g outs in
        let '(x4, g4) := on_exit x3 g3 in
        settle f x4 g4
      end
    end
  end.

(* ---------- harness operations ---------- *)

Definition parse_spec (s : bytes) : option bytes :=   (* <name>[.<hexarg>]* -> command line *)
  match split_on 46 s with
  | name :: args =>
    if beq name (b "big") then
      (* big.<hex of a decimal n>: the command [echo] with one argument of n bytes 'x' (requests of megabytes without megabytes of case text) *)
      match args, build (b "echo") with
      | [h], inr c => add_all_str c [repeat 120 (N.to_nat (read_N (unhex h)))]
      | _, _ => None
      end
    else
    match build name with
    | inl _ => None
    | inr c => add_all_str c (map unhex args)
    end
  | [] => None
  end.

Definition parse_any (s : bytes) : anyc :=
  match s with
  | 117 :: r => AUpd (unhex r)
  | 114 :: r => AResc (unhex r)
  | 97 :: r => AArt (unhex r)
  | _ => AStop
  end.

Fixpoint all_some_l {A} (l : list (option A)) : option (list A) :=
  match l with
  | [] => Some []
  | Some a :: r => option_map (cons a) (all_some_l r)
  | None :: _ => None
  end.

Definition split_specs (arg : bytes) : list bytes := match arg with [] => [] | _ => split_on 44 arg end.

Definition loop_alive (x : xsys) : bool :=
  x_spawned x && match x_pt x with PExited => false | _ => true end.

(* a caller starts: do_send (or an immediate result) *)
Definition issue (x : xsys) (g : seg) (kind : N) (id : N) (arg : bytes) : xsys * seg :=
  if negb (x_client x && x_handle x) then (x, add_res g id (b "noclient")) else   (* the replayer has no Client to call *)
  let enqueue k bytes_ :=
      if loop_alive x then (set_qc x (x_queue x ++ [mkReq id bytes_]) (x_callers x ++ [(id, k)]), g)
      else (x, add_res g id (b "closed")) in
  if (kind =? 105) || (kind =? 99) then      (* i / c *)
    match all_some_l (map parse_spec (split_specs arg)) with
    | Some (l :: ls) => enqueue (KRaw (kind =? 99)) (render_list (if kind =? 99 then [l] else l :: ls))
    | _ => (x, set_panic g)
    end
  else if (kind =? 118) || (kind =? 121) then   (* v / y *)
    let cmds := map parse_any (split_specs arg) in
    match typed_list_start cmds with
    | LSNothing => if kind =? 118 then (x, add_res g id (show_typed (vec_responses cmds []))) else (x, add_res g id (b "bad-arity"))
    | LSRequest bs => enqueue (if kind =? 118 then KVec cmds else KTuple cmds) bs
    | LSPanic => (x, set_panic g)
    end
  else   (* a *)
    let st := art_start (unhex arg) in
    match art_request st with
    | Some line => enqueue (KArt st) (line ++ [LF])
    | None => (x, set_panic g)
    end.

(* the canonical segment text *)
Fixpoint insert_res (r : N * bytes) (l : list (N * bytes)) : list (N * bytes) :=
  match l with
  | [] => [r]
  | h :: t => if fst r <? fst h then r :: l else h :: insert_res r t
  end.
Definition sort_res (l : list (N * bytes)) : list (N * bytes) := fold_right insert_res [] l.

Definition show_seg (x : xsys) (g : seg) : bytes * xsys :=
  let exited := x_spawned x && match x_pt x with PExited => true | _ => false end in
  let evend := x_client x && exited && negb (x_evend x) && negb (x_evq x) in
  let dropped := exited || x_failed x in
  let parts :=
      (match g_w g with [] => [] | w => [b "w:" ++ hex w] end) ++
      g_conn g ++
      map (fun r => b "r" ++ show_N (fst r) ++ [61] ++ snd r) (sort_res (g_res g)) ++
      g_ev g ++
      (if evend then [b "ev:end"] else []) ++
      (if x_client x && x_handle x && exited then [b "X"] else []) ++
      (if dropped then [b "D"] else []) ++
      (if g_panic g then [b "PANIC"] else []) in
  (b "[" ++ join [59] parts ++ b "]",
   if evend then set_flags x (x_eof x) (x_rerr x) (x_wfail x) (x_handle x) true else x).

(* first complete line of the client->server byte queue *)
Fixpoint take_line (s : bytes) : option (bytes * bytes) :=
  match s with
  | [] => None
  | c :: r => if c =? LF then Some ([], r)
              else match take_line r with Some (l, rest) => Some (c :: l, rest) | None => None end
  end.

Fixpoint serve (fuel : nat) (all : bool) (x : xsys) : xsys :=
  match fuel with
  | O => x
  | S f =>
    match take_line (x_c2s x) with
    | None => x
    | Some (line, rest) =>
      let '(st, out) := sline (x_cf x) (x_srv x) line in
      let x' := set_net x st rest (x_s2c x ++ out) in
      if all then serve f all x' else x'
    end
  end.

(* enough resumptions for every queued request to be taken, answered or dropped *)
Definition fuel_for (x : xsys) : nat := 4000 + 4 * length (x_queue x).

(* apply one label: (concrete harness op if any, new state, the segment if an op was emitted) *)
Definition apply_core (x : xsys) (lab : bytes) (kind : N) (idtxt arg : bytes) : option bytes * xsys * option seg :=
    let id := read_N idtxt in
    let run_op (op : bytes) (x1 : xsys) (g : seg) :=
        let '(x2, g2) := settle (fuel_for x1) x1 g in
        (Some op, x2, Some g2) in
    if kind =? 78 then       (* N:<hexname> *)
      let '(st, out) := snotify (x_srv x) (unhex arg) in
      (None, set_net x st (x_c2s x) (x_s2c x ++ out), None)
    else if kind =? 83 then  (* S / S* *)
      (None, serve (S (length (x_c2s x))) (beq idtxt [42]) x, None)
    else if kind =? 68 then  (* D<k>: deliver k bytes of the server's output (0 = all) *)
      let k := if id =? 0 then length (x_s2c x) else N.to_nat id in
      let chunk := if x_eof x then [] else firstn k (x_s2c x) in    (* nothing arrives after the end of the stream *)
      match chunk with
      | [] => (None, x, None)
      | _ =>
        let x1 := set_net x (x_srv x) (x_c2s x) (skipn k (x_s2c x)) in
        run_op (b "d:" ++ hex chunk) (set_conn x1 (x_buf x1) (x_bst x1) (x_inbox x1 ++ chunk)) seg0
      end
    else if kind =? 71 then  (* G:<hex>: bytes no server would send *)
      match (if x_eof x then [] else unhex arg) with
      | [] => (None, x, None)
      | chunk => run_op (b "d:" ++ hex chunk) (set_conn x (x_buf x) (x_bst x) (x_inbox x ++ chunk)) seg0
      end
    else if kind =? 101 then run_op lab (set_flags x true (x_rerr x) (x_wfail x) (x_handle x) (x_evend x)) seg0
    else if kind =? 114 then run_op lab (set_flags x (x_eof x) true (x_wfail x) (x_handle x) (x_evend x)) seg0
    else if kind =? 119 then run_op lab (set_flags x (x_eof x) (x_rerr x) true (x_handle x) (x_evend x)) seg0
    else if kind =? 104 then run_op lab (set_flags x (x_eof x) (x_rerr x) (x_wfail x) false (x_evend x)) seg0
    else if kind =? 112 then run_op lab (set_w x true (x_wh x)) seg0          (* p: the peer stops reading *)
    else if kind =? 107 then run_op lab x seg0                                (* k<n>: bytes per write call; the bytes on the wire are the same *)
    else if kind =? 113 then run_op lab (set_ev x true (x_evh x)) seg0         (* q: ConnectionEvents is not polled *)
    else if kind =? 90 then run_op lab (set_ev x true (x_evh x)) seg0         (* Z: the application drops ConnectionEvents for good: nothing is ever observed on it again *)
    else if kind =? 81 then                                                    (* Q: polled again: everything queued comes out *)
      run_op lab (set_ev x false []) (mkSeg [] [] [] (x_evh x) false)
    else if kind =? 117 then                                                   (* u: it reads again; the blocked write completes *)
      let x1 := set_w (set_net x (x_srv x) (x_c2s x ++ x_wh x) (x_s2c x)) false [] in
      run_op lab x1 (add_w seg0 (x_wh x))
    else if kind =? 116 then   (* t<ms> *)
      run_op lab (set_pt x (x_pt x) (match x_pt x with PWindow => x_elapsed x + id | _ => x_elapsed x end)) seg0
    else if kind =? 120 then   (* x<id> *)
      run_op lab (set_qc x (x_queue x) (remove_caller id (x_callers x))) seg0
    else if existsb (N.eqb kind) [105; 99; 118; 121; 97] then
      let '(x1, g1) := issue x seg0 kind id arg in run_op lab x1 g1
    else (None, x, None).

Definition apply_label_g (x : xsys) (lab : bytes) : option bytes * xsys * option seg :=
  let '(head, arg) := match split_on 58 lab with
                      | [h] => (h, [])
                      | h :: a :: _ => (h, a)
                      | [] => ([], [])
                      end in
  match head with
  | [] => (None, x, None)
  | kind :: idtxt => apply_core x lab kind idtxt arg
  end.

(* ... and the segment as text *)
Definition apply_label (x : xsys) (lab : bytes) : option bytes * xsys * option bytes :=
  match apply_label_g x lab with
  | (Some op, x2, Some g2) => let '(txt, x3) := show_seg x2 g2 in (Some op, x3, Some txt)
  | (o, x', _) => (o, x', None)
  end.

Fixpoint run_labels (x : xsys) (labs : list bytes) (ops segs : list bytes) : list bytes * list bytes :=
  match labs with
  | [] => (ops, segs)
  | l :: r =>
    match apply_label x l with
    | (Some op, x', Some txt) => run_labels x' r (ops ++ [op]) (segs ++ [txt])
    | (_, x', _) => run_labels x' r (ops ++ [[45]]) segs      (* "-": no replayer operation *)
    end
  end.

Definition greeting_bytes : bytes := b "OK MPD 0.23.5" ++ [LF].

Definition opt_hex (s : bytes) : option bytes := if beq s [126] then None else Some (unhex s).

(* conf: pw;emb;mime;file;norp;limit  (hex or ~) *)
Definition parse_conf (s : bytes) : sconf :=
  match split_on 59 s with
  | [pw; emb; mime; file; norp; limit] =>
    mkSConf (opt_hex pw) (match opt_hex emb with Some p => Some (p, opt_hex mime) | None => None end)
            (opt_hex file) (beq norp [49]) (read_N limit) [] false None
  | [pw; emb; mime; file; norp; limit; fileack; rperr] =>
    mkSConf (opt_hex pw) (match opt_hex emb with Some p => Some (p, opt_hex mime) | None => None end)
            (opt_hex file) (beq norp [49])
            (match split_on 44 limit with l :: _ => read_N l | [] => 8192 end)
            (match split_on 44 limit with _ :: _ :: _ => map read_N (split_on 44 limit) | _ => [] end)
            (beq fileack [49])
            (if beq rperr [126] then None else Some (read_N rperr))
  | _ => mkSConf None None None false 8192 [] false None
  end.

(* loopm <connect-spec> <conf> <label>...  ->  <ops> # <segments> *)
Definition run_loopm (args : list bytes) : bytes :=
  match args with
  | cspec :: conf :: labs =>
    let pw := match split_on 58 cspec with
              | [_; h] => Some (unhex h)
              | _ => None
              end in
    let x0 := mkX HGreeting pw false false PIdle false [] Initial [] false false false [] [] true 0 false
                  (parse_conf conf) s0 [] greeting_bytes false [] false [] in
    let '(x1, g1) := settle 100 x0 seg0 in
    let '(t0, x2) := show_seg x1 g1 in
    let '(ops, segs) := run_labels x2 labs [] [t0] in
    words ops ++ b " # " ++ words segs ++ b " # violated=" ++ show_bool (s_violated (x_srv x2))
  | _ => b "bad-case"
  end.

Definition run_loop_kind (kind : bytes) (args : list bytes) : bytes :=
  if beq kind (b "loopm") then run_loopm args else b "unknown-kind".

Definition is_loop_kind (k : bytes) : bool := existsb (beq k) [b "loopm"].
