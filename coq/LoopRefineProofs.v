(* LoopRefineProofs.v — every fault-free run of the executable loop system is a run of the abstract
   one (definitions in LoopRefine.v). *)
From Coq Require Import ZifyBool ZifyN ZifyNat.
From Coq Require Import PeanoNat.
From MPD Require Import Bytes Tables Show ParserModel BuilderModel Grammar ConnModel CommandModel MpdTokenizer
  LoopModel ServerModel CallerModel DriverConn DriverLoop ParserProofs ConnProofs RoundTripProofs
  LoopSpec LoopSpecProofs LoopRefine.
From MPD Require CommandProofs.
Open Scope N_scope.

(* ---------- the builder: what is left is a suffix of what was given ---------- *)

Lemma bparse_suffix st buf : forall st' rest v, bparse_all st buf = (st', rest, v) -> exists c, buf = c ++ rest.
Proof.
  remember (length buf) as k. assert (Hk : (length buf <= k)%nat) by lia. clear Heqk.
  revert buf st Hk. induction k as [|k IH]; intros buf st Hk st' rest v H.
  - destruct buf; [|simpl in Hk; lia]. rewrite bparse_all_unfold in H. inversion H. exists []. reflexivity.
  - rewrite bparse_all_unfold in H.
    destruct buf as [|c buf']; [inversion H; exists []; reflexivity|]. set (buf := c :: buf') in *.
    rewrite bstep_nonempty in H by discriminate. unfold bstep_ne in H.
    destruct (parse_component buf) as [n comp| | |] eqn:E; try (inversion H; subst; exists []; reflexivity).
    destruct (parse_ok_stable buf n comp E) as [[L1 L2] _].
    assert (LS : (length (skipn n buf) <= k)%nat) by (rewrite skipn_length; lia).
    assert (SP : buf = firstn n buf ++ skipn n buf) by (symmetry; apply firstn_skipn).
    destruct comp;
      try (inversion H; subst; exists (firstn n buf); exact SP);
      (eapply IH in H; [|exact LS]; destruct H as [c0 H]; exists (firstn n buf ++ c0);
       rewrite <- app_assoc, <- H; exact SP).
Qed.

(* ---------- what the simulated server writes is decoded as the abstract response ---------- *)

Definition fields_resp (fs : list (bytes * bytes)) : aresp := mkAResp FSingle [mkAFrame fs None 0] None None.

Lemma enc_fields fs : enc (fields_resp fs) = flat_map (fun kv => enc_field (fst kv) (snd kv)) fs ++ enc_ok.
Proof.
  unfold enc, fields_resp; cbn. unfold enc_frame, frame_parts; cbn. f_equal.
  induction fs as [|kv fs IH]; cbn; [reflexivity|]. rewrite IH. reflexivity.
Qed.

Lemma sub_key_text : sub_field_key = b "changed".
Proof. reflexivity. Qed.

Lemma changed_lines_enc ns :
  changed_lines ns = flat_map (fun kv => enc_field (fst kv) (snd kv)) (map (fun n => (sub_field_key, n)) ns).
Proof.
  induction ns as [|n ns IH]; cbn [changed_lines flat_map map]; [reflexivity|].
  unfold changed_lines in IH. rewrite IH. reflexivity.
Qed.

Lemma wf_changed n : wf_text n = true -> wf_field (sub_field_key, n) = true.
Proof. intros H. unfold wf_field. cbn [fst snd]. rewrite H. reflexivity. Qed.

Lemma dec_aresp_of r : decoded (aresp_of r) = r.
Proof.
  destruct r as [fs e]. unfold decoded, aresp_of. cbn. f_equal.
  induction fs as [|f fs IH]; cbn; [reflexivity|]. rewrite IH. destruct f; reflexivity.
Qed.

Section Replies.
Variable cf : sconf.

Lemma echo_line_parts l : echo_line cf l = true ->
  no_lf l = true /\ beq l idle_word = false /\ beq l noidle_word = false /\
  beq l (removelast command_list_begin) = false /\
  wf_resp (aresp_of (reply_of_line cf l)) = true /\ srv_out cf l = enc (aresp_of (reply_of_line cf l)).
Proof.
  unfold echo_line. intros H.
  apply Bool.andb_true_iff in H. destruct H as [H HW].
  apply Bool.andb_true_iff in HW. destruct HW as [HW HB]. apply beq_eq in HB.
  apply Bool.andb_true_iff in H. destruct H as [H H3]. apply Bool.negb_true_iff in H3.
  apply Bool.andb_true_iff in H. destruct H as [H H2]. apply Bool.negb_true_iff in H2.
  apply Bool.andb_true_iff in H. destruct H as [H0 H1]. apply Bool.negb_true_iff in H1.
  auto 10.
Qed.

Lemma dec_aresp_of_list r : decoded (aresp_of_list r) = r.
Proof.
  destruct r as [fs e]. unfold decoded, aresp_of_list. cbn. f_equal.
  induction fs as [|f fs IH]; cbn; [reflexivity|]. rewrite IH. destruct f; reflexivity.
Qed.

Lemma no_lf_forall l : no_lf l = true -> Forall (fun x => x <> LF) l.
Proof.
  unfold no_lf. intros H. apply Forall_forall. intros x Hin. rewrite forallb_forall in H.
  specialize (H x Hin). apply Bool.negb_true_iff in H. intros ->. rewrite N.eqb_refl in H. discriminate.
Qed.

Lemma begin_end_words : command_list_begin = begin_word ++ [LF] /\ command_list_end = end_word ++ [LF] /\
  no_lf begin_word = true /\ no_lf end_word = true /\ beq begin_word end_word = false.
Proof. repeat split; vm_compute; reflexivity. Qed.

Lemma lines_list_bytes ls : Forall (fun l => no_lf l = true) ls ->
  lines (list_bytes ls) = begin_word :: ls ++ [end_word].
Proof.
  intros H. destruct begin_end_words as [EB [EE [NB [NE _]]]]. unfold lines, list_bytes. rewrite EB, EE.
  rewrite CommandProofs.split_framed.
  - change (begin_word :: ls ++ [end_word; []]) with ((begin_word :: ls) ++ [end_word; []]).
    rewrite CommandProofs.removelast_app_cons. reflexivity.
  - apply no_lf_forall. exact NB.
  - apply no_lf_forall. exact NE.
  - eapply Forall_impl; [|exact H]. intros l Hl. apply no_lf_forall. exact Hl.
Qed.

Lemma list_lines_bytes ls : Forall (fun l => no_lf l = true) ls -> list_lines (list_bytes ls) = ls.
Proof. intros H. unfold list_lines. rewrite (lines_list_bytes ls H). cbn [tl]. apply removelast_last. Qed.

Lemma is_list_bytes ls : is_list (list_bytes ls) = true.
Proof. unfold is_list, list_bytes. apply is_prefix_app. eexists. reflexivity. Qed.

Lemma list_line_parts l : list_line l = true -> no_lf l = true /\ beq l end_word = false.
Proof.
  unfold list_line. intros H. apply Bool.andb_true_iff in H. destruct H as [A B].
  apply Bool.negb_true_iff in B. auto.
Qed.

Lemma list_good_parts ls : list_good cf ls = true ->
  (2 <= length ls)%nat /\ Forall (fun l => list_line l = true) ls /\
  wf_resp (aresp_of_list (reply_of_list cf ls)) = true /\ exec_list cf 0 ls = enc (aresp_of_list (reply_of_list cf ls)).
Proof.
  unfold list_good. intros H.
  apply Bool.andb_true_iff in H. destruct H as [H HW].
  apply Bool.andb_true_iff in HW. destruct HW as [HW HB]. apply beq_eq in HB.
  apply Bool.andb_true_iff in H. destruct H as [HL HF].
  apply Nat.leb_le in HL. rewrite forallb_forall in HF.
  split; [exact HL|]. split; [apply Forall_forall; exact HF|]. auto.
Qed.

Lemma list_good_no_lf ls : list_good cf ls = true -> Forall (fun l => no_lf l = true) ls.
Proof.
  intros H. destruct (list_good_parts ls H) as [_ [F _]]. eapply Forall_impl; [|exact F].
  intros l Hl. apply (list_line_parts l Hl).
Qed.

(* the two forms of a request of the fragment *)
Lemma req_good_cases u : req_good cf u = true ->
  (is_list u = true /\ exists ls, u = list_bytes ls /\ list_lines u = ls /\ list_good cf ls = true) \/
  (is_list u = false /\ exists l, u = l ++ [LF] /\ removelast u = l /\ echo_line cf l = true).
Proof.
  unfold req_good. destruct (is_list u) eqn:EL; intros H.
  - left. split; [reflexivity|]. apply Bool.andb_true_iff in H. destruct H as [G B]. apply beq_eq in B.
    exists (list_lines u). auto.
  - right. split; [reflexivity|]. destruct u as [|c u']; [discriminate|].
    apply Bool.andb_true_iff in H. destruct H as [B E]. apply beq_eq in B.
    exists (removelast (c :: u')). auto.
Qed.

Lemma req_good_list ls : list_good cf ls = true -> req_good cf (list_bytes ls) = true.
Proof.
  intros G. unfold req_good. rewrite is_list_bytes, (list_lines_bytes ls (list_good_no_lf ls G)), G, beq_refl. reflexivity.
Qed.

Lemma is_list_single l : no_lf l = true -> beq l begin_word = false -> is_list (l ++ [LF]) = false.
Proof.
  intros NL NB. destruct (is_list (l ++ [LF])) eqn:E; [|reflexivity]. exfalso.
  unfold is_list in E. apply is_prefix_app in E. destruct E as [r E].
  destruct begin_end_words as [EB _]. rewrite EB, <- app_assoc in E. cbn [app] in E.
  (* l ++ [LF] = begin_word ++ LF :: r: the first LF is at the end of l on the left and after begin_word on the right *)
  assert (L : lines (l ++ [LF]) = [l]) by (apply CommandProofs.lines_send; apply no_lf_forall; exact NL).
  rewrite E in L. unfold lines in L.
  rewrite (CommandProofs.split_on_app LF begin_word r) in L by (apply no_lf_forall; vm_compute; reflexivity).
  destruct (split_on LF r) as [|h t] eqn:ES.
  - destruct r; cbn in ES; [discriminate|destruct (n =? LF); [discriminate|destruct (split_on LF r); discriminate]].
  - cbn [removelast] in L. destruct t; inversion L; subst; rewrite beq_refl in NB; discriminate.
Qed.

Lemma req_good_single l : echo_line cf l = true -> req_good cf (l ++ [LF]) = true.
Proof.
  intros E. destruct (echo_line_parts l E) as [NL [_ [_ [NB _]]]].
  unfold req_good. rewrite (is_list_single l NL NB). rewrite removelast_last, beq_refl, E.
  destruct l; reflexivity.
Qed.

Lemma parse_s r rest : wf_s cf r ->
  bparse_all Initial (enc_s cf r ++ rest) = (Initial, rest, Complete (resp_of (echo_reply cf) r)).
Proof.
  intros W. destruct r as [ns|u]; cbn [enc_s resp_of].
  - set (fs := map (fun n => (sub_field_key, n)) ns).
    assert (E : changed_lines ns ++ ok_line = enc (fields_resp fs)).
    { rewrite enc_fields, changed_lines_enc. reflexivity. }
    rewrite E. rewrite roundtrip_one.
    + reflexivity.
    + unfold wf_resp, fields_resp; cbn. rewrite !Bool.andb_true_r.
      unfold wf_frame; cbn. rewrite !Bool.andb_true_r. apply forallb_forall. intros kv Hin.
      apply in_map_iff in Hin. destruct Hin as [n [<- Hn]]. apply wf_changed.
      cbn in W. rewrite Forall_forall in W. apply W. exact Hn.
  - cbn [wf_s] in W. unfold echo_reply.
    destruct (req_good_cases u W) as [[EL [ls [EU [ELL G]]]]|[EL [l [EU [ERL E0]]]]]; rewrite EL.
    + rewrite ELL. destruct (list_good_parts ls G) as [_ [_ [WF E]]].
      rewrite E. rewrite roundtrip_one by exact WF. rewrite dec_aresp_of_list. reflexivity.
    + rewrite ERL. destruct (echo_line_parts l E0) as [_ [_ [_ [_ [WF E]]]]].
      rewrite E. rewrite roundtrip_one by exact WF. rewrite dec_aresp_of. reflexivity.
Qed.

End Replies.

(* ---------- one attempt to complete the pending receive ---------- *)

Lemma recv_sim cf st buf inbox wire rs : Forall (wf_s cf) rs -> S2C cf st buf inbox wire rs ->
  match bparse_all st (buf ++ inbox) with
  | (st', rest, Complete r) =>
    exists r1 rs', rs = r1 :: rs' /\ r = resp_of (echo_reply cf) r1 /\ S2C cf st' rest [] wire rs'
  | (st', rest, NeedMore) => S2C cf st' rest [] wire rs
  | (_, _, BInvalid) => False
  end.
Proof.
  intros WF [done [P E]]. rewrite (P inbox).
  set (W := done ++ buf ++ inbox) in *.
  assert (EW : W ++ wire = flat_map (enc_s cf) rs) by (unfold W; rewrite <- E, <- !app_assoc; reflexivity).
  clearbody W. clear E P.
  assert (Done : forall r1 rs' T, rs = r1 :: rs' -> W = enc_s cf r1 ++ T -> T ++ wire = flat_map (enc_s cf) rs' ->
          match bparse_all Initial W with
          | (st', rest, Complete r) =>
            exists r1 rs', rs = r1 :: rs' /\ r = resp_of (echo_reply cf) r1 /\ S2C cf st' rest [] wire rs'
          | (st', rest, NeedMore) => S2C cf st' rest [] wire rs
          | (_, _, BInvalid) => False
          end).
  { intros r1 rs' T -> -> ET. rewrite parse_s by (inversion WF; assumption).
    exists r1, rs'. split; [reflexivity|]. split; [reflexivity|].
    exists []. split; [intro z; reflexivity|]. exact ET. }
  destruct rs as [|r1 rs'].
  - cbn in EW. apply app_eq_nil in EW. destruct EW as [-> ->].
    rewrite bparse_all_unfold. cbn. exists []. split; [intro z; reflexivity|reflexivity].
  - cbn [flat_map] in EW. apply app_eq_app in EW. destruct EW as [l [[EW1 EW2]|[EW1 EW2]]].
    + eapply Done; [reflexivity|exact EW1|symmetry; exact EW2].
    + destruct l as [|c l].
      * rewrite app_nil_r in EW1. eapply Done; [reflexivity| |].
        -- rewrite app_nil_r. symmetry. exact EW1.
        -- cbn. exact EW2.
      * pose proof (bparse_app (length W) W Initial (c :: l) (le_n _)) as AV. unfold app_verdict in AV.
        assert (PS : bparse_all Initial (W ++ c :: l) = (Initial, [], Complete (resp_of (echo_reply cf) r1))).
        { rewrite <- EW1. rewrite <- (app_nil_r (enc_s cf r1)). apply parse_s. inversion WF; assumption. }
        destruct (bparse_all Initial W) as [[st' rest] v] eqn:EB. destruct v as [r| |].
        -- rewrite AV in PS. inversion PS as [[H1 H2 H3]]. apply app_eq_nil in H2. destruct H2; discriminate.
        -- destruct (bparse_suffix _ _ _ _ _ EB) as [c0 EC].
           exists c0. split.
           ++ intro z. pose proof (bparse_app (length W) W Initial z (le_n _)) as AZ. unfold app_verdict in AZ.
              rewrite EB in AZ. rewrite <- AZ. rewrite EC, <- app_assoc. reflexivity.
           ++ cbn [app]. rewrite app_assoc, <- EC. rewrite EW2. cbn [flat_map]. rewrite EW1, <- app_assoc. reflexivity.
        -- destruct AV as [st'' [rest' AV]]. rewrite AV in PS. discriminate.
Qed.

(* ---------- bookkeeping ---------- *)

Ltac xsimp :=
  cbn [x_h x_pw x_client x_failed x_pt x_spawned x_buf x_bst x_inbox x_eof x_rerr x_wfail x_queue x_callers
       x_handle x_elapsed x_evend x_cf x_srv x_c2s x_s2c x_wp x_wh x_evq x_evh
       set_pt set_conn set_qc set_h set_flags set_w set_ev set_net
       a_pt a_queue a_c2s a_idle a_pending a_s2c a_violated a_issued a_sent a_reported a_delivered a_replies
       g_w g_conn g_res g_ev g_panic add_res add_ev add_w add_conn set_panic
       s_idle s_pending s_list s_violated s_reported] in *.

Lemma events_idle ns : events_of (idle_frame ns) = map OEvent ns.
Proof. unfold events_of. rewrite changed_idle_frame. reflexivity. Qed.

Definition ev_seg (g : seg) (ns : list bytes) : seg :=
  mkSeg (g_w g) (g_conn g) (g_res g) (g_ev g ++ map ev_text ns) (g_panic g).

Lemma route_events ns : forall x g rest, x_evq x = false ->
  route_all x g (map OEvent ns ++ rest) = route_all x (ev_seg g ns) rest.
Proof.
  induction ns as [|n ns IH]; intros x g rest E; cbn [map app].
  - unfold ev_seg. cbn [map]. rewrite app_nil_r. destruct g; reflexivity.
  - cbn [route_all route]. rewrite E. rewrite IH by exact E. f_equal.
    unfold ev_seg, add_ev. cbn. rewrite <- app_assoc. reflexivity.
Qed.

Definition add_delivered (s : asys) (ns : list bytes) : asys :=
  mkA (a_pt s) (a_queue s) (a_c2s s) (a_idle s) (a_pending s) (a_s2c s) (a_violated s)
      (a_issued s) (a_sent s) (a_reported s) (a_delivered s ++ ns) (a_replies s).

Lemma apply_outs_evs ns : forall s rest,
  apply_outs s (map OEvent ns ++ rest) = apply_outs (add_delivered s ns) rest.
Proof.
  induction ns as [|n ns IH]; intros s rest; cbn [map app apply_outs].
  - unfold add_delivered. rewrite app_nil_r. destruct s; reflexivity.
  - rewrite IH. unfold add_delivered. cbn. rewrite <- app_assoc. reflexivity.
Qed.

Section Sim.
Variable cf : sconf.
Notation Rel := (LoopRefine.Rel cf).
Notation S2C := (LoopRefine.S2C cf).
Notation C2S := (LoopRefine.C2S cf).
Notation wf_s := (LoopRefine.wf_s cf).
Notation enc_s := (LoopRefine.enc_s cf).
Notation echo_reply := (LoopRefine.echo_reply cf).
Notation astep := (LoopSpec.astep echo_reply).
Notation Inv := (LoopSpec.Inv echo_reply).

Lemma try_receive_rel x s : Rel x s ->
  exists st' rest,
    (try_receive x = (None, set_conn x rest st' []) /\ S2C st' rest [] (x_s2c x) (a_s2c s)) \/
    (exists r1 rs', a_s2c s = r1 :: rs' /\
       try_receive x = (Some (RResp (resp_of echo_reply r1)), set_conn x rest st' []) /\
       S2C st' rest [] (x_s2c x) rs').
Proof.
  intros HR. unfold try_receive. rewrite (r_rerr _ _ _ HR), (r_eof _ _ _ HR).
  pose proof (recv_sim cf _ _ _ _ _ (r_s2c_wf _ _ _ HR) (r_s2c _ _ _ HR)) as RS.
  destruct (bparse_all (x_bst x) (x_buf x ++ x_inbox x)) as [[st' rest] v].
  exists st', rest. destruct v as [r| |].
  - right. destruct RS as [r1 [rs' [E1 [E2 E3]]]]. exists r1, rs'. subst r. auto.
  - left. auto.
  - contradiction.
Qed.

(* one resumption of the loop task, as settle performs it *)
Definition xstep (x : xsys) (g : seg) : option (xsys * seg) :=
  match client_event x with
  | None => None
  | Some (i, x1) =>
    let '(p, outs) := cstep (x_wfail x1) (x_pt x1) i in
    let x2 := set_pt x1 p (match p with PWindow => match x_pt x1 with PWindow => x_elapsed x1 | _ => 0 end | _ => x_elapsed x1 end) in
    let '(x3, g3) := route_all x2 g outs in
    Some (on_exit x3 g3)
  end.

Lemma settle_unfold f x g s : Rel x s ->
  settle (S f) x g = match xstep x g with None => (x, g) | Some (x4, g4) => settle f x4 g4 end.
Proof.
  intros HR. cbn [settle]. unfold handshake_event. rewrite (r_h _ _ _ HR), (r_spawned _ _ _ HR), (r_wh _ _ _ HR).
  cbn [negb]. unfold xstep. destruct (client_event x) as [[i x1]|]; [|reflexivity].
  destruct (cstep (x_wfail x1) (x_pt x1) i) as [p outs].
  destruct (route_all _ g outs) as [x3 g3]. destruct (on_exit x3 g3) as [x4 g4]. reflexivity.
Qed.

(* [nq]: the requests answered in this stretch, [ne]: the events delivered *)
Definition gext (g g' : seg) (nq : list request) (ne : list bytes) : Prop :=
  g_res g' = g_res g ++ map (res_text cf) nq /\ g_ev g' = g_ev g ++ map ev_text ne /\ g_panic g' = g_panic g.

Notation R := (LoopSpecProofs.R echo_reply).
Notation Inv2 := (LoopSpecProofs.Inv2 echo_reply).

Definition rank (p : point) : nat :=
  match p with PWindow => 3 | PIdle => 2 | PCancel _ => 1 | _ => 0 end.
Definition nu (s : asys) : nat := 4 * length (a_s2c s) + rank (a_pt s).

Definition client_label (l : label) : Prop := l = LTake \/ l = LRecv \/ l = LTimeout.


(* the abstract steps the executable system takes, with explicit results *)
Lemma a_take_idle s q rest : a_pt s = PIdle -> a_queue s = q :: rest ->
  astep s LTake = mkA (PCancel q) rest (a_c2s s ++ [noidle_line]) (a_idle s) (a_pending s) (a_s2c s) (a_violated s)
                      (a_issued s) (a_sent s) (a_reported s) (a_delivered s) (a_replies s).
Proof. destruct s; cbn; intros -> ->; cbn. unfold client; cbn. rewrite app_nil_r. reflexivity. Qed.

Lemma a_take_window s q rest : a_pt s = PWindow -> a_queue s = q :: rest ->
  astep s LTake = mkA (PWait (q_id q)) rest (a_c2s s ++ [q_bytes q]) (a_idle s) (a_pending s) (a_s2c s) (a_violated s)
                      (a_issued s) (a_sent s ++ [q]) (a_reported s) (a_delivered s) (a_replies s).
Proof. destruct s; cbn; intros -> ->; cbn. unfold client; cbn. reflexivity. Qed.

Lemma a_timeout s : a_pt s = PWindow ->
  astep s LTimeout = mkA PIdle (a_queue s) (a_c2s s ++ [idle_line]) (a_idle s) (a_pending s) (a_s2c s) (a_violated s)
                      (a_issued s) (a_sent s) (a_reported s) (a_delivered s) (a_replies s).
Proof. destruct s; cbn; intros ->; cbn. unfold client; cbn. rewrite app_nil_r. reflexivity. Qed.

Lemma a_recv_idle s ns rs' : a_pt s = PIdle -> a_s2c s = SIdle ns :: rs' ->
  astep s LRecv = mkA PIdle (a_queue s) (a_c2s s ++ [idle_line]) (a_idle s) (a_pending s) rs' (a_violated s)
                      (a_issued s) (a_sent s) (a_reported s) (a_delivered s ++ ns) (a_replies s).
Proof.
  destruct s as [pt queue c2s idle pending s2c viol issued sent reported delivered replies]; cbn [a_pt a_s2c]; intros -> ->. cbn [LoopSpec.astep a_s2c a_pt wants_recv]. unfold client. cbn [a_pt cstep].
  rewrite single_idle, events_idle.
  rewrite apply_outs_evs. cbn. rewrite app_nil_r. reflexivity.
Qed.

Lemma a_recv_cancel s q ns rs' : a_pt s = PCancel q -> a_s2c s = SIdle ns :: rs' ->
  astep s LRecv = mkA (PWait (q_id q)) (a_queue s) (a_c2s s ++ [q_bytes q]) (a_idle s) (a_pending s) rs' (a_violated s)
                      (a_issued s) (a_sent s ++ [q]) (a_reported s) (a_delivered s ++ ns) (a_replies s).
Proof.
  destruct s as [pt queue c2s idle pending s2c viol issued sent reported delivered replies]; cbn [a_pt a_s2c]; intros -> ->. cbn [LoopSpec.astep a_s2c a_pt wants_recv]. unfold client. cbn [a_pt cstep].
  rewrite single_idle, events_idle.
  rewrite apply_outs_evs. cbn. reflexivity.
Qed.

Lemma a_recv_wait s id r1 rs' : a_pt s = PWait id -> a_s2c s = r1 :: rs' ->
  astep s LRecv = mkA PWindow (a_queue s) (a_c2s s) (a_idle s) (a_pending s) rs' (a_violated s)
                      (a_issued s) (a_sent s) (a_reported s) (a_delivered s) (a_replies s ++ [(id, resp_of echo_reply r1)]).
Proof. destruct s; cbn; intros -> ->; cbn. unfold client; cbn. rewrite app_nil_r. reflexivity. Qed.

Ltac destr_rel HR :=
  destruct HR as [Hh Hclient Hfailed Hspawned Heof Hrerr Hwfail Hhandle Hwp Hwh Hevq Hcf Hpt Hqueue Hcallers Hreqs
                  Hc2s Hwrites Hidle Hpending Hpwf Hviol Hreported Hs2cwf Hs2c].

Lemma concat_snoc (l : list bytes) (u : bytes) : concat (l ++ [u]) = concat l ++ u.
Proof. rewrite concat_app. cbn. rewrite app_nil_r. reflexivity. Qed.

Lemma forall_snoc {A} (P : A -> Prop) l u : Forall P l -> P u -> Forall P (l ++ [u]).
Proof. intros H1 H2. apply Forall_app. split; [exact H1|constructor; [exact H2|constructor]]. Qed.

Lemma c2s_write x s x' s' w : C2S x s -> s_list (x_srv x') = s_list (x_srv x) -> x_c2s x' = x_c2s x ++ w ->
  a_c2s s' = a_c2s s ++ [w] -> a_idle s' = a_idle s -> C2S x' s'.
Proof.
  unfold C2S. intros H EL EX EA EI. rewrite EL. destruct (s_list (x_srv x)) as [acc|].
  - destruct H as [rest [todo [A [B [C G]]]]]. exists (rest ++ [w]), todo.
    rewrite EA, A, EX, B, EI, concat_snoc. split; [reflexivity|]. split; [rewrite <- !app_assoc; reflexivity|auto].
  - rewrite EX, H, EA, concat_snoc. reflexivity.
Qed.

Lemma c2s_same x s x' s' : C2S x s -> s_list (x_srv x') = s_list (x_srv x) -> x_c2s x' = x_c2s x ->
  a_c2s s' = a_c2s s -> a_idle s' = a_idle s -> C2S x' s'.
Proof.
  unfold C2S. intros H EL EX EA EI. rewrite EL, EX, EA, EI. exact H.
Qed.

Ltac c2s_w HC := eapply c2s_write; [exact HC|reflexivity|reflexivity|reflexivity|reflexivity].
Ltac c2s_s HC := eapply c2s_same; [exact HC|reflexivity|reflexivity|reflexivity|reflexivity].

Lemma last_snoc {A} (l : list A) x d : last (l ++ [x]) d = x.
Proof. apply last_last. Qed.

Lemma sim_take_idle x s g q rest st' buf' :
  Rel x s -> a_pt s = PIdle -> a_queue s = q :: rest ->
  try_receive x = (None, set_conn x buf' st' []) -> S2C st' buf' [] (x_s2c x) (a_s2c s) ->
  exists x4 g4, xstep x g = Some (x4, g4) /\ Rel x4 (astep s LTake) /\ gext g g4 [] [].
Proof.
  intros HR EP EQ TR SC. pose proof HR as HR'. destr_rel HR'.
  unfold xstep, client_event. rewrite Hpt, EP. cbn [wants_recv wants_cmd]. rewrite TR. cbn [fst snd]. xsimp.
  rewrite Hqueue, EQ. xsimp. rewrite Hwfail, Hpt, EP. cbn [cstep route_all route]. xsimp. rewrite Hwp.
  unfold on_exit. xsimp.
  eexists. eexists. split; [reflexivity|]. split; [|unfold gext; cbn; rewrite !app_nil_r; auto].
  rewrite (a_take_idle s q rest EP EQ).
  constructor; xsimp; try assumption.
  - reflexivity.
  - reflexivity.
  - unfold outstanding in *. xsimp. rewrite EP, EQ in Hcallers. exact Hcallers.
  - rewrite EP, EQ in Hreqs. exact Hreqs.
  - c2s_w Hc2s.
  - apply forall_snoc; [assumption|right; left; reflexivity].
Qed.

Lemma sim_take_window x s g q rest :
  Rel x s -> a_pt s = PWindow -> a_queue s = q :: rest ->
  exists x4 g4, xstep x g = Some (x4, g4) /\ Rel x4 (astep s LTake) /\ gext g g4 [] [].
Proof.
  intros HR EP EQ. pose proof HR as HR'. destr_rel HR'.
  unfold xstep, client_event. rewrite Hpt, EP. cbn [wants_recv wants_cmd].
  rewrite Hqueue, EQ. xsimp. rewrite Hwfail, Hpt, EP. cbn [cstep route_all route]. xsimp. rewrite Hwp.
  unfold on_exit. xsimp.
  eexists. eexists. split; [reflexivity|]. split; [|unfold gext; cbn; rewrite !app_nil_r; auto].
  rewrite (a_take_window s q rest EP EQ).
  rewrite EP, EQ in Hreqs. cbn [held app] in Hreqs. pose proof (Forall_inv Hreqs) as Hq. pose proof (Forall_inv_tail Hreqs) as Hrest. cbn beta in Hq.
  constructor; xsimp; try assumption.
  - reflexivity.
  - reflexivity.
  - unfold outstanding in *. xsimp. rewrite EP, EQ in Hcallers. rewrite last_snoc. exact Hcallers.
  - c2s_w Hc2s.
  - apply forall_snoc; [assumption|right; right; exact Hq].
Qed.

Lemma sim_timeout x s g :
  Rel x s -> a_pt s = PWindow -> a_queue s = [] -> (idle_timeout_ms <=? x_elapsed x) = true ->
  exists x4 g4, xstep x g = Some (x4, g4) /\ Rel x4 (astep s LTimeout) /\ gext g g4 [] [].
Proof.
  intros HR EP EQ ET. pose proof HR as HR'. destr_rel HR'.
  unfold xstep, client_event. rewrite Hpt, EP. cbn [wants_recv wants_cmd].
  rewrite Hqueue, EQ. unfold chan_closed. rewrite Hhandle. cbn [negb andb]. rewrite ET.
  rewrite Hwfail, Hpt, EP. cbn [cstep route_all route]. xsimp. rewrite Hwp.
  unfold on_exit. xsimp.
  eexists. eexists. split; [reflexivity|]. split; [|unfold gext; cbn; rewrite !app_nil_r; auto].
  rewrite (a_timeout s EP).
  constructor; xsimp; try assumption.
  - reflexivity.
  - unfold outstanding in *. xsimp. rewrite EP in Hcallers. exact Hcallers.
  - rewrite EP in Hreqs. exact Hreqs.
  - c2s_w Hc2s.
  - apply forall_snoc; [assumption|left; reflexivity].
Qed.

Lemma sim_recv_idle x s g ns rs' st' buf' :
  Rel x s -> a_pt s = PIdle -> a_s2c s = SIdle ns :: rs' ->
  try_receive x = (Some (RResp (resp_of echo_reply (SIdle ns))), set_conn x buf' st' []) -> S2C st' buf' [] (x_s2c x) rs' ->
  exists x4 g4, xstep x g = Some (x4, g4) /\ Rel x4 (astep s LRecv) /\ gext g g4 [] ns.
Proof.
  intros HR EP ES TR SC. pose proof HR as HR'. destr_rel HR'.
  unfold xstep, client_event. rewrite Hpt, EP. cbn [wants_recv wants_cmd]. rewrite TR. xsimp.
  rewrite Hwfail, Hpt, EP. cbn [cstep]. rewrite single_idle, events_idle.
  rewrite route_events by (xsimp; exact Hevq). cbn [route_all route]. xsimp. rewrite Hwp.
  unfold on_exit. xsimp.
  eexists. eexists. split; [reflexivity|]. split; [|unfold gext, ev_seg; cbn; rewrite !app_nil_r; auto].
  rewrite (a_recv_idle s ns rs' EP ES). rewrite ES in Hs2cwf.
  constructor; xsimp; try assumption.
  - reflexivity.
  - unfold outstanding in *. xsimp. rewrite EP in Hcallers. exact Hcallers.
  - rewrite EP in Hreqs. exact Hreqs.
  - c2s_w Hc2s.
  - apply forall_snoc; [assumption|left; reflexivity].
  - exact (Forall_inv_tail Hs2cwf).
Qed.

Lemma sim_recv_cancel x s g q ns rs' st' buf' :
  Rel x s -> a_pt s = PCancel q -> a_s2c s = SIdle ns :: rs' ->
  try_receive x = (Some (RResp (resp_of echo_reply (SIdle ns))), set_conn x buf' st' []) -> S2C st' buf' [] (x_s2c x) rs' ->
  exists x4 g4, xstep x g = Some (x4, g4) /\ Rel x4 (astep s LRecv) /\ gext g g4 [] ns.
Proof.
  intros HR EP ES TR SC. pose proof HR as HR'. destr_rel HR'.
  unfold xstep, client_event. rewrite Hpt, EP. cbn [wants_recv wants_cmd]. rewrite TR. xsimp.
  rewrite Hwfail, Hpt, EP. cbn [cstep]. rewrite single_idle, events_idle.
  rewrite route_events by (xsimp; exact Hevq). cbn [route_all route]. xsimp. rewrite Hwp.
  unfold on_exit. xsimp.
  eexists. eexists. split; [reflexivity|]. split; [|unfold gext, ev_seg; cbn; rewrite !app_nil_r; auto].
  rewrite (a_recv_cancel s q ns rs' EP ES). rewrite ES in Hs2cwf.
  rewrite EP in Hreqs. cbn [held app] in Hreqs. pose proof (Forall_inv Hreqs) as Hq. cbn beta in Hq.
  constructor; xsimp; try assumption.
  - reflexivity.
  - unfold outstanding in *. xsimp. rewrite EP in Hcallers. rewrite last_snoc. exact Hcallers.
  - exact (Forall_inv_tail Hreqs).
  - c2s_w Hc2s.
  - apply forall_snoc; [assumption|right; right; exact Hq].
  - exact (Forall_inv_tail Hs2cwf).
Qed.

(* a reply of the fragment to a single line has one frame and no error, or no frame and an error: raw_command and
   raw_command_list hand over the same thing *)
Lemma single_reply_shape l : echo_line cf l = true ->
  split_list (reply_of_line cf l) = split_single (reply_of_line cf l).
Proof.
  intros E. destruct (echo_line_parts cf l E) as [_ [_ [_ [_ [WF _]]]]].
  set (r := reply_of_line cf l) in *.
  unfold wf_resp in WF. apply Bool.andb_true_iff in WF. destruct WF as [WF _].
  apply Bool.andb_true_iff in WF. destruct WF as [SHP _].
  unfold wf_shape, aresp_of in SHP. cbn [a_form a_error a_frames] in SHP. rewrite map_length in SHP.
  unfold split_list, split_single, single_frame. destruct (r_error r) as [e|].
  - apply Nat.eqb_eq in SHP. destruct (r_frames r); [reflexivity|discriminate].
  - apply Nat.eqb_eq in SHP. destruct (r_frames r) as [|f [|f2 fs]]; try discriminate. reflexivity.
Qed.

(* whatever the kind the caller was created with, it is handed the reply as [res_of] says *)
Lemma crel_result c q k : crel c q -> snd c = KRaw k -> req_good cf (q_bytes q) = true ->
  result_of_reply k (RepResp (echo_reply (q_bytes q))) = res_of (q_bytes q) (echo_reply (q_bytes q)).
Proof.
  intros [_ CK] EK G. unfold res_of. cbn [result_of_reply].
  destruct CK as [[E1 E2]|E1]; rewrite EK in E1; injection E1 as ->.
  - rewrite E2. reflexivity.
  - destruct (is_list (q_bytes q)) eqn:EL; [reflexivity|].
    destruct (req_good_cases cf _ G) as [[EL' _]|[_ [l [EU [ERL E0]]]]]; [congruence|].
    unfold LoopRefine.echo_reply. rewrite EL, ERL. apply single_reply_shape. exact E0.
Qed.

Lemma sim_recv_wait x s g id r1 rs' st' buf' :
  Rel x s -> Inv s -> Inv2 s -> a_pt s = PWait id -> a_s2c s = r1 :: rs' ->
  try_receive x = (Some (RResp (resp_of echo_reply r1)), set_conn x buf' st' []) -> S2C st' buf' [] (x_s2c x) rs' ->
  exists x4 g4 q, xstep x g = Some (x4, g4) /\ Rel x4 (astep s LRecv) /\ gext g g4 [q] [] /\
    (id, resp_of echo_reply r1) = R q /\ a_sent s = removelast (a_sent s) ++ [q].
Proof.
  intros HR HI H2 EP ES TR SC. pose proof HR as HR'. destr_rel HR'.
  (* the request in flight *)
  unfold LoopSpecProofs.Inv2 in H2. rewrite EP in H2. destruct H2 as [pre [q [ESENT [EID [_ EINF]]]]].
  assert (ER1 : r1 = SReply (q_bytes q) /\ rs' = []).
  { destruct HI as [SH _]. unfold shape in SH. rewrite EP in SH.
    destruct SH as [q' [_ [_ [_ [_ [[_ E]|[[_ E]|[_ E]]]]]]]]; rewrite E in ES; try discriminate.
    inversion ES; subst. unfold LoopSpecProofs.inflight in EINF. rewrite E in EINF. rewrite EINF. auto. }
  destruct ER1 as [-> ->].
  assert (WQ : req_good cf (q_bytes q) = true) by (rewrite ES in Hs2cwf; exact (Forall_inv Hs2cwf)).
  unfold outstanding in Hcallers. rewrite EP, ESENT, last_snoc in Hcallers. cbn [app] in Hcallers.
  inversion Hcallers as [|c q0 cs qs CR CRS EC EQS]. subst q0 qs.
  destruct c as [cid ck]. pose proof CR as [CID CK]. cbn [fst snd] in CID, CK.
  assert (EK : exists k, ck = KRaw k) by (destruct CK as [[E _]|E]; eauto). destruct EK as [k ->].
  unfold xstep, client_event. rewrite Hpt, EP. cbn [wants_recv wants_cmd]. rewrite TR. xsimp.
  rewrite Hwfail, Hpt, EP. cbn [cstep]. cbn [route_all route]. xsimp.
  rewrite <- EC. cbn [find_caller]. rewrite CID, <- EID, N.eqb_refl. cbn [caller_result]. xsimp.
  rewrite <- EC. cbn [remove_caller]. rewrite CID, <- EID, N.eqb_refl.
  unfold on_exit. xsimp.
  eexists. eexists. exists q. split; [reflexivity|]. split; [|split; [|split]].
  - rewrite (a_recv_wait s id (SReply (q_bytes q)) [] EP ES). rewrite ES in Hs2cwf.
    constructor; xsimp; try assumption; try reflexivity.
    + rewrite EP in Hreqs. exact Hreqs.
    + exact (Forall_inv_tail Hs2cwf).
  - unfold gext, add_res. cbn [g_res g_ev g_panic map]. rewrite !app_nil_r. split; [|auto].
    f_equal. unfold res_text. rewrite EID. f_equal. f_equal.
    cbn [resp_of]. rewrite (crel_result (cid, KRaw k) q k CR eq_refl WQ). reflexivity.
  - unfold LoopSpecProofs.R. rewrite EID. reflexivity.
  - rewrite ESENT, removelast_last. reflexivity.
Qed.

Lemma xstep_none_recv_only x s g st' buf' :
  Rel x s -> (exists q, a_pt s = PCancel q) \/ (exists id, a_pt s = PWait id) ->
  try_receive x = (None, set_conn x buf' st' []) -> xstep x g = None.
Proof.
  intros HR EP TR. unfold xstep, client_event. rewrite (r_pt _ _ _ HR).
  destruct EP as [[q EP]|[id EP]]; rewrite EP; cbn [wants_recv wants_cmd]; rewrite TR; reflexivity.
Qed.

Lemma xstep_none_idle x s g st' buf' :
  Rel x s -> a_pt s = PIdle -> a_queue s = [] ->
  try_receive x = (None, set_conn x buf' st' []) -> xstep x g = None.
Proof.
  intros HR EP EQ TR. unfold xstep, client_event. rewrite (r_pt _ _ _ HR), EP. cbn [wants_recv wants_cmd].
  rewrite TR. cbn [fst snd]. xsimp. rewrite (r_queue _ _ _ HR), EQ. unfold chan_closed. xsimp.
  rewrite (r_handle _ _ _ HR). reflexivity.
Qed.

Lemma xstep_none_window x s g :
  Rel x s -> a_pt s = PWindow -> a_queue s = [] -> (idle_timeout_ms <=? x_elapsed x) = false -> xstep x g = None.
Proof.
  intros HR EP EQ ET. unfold xstep, client_event. rewrite (r_pt _ _ _ HR), EP. cbn [wants_recv wants_cmd].
  rewrite (r_queue _ _ _ HR), EQ. unfold chan_closed. rewrite (r_handle _ _ _ HR). cbn [negb andb]. rewrite ET. reflexivity.
Qed.

(* the requests already answered: everything written except the one in flight *)
Definition ansreqs (s : asys) : list request :=
  match a_pt s with PWait _ => removelast (a_sent s) | _ => a_sent s end.

Definition step_post (s : asys) (g : seg) (x4 : xsys) (g4 : seg) : Prop :=
  exists l nr ne, client_label l /\ Rel x4 (astep s l) /\ gext g g4 nr ne /\
    a_replies (astep s l) = a_replies s ++ map R nr /\ a_delivered (astep s l) = a_delivered s ++ ne /\
    ansreqs (astep s l) = ansreqs s ++ nr /\
    (nu (astep s l) < nu s)%nat.

Lemma idle_head s r1 rs' : Inv s -> a_pt s = PIdle \/ (exists q, a_pt s = PCancel q) -> a_s2c s = r1 :: rs' ->
  exists ns, r1 = SIdle ns.
Proof.
  intros [SH _] EP ES. unfold shape in SH. destruct EP as [EP|[q EP]]; rewrite EP in SH.
  - destruct SH as [[_ [_ E]]|[[_ [_ [_ E]]]|[ns [_ [_ E]]]]]; rewrite E in ES; inversion ES. exists ns. reflexivity.
  - destruct SH as [_ [_ [[_ [_ E]]|[[_ [_ [_ E]]]|[[ns [_ [_ E]]]|[ns [_ [_ E]]]]]]]]; rewrite E in ES; inversion ES;
      exists ns; reflexivity.
Qed.

Lemma xstep_sim x s g : Rel x s -> Inv s -> Inv2 s ->
  match xstep x g with None => True | Some (x4, g4) => step_post s g x4 g4 end.
Proof.
  intros HR HI H2. destruct (a_pt s) as [|q|id| |] eqn:EP.
  - (* PIdle *)
    destruct (try_receive_rel x s HR) as [st' [rest [[TR SC]|[r1 [rs' [ES [TR SC]]]]]]].
    + destruct (a_queue s) as [|q rest'] eqn:EQ.
      * rewrite (xstep_none_idle x s g st' rest HR EP EQ TR). exact I.
      * destruct (sim_take_idle x s g q rest' st' rest HR EP EQ TR SC) as [x4 [g4 [EX [HR4 GE]]]]. rewrite EX.
        exists LTake, [], []. split; [left; reflexivity|]. split; [exact HR4|]. split; [exact GE|].
        rewrite (a_take_idle s q rest' EP EQ). unfold nu, ansreqs. cbn. rewrite !app_nil_r, EP. cbn. split; [reflexivity|]. split; [reflexivity|]. split; [reflexivity|lia].
    + destruct (idle_head s r1 rs' HI (or_introl EP) ES) as [ns ->].
      destruct (sim_recv_idle x s g ns rs' st' rest HR EP ES TR SC) as [x4 [g4 [EX [HR4 GE]]]]. rewrite EX.
      exists LRecv, [], ns. split; [right; left; reflexivity|]. split; [exact HR4|]. split; [exact GE|].
      rewrite (a_recv_idle s ns rs' EP ES). unfold nu, ansreqs. cbn. rewrite !app_nil_r, EP, ES. cbn. split; [reflexivity|]. split; [reflexivity|]. split; [reflexivity|lia].
  - (* PCancel *)
    destruct (try_receive_rel x s HR) as [st' [rest [[TR SC]|[r1 [rs' [ES [TR SC]]]]]]].
    + rewrite (xstep_none_recv_only x s g st' rest HR (or_introl (ex_intro _ q EP)) TR). exact I.
    + destruct (idle_head s r1 rs' HI (or_intror (ex_intro _ q EP)) ES) as [ns ->].
      destruct (sim_recv_cancel x s g q ns rs' st' rest HR EP ES TR SC) as [x4 [g4 [EX [HR4 GE]]]]. rewrite EX.
      exists LRecv, [], ns. split; [right; left; reflexivity|]. split; [exact HR4|]. split; [exact GE|].
      rewrite (a_recv_cancel s q ns rs' EP ES). unfold nu, ansreqs. cbn [a_replies a_delivered a_s2c a_pt a_sent map]. rewrite !app_nil_r, EP, ES, removelast_last. cbn.
      split; [reflexivity|]. split; [reflexivity|]. split; [reflexivity|lia].
  - (* PWait *)
    destruct (try_receive_rel x s HR) as [st' [rest [[TR SC]|[r1 [rs' [ES [TR SC]]]]]]].
    + rewrite (xstep_none_recv_only x s g st' rest HR (or_intror (ex_intro _ id EP)) TR). exact I.
    + destruct (sim_recv_wait x s g id r1 rs' st' rest HR HI H2 EP ES TR SC) as [x4 [g4 [q [EX [HR4 [GE [ERQ ESQ]]]]]]]. rewrite EX.
      exists LRecv, [q], []. split; [right; left; reflexivity|]. split; [exact HR4|]. split; [exact GE|].
      rewrite (a_recv_wait s id r1 rs' EP ES). unfold nu, ansreqs. cbn [a_replies a_delivered a_s2c a_pt a_sent map]. rewrite !app_nil_r, EP, ES, ERQ. cbn.
      split; [reflexivity|]. split; [reflexivity|]. split; [exact ESQ|lia].
  - (* PWindow *)
    destruct (a_queue s) as [|q rest'] eqn:EQ.
    + destruct (idle_timeout_ms <=? x_elapsed x) eqn:ET.
      * destruct (sim_timeout x s g HR EP EQ ET) as [x4 [g4 [EX [HR4 GE]]]]. rewrite EX.
        exists LTimeout, [], []. split; [right; right; reflexivity|]. split; [exact HR4|]. split; [exact GE|].
        rewrite (a_timeout s EP). unfold nu, ansreqs. cbn. rewrite !app_nil_r, EP. cbn. split; [reflexivity|]. split; [reflexivity|]. split; [reflexivity|lia].
      * rewrite (xstep_none_window x s g HR EP EQ ET). exact I.
    + destruct (sim_take_window x s g q rest' HR EP EQ) as [x4 [g4 [EX [HR4 GE]]]]. rewrite EX.
      exists LTake, [], []. split; [left; reflexivity|]. split; [exact HR4|]. split; [exact GE|].
      rewrite (a_take_window s q rest' EP EQ). unfold nu, ansreqs. cbn [a_replies a_delivered a_s2c a_pt a_sent map]. rewrite !app_nil_r, EP, removelast_last. cbn.
      split; [reflexivity|]. split; [reflexivity|]. split; [reflexivity|lia].
  - (* PExited *) destruct HI as [SH _]. unfold shape in SH. rewrite EP in SH. contradiction.
Qed.

Lemma gext_trans g1 g2 g3 nr1 ne1 nr2 ne2 :
  gext g1 g2 nr1 ne1 -> gext g2 g3 nr2 ne2 -> gext g1 g3 (nr1 ++ nr2) (ne1 ++ ne2).
Proof.
  intros [A1 [A2 A3]] [B1 [B2 B3]]. unfold gext. rewrite !map_app, !app_assoc, <- A1, <- A2. rewrite B1, B2, B3. auto.
Qed.

Lemma client_label_wf l : client_label l -> wf_label l.
Proof. intros [H|[H|H]]; subst l; exact I. Qed.

Definition run_post (s : asys) (g : seg) (x' : xsys) (g' : seg) : Prop :=
  exists sch nr ne, Forall client_label sch /\ Rel x' (fold_left astep sch s) /\ Inv (fold_left astep sch s) /\
    Inv2 (fold_left astep sch s) /\
    gext g g' nr ne /\
    a_replies (fold_left astep sch s) = a_replies s ++ map R nr /\
    a_delivered (fold_left astep sch s) = a_delivered s ++ ne /\
    ansreqs (fold_left astep sch s) = ansreqs s ++ nr.

Lemma settle_sim : forall f x g s, Rel x s -> Inv s -> Inv2 s -> (nu s < f)%nat ->
  run_post s g (fst (settle f x g)) (snd (settle f x g)).
Proof.
  induction f as [|f IH]; intros x g s HR HI H2 Hf; [lia|].
  rewrite (settle_unfold f x g s HR). pose proof (xstep_sim x s g HR HI H2) as XS.
  destruct (xstep x g) as [[x4 g4]|].
  - destruct XS as [l [nr [ne [CL [HR4 [GE [ER [ED [EA NU]]]]]]]]].
    assert (HI4 : Inv (astep s l)) by (apply inv_step; [apply client_label_wf; exact CL|exact HI]).
    assert (H24 : Inv2 (astep s l)) by (apply inv2_step; [apply client_label_wf; exact CL|exact HI|exact H2]).
    assert (Hf4 : (nu (astep s l) < f)%nat) by lia.
    destruct (IH x4 g4 (astep s l) HR4 HI4 H24 Hf4) as [sch [nr' [ne' [CS [HR' [HI' [H2' [GE' [ER' [ED' EA']]]]]]]]]].
    exists (l :: sch), (nr ++ nr'), (ne ++ ne'). cbn [fold_left].
    split; [constructor; assumption|]. split; [exact HR'|]. split; [exact HI'|]. split; [exact H2'|].
    split; [eapply gext_trans; eassumption|].
    rewrite ER', ED', EA', ER, ED, EA, map_app, <- !app_assoc. auto.
  - exists [], [], []. cbn [fold_left fst snd map]. rewrite !app_nil_r.
    split; [constructor|]. split; [exact HR|]. split; [exact HI|]. split; [exact H2|].
    split; [unfold gext; cbn; rewrite !app_nil_r; auto|auto].
Qed.

(* the invariant bounds the measure: at most one response is in flight *)
Lemma nu_bound s : Inv s -> (nu s < 8)%nat.
Proof.
  intros [SH _]. unfold nu, shape in *. destruct (a_pt s); cbn [rank].
  - destruct SH as [[_ [_ E]]|[[_ [_ [_ E]]]|[ns [_ [_ E]]]]]; rewrite E; cbn; lia.
  - destruct SH as [_ [_ [[_ [_ E]]|[[_ [_ [_ E]]]|[[ns [_ [_ E]]]|[ns [_ [_ E]]]]]]]]; rewrite E; cbn; lia.
  - destruct SH as [q [_ [_ [_ [_ [[_ E]|[[_ E]|[_ E]]]]]]]]; rewrite E; cbn; lia.
  - destruct SH as [_ [_ E]]; rewrite E; cbn; lia.
  - contradiction.
Qed.

(* ---------- labels: the parsed form has the meaning apply_label_g gives the text ---------- *)

Definition issue_line (x : xsys) (id : N) (l : bytes) : xsys * seg :=
  if negb (x_client x && x_handle x) then (x, add_res seg0 id (b "noclient")) else
  if loop_alive x then (set_qc x (x_queue x ++ [mkReq id (l ++ [LF])]) (x_callers x ++ [(id, KRaw true)]), seg0)
  else (x, add_res seg0 id (b "closed")).

Definition issue_lines (x : xsys) (id : N) (ls : list bytes) : xsys * seg :=
  if negb (x_client x && x_handle x) then (x, add_res seg0 id (b "noclient")) else
  if loop_alive x then (set_qc x (x_queue x ++ [mkReq id (render_list ls)]) (x_callers x ++ [(id, KRaw false)]), seg0)
  else (x, add_res seg0 id (b "closed")).

Definition run_op (x1 : xsys) (g : seg) : xsys * option seg :=
  let '(x2, g2) := settle (fuel_for x1) x1 g in (x2, Some g2).

Definition sem (x : xsys) (gl : glabel) : xsys * option seg :=
  match gl with
  | GNotify n => let '(st, out) := snotify (x_srv x) n in (set_net x st (x_c2s x) (x_s2c x ++ out), None)
  | GServe all => (DriverLoop.serve (S (length (x_c2s x))) all x, None)
  | GDeliver id =>
    let k := if id =? 0 then length (x_s2c x) else N.to_nat id in
    let chunk := if x_eof x then [] else firstn k (x_s2c x) in
    match chunk with
    | [] => (x, None)
    | _ => let x1 := set_net x (x_srv x) (x_c2s x) (skipn k (x_s2c x)) in
           run_op (set_conn x1 (x_buf x1) (x_bst x1) (x_inbox x1 ++ chunk)) seg0
    end
  | GTick ms => run_op (set_pt x (x_pt x) (match x_pt x with PWindow => x_elapsed x + ms | _ => x_elapsed x end)) seg0
  | GIssue id l => let '(x1, g1) := issue_line x id l in run_op x1 g1
  | GIssueL id ls => let '(x1, g1) := issue_lines x id ls in run_op x1 g1
  end.

Ltac compute_eqb :=
  repeat match goal with
         | |- context [N.eqb (Npos ?a) (Npos ?c)] =>
           let v := eval vm_compute in (N.eqb (Npos a) (Npos c)) in change (N.eqb (Npos a) (Npos c)) with v
         end.

(* the full result of apply_label_g on a label of the fragment *)
Definition sem3 (x : xsys) (lab : bytes) (gl : glabel) : option bytes * xsys * option seg :=
  match gl with
  | GNotify n => let '(st, out) := snotify (x_srv x) n in (None, set_net x st (x_c2s x) (x_s2c x ++ out), None)
  | GServe all => (None, DriverLoop.serve (S (length (x_c2s x))) all x, None)
  | GDeliver id =>
    let k := if id =? 0 then length (x_s2c x) else N.to_nat id in
    let chunk := if x_eof x then [] else firstn k (x_s2c x) in
    match chunk with
    | [] => (None, x, None)
    | _ => let x1 := set_net x (x_srv x) (x_c2s x) (skipn k (x_s2c x)) in
           let '(x2, g2) := settle (fuel_for x1) (set_conn x1 (x_buf x1) (x_bst x1) (x_inbox x1 ++ chunk)) seg0 in
           (Some (b "d:" ++ hex chunk), x2, Some g2)
    end
  | GTick ms =>
    let '(x2, g2) := settle (fuel_for x) (set_pt x (x_pt x) (match x_pt x with PWindow => x_elapsed x + ms | _ => x_elapsed x end)) seg0 in
    (Some lab, x2, Some g2)
  | GIssue id l =>
    let '(x1, g1) := issue_line x id l in
    let '(x2, g2) := settle (fuel_for x1) x1 g1 in (Some lab, x2, Some g2)
  | GIssueL id ls =>
    let '(x1, g1) := issue_lines x id ls in
    let '(x2, g2) := settle (fuel_for x1) x1 g1 in (Some lab, x2, Some g2)
  end.

Ltac known_kind E kind :=
  apply N.eqb_eq in E; subst kind.

Ltac classify_chain kind :=
  let H := fresh "H" in
  destruct (kind =? 78) eqn:E78;
  [ known_kind E78 kind; intros H; inversion H; subst; unfold apply_core, sem3; compute_eqb; cbv beta zeta iota; reflexivity |];
  destruct (kind =? 83) eqn:E83;
  [ known_kind E83 kind; intros H; inversion H; subst; unfold apply_core, sem3; compute_eqb; cbv beta zeta iota; reflexivity |];
  destruct (kind =? 68) eqn:E68;
  [ known_kind E68 kind; intros H; inversion H; subst; unfold apply_core, sem3; compute_eqb; cbv beta zeta iota; reflexivity |];
  destruct (kind =? 116) eqn:E116;
  [ known_kind E116 kind; intros H; inversion H; subst; unfold apply_core, sem3; compute_eqb; cbv beta zeta iota; reflexivity |];
  destruct (kind =? 99) eqn:E99;
  [ known_kind E99 kind; unfold apply_core, issue, sem3, issue_line; cbn [existsb]; compute_eqb; cbn [orb]; cbv beta zeta iota;
    match goal with |- context [all_some_l ?m] => destruct (all_some_l m) as [[|l0 ls0]|] end; try discriminate;
    intros H; inversion H; subst; cbn [render_list]; cbv beta zeta;
    destruct (negb _); [reflexivity|]; destruct (loop_alive _); reflexivity |];
  destruct (kind =? 105) eqn:E105; [|discriminate];
  known_kind E105 kind; unfold apply_core, issue, sem3, issue_lines; cbn [existsb]; compute_eqb; cbn [orb]; cbv beta zeta iota;
  match goal with |- context [all_some_l ?m] => destruct (all_some_l m) as [[|l0 ls0]|] end; try discriminate;
  intros H; inversion H; subst; cbv beta zeta;
  destruct (negb _); [reflexivity|]; destruct (loop_alive _); reflexivity.

(* the part of classify after the label is split at ':' *)
Definition classify_core (kind : N) (idtxt arg : bytes) : option glabel :=
  let id := read_N idtxt in
  if kind =? 78 then Some (GNotify (unhex arg))
  else if kind =? 83 then Some (GServe (beq idtxt [42]))
  else if kind =? 68 then Some (GDeliver id)
  else if kind =? 116 then Some (GTick id)
  else if kind =? 99 then
    match all_some_l (map parse_spec (split_specs arg)) with
    | Some (l :: _) => Some (GIssue id l)
    | _ => None
    end
  else if kind =? 105 then
    match all_some_l (map parse_spec (split_specs arg)) with
    | Some (l :: ls) => Some (GIssueL id (l :: ls))
    | _ => None
    end
  else None.

Lemma core_sem3 x lab gl kind idtxt arg :
  classify_core kind idtxt arg = Some gl -> apply_core x lab kind idtxt arg = sem3 x lab gl.
Proof. unfold classify_core. cbv beta zeta. classify_chain kind. Qed.

Lemma classify_sem3 x lab gl : classify lab = Some gl -> apply_label_g x lab = sem3 x lab gl.
Proof.
  unfold classify, apply_label_g, label_parts.
  destruct (split_on 58 lab) as [|h [|a t]]; try discriminate;
    (destruct h as [|kind idtxt]; [discriminate|]; apply core_sem3).
Qed.

Lemma sem3_sem x lab gl :
  snd (fst (sem3 x lab gl)) = fst (sem x gl) /\ snd (sem3 x lab gl) = snd (sem x gl) /\
  match snd (sem3 x lab gl), fst (fst (sem3 x lab gl)) with Some _, None => False | _, _ => True end.
Proof.
  destruct gl as [id l|id ls|n|all|k|ms]; unfold sem3, sem, run_op.
  - destruct (issue_line x id l) as [x1 g1]. destruct (settle _ x1 g1). repeat split.
  - destruct (issue_lines x id ls) as [x1 g1]. destruct (settle _ x1 g1). repeat split.
  - destruct (snotify _ _). repeat split.
  - repeat split.
  - cbv zeta. match goal with |- context [match ?c with [] => _ | _ :: _ => _ end] => destruct c end.
    + repeat split.
    + destruct (settle _ _ _). repeat split.
  - destruct (settle _ _ _). repeat split.
Qed.

Lemma classify_sem x lab gl : classify lab = Some gl ->
  snd (fst (apply_label_g x lab)) = fst (sem x gl) /\ snd (apply_label_g x lab) = snd (sem x gl) /\
  match snd (apply_label_g x lab), fst (fst (apply_label_g x lab)) with Some _, None => False | _, _ => True end.
Proof. intros CL. rewrite (classify_sem3 x lab gl CL). apply sem3_sem. Qed.

(* ---------- the server side ---------- *)

Transparent idle_line noidle_line.

Lemma take_line_app l rest : no_lf l = true -> take_line (l ++ LF :: rest) = Some (l, rest).
Proof.
  induction l as [|c l IH]; intros H; cbn [app take_line].
  - rewrite N.eqb_refl. reflexivity.
  - cbn [no_lf forallb] in H. apply Bool.andb_true_iff in H. destruct H as [H1 H2].
    apply Bool.negb_true_iff in H1. rewrite H1. rewrite (IH H2). reflexivity.
Qed.

Lemma wf_text_no_lf l : wf_text l = true -> no_lf l = true.
Proof. unfold wf_text. intros H. apply Bool.andb_true_iff in H. apply H. Qed.

Lemma echo_parts l : echo_line cf l = true ->
  no_lf l = true /\ beq l idle_word = false /\ beq l noidle_word = false /\
  beq l (removelast command_list_begin) = false.
Proof. intros E. destruct (echo_line_parts cf l E) as [A [B [C [D _]]]]. auto. Qed.

Lemma beq_snoc (l m : bytes) c : beq l m = false -> beq (l ++ [c]) (m ++ [c]) = false.
Proof.
  intros H. apply beq_neq. intros E. apply app_inj_tail in E. destruct E as [E _]. subst m.
  rewrite beq_refl in H. discriminate.
Qed.

Lemma s2c_snoc st buf inbox wire rs r :
  S2C st buf inbox wire rs -> S2C st buf inbox (wire ++ enc_s r) (rs ++ [r]).
Proof.
  intros [done [P E]]. exists done. split; [exact P|].
  rewrite flat_map_app. cbn [flat_map]. rewrite app_nil_r, <- E, <- !app_assoc. reflexivity.
Qed.

Lemma s2c_nil_out st buf inbox wire rs : S2C st buf inbox wire rs -> S2C st buf inbox (wire ++ []) rs.
Proof. rewrite app_nil_r. auto. Qed.

Lemma removelast_snoc (l : bytes) c : removelast (l ++ [c]) = l.
Proof. apply removelast_last. Qed.

(* while the abstract server idles, only (at most one) noidle is on its way to it *)
Lemma inv_idle_c2s s : Inv s -> a_idle s = true -> a_c2s s = [] \/ a_c2s s = [noidle_line].
Proof.
  intros [SH _] Hi. unfold shape in SH. destruct (a_pt s).
  - destruct SH as [(Hc & Hi' & _) | [(Hc & _) | (ns & Hc & Hi' & _)]]; try congruence. left; exact Hc.
  - destruct SH as (_ & _ & [(Hc & Hi' & _) | [(Hc & _) | [(ns & Hc & Hi' & _) | (ns & Hc & Hi' & _)]]]); try congruence. right; exact Hc.
  - destruct SH as (q & _ & _ & _ & Hi' & _). congruence.
  - destruct SH as (_ & Hi' & _). congruence.
  - contradiction.
Qed.

Lemma list_not_session_word ls : beq (list_bytes ls) idle_line = false /\ beq (list_bytes ls) noidle_line = false.
Proof.
  split; apply beq_neq; intros E; pose proof (is_list_bytes ls) as L; rewrite E in L; vm_compute in L; discriminate.
Qed.

(* the server reads one line: a stutter (inside a command list) or one abstract step *)
Ltac rfl := try match goal with |- @eq _ _ _ => reflexivity end.

Ltac fin_rel :=
  try (unfold LoopRefine.C2S; xsimp; match goal with H : s_list _ = _ |- _ => rewrite ?H end; reflexivity);
  try (match goal with HR : s_reported _ = _, HP : s_pending _ = _ |- _ => rewrite ?HR, ?HP end; reflexivity);
  try (apply forall_snoc; assumption);
  try (apply s2c_nil_out; assumption);
  try (symmetry; assumption);
  try (match goal with E : a_c2s _ = _ |- Forall _ (a_c2s _) => rewrite E; assumption end);
  try (constructor; fail).

Lemma serve_line x s : Rel x s -> Inv s -> x_c2s x <> [] ->
  exists l rest, take_line (x_c2s x) = Some (l, rest) /\
    (Rel (set_net x (fst (sline (x_cf x) (x_srv x) l)) rest (x_s2c x ++ snd (sline (x_cf x) (x_srv x) l))) s \/
     Rel (set_net x (fst (sline (x_cf x) (x_srv x) l)) rest (x_s2c x ++ snd (sline (x_cf x) (x_srv x) l))) (astep s LServe)).
Proof.
  intros HR HI NE. pose proof HR as HR'. destr_rel HR'.
  destruct begin_end_words as [EB [EE [NB [NEW BE]]]].
  unfold LoopRefine.C2S in Hc2s. destruct (s_list (x_srv x)) as [acc|] eqn:ESL.
  - (* inside a command list *)
    destruct Hc2s as [rest [todo [EA [EX [EI G]]]]].
    pose proof (list_good_parts cf _ G) as [_ [FL _]].
    destruct todo as [|l todo].
    + (* the closing line: the list is executed *)
      exists end_word, (concat rest). rewrite app_nil_r in *. cbn [flat_map app] in EX.
      split. { rewrite EX, EE, <- app_assoc. cbn [app]. apply take_line_app. exact NEW. }
      right. unfold sline. rewrite Hidle, EI, ESL, Hcf. fold end_word. rewrite beq_refl. cbn [fst snd].
      unfold LoopSpec.astep, LoopSpec.serve. rewrite EA, EI.
      destruct (list_not_session_word acc) as [N1 N2]. rewrite N1, N2.
      rewrite EA in Hwrites.
      constructor; xsimp; try assumption; rfl; fin_rel.
      * exact (Forall_inv_tail Hwrites).
      * apply forall_snoc; [assumption|]. cbn [LoopRefine.wf_s]. apply req_good_list. exact G.
      * pose proof (s2c_snoc _ _ _ _ _ (SReply (list_bytes acc)) Hs2c) as SN. cbn [LoopRefine.enc_s] in SN.
        rewrite is_list_bytes, (list_lines_bytes acc (list_good_no_lf cf acc G)) in SN. exact SN.
    + (* one more command of the list *)
      rewrite Forall_app in FL. destruct FL as [_ FT]. pose proof (Forall_inv FT) as LL.
      destruct (list_line_parts l LL) as [NL NEL].
      exists l, (flat_map (fun l0 => l0 ++ [LF]) todo ++ command_list_end ++ concat rest).
      split. { rewrite EX. cbn [flat_map]. rewrite <- !app_assoc. cbn [app]. apply take_line_app. exact NL. }
      left. unfold sline. rewrite Hidle, EI, ESL. fold end_word. rewrite NEL. cbn [fst snd].
      constructor; xsimp; try assumption; rfl; fin_rel.
      unfold LoopRefine.C2S. xsimp. exists rest, todo. rewrite <- app_assoc. cbn [app]. auto.
  - (* between requests *)
    destruct (a_c2s s) as [|u rest] eqn:EC; [rewrite Hc2s in NE; cbn in NE; congruence|].
    pose proof (Forall_inv Hwrites) as Hu. pose proof (Forall_inv_tail Hwrites) as Hrest.
    destruct (a_idle s) eqn:EI.
    + (* the server idles: by the invariant the write is noidle *)
      destruct (inv_idle_c2s s HI EI) as [E|E]; rewrite EC in E; [discriminate|]. injection E as -> ->.
      exists noidle_word, []. split; [rewrite Hc2s; reflexivity|].
      right. unfold sline. rewrite Hidle, ?EI, ?Hcf. rewrite beq_refl. unfold flush_changes. cbn [fst snd].
      unfold LoopSpec.astep, LoopSpec.serve. rewrite ?EC, ?EI, beq_refl. unfold flush. rewrite Hpending.
      constructor; xsimp; try assumption; rfl; fin_rel.
      apply (s2c_snoc _ _ _ _ _ (SIdle (a_pending s))). assumption.
    + destruct Hu as [->|[->|RG]].
      * (* idle *)
        exists idle_word, (concat rest). split; [rewrite Hc2s; reflexivity|].
        right. unfold sline. rewrite Hidle, ?EI, ESL, ?Hcf. rewrite beq_refl. rewrite Hpending.
        unfold LoopSpec.astep, LoopSpec.serve. rewrite ?EC, ?EI, beq_refl.
        destruct (a_pending s) as [|p ps] eqn:EPD.
        -- cbn [fst snd]. constructor; xsimp; try assumption; rfl; fin_rel.
        -- unfold flush_changes, flush. cbn [fst snd]. rewrite Hpending, ?EPD.
           constructor; xsimp; try assumption; rfl; fin_rel.
           apply (s2c_snoc _ _ _ _ _ (SIdle (p :: ps))). assumption.
      * (* noidle outside idle: ignored *)
        exists noidle_word, (concat rest). split; [rewrite Hc2s; reflexivity|].
        right. unfold sline. rewrite Hidle, ?EI, ESL. change (beq noidle_word idle_word) with false. rewrite beq_refl. cbn [fst snd].
        unfold LoopSpec.astep, LoopSpec.serve. rewrite ?EC, ?EI. rewrite (proj2 idle_noidle_distinct), beq_refl.
        constructor; xsimp; try assumption; rfl; fin_rel.
      * (* a request *)
        unfold req_ok in RG. destruct (req_good_cases cf u RG) as [[EL [ls [EU [ELL G]]]]|[EL [l [EU [ERL E0]]]]].
        -- (* the opening line of a command list *)
           exists begin_word, (flat_map (fun l0 => l0 ++ [LF]) ls ++ command_list_end ++ concat rest).
           split. { rewrite Hc2s. cbn [concat]. rewrite EU. unfold list_bytes. rewrite EB, <- !app_assoc. cbn [app]. apply take_line_app. exact NB. }
           left. unfold sline. rewrite Hidle, ?EI, ESL.
           change (beq begin_word idle_word) with false. change (beq begin_word noidle_word) with false.
           fold begin_word. rewrite beq_refl. cbn [fst snd].
           constructor; xsimp; try assumption; rfl; fin_rel.
           unfold LoopRefine.C2S. xsimp. exists rest, ls. cbn [app]. rewrite ?EC, <- EU. auto.
        -- (* a single line *)
           destruct (echo_parts l E0) as [NL [B1 [B2 B3]]].
           exists l, (concat rest). split. { rewrite Hc2s. cbn [concat]. rewrite EU, <- app_assoc. cbn [app]. apply take_line_app. exact NL. }
           right. unfold sline. rewrite Hidle, ?EI, ESL, ?Hcf. rewrite B1, B2. fold begin_word in B3. fold begin_word. rewrite B3.
           fold (srv_out cf l). cbn [fst snd].
           unfold LoopSpec.astep, LoopSpec.serve. rewrite ?EC, ?EI. rewrite EU.
           change idle_line with (idle_word ++ [LF]). change noidle_line with (noidle_word ++ [LF]).
           rewrite (beq_snoc _ _ LF B1), (beq_snoc _ _ LF B2).
           constructor; xsimp; try assumption; rfl; fin_rel.
           ++ apply forall_snoc; [assumption|]. cbn [LoopRefine.wf_s]. rewrite <- EU. exact RG.
           ++ pose proof (s2c_snoc _ _ _ _ _ (SReply (l ++ [LF])) Hs2c) as SN. cbn [LoopRefine.enc_s] in SN.
              rewrite <- EU, EL, ERL in SN. rewrite <- EU. exact SN.
Qed.

Lemma serve_keeps s : a_replies (LoopSpec.serve s) = a_replies s /\ a_delivered (LoopSpec.serve s) = a_delivered s /\
  a_pt (LoopSpec.serve s) = a_pt s /\ a_sent (LoopSpec.serve s) = a_sent s.
Proof.
  unfold LoopSpec.serve. destruct (a_c2s s); [auto|].
  destruct (a_idle s); [destruct (beq _ _); cbn; auto|].
  destruct (beq _ idle_line); [destruct (a_pending s); cbn; auto|].
  destruct (beq _ noidle_line); cbn; auto.
Qed.

Lemma ansreqs_same s s' : a_pt s' = a_pt s -> a_sent s' = a_sent s -> ansreqs s' = ansreqs s.
Proof. intros E1 E2. unfold ansreqs. rewrite E1, E2. reflexivity. Qed.

(* the requests a schedule issues *)
Definition issued_in (sch : list label) : list request :=
  flat_map (fun l => match l with LIssue q => [q] | _ => [] end) sch.

Lemma issued_in_app a c : issued_in (a ++ c) = issued_in a ++ issued_in c.
Proof. unfold issued_in. apply flat_map_app. Qed.

Lemma issued_in_client sch : Forall client_label sch -> issued_in sch = [].
Proof.
  induction 1 as [|l sch H _ IH]; [reflexivity|]. cbn. fold (issued_in sch). rewrite IH.
  destruct H as [H|[H|H]]; subst l; reflexivity.
Qed.

Definition label_post (s : asys) (x' : xsys) (og : option seg) (iq : list request) : Prop :=
  exists sch nr ne, Forall wf_label sch /\ issued_in sch = iq /\ Rel x' (fold_left astep sch s) /\ Inv (fold_left astep sch s) /\
    Inv2 (fold_left astep sch s) /\
    a_replies (fold_left astep sch s) = a_replies s ++ map R nr /\
    a_delivered (fold_left astep sch s) = a_delivered s ++ ne /\
    ansreqs (fold_left astep sch s) = ansreqs s ++ nr /\
    match og with Some g => gext seg0 g nr ne | None => nr = [] /\ ne = [] end.

Lemma label_post_refl s x : Rel x s -> Inv s -> Inv2 s -> label_post s x None [].
Proof.
  intros HR HI H2. exists [], [], []. cbn [fold_left map]. rewrite !app_nil_r.
  split; [constructor|]. split; [reflexivity|]. split; [exact HR|]. split; [exact HI|]. split; [exact H2|]. auto.
Qed.

Lemma label_post_step s l x' : wf_label l -> issued_in [l] = [] -> Rel x' (astep s l) -> Inv s -> Inv2 s ->
  a_replies (astep s l) = a_replies s -> a_delivered (astep s l) = a_delivered s -> ansreqs (astep s l) = ansreqs s ->
  label_post s x' None [].
Proof.
  intros WL IL HR HI H2 ER ED EA. exists [l], [], []. cbn [fold_left map]. rewrite !app_nil_r.
  split; [constructor; [exact WL|constructor]|]. split; [exact IL|]. split; [exact HR|].
  split; [apply inv_step; assumption|]. split; [apply inv2_step; assumption|]. auto.
Qed.

Lemma serve_sim : forall fuel all x s, Rel x s -> Inv s -> Inv2 s -> label_post s (DriverLoop.serve fuel all x) None [].
Proof.
  induction fuel as [|f IH]; intros all x s HR HI H2; cbn [DriverLoop.serve].
  - apply label_post_refl; assumption.
  - destruct (x_c2s x) as [|c0 cs0] eqn:EX.
    + cbn [take_line]. apply label_post_refl; assumption.
    + assert (NE : x_c2s x <> []) by (rewrite EX; discriminate).
      destruct (serve_line x s HR HI NE) as [l [rest [TL HR1]]]. rewrite EX in TL. rewrite TL.
      destruct (sline (x_cf x) (x_srv x) l) as [st out]. cbn [fst snd] in HR1.
      destruct HR1 as [HR1|HR1].
      * (* a stutter *)
        destruct all; [apply IH; assumption|apply label_post_refl; assumption].
      * assert (HI1 : Inv (astep s LServe)) by (apply inv_step; [exact I|exact HI]).
        assert (H21 : Inv2 (astep s LServe)) by (apply inv2_step; [exact I|exact HI|exact H2]).
        destruct (serve_keeps s) as [K1 [K2 [K3 K4]]]. change (LoopSpec.serve s) with (astep s LServe) in K1, K2, K3, K4.
        pose proof (ansreqs_same s (astep s LServe) K3 K4) as K5.
        destruct all; [|apply (label_post_step s LServe); auto; exact I].
        destruct (IH true _ _ HR1 HI1 H21) as [sch [nr [ne [WF [IQ [HR2 [HI2 [H22 [ER [ED [EA [N1 N2]]]]]]]]]]]]. subst nr ne.
        exists (LServe :: sch), [], []. cbn [fold_left map]. cbn [map] in ER. rewrite !app_nil_r in *.
        split; [constructor; [exact I|exact WF]|]. split; [exact IQ|]. split; [exact HR2|]. split; [exact HI2|]. split; [exact H22|].
        rewrite ER, ED, EA, K1, K2, K5. auto.
Qed.

Lemma notify_sim x s n : Rel x s -> Inv s -> Inv2 s -> wf_text n = true -> label_post s (fst (sem x (GNotify n))) None [].
Proof.
  intros HR HI H2 W. pose proof HR as HR'. destr_rel HR'.
  apply (label_post_step s (LNotify n)); try assumption; try exact I; try reflexivity.
  - unfold sem, snotify, LoopSpec.astep. rewrite Hidle. destruct (a_idle s) eqn:EI.
    + unfold flush_changes, flush. cbn [fst snd]. xsimp.
      constructor; xsimp; try assumption; rfl;
        try (match goal with |- Forall2 _ _ _ => unfold outstanding in *; xsimp; exact Hcallers end);
        try (match goal with |- LoopRefine.C2S _ _ _ =>
               unfold LoopRefine.C2S in *; xsimp; destruct (s_list (x_srv x));
               [destruct Hc2s as [r0 [t0 [A0 [B0 [C0 D0]]]]]; congruence|exact Hc2s] end);
        try (constructor; fail);
        try (rewrite Hreported, Hpending; reflexivity).
      * apply forall_snoc; [assumption|]. cbn [LoopRefine.wf_s]. apply forall_snoc; assumption.
      * rewrite Hpending. apply (s2c_snoc _ _ _ _ _ (SIdle (a_pending s ++ [n]))). assumption.
    + cbn [fst snd]. constructor; xsimp; try assumption; rfl; try (rewrite Hidle; exact EI);
        try (match goal with |- Forall2 _ _ _ => unfold outstanding in *; xsimp; exact Hcallers end);
        try (match goal with |- LoopRefine.C2S _ _ _ => eapply c2s_same; [exact Hc2s|reflexivity|reflexivity|reflexivity|xsimp; symmetry; exact EI] end);
        try (rewrite Hpending; reflexivity);
        try (apply forall_snoc; assumption);
        try (apply s2c_nil_out; assumption).
  - unfold LoopSpec.astep. destruct (a_idle s); reflexivity.
  - unfold LoopSpec.astep. destruct (a_idle s); reflexivity.
  - unfold LoopSpec.astep. destruct (a_idle s); reflexivity.
Qed.

Lemma fold_left_app_step sch pre s : fold_left astep sch (fold_left astep pre s) = fold_left astep (pre ++ sch) s.
Proof. rewrite fold_left_app. reflexivity. Qed.

Lemma run_op_after x1 s1 s pre : Rel x1 s1 -> Inv s1 -> Inv2 s1 -> s1 = fold_left astep pre s -> Forall wf_label pre ->
  a_replies s1 = a_replies s -> a_delivered s1 = a_delivered s -> ansreqs s1 = ansreqs s ->
  label_post s (fst (run_op x1 seg0)) (snd (run_op x1 seg0)) (issued_in pre).
Proof.
  intros HR HI H2 ES WP ER ED EA.
  assert (NB : (nu s1 < fuel_for x1)%nat) by (pose proof (nu_bound s1 HI); unfold fuel_for; lia).
  destruct (settle_sim (fuel_for x1) x1 seg0 s1 HR HI H2 NB) as [sch [nr [ne [CS [HR' [HI' [H2' [GE [ER' [ED' EA']]]]]]]]]].
  unfold run_op. destruct (settle (fuel_for x1) x1 seg0) as [x2 g2]. cbn [fst snd] in *.
  exists (pre ++ sch), nr, ne. rewrite <- fold_left_app_step, <- ES.
  split. { apply Forall_app. split; [exact WP|]. eapply Forall_impl; [|exact CS]. apply client_label_wf. }
  split. { rewrite issued_in_app, (issued_in_client sch CS). apply app_nil_r. }
  split; [exact HR'|]. split; [exact HI'|]. split; [exact H2'|]. rewrite ER', ED', EA', ER, ED, EA. auto.
Qed.

Lemma tick_sim x s ms : Rel x s -> Inv s -> Inv2 s ->
  label_post s (fst (sem x (GTick ms))) (snd (sem x (GTick ms))) [].
Proof.
  intros HR HI H2. cbn [sem]. apply (run_op_after _ s s []); [|exact HI|exact H2|reflexivity|constructor|reflexivity|reflexivity|reflexivity].
  destr_rel HR; constructor; xsimp; assumption.
Qed.

Lemma deliver_sim x s k : Rel x s -> Inv s -> Inv2 s ->
  label_post s (fst (sem x (GDeliver k))) (snd (sem x (GDeliver k))) [].
Proof.
  intros HR HI H2. cbn [sem]. rewrite (r_eof _ _ _ HR).
  set (n := if k =? 0 then length (x_s2c x) else N.to_nat k).
  destruct (firstn n (x_s2c x)) as [|c chunk] eqn:EF.
  - cbn [fst snd]. apply label_post_refl; assumption.
  - apply (run_op_after _ s s []); [|exact HI|exact H2|reflexivity|constructor|reflexivity|reflexivity|reflexivity].
    destr_rel HR; constructor; xsimp; try assumption.
    destruct Hs2c as [done [P E]]. exists done. split; [exact P|].
    rewrite <- E, <- EF, <- !app_assoc. rewrite firstn_skipn. reflexivity.
Qed.

(* a request of the fragment is never the idle or the noidle command *)
Lemma good_wf_req id u : req_good cf u = true -> wf_req (mkReq id u).
Proof.
  intros G. unfold wf_req. cbn [q_bytes].
  destruct (req_good_cases cf u G) as [[EL [ls [EU _]]]|[EL [l [EU [_ E0]]]]].
  - rewrite EU. destruct (list_not_session_word ls) as [N1 N2].
    split; intros H; rewrite H, beq_refl in *; discriminate.
  - destruct (echo_parts l E0) as [_ [B1 [B2 _]]]. rewrite EU.
    split; intros H; apply app_inj_tail in H; destruct H as [H _]; subst l; rewrite beq_refl in *; discriminate.
Qed.

(* issuing a request: appended to the queue on both sides, then the loop runs *)
Lemma issue_any x s id u k : Rel x s -> Inv s -> Inv2 s -> req_good cf u = true ->
  (k = true -> is_list u = false) ->
  label_post s (fst (run_op (set_qc x (x_queue x ++ [mkReq id u]) (x_callers x ++ [(id, KRaw k)])) seg0))
               (snd (run_op (set_qc x (x_queue x ++ [mkReq id u]) (x_callers x ++ [(id, KRaw k)])) seg0)) [mkReq id u].
Proof.
  intros HR HI H2 G HK. set (q := mkReq id u).
  assert (WQ : wf_req q) by (apply good_wf_req; exact G).
  apply (run_op_after _ (astep s (LIssue q)) s [LIssue q]);
    [|apply inv_step; [exact WQ|exact HI]|apply inv2_step; [exact WQ|exact HI|exact H2]
     |reflexivity|constructor; [exact WQ|constructor]|reflexivity|reflexivity|reflexivity].
  destr_rel HR. cbn [LoopSpec.astep]. constructor; xsimp; try assumption; rfl.
  - rewrite Hqueue. reflexivity.
  - unfold outstanding in *. xsimp. rewrite app_assoc. apply Forall2_app; [exact Hcallers|].
    constructor; [|constructor]. unfold crel. cbn [fst snd q_id q_bytes]. split; [reflexivity|].
    destruct k; [left; split; [reflexivity|apply HK; reflexivity]|right; reflexivity].
  - rewrite app_assoc. apply forall_snoc; [assumption|]. exact G.
Qed.

Lemma alive_ok x s : Rel x s -> Inv s ->
  negb (x_client x && x_handle x) = false /\ loop_alive x = true.
Proof.
  intros HR HI. unfold loop_alive.
  rewrite (r_client _ _ _ HR), (r_handle _ _ _ HR), (r_spawned _ _ _ HR), (r_pt _ _ _ HR). split; [reflexivity|].
  destruct HI as [SH _]. unfold shape in SH. destruct (a_pt s); try reflexivity. contradiction.
Qed.

Lemma issue_sim x s id l : Rel x s -> Inv s -> Inv2 s -> echo_line cf l = true ->
  label_post s (fst (sem x (GIssue id l))) (snd (sem x (GIssue id l))) [mkReq id (l ++ [LF])].
Proof.
  intros HR HI H2 E. cbn [sem]. unfold issue_line. destruct (alive_ok x s HR HI) as [A1 A2]. rewrite A1, A2.
  apply issue_any; try assumption.
  - apply req_good_single. exact E.
  - intros _. destruct (echo_line_parts cf l E) as [NL [_ [_ [NB _]]]]. apply is_list_single; assumption.
Qed.

Lemma good_lines ls : good cf (GIssueL 0 ls) = true -> ls <> [] -> req_good cf (render_list ls) = true.
Proof.
  intros G NE. destruct ls as [|l [|l2 ls]]; [congruence| |].
  - cbn [good] in G. cbn [render_list]. apply req_good_single. exact G.
  - cbn [good] in G. change (render_list (l :: l2 :: ls)) with (list_bytes (l :: l2 :: ls)). apply req_good_list. exact G.
Qed.

Lemma issue_list_sim x s id ls : Rel x s -> Inv s -> Inv2 s -> good cf (GIssueL id ls) = true -> ls <> [] ->
  label_post s (fst (sem x (GIssueL id ls))) (snd (sem x (GIssueL id ls))) [mkReq id (render_list ls)].
Proof.
  intros HR HI H2 G NE. cbn [sem]. unfold issue_lines. destruct (alive_ok x s HR HI) as [A1 A2]. rewrite A1, A2.
  apply issue_any; try assumption.
  - apply good_lines; [|exact NE]. destruct ls as [|l [|l2 ls']]; exact G.
  - discriminate.
Qed.

Definition issued_of (gl : glabel) : list request :=
  match gl with
  | GIssue id l => [mkReq id (l ++ [LF])]
  | GIssueL id ls => [mkReq id (render_list ls)]
  | _ => []
  end.

(* a list label comes from a non-empty list of lines (classify) *)
Definition nonempty_list (gl : glabel) : Prop := match gl with GIssueL _ [] => False | _ => True end.

Lemma sem_sim x s gl : Rel x s -> Inv s -> Inv2 s -> good cf gl = true -> nonempty_list gl ->
  label_post s (fst (sem x gl)) (snd (sem x gl)) (issued_of gl).
Proof.
  intros HR HI H2 G NEL. destruct gl as [id l|id ls|n|all|k|ms]; cbn [good] in G.
  - apply issue_sim; assumption.
  - apply issue_list_sim; try assumption. intros ->. exact NEL.
  - pose proof (notify_sim x s n HR HI H2 G) as NS.
    assert (EN : snd (sem x (GNotify n)) = None) by (unfold sem; destruct (snotify _ _); reflexivity).
    rewrite EN. exact NS.
  - cbn [sem fst snd]. apply serve_sim; assumption.
  - apply deliver_sim; assumption.
  - apply tick_sim; assumption.
Qed.

Lemma classify_nonempty lab gl : classify lab = Some gl -> nonempty_list gl.
Proof.
  unfold classify, label_parts. destruct (split_on 58 lab) as [|h [|a t]]; try discriminate;
    (destruct h as [|kind idtxt]; [discriminate|]);
    repeat match goal with |- (if ?c then _ else _) = _ -> _ => destruct c end;
    try (intros H; inversion H; exact I); try discriminate;
    match goal with |- context [all_some_l ?m] => destruct (all_some_l m) as [[|l0 ls0]|] end;
    try discriminate; intros H; inversion H; exact I.
Qed.

(* ---------- whole runs ---------- *)

Definition run_rel (s : asys) (gls : list glabel) (x' : xsys) (segs : list seg) : Prop :=
  exists sch nr ne, Forall wf_label sch /\ issued_in sch = flat_map issued_of gls /\
    Rel x' (fold_left astep sch s) /\ Inv (fold_left astep sch s) /\ Inv2 (fold_left astep sch s) /\
    a_replies (fold_left astep sch s) = a_replies s ++ map R nr /\
    a_delivered (fold_left astep sch s) = a_delivered s ++ ne /\
    ansreqs (fold_left astep sch s) = ansreqs s ++ nr /\
    flat_map g_res segs = map (res_text cf) nr /\ flat_map g_ev segs = map ev_text ne /\
    Forall (fun g => g_panic g = false) segs.

Lemma xrun_sim : forall labs gls x s,
  Forall2 (fun lab gl => classify lab = Some gl) labs gls -> Forall (fun gl => good cf gl = true) gls ->
  Rel x s -> Inv s -> Inv2 s -> run_rel s gls (fst (xrun x labs)) (snd (xrun x labs)).
Proof.
  induction labs as [|lab labs IH]; intros gls x s F2 FG HR HI H2.
  - inversion F2; subst gls. cbn [xrun fst snd]. exists [], [], []. cbn [fold_left flat_map map]. rewrite !app_nil_r.
    split; [constructor|]. split; [reflexivity|]. split; [exact HR|]. split; [exact HI|]. split; [exact H2|]. repeat split; auto.
  - inversion F2 as [|lab' gl labs' gls' CL F2' E1 E2]. subst gls. clear F2.
    pose proof (Forall_inv FG) as G. pose proof (Forall_inv_tail FG) as FG'. cbn beta in G.
    destruct (classify_sem x lab gl CL) as [EX [EG OP]].
    pose proof (sem_sim x s gl HR HI H2 G (classify_nonempty lab gl CL)) as LP. rewrite <- EX, <- EG in LP.
    cbn [xrun]. destruct (apply_label_g x lab) as [[op x1] og]. cbn [fst snd] in LP.
    destruct LP as [sch [nr [ne [WF [IQ [HR1 [HI1 [H21 [ER [ED [EA GE]]]]]]]]]]].
    destruct (IH gls' x1 _ F2' FG' HR1 HI1 H21) as [sch2 [nr2 [ne2 [WF2 [IQ2 [HR2 [HI2 [H22 [ER2 [ED2 [EA2 [RS2 [EV2 PN2]]]]]]]]]]]]].
    assert (IQA : issued_in (sch ++ sch2) = flat_map issued_of (gl :: gls')) by (rewrite issued_in_app, IQ, IQ2; reflexivity).
    rewrite fold_left_app_step in HR2, HI2, H22, ER2, ED2, EA2.
    destruct og as [g|].
    + destruct (xrun x1 labs) as [xf gs]. cbn [fst snd] in *.
      destruct GE as [GR [GV GP]]. cbn [seg0 g_res g_ev g_panic app] in GR, GV, GP.
      exists (sch ++ sch2), (nr ++ nr2), (ne ++ ne2).
      split; [apply Forall_app; split; assumption|]. split; [exact IQA|]. split; [exact HR2|]. split; [exact HI2|]. split; [exact H22|].
      rewrite ER2, ED2, EA2, ER, ED, EA, map_app, <- !app_assoc. split; [reflexivity|]. split; [reflexivity|]. split; [reflexivity|].
      cbn [flat_map]. rewrite !map_app, GR, GV, RS2, EV2.
      split; [reflexivity|]. split; [reflexivity|]. constructor; assumption.
    + destruct GE as [N1 N2]. subst nr ne. cbn [map] in ER. rewrite !app_nil_r in *.
      exists (sch ++ sch2), nr2, ne2.
      split; [apply Forall_app; split; assumption|]. split; [exact IQA|]. split; [exact HR2|]. split; [exact HI2|]. split; [exact H22|].
      rewrite ER2, ED2, EA2, ER, ED, EA. repeat split; auto.
Qed.

Lemma rel_init : Rel (xinit cf) a0.
Proof.
  assert (E : xinit cf = mkX HDone None true false PIdle true [] Initial [] false false false [] [] true 0 false cf
                             s0 idle_line [] false [] false []) by (vm_compute; reflexivity).
  rewrite E. constructor; cbn; try reflexivity; try (constructor; fail).
  - constructor; [left; reflexivity|constructor].
  - exists []. split; [intro z; reflexivity|reflexivity].
Qed.

(* the text run_labels prints is the rendering of the structured segments *)
Lemma show_seg_alive x s g : Rel x s -> Inv s -> show_seg x g = (seg_text g, x).
Proof.
  intros HR HI. unfold show_seg, seg_text.
  rewrite (r_spawned _ _ _ HR), (r_pt _ _ _ HR), (r_failed _ _ _ HR), (r_client _ _ _ HR), (r_handle _ _ _ HR).
  assert (NE : match a_pt s with PExited => true | _ => false end = false).
  { destruct HI as [SH _]. unfold shape in SH. destruct (a_pt s); try reflexivity. contradiction. }
  rewrite NE. cbn [andb orb negb app]. reflexivity.
Qed.

Lemma run_labels_cons x l r ops segs :
  run_labels x (l :: r) ops segs =
  match apply_label x l with
  | (Some op, x', Some txt) => run_labels x' r (ops ++ [op]) (segs ++ [txt])
  | (_, x', _) => run_labels x' r (ops ++ [[45]]) segs
  end.
Proof. reflexivity. Qed.

Lemma xrun_cons x l r :
  xrun x (l :: r) =
  match apply_label_g x l with
  | (_, x', Some g) => let '(xf, gs) := xrun x' r in (xf, g :: gs)
  | (_, x', None) => xrun x' r
  end.
Proof. reflexivity. Qed.

Lemma run_labels_sim : forall labs gls x s ops segs,
  Forall2 (fun lab gl => classify lab = Some gl) labs gls -> Forall (fun gl => good cf gl = true) gls ->
  Rel x s -> Inv s -> Inv2 s ->
  snd (run_labels x labs ops segs) = segs ++ map seg_text (snd (xrun x labs)).
Proof.
  induction labs as [|lab labs IH]; intros gls x s ops segs F2 FG HR HI H2.
  - cbn. rewrite app_nil_r. reflexivity.
  - inversion F2 as [|lab' gl labs' gls' CL F2' E1 E2]. subst gls. clear F2.
    pose proof (Forall_inv FG) as G. pose proof (Forall_inv_tail FG) as FG'. cbn beta in G.
    destruct (classify_sem x lab gl CL) as [EX [EG OP]].
    pose proof (sem_sim x s gl HR HI H2 G (classify_nonempty lab gl CL)) as LP. rewrite <- EX, <- EG in LP.
    rewrite run_labels_cons, xrun_cons. unfold apply_label. destruct (apply_label_g x lab) as [[op x1] og]. cbn [fst snd] in LP.
    destruct LP as [sch [nr [ne [WF [IQ [HR1 [HI1 [H21 _]]]]]]]].
    destruct og as [g|].
    + destruct op as [op|].
      * rewrite (show_seg_alive x1 _ g HR1 HI1).
        rewrite (IH gls' x1 _ (ops ++ [op]) (segs ++ [seg_text g]) F2' FG' HR1 HI1 H21).
        destruct (xrun x1 labs) as [xf gs]. cbn [snd map]. rewrite <- app_assoc. reflexivity.
      * cbn [fst snd] in OP. contradiction.
    + destruct op; apply (IH gls' x1 _ _ _ F2' FG' HR1 HI1 H21).
Qed.

Theorem exec_refines labs gls :
  Forall2 (fun lab gl => classify lab = Some gl) labs gls -> Forall (fun gl => good cf gl = true) gls ->
  run_rel a0 gls (fst (xrun (xinit cf) labs)) (snd (xrun (xinit cf) labs)).
Proof. intros F2 FG. apply (xrun_sim labs gls); [exact F2|exact FG|exact rel_init|apply inv0|apply inv2_0]. Qed.

End Sim.

(* ---------- what the abstract theorems say about the executable system ---------- *)

Lemma apply_outs_issued outs : forall s, a_issued (apply_outs s outs) = a_issued s.
Proof.
  induction outs as [|o outs IH]; intros s; cbn [apply_outs]; [reflexivity|].
  rewrite IH. destruct o as [bs|id r|id|n|k|]; try reflexivity. destruct r; reflexivity.
Qed.

Lemma client_issued s i : a_issued (client s i) = a_issued s.
Proof. unfold client. destruct (cstep false (a_pt s) i) as [p outs]. rewrite apply_outs_issued. reflexivity. Qed.

Lemma astep_issued rf s l : a_issued (LoopSpec.astep rf s l) = a_issued s ++ issued_in [l].
Proof.
  destruct l as [q| | | | |n]; cbn [issued_in flat_map app]; rewrite ?app_nil_r.
  - reflexivity.
  - cbn [LoopSpec.astep]. destruct (a_queue s); [reflexivity|]. destruct (wants_cmd _); [|reflexivity].
    rewrite client_issued. reflexivity.
  - cbn [LoopSpec.astep]. destruct (a_s2c s); [reflexivity|]. destruct (wants_recv _); [|reflexivity].
    rewrite client_issued. reflexivity.
  - cbn [LoopSpec.astep]. destruct (a_pt s); try reflexivity. rewrite client_issued. reflexivity.
  - cbn [LoopSpec.astep]. unfold LoopSpec.serve. destruct (a_c2s s); [reflexivity|].
    destruct (a_idle s); [destruct (beq _ _); reflexivity|].
    destruct (beq _ idle_line); [destruct (a_pending s); reflexivity|]. destruct (beq _ noidle_line); reflexivity.
  - cbn [LoopSpec.astep]. destruct (a_idle s); reflexivity.
Qed.

Lemma issued_fold rf sch : forall s, a_issued (fold_left (LoopSpec.astep rf) sch s) = a_issued s ++ issued_in sch.
Proof.
  induction sch as [|l sch IH]; intros s; cbn [fold_left].
  - cbn. rewrite app_nil_r. reflexivity.
  - rewrite IH, astep_issued, <- app_assoc. change (l :: sch) with ([l] ++ sch). rewrite issued_in_app. reflexivity.
Qed.

Lemma prefix_firstn {A} (p r : list A) : p = firstn (length p) (p ++ r).
Proof. rewrite firstn_app, Nat.sub_diag, firstn_all. cbn. rewrite app_nil_r. reflexivity. Qed.

(* what a caller sees: the server's reply to its own request, handed over as raw_command (single line) or raw_command_list
   (a list: all frames, then the error if any) does *)
Definition echo_result (cf : sconf) (q : request) : N * bytes := res_text cf q.

Lemma exists_last_or_nil {A} (l : list A) : l = [] \/ exists l0 x, l = l0 ++ [x].
Proof. destruct l as [|a l]; [left; reflexivity|right]. destruct (exists_last (l := a :: l)) as [l0 [x E]]; [discriminate|eauto]. Qed.

Lemma ansreqs_prefix rf s : LoopSpec.Inv rf s -> exists rest, a_issued s = ansreqs s ++ rest.
Proof.
  intros (_ & _ & _ & _ & _ & FF & _). unfold ansreqs. destruct (a_pt s) eqn:EP;
    try (exists (held (a_pt s) ++ a_queue s); rewrite EP in *; symmetry; exact FF).
  destruct (exists_last_or_nil (a_sent s)) as [ES|[l0 [q0 ES]]]; rewrite ES in *.
  - exists (held (PWait id) ++ a_queue s). cbn [removelast]. symmetry. exact FF.
  - exists ([q0] ++ held (PWait id) ++ a_queue s). rewrite removelast_last, <- FF, <- app_assoc. reflexivity.
Qed.

Theorem exec_session cf labs gls :
  Forall2 (fun lab gl => classify lab = Some gl) labs gls -> Forall (fun gl => good cf gl = true) gls ->
  let xf := fst (xrun (xinit cf) labs) in
  let segs := snd (xrun (xinit cf) labs) in
  (* C05: the simulated server never saw anything but noidle while idling *)
  s_violated (x_srv xf) = false /\
  (* C01: the results handed to the callers, in the order they were handed out, are the replies to a prefix of the requests
     in issue order: each caller got the reply to its own request (all frames and the error for a list) *)
  (exists k, flat_map g_res segs = map (echo_result cf) (firstn k (flat_map issued_of gls))) /\
  (* C04: the events handed to the application are, in order, a prefix of the names the server wrote *)
  (exists ne rest, flat_map g_ev segs = map ev_text ne /\ ne ++ rest = s_reported (x_srv xf)) /\
  (* no step panics and the fuel of settle is never exhausted *)
  Forall (fun g => g_panic g = false) segs.
Proof.
  intros F2 FG xf segs.
  destruct (exec_refines cf labs gls F2 FG) as [sch [nr [ne [WF [IQ [HR [HI [H2 [ER [ED [EA [RS [EV PN]]]]]]]]]]]]].
  fold xf in HR. fold segs in RS, EV, PN. set (sf := fold_left (LoopSpec.astep (echo_reply cf)) sch a0) in *.
  cbn [a0 a_replies a_delivered app] in ER, ED. change (ansreqs a0) with (@nil request) in EA. cbn [app] in EA.
  pose proof HI as HI'. destruct HI' as (SH & VI & _ & _ & EO & FF & _).
  assert (ISS : a_issued sf = flat_map issued_of gls).
  { unfold sf. rewrite issued_fold. cbn [a0 a_issued app]. exact IQ. }
  split; [rewrite (r_violated _ _ _ HR); exact VI|]. split; [|split; [|exact PN]].
  - destruct (ansreqs_prefix _ sf HI) as [rest E]. exists (length nr).
    rewrite <- ISS, E, EA, <- prefix_firstn. exact RS.
  - exists ne, (flat_map names_of (a_s2c sf)). split; [exact EV|].
    rewrite (r_reported _ _ _ HR), <- EO, ED. reflexivity.
Qed.

(* ---------- the printed trace ---------- *)

(* the segment the replayer shows when the greeting arrives *)
Definition greet_op : bytes := b "d:" ++ hex greeting_bytes.
Definition greet_text : bytes := b "[w:" ++ hex idle_line ++ b ";conn=ok:" ++ hex (b "0.23.5") ++ b "]".

Lemma start_d0 cf : apply_label (xstart cf) (b "D0") = (Some greet_op, xinit cf, Some greet_text).
Proof. vm_compute. reflexivity. Qed.

(* [run_loopm] prints [words (snd (run_labels ...))]: the segments the real client's trace is compared with are
   the renderings of the structured segments the theorems speak about *)
Theorem loopm_segments cf labs gls t0 :
  Forall2 (fun lab gl => classify lab = Some gl) labs gls -> Forall (fun gl => good cf gl = true) gls ->
  snd (run_labels (xstart cf) (b "D0" :: labs) [] [t0]) =
  [t0; greet_text] ++ map seg_text (snd (xrun (xinit cf) labs)).
Proof.
  intros F2 FG. rewrite run_labels_cons, start_d0.
  rewrite (run_labels_sim cf labs gls (xinit cf) a0 _ _ F2 FG (rel_init cf) (inv0 (echo_reply cf)) (inv2_0 (echo_reply cf))). reflexivity.
Qed.

(* ---------- non-vacuity: a concrete session of the fragment ---------- *)

Definition ex_cf : sconf := mkSConf None None None false 8192 [] false None.

Definition ex_labs : list bytes :=
  [b "N:706c61796572"; b "c1:status"; b "S*"; b "D3"; b "D0"; b "c2:stats"; b "t40"; b "S"; b "S"; b "D0";
   b "N:6d69786572"; b "t100"; b "S*"; b "D0"; b "c3:currentsong"; b "S*"; b "D0"; b "t100"; b "S*"; b "D0"].

Definition ex_gls : list glabel :=
  [GNotify (b "player"); GIssue 1 (b "status"); GServe true; GDeliver 3; GDeliver 0; GIssue 2 (b "stats"); GTick 40;
   GServe false; GServe false; GDeliver 0; GNotify (b "mixer"); GTick 100; GServe true; GDeliver 0;
   GIssue 3 (b "currentsong"); GServe true; GDeliver 0; GTick 100; GServe true; GDeliver 0].

Lemma forall2_map {A B} (f : A -> option B) l m : map f l = map Some m -> Forall2 (fun a c => f a = Some c) l m.
Proof.
  revert m. induction l as [|a l IH]; intros [|c m] H; try discriminate; constructor.
  - cbn in H. inversion H. reflexivity.
  - apply IH. cbn in H. inversion H. reflexivity.
Qed.

Example ex_in_fragment :
  Forall2 (fun lab gl => classify lab = Some gl) ex_labs ex_gls /\ Forall (fun gl => good ex_cf gl = true) ex_gls.
Proof.
  split; [apply forall2_map; vm_compute; reflexivity|].
  apply Forall_forall. apply forallb_forall. vm_compute. reflexivity.
Qed.

(* ... in which all three requests are answered and both changes are delivered *)
Example ex_outcome :
  flat_map g_res (snd (xrun (xinit ex_cf) ex_labs)) =
    map (echo_result ex_cf) [mkReq 1 (b "status" ++ [LF]); mkReq 2 (b "stats" ++ [LF]); mkReq 3 (b "currentsong" ++ [LF])] /\
  flat_map g_ev (snd (xrun (xinit ex_cf) ex_labs)) = map ev_text [b "player"; b "mixer"].
Proof. split; vm_compute; reflexivity. Qed.

(* ---------- the parts of exec_session, one by one ---------- *)

Definition in_fragment (cf : sconf) (labs : list bytes) (gls : list glabel) : Prop :=
  Forall2 (fun lab gl => classify lab = Some gl) labs gls /\ Forall (fun gl => good cf gl = true) gls.

Lemma exec_never_violated cf labs gls : in_fragment cf labs gls ->
  s_violated (x_srv (fst (xrun (xinit cf) labs))) = false.
Proof. intros [F G]. exact (proj1 (exec_session cf labs gls F G)). Qed.

Lemma exec_own_replies cf labs gls : in_fragment cf labs gls ->
  exists k, flat_map g_res (snd (xrun (xinit cf) labs)) = map (echo_result cf) (firstn k (flat_map issued_of gls)).
Proof. intros [F G]. exact (proj1 (proj2 (exec_session cf labs gls F G))). Qed.

Lemma exec_events cf labs gls : in_fragment cf labs gls ->
  exists ne rest, flat_map g_ev (snd (xrun (xinit cf) labs)) = map ev_text ne /\
                  ne ++ rest = s_reported (x_srv (fst (xrun (xinit cf) labs))).
Proof. intros [F G]. exact (proj1 (proj2 (proj2 (exec_session cf labs gls F G)))). Qed.

Lemma exec_no_panic cf labs gls : in_fragment cf labs gls ->
  Forall (fun g => g_panic g = false) (snd (xrun (xinit cf) labs)).
Proof. intros [F G]. exact (proj2 (proj2 (proj2 (exec_session cf labs gls F G)))). Qed.

Lemma exec_refines_abstract cf labs gls : in_fragment cf labs gls ->
  run_rel cf a0 gls (fst (xrun (xinit cf) labs)) (snd (xrun (xinit cf) labs)).
Proof. intros [F G]. exact (exec_refines cf labs gls F G). Qed.

Lemma exec_trace_text cf labs gls t0 : in_fragment cf labs gls ->
  snd (run_labels (xstart cf) (b "D0" :: labs) [] [t0]) =
  [t0; greet_text] ++ map seg_text (snd (xrun (xinit cf) labs)).
Proof. intros [F G]. exact (loopm_segments cf labs gls t0 F G). Qed.

Lemma ex_fragment : in_fragment ex_cf ex_labs ex_gls.
Proof. exact ex_in_fragment. Qed.

(* the fragment is not only echoes: failing commands (ACK replies), binary replies, empty replies *)
Example ex_other_requests :
  forallb (fun l => good ex_cf (GIssue 1 l))
          [b "fail 5 x"; b "fail 50"; b "bin 0"; b "bin 3"; b "bin 300"; b "stop"; b "update ""a b"""; b "rescan";
           b "readpicture ""x"" 0"; b "albumart ""x"" 0"; b "status"; b "command_list_end"] = true /\
  (* ... but not the words of the session, and not a line the server's tokenizer rejects differently from one response *)
  forallb (fun l => negb (good ex_cf (GIssue 1 l))) [b "idle"; b "noidle"; b "command_list_ok_begin"; b "a" ++ [LF] ++ b "b"] = true.
Proof. split; vm_compute; reflexivity. Qed.

(* C05 for the executable system, on the wire: what the client has written and the server has not read yet is the rest of a
   sequence of whole requests (the server may be half-way through a command list) among which at most one is a request
   (the others are idle / noidle), and while the simulated server waits in idle nothing but (at most one) noidle is on its way *)
Lemma exec_wire cf labs gls : in_fragment cf labs gls ->
  let xf := fst (xrun (xinit cf) labs) in
  exists ws pre, concat ws = pre ++ x_c2s xf /\ Forall (write_ok cf) ws /\
    (s_list (x_srv xf) = None -> pre = []) /\
    (length (filter is_req ws) <= 1)%nat /\
    (s_idle (x_srv xf) = true -> ws = [] \/ ws = [noidle_line]).
Proof.
  intros [F G] xf.
  destruct (exec_refines cf labs gls F G) as [sch [nr [ne [WF [IQ [HR [HI _]]]]]]]. fold xf in HR.
  set (sf := fold_left (LoopSpec.astep (echo_reply cf)) sch a0) in *.
  pose proof (r_c2s _ _ _ HR) as C. unfold C2S in C.
  assert (PRE : exists pre, concat (a_c2s sf) = pre ++ x_c2s xf /\ (s_list (x_srv xf) = None -> pre = [])).
  { destruct (s_list (x_srv xf)) as [acc|].
    - destruct C as [rest [todo [A [B _]]]]. exists (command_list_begin ++ flat_map (fun l => l ++ [LF]) acc).
      split; [|discriminate]. rewrite A, B. cbn [concat]. unfold list_bytes. rewrite flat_map_app, <- !app_assoc. reflexivity.
    - exists []. split; [rewrite C; reflexivity|reflexivity]. }
  destruct PRE as [pre [P1 P2]].
  exists (a_c2s sf), pre. split; [exact P1|]. split; [exact (r_writes _ _ _ HR)|]. split; [exact P2|].
  pose proof (one_outstanding (echo_reply cf) sch WF) as OO.
  change (arun (echo_reply cf) sch) with sf in OO.
  split; [lia|].
  intros SI. rewrite (r_idle _ _ _ HR) in SI.
  exact (idle_only_noidle (echo_reply cf) sch WF SI).
Qed.

(* command lists are in the fragment too: all succeed, or one fails cleanly part-way (its frames before the error reach the caller);
   not in it: a list closed early by one of its own lines, a command that fails after partial output *)
Example ex_lists :
  map (fun ls => good ex_cf (GIssueL 1 ls))
      [[b "status"; b "stats"]; [b "status"; b "fail 5 x"; b "stats"]; [b "bin 3"; b "status"]; [b "status"];
       [b "status"; b "command_list_end"]; [b "pfail 5 x"; b "a"]]
  = [true; true; true; true; false; false] /\
  classify (b "i4:status,stats") = Some (GIssueL 4 [b "status"; b "stats"]).
Proof. split; vm_compute; reflexivity. Qed.

(* a list read by the server line by line, with another request issued in between; the caller of the list gets both frames *)
Example ex_list_session :
  let labs := [b "i1:status,stats"; b "S*"; b "D0"; b "S"; b "S"; b "c2:ping"; b "S"; b "S"; b "D9"; b "D0"; b "S*"; b "D0"] in
  in_fragment ex_cf labs [GIssueL 1 [b "status"; b "stats"]; GServe true; GDeliver 0; GServe false; GServe false; GIssue 2 (b "ping");
                          GServe false; GServe false; GDeliver 9; GDeliver 0; GServe true; GDeliver 0] /\
  flat_map g_res (snd (xrun (xinit ex_cf) labs)) =
    [res_text ex_cf (mkReq 1 (list_bytes [b "status"; b "stats"])); res_text ex_cf (mkReq 2 (b "ping" ++ [LF]))].
Proof.
  cbv zeta. split; [split; [apply forall2_map; vm_compute; reflexivity|apply Forall_forall; apply forallb_forall; vm_compute; reflexivity]|].
  vm_compute. reflexivity.
Qed.
