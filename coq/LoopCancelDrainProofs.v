(* LoopCancelDrainProofs.v — the drain theorems (LoopDrainProofs.v) for sessions in which callers give up:
   cancellation commutes with the end of the stream and with failing reads (LoopCancelProofs.v), so after the fault
   nobody is left waiting either, and the callers resolved are all issued ones but (some of) the cancelled. *)
From Coq Require Import Lia.
From MPD Require Import Bytes Tables Show ParserModel BuilderModel Grammar ConnModel CommandModel MpdTokenizer
  LoopModel ServerModel CallerModel DriverConn DriverLoop LoopSpec LoopSpecProofs LoopRefine LoopRefineProofs
  LoopDrainProofs LoopCancel LoopCancelProofs.
Open Scope N_scope.

Lemma xrun_app x a : forall c,
  xrun x (a ++ c) = let '(x1, g1) := xrun x a in let '(x2, g2) := xrun x1 c in (x2, g1 ++ g2).
Proof.
  revert x. induction a as [|l r IH]; intros x c.
  - cbn [app xrun]. destruct (xrun x c); reflexivity.
  - cbn [app]. rewrite !xrun_cons. destruct (apply_label_g x l) as [[o x'] [g|]]; rewrite IH;
      destruct (xrun x' r) as [x1 g1]; destruct (xrun x1 c) as [x2 g2]; reflexivity.
Qed.

Lemma xrun_one x l : xrun x [l] = match apply_label_g x l with (_, x', Some g) => (x', [g]) | (_, x', None) => (x', []) end.
Proof. rewrite xrun_cons. destruct (apply_label_g x l) as [[o x'] [g|]]; reflexivity. Qed.

Lemma cancel_ok_app seen a : forall c, cancel_ok seen (a ++ c) = true <->
  cancel_ok seen a = true /\ cancel_ok (fold_left seen_after a seen) c = true.
Proof.
  revert seen. induction a as [|l r IH]; intros seen c; cbn [app cancel_ok fold_left]; [tauto|].
  destruct (is_excluded l); cbn [negb andb]; [split; [discriminate|intros [K _]; discriminate]|].
  assert (ES : seen_after seen l = if is_issue l then id_of l :: seen else seen) by reflexivity. rewrite ES.
  destruct (is_issue l).
  - destruct (memN (id_of l) seen); cbn [negb andb]; [split; [discriminate|intros [K _]; discriminate]|]. apply IH.
  - apply IH.
Qed.

Lemma cancels_app a c : cancels (a ++ c) = cancels a ++ cancels c.
Proof. unfold cancels. rewrite filter_app, map_app. reflexivity. Qed.

Definition quiet_callers (x : xsys) : Prop := quiet x /\ x_callers x = [].

(* what remains of [all_resolved] when callers have given up: nobody waits, and the results handed out — before and by the fault —
   are those of ALL issued requests in issue order with only results of cancelled callers missing *)
Definition all_resolved_but (call : list N) (gls : list glabel) (segs : list seg) (x' : xsys) : Prop :=
  quiet x' /\ x_callers x' = [] /\
  (exists full, dropped call (flat_map g_res segs) full /\ map fst full = map q_id (flat_map issued_of gls)) /\
  Forall (fun g => g_panic g = false) segs.

Lemma fault_after_cancel cf ls gls fl :
  is_cancel fl = false -> is_excluded fl = false -> is_issue fl = false ->
  cancel_ok [] ls = true -> in_fragment cf (map erase_label ls) gls ->
  (let xf := fst (xrun (xinit cf) (map erase_label ls)) in
   let segs := snd (xrun (xinit cf) (map erase_label ls)) in
   exists g', snd (apply_label_g xf fl) = Some g' /\ all_resolved gls segs (snd (fst (apply_label_g xf fl))) g') ->
  all_resolved_but (cancels ls) gls (snd (xrun (xinit cf) (ls ++ [fl]))) (fst (xrun (xinit cf) (ls ++ [fl]))).
Proof.
  intros NC NX NI OK IF DR.
  assert (OK2 : cancel_ok [] (ls ++ [fl]) = true).
  { apply cancel_ok_app. split; [exact OK|]. cbn [cancel_ok]. rewrite NX, NI. reflexivity. }
  destruct (exec_cancel cf (ls ++ [fl]) OK2) as [FH (c & Ic & EX)].
  assert (EC : cancels (ls ++ [fl]) = cancels ls).
  { rewrite cancels_app. unfold cancels at 2. cbn [filter]. rewrite NC. cbn [map]. apply app_nil_r. }
  rewrite EC in *. rewrite map_app in FH, EX. cbn [map] in FH, EX. unfold erase_label at 2 in FH. unfold erase_label at 2 in EX. rewrite NC in FH, EX.
  rewrite (xrun_app (xinit cf) (map erase_label ls) [fl]) in FH, EX.
  destruct (exec_session cf (map erase_label ls) gls (proj1 IF) (proj2 IF)) as (_ & _ & _ & PN).
  destruct (xrun (xinit cf) (map erase_label ls)) as [xf segs]. cbn [fst snd] in DR, PN.
  rewrite xrun_one in FH, EX.
  destruct DR as (g' & EG & (Q & CE & IDS & PG)).
  destruct (apply_label_g xf fl) as [[o x'] og]. cbn [fst snd] in *. subst og. cbn [fst snd] in FH, EX.
  destruct (hidden_results _ _ _ FH) as (D & _ & _ & _ & P).
  unfold all_resolved_but. rewrite EX. split; [|split; [|split]].
  - exact Q.
  - change (x_callers (hide c x')) with (filter (live c) (x_callers x')). rewrite CE. reflexivity.
  - exists (flat_map g_res (segs ++ [g'])). split; [exact D|].
    rewrite flat_map_app. cbn [flat_map]. rewrite app_nil_r. exact IDS.
  - assert (PA : Forall (fun g => g_panic g = false) (segs ++ [g'])) by (apply Forall_app; split; [exact PN|constructor; [exact PG|constructor]]).
    rewrite Forall_forall in *. intros g Hg. apply (in_map g_panic) in Hg. rewrite P in Hg. apply in_map_iff in Hg.
    destruct Hg as (g0 & Eg & Hg0). rewrite <- Eg. exact (PA g0 Hg0).
Qed.

(* the end of the stream / failing reads after a session in which callers gave up *)
Theorem exec_cancel_eof_resolves cf ls gls : cancel_ok [] ls = true -> in_fragment cf (map erase_label ls) gls ->
  all_resolved_but (cancels ls) gls (snd (xrun (xinit cf) (ls ++ [b "e"]))) (fst (xrun (xinit cf) (ls ++ [b "e"]))).
Proof.
  intros OK IF. apply (fault_after_cancel cf ls gls (b "e")); try reflexivity; try assumption.
  exact (exec_eof_resolves cf (map erase_label ls) gls IF).
Qed.

Theorem exec_cancel_rerr_resolves cf ls gls : cancel_ok [] ls = true -> in_fragment cf (map erase_label ls) gls ->
  all_resolved_but (cancels ls) gls (snd (xrun (xinit cf) (ls ++ [b "r"]))) (fst (xrun (xinit cf) (ls ++ [b "r"]))).
Proof.
  intros OK IF. apply (fault_after_cancel cf ls gls (b "r")); try reflexivity; try assumption.
  exact (exec_rerr_resolves cf (map erase_label ls) gls IF).
Qed.

(* non-vacuity: the session of LoopCancelProofs.ex_cancel_labs cut short — request 1 cancelled in flight, request 2 queued, then the
   stream ends: request 2 is told, request 1's caller has gone, nobody waits *)
Definition ex_cancel_eof_labs : list bytes :=
  [b "N:706c61796572"; b "c1:status"; b "c2:stats"; b "S*"; b "D3"; b "x1"; b "D0"].

Example ex_cancel_eof :
  cancel_ok [] ex_cancel_eof_labs = true /\
  in_fragment ex_cf (map erase_label ex_cancel_eof_labs)
    [GNotify (b "player"); GIssue 1 (b "status"); GIssue 2 (b "stats"); GServe true; GDeliver 3; GTick 0; GDeliver 0] /\
  map fst (flat_map g_res (snd (xrun (xinit ex_cf) (ex_cancel_eof_labs ++ [b "e"])))) = [2] /\
  map fst (flat_map g_res (snd (xrun (xinit ex_cf) (map erase_label ex_cancel_eof_labs ++ [b "e"])))) = [1; 2].
Proof.
  split; [vm_compute; reflexivity|]. split.
  - split; [apply forall2_map; vm_compute; reflexivity|]. apply Forall_forall. apply forallb_forall. vm_compute. reflexivity.
  - split; vm_compute; reflexivity.
Qed.
