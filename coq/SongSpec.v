(* SongSpec.v — SPEC side of C14, written from the MPD protocol reference, independent of the code:
   what a song listing IS (abstract entries), how MPD writes it on the wire ([enc_listing]), and
   which songs it lists ([expected_q], [listed_songs]).  Uses only std models (SongStd.v), the
   canonical tag naming of C20 (TagModel.v: [lookup_row] over the tag table) and Bytes. *)
From MPD Require Import Bytes Tables TagModel SongStd.
Open Scope N_scope.

(* ---------- abstract listings ---------- *)
Inductive attr :=
  | ADuration (txt : bytes)                     (* duration: 215.336 *)
  | ATime (txt : bytes)                         (* Time: 215          (legacy, protocol < 0.20) *)
  | ARange (from : bytes) (to : option bytes)   (* Range: 1.500-3.250 | Range: 10- *)
  | AFormat (txt : bytes)
  | ALastModified (txt : bytes)
  | APrio (n : N)
  | APos (n : N)
  | AId (n : N)
  | ATag (name value : bytes).

Inductive entry :=
  | SongE (url : bytes) (attrs : list attr)
  | DirE (name : bytes) (lm : option bytes)        (* directory: … [Last-Modified: …] *)
  | PlaylistE (name : bytes) (lm : option bytes).  (* playlist: …  [Last-Modified: …] *)

Definition listing := list entry.

(* ---------- wire encoding: one (key, value) pair per line, in server order ---------- *)
Definition enc_attr (a : attr) : bytes * bytes :=
  match a with
  | ADuration t => (b "duration", t)
  | ATime t => (b "Time", t)
  | ARange f t => (b "Range", f ++ [45] ++ match t with Some x => x | None => [] end)
  | AFormat t => (b "Format", t)
  | ALastModified t => (b "Last-Modified", t)
  | APrio n => (b "Prio", render_dec n)
  | APos n => (b "Pos", render_dec n)
  | AId n => (b "Id", render_dec n)
  | ATag n v => (n, v)
  end.

Definition enc_lm (o : option bytes) : list (bytes * bytes) :=
  match o with Some t => [(b "Last-Modified", t)] | None => [] end.

Definition enc_entry (e : entry) : list (bytes * bytes) :=
  match e with
  | SongE u a => (b "file", u) :: map enc_attr a
  | DirE n lm => (b "directory", n) :: enc_lm lm
  | PlaylistE n lm => (b "playlist", n) :: enc_lm lm
  end.

Definition enc_listing (l : listing) : list (bytes * bytes) := flat_map enc_entry l.

(* ---------- the reference: the song an entry lists ---------- *)
Definition pick {A} (f : attr -> option A) (l : list attr) : list A :=
  flat_map (fun a => match f a with Some x => [x] | None => [] end) l.
Definition last_opt {A} (l : list A) : option A := hd_error (rev l).
Definition last_or {A} (d : A) (l : list A) : A := match last_opt l with Some x => x | None => d end.

Definition get_dur a := match a with ADuration t => Some t | _ => None end.
Definition get_time a := match a with ATime t => Some t | _ => None end.
Definition get_range a := match a with ARange f t => Some (f, t) | _ => None end.
Definition get_format a := match a with AFormat t => Some t | _ => None end.
Definition get_lm a := match a with ALastModified t => Some t | _ => None end.
Definition get_prio a := match a with APrio n => Some n | _ => None end.
Definition get_pos a := match a with APos n => Some n | _ => None end.
Definition get_id a := match a with AId n => Some n | _ => None end.

(* std's reading of a well-formed text *)
Definition to_dur (t : bytes) : dur := match std_duration t with DurOk d => d | DurErr => DOpaque end.
Definition to_ts (chrono : bool) (t : bytes) : ts :=
  match std_timestamp chrono t with Some x => x | None => mkTs t false end.

(* `duration` is preferred over the legacy `Time` wherever either stands; the last `duration` counts.
   REPETITION OF `Time` (never sent by MPD): the code keeps the FIRST `Time` when there is no
   `duration` (a later `Time` is not even parsed) — unlike every other scalar attribute, where the
   last occurrence wins.  The reference follows the code here; see the report. *)
Definition exp_duration (attrs : list attr) : option dur :=
  match last_opt (pick get_dur attrs) with
  | Some t => Some (to_dur t)
  | None => option_map to_dur (hd_error (pick get_time attrs))
  end.

(* tags: keyed by the canonical tag (a known name in any letter case is that tag, anything else is
   itself), the values of each key in line order; keys in order of first appearance (the printed
   form sorts by name: a HashMap has no order) *)
Definition canon_tag (n : bytes) : tag :=
  match lookup_row tag_parse_table n with Some v => Named v | None => Other n end.
Definition tag_lines (attrs : list attr) : list (tag * bytes) :=
  pick (fun a => match a with ATag n v => Some (canon_tag n, v) | _ => None end) attrs.
Fixpoint first_keys (l : list tag) : list tag :=
  match l with
  | [] => []
  | t :: r => t :: filter (fun u => negb (tag_eq u t)) (first_keys r)
  end.
Definition values_of (t : tag) (ls : list (tag * bytes)) : list bytes :=
  map snd (filter (fun p => tag_eq (fst p) t) ls).
Definition group_tags (ls : list (tag * bytes)) : tagmap :=
  map (fun t => (t, values_of t ls)) (first_keys (map fst ls)).
Definition exp_tags (attrs : list attr) : tagmap := group_tags (tag_lines attrs).

Definition exp_range (p : bytes * option bytes) : srange := (to_dur (fst p), option_map to_dur (snd p)).

Definition expected_song (chrono : bool) (url : bytes) (attrs : list attr) : song :=
  mkSong url (exp_duration attrs) (exp_tags attrs)
         (last_opt (pick get_format attrs))
         (option_map (to_ts chrono) (last_opt (pick get_lm attrs))).

Definition expected_q (chrono : bool) (url : bytes) (attrs : list attr) : qsong :=
  mkQ (last_or 0 (pick get_pos attrs)) (last_or 0 (pick get_id attrs))
      (option_map exp_range (last_opt (pick get_range attrs)))
      (last_or 0 (pick get_prio attrs))
      (expected_song chrono url attrs).

(* one song per file entry, in server order; directory / playlist entries list nothing *)
Definition entry_songs (chrono : bool) (e : entry) : list qsong :=
  match e with SongE u a => [expected_q chrono u a] | _ => [] end.
Definition listed_songs (chrono : bool) (l : listing) : list qsong := flat_map (entry_songs chrono) l.

(* currentsong-style replies: the song of the LAST entry, if that entry is a song (a real
   currentsong reply has at most one entry, where last = first) *)
Fixpoint last_song (chrono : bool) (l : listing) : option qsong :=
  match l with
  | [] => None
  | e :: r => match r with
              | [] => hd_error (entry_songs chrono e)
              | _ => last_song chrono r
              end
  end.

(* ---------- well-formed listings ---------- *)
(* keys with a fixed meaning in a song listing: a tag line cannot be called like one of them *)
Definition reserved_keys : list bytes :=
  map b ["file"; "directory"; "playlist"; "duration"; "Time"; "Range"; "Format"; "Last-Modified";
         "Prio"; "Pos"; "Id"]%string.

Definition field_name (n : bytes) : Prop :=
  n <> [] /\ Forall (fun c => c < 256 /\ parser_key_charset c = true) n.

Definition wf_attr (chrono : bool) (a : attr) : Prop :=
  match a with
  | ADuration t | ATime t => std_duration t <> DurErr
  | ARange f t =>
    ~ In 45 f /\ std_duration f <> DurErr /\
    match t with Some x => x <> [] /\ std_duration x <> DurErr | None => True end
  | AFormat _ => True
  | ALastModified t => std_timestamp chrono t <> None
  | APrio n => n < 2 ^ 8
  | APos n => n < 2 ^ 64
  | AId n => n < 2 ^ 64
  | ATag n _ => field_name n /\ ~ In n reserved_keys
  end.

Definition wf_entry (chrono : bool) (e : entry) : Prop :=
  match e with
  | SongE u a => u <> [] /\ Forall (wf_attr chrono) a
  | _ => True
  end.

Definition wf_listing (chrono : bool) (l : listing) : Prop := Forall (wf_entry chrono) l.
