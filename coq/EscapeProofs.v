(* EscapeProofs.v — C06: escape_argument followed by MPD's tokenizer is the identity. *)
From Coq Require Import ZifyBool ZifyN ZifyNat.
From MPD Require Import Bytes Tables CommandModel MpdTokenizer CommandProofs.
Open Scope N_scope.

(* arguments the unquoted form can carry unchanged *)
Definition unquoted_ok (a : bytes) : bool :=
  negb (beq a []) && forallb (fun c => valid_unquoted_char c && negb (should_escape c)) a.

(* the witnessed failing class (finding K-C06 / D10; before the repair of D7 also D7):
   the argument is sent without quotes although the unquoted form cannot carry it *)
Definition K (a : bytes) : bool := negb (needs_quotes a) && negb (unquoted_ok a).

Definition nul_free (a : bytes) : Prop := Forall (fun c => c <> 0) a.

Fixpoint wire (args : list bytes) : bytes :=
  match args with
  | [] => []
  | a :: r => SP :: escape_argument a ++ wire r
  end.

Definition wire' (args : list bytes) : bytes :=
  match args with
  | [] => []
  | a :: r => escape_argument a ++ wire r
  end.

Definition sep_tail (t : bytes) : Prop := t = [] \/ exists r, t = SP :: r.

Lemma wire_sep_tail args : sep_tail (wire args).
Proof. destruct args; [left; reflexivity | right; eexists; reflexivity]. Qed.

Lemma strip_left_sep t : sep_tail t ->
  match t with [] => [] | d :: _ => if is_ws d then strip_left t else t end = strip_left t.
Proof. intros [->|[r ->]]; reflexivity. Qed.

(* ----- quoted form ----- *)

Lemma string_body_escape a tail :
  wf_bytes a -> sep_tail tail ->
  string_body (escape_body a ++ DQ :: tail) = Some (a, strip_left tail).
Proof.
  intros Hw Ht. induction Hw as [|c a Hc _ IH].
  - simpl. destruct Ht as [->|[r ->]]; reflexivity.
  - unfold escape_body. cbn [flat_map]. fold (escape_body a).
    pose proof (should_escape_spec c Hc) as S.
    destruct (should_escape c) eqn:E.
    + cbn [app string_body]. change (BS =? DQ) with false. change (BS =? BS) with true.
      cbv iota. rewrite IH. reflexivity.
    + cbn [app string_body].
      destruct (c =? DQ) eqn:E1; [exfalso; unfold BS, DQ, SQ in *; lia|].
      destruct (c =? BS) eqn:E2; [exfalso; unfold BS, DQ, SQ in *; lia|].
      rewrite IH. reflexivity.
Qed.

(* ----- unquoted form ----- *)

Lemma escape_body_id a : forallb (fun c => negb (should_escape c)) a = true -> escape_body a = a.
Proof.
  induction a as [|c a IH]; simpl; [reflexivity|]. intros H. apply andb_true_iff in H as [H1 H2].
  destruct (should_escape c); [discriminate|]. simpl. rewrite IH by exact H2. reflexivity.
Qed.

Lemma valid_unquoted_not_ws c : valid_unquoted_char c = true -> is_ws c = false /\ (c =? DQ) = false.
Proof. unfold valid_unquoted_char. intros H. destruct (is_ws c), (c =? DQ); simpl in H; auto; discriminate. Qed.

Lemma scan_unquoted a tail :
  forallb valid_unquoted_char a = true -> sep_tail tail ->
  scan valid_unquoted_char (a ++ tail) = Some (a, strip_left tail).
Proof.
  intros H Ht. induction a as [|c a IH].
  - simpl. destruct Ht as [->|[r ->]]; reflexivity.
  - simpl in H. apply andb_true_iff in H as [H1 H2]. cbn [app scan].
    destruct (valid_unquoted_not_ws c H1) as [W _]. rewrite W, H1, (IH H2). reflexivity.
Qed.

Lemma forallb_and {A} (p q : A -> bool) l :
  forallb (fun x => p x && q x) l = true -> forallb p l = true /\ forallb q l = true.
Proof.
  induction l as [|x l IH]; simpl; [auto|]. intros H.
  apply andb_true_iff in H as [H1 H2]. apply andb_true_iff in H1 as [Ha Hb].
  destruct (IH H2) as [I1 I2]. rewrite Ha, Hb, I1, I2. auto.
Qed.

(* ----- one parameter ----- *)

Lemma next_param_escape a tail :
  wf_bytes a -> K a = false -> sep_tail tail ->
  next_param (escape_argument a ++ tail) = Some (a, strip_left tail).
Proof.
  intros Hw HK Ht. unfold K in HK. unfold escape_argument.
  destruct (needs_quotes a) eqn:Q.
  - cbn [app next_param]. change (DQ =? DQ) with true. cbv iota.
    rewrite <- app_assoc. cbn [app]. apply string_body_escape; assumption.
  - simpl in HK. apply negb_false_iff in HK. unfold unquoted_ok in HK.
    apply andb_true_iff in HK as [Hne Hall]. apply forallb_and in Hall as [Hv Hs].
    rewrite (escape_body_id a Hs).
    destruct a as [|c a]; [discriminate|]. simpl in Hv. apply andb_true_iff in Hv as [Hc Hv].
    cbn [app next_param]. destruct (valid_unquoted_not_ws c Hc) as [_ D]. rewrite D.
    unfold next_unquoted. rewrite Hc, (scan_unquoted a tail Hv Ht). reflexivity.
Qed.

Lemma escape_head a : K a = false -> exists h t, escape_argument a = h :: t /\ is_ws h = false.
Proof.
  intros HK. unfold K in HK. unfold escape_argument. destruct (needs_quotes a) eqn:Q.
  - exists DQ, (escape_body a ++ [DQ]). split; reflexivity.
  - simpl in HK. apply negb_false_iff in HK. unfold unquoted_ok in HK.
    apply andb_true_iff in HK as [Hne Hall]. apply forallb_and in Hall as [Hv Hs].
    rewrite (escape_body_id a Hs). destruct a as [|c a]; [discriminate|].
    simpl in Hv. apply andb_true_iff in Hv as [Hc _]. exists c, a. split; [reflexivity|].
    apply valid_unquoted_not_ws. exact Hc.
Qed.

Lemma strip_left_wire args : Forall (fun a => K a = false) args -> strip_left (wire args) = wire' args.
Proof.
  intros H. destruct args as [|a r]; [reflexivity|]. inversion H; subst.
  destruct (escape_head a H2) as (h & t & E & W). simpl. rewrite E. simpl. rewrite W. reflexivity.
Qed.

Lemma params_wire args : forall fuel,
  Forall wf_bytes args -> Forall (fun a => K a = false) args -> (length args <= fuel)%nat ->
  params fuel (wire' args) = Some args.
Proof.
  induction args as [|a r IH]; intros fuel Hw HK Hf.
  - destruct fuel; reflexivity.
  - inversion Hw; inversion HK; subst.
    destruct (escape_head a H5) as (h & t & E & W).
    destruct fuel as [|f]; [simpl in Hf; lia|].
    unfold wire'. pose proof (next_param_escape a (wire r) H1 H5 (wire_sep_tail r)) as NP.
    rewrite E in *. cbn [params app]. cbn [app] in NP. rewrite NP.
    rewrite (strip_left_wire r H6), (IH f H2 H6); [reflexivity | simpl in Hf; lia].
Qed.

(* ----- the whole line ----- *)

Lemma add_all_str_wire args : forall c c',
  add_all_str c args = Some c' -> c' = c ++ wire args /\
  Forall (fun a => Forall (fun x => argument_reject x = false) (escape_argument a)) args.
Proof.
  induction args as [|a r IH]; intros c c' H; simpl in H.
  - inversion H. rewrite app_nil_r. auto.
  - unfold add_str in H.
    destruct (add_argument_raw_cases c (escape_argument a)) as [(i & E & _)|(E & F)]; rewrite E in H; [discriminate|].
    apply IH in H as [-> Hr]. split; [|constructor; assumption].
    simpl. rewrite <- !app_assoc. reflexivity.
Qed.

Lemma escape_contains a x : In x a -> In x (escape_argument a).
Proof.
  intros H. unfold escape_argument.
  assert (B : In x (escape_body a)).
  { unfold escape_body. apply in_flat_map. exists x. split; [exact H|]. destruct (should_escape x); simpl; auto. }
  destruct (needs_quotes a); [|exact B]. apply in_or_app. right. apply in_or_app. left. exact B.
Qed.

Lemma escape_bytes a x : In x (escape_argument a) -> In x a \/ x = BS \/ x = DQ.
Proof.
  unfold escape_argument. intros H.
  assert (B : In x (escape_body a) -> In x a \/ x = BS \/ x = DQ).
  { unfold escape_body. intros Hb. apply in_flat_map in Hb as (y & Hy & Hx).
    destruct (should_escape y); simpl in Hx; intuition (subst; auto). }
  destruct (needs_quotes a); [|auto].
  apply in_app_or in H as [H|H]; [destruct H as [H|[]]; auto|]. apply in_app_or in H as [H|H]; [auto|].
  destruct H as [H|[]]; auto.
Qed.

Definition ends_nonws (s : bytes) : Prop := exists l r, rev s = l :: r /\ is_ws l = false.

Lemma ends_app x y : ends_nonws y -> ends_nonws (x ++ y).
Proof. intros (l & r & E & W). exists l, (r ++ rev x). rewrite rev_app_distr, E. split; [reflexivity | exact W]. Qed.

Lemma strip_right_id s : ends_nonws s -> strip_right s = s.
Proof.
  intros (l & r & E & W). unfold strip_right. rewrite E. simpl. rewrite W. rewrite <- E. apply rev_involutive.
Qed.

Lemma ends_escape a : K a = false -> ends_nonws (escape_argument a).
Proof.
  intros HK. unfold K in HK. unfold escape_argument. destruct (needs_quotes a) eqn:Q.
  - change ([DQ] ++ escape_body a ++ [DQ]) with (([DQ] ++ escape_body a) ++ [DQ]) || rewrite app_assoc.
    apply ends_app. exists DQ, []. split; reflexivity.
  - simpl in HK. apply negb_false_iff in HK. unfold unquoted_ok in HK.
    apply andb_true_iff in HK as [Hne Hall]. apply forallb_and in Hall as [Hv Hs].
    rewrite (escape_body_id a Hs).
    destruct (rev a) as [|l r] eqn:E.
    + apply (f_equal (@rev N)) in E. rewrite rev_involutive in E. subst a. discriminate.
    + exists l, r. split; [exact E|].
      assert (In l a) by (apply in_rev; rewrite E; left; reflexivity).
      rewrite forallb_forall in Hv. apply valid_unquoted_not_ws. auto.
Qed.

Lemma ends_wire args : args <> [] -> Forall (fun a => K a = false) args -> ends_nonws (wire args).
Proof.
  induction args as [|a r IH]; intros Hne H; [congruence|]. inversion H; subst.
  simpl. destruct r as [|a2 r2].
  - simpl. rewrite app_nil_r. apply (ends_app [SP]). apply ends_escape. assumption.
  - change (SP :: escape_argument a ++ wire (a2 :: r2)) with ((SP :: escape_argument a) ++ wire (a2 :: r2)).
    apply ends_app. apply IH; [discriminate | assumption].
Qed.

Lemma take_until_none p s : Forall (fun x => p x = false) s -> take_until p s = s.
Proof. induction 1 as [|a r Ha _ IH]; simpl; [reflexivity|]. rewrite Ha, IH. reflexivity. Qed.

Lemma take_until_app p s x r : Forall (fun y => p y = false) s -> p x = true -> take_until p (s ++ x :: r) = s.
Proof. induction 1 as [|a s' Ha _ IH]; simpl; intros Hx; [rewrite Hx; reflexivity|]. rewrite Ha, IH; auto. Qed.

Lemma mpd_line_send c :
  Forall (fun x => x <> LF /\ x <> 0) c -> ends_nonws c -> mpd_line (send_bytes c) = c.
Proof.
  intros H E. unfold mpd_line, send_bytes.
  rewrite take_until_app; [| eapply Forall_impl; [|exact H]; simpl; intros x [Hx _]; apply N.eqb_neq; auto | apply N.eqb_refl].
  rewrite (strip_right_id c E).
  apply take_until_none. eapply Forall_impl; [|exact H]. simpl. intros x [_ Hx]. apply N.eqb_neq. auto.
Qed.

Lemma scan_word name tail :
  Forall (fun x => valid_word_char x = true /\ is_ws x = false) name -> sep_tail tail ->
  scan valid_word_char (name ++ tail) = Some (name, strip_left tail).
Proof.
  intros H Ht. induction H as [|c n [Hc Hw] _ IH].
  - simpl. destruct Ht as [->|[r ->]]; reflexivity.
  - cbn [app scan]. rewrite Hw, Hc, IH. reflexivity.
Qed.

Theorem tokenize_roundtrip name args c0 c :
  wf_bytes name -> Forall wf_bytes args ->
  build name = inr c0 ->
  add_all_str c0 args = Some c ->
  Forall (fun a => K a = false) args ->
  mpd_tokenize (send_bytes c) = Some (name :: args).
Proof.
  intros Wn Wa Hb Ha HK.
  apply build_ok_iff in Hb as (-> & Hfo & Hcs & _).
  apply add_all_str_wire in Ha as [-> Hrej].
  assert (Hz : Forall nul_free args).
  { clear - Hrej. induction Hrej as [|a r Ha _ IH]; constructor; [|exact IH].
    apply Forall_forall. intros x Hin E. subst x. apply escape_contains in Hin.
    rewrite Forall_forall in Ha. specialize (Ha 0 Hin). rewrite argument_reject_nul in Ha. discriminate. }
  assert (Hname : Forall (fun x => valid_word_char x = true /\ is_ws x = false /\ x <> LF /\ x <> 0) name).
  { apply Forall_forall. intros x Hin. unfold wf_bytes in Wn. rewrite Forall_forall in Wn, Hcs.
    destruct (command_charset_plain x (Wn x Hin) (Hcs x Hin)) as (A & B & C & _).
    split; [apply command_charset_word; auto | auto]. }
  (* the line MPD sees is the command buffer *)
  assert (Hline : mpd_line (send_bytes (name ++ wire args)) = name ++ wire args).
  { apply mpd_line_send.
    - apply Forall_app. split.
      + eapply Forall_impl; [|exact Hname]. simpl. tauto.
      + clear - Wa Hrej Hz. induction args as [|a r IH]; simpl; [constructor|].
        inversion Wa; inversion Hrej; inversion Hz; subst.
        constructor; [split; discriminate|]. apply Forall_app. split; [|auto].
        apply Forall_forall. intros x Hin. split.
        * intro; subst x. rewrite Forall_forall in H5. specialize (H5 LF Hin).
          rewrite argument_reject_lf in H5. discriminate.
        * intro; subst x. apply escape_bytes in Hin as [Hin|[Hin|Hin]]; try discriminate.
          unfold nul_free in H9. rewrite Forall_forall in H9. apply (H9 0 Hin). reflexivity.
    - destruct args as [|a r].
      + simpl. rewrite app_nil_r. destruct (rev name) as [|l rr] eqn:E.
        * apply (f_equal (@rev N)) in E. rewrite rev_involutive in E. simpl in E. subst name. contradiction.
        * exists l, rr. split; [exact E|]. assert (In l name) by (apply in_rev; rewrite E; left; reflexivity).
          rewrite Forall_forall in Hname. apply Hname. assumption.
      + apply ends_app. apply ends_wire; [discriminate | assumption]. }
  unfold mpd_tokenize. rewrite Hline.
  destruct name as [|c n]; [contradiction|]. simpl in Hfo.
  assert (Hl : valid_word_first c = true).
  { apply first_charset_letter; [|exact Hfo]. inversion Wn; assumption. }
  cbn [app next_word]. rewrite Hl. inversion Hname; subst.
  rewrite (scan_word n (wire args)); [| eapply Forall_impl; [|exact H2]; simpl; tauto | apply wire_sep_tail].
  rewrite (strip_left_wire args HK).
  rewrite (params_wire args _ Wa HK); [reflexivity|].
  clear - HK. induction args as [|a r IH]; simpl; [lia|]. inversion HK; subst.
  destruct (escape_head a H1) as (h & t & E & _). rewrite E. simpl. rewrite app_length.
  destruct r as [|a2 r2]; [simpl; lia|]. specialize (IH H2). simpl in *. lia.
Qed.

(* after the repair of D7 the failing class is exactly: non-empty, no byte <= 0x20, and a quote or
   backslash somewhere (D10, pinned by the test suite) *)
Lemma quote_trigger_is_ws c : c < 256 -> quote_trigger c = is_ws c.
Proof.
  intros H. apply Bool.eqb_prop.
  apply (sweep (fun c => Bool.eqb (quote_trigger c) (is_ws c))); [vm_compute; reflexivity | exact H].
Qed.

Lemma K_characterisation a : wf_bytes a ->
  K a = true <-> (a <> [] /\ Forall (fun c => is_ws c = false) a /\
                  Exists (fun c => c = BS \/ c = DQ \/ c = SQ) a).
Proof.
  intros W. unfold K, needs_quotes, unquoted_ok.
  assert (Q : quote_when_empty = true) by reflexivity. rewrite Q.
  assert (T : existsb quote_trigger a = existsb is_ws a).
  { clear - W. induction W as [|c a Hc _ IH]; simpl; [reflexivity|]. rewrite IH, quote_trigger_is_ws by exact Hc. reflexivity. }
  rewrite T. split.
  - intros H. apply andb_true_iff in H as [H1 H2]. apply negb_true_iff in H1, H2.
    apply orb_false_iff in H1 as [Hw He]. destruct a as [|c0 a0]; [discriminate|].
    split; [discriminate|]. simpl beq in H2. simpl negb in H2. rewrite andb_true_l in H2.
    assert (Fw : Forall (fun c => is_ws c = false) (c0 :: a0)).
    { apply Forall_forall. intros x Hin. destruct (is_ws x) eqn:E; [|reflexivity].
      assert (existsb is_ws (c0 :: a0) = true) by (apply existsb_exists; eauto). congruence. }
    split; [exact Fw|].
    remember (c0 :: a0) as l. clear Heql He Hw T. induction W as [|c a Hc W IH]; [discriminate|].
    simpl in H2. inversion Fw; subst.
    destruct (valid_unquoted_char c && negb (should_escape c)) eqn:V.
    + right. apply IH; auto.
    + left. unfold valid_unquoted_char in V. rewrite H1 in V. simpl in V.
      rewrite (should_escape_spec c Hc) in V. unfold BS, DQ, SQ in *. lia.
  - intros (Hne & Fw & Ex). apply andb_true_iff. split; apply negb_true_iff.
    + apply orb_false_iff. split.
      * destruct (existsb is_ws a) eqn:E; [|reflexivity]. apply existsb_exists in E as (x & Hin & Hx).
        rewrite Forall_forall in Fw. rewrite (Fw x Hin) in Hx. discriminate.
      * destruct a; [congruence | reflexivity].
    + apply andb_false_iff. right.
      destruct (forallb (fun c => valid_unquoted_char c && negb (should_escape c)) a) eqn:E; [|reflexivity].
      apply Exists_exists in Ex as (x & Hin & Hx). rewrite forallb_forall in E. specialize (E x Hin).
      unfold wf_bytes in W. rewrite Forall_forall in W. specialize (W x Hin).
      unfold valid_unquoted_char in E. rewrite (should_escape_spec x W) in E. unfold BS, DQ, SQ in *. lia.
Qed.
