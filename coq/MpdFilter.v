(* MpdFilter.v — SPEC SIDE, trusted: port of MPD 0.23's filter-expression grammar, written from
   memory (src/song/Filter.cxx: SongFilter::ParseExpression, ParseStringFilter, ExpectWord,
   ExpectQuoted; util/StringStrip.cxx: StripLeft).

   Input: the bytes of ONE request argument after the request tokenizer (MpdTokenizer.v) has
   unquoted it, as a C string (the tokenizer's line is cut at the first NUL, so no NUL occurs).

     ParseExpression(s):            precondition *s == '('
       s = StripLeft(s+1)
       if *s == '(':                first = ParseExpression(s)
                                    if *s == ')' : ++s; return first           -- "((x))" is x
                                    expect the word "AND"; and = [first]
                                    loop: and += ParseExpression(s)
                                          if *s == ')' : ++s; return and
                                          expect the word "AND"
       if *s == '!':                s = StripLeft(s+1); *s must be '('; inner = ParseExpression(s)
                                    *s must be ')'; s = StripLeft(s+1); return NOT inner
       else:                        word = ExpectWord(s)   ([A-Za-z_-]+, then StripLeft)
                                    ParseStringFilter(s): "contains " (ignoring case) | =~ | !~ | == | !=
                                       then StripLeft, then ExpectQuoted
                                    *s must be ')'; s = StripLeft(s+1)
     ExpectQuoted(s):               quote = *s++ must be a double or a single quote; until *s == quote: a backslash is
                                    skipped and the byte after it taken literally; end of string =>
                                    error; at most 4095 bytes of value ("Quoted value is too long");
                                    s = StripLeft(s+1)
     SongFilter::Parse:             the whole argument must be consumed ("Unparsed garbage after
                                    expression")

   Not distinguished (the leaf is (word, operator, value)): MPD looks the word up in its tag table
   ("Unknown filter type" otherwise: the names are C20's subject) and gives the words
   modified-since / added-since / base / AudioFormat / prio a grammar of their own; the 0.24
   operators (!contains, starts_with) are not ported, the client never emits them.

   One point I am not certain of is whether, after the ')' that closes an AND list (or the extra
   pair of parentheses), 0.23 advances by one byte (as written above) or also skips blanks.  The
   parser therefore takes a flag [lenient] (false = as above); C11 is proved for both values. *)
From MPD Require Import Bytes MpdTokenizer.
Open Scope N_scope.

Inductive fop := FEq | FNe | FContains | FMatch | FNotMatch.

Inductive fast :=
  | FLeaf (word : bytes) (op : fop) (value : bytes)
  | FNot (a : fast)
  | FAnd (l : list fast).

Definition LP : N := 40.   (* ( *)
Definition RP : N := 41.   (* ) *)
Definition BANG : N := 33. (* ! *)

(* IsTagNameChar *)
Definition is_tag_name_char (c : N) : bool := is_alpha c || (c =? 95) || (c =? 45).

Fixpoint span (p : N -> bool) (s : bytes) : bytes * bytes :=
  match s with
  | c :: r => if p c then let (w, t) := span p r in (c :: w, t) else ([], s)
  | [] => ([], [])
  end.

(* ExpectWord: "Word expected" when empty *)
Definition expect_word (s : bytes) : option (bytes * bytes) :=
  match span is_tag_name_char s with
  | ([], _) => None
  | (w, r) => Some (w, strip_left r)
  end.

Definition is_quote (c : N) : bool := (c =? DQ) || (c =? SQ).

(* the loop of ExpectQuoted, after the opening quote [q]: value and the text after the closing quote *)
Fixpoint quoted_body (q : N) (s : bytes) : option (bytes * bytes) :=
  match s with
  | [] => None                                   (* Closing quote not found *)
  | c :: r =>
    if c =? q then Some ([], r)
    else if c =? BS then
      match r with
      | [] => None
      | d :: r' =>
        match quoted_body q r' with
        | Some (v, t) => Some (d :: v, t)
        | None => None
        end
      end
    else
      match quoted_body q r with
      | Some (v, t) => Some (c :: v, t)
      | None => None
      end
  end.

Definition quoted_max : N := 4096.               (* char buffer[4096]; length >= sizeof => error *)

Definition expect_quoted (s : bytes) : option (bytes * bytes) :=
  match s with
  | q :: r =>
    if is_quote q then
      match quoted_body q r with
      | Some (v, t) => if quoted_max <=? N.of_nat (length v) then None else Some (v, strip_left t)
      | None => None
      end
    else None                                    (* Quoted string expected *)
  | [] => None
  end.

(* StringAfterPrefixIgnoreCase *)
Fixpoint strip_prefix_ci (p s : bytes) : option bytes :=
  match p, s with
  | [], _ => Some s
  | a :: p', c :: s' => if to_lower a =? to_lower c then strip_prefix_ci p' s' else None
  | _ :: _, [] => None
  end.

(* the operator of ParseStringFilter and the text after it (StripLeft applied) *)
Definition parse_op (s : bytes) : option (fop * bytes) :=
  match strip_prefix_ci (b "contains ") s with
  | Some r => Some (FContains, strip_left r)
  | None =>
    match s with
    | c0 :: c1 :: r =>
      if ((c0 =? BANG) || (c0 =? 61)) && (c1 =? 126) then             (* !~  =~  (PCRE built in) *)
        Some (if c0 =? BANG then FNotMatch else FMatch, strip_left r)
      else if (c0 =? BANG) && (c1 =? 61) then Some (FNe, strip_left r)
      else if (c0 =? 61) && (c1 =? 61) then Some (FEq, strip_left r)
      else None                                                         (* '==' or '!=' expected *)
    | _ => None
    end
  end.

Definition parse_string_filter (s : bytes) : option (fop * bytes * bytes) :=
  match parse_op s with
  | Some (o, r) =>
    match expect_quoted r with
    | Some (v, t) => Some (o, v, t)
    | None => None
    end
  | None => None
  end.

Definition and_word : bytes := b "AND".

(* after the ')' that closes an AND list *)
Definition fin (lenient : bool) (s : bytes) : bytes := if lenient then strip_left s else s.

Section Parser.
Variable lenient : bool.

(* One activation of ParseExpression, given the functions for the recursive calls:
   [pe] = ParseExpression itself, [pa] = the rest of the AND loop (entered after an "AND" word,
   returns the remaining items of the list). *)
Definition expr_body (pe : bytes -> option (fast * bytes)) (pa : bytes -> option (list fast * bytes))
    (s : bytes) : option (fast * bytes) :=
  match s with
  | c :: r0 =>
    if negb (c =? LP) then None else
    let s1 := strip_left r0 in
    match s1 with
    | [] => None                                                      (* Word expected *)
    | c1 :: r1 =>
      if c1 =? LP then
        match pe s1 with
        | None => None
        | Some (first, s2) =>
          match s2 with
          | c2 :: r2 =>
            if c2 =? RP then Some (first, fin lenient r2) else
            match expect_word s2 with
            | Some (w, s3) =>
              if beq w and_word then
                match pa s3 with
                | Some (items, s4) => Some (FAnd (first :: items), s4)
                | None => None
                end
              else None                                               (* 'AND' expected *)
            | None => None
            end
          | [] => None
          end
        end
      else if c1 =? BANG then
        let s2 := strip_left r1 in
        match s2 with
        | c2 :: _ =>
          if negb (c2 =? LP) then None else                           (* '(' expected *)
          match pe s2 with
          | Some (inner, c3 :: r3) =>
            if c3 =? RP then Some (FNot inner, strip_left r3) else None   (* ')' expected *)
          | _ => None
          end
        | [] => None
        end
      else
        match expect_word s1 with
        | None => None
        | Some (w, s2) =>
          match parse_string_filter s2 with
          | Some (o, v, c3 :: r3) =>
            if c3 =? RP then Some (FLeaf w o v, strip_left r3) else None  (* ')' expected *)
          | _ => None
          end
        end
    end
  | [] => None
  end.

Definition and_body (pe : bytes -> option (fast * bytes)) (pa : bytes -> option (list fast * bytes))
    (s : bytes) : option (list fast * bytes) :=
  match s with
  | c :: _ =>
    if negb (c =? LP) then None else       (* ParseExpression asserts '(' here; rejected *)
    match pe s with
    | None => None
    | Some (item, s2) =>
      match s2 with
      | c2 :: r2 =>
        if c2 =? RP then Some ([item], fin lenient r2) else
        match expect_word s2 with
        | Some (w, s3) =>
          if beq w and_word then
            match pa s3 with
            | Some (items, s4) => Some (item :: items, s4)
            | None => None
            end
          else None
        | None => None
        end
      | [] => None
      end
    end
  | [] => None
  end.

(* the recursion, on explicit fuel *)
Fixpoint parse_expr (fuel : nat) (s : bytes) : option (fast * bytes) :=
  match fuel with
  | O => None
  | S f => expr_body (parse_expr f) (parse_and f) s
  end
with parse_and (fuel : nat) (s : bytes) : option (list fast * bytes) :=
  match fuel with
  | O => None
  | S f => and_body (parse_expr f) (parse_and f) s
  end.

End Parser.

(* SongFilter::Parse on one argument that starts with '(' : the whole argument must be consumed.
   Result: the expression and what is left (always [] on success). *)
Definition mpd_parse_filter_gen (lenient : bool) (e : bytes) : option (fast * bytes) :=
  match parse_expr lenient (length e) e with
  | Some (a, []) => Some (a, [])
  | _ => None                                     (* parse error / Unparsed garbage after expression *)
  end.

Definition mpd_parse_filter : bytes -> option (fast * bytes) := mpd_parse_filter_gen false.

(* ---------- meaning ---------- *)

(* the truth value of an expression on a song, given the truth value of every leaf test *)
Fixpoint eval (leaf : bytes -> fop -> bytes -> bool) (a : fast) : bool :=
  match a with
  | FLeaf w o v => leaf w o v
  | FNot x => negb (eval leaf x)
  | FAnd l => forallb (eval leaf) l
  end.

(* AND lists flattened (associativity), one-element lists dropped *)
Fixpoint flatten (a : fast) : fast :=
  match a with
  | FLeaf w o v => a
  | FNot x => FNot (flatten x)
  | FAnd l =>
    match flat_map (fun x => match x with FAnd xs => xs | y => [y] end) (map flatten l) with
    | [x] => x
    | items => FAnd items
    end
  end.
