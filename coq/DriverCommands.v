(* DriverCommands.v — case kinds of C15.
     predef <Name.path> <param>...            what the constructor path writes: "ok <hex>" | "PANIC"
     predef_oracle <hex|PANIC> <Name.path> <param>...
                                              spec-side reading (CommandsSpec) of bytes the
                                              IMPLEMENTATION wrote: "ok" | "fail <reason>"
   Parameter syntax (one token each): n<dec>  s<hex>  b0|b1  r<bound>,<bound> (bound = i<dec> |
   x<dec> | u)  d<secs>,<nanos>  t<TagIdent> | o<hex> (Tag::Other)  T[<tag>,<tag>..]
   f<tag>,<OperatorIdent>,<hexvalue>,<neg 0|1>  e<EnumIdent>  I<id> | P<pos> (Song)
   qa<dec> | q+<dec> | q-<dec> (PositionOrRelative)  - (None). *)
From MPD Require Import Bytes Tables Show TagModel CommandModel MpdTokenizer CommandsParams CommandsModel CommandsSpec.
Open Scope N_scope.

Inductive param :=
  | PaNum (n : N) | PaStr (s : bytes) | PaBool (x : bool) | PaRange (lo hi : bound)
  | PaDur (secs nanos : N) | PaTag (t : tag) | PaTags (l : list tag) | PaFilter (f : sfilter)
  | PaNone | PaEnum (id : bytes) | PaSong (s : song) | PaRel (p : pos_or_rel).

Definition parse_u64 (s : bytes) : option N := parse_digits 64 s.

Definition parse_str (h : bytes) : option bytes :=
  let s := unhex h in if utf8_valid s then Some s else None.

Definition parse_bound (s : bytes) : option bound :=
  match s with
  | [117] => Some Unbounded
  | 105 :: r => option_map Included (parse_u64 r)
  | 120 :: r => option_map Excluded (parse_u64 r)
  | _ => None
  end.

Definition parse_tag (s : bytes) : option tag :=
  match s with
  | 116 :: r => option_map Named (find (fun v => beq (tagv_ident v) r) all_tagv)
  | 111 :: r => option_map Other (parse_str r)
  | _ => None
  end.

Fixpoint all_some {A} (l : list (option A)) : option (list A) :=
  match l with
  | [] => Some []
  | Some x :: r => option_map (cons x) (all_some r)
  | None :: _ => None
  end.

Definition COMMA : N := 44.

Definition parse_param (t : bytes) : option param :=
  match t with
  | [45] => Some PaNone
  | 110 :: r => option_map PaNum (parse_u64 r)
  | 115 :: r => option_map PaStr (parse_str r)
  | [98; 48] => Some (PaBool false)
  | [98; 49] => Some (PaBool true)
  | 114 :: r =>
    match split_on COMMA r with
    | [lo; hi] => match parse_bound lo, parse_bound hi with
                  | Some l, Some h => Some (PaRange l h)
                  | _, _ => None
                  end
    | _ => None
    end
  | 100 :: r =>
    match split_on COMMA r with
    | [s; n] => match parse_u64 s, parse_u64 n with
                | Some s', Some n' => if n' <? NANOS_PER_SEC then Some (PaDur s' n') else None
                | _, _ => None
                end
    | _ => None
    end
  | 116 :: _ | 111 :: _ => option_map PaTag (parse_tag t)
  | [84] => Some (PaTags [])
  | 84 :: r => option_map PaTags (all_some (map parse_tag (split_on COMMA r)))
  | 102 :: r =>
    match split_on COMMA r with
    | [tg; op; v; ng] =>
      match parse_tag tg, find (fun o => beq (operator_ident o) op) all_operators, parse_str v with
      | Some tg', Some op', Some v' =>
        if beq ng [49] then Some (PaFilter (mk_filter tg' op' v' true))
        else if beq ng [48] then Some (PaFilter (mk_filter tg' op' v' false))
        else None
      | _, _, _ => None
      end
    | _ => None
    end
  | 101 :: r => Some (PaEnum r)
  | 73 :: r => option_map (fun n => PaSong (SongId n)) (parse_u64 r)
  | 80 :: r => option_map (fun n => PaSong (SongPos n)) (parse_u64 r)
  | 113 :: 97 :: r => option_map (fun n => PaRel (Absolute n)) (parse_u64 r)
  | 113 :: 43 :: r => option_map (fun n => PaRel (AfterCurrent n)) (parse_u64 r)
  | 113 :: 45 :: r => option_map (fun n => PaRel (BeforeCurrent n)) (parse_u64 r)
  | _ => None
  end.

Definition enum_single (id : bytes) : option single_mode :=
  if beq id (b "Enabled") then Some SingleEnabled
  else if beq id (b "Disabled") then Some SingleDisabled
  else if beq id (b "Oneshot") then Some SingleOneshot else None.
Definition enum_rg (id : bytes) : option rg_mode :=
  if beq id (b "Off") then Some RgOff else if beq id (b "Track") then Some RgTrack
  else if beq id (b "Album") then Some RgAlbum else if beq id (b "Auto") then Some RgAuto else None.
Definition enum_seek (id : bytes) : option seek_mode :=
  if beq id (b "Forward") then Some SeekForward else if beq id (b "Backward") then Some SeekBackward
  else if beq id (b "Absolute") then Some SeekAbsolute else None.
Definition enum_sticker (id : bytes) : option sticker_op :=
  if beq id (b "Eq") then Some StEquals else if beq id (b "Lt") then Some StLessThan
  else if beq id (b "Gt") then Some StGreaterThan else None.

Definition nm (name : bytes) (s : string) : bool := beq name (b s).

Definition parse_predef (name : bytes) (ps : list param) : option predef :=
  match ps with
  | [] =>
    if nm name "ClearQueue" then Some PClearQueue else if nm name "Next" then Some PNext
    else if nm name "Ping" then Some PPing else if nm name "Previous" then Some PPrevious
    else if nm name "Stop" then Some PStop else if nm name "ReplayGainStatus" then Some PReplayGainStatus
    else if nm name "Status" then Some PStatus else if nm name "Stats" then Some PStats
    else if nm name "Queue" then Some PQueue else if nm name "Queue.all" then Some PQueueAll
    else if nm name "CurrentSong" then Some PCurrentSong else if nm name "GetPlaylists" then Some PGetPlaylists
    else if nm name "GetEnabledTagTypes" then Some PGetEnabledTagTypes
    else if nm name "ReadChannelMessages" then Some PReadChannelMessages
    else if nm name "ListChannels" then Some PListChannels
    else if nm name "Shuffle.all" then Some PShuffleAll else if nm name "Play.current" then Some PPlayCurrent
    else if nm name "ListAllIn.root" then Some PListAllInRoot
    else if nm name "TagTypes.enable_all" then Some PTagTypesEnableAll
    else if nm name "TagTypes.disable_all" then Some PTagTypesDisableAll
    else None
  | [PaStr s] =>
    if nm name "ClearPlaylist" then Some (PClearPlaylist s) else if nm name "DeletePlaylist" then Some (PDeletePlaylist s)
    else if nm name "SaveQueueAsPlaylist" then Some (PSaveQueueAsPlaylist s)
    else if nm name "SubscribeToChannel" then Some (PSubscribeToChannel s)
    else if nm name "UnsubscribeFromChannel" then Some (PUnsubscribeFromChannel s)
    else if nm name "GetPlaylist" then Some (PGetPlaylist s)
    else if nm name "ListAllIn.directory" then Some (PListAllInDirectory s)
    else if nm name "StickerList.new" then Some (PStickerList s)
    else if nm name "Update.new" then Some (PUpdate (Some s)) else if nm name "Rescan.new" then Some (PRescan (Some s))
    else None
  | [PaNone] =>
    if nm name "Update.new" then Some (PUpdate None) else if nm name "Rescan.new" then Some (PRescan None) else None
  | [PaBool x] =>
    if nm name "SetConsume" then Some (PSetConsume x) else if nm name "SetPause" then Some (PSetPause x)
    else if nm name "SetRandom" then Some (PSetRandom x) else if nm name "SetRepeat" then Some (PSetRepeat x) else None
  | [PaSong s] =>
    if nm name "Queue.song" then Some (PQueueSong s) else if nm name "QueueRange.song" then Some (PQueueRangeSong s)
    else if nm name "Play.song" then Some (PPlaySong s) else None
  | [PaRange lo hi] =>
    if nm name "Queue.range" then Some (PQueueRange lo hi) else if nm name "QueueRange.range" then Some (PQueueRangeRange lo hi)
    else if nm name "Shuffle.range" then Some (PShuffleRange lo hi) else if nm name "Delete.range" then Some (PDeleteRange lo hi)
    else None
  | [PaNum n] =>
    if nm name "SetVolume" then (if n <=? u8_max then Some (PSetVolume n) else None)
    else if nm name "Delete.id" then Some (PDeleteId n) else if nm name "Delete.position" then Some (PDeletePosition n)
    else if nm name "SetBinaryLimit" then Some (PSetBinaryLimit n) else None
  | [PaEnum id] =>
    if nm name "SetSingle" then option_map PSetSingle (enum_single id)
    else if nm name "SetReplayGainMode" then option_map PSetReplayGainMode (enum_rg id) else None
  | [PaDur s n] => if nm name "Crossfade" then Some (PCrossfade s n) else None
  | [PaSong sg; PaDur s n] => if nm name "SeekTo" then Some (PSeekTo sg s n) else None
  | [PaEnum id; PaDur s n] => if nm name "Seek" then option_map (fun m => PSeek m s n) (enum_seek id) else None
  | [PaStr u; PaRel p] => if nm name "Add.uri" then Some (PAdd u (Some p)) else None
  | [PaStr u; PaNone] =>
    if nm name "Add.uri" then Some (PAdd u None) else if nm name "LoadPlaylist.name" then Some (PLoadPlaylist u None)
    else if nm name "AlbumArt.new" then Some (PAlbumArt u None)
    else if nm name "AlbumArtEmbedded.new" then Some (PAlbumArtEmbedded u None) else None
  | [PaNum n; PaRel p] =>
    if nm name "Move.id" then Some (PMove (MfId n) p) else if nm name "Move.position" then Some (PMove (MfPosition n) p) else None
  | [PaRange lo hi; PaRel p] => if nm name "Move.range" then Some (PMove (MfRange lo hi) p) else None
  | [PaFilter f; so; wi] =>
    if nm name "Find.new" then
      match so, wi with
      | PaNone, PaNone => Some (PFind f None None)
      | PaTag t, PaNone => Some (PFind f (Some t) None)
      | PaNone, PaRange lo hi => Some (PFind f None (Some (lo, hi)))
      | PaTag t, PaRange lo hi => Some (PFind f (Some t) (Some (lo, hi)))
      | _, _ => None
      end
    else if nm name "Count.group_by_refilter" then      (* Count::new(f).group_by(g).filter(f2): the later filter replaces the first *)
      match so, wi with
      | PaTag g, PaFilter f2 => Some (PCountGrouped g (Some f2))
      | _, _ => None
      end
    else None
  | [PaTag g; PaFilter _; PaFilter f2] =>               (* CountGrouped::new(g).filter(f1).filter(f2) *)
    if nm name "CountGrouped.refilter" then Some (PCountGrouped g (Some f2)) else None
  | [PaTag t; fo; PaTags g] =>
    if nm name "List.new" then
      match fo with
      | PaNone => Some (PList t None g)
      | PaFilter f => Some (PList t (Some f) g)
      | _ => None
      end
    else None
  | [PaFilter f] => if nm name "Count.new" then Some (PCount f) else None
  | [PaFilter f; PaTag g] => if nm name "Count.group_by" then Some (PCountGroupBy f g) else None
  | [PaTag g; PaNone] => if nm name "CountGrouped.new" then Some (PCountGrouped g None) else None
  | [PaTag g; PaFilter f] => if nm name "CountGrouped.new" then Some (PCountGrouped g (Some f)) else None
  | [PaStr x; PaStr y] =>
    if nm name "RenamePlaylist.new" then Some (PRenamePlaylist x y)
    else if nm name "StickerGet.new" then Some (PStickerGet x y)
    else if nm name "StickerDelete.new" then Some (PStickerDelete x y)
    else if nm name "SendChannelMessage.new" then Some (PSendChannelMessage x y) else None
  | [PaStr x; PaRange lo hi] =>
    if nm name "LoadPlaylist.name" then Some (PLoadPlaylist x (Some (lo, hi)))
    else if nm name "RemoveFromPlaylist.range" then Some (PRemoveFromPlaylistRange x lo hi) else None
  | [PaStr x; PaStr y; PaNone] => if nm name "AddToPlaylist.new" then Some (PAddToPlaylist x y None) else None
  | [PaStr x; PaStr y; PaNum n] => if nm name "AddToPlaylist.new" then Some (PAddToPlaylist x y (Some n)) else None
  | [PaStr x; PaNum n] =>
    if nm name "RemoveFromPlaylist.position" then Some (PRemoveFromPlaylistPosition x n)
    else if nm name "AlbumArt.new" then Some (PAlbumArt x (Some n))
    else if nm name "AlbumArtEmbedded.new" then Some (PAlbumArtEmbedded x (Some n)) else None
  | [PaStr x; PaNum n; PaNum m] => if nm name "MoveInPlaylist.new" then Some (PMoveInPlaylist x n m) else None
  | [PaTags l] =>
    if nm name "TagTypes.disable" then Some (PTagTypesDisable l)
    else if nm name "TagTypes.enable" then Some (PTagTypesEnable l) else None
  | [PaStr x; PaStr y; PaStr z] => if nm name "StickerSet.new" then Some (PStickerSet x y z) else None
  | [PaStr x; PaStr y; PaNone; PaNone] => if nm name "StickerFind.new" then Some (PStickerFind x y None) else None
  | [PaStr x; PaStr y; PaEnum id; PaStr v] =>
    if nm name "StickerFind.new" then option_map (fun o => PStickerFind x y (Some (o, v))) (enum_sticker id) else None
  | _ => None
  end.

Definition parse_case (args : list bytes) : option predef :=
  match args with
  | name :: ps => match all_some (map parse_param ps) with
                  | Some l => parse_predef name l
                  | None => None
                  end
  | [] => None
  end.

Definition show_outcome (o : outcome) : bytes :=
  match o with Panic => b "PANIC" | Sent w => words [b "ok"; hex w] end.

Definition run_commands (kind : bytes) (args : list bytes) : bytes :=
  if beq kind (b "predef") then
    match parse_case args with
    | Some x => show_outcome (run_predef x)
    | None => b "bad-case"
    end
  else if beq kind (b "predef_oracle") then
    match args with
    | w :: rest =>
      match parse_case rest with
      | Some x =>
        match (if beq w (b "PANIC") then judge x None else judge x (Some (unhex w))) with
        | None => b "ok"
        | Some why => b "fail " ++ why
        end
      | None => b "bad-case"
      end
    | [] => b "bad-case"
    end
  else b "unknown-kind".

Definition is_commands_kind (k : bytes) : bool := existsb (beq k) [b "predef"; b "predef_oracle"].
