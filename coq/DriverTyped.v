(* DriverTyped.v — case kinds typed / typedlist (C12, C16) and the spec-side kinds of C16. *)
From MPD Require Import Bytes Tables Show ParserModel BuilderModel ConnModel FrameModel TagModel TypedModel TypedSpec.
Open Scope N_scope.

Definition t_find_tagv (ident : bytes) : option tagv :=
  find (fun v => beq (tagv_ident v) ident) all_tagv.

(* n:<Ident> or o:<hex> *)
Definition t_tag_of_spec (spec : bytes) : option tag :=
  match strip_prefix (b "n:") spec with
  | Some id => option_map Named (t_find_tagv id)
  | None =>
    match strip_prefix (b "o:") spec with
    | Some h => Some (Other (unhex h))
    | None => None
    end
  end.

Fixpoint all_some {A} (l : list (option A)) : option (list A) :=
  match l with
  | [] => Some []
  | Some x :: r => option_map (cons x) (all_some r)
  | None :: _ => None
  end.

Definition unit_commands : list bytes := map b [
  "ClearQueue"; "Next"; "Ping"; "Previous"; "Stop"; "ClearPlaylist"; "DeletePlaylist";
  "SaveQueueAsPlaylist"; "SetConsume"; "SetPause"; "SetRandom"; "SetRepeat"; "SubscribeToChannel";
  "UnsubscribeFromChannel"; "SetVolume"; "SetSingle"; "SetReplayGainMode"; "Crossfade"; "SeekTo";
  "Seek"; "Shuffle"; "Play"; "Delete"; "Move"; "RenamePlaylist"; "LoadPlaylist"; "AddToPlaylist";
  "RemoveFromPlaylist"; "MoveInPlaylist"; "SetBinaryLimit"; "TagTypes"; "StickerSet";
  "StickerDelete"; "SendChannelMessage" ]%string.

Definition simple_commands : list (bytes * tcmd) := [
  (b "Status", CStatus); (b "Stats", CStats); (b "ReplayGainStatus", CReplayGainStatus);
  (b "Count", CCount); (b "GetPlaylists", CGetPlaylists); (b "GetEnabledTagTypes", CGetEnabledTagTypes);
  (b "Add", CAdd); (b "Update", CUpdate); (b "Rescan", CRescan); (b "StickerGet", CStickerGet);
  (b "StickerList", CStickerList); (b "StickerFind", CStickerFind);
  (b "ReadChannelMessages", CReadChannelMessages); (b "ListChannels", CListChannels);
  (b "AlbumArt", CAlbumArt); (b "AlbumArtEmbedded", CAlbumArtEmbedded) ].

Fixpoint assoc {A} (l : list (bytes * A)) (k : bytes) : option A :=
  match l with
  | [] => None
  | (k', v) :: r => if beq k' k then Some v else assoc r k
  end.

(* None = a command this model does not cover (the song listings of C14) *)
Definition cmd_of (ident params : bytes) : option tcmd :=
  if existsb (beq ident) unit_commands then Some CUnit
  else match assoc simple_commands ident with
  | Some c => Some c
  | None =>
    if beq ident (b "CountGrouped") then option_map CCountGrouped (t_tag_of_spec params)
    else if beq ident (b "List") then
      match all_some (map t_tag_of_spec (split_on 43 params)) with
      | Some (p :: gs) => Some (CList p gs)
      | _ => None
      end
    else None
  end.

(* ---------- canonical printing ---------- *)

Definition show_dur (d : dur) : bytes := match d with Some n => show_N n | None => [126] end.
Definition t_show_tag (t : tag) : bytes :=
  match t with
  | Named v => tagv_ident v ++ [47] ++ hex (tag_name v)
  | Other s => b "Other/" ++ hex s
  end.
Definition t_show_pair (p : N * N) : bytes := show_N (fst p) ++ [47] ++ show_N (snd p).
Definition blist (l : list bytes) : bytes := b "[" ++ join [44] l ++ b "]".

Definition show_status (s : m_status) : bytes :=
  words [b "status";
    Show.kv "volume" (show_N (st_volume s)); Show.kv "state" (st_state s);
    Show.kv "repeat" (show_bool (st_repeat s)); Show.kv "random" (show_bool (st_random s));
    Show.kv "consume" (show_bool (st_consume s)); Show.kv "single" (st_single s);
    Show.kv "playlist" (show_N (st_playlist_version s)); Show.kv "playlistlength" (show_N (st_playlist_length s));
    Show.kv "song" (show_opt t_show_pair (st_current_song s)); Show.kv "nextsong" (show_opt t_show_pair (st_next_song s));
    Show.kv "elapsed" (show_opt show_dur (st_elapsed s)); Show.kv "duration" (show_opt show_dur (st_duration s));
    Show.kv "bitrate" (show_opt show_N (st_bitrate s)); Show.kv "xfade" (show_dur (st_crossfade s));
    Show.kv "updating_db" (show_opt show_N (st_update_job s));
    Show.kv "error" (show_opt hex (st_error s)); Show.kv "partition" (show_opt hex (st_partition s))].

Definition show_stats (s : m_stats) : bytes :=
  words [b "stats"; Show.kv "artists" (show_N (ss_artists s)); Show.kv "albums" (show_N (ss_albums s));
    Show.kv "songs" (show_N (ss_songs s)); Show.kv "uptime" (show_dur (ss_uptime s));
    Show.kv "playtime" (show_dur (ss_playtime s)); Show.kv "db_playtime" (show_dur (ss_db_playtime s));
    Show.kv "db_update" (show_N (ss_db_update s))].

(* insertion sort by key (byte-wise order = Rust's str order) *)
Fixpoint ins_sorted (x : bytes * bytes) (l : list (bytes * bytes)) : list (bytes * bytes) :=
  match l with
  | [] => [x]
  | y :: r => match bcmp (fst x) (fst y) with Gt => y :: ins_sorted x r | _ => x :: l end
  end.
Definition sort_map (l : list (bytes * bytes)) : list (bytes * bytes) := fold_right ins_sorted [] l.

Definition show_list (l : m_list) : tres bytes :=
  tmap (fun g =>
    words [b "list";
      Show.kv "grouped_by" (blist (map t_show_tag (l_groupings l)));
      Show.kv "raw" (blist (map (fun tv => t_show_tag (fst tv) ++ [58] ++ hex (snd tv)) (l_fields l)));
      Show.kv "values" (match l_groupings l with [] => blist (map hex (list_values l)) | _ => b "na" end);
      Show.kv "grouped" (blist (map (fun x => hex (fst x) ++ b "(" ++ join [59] (map hex (snd x)) ++ b ")") g))])
    (grouped_values l).

Definition show_val (v : tval) : tres bytes :=
  match v with
  | VUnit => TOk (b "unit")
  | VStatus s => TOk (show_status s)
  | VStats s => TOk (show_stats s)
  | VReplayGain m => TOk (words [b "replaygain"; Show.kv "mode" m])
  | VCount c => TOk (words [b "count"; Show.kv "songs" (show_N (fst c)); Show.kv "playtime" (show_dur (snd c))])
  | VCountGrouped l =>
    TOk (words [b "countgrouped";
                blist (map (fun x => hex (fst x) ++ [58] ++ show_N (fst (snd x)) ++ [58] ++ show_dur (snd (snd x))) l)])
  | VList l => show_list l
  | VPlaylists l => TOk (words [b "playlists"; blist (map (fun x => hex (fst x) ++ [64] ++ hex (snd x)) l)])
  | VTags l => TOk (words [b "tags"; blist (map t_show_tag l)])
  | VId n => TOk (words [b "id"; show_N n])
  | VSticker s => TOk (words [b "sticker"; hex s])
  | VStickerMap m => TOk (words [b "stickers"; blist (map (fun x => hex (fst x) ++ [61] ++ hex (snd x)) (sort_map m))])
  | VMessages l => TOk (words [b "messages"; blist (map (fun x => hex (fst x) ++ [58] ++ hex (snd x)) l)])
  | VChannels l => TOk (words [b "channels"; blist (map hex l)])
  | VAlbumArt None => TOk (b "albumart none")
  | VAlbumArt (Some (size, mime, data)) =>
    TOk (words [b "albumart"; Show.kv "size" (show_N size); Show.kv "mime" (show_opt hex mime); Show.kv "data" (hex data)])
  end.

Definition show_kind (k : ekind) : bytes :=
  match k with
  | KMissing f => words [b "err"; b "missing"; f]
  | KInvalid f => words [b "err"; b "invalid"; f]
  | KUnexpected e f => words [b "err"; b "unexpected"; e; f]
  | KOther => b "err other"
  | KUndetermined => b "undetermined"
  end.

Definition show_tres (r : tres bytes) : bytes :=
  match r with
  | TOk s => b "ok " ++ s
  | TErr k => show_kind k
  | TPanic => b "PANIC"
  end.

Fixpoint tsequence {A} (l : list (tres A)) : tres (list A) :=
  match l with
  | [] => TOk []
  | x :: r => tbind x (fun a => tmap (cons a) (tsequence r))
  end.

Definition split_spec (spec : bytes) : bytes * bytes :=
  match split_once 47 spec with
  | Some (i, p) => (i, p)
  | None => (spec, [45])
  end.

Definition run_typed (kind : bytes) (args : list bytes) : bytes :=
  if beq kind (b "typed") then
    match args with
    | [ident; params; wire] =>
      match cmd_of ident params with
      | None => b "skip-model"
      | Some c =>
        match ref_receive (unhex wire) TEof with
        | (Resp r, _) =>
          match r_frames r with
          | [] => b "errresp"
          | f :: _ => show_tres (tbind (response_model c f) show_val)
          end
        | _ => b "noresponse"
        end
      end
    | _ => b "bad-case"
    end
  else
    match args with
    | [shape; specs; wire] =>
      let cmds := map (fun s => let (i, p) := split_spec s in cmd_of i p)
                      (match specs with [45] => [] | _ => split_on 44 specs end) in
      match all_some cmds with
      | None => b "skip-model"
      | Some cs =>
        match ref_receive (unhex wire) TEof with
        | (Resp r, _) =>
          match r_error r with
          | Some _ => b "errresp"
          | None =>
            let sh := if beq shape (b "vec") then LVec else LTuple in
            (* an empty Vec sends nothing and converts an empty frame list *)
            let frames := match sh, cs with LVec, [] => [] | _, _ => r_frames r end in
            show_tres (tbind (responses_model sh cs frames) (fun vs =>
                       tmap (fun l => b "[" ++ join (b " | ") l ++ b "]") (tsequence (map show_val vs))))
          end
        | _ => b "noresponse"
        end
      end
    | _ => b "bad-case"
    end.

(* ---------- spec side as a driver kind: the Coq encoder of TypedSpec on an abstract status given
   as field=value tokens (numbers decimal, strings hex, pairs p/i, durations in ms); the check
   compares it with the hand-written Python mirror the oracle uses ---------- *)

Fixpoint tok_lookup (toks : list bytes) (k : bytes) : option bytes :=
  match toks with
  | [] => None
  | t :: r => match strip_prefix (k ++ [61]) t with Some v => Some v | None => tok_lookup r k end
  end.

Definition tok_num (toks : list bytes) (k : string) : option N := option_map read_N (tok_lookup toks (b k)).
Definition tok_str (toks : list bytes) (k : string) : option bytes := option_map unhex (tok_lookup toks (b k)).
Definition tok_bool (toks : list bytes) (k : string) : bool :=
  match tok_lookup toks (b k) with Some [49] => true | _ => false end.
Definition tok_pair (toks : list bytes) (k : string) : option (N * N) :=
  match tok_lookup toks (b k) with
  | Some v => match split_once 47 v with Some (p, i) => Some (read_N p, read_N i) | None => None end
  | None => None
  end.

Definition status_of_tokens (toks : list bytes) : status :=
  mkSt (tok_num toks "volume") (tok_bool toks "repeat") (tok_bool toks "random")
       (match tok_lookup toks (b "single") with
        | Some v => if beq v (b "1") then SingleOn else if beq v (b "oneshot") then SingleOneshot else SingleOff
        | None => SingleOff end)
       (tok_bool toks "consume") (tok_str toks "partition")
       (match tok_num toks "playlist" with Some n => n | None => 0 end)
       (match tok_num toks "playlistlength" with Some n => n | None => 0 end)
       (tok_str toks "mixrampdb")
       (match tok_lookup toks (b "state") with
        | Some v => if beq v (b "play") then SPlay else if beq v (b "pause") then SPause else SStop
        | None => SStop end)
       (tok_num toks "xfade") (tok_str toks "mixrampdelay") (tok_pair toks "song") (tok_str toks "time")
       (tok_num toks "elapsed") (tok_num toks "bitrate") (tok_num toks "duration") (tok_str toks "audio")
       (tok_num toks "updating_db") (tok_str toks "error") (tok_pair toks "nextsong").

Definition run_spec (kind : bytes) (args : list bytes) : bytes :=
  if beq kind (b "spec_status") then
    join [44] (map (fun p => hex (fst p) ++ [58] ++ hex (snd p)) (enc_status (status_of_tokens args)))
  else b "unknown-kind".

Definition is_typed_kind (k : bytes) : bool := existsb (beq k) [b "typed"; b "typedlist"].
Definition is_typed_spec_kind (k : bytes) : bool := existsb (beq k) [b "spec_status"].
