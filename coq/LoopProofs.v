(* LoopProofs.v — lemmas about the run-loop model. *)
From MPD Require Import Bytes Tables ParserModel BuilderModel ConnModel CommandModel LoopModel.
Open Scope N_scope.

Lemma no_write_in_events f bs : ~ In (OWrite bs) (events_of f).
Proof.
  unfold events_of. intros H. apply in_map_iff in H. destruct H as [x [Hx _]]. discriminate.
Qed.

Ltac destruct_matches H :=
  repeat match type of H with
         | context [match ?x with _ => _ end] => destruct x eqn:?
         | context [if ?x then _ else _] => destruct x eqn:?
         end.

(* every line the loop itself writes is idle, noidle, or the bytes of the request it was handed *)
Lemma cstep_writes : forall wf p i p' outs bs,
  cstep wf p i = (p', outs) -> In (OWrite bs) outs ->
  bs = idle_line \/ bs = noidle_line \/
  (exists q, (p = PCancel q \/ i = InCmd (Some q)) /\ bs = q_bytes q).
Proof.
  intros wf p i p' outs bs H Hin.
  unfold cstep in H.
  destruct_matches H; inversion H; subst; clear H;
    cbn in Hin; rewrite ?in_app_iff in Hin; cbn in Hin;
    repeat match goal with
           | H : _ \/ _ |- _ => destruct H
           | H : In (OWrite _) (events_of _) |- _ => exfalso; exact (no_write_in_events _ _ H)
           | H : False |- _ => contradiction
           | H : OWrite _ = OWrite _ |- _ => inversion H; subst; clear H
           | H : _ = OWrite _ |- _ => discriminate H
           end;
    try (left; reflexivity); try (right; left; reflexivity);
    right; right; eexists; (split; [ (left; reflexivity) || (right; reflexivity) | reflexivity]).
Qed.

(* ------------------------------------------------------------------------------------------ *)
(* C08: what a single resumption of the loop does with the responders it holds, with closing
   events, and how it behaves once the transport is dead *)

Definition holds (p : point) : list N :=
  match p with PCancel q => [q_id q] | PWait id => [id] | _ => [] end.

Definition taken (i : cin) : list N := match i with InCmd (Some q) => [q_id q] | _ => [] end.

Definition answered (outs : list cout) (id : N) : Prop :=
  (exists r, In (OReply id r) outs) \/ In (ODropResp id) outs.

(* the events the loop can be resumed by at a point *)
Definition enabled (p : point) (i : cin) : bool :=
  match i with
  | InRecv _ => wants_recv p
  | InCmd _ => wants_cmd p
  | InTimeout => match p with PWindow => true | _ => false end
  end.

(* no responder is ever forgotten: after a step it has been answered, dropped (its caller sees
   ConnectionClosed), or is still held by the loop *)
Lemma responders_accounted : forall wf p i p' outs id,
  enabled p i = true ->
  cstep wf p i = (p', outs) -> In id (holds p ++ taken i) ->
  answered outs id \/ In id (holds p').
Proof.
  intros wf p i p' outs id He H Hin.
  destruct p as [ | q0 | id0 | | ]; destruct i as [[r | | e] | [q1|] | ]; cbn in He; try discriminate He;
    cbn in H; destruct_matches H; inversion H; subst; clear H; cbn in Hin;
    repeat match goal with
           | H : _ \/ _ |- _ => destruct H
           | H : False |- _ => contradiction
           end; subst;
    try (right; cbn; left; reflexivity);
    left; unfold answered; cbn;
    first [ solve [left; eexists; rewrite ?in_app_iff; cbn; eauto 6] | solve [right; rewrite ?in_app_iff; cbn; eauto 6] ].
Qed.

Lemma exited_is_silent wf i : cstep wf PExited i = (PExited, []).
Proof. destruct i as [r | [q|] | ]; reflexivity. Qed.

Definition is_closed (o : cout) : bool := match o with OClosed _ => true | _ => false end.
Definition is_event (o : cout) : bool := match o with OEvent _ | OClosed _ => true | _ => false end.

Fixpoint no_event_after_closed (outs : list cout) : bool :=
  match outs with
  | [] => true
  | OClosed _ :: r => negb (existsb is_event r)
  | _ :: r => no_event_after_closed r
  end.

Lemma events_prefix f tail :
  no_event_after_closed (events_of f ++ tail) = no_event_after_closed tail /\
  filter is_closed (events_of f ++ tail) = filter is_closed tail /\
  existsb is_closed (events_of f ++ tail) = existsb is_closed tail.
Proof. unfold events_of. induction (changed_of f) as [|n ns IH]; cbn; auto. Qed.

(* a closing event is emitted only while leaving the loop, at most once, after every other event *)
Lemma closing_event_last : forall wf p i p' outs,
  cstep wf p i = (p', outs) ->
  (existsb is_closed outs = true -> p' = PExited) /\
  (length (filter is_closed outs) <= 1)%nat /\
  no_event_after_closed outs = true.
Proof.
  intros wf p i p' outs H. unfold cstep in H.
  destruct_matches H; inversion H; subst; clear H;
    repeat match goal with
           | |- context [events_of ?f ++ ?t] =>
             let H1 := fresh in let H2 := fresh in let H3 := fresh in
             destruct (events_prefix f t) as (H1 & H2 & H3); rewrite ?H1, ?H2, ?H3; clear H1 H2 H3
           end;
    cbn; repeat split; auto; try discriminate; try lia.
Qed.

(* ---------- once the transport is dead the loop leaves within a bounded number of steps ---------- *)

(* every receive completes at once with the same terminal outcome: end of stream, failing reads,
   or a connection poisoned by invalid data *)
Definition terminal (r : rres) : bool := match r with RResp _ => false | _ => true end.

Definition rank (p : point) : nat :=
  match p with PIdle => 1 | PCancel _ => 1 | PWait _ => 3 | PWindow => 2 | PExited => 0 end.
Definition mu (s : point * list request) : nat := 3 * length (snd s) + rank (fst s).

Inductive dstep (r : rres) (wf : bool) : point * list request -> point * list request -> Prop :=
  | DRecv p qs p' outs : wants_recv p = true -> cstep wf p (InRecv r) = (p', outs) -> dstep r wf (p, qs) (p', qs)
  | DCmd p q qs p' outs : wants_cmd p = true -> cstep wf p (InCmd (Some q)) = (p', outs) -> dstep r wf (p, q :: qs) (p', qs)
  | DClosed p p' outs : wants_cmd p = true -> cstep wf p (InCmd None) = (p', outs) -> dstep r wf (p, []) (p', [])
  | DTimeout p' outs : cstep wf PWindow InTimeout = (p', outs) -> dstep r wf (PWindow, []) (p', []).

Lemma dead_decreases r wf s s' : terminal r = true -> dstep r wf s s' -> (mu s' < mu s)%nat.
Proof.
  intros Ht H. destruct H as [p qs p' outs Hw H | p q qs p' outs Hw H | p p' outs Hw H | p' outs H];
    unfold mu; cbn [fst snd length].
  - destruct r as [x| |e]; [discriminate Ht | |];
      destruct p; cbn in Hw; try discriminate Hw; cbn in H; inversion H; subst; cbn; lia.
  - destruct p; cbn in Hw; try discriminate Hw; cbn in H; destruct wf; inversion H; subst; cbn; lia.
  - destruct p; cbn in Hw; try discriminate Hw; cbn in H; inversion H; subst; cbn; lia.
  - cbn in H; destruct wf; inversion H; subst; cbn; lia.
Qed.

(* while the loop has not left, some step is possible (the re-idle timer fires when no request is queued) *)
Lemma dead_progress r wf p qs : p <> PExited -> exists s', dstep r wf (p, qs) s'.
Proof.
  intros Hp. destruct p as [ | q0 | id0 | | ]; try contradiction.
  - destruct (cstep wf PIdle (InRecv r)) as [p' outs] eqn:E. eexists. eapply DRecv; [reflexivity | exact E].
  - destruct (cstep wf (PCancel q0) (InRecv r)) as [p' outs] eqn:E. eexists. eapply DRecv; [reflexivity | exact E].
  - destruct (cstep wf (PWait id0) (InRecv r)) as [p' outs] eqn:E. eexists. eapply DRecv; [reflexivity | exact E].
  - destruct qs as [|q qs].
    + destruct (cstep wf PWindow InTimeout) as [p' outs] eqn:E. eexists. eapply DTimeout. exact E.
    + destruct (cstep wf PWindow (InCmd (Some q))) as [p' outs] eqn:E. eexists. eapply DCmd; [reflexivity | exact E].
Qed.

Inductive druns (r : rres) (wf : bool) : nat -> point * list request -> point * list request -> Prop :=
  | DR0 s : druns r wf 0 s s
  | DRS n s s1 s2 : dstep r wf s s1 -> druns r wf n s1 s2 -> druns r wf (S n) s s2.

Theorem dead_bounded r wf n s s' : terminal r = true -> druns r wf n s s' -> (n + mu s' <= mu s)%nat.
Proof.
  intros Ht H. induction H as [s | n s s1 s2 Hs Hr IH]; [lia|].
  pose proof (dead_decreases r wf s s1 Ht Hs). lia.
Qed.

(* hence: a maximal run from a dead transport ends in PExited after at most 3*|queue| + 3 steps *)
Corollary dead_exits r wf n s s' : terminal r = true -> druns r wf n s s' ->
  (forall s'', ~ dstep r wf s' s'') -> fst s' = PExited /\ (n <= 3 * length (snd s) + 3)%nat.
Proof.
  intros Ht H Hmax. split.
  - destruct s' as [p qs]. cbn.
    assert (Hd : p = PExited \/ p <> PExited) by (destruct p; (left; reflexivity) || (right; discriminate)).
    destruct Hd as [Hd | Hd]; [exact Hd|].
    exfalso. destruct (dead_progress r wf p qs Hd) as [s'' Hs]. exact (Hmax s'' Hs).
  - pose proof (dead_bounded r wf n s s' Ht H). unfold mu in *. destruct (fst s); cbn in *; lia.
Qed.

(* events come only from the changed fields of the reply being handled *)
Lemma events_come_from_reply : forall wf p i p' outs n,
  cstep wf p i = (p', outs) -> In (OEvent n) outs ->
  exists r f, i = InRecv (RResp r) /\ single_frame r = Some (inl f) /\ In n (changed_of f).
Proof.
  intros wf p i p' outs n H Hin. unfold cstep in H.
  destruct_matches H; inversion H; subst; clear H;
    cbn in Hin; rewrite ?in_app_iff in Hin; cbn in Hin;
    repeat match goal with
           | H : _ \/ _ |- _ => destruct H
           | H : False |- _ => contradiction
           | H : _ = OEvent _ |- _ => discriminate H
           end;
    match goal with
    | H : In (OEvent n) (events_of ?f) |- _ =>
      unfold events_of in H; apply in_map_iff in H; destruct H as (x & Hx & Hi); inversion Hx; subst;
      eexists; exists f; repeat split; eauto
    end.
Qed.

(* ---------- with a dead transport every request the loop holds or takes is resolved ---------- *)

Inductive dstepo (r : rres) (wf : bool) : point * list request -> list cout -> list N -> point * list request -> Prop :=
  | DoRecv p qs p' outs : wants_recv p = true -> cstep wf p (InRecv r) = (p', outs) -> dstepo r wf (p, qs) outs [] (p', qs)
  | DoCmd p q qs p' outs : wants_cmd p = true -> cstep wf p (InCmd (Some q)) = (p', outs) -> dstepo r wf (p, q :: qs) outs [q_id q] (p', qs)
  | DoClosed p p' outs : wants_cmd p = true -> cstep wf p (InCmd None) = (p', outs) -> dstepo r wf (p, []) outs [] (p', [])
  | DoTimeout p' outs : cstep wf PWindow InTimeout = (p', outs) -> dstepo r wf (PWindow, []) outs [] (p', []).

(* a run, with everything the loop emitted and the ids of the requests it took from the queue *)
Inductive drunso (r : rres) (wf : bool) : point * list request -> list cout -> list N -> point * list request -> Prop :=
  | DoR0 s : drunso r wf s [] [] s
  | DoRS s outs1 tk1 s1 outs2 tk2 s2 :
      dstepo r wf s outs1 tk1 s1 -> drunso r wf s1 outs2 tk2 s2 -> drunso r wf s (outs1 ++ outs2) (tk1 ++ tk2) s2.

Lemma answered_app_l outs outs' id : answered outs id -> answered (outs ++ outs') id.
Proof.
  intros [[x H] | H]; [left; exists x | right]; apply in_or_app; left; exact H.
Qed.

Lemma answered_app_r outs outs' id : answered outs' id -> answered (outs ++ outs') id.
Proof.
  intros [[x H] | H]; [left; exists x | right]; apply in_or_app; right; exact H.
Qed.

Lemma dstepo_accounted r wf s outs tk s' id :
  dstepo r wf s outs tk s' -> In id (holds (fst s) ++ tk) -> answered outs id \/ In id (holds (fst s')).
Proof.
  intros H Hin.
  destruct H as [p qs p' o Hw H | p q qs p' o Hw H | p p' o Hw H | p' o H]; cbn [fst] in *.
  - eapply (responders_accounted wf p (InRecv r)); [exact Hw | exact H | cbn [taken]; exact Hin].
  - eapply (responders_accounted wf p (InCmd (Some q))); [exact Hw | exact H | cbn [taken]; exact Hin].
  - eapply (responders_accounted wf p (InCmd None)); [exact Hw | exact H | cbn [taken]; exact Hin].
  - eapply (responders_accounted wf PWindow InTimeout); [reflexivity | exact H | cbn [taken]; exact Hin].
Qed.

(* every responder held at the start and every request taken from the queue along the run has been
   answered or dropped by the time the loop has left *)
Theorem dead_all_resolved r wf s outs tk s' :
  drunso r wf s outs tk s' -> fst s' = PExited ->
  forall id, In id (holds (fst s) ++ tk) -> answered outs id.
Proof.
  intros H. induction H as [s | s outs1 tk1 s1 outs2 tk2 s2 Hs Hr IH]; intros Hex id Hin.
  - rewrite Hex in Hin. cbn in Hin. contradiction.
  - rewrite app_assoc in Hin. apply in_app_or in Hin. destruct Hin as [Hin | Hin].
    + destruct (dstepo_accounted r wf s outs1 tk1 s1 id Hs Hin) as [Ha | Hh].
      * apply answered_app_l. exact Ha.
      * apply answered_app_r. apply IH; [exact Hex | apply in_or_app; left; exact Hh].
    + apply answered_app_r. apply IH; [exact Hex | apply in_or_app; right; exact Hin].
Qed.

(* the queue only shrinks from the front: what was taken is a prefix of what was queued *)
Lemma drunso_queue r wf s outs tk s' :
  drunso r wf s outs tk s' -> exists taken_reqs, snd s = taken_reqs ++ snd s' /\ tk = map q_id taken_reqs.
Proof.
  intros H. induction H as [s | s outs1 tk1 s1 outs2 tk2 s2 Hs Hr IH].
  - exists []. split; reflexivity.
  - destruct IH as (t2 & Hq & Ht).
    destruct Hs as [p qs p' o Hw H | p q qs p' o Hw H | p p' o Hw H | p' o H]; cbn [snd] in *.
    + exists t2. split; [exact Hq | exact Ht].
    + exists (q :: t2). split; [rewrite Hq; reflexivity | cbn; rewrite Ht; reflexivity].
    + exists t2. split; [exact Hq | exact Ht].
    + exists t2. split; [exact Hq | exact Ht].
Qed.
