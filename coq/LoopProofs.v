(* LoopProofs.v — lemmas about the run-loop model. *)
From MPD Require Import Bytes Tables ParserModel BuilderModel ConnModel CommandModel LoopModel.
Open Scope N_scope.

Lemma no_write_in_events f bs : ~ In (OWrite bs) (events_of f).
Proof.
  unfold events_of. intros H. apply in_map_iff in H. destruct H as [x [Hx _]]. discriminate.
Qed.

Ltac destruct_matches H :=
  repeat match type of H with
         | context [match ?x with _ => _ end] => destruct x eqn:?
         | context [if ?x then _ else _] => destruct x eqn:?
         end.

(* every line the loop itself writes is idle, noidle, or the bytes of the request it was handed *)
Lemma cstep_writes : forall wf p i p' outs bs,
  cstep wf p i = (p', outs) -> In (OWrite bs) outs ->
  bs = idle_line \/ bs = noidle_line \/
  (exists q, (p = PCancel q \/ i = InCmd (Some q)) /\ bs = q_bytes q).
Proof.
  intros wf p i p' outs bs H Hin.
  unfold cstep in H.
  destruct_matches H; inversion H; subst; clear H;
    cbn in Hin; rewrite ?in_app_iff in Hin; cbn in Hin;
    repeat match goal with
           | H : _ \/ _ |- _ => destruct H
           | H : In (OWrite _) (events_of _) |- _ => exfalso; exact (no_write_in_events _ _ H)
           | H : False |- _ => contradiction
           | H : OWrite _ = OWrite _ |- _ => inversion H; subst; clear H
           | H : _ = OWrite _ |- _ => discriminate H
           end;
    try (left; reflexivity); try (right; left; reflexivity);
    right; right; eexists; (split; [ (left; reflexivity) || (right; reflexivity) | reflexivity]).
Qed.
