(* ParserProofs.v — streaming parsers are prefix-stable: a verdict reached on a prefix of the
   stream (Ok / Error / Failure) is the verdict on every extension.  Closure of that property
   under every nom combinator used by parser.rs, hence for the whole grammar. *)
From Coq Require Import ZifyBool ZifyN ZifyNat.
From MPD Require Import Bytes Tables ParserModel.
Open Scope N_scope.

Definition good {A} (p : parser A) : Prop :=
  forall a,
    (forall n v, p a = ROk n v -> (n <= length a)%nat /\ forall x, p (a ++ x) = ROk n v) /\
    (p a = RError -> forall x, p (a ++ x) = RError) /\
    (p a = RFailure -> forall x, p (a ++ x) = RFailure).

(* consumes at least one byte on success *)
Definition pos {A} (p : parser A) : Prop := forall a n v, p a = ROk n v -> (1 <= n)%nat.

Lemma firstn_app_le {A} n (a x : list A) : (n <= length a)%nat -> firstn n (a ++ x) = firstn n a.
Proof.
  intros H. rewrite firstn_app. replace (n - length a)%nat with O by lia. simpl. apply app_nil_r.
Qed.

Lemma skipn_app_le {A} n (a x : list A) : (n <= length a)%nat -> skipn n (a ++ x) = skipn n a ++ x.
Proof.
  intros H. rewrite skipn_app. replace (n - length a)%nat with O by lia. reflexivity.
Qed.

(* ---------- primitives ---------- *)

Lemma good_tag t : good (p_tag t).
Proof.
  induction t as [|c t IH]; intros a.
  - simpl. repeat split; try discriminate. + inversion H; lia. + inversion H; subst. reflexivity.
  - destruct a as [|d a]; simpl.
    + repeat split; discriminate.
    + destruct (c =? d); [|repeat split; try discriminate; reflexivity].
      destruct (IH a) as (I1 & I2 & I3).
      destruct (p_tag t a) as [n v| | |] eqn:E.
      * destruct (I1 n v eq_refl) as [L S]. repeat split; try discriminate.
        -- inversion H; subst. simpl. lia.
        -- intros x. inversion H; subst. rewrite S. reflexivity.
      * repeat split; discriminate.
      * repeat split; try discriminate. intros _ x. rewrite (I2 eq_refl x). reflexivity.
      * repeat split; try discriminate. intros _ x. rewrite (I3 eq_refl x). reflexivity.
Qed.

Lemma span_len_app p a n x : span_len p a = Some n -> (n < length a)%nat /\ span_len p (a ++ x) = Some n.
Proof.
  revert n; induction a as [|c a IH]; simpl; intros n H; [discriminate|].
  destruct (p c).
  - destruct (span_len p a) as [m|] eqn:E; simpl in H; [|discriminate]. inversion H; subst.
    destruct (IH m eq_refl) as [L S]. rewrite S. simpl. split; [lia | reflexivity].
  - inversion H; subst. split; [lia | reflexivity].
Qed.

Lemma good_take_while p : good (p_take_while p).
Proof.
  intros a. unfold p_take_while. destruct (span_len p a) as [m|] eqn:E; repeat split; try discriminate.
  - inversion H; subst. apply (span_len_app p a n []) in E. lia.
  - intros x. inversion H; subst. destruct (span_len_app p a n x E) as [L S]. rewrite S.
    rewrite firstn_app_le by lia. reflexivity.
Qed.

Lemma good_take_while1 p : good (p_take_while1 p).
Proof.
  intros a. unfold p_take_while1. destruct (span_len p a) as [m|] eqn:E; [|repeat split; discriminate].
  destruct (span_len_app p a m [] E) as [L _].
  destruct m as [|m]; repeat split; try discriminate.
  - intros _ x. destruct (span_len_app p a 0 x E) as [_ S]. rewrite S. reflexivity.
  - inversion H; subst. lia.
  - intros x. inversion H; subst. destruct (span_len_app p a (S m) x E) as [_ S]. rewrite S.
    rewrite firstn_app_le by lia. reflexivity.
Qed.

Lemma pos_take_while1 p : pos (p_take_while1 p).
Proof.
  intros a n v. unfold p_take_while1. destruct (span_len p a) as [[|m]|]; try discriminate.
  intros H. inversion H. lia.
Qed.

Lemma good_take n : good (p_take n).
Proof.
  intros a. unfold p_take. destruct (N.of_nat (length a) <? n) eqn:E; repeat split; try discriminate.
  - inversion H; subst. lia.
  - intros x. inversion H; subst. rewrite app_length.
    assert (E2 : (N.of_nat (length a + length x) <? n) = false) by lia. rewrite E2.
    rewrite firstn_app_le by lia. reflexivity.
Qed.

Lemma good_char c : good (p_char c).
Proof.
  intros a. unfold p_char. destruct a as [|x a]; [repeat split; discriminate|]. simpl.
  destruct (x =? c); repeat split; try discriminate; try reflexivity.
  - inversion H; subst. simpl. lia.
  - intros y. exact H.
Qed.

Lemma pos_char c : pos (p_char c).
Proof. intros a n v. unfold p_char. destruct a as [|x a]; [discriminate|]. destruct (x =? c); [|discriminate]. intros H; inversion H; lia. Qed.

Lemma pos_tag c t : pos (p_tag (c :: t)).
Proof.
  intros a n v. simpl. destruct a as [|d a]; [discriminate|]. destruct (c =? d); [|discriminate].
  destruct (p_tag t a); try discriminate. intros H; inversion H; lia.
Qed.

Lemma good_ret {A} (v : A) : good (p_ret v).
Proof. intros a. unfold p_ret. repeat split; try discriminate. - inversion H; lia. - inversion H; reflexivity. Qed.

(* ---------- combinators ---------- *)

Lemma good_bind {A B} (p : parser A) (f : A -> parser B) :
  good p -> (forall v, good (f v)) -> good (p_bind p f).
Proof.
  intros Gp Gf a. unfold p_bind. destruct (Gp a) as (P1 & P2 & P3).
  destruct (p a) as [n v| | |] eqn:E.
  - destruct (P1 n v eq_refl) as [L S]. destruct (Gf v (skipn n a)) as (F1 & F2 & F3).
    assert (LS : length (skipn n a) = (length a - n)%nat) by apply skipn_length.
    destruct (f v (skipn n a)) as [m w| | |] eqn:Ef.
    + destruct (F1 m w eq_refl) as [L2 S2]. repeat split; try discriminate.
      * inversion H; subst. lia.
      * intros x. inversion H; subst. rewrite S, skipn_app_le by lia. rewrite S2. reflexivity.
    + repeat split; discriminate.
    + repeat split; try discriminate. intros _ x. rewrite S, skipn_app_le by lia. rewrite (F2 eq_refl x). reflexivity.
    + repeat split; try discriminate. intros _ x. rewrite S, skipn_app_le by lia. rewrite (F3 eq_refl x). reflexivity.
  - repeat split; discriminate.
  - repeat split; try discriminate. intros _ x. rewrite (P2 eq_refl x). reflexivity.
  - repeat split; try discriminate. intros _ x. rewrite (P3 eq_refl x). reflexivity.
Qed.

Lemma pos_bind_l {A B} (p : parser A) (f : A -> parser B) : pos p -> pos (p_bind p f).
Proof.
  intros Pp a n v. unfold p_bind. destruct (p a) as [m w| | |] eqn:E; try discriminate.
  destruct (f w (skipn m a)); try discriminate. intros H; inversion H; subst. specialize (Pp a m w E). lia.
Qed.

Lemma good_map_res {A B} (p : parser A) (f : A -> option B) : good p -> good (p_map_res p f).
Proof.
  intros Gp a. unfold p_map_res. destruct (Gp a) as (P1 & P2 & P3).
  destruct (p a) as [n v| | |] eqn:E.
  - destruct (P1 n v eq_refl) as [L S]. destruct (f v) as [w|] eqn:Ef; repeat split; try discriminate.
    + inversion H; subst. lia.
    + intros x. inversion H; subst. rewrite S, Ef. reflexivity.
    + intros _ x. rewrite S, Ef. reflexivity.
  - repeat split; discriminate.
  - repeat split; try discriminate. intros _ x. rewrite (P2 eq_refl x). reflexivity.
  - repeat split; try discriminate. intros _ x. rewrite (P3 eq_refl x). reflexivity.
Qed.

Lemma pos_map_res {A B} (p : parser A) (f : A -> option B) : pos p -> pos (p_map_res p f).
Proof.
  intros Pp a n v. unfold p_map_res. destruct (p a) as [m w| | |] eqn:E; try discriminate.
  destruct (f w); try discriminate. intros H; inversion H; subst. exact (Pp a n w E).
Qed.

Lemma good_map {A B} (p : parser A) (f : A -> B) : good p -> good (p_map p f).
Proof. intros G. apply good_map_res. exact G. Qed.

Lemma pos_map {A B} (p : parser A) (f : A -> B) : pos p -> pos (p_map p f).
Proof. intros G. apply pos_map_res. exact G. Qed.

Lemma good_opt {A} (p : parser A) : good p -> good (p_opt p).
Proof.
  intros Gp a. unfold p_opt. destruct (Gp a) as (P1 & P2 & P3).
  destruct (p a) as [n v| | |] eqn:E.
  - destruct (P1 n v eq_refl) as [L S]. repeat split; try discriminate.
    + inversion H; subst. lia.
    + intros x. inversion H; subst. rewrite S. reflexivity.
  - repeat split; discriminate.
  - repeat split; try discriminate.
    + inversion H; lia.
    + intros x. inversion H; subst. rewrite (P2 eq_refl x). reflexivity.
  - repeat split; try discriminate. intros _ x. rewrite (P3 eq_refl x). reflexivity.
Qed.

Lemma good_cut {A} (p : parser A) : good p -> good (p_cut p).
Proof.
  intros Gp a. unfold p_cut. destruct (Gp a) as (P1 & P2 & P3).
  destruct (p a) as [n v| | |] eqn:E.
  - destruct (P1 n v eq_refl) as [L S]. repeat split; try discriminate.
    + inversion H; subst. lia.
    + intros x. inversion H; subst. rewrite S. reflexivity.
  - repeat split; discriminate.
  - repeat split; try discriminate. intros _ x. rewrite (P2 eq_refl x). reflexivity.
  - repeat split; try discriminate. intros _ x. rewrite (P3 eq_refl x). reflexivity.
Qed.

Lemma good_alt {A} (p q : parser A) : good p -> good q -> good (p_alt p q).
Proof.
  intros Gp Gq a. unfold p_alt. destruct (Gp a) as (P1 & P2 & P3). destruct (Gq a) as (Q1 & Q2 & Q3).
  destruct (p a) as [n v| | |] eqn:E.
  - destruct (P1 n v eq_refl) as [L S]. repeat split; try discriminate.
    + inversion H; subst. lia.
    + intros x. inversion H; subst. rewrite S. reflexivity.
  - repeat split; discriminate.
  - repeat split.
    + apply (Q1 n v H).
    + intros x. rewrite (P2 eq_refl x). apply (Q1 n v H).
    + intros H x. rewrite (P2 eq_refl x). apply (Q2 H).
    + intros H x. rewrite (P2 eq_refl x). apply (Q3 H).
  - repeat split; try discriminate. intros _ x. rewrite (P3 eq_refl x). reflexivity.
Qed.

Lemma pos_alt {A} (p q : parser A) : pos p -> pos q -> pos (p_alt p q).
Proof.
  intros Pp Pq a n v. unfold p_alt. destruct (p a) as [m w| | |] eqn:E; try discriminate.
  - intros H; inversion H; subst. exact (Pp a n v E).
  - apply Pq.
Qed.

(* ---------- the grammar ---------- *)

Ltac good_tac :=
  repeat first
    [ apply good_cut | apply good_opt | apply good_map | apply good_map_res | apply good_alt
    | apply good_bind; [|intro]
    | apply good_tag | apply good_take_while1 | apply good_take_while | apply good_take
    | apply good_char | apply good_ret ].

Lemma good_number bits : good (p_number bits).
Proof. unfold p_number. good_tac. Qed.

Lemma good_greeting : good p_greeting.
Proof. unfold p_greeting, p_newline. good_tac. Qed.

Lemma good_parse_component : good parse_component.
Proof.
  unfold parse_component, p_error, p_binary, p_binary_prefix, p_key_value, p_field_value,
    p_code_and_index, p_current_command, p_number, p_newline.
  good_tac.
Qed.

Lemma pos_parse_component : pos parse_component.
Proof.
  unfold parse_component.
  repeat apply pos_alt.
  - apply pos_map. apply pos_tag.
  - apply pos_map. apply pos_tag.
  - unfold p_error. apply pos_bind_l. apply pos_tag.
  - unfold p_binary. apply pos_bind_l. unfold p_binary_prefix. apply pos_bind_l. apply pos_tag.
  - unfold p_key_value. apply pos_bind_l. apply pos_map_res. apply pos_take_while1.
Qed.

Lemma pos_greeting : pos p_greeting.
Proof. unfold p_greeting. apply pos_bind_l. apply pos_tag. Qed.

(* the three facts the connection layer uses *)
Lemma parse_ok_stable a n c :
  parse_component a = ROk n c -> (1 <= n <= length a)%nat /\ forall x, parse_component (a ++ x) = ROk n c.
Proof.
  intros H. destruct (good_parse_component a) as (G & _). destruct (G n c H) as [L S].
  pose proof (pos_parse_component a n c H). split; [lia | exact S].
Qed.

Lemma parse_invalid_stable a :
  parse_component a = RError \/ parse_component a = RFailure ->
  forall x, parse_component (a ++ x) = RError \/ parse_component (a ++ x) = RFailure.
Proof.
  intros H x. destruct (good_parse_component a) as (_ & G2 & G3).
  destruct H as [H|H]; [left; apply G2 | right; apply G3]; exact H.
Qed.
