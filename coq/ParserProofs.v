From MPD Require Import Bytes Tables ParserModel.
