(* CallerModel.v — the caller-side code of mpd_client/src/client/mod.rs that sits on top of
   do_send: Client::command, Client::command_list with the typed lists of
   commands/command_list.rs, and Client::album_art (the offset loop).  Each caller is a small state
   machine: it holds at most one outstanding request and reacts to that request's result. *)
From MPD Require Import Bytes Tables ParserModel BuilderModel CommandModel LoopModel.
Open Scope N_scope.

(* Frame::get on the parsed field list: first match *)
Fixpoint fget (k : bytes) (l : list (bytes * bytes)) : option bytes :=
  match l with
  | [] => None
  | (k', v) :: r => if beq k k' then Some v else fget k r
  end.

(* ---------- the typed commands the replayer instantiates (harness: enum Any) ---------- *)

(* AlbumArt::from_frame: None = no binary; Some (Some ..) decoded; Some None = typed error *)
Definition art_decode (f : frame) : option (option (N * option bytes * bytes)) :=
  match f_binary f with
  | None => None
  | Some data =>
    Some match fget (b "size") (f_fields f) with
         | None => None
         | Some v => match parse_uint 64 v with
                     | Some n => Some (n, fget (b "type") (f_fields f), data)
                     | None => None
                     end
         end
  end.


(* the checksum the replayer prints for a picture chunk decoded inside a typed list *)
Definition data_sum (d : bytes) : N := fold_left (fun a x => (a * 31 + x) mod 4294967296) d (N.of_nat (length d)).

Inductive anyc := AUpd (uri : bytes) | AResc (uri : bytes) | AStop | AArt (uri : bytes).

(* the raw command line (without LF); None = Command::argument panics (LF / NUL in the string) *)
Definition any_line (c : anyc) : option bytes :=
  match c with
  | AUpd u => match add_str (b "update") u with (None, l) => Some l | _ => None end
  | AResc u => match add_str (b "rescan") u with (None, l) => Some l | _ => None end
  | AStop => Some (b "stop")
  | AArt u => match add_str (b "albumart") u with (None, l) => Some (l ++ [SP] ++ render_dec 0) | _ => None end
  end.

(* Command::response: None = TypedResponseError; Some None = unit reply; Some (Some n) = job id *)
Definition any_response (c : anyc) (f : frame) : option (option N) :=
  match c with
  | AStop => Some None
  | AArt _ => match art_decode f with
              | None => Some None                                   (* no binary part: no picture *)
              | Some (Some (_, _, data)) => Some (Some (data_sum data))
              | Some None => None                                   (* binary without a size: typed error *)
              end
  | _ => match fget (b "updating_db") (f_fields f) with
         | None => None
         | Some v => match parse_uint 64 v with Some n => Some (Some n) | None => None end
         end
  end.

Inductive typed_result :=
  | TROk (vals : list (option N))
  | TRErr (r : cmd_result).         (* CRTyped for a typed-response error *)

(* impl CommandList for Vec<C>: one frame per command or an error; first decode error wins *)
Fixpoint zip_decode (cmds : list anyc) (frames : list frame) : option (list (option N)) :=
  match cmds, frames with
  | [], _ => Some []
  | c :: cs, f :: fs =>
    match any_response c f with
    | None => None
    | Some v => option_map (cons v) (zip_decode cs fs)
    end
  | _ :: _, [] => None
  end.

Definition vec_responses (cmds : list anyc) (frames : list frame) : typed_result :=
  if negb (Nat.eqb (length cmds) (length frames)) then TRErr CRTyped
  else match zip_decode cmds frames with Some l => TROk l | None => TRErr CRTyped end.

(* impl_command_list_tuple!: the i-th response is decoded from the next frame of the iterator —
   positions come from the macro's index lists (Tables.tuple_impls); a missing frame is an error,
   surplus frames are ignored *)
Definition tuple_responses (cmds : list anyc) (frames : list frame) : typed_result :=
  match nth_error tuple_impls (length cmds - 1) with
  | None => TRErr CRPanic
  | Some idxs =>
    let picked := map (fun i => nth_error cmds i) idxs in
    (fix go (ps : list (option anyc)) (fs : list frame) : typed_result :=
       match ps with
       | [] => TROk []
       | None :: _ => TRErr CRPanic
       | Some c :: ps' =>
         match fs with
         | [] => TRErr CRTyped
         | f :: fs' =>
           match any_response c f with
           | None => TRErr CRTyped
           | Some v => match go ps' fs' with TROk l => TROk (v :: l) | e => e end
           end
         end
       end) picked frames
  end.

(* Client::command_list: what the typed list puts on the wire.  An empty Vec sends nothing
   (command_list() = None) and its result is the empty vector. *)
Inductive list_start := LSNothing | LSRequest (bs : bytes) | LSPanic.

Fixpoint all_lines (cmds : list anyc) : option (list bytes) :=
  match cmds with
  | [] => Some []
  | c :: r => match any_line c, all_lines r with
              | Some l, Some ls => Some (l :: ls)
              | _, _ => None
              end
  end.

Definition typed_list_start (cmds : list anyc) : list_start :=
  match cmds with
  | [] => LSNothing
  | _ => match all_lines cmds with
         | Some ls => LSRequest (render_list ls)
         | None => LSPanic
         end
  end.

(* ---------- Client::album_art ---------- *)

Inductive art_phase := ATryEmbedded | ATryFile | ALoop (embedded : bool).

Record art_state := mkArt {
  a_uri : bytes; a_phase : art_phase; a_out : bytes; a_size : N; a_mime : option bytes }.

Inductive art_final :=
  | ArtNone
  | ArtSome (data : bytes) (mime : option bytes)
  | ArtErr (r : cmd_result).

Definition art_start (uri : bytes) : art_state := mkArt uri ATryEmbedded [] 0 None.

(* the request issued at the current phase (command line without LF); None = argument() panics *)
Definition art_request (st : art_state) : option bytes :=
  let word := match a_phase st with
              | ATryEmbedded | ALoop true => b "readpicture"
              | ATryFile | ALoop false => b "albumart"
              end in
  let off := match a_phase st with ALoop _ => N.of_nat (length (a_out st)) | _ => 0 end in
  match add_str word (a_uri st) with
  | (None, l) => Some (l ++ [SP] ++ render_dec off)
  | _ => None
  end.

(* while out.len() < expected_size *)
Definition art_continue (st : art_state) : art_state + art_final :=
  if N.of_nat (length (a_out st)) <? a_size st then inl st
  else inr (ArtSome (a_out st) (a_mime st)).

(* the result of the outstanding request arrives (raw_command's view of the reply) *)
Definition art_step (st : art_state) (r : cmd_result) : art_state + art_final :=
  let decoded :=
    match r with
    | CROk (f :: _) => match art_decode f with
                       | None => inl None
                       | Some (Some x) => inl (Some x)
                       | Some None => inr CRTyped
                       end
    | CROk [] => inr CRPanic
    | other => inr other
    end in
  match a_phase st with
  | ATryEmbedded =>
    match decoded with
    | inl (Some (size, mime, data)) =>
      art_continue (mkArt (a_uri st) (ALoop true) data size mime)
    | inl None => inl (mkArt (a_uri st) ATryFile [] 0 None)
    | inr (CRAck e fs) =>
      if e_code e =? album_art_fallback_code then inl (mkArt (a_uri st) ATryFile [] 0 None)
      else inr (ArtErr (CRAck e fs))
    | inr other => inr (ArtErr other)
    end
  | ATryFile =>
    match decoded with
    | inl (Some (size, _, data)) => art_continue (mkArt (a_uri st) (ALoop false) data size None)
    | inl None => inr ArtNone
    | inr e => inr (ArtErr e)
    end
  | ALoop emb =>
    match decoded with
    | inl (Some (_, _, data)) =>
      art_continue (mkArt (a_uri st) (ALoop emb) (a_out st ++ data) (a_size st) (a_mime st))
    | inl None => inr ArtNone
    | inr e => inr (ArtErr e)
    end
  end.
