(* ConnModel.v — mpd_protocol/src/connection.rs: connect / receive of the blocking and the
   asynchronous connection over a reader = list of chunks (the segmentation) then EOF or a
   persistent I/O error. *)
From MPD Require Import Bytes Tables ParserModel BuilderModel.
Open Scope N_scope.

Inductive tail_kind := TEof | TFail (kind : N).
Record reader := mkReader { chunks : list bytes; rtail : tail_kind }.

(* one read offering [space] bytes: Some error | data ([] = end of stream, or no space offered) *)
Definition read (space : nat) (r : reader) : option N * bytes * reader :=
  match chunks r with
  | [] => match rtail r with
          | TEof => (None, [], r)
          | TFail k => (Some k, [], r)
          end
  | c :: cs =>
    if Nat.leb (length c) space then (None, c, mkReader cs (rtail r))
    else (None, firstn space c, mkReader (skipn space c :: cs) (rtail r))
  end.

Inductive outcome :=
  | Resp (r : response)
  | CleanEof
  | ErrInvalid
  | ErrEof
  | ErrIo (kind : N)
  | Panic
  | OutOfFuel.

(* The buffer-space policy: the blocking connection offers cap - valid bytes and doubles cap when
   the buffer is full after a read; the async connection's BytesMut always has spare room. *)
Inductive policy := Blocking (cap : nat) | Async.

Definition space_of (p : policy) (valid : nat) : nat :=
  match p with
  | Blocking cap => cap - valid
  | Async => S valid + 4096     (* some positive amount; chunks larger than this are split *)
  end.

Definition after_read (p : policy) (valid : nat) : policy :=
  match p with
  | Blocking cap => if Nat.eqb valid cap then Blocking (cap * 2) else Blocking cap
  | Async => Async
  end.

(* slicing/split_off panic when more bytes are marked valid than the buffer holds *)
Definition overfull (p : policy) (valid : nat) : bool :=
  match p with Blocking cap => Nat.ltb cap valid | Async => false end.

(* c_state: the builder state parked between receive calls (mod.rs: ResponseFieldCache.1) —
   Initial after a complete response, the unfinished response after an error or a cancelled call *)
Record conn := mkConn { c_policy : policy; c_buf : bytes; c_state : bstate }.

Definition reader_bytes (r : reader) : nat := length (concat (chunks r)).

(* one receive call *)
Fixpoint recv_loop (fuel : nat) (p : policy) (st : bstate) (buf : bytes) (r : reader)
  : outcome * conn * reader :=
  if overfull p (length buf) then (Panic, mkConn p buf st, r) else
  match bparse_all st buf with
  | (st', rest, Complete resp) => (Resp resp, mkConn p rest st', r)
  | (st', rest, BInvalid) => (ErrInvalid, mkConn p rest st', r)
  | (st', rest, NeedMore) =>
    match fuel with
    | O => (OutOfFuel, mkConn p rest st', r)
    | S f =>
      match read (space_of p (length rest)) r with
      | (Some k, _, r') => (ErrIo k, mkConn p rest st', r')
      | (None, [], r') =>
        ((if in_progress st' || negb (beq rest []) then ErrEof else CleanEof), mkConn p rest st', r')
      | (None, data, r') =>
        let buf' := rest ++ data in
        recv_loop f (after_read p (length buf')) st' buf' r'
      end
    end
  end.

Definition receive (c : conn) (r : reader) : outcome * conn * reader :=
  recv_loop (S (reader_bytes r)) (c_policy c) (c_state c) (c_buf c) r.

Inductive connect_outcome :=
  | Connected (version : bytes) (c : conn)
  | ConnInvalid
  | ConnEof
  | ConnIo (kind : N)
  | ConnPanic
  | ConnOutOfFuel.

(* connect: read until the greeting parses; the bytes after it stay buffered (repair of D1) *)
Fixpoint connect_loop (fuel : nat) (p : policy) (buf : bytes) (r : reader) : connect_outcome * reader :=
  match fuel with
  | O => (ConnOutOfFuel, r)
  | S f =>
    if overfull p (length buf) then (ConnPanic, r) else
    match read (space_of p (length buf)) r with
    | (Some k, _, r') => (ConnIo k, r')
    | (None, [], r') => (ConnEof, r')
    | (None, data, r') =>
      let buf' := buf ++ data in
      let p' := after_read p (length buf') in
      match p_greeting buf' with
      | ROk n v => (Connected v (mkConn p' (skipn n buf') Initial), r')
      | RIncomplete => connect_loop f p' buf' r'
      | RError | RFailure => (ConnInvalid, r')
      end
    end
  end.

Definition connect (p : policy) (r : reader) : connect_outcome * reader :=
  connect_loop (S (reader_bytes r)) p [] r.

(* repeat receive until the first outcome that is not a response, then [extra] more calls
   (calls after an error must not panic either) *)
Fixpoint run (fuel extra : nat) (c : conn) (r : reader) : list outcome :=
  match fuel with
  | O => []
  | S f =>
    match receive c r with
    | (Resp x, c', r') => Resp x :: run f extra c' r'
    | (o, c', r') =>
      o :: match extra with O => [] | S e => run f e c' r' end
    end
  end.

(* ---------- the segmentation-free reference semantics ---------- *)

Definition ref_receive (all : bytes) (t : tail_kind) : outcome * bytes :=
  match bparse_all Initial all with
  | (_, rest, Complete resp) => (Resp resp, rest)
  | (_, rest, BInvalid) => (ErrInvalid, rest)
  | (st', rest, NeedMore) =>
    match t with
    | TFail k => (ErrIo k, rest)
    | TEof => ((if in_progress st' || negb (beq rest []) then ErrEof else CleanEof), rest)
    end
  end.

Fixpoint ref_run (fuel : nat) (all : bytes) (t : tail_kind) : list outcome :=
  match fuel with
  | O => []
  | S f =>
    match ref_receive all t with
    | (Resp x, rest) => Resp x :: ref_run f rest t
    | (o, _) => [o]
    end
  end.
