From Coq Require Import ZifyBool ZifyN ZifyNat.
From MPD Require Import Bytes FrameModel.
Open Scope N_scope.

Lemma find_abs s k : m_find s k = s_find (abs s) k.
Proof.
  induction s as [|[[k' v]|] r IH]; simpl; auto. destruct (beq k' k); auto.
Qed.

Lemma get_abs s k : fst (m_get s k) = fst (s_get (abs s) k) /\ abs (snd (m_get s k)) = snd (s_get (abs s) k).
Proof.
  induction s as [|[[k' v]|] r [IH1 IH2]]; simpl; auto.
  - destruct (beq k' k); simpl; auto.
    destruct (m_get r k) as [o r'], (s_get (abs r) k) as [o2 l2]. simpl in *. subst. auto.
  - destruct (m_get r k) as [o r']. simpl in *. auto.
Qed.

Lemma len_abs s : m_len s = length (abs s).
Proof.
  unfold m_len. induction s as [|[x|] r IH]; simpl; auto.
Qed.

Lemma next_abs s : fst (m_next s) = fst (s_next (abs s)) /\ abs (snd (m_next s)) = snd (s_next (abs s)).
Proof. induction s as [|[x|] r IH]; simpl; auto. Qed.

Lemma abs_app s t : abs (s ++ t) = abs s ++ abs t.
Proof. unfold abs. apply flat_map_app. Qed.

Lemma abs_rev s : abs (rev s) = rev (abs s).
Proof.
  induction s as [|o r IH]; [reflexivity|]. cbn [rev]. rewrite abs_app, IH.
  destruct o as [x|].
  - change (abs (Some x :: r)) with ([x] ++ abs r). rewrite rev_app_distr. reflexivity.
  - change (abs (None :: r)) with (abs r). change (abs [None]) with (@nil kv). apply app_nil_r.
Qed.

Lemma next_back_abs s :
  fst (m_next_back s) = fst (s_next_back (abs s)) /\ abs (snd (m_next_back s)) = snd (s_next_back (abs s)).
Proof.
  unfold m_next_back, s_next_back. destruct (next_abs (rev s)) as [H1 H2].
  destruct (m_next (rev s)) as [o r]. cbn [fst snd] in *. rewrite abs_rev in H1, H2.
  unfold s_next in *. rewrite (abs_rev r).
  destruct (rev (abs s)) as [|x l]; cbn [fst snd] in *; rewrite H2; auto.
Qed.

Lemma iter_abs ds : forall s, m_iter s ds = s_iter (abs s) ds.
Proof.
  induction ds as [|d r IH]; intros s; simpl; auto. destruct d.
  - destruct (next_abs s) as [H1 H2]. destruct (m_next s) as [o s'], (s_next (abs s)) as [o2 l2]. simpl in *.
    subst. rewrite IH. reflexivity.
  - destruct (next_back_abs s) as [H1 H2]. destruct (m_next_back s) as [o s'], (s_next_back (abs s)) as [o2 l2]. simpl in *.
    subst. rewrite IH. reflexivity.
  - apply IH.
Qed.

Lemma into_abs ds : forall s bin, m_into s bin ds = s_into (abs s) bin ds.
Proof.
  induction ds as [|d r IH]; intros s bin; simpl; auto. destruct d.
  - destruct (next_abs s) as [H1 H2]. destruct (m_next s) as [o s'], (s_next (abs s)) as [o2 l2]. simpl in *.
    subst. rewrite IH. reflexivity.
  - destruct (next_back_abs s) as [H1 H2]. destruct (m_next_back s) as [o s'], (s_next_back (abs s)) as [o2 l2]. simpl in *.
    subst. rewrite IH. reflexivity.
  - rewrite IH. reflexivity.
Qed.

(* refinement: every operation sequence on the slot vector behaves as on the ordered multimap *)
Theorem frame_refines ops : forall f, m_run f ops = s_run (abs (slots f)) (mbin f) ops.
Proof.
  induction ops as [|o r IH]; intros f; simpl; auto. destruct o; simpl.
  - rewrite find_abs, IH. reflexivity.
  - destruct (get_abs (slots f) k) as [H1 H2].
    destruct (m_get (slots f) k) as [v s'], (s_get (abs (slots f)) k) as [v2 l2]. simpl in *. subst.
    rewrite IH. reflexivity.
  - rewrite len_abs, IH. reflexivity.
  - rewrite len_abs, IH. reflexivity.
  - rewrite IH. reflexivity.
  - rewrite IH. reflexivity.
  - rewrite IH. reflexivity.
  - rewrite iter_abs, IH. reflexivity.
  - rewrite into_abs. reflexivity.
Qed.

(* the spec really is the ordered multimap of the property *)
Lemma s_find_first l k v : s_find l k = Some v <->
  exists l1 l2 k', l = l1 ++ (k', v) :: l2 /\ beq k' k = true /\ Forall (fun p => beq (fst p) k = false) l1.
Proof.
  induction l as [|[k' v'] r IH]; simpl.
  - split; [discriminate | intros (l1 & l2 & k' & H & _); destruct l1; discriminate].
  - destruct (beq k' k) eqn:E.
    + split.
      * intros H; inversion H; subst. exists [], r, k'. auto.
      * intros (l1 & l2 & k2 & H & B & F). destruct l1 as [|p l1]; simpl in H; inversion H; subst; [reflexivity|].
        inversion F; subst. simpl in *. congruence.
    + rewrite IH. split.
      * intros (l1 & l2 & k2 & -> & B & F). exists ((k', v') :: l1), l2, k2. repeat split; auto.
      * intros (l1 & l2 & k2 & H & B & F). destruct l1 as [|p l1]; simpl in H; inversion H; subst; [congruence|].
        inversion F; subst. exists l1, l2, k2. auto.
Qed.

Lemma s_get_removes_first l k :
  match s_get l k with
  | (Some v, l') => exists l1 l2 k', l = l1 ++ (k', v) :: l2 /\ l' = l1 ++ l2 /\ beq k' k = true /\
                                     Forall (fun p => beq (fst p) k = false) l1
  | (None, l') => l' = l /\ Forall (fun p => beq (fst p) k = false) l
  end.
Proof.
  induction l as [|[k' v'] r IH]; simpl; [auto|].
  destruct (beq k' k) eqn:E.
  - exists [], r, k'. auto.
  - destruct (s_get r k) as [[v|] l'].
    + destruct IH as (l1 & l2 & k2 & -> & -> & B & F). exists ((k', v') :: l1), l2, k2. repeat split; auto.
    + destruct IH as [-> F]. auto.
Qed.

(* iteration from both ends yields each remaining pair exactly once, in order *)
Lemma s_iter_front_all l : s_iter l (repeat Front (length l)) = map Some l.
Proof. induction l as [|x r IH]; simpl; [reflexivity|]. rewrite IH. reflexivity. Qed.

Lemma s_next_back_last l x : s_next_back (l ++ [x]) = (Some x, l).
Proof. unfold s_next_back. rewrite rev_app_distr. simpl. rewrite rev_involutive. reflexivity. Qed.

Lemma s_iter_back_all l : s_iter l (repeat Back (length l)) = map Some (rev l).
Proof.
  induction l as [|x r IH] using rev_ind; simpl; [reflexivity|].
  rewrite app_length. simpl. replace (length r + 1)%nat with (S (length r)) by lia. simpl.
  rewrite s_next_back_last, rev_app_distr. simpl. rewrite IH. reflexivity.
Qed.

Lemma s_iter_exhausted ds : s_iter [] ds = map (fun _ => None) (filter (fun d => match d with TakeBin => false | _ => true end) ds).
Proof. induction ds as [|d r IH]; simpl; [reflexivity|]. destruct d; simpl; rewrite ?IH; reflexivity. Qed.

(* ----- responses ----- *)
Section RespProofs.
  Context {F E : Type}.

  Lemma r_next_abs (it : @riter F E) :
    fst (r_next it) = fst (q_next (r_abs it)) /\ r_abs (snd (r_next it)) = snd (q_next (r_abs it)).
  Proof.
    destruct it as [fs e]. unfold r_next, r_abs, q_next. simpl. destruct fs as [|f r]; simpl; [|auto].
    destruct e; simpl; auto.
  Qed.

  Lemma r_next_back_abs (it : @riter F E) :
    fst (r_next_back it) = fst (q_next_back (r_abs it)) /\ r_abs (snd (r_next_back it)) = snd (q_next_back (r_abs it)).
  Proof.
    destruct it as [fs e]. unfold r_next_back, r_abs, q_next_back. simpl. destruct e as [e|]; simpl.
    - rewrite rev_app_distr. simpl. rewrite rev_involutive, app_nil_r. auto.
    - rewrite app_nil_r, <- map_rev. destruct (rev fs) as [|f r] eqn:R; simpl; [|].
      + apply (f_equal (@rev F)) in R. rewrite rev_involutive in R. subst. simpl. auto.
      + rewrite <- map_rev, app_nil_r. auto.
  Qed.

  Lemma r_size_abs (it : @riter F E) : r_size it = length (r_abs it).
  Proof. destruct it as [fs e]. unfold r_size, r_abs. simpl. rewrite app_length, map_length. destruct e; reflexivity. Qed.

  Theorem response_refines ds : forall it : @riter F E, r_drive it ds = q_drive (r_abs it) ds.
  Proof.
    induction ds as [|d r IH]; intros it; simpl; [reflexivity|]. rewrite r_size_abs. destruct d.
    - destruct (r_next_abs it) as [H1 H2]. destruct (r_next it) as [o it'], (q_next (r_abs it)) as [o2 l2].
      simpl in *. subst. rewrite IH. reflexivity.
    - destruct (r_next_back_abs it) as [H1 H2]. destruct (r_next_back it) as [o it'], (q_next_back (r_abs it)) as [o2 l2].
      simpl in *. subst. rewrite IH. reflexivity.
  Qed.
End RespProofs.
