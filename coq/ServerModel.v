(* ServerModel.v — SPEC side (trusted): a simulated MPD server implementing the session rules the
   loop properties are judged against (DESIGN.md "The run-loop model"), written from the MPD
   protocol reference:
     - while the server waits in [idle] the only legal request is [noidle] (anything else is a
       protocol violation; real MPD closes the connection);
     - [noidle] outside idle is ignored without a reply;
     - [idle] with pending changes is answered at once; a change while idling is answered with the
       [changed:] lines and OK;
     - a command list between command_list_ok_begin and command_list_end is executed as a batch:
       each successful command is followed by list_OK, the first failing one ends the reply with
       its ACK carrying the command's index.
   Ordinary commands are answered by a reply that identifies the request line (an echo server),
   plus the few commands the typed-list and album-art properties need. *)
From MPD Require Import Bytes Tables Show MpdTokenizer.
Open Scope N_scope.

Record sconf := mkSConf {
  sc_password : option bytes;                      (* None: every password is accepted *)
  sc_pic_emb : option (bytes * option bytes);      (* embedded picture and its MIME type *)
  sc_pic_file : option bytes;                      (* cover file *)
  sc_no_readpicture : bool;                        (* server predates readpicture *)
  sc_limit : N;                                    (* binary chunk limit (binarylimit) *)
  sc_limits : list N;                              (* if non-empty: the limit in force varies; the one used at offset o is the (o mod length)-th *)
  sc_file_ack : bool;                              (* no cover file: ACK 50 (true) or an empty reply (false) *)
  sc_rp_err : option N                             (* readpicture fails with this error code *)
}.

Record sstate := mkS {
  s_idle : bool;                       (* waiting in idle *)
  s_pending : list bytes;              (* changes not yet reported *)
  s_list : option (list bytes);        (* lines of a command list being received *)
  s_violated : bool;                   (* a request other than noidle arrived during idle *)
  s_reported : list bytes              (* ghost: every name written in a changed: line, in order *)
}.

Definition s0 : sstate := mkS false [] None false [].

Definition ok_line : bytes := b "OK" ++ [LF].
Definition list_ok_line : bytes := b "list_OK" ++ [LF].
Definition field_line (k v : bytes) : bytes := k ++ b ": " ++ v ++ [LF].
Definition ack_line (code idx : N) (cmd msg : bytes) : bytes :=
  b "ACK [" ++ render_dec code ++ b "@" ++ render_dec idx ++ b "] {" ++ cmd ++ b "} " ++ msg ++ [LF].

Definition changed_lines (names : list bytes) : bytes :=
  flat_map (fun n => field_line (b "changed") n) names.

Definition payload (n : nat) : bytes := map (fun i => N.of_nat i mod 251) (seq 0 n).

(* the header lines of a picture reply come in MPD's order, unless the song's URI asks for another one (a newer server, a proxy):
   "hdr1..." = type before size, "hdr2..." = a foreign line between size and type, "hdr3..." = a foreign line first *)
Definition hdr_variant (uri : bytes) : N :=
  if is_prefix (b "hdr1") uri then 1 else if is_prefix (b "hdr2") uri then 2 else if is_prefix (b "hdr3") uri then 3 else 0.

Definition picture_reply_v (v : N) (pic : bytes) (mime : option bytes) (limit off : N) : bytes :=
  let size := N.of_nat (length pic) in
  let chunk := firstn (N.to_nat (N.min limit (size - off))) (skipn (N.to_nat off) pic) in
  let sz := field_line (b "size") (render_dec size) in
  let ty := match mime with Some m => field_line (b "type") m | None => [] end in
  let extra := field_line (b "format") (b "x") in
  (if v =? 1 then ty ++ sz else if v =? 2 then sz ++ extra ++ ty else if v =? 3 then extra ++ sz ++ ty else sz ++ ty) ++
  b "binary: " ++ render_dec (N.of_nat (length chunk)) ++ [LF] ++ chunk ++ [LF].

Definition picture_reply (pic : bytes) (mime : option bytes) (limit off : N) : bytes := picture_reply_v 0 pic mime limit off.

Definition limit_at (cf : sconf) (off : N) : N :=
  match sc_limits cf with
  | [] => sc_limit cf
  | ls => nth (N.to_nat (off mod N.of_nat (length ls))) ls (sc_limit cf)
  end.

Definition all_digits (s : bytes) : bool := match s with [] => false | _ => forallb is_digit s end.

(* the arguments of [kv], pairwise, as field lines *)
Fixpoint kv_fields (args : list bytes) : bytes :=
  match args with
  | k :: v :: r => field_line k v ++ kv_fields r
  | _ => []
  end.

(* one command: inl body (to be followed by OK / list_OK) | inr ACK line *)
Definition exec_cmd (cf : sconf) (idx : N) (line : bytes) : bytes + bytes :=
  match mpd_tokenize (line ++ [LF]) with
  | None => inr (ack_line 5 idx [] (b "unknown command"))
  | Some [] => inr (ack_line 5 idx [] (b "No command given"))
  | Some (name :: args) =>
    if beq name (b "fail") then
      inr (ack_line (match args with c :: _ => dec_value c | [] => 50 end) idx name (b "boom"))
    else if beq name (b "pfail") then
      (* fails after it has already written part of its output: the client must drop that partial frame *)
      (* ... further arguments are key/value pairs it had written as well (lines that would mean something to the NEXT reply's reader) *)
      inr (field_line (b "partial") (match args with _ :: v :: _ => v | _ => b "x" end) ++ field_line (b "file") (b "a.flac") ++
           kv_fields (match args with _ :: _ :: r => r | _ => [] end) ++
           ack_line (match args with c :: _ => dec_value c | [] => 50 end) idx name (b "boom"))
    else if beq name (b "bin") then
      let n := match args with c :: _ => N.to_nat (dec_value c) | [] => O end in
      inl (b "binary: " ++ render_dec (N.of_nat n) ++ [LF] ++ payload n ++ [LF])
    else if beq name (b "kv") then
      (* key/value pairs chosen by the client come back as the fields of the reply, verbatim: replies whose KEYS differ from request
         to request on one connection (the same word in another letter case, a key that is a prefix of the one before) *)
      inl (kv_fields args)
    else if beq name (b "update") || beq name (b "rescan") then
      inl (field_line (b "updating_db") (match args with u :: _ => u | [] => b "1" end))
    else if beq name (b "stop") then inl []
    else if beq name (b "password") then
      match sc_password cf, args with
      | Some p, [q] => if beq p q then inl [] else inr (ack_line 3 idx name (b "incorrect password"))
      | _, _ => inl []
      end
    else if beq name (b "readpicture") || beq name (b "albumart") then
      (* a server of few words: for songs whose URI starts with "terse" the message text of every ACK is empty (legal: the text is free) *)
      let say (m : bytes) : bytes := match args with u :: _ => if is_prefix (b "terse") u then [] else m | [] => m end in
      if beq name (b "readpicture") && sc_no_readpicture cf
      then inr (ack_line 5 idx [] (say (b "unknown command ""readpicture""")))
      else if beq name (b "readpicture") && match sc_rp_err cf with Some _ => true | None => false end
      then inr (ack_line (match sc_rp_err cf with Some c => c | None => 0 end) idx name (say (b "err")))
      else
        match args with
        | [uri; off] =>
          if negb (all_digits off) then inr (ack_line 2 idx name (b "Integer expected")) else
          let o := dec_value off in
          if beq name (b "readpicture") then
            (* songs whose URI starts with "noemb" carry no embedded picture *)
            match (if is_prefix (b "noemb") uri then None else sc_pic_emb cf) with
            | None => inl []
            | Some (pic, mime) =>
              if N.of_nat (length pic) <? o then inr (ack_line 2 idx name (b "Bad file offset"))
              else inl (picture_reply_v (hdr_variant uri) pic mime (limit_at cf o) o)
            end
          else
            match sc_pic_file cf with
            | None => if sc_file_ack cf then inr (ack_line 50 idx name (say (b "No file exists"))) else inl []
            | Some pic =>
              if N.of_nat (length pic) <? o then inr (ack_line 2 idx name (b "Bad file offset"))
              else inl (picture_reply_v (hdr_variant uri) pic None (limit_at cf o) o)
            end
        | _ => inr (ack_line 2 idx name (b "wrong number of arguments"))
        end
    else inl (field_line (b "line") line)
  end.

Fixpoint exec_list (cf : sconf) (idx : N) (lines : list bytes) : bytes :=
  match lines with
  | [] => ok_line
  | l :: r =>
    match exec_cmd cf idx l with
    | inl body => body ++ list_ok_line ++ exec_list cf (idx + 1) r
    | inr ack => ack
    end
  end.

Definition flush_changes (st : sstate) : sstate * bytes :=
  (mkS false [] (s_list st) (s_violated st) (s_reported st ++ s_pending st),
   changed_lines (s_pending st) ++ ok_line).

(* the server reads one request line (without its LF) *)
Definition sline (cf : sconf) (st : sstate) (line : bytes) : sstate * bytes :=
  if s_idle st then
    if beq line noidle_word then flush_changes st
    else (mkS (s_idle st) (s_pending st) (s_list st) true (s_reported st), [])
  else
    match s_list st with
    | Some acc =>
      if beq line (removelast command_list_end)
      then (mkS false (s_pending st) None (s_violated st) (s_reported st), exec_list cf 0 acc)
      else (mkS false (s_pending st) (Some (acc ++ [line])) (s_violated st) (s_reported st), [])
    | None =>
      if beq line idle_word then
        match s_pending st with
        | [] => (mkS true [] None (s_violated st) (s_reported st), [])
        | _ => flush_changes st
        end
      else if beq line noidle_word then (st, [])
      else if beq line (removelast command_list_begin)
      then (mkS false (s_pending st) (Some []) (s_violated st) (s_reported st), [])
      else
        (st, match exec_cmd cf 0 line with
             | inl body => body ++ ok_line
             | inr ack => ack
             end)
    end.

(* a subsystem changes *)
Definition snotify (st : sstate) (name : bytes) : sstate * bytes :=
  let st' := mkS (s_idle st) (s_pending st ++ [name]) (s_list st) (s_violated st) (s_reported st) in
  if s_idle st then flush_changes st' else (st', []).
