(* LoopCancelProofs.v — cancellation changes nothing but the absence of the cancelled caller's result
   (definitions and statement: LoopCancel.v). *)
From Coq Require Import Lia.
From MPD Require Import Bytes Tables Show ParserModel BuilderModel Grammar ConnModel CommandModel MpdTokenizer
  LoopModel ServerModel CallerModel DriverConn DriverLoop LoopSpec LoopSpecProofs LoopRefine LoopRefineProofs LoopCancel.
Open Scope N_scope.

(* ---------- lists of callers ---------- *)

Lemma memN_in i c : memN i c = true <-> In i c.
Proof.
  unfold memN. rewrite existsb_exists. split.
  - intros (y & Hy & E). apply N.eqb_eq in E. subst. exact Hy.
  - intros H. exists i. split; [exact H|apply N.eqb_refl].
Qed.

Lemma memN_cons i j c : memN i (j :: c) = (i =? j) || memN i c.
Proof. reflexivity. Qed.

Lemma find_caller_filter c id cs :
  find_caller id (filter (live c) cs) = if memN id c then None else find_caller id cs.
Proof.
  induction cs as [|[i k] cs IH]; cbn [filter find_caller].
  - destruct (memN id c); reflexivity.
  - unfold live at 1. cbn [fst]. destruct (memN i c) eqn:Ei; cbn [negb].
    + rewrite IH. destruct (N.eqb_spec i id) as [->|_]; [rewrite Ei; reflexivity|reflexivity].
    + cbn [find_caller]. rewrite IH. destruct (N.eqb_spec i id) as [->|_]; [rewrite Ei; reflexivity|reflexivity].
Qed.

Lemma remove_filter_in c id cs : memN id c = true -> filter (live c) (remove_caller id cs) = filter (live c) cs.
Proof.
  intros H. induction cs as [|[i k] cs IH]; cbn [filter remove_caller]; [reflexivity|].
  destruct (N.eqb_spec i id) as [->|_].
  - unfold live at 2. cbn [fst]. rewrite H. reflexivity.
  - cbn [filter]. rewrite IH. reflexivity.
Qed.

Lemma remove_filter_out c id cs : memN id c = false -> remove_caller id (filter (live c) cs) = filter (live c) (remove_caller id cs).
Proof.
  intros H. induction cs as [|[i k] cs IH]; cbn [filter remove_caller]; [reflexivity|].
  destruct (N.eqb_spec i id) as [->|NE].
  - unfold live at 1. cbn [fst]. rewrite H. cbn [negb remove_caller]. rewrite N.eqb_refl. reflexivity.
  - cbn [filter]. destruct (live c (i, k)); cbn [remove_caller]; [|exact IH].
    destruct (N.eqb_spec i id) as [E|_]; [contradiction|]. rewrite IH. reflexivity.
Qed.

Lemma remove_absent id cs : ~ In id (map fst cs) -> remove_caller id cs = cs.
Proof.
  induction cs as [|[i k] cs IH]; cbn [remove_caller map fst In]; intros H; [reflexivity|].
  destruct (N.eqb_spec i id) as [->|_]; [exfalso; apply H; left; reflexivity|].
  rewrite IH; [reflexivity|]. intros K. apply H. right. exact K.
Qed.

Lemma live_cons id c e : live (id :: c) e = negb (fst e =? id) && live c e.
Proof. unfold live. rewrite memN_cons, Bool.negb_orb. reflexivity. Qed.

Lemma filter_no_id c id cs : ~ In id (map fst cs) -> filter (live (id :: c)) cs = filter (live c) cs.
Proof.
  induction cs as [|[j k] cs IH]; cbn [filter map fst In]; intros NI; [reflexivity|].
  rewrite live_cons. cbn [fst]. destruct (N.eqb_spec j id) as [->|NE]; [exfalso; apply NI; left; reflexivity|].
  cbn [negb andb]. rewrite IH; [reflexivity|]. intros K. apply NI. right. exact K.
Qed.

(* with distinct ids, removing the caller [id] is filtering by id *)
Lemma remove_is_filter c id cs : NoDup (map fst cs) ->
  remove_caller id (filter (live c) cs) = filter (live (id :: c)) cs.
Proof.
  induction cs as [|[i k] cs IH]; cbn [filter remove_caller map fst]; intros ND; [reflexivity|].
  inversion ND as [|? ? NI ND']; subst.
  rewrite live_cons. cbn [fst].
  destruct (live c (i, k)) eqn:Ei.
  - cbn [remove_caller]. destruct (N.eqb_spec i id) as [->|NE]; cbn [negb andb].
    + symmetry. apply filter_no_id. exact NI.
    + rewrite IH by exact ND'. reflexivity.
  - rewrite Bool.andb_false_r. apply IH. exact ND'.
Qed.

Lemma filter_snoc_live c (e : N * ckind) cs : memN (fst e) c = false -> filter (live c) (cs ++ [e]) = filter (live c) cs ++ [e].
Proof. intros H. rewrite filter_app. cbn [filter]. unfold live at 2. rewrite H. reflexivity. Qed.

Lemma remove_incl id cs : incl (map fst (remove_caller id cs)) (map fst cs).
Proof.
  induction cs as [|[i k] cs IH]; cbn [remove_caller map fst]; [apply incl_refl|].
  destruct (i =? id); [apply incl_tl, incl_refl|]. cbn [map fst].
  intros z [->|Hz]; [left; reflexivity|right; apply IH; exact Hz].
Qed.

Lemma remove_nodup id cs : NoDup (map fst cs) -> NoDup (map fst (remove_caller id cs)).
Proof.
  induction cs as [|[i k] cs IH]; cbn [remove_caller map fst]; intros ND; [constructor|].
  inversion ND as [|? ? NI ND']; subst. destruct (i =? id); [exact ND'|]. cbn [map fst].
  constructor; [|apply IH; exact ND']. intros K. apply NI. apply (remove_incl id cs). exact K.
Qed.

Lemma remove_forall (P : N * ckind -> Prop) id cs : Forall P cs -> Forall P (remove_caller id cs).
Proof.
  induction cs as [|[i k] cs IH]; cbn [remove_caller]; intros F; [constructor|].
  inversion F; subst. destruct (i =? id); [assumption|]. constructor; [assumption|apply IH; assumption].
Qed.

Lemma find_caller_in id cs k : find_caller id cs = Some k -> In (id, k) cs.
Proof.
  induction cs as [|[i k'] cs IH]; cbn [find_caller]; intros H; [discriminate|].
  destruct (N.eqb_spec i id) as [->|_]; [injection H as ->; left; reflexivity|right; apply IH; exact H].
Qed.

(* ---------- the invariant under removal ---------- *)

Lemma cinv_callers seen x x' :
  CInv seen x -> x_h x' = x_h x -> x_handle x' = x_handle x ->
  (x_callers x' = x_callers x \/ exists id, x_callers x' = remove_caller id (x_callers x)) -> CInv seen x'.
Proof.
  intros [H1 H2 H3 H4 H5] E1 E2 [E|(id & E)]; constructor; rewrite ?E1, ?E2, ?E; try assumption.
  - apply remove_forall. exact H3.
  - apply remove_nodup. exact H4.
  - intros z Hz. apply H5. apply (remove_incl id). exact Hz.
Qed.

(* ---------- hide commutes with everything that does not look at the callers ---------- *)

Lemma try_receive_hide c x : try_receive (hide c x) = (fst (try_receive x), hide c (snd (try_receive x))).
Proof.
  unfold try_receive. cbn [hide set_qc x_rerr x_inbox x_buf x_bst x_eof].
  destruct (bparse_all (x_bst x) (x_buf x ++ (if x_rerr x then [] else x_inbox x))) as [[st' rest] [r| |]]; cbn [fst snd]; try reflexivity.
  destruct (x_rerr x); [reflexivity|]. destruct (x_eof x); reflexivity.
Qed.

Lemma try_receive_same x : let y := snd (try_receive x) in
  x_h y = x_h x /\ x_handle y = x_handle x /\ x_callers y = x_callers x /\ x_queue y = x_queue x.
Proof.
  unfold try_receive.
  destruct (bparse_all (x_bst x) (x_buf x ++ (if x_rerr x then [] else x_inbox x))) as [[st' rest] [r| |]]; cbn [fst snd]; try (repeat split; reflexivity).
  destruct (x_rerr x); [repeat split; reflexivity|]. destruct (x_eof x); repeat split; reflexivity.
Qed.

(* ---------- routing ---------- *)

Lemma hide_seg_add_out c g id t : memN id c = false -> hide_seg c (add_res g id t) = add_res (hide_seg c g) id t.
Proof. intros H. unfold hide_seg, add_res. cbn [g_w g_conn g_res g_ev g_panic]. rewrite filter_app. cbn [filter fst]. rewrite H. reflexivity. Qed.

Lemma hide_seg_add_in c g id t : memN id c = true -> hide_seg c (add_res g id t) = hide_seg c g.
Proof. intros H. unfold hide_seg, add_res. cbn [g_w g_conn g_res g_ev g_panic]. rewrite filter_app. cbn [filter fst]. rewrite H. cbn [negb]. rewrite app_nil_r. reflexivity. Qed.

(* a live caller's result: the same in both worlds *)
Lemma caller_result_out c x g id k r : noart k = true -> memN id c = false ->
  caller_result (hide c x) (hide_seg c g) id k r =
  (hide c (fst (caller_result x g id k r)), hide_seg c (snd (caller_result x g id k r))).
Proof.
  intros NA H. unfold caller_result. cbn [hide set_qc x_callers x_queue].
  destruct k as [single|cmds|cmds|st]; [| | |discriminate]; cbn [fst snd];
    rewrite (remove_filter_out c id _ H), hide_seg_add_out by exact H; reflexivity.
Qed.

(* a cancelled caller's result: nobody sees it, nothing else changes *)
Lemma caller_result_in c x g id k r : noart k = true -> memN id c = true ->
  hide c (fst (caller_result x g id k r)) = hide c x /\ hide_seg c (snd (caller_result x g id k r)) = hide_seg c g.
Proof.
  intros NA H. unfold caller_result.
  destruct k as [single|cmds|cmds|st]; [| | |discriminate]; cbn [fst snd]; (split; [|apply hide_seg_add_in; exact H]);
    unfold hide; cbn [set_qc x_callers x_queue]; rewrite (remove_filter_in c id _ H); reflexivity.
Qed.

Lemma caller_result_same x g id k r : noart k = true ->
  let y := fst (caller_result x g id k r) in
  x_h y = x_h x /\ x_handle y = x_handle x /\ x_callers y = remove_caller id (x_callers x) /\ x_queue y = x_queue x.
Proof. intros NA. unfold caller_result. destruct k; [| | |discriminate]; cbn; repeat split; reflexivity. Qed.

Lemma noart_of seen x id k : CInv seen x -> find_caller id (x_callers x) = Some k -> noart k = true.
Proof.
  intros CI H. apply find_caller_in in H. pose proof (ci_noart _ _ CI) as F. rewrite Forall_forall in F. exact (F _ H).
Qed.

Lemma route_hide seen c x g o : CInv seen x ->
  route (hide c x) (hide_seg c g) o = (hide c (fst (route x g o)), hide_seg c (snd (route x g o))) /\
  CInv seen (fst (route x g o)) /\ x_queue (fst (route x g o)) = x_queue x.
Proof.
  intros CI. destruct o as [bs|id rep|id|n|k|]; cbn [route].
  - cbn [hide set_qc x_wp]. destruct (x_wp x); cbn [fst snd]; (split; [reflexivity|]); (split; [|reflexivity]);
      apply (cinv_callers seen x); try reflexivity; try exact CI; left; reflexivity.
  - change (x_callers (hide c x)) with (filter (live c) (x_callers x)). rewrite find_caller_filter.
    destruct (find_caller id (x_callers x)) as [k|] eqn:EF.
    + pose proof (noart_of _ _ _ _ CI EF) as NA.
      destruct (caller_result_same x g id k (Some rep) NA) as (S1 & S2 & S3 & S4).
      destruct (memN id c) eqn:EM.
      * destruct (caller_result_in c x g id k (Some rep) NA EM) as [E1 E2]. rewrite E1, E2.
        split; [reflexivity|]. split; [|exact S4]. apply (cinv_callers seen x); try assumption. right. exists id. exact S3.
      * rewrite (caller_result_out c x g id k (Some rep) NA EM).
        split; [reflexivity|]. split; [|exact S4]. apply (cinv_callers seen x); try assumption. right. exists id. exact S3.
    + cbn [fst snd]. destruct (memN id c); (split; [reflexivity|]); (split; [exact CI|reflexivity]).
  - change (x_callers (hide c x)) with (filter (live c) (x_callers x)). rewrite find_caller_filter.
    destruct (find_caller id (x_callers x)) as [k|] eqn:EF.
    + pose proof (noart_of _ _ _ _ CI EF) as NA.
      destruct (caller_result_same x g id k None NA) as (S1 & S2 & S3 & S4).
      destruct (memN id c) eqn:EM.
      * destruct (caller_result_in c x g id k None NA EM) as [E1 E2]. rewrite E1, E2.
        split; [reflexivity|]. split; [|exact S4]. apply (cinv_callers seen x); try assumption. right. exists id. exact S3.
      * rewrite (caller_result_out c x g id k None NA EM).
        split; [reflexivity|]. split; [|exact S4]. apply (cinv_callers seen x); try assumption. right. exists id. exact S3.
    + cbn [fst snd]. destruct (memN id c); (split; [reflexivity|]); (split; [exact CI|reflexivity]).
  - cbn [hide set_qc x_evq]. destruct (x_evq x); cbn [fst snd]; (split; [reflexivity|]); (split; [|reflexivity]); try exact CI.
    apply (cinv_callers seen x); try reflexivity; try exact CI; left; reflexivity.
  - cbn [hide set_qc x_evq]. destruct (x_evq x); cbn [fst snd]; (split; [reflexivity|]); (split; [|reflexivity]); try exact CI.
    apply (cinv_callers seen x); try reflexivity; try exact CI; left; reflexivity.
  - cbn [fst snd]. split; [reflexivity|]. split; [exact CI|reflexivity].
Qed.

Lemma route_all_hide seen c os : forall x g, CInv seen x ->
  route_all (hide c x) (hide_seg c g) os = (hide c (fst (route_all x g os)), hide_seg c (snd (route_all x g os))) /\
  CInv seen (fst (route_all x g os)) /\ x_queue (fst (route_all x g os)) = x_queue x.
Proof.
  induction os as [|o os IH]; intros x g CI; cbn [route_all].
  - cbn [fst snd]. split; [reflexivity|]. split; [exact CI|reflexivity].
  - destruct (route_hide seen c x g o CI) as (E & CI' & Q). rewrite E.
    destruct (route x g o) as [x' g']. cbn [fst snd] in *.
    destruct (IH x' g' CI') as (E2 & CI2 & Q2). rewrite E2. split; [reflexivity|]. split; [exact CI2|]. rewrite Q2. exact Q.
Qed.

Lemma drop_queue_hide seen c q : forall x g, CInv seen x ->
  drop_queue (hide c x) (hide_seg c g) q = (hide c (fst (drop_queue x g q)), hide_seg c (snd (drop_queue x g q))) /\
  CInv seen (fst (drop_queue x g q)).
Proof.
  induction q as [|r q IH]; intros x g CI; cbn [drop_queue].
  - cbn [fst snd]. split; [reflexivity|exact CI].
  - pose proof (route_hide seen c x g (ODropResp (q_id r)) CI) as (E & CI' & _). cbn [route] in E, CI'.
    rewrite E. destruct (match find_caller (q_id r) (x_callers x) with Some k => caller_result x g (q_id r) k None | None => (x, g) end) as [x' g'].
    cbn [fst snd] in *. exact (IH x' g' CI').
Qed.

Lemma on_exit_hide seen c x g : CInv seen x ->
  on_exit (hide c x) (hide_seg c g) = (hide c (fst (on_exit x g)), hide_seg c (snd (on_exit x g))) /\
  CInv seen (fst (on_exit x g)).
Proof.
  intros CI. unfold on_exit. cbn [hide set_qc x_pt x_queue].
  destruct (x_pt x); try (cbn [fst snd]; split; [reflexivity|exact CI]).
  assert (CI0 : CInv seen (set_qc x [] (x_callers x))) by (apply (cinv_callers seen x); try reflexivity; try exact CI; left; reflexivity).
  exact (drop_queue_hide seen c (x_queue x) (set_qc x [] (x_callers x)) g CI0).
Qed.

(* ---------- one resumption, and settling ---------- *)

Definition hide_ev (c : list N) (e : option (cin * xsys)) : option (cin * xsys) :=
  match e with Some (i, y) => Some (i, hide c y) | None => None end.

Lemma client_event_hide seen c x : CInv seen x ->
  client_event (hide c x) = hide_ev c (client_event x) /\
  (forall i y, client_event x = Some (i, y) -> CInv seen y /\ length (x_queue y) <= length (x_queue x))%nat.
Proof.
  intros CI. destruct (try_receive_same x) as (T1 & T2 & T3 & T4).
  assert (CIr : CInv seen (snd (try_receive x))) by (apply (cinv_callers seen x); try assumption; left; exact T3).
  unfold client_event. cbn [hide set_qc x_pt].
  assert (CC : forall y, x_handle y = true -> chan_closed (hide c y) = false /\ chan_closed y = false).
  { intros y Hy. unfold chan_closed. cbn [hide set_qc x_handle]. rewrite Hy. split; reflexivity. }
  assert (Hr : x_handle (snd (try_receive x)) = true) by (rewrite T2; exact (ci_handle _ _ CI)).
  destruct (x_pt x) eqn:EP; cbn [wants_recv wants_cmd]; try (split; [reflexivity|intros; discriminate]).
  - (* PIdle *)
    rewrite try_receive_hide. destruct (try_receive x) as [[r|] y]; cbn [fst snd] in *.
    + split; [reflexivity|]. intros i y' E. injection E as <- <-. split; [exact CIr|rewrite T4; lia].
    + cbn [hide set_qc x_queue x_callers]. destruct (x_queue y) as [|q rest] eqn:EQ.
      * destruct (CC y Hr) as [-> ->]. split; [reflexivity|intros; discriminate].
      * split; [reflexivity|]. intros i y' E. injection E as <- <-.
        split; [apply (cinv_callers seen y); try reflexivity; try exact CIr; left; reflexivity|].
        cbn [set_qc x_queue]. rewrite <- T4. cbn [length]. lia.
  - (* PCancel *)
    rewrite try_receive_hide. destruct (try_receive x) as [[r|] y]; cbn [fst snd] in *.
    + split; [reflexivity|]. intros i y' E. injection E as <- <-. split; [exact CIr|rewrite T4; lia].
    + split; [reflexivity|intros; discriminate].
  - (* PWait *)
    rewrite try_receive_hide. destruct (try_receive x) as [[r|] y]; cbn [fst snd] in *.
    + split; [reflexivity|]. intros i y' E. injection E as <- <-. split; [exact CIr|rewrite T4; lia].
    + split; [reflexivity|intros; discriminate].
  - (* PWindow *)
    cbn [hide set_qc x_queue x_callers x_elapsed]. destruct (x_queue x) as [|q rest] eqn:EQ.
    + destruct (CC x (ci_handle _ _ CI)) as [-> ->]. destruct (idle_timeout_ms <=? x_elapsed x).
      * split; [reflexivity|]. intros i y' E. injection E as <- <-. split; [exact CI|rewrite EQ; cbn [length]; lia].
      * split; [reflexivity|intros; discriminate].
    + split; [reflexivity|]. intros i y' E. injection E as <- <-.
      split; [apply (cinv_callers seen x); try reflexivity; try exact CI; left; reflexivity|].
      cbn [set_qc x_queue length]. lia.
Qed.

Lemma handshake_done x g : x_h x = HDone -> handshake_event x g = None.
Proof. intros H. unfold handshake_event. rewrite H. reflexivity. Qed.

Lemma set_pt_cinv seen x p el : CInv seen x -> CInv seen (set_pt x p el).
Proof. intros CI. apply (cinv_callers seen x); try reflexivity; try exact CI; left; reflexivity. Qed.

Lemma settle_hide seen c fuel : forall x g, CInv seen x ->
  settle fuel (hide c x) (hide_seg c g) = (hide c (fst (settle fuel x g)), hide_seg c (snd (settle fuel x g))) /\
  CInv seen (fst (settle fuel x g)).
Proof.
  induction fuel as [|f IH]; intros x g CI; cbn [settle].
  - cbn [fst snd]. split; [reflexivity|exact CI].
  - rewrite (handshake_done x g (ci_h _ _ CI)).
    rewrite (handshake_done (hide c x) (hide_seg c g)) by (exact (ci_h _ _ CI)).
    change (x_spawned (hide c x)) with (x_spawned x). change (x_wh (hide c x)) with (x_wh x).
    destruct (negb (x_spawned x)); [cbn [fst snd]; split; [reflexivity|exact CI]|].
    destruct (x_wh x); [|cbn [fst snd]; split; [reflexivity|exact CI]].
    destruct (client_event_hide seen c x CI) as [E K]. rewrite E.
    destruct (client_event x) as [[i x1]|]; cbn [hide_ev]; [|cbn [fst snd]; split; [reflexivity|exact CI]].
    destruct (K i x1 eq_refl) as [CI1 _].
    change (x_wfail (hide c x1)) with (x_wfail x1). change (x_pt (hide c x1)) with (x_pt x1).
    change (x_elapsed (hide c x1)) with (x_elapsed x1).
    destruct (cstep (x_wfail x1) (x_pt x1) i) as [p outs].
    set (el := match p with PWindow => match x_pt x1 with PWindow => x_elapsed x1 | _ => 0 end | _ => x_elapsed x1 end).
    change (set_pt (hide c x1) p el) with (hide c (set_pt x1 p el)).
    destruct (route_all_hide seen c outs (set_pt x1 p el) g (set_pt_cinv seen x1 p el CI1)) as (E3 & CI3 & _).
    rewrite E3. destruct (route_all (set_pt x1 p el) g outs) as [x3 g3]. cbn [fst snd] in *.
    destruct (on_exit_hide seen c x3 g3 CI3) as (E4 & CI4). rewrite E4.
    destruct (on_exit x3 g3) as [x4 g4]. cbn [fst snd] in *.
    exact (IH x4 g4 CI4).
Qed.

(* ---------- apply_core = decide what to run, then settle ---------- *)

Inductive pre := PNone (x : xsys) | PRun (op : bytes) (x : xsys) (g : seg).

Definition pre_op (x : xsys) (lab : bytes) (kind : N) (idtxt arg : bytes) : pre :=
    let id := read_N idtxt in
    if kind =? 78 then       
      let '(st, out) := snotify (x_srv x) (unhex arg) in
      PNone (set_net x st (x_c2s x) (x_s2c x ++ out))
    else if kind =? 83 then  
      PNone (DriverLoop.serve (S (length (x_c2s x))) (beq idtxt [42]) x)
    else if kind =? 68 then  
      let k := if id =? 0 then length (x_s2c x) else N.to_nat id in
      let chunk := if x_eof x then [] else firstn k (x_s2c x) in    
      match chunk with
      | [] => PNone (x)
      | _ =>
        let x1 := set_net x (x_srv x) (x_c2s x) (skipn k (x_s2c x)) in
        PRun (b "d:" ++ hex chunk) (set_conn x1 (x_buf x1) (x_bst x1) (x_inbox x1 ++ chunk)) seg0
      end
    else if kind =? 71 then  
      match (if x_eof x then [] else unhex arg) with
      | [] => PNone (x)
      | chunk => PRun (b "d:" ++ hex chunk) (set_conn x (x_buf x) (x_bst x) (x_inbox x ++ chunk)) seg0
      end
    else if kind =? 101 then PRun lab (set_flags x true (x_rerr x) (x_wfail x) (x_handle x) (x_evend x)) seg0
    else if kind =? 114 then PRun lab (set_flags x (x_eof x) true (x_wfail x) (x_handle x) (x_evend x)) seg0
    else if kind =? 119 then PRun lab (set_flags x (x_eof x) (x_rerr x) true (x_handle x) (x_evend x)) seg0
    else if kind =? 104 then PRun lab (set_flags x (x_eof x) (x_rerr x) (x_wfail x) false (x_evend x)) seg0
    else if kind =? 112 then PRun lab (set_w x true (x_wh x)) seg0          
    else if kind =? 107 then PRun lab x seg0                                
    else if kind =? 113 then PRun lab (set_ev x true (x_evh x)) seg0         
    else if kind =? 90 then PRun lab (set_ev x true (x_evh x)) seg0         
    else if kind =? 81 then                                                    
      PRun lab (set_ev x false []) (mkSeg [] [] [] (x_evh x) false)
    else if kind =? 117 then                                                   
      let x1 := set_w (set_net x (x_srv x) (x_c2s x ++ x_wh x) (x_s2c x)) false [] in
      PRun lab x1 (add_w seg0 (x_wh x))
    else if kind =? 116 then   
      PRun lab (set_pt x (x_pt x) (match x_pt x with PWindow => x_elapsed x + id | _ => x_elapsed x end)) seg0
    else if kind =? 120 then   
      PRun lab (set_qc x (x_queue x) (remove_caller id (x_callers x))) seg0
    else if existsb (N.eqb kind) [105; 99; 118; 121; 97] then
      let '(x1, g1) := issue x seg0 kind id arg in PRun lab x1 g1
    else PNone (x).

Definition finish (p : pre) : option bytes * xsys * option seg :=
  match p with
  | PNone x' => (None, x', None)
  | PRun op x1 g => let '(x2, g2) := settle (fuel_for x1) x1 g in (Some op, x2, Some g2)
  end.

Lemma apply_core_pre x lab kind idtxt arg : apply_core x lab kind idtxt arg = finish (pre_op x lab kind idtxt arg).
Proof.
  unfold apply_core, pre_op. cbv zeta.
  repeat match goal with |- context [if ?k =? ?n then _ else _] => destruct (k =? n) end.
  all: cbn [finish].
  all: try match goal with |- ?a = ?b => constr_eq a b; reflexivity end.
  all: repeat match goal with
    | |- context [match ?e with (_, _) => _ end] =>
      lazymatch e with settle _ _ _ => fail | _ => destruct e end
    | |- context [match ?e with [] => _ | _ :: _ => _ end] => destruct e
    end; cbn [finish]; try match goal with |- ?a = ?b => constr_eq a b; reflexivity end.
  destruct (existsb (N.eqb kind) [105; 99; 118; 121; 97]); cbn [finish]; match goal with |- ?a = ?b => constr_eq a b; reflexivity end.
Qed.

(* ---------- the label-specific part commutes with hiding ---------- *)

Definition hide_pre (c : list N) (p : pre) : pre :=
  match p with PNone x => PNone (hide c x) | PRun op x g => PRun op (hide c x) (hide_seg c g) end.

Definition pre_inv (seen : list N) (p : pre) : Prop :=
  match p with PNone x => CInv seen x | PRun _ x _ => CInv seen x end.

Lemma cinv_same seen x x' : CInv seen x -> x_h x' = x_h x -> x_handle x' = x_handle x -> x_callers x' = x_callers x -> CInv seen x'.
Proof. intros CI E1 E2 E3. apply (cinv_callers seen x); try assumption. left. exact E3. Qed.

Lemma cinv_more seen id x : CInv seen x -> CInv (id :: seen) x.
Proof. intros [H1 H2 H3 H4 H5]. constructor; try assumption. apply incl_tl. exact H5. Qed.

Lemma serve_hide c all f : forall x, DriverLoop.serve f all (hide c x) = hide c (DriverLoop.serve f all x).
Proof.
  induction f as [|f IH]; intros x; cbn [DriverLoop.serve]; [reflexivity|].
  change (x_c2s (hide c x)) with (x_c2s x). destruct (take_line (x_c2s x)) as [[line rest]|]; [|reflexivity].
  change (x_cf (hide c x)) with (x_cf x). change (x_srv (hide c x)) with (x_srv x).
  destruct (sline (x_cf x) (x_srv x) line) as [st out].
  change (set_net (hide c x) st rest (x_s2c (hide c x) ++ out)) with (hide c (set_net x st rest (x_s2c x ++ out))).
  destruct all; [apply IH|reflexivity].
Qed.

Lemma serve_same all f : forall x, let y := DriverLoop.serve f all x in
  x_h y = x_h x /\ x_handle y = x_handle x /\ x_callers y = x_callers x.
Proof.
  induction f as [|f IH]; intros x; cbn [DriverLoop.serve]; [repeat split; reflexivity|].
  destruct (take_line (x_c2s x)) as [[line rest]|]; [|repeat split; reflexivity].
  destruct (sline (x_cf x) (x_srv x) line) as [st out].
  destruct all; [|repeat split; reflexivity].
  destruct (IH (set_net x st rest (x_s2c x ++ out))) as (E1 & E2 & E3). cbn zeta. rewrite E1, E2, E3. repeat split; reflexivity.
Qed.

Lemma cinv_enqueue seen x id k bs : CInv seen x -> ~ In id seen -> noart k = true ->
  CInv (id :: seen) (set_qc x (x_queue x ++ [mkReq id bs]) (x_callers x ++ [(id, k)])).
Proof.
  intros [H1 H2 H3 H4 H5] NI NA. constructor; cbn [set_qc x_h x_handle x_callers]; try assumption.
  - apply Forall_app. split; [exact H3|constructor; [exact NA|constructor]].
  - rewrite map_app. cbn [map fst].
    assert (NDr : NoDup (rev (id :: rev (map fst (x_callers x))))).
    { apply NoDup_rev. constructor; [|apply NoDup_rev; exact H4]. rewrite <- in_rev. intros K. apply NI, H5, K. }
    cbn [rev] in NDr. rewrite rev_involutive in NDr. exact NDr.
  - rewrite map_app. cbn [map fst]. intros z Hz. apply in_app_or in Hz. destruct Hz as [Hz|[<-|[]]]; [right; apply H5; exact Hz|left; reflexivity].
Qed.

Lemma hide_enqueue c x id k bs : memN id c = false ->
  set_qc (hide c x) (x_queue x ++ [mkReq id bs]) (filter (live c) (x_callers x) ++ [(id, k)]) =
  hide c (set_qc x (x_queue x ++ [mkReq id bs]) (x_callers x ++ [(id, k)])).
Proof. intros H. unfold hide. cbn [set_qc x_queue x_callers]. rewrite (filter_snoc_live c (id, k)) by exact H. reflexivity. Qed.

Lemma issue_hide seen c x g kind id arg : CInv seen x -> memN id c = false -> ~ In id seen -> (kind =? 97) = false ->
  existsb (N.eqb kind) [105; 99; 118; 121; 97] = true ->
  issue (hide c x) (hide_seg c g) kind id arg = (hide c (fst (issue x g kind id arg)), hide_seg c (snd (issue x g kind id arg))) /\
  CInv (id :: seen) (fst (issue x g kind id arg)).
Proof.
  intros CI EM NI NA HK.
  assert (KEEP : forall g', (hide c x, hide_seg c g') = (hide c (fst (x, g')), hide_seg c (snd (x, g'))) /\ CInv (id :: seen) (fst (x, g')))
    by (intros g'; split; [reflexivity|apply cinv_more; exact CI]).
  assert (ENQ : forall k bs, noart k = true ->
     (if loop_alive x then (set_qc (hide c x) (x_queue x ++ [mkReq id bs]) (filter (live c) (x_callers x) ++ [(id, k)]), hide_seg c g)
      else (hide c x, add_res (hide_seg c g) id (b "closed"))) =
     (hide c (fst (if loop_alive x then (set_qc x (x_queue x ++ [mkReq id bs]) (x_callers x ++ [(id, k)]), g) else (x, add_res g id (b "closed")))),
      hide_seg c (snd (if loop_alive x then (set_qc x (x_queue x ++ [mkReq id bs]) (x_callers x ++ [(id, k)]), g) else (x, add_res g id (b "closed"))))) /\
     CInv (id :: seen) (fst (if loop_alive x then (set_qc x (x_queue x ++ [mkReq id bs]) (x_callers x ++ [(id, k)]), g) else (x, add_res g id (b "closed"))))).
  { intros k bs NK. destruct (loop_alive x); cbn [fst snd].
    - rewrite (hide_enqueue c x id k bs EM). split; [reflexivity|apply cinv_enqueue; assumption].
    - rewrite <- (hide_seg_add_out c g id _ EM). apply KEEP. }
  unfold issue.
  change (x_client (hide c x)) with (x_client x). change (x_handle (hide c x)) with (x_handle x).
  change (loop_alive (hide c x)) with (loop_alive x).
  change (x_queue (hide c x)) with (x_queue x). change (x_callers (hide c x)) with (filter (live c) (x_callers x)).
  destruct (negb (x_client x && x_handle x)).
  { rewrite <- (hide_seg_add_out c g id _ EM). apply KEEP. }
  destruct ((kind =? 105) || (kind =? 99)) eqn:K1.
  { destruct (all_some_l (map parse_spec (split_specs arg))) as [[|l ls]|]; try apply (KEEP (set_panic g)).
    apply ENQ. reflexivity. }
  destruct ((kind =? 118) || (kind =? 121)) eqn:K2.
  { destruct (typed_list_start (map parse_any (split_specs arg))) as [|bs|].
    - destruct (kind =? 118); rewrite <- (hide_seg_add_out c g id _ EM); apply KEEP.
    - apply ENQ. destruct (kind =? 118); reflexivity.
    - apply (KEEP (set_panic g)). }
  (* album art: excluded *)
  exfalso. cbn [existsb] in HK. rewrite NA in HK.
  destruct (kind =? 105), (kind =? 99), (kind =? 118), (kind =? 121); cbn in K1, K2, HK; discriminate.
Qed.

Definition issue_kind (kind : N) : bool := existsb (N.eqb kind) [105; 99; 118; 121].

Ltac kind_known K :=
  apply N.eqb_eq in K; subst;
  repeat match goal with
  | |- context [issue_kind ?k] => let v := eval vm_compute in (issue_kind k) in change (issue_kind k) with v
  end; cbv iota.

Ltac same_callers CI := apply (cinv_same _ _ _ CI); reflexivity.

Lemma pre_op_hide seen c x lab kind idtxt arg :
  CInv seen x -> incl c seen -> (kind =? 120) = false -> (kind =? 104) = false -> (kind =? 97) = false ->
  (issue_kind kind = true -> ~ In (read_N idtxt) seen) ->
  pre_op (hide c x) lab kind idtxt arg = hide_pre c (pre_op x lab kind idtxt arg) /\
  pre_inv (if issue_kind kind then read_N idtxt :: seen else seen) (pre_op x lab kind idtxt arg).
Proof.
  intros CI IC K120 K104 K97 FR. unfold pre_op. cbv zeta.
  destruct (kind =? 78) eqn:K.
  { kind_known K. change (x_srv (hide c x)) with (x_srv x). destruct (snotify (x_srv x) (unhex arg)) as [st out].
    cbn [hide_pre pre_inv]. split; [reflexivity|same_callers CI]. }
  clear K. destruct (kind =? 83) eqn:K.
  { kind_known K. cbn [hide_pre pre_inv]. change (x_c2s (hide c x)) with (x_c2s x). rewrite serve_hide. split; [reflexivity|].
    destruct (serve_same (beq idtxt [42]) (S (length (x_c2s x))) x) as (E1 & E2 & E3). apply (cinv_same _ _ _ CI); assumption. }
  clear K. destruct (kind =? 68) eqn:K.
  { kind_known K. change (x_eof (hide c x)) with (x_eof x). change (x_s2c (hide c x)) with (x_s2c x).
    destruct (if x_eof x then [] else firstn (if read_N idtxt =? 0 then length (x_s2c x) else N.to_nat (read_N idtxt)) (x_s2c x));
      cbn [hide_pre pre_inv]; (split; [reflexivity|]); [exact CI|same_callers CI]. }
  clear K. destruct (kind =? 71) eqn:K.
  { kind_known K. change (x_eof (hide c x)) with (x_eof x).
    destruct (if x_eof x then [] else unhex arg); cbn [hide_pre pre_inv]; (split; [reflexivity|]); [exact CI|same_callers CI]. }
  clear K. destruct (kind =? 101) eqn:K. { kind_known K. cbn [hide_pre pre_inv]. split; [reflexivity|same_callers CI]. }
  clear K. destruct (kind =? 114) eqn:K. { kind_known K. cbn [hide_pre pre_inv]. split; [reflexivity|same_callers CI]. }
  clear K. destruct (kind =? 119) eqn:K. { kind_known K. cbn [hide_pre pre_inv]. split; [reflexivity|same_callers CI]. }
  rewrite K104.
  clear K. destruct (kind =? 112) eqn:K. { kind_known K. cbn [hide_pre pre_inv]. split; [reflexivity|same_callers CI]. }
  clear K. destruct (kind =? 107) eqn:K. { kind_known K. cbn [hide_pre pre_inv]. split; [reflexivity|exact CI]. }
  clear K. destruct (kind =? 113) eqn:K. { kind_known K. cbn [hide_pre pre_inv]. split; [reflexivity|same_callers CI]. }
  clear K. destruct (kind =? 90) eqn:K. { kind_known K. cbn [hide_pre pre_inv]. split; [reflexivity|same_callers CI]. }
  clear K. destruct (kind =? 81) eqn:K. { kind_known K. cbn [hide_pre pre_inv]. split; [reflexivity|same_callers CI]. }
  clear K. destruct (kind =? 117) eqn:K. { kind_known K. cbn [hide_pre pre_inv]. split; [reflexivity|same_callers CI]. }
  clear K. destruct (kind =? 116) eqn:K. { kind_known K. cbn [hide_pre pre_inv]. split; [reflexivity|same_callers CI]. }
  rewrite K120.
  clear K. destruct (existsb (N.eqb kind) [105; 99; 118; 121; 97]) eqn:K.
  - assert (IK : issue_kind kind = true).
    { unfold issue_kind. cbn [existsb] in K |- *. rewrite K97 in K. rewrite !Bool.orb_false_r in K. rewrite Bool.orb_false_r. exact K. }
    rewrite IK. pose proof (FR IK) as NI.
    assert (EM : memN (read_N idtxt) c = false).
    { destruct (memN (read_N idtxt) c) eqn:E; [|reflexivity]. apply memN_in in E. exfalso. apply NI, IC, E. }
    destruct (issue_hide seen c x seg0 kind (read_N idtxt) arg CI EM NI K97 K) as [E CI'].
    change seg0 with (hide_seg c seg0) at 1. rewrite E.
    destruct (issue x seg0 kind (read_N idtxt) arg) as [x1 g1]. cbn [fst snd hide_pre pre_inv] in *. split; [reflexivity|exact CI'].
  - assert (IK : issue_kind kind = false).
    { unfold issue_kind. cbn [existsb] in K |- *. rewrite !Bool.orb_false_r in *.
      destruct (kind =? 105), (kind =? 99), (kind =? 118), (kind =? 121); cbn in *; congruence. }
    rewrite IK. cbn [hide_pre pre_inv]. split; [reflexivity|exact CI].
Qed.

(* ---------- one label ---------- *)

Lemma apply_label_g_parts x lab :
  apply_label_g x lab = match fst (label_parts lab) with
                        | [] => (None, x, None)
                        | kind :: idtxt => apply_core x lab kind idtxt (snd (label_parts lab))
                        end.
Proof.
  unfold apply_label_g, label_parts. destruct (split_on 58 lab) as [|h [|a r]]; cbn [fst snd];
    match goal with |- ?a = ?b => constr_eq a b; reflexivity end.
Qed.

Definition hide_out (c : list N) (r : option bytes * xsys * option seg) : option bytes * xsys * option seg :=
  let '(o, x', g) := r in (o, hide c x', option_map (hide_seg c) g).

Lemma finish_hide seen c p : pre_inv seen p ->
  finish (hide_pre c p) = hide_out c (finish p) /\ CInv seen (snd (fst (finish p))).
Proof.
  destruct p as [x'|op x1 g]; cbn [pre_inv hide_pre finish]; intros CI.
  - cbn [hide_out option_map fst snd]. split; [reflexivity|exact CI].
  - change (fuel_for (hide c x1)) with (fuel_for x1).
    destruct (settle_hide seen c (fuel_for x1) x1 g CI) as [E CI']. rewrite E.
    destruct (settle (fuel_for x1) x1 g) as [x2 g2]. cbn [fst snd hide_out option_map] in *. split; [reflexivity|exact CI'].
Qed.

(* any label but x, h, a: the same in both worlds *)
Lemma label_hide seen c x l : CInv seen x -> incl c seen ->
  is_cancel l = false -> is_excluded l = false -> (is_issue l = true -> ~ In (id_of l) seen) ->
  apply_label_g (hide c x) l = hide_out c (apply_label_g x l) /\ CInv (seen_after seen l) (snd (fst (apply_label_g x l))).
Proof.
  intros CI IC NC NX FR. rewrite !apply_label_g_parts.
  unfold is_cancel, is_excluded, is_issue, seen_after, is_issue, id_of, kind_of in *.
  destruct (fst (label_parts l)) as [|kind idtxt].
  - cbn [hide_out option_map fst snd]. split; [reflexivity|exact CI].
  - cbn [tl] in *. apply Bool.orb_false_elim in NX. destruct NX as [K104 K97].
    rewrite !apply_core_pre.
    destruct (pre_op_hide seen c x l kind idtxt (snd (label_parts l)) CI IC NC K104 K97 FR) as [E PI]. rewrite E.
    exact (finish_hide _ c _ PI).
Qed.

Lemma set_pt_id x : set_pt x (x_pt x) (x_elapsed x) = x.
Proof. destruct x; reflexivity. Qed.

Lemma apply_label_g_known x l k i a : fst (label_parts l) = k :: i -> snd (label_parts l) = a ->
  apply_label_g x l = finish (pre_op x l k i a).
Proof. intros E1 E2. rewrite apply_label_g_parts, E1, E2. apply apply_core_pre. Qed.

Lemma pre_op_tick x lab idtxt arg :
  pre_op x lab 116 idtxt arg =
  PRun lab (set_pt x (x_pt x) (match x_pt x with PWindow => x_elapsed x + read_N idtxt | _ => x_elapsed x end)) seg0.
Proof. reflexivity. Qed.

Lemma tick0_run x : apply_label_g x tick0 = finish (PRun tick0 x seg0).
Proof.
  rewrite (apply_label_g_known x tick0 116 [48] [] eq_refl eq_refl). f_equal. rewrite pre_op_tick.
  change (read_N [48]) with 0. f_equal.
  destruct (x_pt x) eqn:EP; rewrite ?N.add_0_r; rewrite <- EP at 1; apply set_pt_id.
Qed.

Lemma cancel_run x l : is_cancel l = true ->
  apply_label_g x l = finish (PRun l (set_qc x (x_queue x) (remove_caller (id_of l) (x_callers x))) seg0).
Proof.
  intros H. unfold is_cancel, kind_of, id_of in *.
  destruct (fst (label_parts l)) as [|kind idtxt] eqn:E1; [discriminate|]. apply N.eqb_eq in H. subst kind.
  rewrite (apply_label_g_known x l 120 idtxt _ E1 eq_refl). f_equal.
Qed.

(* a cancellation in the hidden world = the no-op in the plain world, seen through a larger cancelled set *)
Lemma cancel_hide seen c x l : CInv seen x -> incl c seen -> is_cancel l = true ->
  apply_label_g (hide c x) l =
  (Some l, hide (cancelled_after seen c l) (snd (fst (apply_label_g x tick0))),
   option_map (hide_seg (cancelled_after seen c l)) (snd (apply_label_g x tick0))) /\
  CInv seen (snd (fst (apply_label_g x tick0))) /\ (exists g, snd (apply_label_g x tick0) = Some g).
Proof.
  intros CI IC HC. rewrite (cancel_run _ l HC), tick0_run. unfold cancelled_after. rewrite HC. cbn [andb].
  set (c' := if memN (id_of l) seen then id_of l :: c else c).
  assert (E : set_qc (hide c x) (x_queue (hide c x)) (remove_caller (id_of l) (x_callers (hide c x))) = hide c' x).
  { unfold c'. change (x_callers (hide c x)) with (filter (live c) (x_callers x)). change (x_queue (hide c x)) with (x_queue x).
    destruct (memN (id_of l) seen) eqn:EM.
    - rewrite (remove_is_filter c (id_of l) (x_callers x) (ci_nodup _ _ CI)). reflexivity.
    - rewrite remove_absent; [reflexivity|].
      intros K. assert (K' : In (id_of l) (map fst (x_callers x))).
      { clear - K. induction (x_callers x) as [|e cs IH]; cbn [filter map] in *; [exact K|].
        destruct (live c e); cbn [map In] in *; [destruct K as [K|K]; [left; exact K|right; exact (IH K)]|right; exact (IH K)]. }
      apply (ci_seen _ _ CI) in K'. apply memN_in in K'. congruence. }
  rewrite E. cbn [finish].
  change (fuel_for (hide c' x)) with (fuel_for x). change seg0 with (hide_seg c' seg0) at 1.
  destruct (settle_hide seen c' (fuel_for x) x seg0 CI) as [E2 CI2]. rewrite E2.
  destruct (settle (fuel_for x) x seg0) as [x2 g2]. cbn [fst snd option_map] in *.
  split; [reflexivity|]. split; [exact CI2|]. exists g2. reflexivity.
Qed.

Lemma cancelled_incl seen c l : incl c seen -> incl (cancelled_after seen c l) (seen_after seen l).
Proof.
  intros IC. unfold cancelled_after, seen_after.
  assert (I2 : incl c (if is_issue l then id_of l :: seen else seen)) by (destruct (is_issue l); [apply incl_tl|]; exact IC).
  destruct (is_cancel l && memN (id_of l) seen) eqn:E; [|exact I2].
  apply andb_prop in E. destruct E as [_ E]. apply memN_in in E.
  intros z [<-|Hz]; [destruct (is_issue l); [right|]; exact E|exact (I2 _ Hz)].
Qed.

Lemma cancel_not_issue l : is_cancel l = true -> is_issue l = false.
Proof. unfold is_cancel, is_issue. destruct (kind_of l) as [k|]; [|reflexivity]. intros H. apply N.eqb_eq in H. subst. reflexivity. Qed.

(* THE THEOREM: the run with cancellations is the run of the erased labels, hidden *)
Theorem cancel_erasure ls : forall seen c x, CInv seen x -> incl c seen -> cancel_ok seen ls = true ->
  xrun (hide c x) ls = hide_run seen c x ls.
Proof.
  induction ls as [|l r IH]; intros seen c x CI IC OK; cbn [xrun hide_run]; [reflexivity|].
  cbn [cancel_ok] in OK. apply andb_prop in OK. destruct OK as [NX OK]. apply Bool.negb_true_iff in NX.
  pose proof (cancelled_incl seen c l IC) as IC'.
  unfold erase_label. destruct (is_cancel l) eqn:HC.
  - pose proof (cancel_not_issue l HC) as NI. rewrite NI in OK.
    destruct (cancel_hide seen c x l CI IC HC) as (E & CI' & (g & EG)). rewrite E.
    unfold seen_after in *. rewrite NI in *.
    destruct (apply_label_g x tick0) as [[o x'] og]. cbn [fst snd] in *. subst og. cbn [option_map].
    rewrite (IH seen (cancelled_after seen c l) x' CI' IC' OK). reflexivity.
  - assert (FR : is_issue l = true -> ~ In (id_of l) seen).
    { intros HI. rewrite HI in OK. apply andb_prop in OK. destruct OK as [F _]. apply Bool.negb_true_iff in F.
      intros K. apply memN_in in K. congruence. }
    destruct (label_hide seen c x l CI IC HC NX FR) as [E CI']. rewrite E.
    assert (OK' : cancel_ok (seen_after seen l) r = true).
    { unfold seen_after. destruct (is_issue l); [apply andb_prop in OK; tauto|exact OK]. }
    assert (EC : cancelled_after seen c l = c) by (unfold cancelled_after; rewrite HC; reflexivity).
    rewrite EC in *.
    destruct (apply_label_g x l) as [[o x'] [g|]]; cbn [hide_out option_map fst snd] in *;
      rewrite (IH _ c x' CI' IC' OK'); reflexivity.
Qed.

(* ---------- what the theorem says about the segments ---------- *)

Lemma hide_nil x : hide [] x = x.
Proof.
  unfold hide. assert (E : filter (live []) (x_callers x) = x_callers x).
  { induction (x_callers x) as [|e cs IH]; cbn [filter]; [reflexivity|]. unfold live at 1. cbn [memN existsb negb]. rewrite IH. reflexivity. }
  rewrite E. destruct x; reflexivity.
Qed.

Lemma cancels_cons l r : cancels (l :: r) = if is_cancel l then id_of l :: cancels r else cancels r.
Proof. unfold cancels. cbn [filter]. destruct (is_cancel l); reflexivity. Qed.

Lemma cancelled_after_incl seen c l r : incl (cancelled_after seen c l ++ cancels r) (c ++ cancels (l :: r)).
Proof.
  rewrite cancels_cons. unfold cancelled_after. destruct (is_cancel l); cbn [andb]; [|apply incl_refl].
  destruct (memN (id_of l) seen).
  - intros z Hz. cbn [app In] in Hz. destruct Hz as [<-|Hz]; [apply in_or_app; right; left; reflexivity|].
    apply in_app_or in Hz. apply in_or_app. destruct Hz as [Hz|Hz]; [left; exact Hz|right; right; exact Hz].
  - intros z Hz. apply in_app_or in Hz. apply in_or_app. destruct Hz as [Hz|Hz]; [left; exact Hz|right; right; exact Hz].
Qed.

Lemma seg_hidden_mono c1 c2 gh ge : incl c1 c2 -> seg_hidden c1 gh ge -> seg_hidden c2 gh ge.
Proof. intros I (c & Ic & E). exists c. split; [intros z Hz; apply I, Ic, Hz|exact E]. Qed.

Lemma forall2_mono {A B} (P Q : A -> B -> Prop) la lb : (forall a b0, P a b0 -> Q a b0) -> Forall2 P la lb -> Forall2 Q la lb.
Proof. intros H F. induction F; constructor; auto. Qed.

Lemma hide_run_segs ls : forall seen c x,
  Forall2 (seg_hidden (c ++ cancels ls)) (snd (hide_run seen c x ls)) (snd (xrun x (map erase_label ls))) /\
  exists c', incl c' (c ++ cancels ls) /\ fst (hide_run seen c x ls) = hide c' (fst (xrun x (map erase_label ls))).
Proof.
  induction ls as [|l r IH]; intros seen c x; cbn [hide_run xrun map].
  - cbn [fst snd]. split; [constructor|]. exists c. split; [apply incl_appl, incl_refl|reflexivity].
  - pose proof (cancelled_after_incl seen c l r) as I.
    destruct (apply_label_g x (erase_label l)) as [[o x'] [g|]].
    + destruct (IH (seen_after seen l) (cancelled_after seen c l) x') as [F (c' & Ic & E)].
      destruct (hide_run (seen_after seen l) (cancelled_after seen c l) x' r) as [xf gs].
      destruct (xrun x' (map erase_label r)) as [xe ge]. cbn [fst snd] in *. split.
      * constructor.
        -- exists (cancelled_after seen c l). split; [|reflexivity]. intros z Hz. apply I. apply in_or_app. left. exact Hz.
        -- eapply forall2_mono; [|exact F]. intros a b'. apply seg_hidden_mono. exact I.
      * exists c'. split; [intros z Hz; apply I, Ic, Hz|exact E].
    + destruct (IH (seen_after seen l) (cancelled_after seen c l) x') as [F (c' & Ic & E)]. split.
      * eapply forall2_mono; [|exact F]. intros a b'. apply seg_hidden_mono. exact I.
      * exists c'. split; [intros z Hz; apply I, Ic, Hz|exact E].
Qed.

Lemma cinv_init cf : CInv [] (xinit cf).
Proof.
  assert (E : xinit cf = mkX HDone None true false PIdle true [] Initial [] false false false [] [] true 0 false cf
                             s0 idle_line [] false [] false []) by (vm_compute; reflexivity).
  rewrite E. constructor; cbn; try reflexivity; try constructor. intros z [].
Qed.

(* from the start of a session: every segment of the run with cancellations is the segment of the run without them minus results of
   cancelled callers; the final states differ in the list of live callers only *)
Theorem exec_cancel cf ls : cancel_ok [] ls = true ->
  Forall2 (seg_hidden (cancels ls)) (snd (xrun (xinit cf) ls)) (snd (xrun (xinit cf) (map erase_label ls))) /\
  exists c, incl c (cancels ls) /\ fst (xrun (xinit cf) ls) = hide c (fst (xrun (xinit cf) (map erase_label ls))).
Proof.
  intros OK. pose proof (cancel_erasure ls [] [] (xinit cf) (cinv_init cf) (incl_refl _) OK) as E.
  rewrite hide_nil in E. rewrite E. exact (hide_run_segs ls [] [] (xinit cf)).
Qed.

(* a result list with some results of cancelled callers dropped, everything else kept in order *)
Inductive dropped (call : list N) : list (N * bytes) -> list (N * bytes) -> Prop :=
  | d_nil : dropped call [] []
  | d_keep r l l' : dropped call l l' -> dropped call (r :: l) (r :: l')
  | d_drop r l l' : In (fst r) call -> dropped call l l' -> dropped call l (r :: l').

Lemma dropped_app call a a' b0 b' : dropped call a a' -> dropped call b0 b' -> dropped call (a ++ b0) (a' ++ b').
Proof. intros Ha Hb. induction Ha; cbn [app]; [exact Hb|apply d_keep; exact IHHa|apply d_drop; assumption]. Qed.

Lemma dropped_filter call c l : incl c call -> dropped call (filter (fun r : N * bytes => negb (memN (fst r) c)) l) l.
Proof.
  intros I. induction l as [|r l IH]; cbn [filter]; [constructor|].
  destruct (memN (fst r) c) eqn:E; cbn [negb]; [apply d_drop; [apply I, memN_in, E|exact IH]|apply d_keep; exact IH].
Qed.

Lemma hidden_results call gh ge : Forall2 (seg_hidden call) gh ge ->
  dropped call (flat_map g_res gh) (flat_map g_res ge) /\
  map g_w gh = map g_w ge /\ map g_ev gh = map g_ev ge /\ map g_conn gh = map g_conn ge /\ map g_panic gh = map g_panic ge.
Proof.
  induction 1 as [|a b0 la lb (c & Ic & E) F IH]; cbn [flat_map map]; [repeat split; constructor|].
  destruct IH as (D & W & V & Cn & P). subst a. cbn [hide_seg g_res g_w g_ev g_conn g_panic]. rewrite W, V, Cn, P.
  split; [apply dropped_app; [apply dropped_filter; exact Ic|exact D]|repeat split; reflexivity].
Qed.

(* nobody but a cancelled caller loses a result *)
Lemma dropped_keeps call l l' r : dropped call l l' -> In r l' -> ~ In (fst r) call -> In r l.
Proof.
  induction 1 as [|r0 l l' D IH|r0 l l' Hc D IH]; cbn [In]; intros Hin Hn; [exact Hin| |].
  - destruct Hin as [->|Hin]; [left; reflexivity|right; exact (IH Hin Hn)].
  - destruct Hin as [->|Hin]; [contradiction|exact (IH Hin Hn)].
Qed.

Lemma dropped_sub call l l' r : dropped call l l' -> In r l -> In r l'.
Proof.
  induction 1 as [|r0 l l' D IH|r0 l l' Hc D IH]; cbn [In]; intros Hin; [exact Hin| |].
  - destruct Hin as [->|Hin]; [left; reflexivity|right; exact (IH Hin)].
  - right. exact (IH Hin).
Qed.

(* inside the fault-free fragment: the results handed out when callers cancel are the replies to a prefix of the issued requests in
   issue order, minus results of cancelled callers only; the wire, the events and the server are those of the run without cancellation *)
Theorem exec_cancel_session cf ls gls : cancel_ok [] ls = true -> in_fragment cf (map erase_label ls) gls ->
  let segs := snd (xrun (xinit cf) ls) in
  let plain := snd (xrun (xinit cf) (map erase_label ls)) in
  (exists k, dropped (cancels ls) (flat_map g_res segs) (map (echo_result cf) (firstn k (flat_map issued_of gls)))) /\
  map g_w segs = map g_w plain /\ map g_ev segs = map g_ev plain /\
  Forall (fun g => g_panic g = false) segs /\
  s_violated (x_srv (fst (xrun (xinit cf) ls))) = false.
Proof.
  intros OK [F2 FG] segs plain.
  destruct (exec_cancel cf ls OK) as [FH (c & Ic & EX)]. fold segs plain in FH.
  destruct (hidden_results _ _ _ FH) as (D & W & V & _ & P).
  destruct (exec_session cf (map erase_label ls) gls F2 FG) as (NV & (k & ER) & _ & PN). fold plain in ER, PN.
  split; [exists k; rewrite <- ER; exact D|]. split; [exact W|]. split; [exact V|]. split.
  - rewrite Forall_forall in *. intros g Hg. apply (in_map g_panic) in Hg. rewrite P in Hg. apply in_map_iff in Hg.
    destruct Hg as (g' & Eg & Hg'). rewrite <- Eg. exact (PN g' Hg').
  - rewrite EX. exact NV.
Qed.

(* ---------- non-vacuity: a session in which the in-flight caller and a queued caller give up ---------- *)

(* request 1 is cancelled while its reply is on the way (the server has answered, the bytes are not yet delivered), request 2 while it
   is still queued behind the cancelled idle; request 3 is issued afterwards *)
Definition ex_cancel_labs : list bytes :=
  [b "N:706c61796572"; b "c1:status"; b "c2:stats"; b "S*"; b "D3"; b "x1"; b "D0"; b "x2"; b "S*"; b "D0";
   b "c3:currentsong"; b "S*"; b "D0"; b "t100"; b "S*"; b "D0"].

Definition ex_cancel_gls : list glabel :=
  [GNotify (b "player"); GIssue 1 (b "status"); GIssue 2 (b "stats"); GServe true; GDeliver 3; GTick 0; GDeliver 0; GTick 0; GServe true;
   GDeliver 0; GIssue 3 (b "currentsong"); GServe true; GDeliver 0; GTick 100; GServe true; GDeliver 0].

Example ex_cancel_ok : cancel_ok [] ex_cancel_labs = true /\ cancels ex_cancel_labs = [1; 2] /\
  in_fragment ex_cf (map erase_label ex_cancel_labs) ex_cancel_gls.
Proof.
  split; [vm_compute; reflexivity|]. split; [vm_compute; reflexivity|].
  split; [apply forall2_map; vm_compute; reflexivity|]. apply Forall_forall. apply forallb_forall. vm_compute. reflexivity.
Qed.

(* only request 3 is handed a result; all three requests were written and the change was delivered, exactly as without cancellation *)
Example ex_cancel_outcome :
  flat_map g_res (snd (xrun (xinit ex_cf) ex_cancel_labs)) = map (echo_result ex_cf) [mkReq 3 (b "currentsong" ++ [LF])] /\
  flat_map g_res (snd (xrun (xinit ex_cf) (map erase_label ex_cancel_labs))) =
    map (echo_result ex_cf) [mkReq 1 (b "status" ++ [LF]); mkReq 2 (b "stats" ++ [LF]); mkReq 3 (b "currentsong" ++ [LF])] /\
  flat_map g_w (snd (xrun (xinit ex_cf) ex_cancel_labs)) =
    noidle_line ++ b "status" ++ [LF] ++ b "stats" ++ [LF] ++ b "currentsong" ++ [LF] /\
  flat_map g_ev (snd (xrun (xinit ex_cf) ex_cancel_labs)) = map ev_text [b "player"].
Proof. repeat split; vm_compute; reflexivity. Qed.

(* ---------- the parts, one by one (for Props/) ---------- *)

(* for EVERY label list without h / a and with distinct request ids — fault labels included: cancelling changes neither the bytes the
   client writes, nor the events, nor the connection results, nor whether anything panics, label by label *)
Lemma exec_cancel_wire cf ls : cancel_ok [] ls = true ->
  map g_w (snd (xrun (xinit cf) ls)) = map g_w (snd (xrun (xinit cf) (map erase_label ls))) /\
  map g_ev (snd (xrun (xinit cf) ls)) = map g_ev (snd (xrun (xinit cf) (map erase_label ls))) /\
  map g_panic (snd (xrun (xinit cf) ls)) = map g_panic (snd (xrun (xinit cf) (map erase_label ls))).
Proof.
  intros OK. destruct (exec_cancel cf ls OK) as [FH _]. destruct (hidden_results _ _ _ FH) as (_ & W & V & _ & P). repeat split; assumption.
Qed.

(* ... and every result handed out is one the run without cancellations hands out too; none is lost but those of cancelled callers *)
Lemma exec_cancel_results cf ls : cancel_ok [] ls = true ->
  dropped (cancels ls) (flat_map g_res (snd (xrun (xinit cf) ls))) (flat_map g_res (snd (xrun (xinit cf) (map erase_label ls)))).
Proof. intros OK. destruct (exec_cancel cf ls OK) as [FH _]. exact (proj1 (hidden_results _ _ _ FH)). Qed.

Lemma exec_cancel_others cf ls r : cancel_ok [] ls = true ->
  In r (flat_map g_res (snd (xrun (xinit cf) (map erase_label ls)))) -> ~ In (fst r) (cancels ls) ->
  In r (flat_map g_res (snd (xrun (xinit cf) ls))).
Proof. intros OK Hin Hn. exact (dropped_keeps _ _ _ r (exec_cancel_results cf ls OK) Hin Hn). Qed.

Example ex_cancel_summary :
  cancel_ok [] ex_cancel_labs = true /\ cancels ex_cancel_labs = [1; 2] /\
  in_fragment ex_cf (map erase_label ex_cancel_labs) ex_cancel_gls /\
  flat_map g_res (snd (xrun (xinit ex_cf) ex_cancel_labs)) = map (echo_result ex_cf) [mkReq 3 (b "currentsong" ++ [LF])] /\
  flat_map g_w (snd (xrun (xinit ex_cf) ex_cancel_labs)) =
    noidle_line ++ b "status" ++ [LF] ++ b "stats" ++ [LF] ++ b "currentsong" ++ [LF].
Proof.
  destruct ex_cancel_ok as (A & B & C). destruct ex_cancel_outcome as (D & _ & E & _).
  split; [exact A|]. split; [exact B|]. split; [exact C|]. split; [exact D|exact E].
Qed.

Lemma exec_cancel_w cf ls : cancel_ok [] ls = true ->
  map g_w (snd (xrun (xinit cf) ls)) = map g_w (snd (xrun (xinit cf) (map erase_label ls))) /\
  x_c2s (fst (xrun (xinit cf) ls)) = x_c2s (fst (xrun (xinit cf) (map erase_label ls))) /\
  x_srv (fst (xrun (xinit cf) ls)) = x_srv (fst (xrun (xinit cf) (map erase_label ls))).
Proof.
  intros OK. split; [exact (proj1 (exec_cancel_wire cf ls OK))|].
  destruct (exec_cancel cf ls OK) as [_ (c & _ & E)]. rewrite E. split; reflexivity.
Qed.

Lemma exec_cancel_ev cf ls : cancel_ok [] ls = true ->
  map g_ev (snd (xrun (xinit cf) ls)) = map g_ev (snd (xrun (xinit cf) (map erase_label ls))).
Proof. intros OK. exact (proj1 (proj2 (exec_cancel_wire cf ls OK))). Qed.
