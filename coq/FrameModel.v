(* FrameModel.v — mpd_protocol/src/response/frame.rs and the frame iterators of response/mod.rs:
   a vector of Option slots (Frame::get leaves a hole) with cursors from both ends;
   FrameSpec: the ordered multimap the property talks about. *)
From MPD Require Import Bytes.
Open Scope N_scope.

Definition kv := (bytes * bytes)%type.
Definition slot := option kv.

Record mframe := mkM { slots : list slot; mbin : option bytes }.

(* ----- Frame ----- *)
Fixpoint m_find (s : list slot) (k : bytes) : option bytes :=
  match s with
  | [] => None
  | None :: r => m_find r k
  | Some (k', v) :: r => if beq k' k then Some v else m_find r k
  end.

(* Frame::get: take the first Some slot with that key, leaving None *)
Fixpoint m_get (s : list slot) (k : bytes) : option bytes * list slot :=
  match s with
  | [] => (None, [])
  | None :: r => let (o, r') := m_get r k in (o, None :: r')
  | Some (k', v) :: r =>
    if beq k' k then (Some v, None :: r)
    else let (o, r') := m_get r k in (o, Some (k', v) :: r')
  end.

(* Fields::next / IntoIter::next: skip holes *)
Fixpoint m_next (s : list slot) : option kv * list slot :=
  match s with
  | [] => (None, [])
  | None :: r => m_next r
  | Some x :: r => (Some x, r)
  end.

Definition m_next_back (s : list slot) : option kv * list slot :=
  let (o, r) := m_next (rev s) in (o, rev r).

Definition m_len (s : list slot) : nat := length (filter (fun o => match o with Some _ => true | None => false end) s).

(* ----- spec: plain ordered list of the remaining pairs ----- *)
Definition abs (s : list slot) : list kv :=
  flat_map (fun o => match o with Some x => [x] | None => [] end) s.

Fixpoint s_find (l : list kv) (k : bytes) : option bytes :=
  match l with
  | [] => None
  | (k', v) :: r => if beq k' k then Some v else s_find r k
  end.

Fixpoint s_get (l : list kv) (k : bytes) : option bytes * list kv :=
  match l with
  | [] => (None, [])
  | (k', v) :: r => if beq k' k then (Some v, r) else let (o, r') := s_get r k in (o, (k', v) :: r')
  end.

Definition s_next (l : list kv) : option kv * list kv :=
  match l with [] => (None, []) | x :: r => (Some x, r) end.

Definition s_next_back (l : list kv) : option kv * list kv :=
  match rev l with [] => (None, []) | x :: r => (Some x, rev r) end.

(* ----- operation sequences ----- *)
Inductive dir := Front | Back | TakeBin.

Inductive op :=
  | OFind (k : bytes) | OGet (k : bytes) | OLen | OIsEmpty | OHasBin | OBin | OTakeBin
  | OIter (ds : list dir)          (* a fresh borrowed Fields iterator, driven by ds *)
  | OInto (ds : list dir).         (* consume the frame: owned IntoIter (incl. its take_binary) *)

Inductive out :=
  | RVal (v : option bytes) | RNat (n : nat) | RBool (x : bool) | RPairs (l : list (option kv)) | RMixed (l : list (option kv + option bytes)).

Fixpoint m_iter (s : list slot) (ds : list dir) : list (option kv) :=
  match ds with
  | [] => []
  | Front :: r => let (o, s') := m_next s in o :: m_iter s' r
  | Back :: r => let (o, s') := m_next_back s in o :: m_iter s' r
  | TakeBin :: r => m_iter s r
  end.

Fixpoint s_iter (l : list kv) (ds : list dir) : list (option kv) :=
  match ds with
  | [] => []
  | Front :: r => let (o, l') := s_next l in o :: s_iter l' r
  | Back :: r => let (o, l') := s_next_back l in o :: s_iter l' r
  | TakeBin :: r => s_iter l r
  end.

Fixpoint m_into (s : list slot) (bin : option bytes) (ds : list dir) : list (option kv + option bytes) :=
  match ds with
  | [] => []
  | Front :: r => let (o, s') := m_next s in inl o :: m_into s' bin r
  | Back :: r => let (o, s') := m_next_back s in inl o :: m_into s' bin r
  | TakeBin :: r => inr bin :: m_into s None r
  end.

Fixpoint s_into (l : list kv) (bin : option bytes) (ds : list dir) : list (option kv + option bytes) :=
  match ds with
  | [] => []
  | Front :: r => let (o, l') := s_next l in inl o :: s_into l' bin r
  | Back :: r => let (o, l') := s_next_back l in inl o :: s_into l' bin r
  | TakeBin :: r => inr bin :: s_into l None r
  end.

Definition isnone {A} (o : option A) : bool := match o with None => true | Some _ => false end.

Fixpoint m_run (f : mframe) (ops : list op) : list out :=
  match ops with
  | [] => []
  | o :: r =>
    match o with
    | OFind k => RVal (m_find (slots f) k) :: m_run f r
    | OGet k => let (v, s') := m_get (slots f) k in RVal v :: m_run (mkM s' (mbin f)) r
    | OLen => RNat (m_len (slots f)) :: m_run f r
    | OIsEmpty => RBool (Nat.eqb (m_len (slots f)) 0 && isnone (mbin f)) :: m_run f r
    | OHasBin => RBool (negb (isnone (mbin f))) :: m_run f r
    | OBin => RVal (mbin f) :: m_run f r
    | OTakeBin => RVal (mbin f) :: m_run (mkM (slots f) None) r
    | OIter ds => RPairs (m_iter (slots f) ds) :: m_run f r
    | OInto ds => [RMixed (m_into (slots f) (mbin f) ds)]
    end
  end.

Fixpoint s_run (l : list kv) (bin : option bytes) (ops : list op) : list out :=
  match ops with
  | [] => []
  | o :: r =>
    match o with
    | OFind k => RVal (s_find l k) :: s_run l bin r
    | OGet k => let (v, l') := s_get l k in RVal v :: s_run l' bin r
    | OLen => RNat (length l) :: s_run l bin r
    | OIsEmpty => RBool (Nat.eqb (length l) 0 && isnone bin) :: s_run l bin r
    | OHasBin => RBool (negb (isnone bin)) :: s_run l bin r
    | OBin => RVal bin :: s_run l bin r
    | OTakeBin => RVal bin :: s_run l None r
    | OIter ds => RPairs (s_iter l ds) :: s_run l bin r
    | OInto ds => [RMixed (s_into l bin ds)]
    end
  end.

(* ----- Response iterators (FramesRef / Frames): frames then the error, from both ends ----- *)
Section Resp.
  Context {F E : Type}.
  Record riter := mkR { rfs : list F; rerr : option E }.

  Definition r_next (it : riter) : option (F + E) * riter :=
    match rfs it with
    | f :: r => (Some (inl f), mkR r (rerr it))
    | [] => match rerr it with Some e => (Some (inr e), mkR [] None) | None => (None, it) end
    end.

  Definition r_next_back (it : riter) : option (F + E) * riter :=
    match rerr it with
    | Some e => (Some (inr e), mkR (rfs it) None)
    | None => match rev (rfs it) with
              | f :: r => (Some (inl f), mkR (rev r) None)
              | [] => (None, it)
              end
    end.

  Definition r_size (it : riter) : nat := length (rfs it) + (if rerr it then 1 else 0).

  Definition r_abs (it : riter) : list (F + E) :=
    map inl (rfs it) ++ match rerr it with Some e => [inr e] | None => [] end.

  Definition q_next (l : list (F + E)) : option (F + E) * list (F + E) :=
    match l with [] => (None, []) | x :: r => (Some x, r) end.
  Definition q_next_back (l : list (F + E)) : option (F + E) * list (F + E) :=
    match rev l with [] => (None, []) | x :: r => (Some x, rev r) end.

  (* true = next, false = next_back; each step also reports size_hint before it *)
  Fixpoint r_drive (it : riter) (ds : list bool) : list (nat * option (F + E)) :=
    match ds with
    | [] => []
    | d :: r => let (o, it') := if d then r_next it else r_next_back it in (r_size it, o) :: r_drive it' r
    end.
  Fixpoint q_drive (l : list (F + E)) (ds : list bool) : list (nat * option (F + E)) :=
    match ds with
    | [] => []
    | d :: r => let (o, l') := if d then q_next l else q_next_back l in (length l, o) :: q_drive l' r
    end.
End Resp.
