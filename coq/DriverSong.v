(* DriverSong.v — case kind songs / songs_nc (C14):  songs <command-ident> <hex wire reply>.
   The wire bytes go through the parser/builder model, the first frame's fields through the song
   model of the named command; one canonical line, same format as harness/src/songcases.rs.
   [songs] = feature chrono on (the harness default), [songs_nc] = off. *)
From MPD Require Import Bytes Tables Show ParserModel BuilderModel ConnModel TagModel SongStd SongModel.
Open Scope N_scope.

Definition show_dur (d : dur) : bytes := match d with DNanos n => show_N n | DOpaque => [63] end.
Definition show_o {A} (f : A -> bytes) (o : option A) : bytes := match o with Some x => f x | None => [126] end.
Definition show_hexlist (l : list bytes) : bytes := [91] ++ join [59] (map hex l) ++ [93].

(* tags sorted by protocol name (byte order) *)
Fixpoint tm_insert (e : tag * list bytes) (m : tagmap) : tagmap :=
  match m with
  | [] => [e]
  | x :: r => match bcmp (tag_as_str (fst e)) (tag_as_str (fst x)) with
              | Gt => x :: tm_insert e r
              | _ => e :: m
              end
  end.
Definition tm_sorted (m : tagmap) : tagmap := fold_right tm_insert [] m.

Definition show_ts (t : ts) : bytes := if ts_sure t then hex (ts_raw t) else [63].

Definition show_song (s : song) : bytes :=
  b "url=" ++ hex (s_url s) ++
  b ",dur=" ++ show_o show_dur (s_duration s) ++
  b ",tags={" ++ join [38] (map (fun e => tag_as_str (fst e) ++ [61] ++ show_hexlist (snd e)) (tm_sorted (s_tags s))) ++
  b "},fmt=" ++ show_o hex (s_format s) ++
  b ",lm=" ++ show_o show_ts (s_lm s) ++
  b ",art=" ++ show_hexlist (song_artists s) ++
  b ",aart=" ++ show_hexlist (song_album_artists s) ++
  b ",alb=" ++ show_o hex (song_album s) ++
  b ",tit=" ++ show_o hex (song_title s) ++
  b ",num=" ++ show_N (fst (song_number s)) ++ [46] ++ show_N (snd (song_number s)) ++
  b ",path=" ++ hex (s_url s).

Definition show_range (r : srange) : bytes := show_dur (fst r) ++ [45] ++ show_o show_dur (snd r).

Definition show_qsong (q : qsong) : bytes :=
  b "pos=" ++ show_N (q_pos q) ++ b ",id=" ++ show_N (q_id q) ++ b ",prio=" ++ show_N (q_prio q) ++
  b ",range=" ++ show_o show_range (q_range q) ++ [44] ++ show_song (q_song q).

Definition show_ekind (e : ekind) : bytes :=
  match e with
  | EMissing f => words [b "err"; b "missing"; f]
  | EUnexpected x y => words [b "err"; b "unexpected_field"; x; y]
  | EInvalid f v => words [b "err"; b "invalid_value"; f; hex v]
  | EOther => b "err other"
  end.

Definition show_res {A} (f : A -> bytes) (r : result A) : bytes :=
  match r with
  | Ok x => b "ok " ++ f x
  | Err e => show_ekind e
  | SongModel.Panic => b "PANIC"
  end.

Definition show_list {A} (f : A -> bytes) (l : list A) : bytes := [91] ++ join [124] (map f l) ++ [93].

(* does any line of the frame carry a value on which std / chrono decides (over-approximation:
   whether or not the decoder reaches it)?  Then the line ends in " ?" and the comparer also accepts
   the implementation rejecting exactly such a value. *)
Definition dur_opaque (v : bytes) : bool :=
  match std_duration v with DurOk DOpaque => true | _ => false end.
Definition field_opaque (chrono : bool) (kv : bytes * bytes) : bool :=
  let (k, v) := kv in
  if beq k (b "duration") || beq k (b "Time") then dur_opaque v
  else if beq k (b "Range") then
    match split_once 45 v with Some (f, t) => dur_opaque f || dur_opaque t | None => false end
  else if beq k (b "Last-Modified") then
    chrono && match ts_classify v with TsOpaque => true | _ => false end
  else false.
Definition opaque_mark (chrono : bool) (fs : list (bytes * bytes)) : bytes :=
  if existsb (field_opaque chrono) fs then b " ?" else [].

Definition run_songs (kind : bytes) (args : list bytes) : bytes :=
  let chrono := beq kind (b "songs") in
  match args with
  | [cmd; wire] =>
    match ConnModel.ref_receive (unhex wire) TEof with
    | (Resp r, _) =>
      match r_frames r with
      | [] => b "noframe"
      | f :: _ =>
        let fs := f_fields f in
        (fun line => line ++ opaque_mark chrono fs)
        (if existsb (beq cmd) [b "Queue"; b "QueueRange"] then
          show_res (show_list show_qsong) (qsongs_model chrono fs)
        else if beq cmd (b "CurrentSong") then
          show_res (fun o => match o with Some q => show_list show_qsong [q] | None => [126] end) (single_model chrono fs)
        else if existsb (beq cmd) [b "Find"; b "GetPlaylist"; b "ListAllIn"] then
          show_res (show_list show_song) (songs_model chrono fs)
        else b "unknown-command " ++ cmd)
      end
    | _ => b "noresponse"
    end
  | _ => b "bad-case"
  end.

Definition is_song_kind (k : bytes) : bool := existsb (beq k) [b "songs"; b "songs_nc"].
