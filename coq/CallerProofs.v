(* CallerProofs.v — typed command lists pair positionally; album art is reassembled exactly. *)
From Coq Require Import Arith Wf_nat Sorted.
From MPD Require Import Bytes Tables ParserModel BuilderModel CommandModel LoopModel CallerModel.
Open Scope N_scope.

(* ---------- typed lists ---------- *)

Lemma zip_decode_nth : forall cmds frames l,
  zip_decode cmds frames = Some l ->
  length l = length cmds /\
  forall i c, nth_error cmds i = Some c ->
    exists f v, nth_error frames i = Some f /\ nth_error l i = Some v /\ any_response c f = Some v.
Proof.
  induction cmds as [|c cs IH]; intros frames l H.
  - cbn in H. inversion H; subst. split; [reflexivity|]. intros [|i] c0 Hc; discriminate.
  - destruct frames as [|f fs]; [discriminate H|]. cbn in H.
    destruct (any_response c f) as [v|] eqn:Ev; [|discriminate H].
    destruct (zip_decode cs fs) as [l'|] eqn:El; [|discriminate H]. cbn in H. inversion H; subst.
    destruct (IH fs l' El) as [Hlen Hnth]. split; [cbn; f_equal; exact Hlen|].
    intros [|i] c0 Hc; cbn in Hc.
    + inversion Hc; subst. exists f, v. auto.
    + destruct (Hnth i c0 Hc) as (f0 & v0 & H1 & H2 & H3). exists f0, v0. auto.
Qed.

(* Vec: the i-th value is decoded from the i-th frame by the i-th command *)
Lemma vec_pairing : forall cmds frames l,
  vec_responses cmds frames = TROk l ->
  length frames = length cmds /\ length l = length cmds /\
  forall i c, nth_error cmds i = Some c ->
    exists f v, nth_error frames i = Some f /\ nth_error l i = Some v /\ any_response c f = Some v.
Proof.
  intros cmds frames l H. unfold vec_responses in H.
  destruct (Nat.eqb (length cmds) (length frames)) eqn:E; cbn in H; [|discriminate H].
  apply Nat.eqb_eq in E.
  destruct (zip_decode cmds frames) as [l'|] eqn:Ez; [|discriminate H]. inversion H; subst.
  destruct (zip_decode_nth _ _ _ Ez) as [H1 H2]. auto.
Qed.

Lemma vec_never_panics cmds frames : vec_responses cmds frames <> TRErr CRPanic.
Proof.
  unfold vec_responses. destruct (negb _); [discriminate|]. destruct (zip_decode _ _); discriminate.
Qed.

(* the macro's index lists, read from the source: arity n uses positions 0..n-1 in order *)
Lemma tuple_impls_are_identity : tuple_impls = map (fun n => seq 0 n) [1; 2; 3; 4; 5; 6; 7; 8]%nat.
Proof. vm_compute. reflexivity. Qed.

Lemma map_nth_error_seq {A} (l : list A) : map (fun i => nth_error l i) (seq 0 (length l)) = map Some l.
Proof.
  induction l as [|a l IH]; [reflexivity|].
  cbn [length seq map nth_error]. f_equal.
  rewrite <- seq_shift, map_map. cbn [nth_error]. exact IH.
Qed.

Fixpoint tuple_go (ps : list (option anyc)) (fs : list frame) : typed_result :=
  match ps with
  | [] => TROk []
  | None :: _ => TRErr CRPanic
  | Some c :: ps' =>
    match fs with
    | [] => TRErr CRTyped
    | f :: fs' =>
      match any_response c f with
      | None => TRErr CRTyped
      | Some v => match tuple_go ps' fs' with TROk l => TROk (v :: l) | e => e end
      end
    end
  end.

Lemma tuple_go_zip : forall cmds frames,
  tuple_go (map Some cmds) frames =
  match zip_decode cmds frames with Some l => TROk l | None => TRErr CRTyped end.
Proof.
  induction cmds as [|c cs IH]; intros frames; [reflexivity|].
  cbn [map tuple_go zip_decode]. destruct frames as [|f fs]; [reflexivity|].
  destruct (any_response c f) as [v|]; [|reflexivity]. rewrite IH.
  destruct (zip_decode cs fs); reflexivity.
Qed.

(* tuples of every arity 1..8 decode positionally, exactly like the vector of the same commands
   (surplus frames ignored, a missing frame is an error) *)
Lemma tuple_is_positional : forall cmds frames,
  (1 <= length cmds <= 8)%nat ->
  tuple_responses cmds frames =
  match zip_decode cmds frames with Some l => TROk l | None => TRErr CRTyped end.
Proof.
  intros cmds frames Hlen. unfold tuple_responses. rewrite tuple_impls_are_identity.
  assert (Hn : nth_error (map (fun n => seq 0 n) [1; 2; 3; 4; 5; 6; 7; 8]%nat) (length cmds - 1) = Some (seq 0 (length cmds))).
  { destruct cmds as [|c1 [|c2 [|c3 [|c4 [|c5 [|c6 [|c7 [|c8 [|c9 r]]]]]]]]]; cbn in Hlen; try lia; reflexivity. }
  rewrite Hn. rewrite map_nth_error_seq. apply tuple_go_zip.
Qed.

Lemma empty_list_sends_nothing : typed_list_start [] = LSNothing /\ vec_responses [] [] = TROk [].
Proof. split; reflexivity. Qed.

(* ---------- album art ---------- *)

Section Art.
Variables (uri pic : bytes) (mime : option bytes) (szb : bytes).
(* the size field the server sends is the length of the picture *)
Hypothesis Hsz : parse_uint 64 szb = Some (N.of_nat (length pic)).
(* the chunk limit applied to the k-th request (it may change between requests: binarylimit) *)
Variable limit : nat -> nat.
Hypothesis Hlim : forall k, (1 <= limit k)%nat.

Definition pic_frame (k off : nat) : frame :=
  mkFrame ((b "size", szb) :: match mime with Some m => [(b "type", m)] | None => [] end)
          (Some (firstn (limit k) (skipn off pic))).

Lemma decode_pic_frame k off :
  art_decode (pic_frame k off) = Some (Some (N.of_nat (length pic), mime, firstn (limit k) (skipn off pic))).
Proof.
  unfold art_decode, pic_frame. cbn [f_binary f_fields fget].
  change (beq (b "size") (b "size")) with true. cbn iota. rewrite Hsz.
  destruct mime as [m|]; cbn [fget]; [|reflexivity].
  change (beq (b "type") (b "size")) with false. cbn iota.
  change (beq (b "type") (b "type")) with true. reflexivity.
Qed.

(* the offset loop against a server that answers request k at offset |out| with the next chunk *)
Fixpoint art_loop (fuel k : nat) (emb : bool) (out : bytes) : art_final * list nat :=
  match fuel with
  | O => (ArtErr CRPanic, [])
  | S f =>
    let st := mkArt uri (ALoop emb) out (N.of_nat (length pic)) (if emb then mime else None) in
    match art_step st (CROk [pic_frame k (length out)]) with
    | inr fin => (fin, [length out])
    | inl st' => let '(r, offs) := art_loop f (S k) emb (a_out st') in (r, length out :: offs)
    end
  end.

Lemma firstn_extend (n m : nat) : (n <= length pic)%nat ->
  firstn n pic ++ firstn m (skipn n pic) = firstn (n + m) pic.
Proof.
  intros Hn. rewrite <- (firstn_skipn n pic) at 3.
  rewrite firstn_app, firstn_length, Nat.min_l by exact Hn.
  replace (n + m - n)%nat with m by lia.
  rewrite firstn_all2 with (n := (n + m)%nat) (l := firstn n pic); [reflexivity|].
  rewrite firstn_length. lia.
Qed.

(* from any prefix of the picture the loop returns the whole picture, at strictly increasing
   offsets, within (remaining bytes) requests *)
Lemma art_loop_exact : forall d n k emb fuel,
  (n < length pic)%nat -> d = (length pic - n)%nat -> (d <= fuel)%nat ->
  exists offs,
    art_loop fuel k emb (firstn n pic) = (ArtSome pic (if emb then mime else None), offs) /\
    (length offs <= d)%nat /\
    (forall o, In o offs -> (n <= o < length pic)%nat) /\
    StronglySorted lt offs.
Proof.
  induction d as [d IH] using lt_wf_ind. intros n k emb fuel Hn Hd Hf.
  destruct fuel as [|f]; [lia|]. cbn [art_loop].
  assert (Hlen : length (firstn n pic) = n) by (rewrite firstn_length; lia).
  rewrite Hlen. unfold art_step. cbn [a_phase]. rewrite decode_pic_frame.
  cbn [a_uri a_out a_size a_mime]. rewrite (firstn_extend n (limit k)) by lia.
  unfold art_continue. cbn [a_out a_size a_mime].
  set (n' := (n + limit k)%nat).
  assert (Hl : length (firstn n' pic) = Nat.min n' (length pic)) by apply firstn_length.
  destruct (N.ltb_spec (N.of_nat (length (firstn n' pic))) (N.of_nat (length pic))) as [Hlt | Hge].
  - (* more to fetch *)
    assert (Hn' : (n' < length pic)%nat) by lia.
    cbn [a_out].
    destruct (IH (length pic - n')%nat ltac:(pose proof (Hlim k); unfold n'; lia) n' (S k) emb f Hn' eq_refl
                 ltac:(pose proof (Hlim k); unfold n' in *; lia)) as (offs & Hrun & Hcnt & Hrange & Hsorted).
    rewrite Hrun. exists (n :: offs). split; [reflexivity|].
    split; [cbn; pose proof (Hlim k); unfold n' in *; lia|].
    split.
    + intros o [Ho | Ho]; [subst; lia|]. specialize (Hrange o Ho). pose proof (Hlim k). unfold n' in *. lia.
    + constructor; [exact Hsorted|]. apply Forall_forall. intros o Ho. specialize (Hrange o Ho).
      pose proof (Hlim k). unfold n' in *. lia.
  - (* complete *)
    assert (Hall : firstn n' pic = pic) by (apply firstn_all2; lia).
    rewrite Hall. exists [n]. split; [reflexivity|]. split; [cbn; lia|]. split.
    + intros o [Ho | []]. subst. lia.
    + repeat constructor.
Qed.

(* the whole call for the embedded source: first request at offset 0, then the loop *)
Definition first_step (st : art_state) (k : nat) : art_state + art_final :=
  art_step st (CROk [pic_frame k 0]).

Lemma embedded_first :
  first_step (art_start uri) 0 =
  art_continue (mkArt uri (ALoop true) (firstn (limit 0) pic) (N.of_nat (length pic)) mime).
Proof.
  unfold first_step, art_start, art_step. cbn [a_phase]. rewrite decode_pic_frame. cbn [skipn a_uri]. reflexivity.
Qed.

(* the whole call for one source: the first request at offset 0, then the offset loop *)
Definition art_whole (emb : bool) : art_final * list nat :=
  let st0 := if emb then art_start uri else mkArt uri ATryFile [] 0 None in
  match art_step st0 (CROk [pic_frame 0 0]) with
  | inr fin => (fin, [0%nat])
  | inl st' => let '(r, offs) := art_loop (length pic) 1 emb (a_out st') in (r, 0%nat :: offs)
  end.

Lemma art_whole_exact emb :
  exists offs, art_whole emb = (ArtSome pic (if emb then mime else None), 0%nat :: offs) /\
               (length offs <= length pic)%nat /\ StronglySorted lt (0%nat :: offs).
Proof.
  unfold art_whole.
  assert (Hstep : art_step (if emb then art_start uri else mkArt uri ATryFile [] 0 None) (CROk [pic_frame 0 0]) =
                  art_continue (mkArt uri (ALoop emb) (firstn (limit 0) pic) (N.of_nat (length pic)) (if emb then mime else None))).
  { destruct emb; unfold art_start, art_step; cbn [a_phase]; rewrite decode_pic_frame; cbn [skipn a_uri]; reflexivity. }
  rewrite Hstep. unfold art_continue. cbn [a_out a_size a_mime].
  pose proof (firstn_length (limit 0) pic) as Hl.
  destruct (N.ltb_spec (N.of_nat (length (firstn (limit 0) pic))) (N.of_nat (length pic))) as [Hlt | Hge].
  - assert (Hn : (limit 0 < length pic)%nat) by lia.
    cbn [a_out].
    destruct (art_loop_exact (length pic - limit 0)%nat (limit 0) 1 emb (length pic) Hn eq_refl ltac:(lia))
      as (offs & Hrun & Hcnt & Hrange & Hsorted).
    rewrite Hrun. exists offs. split; [reflexivity|]. split; [lia|].
    constructor; [exact Hsorted|]. apply Forall_forall. intros o Ho. specialize (Hrange o Ho). pose proof (Hlim 0%nat). lia.
  - assert (Hall : firstn (limit 0) pic = pic) by (apply firstn_all2; lia).
    rewrite Hall. exists []. split; [reflexivity|]. split; [cbn; lia | repeat constructor].
Qed.

End Art.

(* fallback / absence / propagation: the decision table of the first two requests *)
Lemma art_fallback_on_empty uri f :
  f_binary f = None -> art_step (art_start uri) (CROk [f]) = inl (mkArt uri ATryFile [] 0 None).
Proof. intros H. unfold art_step, art_start, art_decode. cbn. rewrite H. reflexivity. Qed.

Lemma art_fallback_on_unknown uri e fs :
  e_code e = album_art_fallback_code ->
  art_step (art_start uri) (CRAck e fs) = inl (mkArt uri ATryFile [] 0 None).
Proof. intros H. unfold art_step, art_start. cbn. rewrite H, N.eqb_refl. reflexivity. Qed.

Lemma art_propagates_other_errors uri e fs :
  e_code e <> album_art_fallback_code ->
  art_step (art_start uri) (CRAck e fs) = inr (ArtErr (CRAck e fs)).
Proof.
  intros H. unfold art_step, art_start. cbn.
  destruct (N.eqb_spec (e_code e) album_art_fallback_code); [contradiction | reflexivity].
Qed.

Lemma art_propagates_protocol_errors uri st e :
  a_phase st = ATryEmbedded \/ a_phase st = ATryFile \/ (exists b, a_phase st = ALoop b) ->
  a_uri st = uri ->
  art_step st (CRProto e) = inr (ArtErr (CRProto e)) /\ art_step st CRClosed = inr (ArtErr CRClosed).
Proof.
  intros [H | [H | [x H]]] _; unfold art_step; rewrite H; split; reflexivity.
Qed.

Lemma art_absent uri f :
  f_binary f = None -> art_step (mkArt uri ATryFile [] 0 None) (CROk [f]) = inr ArtNone.
Proof. intros H. unfold art_step, art_decode. cbn. rewrite H. reflexivity. Qed.

Lemma art_file_errors_propagate uri e fs :
  art_step (mkArt uri ATryFile [] 0 None) (CRAck e fs) = inr (ArtErr (CRAck e fs)).
Proof. reflexivity. Qed.
