(* LoopMute.v — definitions for the listener theorem of the executable loop system (DriverLoop.v): the application dropping its
   ConnectionEvents (label Z) changes NOTHING but the absence of events.  The run with a Z in it is the run in which the Z is
   replaced by a no-op (t0) — same bytes on the wire, same results for every caller, same state of the connection, the queue, the
   callers and the server, same panics — with the events after the Z gone.  For every label list without q / Q (the application
   merely not polling for a while: a different matter, the events come out later), fault labels, cancellations, handle drop,
   album art and typed lists included.  Proofs: LoopMuteProofs.v. *)
From MPD Require Import Bytes Tables Show ParserModel BuilderModel Grammar ConnModel CommandModel MpdTokenizer
  LoopModel ServerModel CallerModel DriverConn DriverLoop LoopSpec LoopRefine LoopCancel.
Open Scope N_scope.

(* the state whose listener has gone: events are no longer shown, they pile up in [h] where nobody looks *)
Definition mute (h : list bytes) (x : xsys) : xsys := set_ev x true h.

(* the segment without its events *)
Definition mute_seg (g : seg) : seg := mkSeg (g_w g) (g_conn g) (g_res g) [] (g_panic g).

Definition is_drop (lab : bytes) : bool := match kind_of lab with Some k => k =? 90 | None => false end.     (* Z *)
Definition is_poll (lab : bytes) : bool := match kind_of lab with Some k => (k =? 113) || (k =? 81) | None => false end.   (* q / Q *)

Definition mute_label (lab : bytes) : bytes := if is_drop lab then tick0 else lab.

Definition mute_ok (ls : list bytes) : bool := forallb (fun l => negb (is_poll l)) ls.

(* the specification of a run with a Z in terms of the run without: run the labels with Z replaced by t0; once a Z has occurred
   ([m] = true) show no events *)
Fixpoint mute_run (m : bool) (x : xsys) (ls : list bytes) : xsys * list seg :=
  match ls with
  | [] => (x, [])
  | l :: r =>
    let m' := m || is_drop l in
    match apply_label_g x (mute_label l) with
    | (_, x', Some g) => let '(xf, gs) := mute_run m' x' r in (xf, (if m' then mute_seg g else g) :: gs)
    | (_, x', None) => mute_run m' x' r
    end
  end.

(* two states that differ in the listener fields only *)
Definition same_but_listener (x y : xsys) : Prop := set_ev x false [] = set_ev y false [].

(* what the theorem needs of the plain state: connected, the listener there and polling *)
Record MInv (x : xsys) : Prop := mkMInv {
  mi_h : x_h x = HDone;
  mi_evq : x_evq x = false
}.
