(* ConnProofs.v — C02 / C09: the result of receive does not depend on segmentation, for both
   buffer policies; no panic, no exhausted fuel. *)
From Coq Require Import ZifyBool ZifyN ZifyNat.
From Coq Require Import PeanoNat.
From MPD Require Import Bytes Tables ParserModel BuilderModel ConnModel ParserProofs.
Open Scope N_scope.

(* ---------- bparse: fuel is irrelevant once it exceeds the buffer length ---------- *)

Lemma bparse_fuel : forall f1 f2 st buf,
  (length buf < f1)%nat -> (length buf < f2)%nat -> bparse f1 st buf = bparse f2 st buf.
Proof.
  induction f1 as [|f1 IH]; intros f2 st buf H1 H2; [lia|].
  destruct f2 as [|f2]; [lia|].
  destruct buf as [|c buf']; [reflexivity|]. cbn [bparse]. set (buf := c :: buf') in *.
  destruct (parse_component buf) as [n comp| | |] eqn:E; try reflexivity.
  destruct (parse_ok_stable buf n comp E) as [[L1 L2] _].
  assert (LS : (length (skipn n buf) < f1)%nat /\ (length (skipn n buf) < f2)%nat) by (rewrite skipn_length; lia).
  destruct LS as [LA LB]. destruct comp; try reflexivity; apply IH; assumption.
Qed.

(* the fuel-free unfolding of bparse_all *)
Definition bstep_ne (st : bstate) (buf : bytes) (k : bstate -> bytes -> bstate * bytes * bres) : bstate * bytes * bres :=
  match parse_component buf with
  | RIncomplete => (st, buf, NeedMore)
  | RError | RFailure => (st, buf, BInvalid)
  | ROk n c =>
    let msg := firstn n buf in
    let rest := skipn n buf in
    match c with
    | CField key v => k (b_field st key v) rest
    | CBinary len => k (b_binary st (firstn len (skipn (n - (len + 1)) msg))) rest
    | CError code idx cmd m => (Initial, rest, Complete (b_error st (mkErr code idx cmd m)))
    | EndOfFrame => k (b_finish_frame st) rest
    | EndOfResponse => (Initial, rest, Complete (b_finish st))
    end
  end.

Definition bstep (st : bstate) (buf : bytes) (k : bstate -> bytes -> bstate * bytes * bres) : bstate * bytes * bres :=
  match buf with
  | [] => (st, buf, NeedMore)
  | _ => bstep_ne st buf k
  end.

Lemma bstep_nonempty st buf k : buf <> [] -> bstep st buf k = bstep_ne st buf k.
Proof. destruct buf; [congruence | reflexivity]. Qed.

Lemma bparse_all_unfold st buf : bparse_all st buf = bstep st buf bparse_all.
Proof.
  unfold bstep, bstep_ne. unfold bparse_all at 1. destruct buf as [|c buf']; [reflexivity|]. cbn [bparse]. set (buf := c :: buf') in *.
  destruct (parse_component buf) as [n comp| | |] eqn:E; try reflexivity.
  destruct (parse_ok_stable buf n comp E) as [[L1 L2] _].
  assert (LS : (length (skipn n buf) < length buf)%nat) by (rewrite skipn_length; lia).
  destruct comp; try reflexivity; unfold bparse_all; apply bparse_fuel; lia.
Qed.

(* ---------- bparse is incremental ---------- *)

Definition app_verdict (st : bstate) (buf x : bytes) : Prop :=
  match bparse_all st buf with
  | (st', rest, NeedMore) => bparse_all st (buf ++ x) = bparse_all st' (rest ++ x)
  | (st', rest, Complete r) => bparse_all st (buf ++ x) = (st', rest ++ x, Complete r)
  | (st', rest, BInvalid) => exists st'' rest', bparse_all st (buf ++ x) = (st'', rest', BInvalid)
  end.

Lemma bparse_app : forall k buf st x, (length buf <= k)%nat -> app_verdict st buf x.
Proof.
  induction k as [|k IH]; intros buf st x Hk.
  - destruct buf; [|simpl in Hk; lia]. unfold app_verdict. rewrite bparse_all_unfold. reflexivity.
  - unfold app_verdict. rewrite (bparse_all_unfold st buf).
    destruct buf as [|c buf']; [reflexivity|]. set (buf := c :: buf') in *.
    assert (NE : buf <> []) by discriminate.
    assert (NEx : buf ++ x <> []) by discriminate.
    rewrite (bstep_nonempty st buf _ NE). unfold bstep_ne.
    assert (U : bparse_all st (buf ++ x) = bstep_ne st (buf ++ x) bparse_all).
    { rewrite bparse_all_unfold. apply bstep_nonempty. exact NEx. }
    unfold bstep_ne in U.
    destruct (parse_component buf) as [n comp| | |] eqn:E.
    + destruct (parse_ok_stable buf n comp E) as [[L1 L2] S].
      rewrite (S x) in U. rewrite firstn_app_le, skipn_app_le in U by lia.
      assert (LS : (length (skipn n buf) <= k)%nat) by (rewrite skipn_length; lia).
      destruct comp.
      * specialize (IH (skipn n buf) (b_finish_frame st) x LS). unfold app_verdict in IH.
        destruct (bparse_all (b_finish_frame st) (skipn n buf)) as [[st' rest] [r0| |]]; rewrite U; exact IH.
      * exact U.
      * exact U.
      * specialize (IH (skipn n buf) (b_field st key value) x LS). unfold app_verdict in IH.
        destruct (bparse_all (b_field st key value) (skipn n buf)) as [[st' rest] [r0| |]]; rewrite U; exact IH.
      * specialize (IH (skipn n buf) (b_binary st (firstn data_length (skipn (n - (data_length + 1)) (firstn n buf)))) x LS).
        unfold app_verdict in IH.
        destruct (bparse_all _ (skipn n buf)) as [[st' rest] [r0| |]]; rewrite U; exact IH.
    + reflexivity.
    + destruct (parse_invalid_stable buf (or_introl E) x) as [S|S]; rewrite S in U; eauto.
    + destruct (parse_invalid_stable buf (or_intror E) x) as [S|S]; rewrite S in U; eauto.
Qed.

Lemma bparse_rest_le st buf : forall st' rest v, bparse_all st buf = (st', rest, v) -> (length rest <= length buf)%nat.
Proof.
  remember (length buf) as k. assert (Hk : (length buf <= k)%nat) by lia. clear Heqk.
  revert buf st Hk. induction k as [|k IH]; intros buf st Hk st' rest v H.
  - destruct buf; [|simpl in Hk; lia]. rewrite bparse_all_unfold in H. inversion H. simpl. lia.
  - rewrite bparse_all_unfold in H.
    destruct buf as [|c buf']; [inversion H; simpl; lia|]. set (buf := c :: buf') in *.
    rewrite bstep_nonempty in H by discriminate. unfold bstep_ne in H.
    destruct (parse_component buf) as [n comp| | |] eqn:E; try (inversion H; subst; lia).
    destruct (parse_ok_stable buf n comp E) as [[L1 L2] _].
    assert (LS : (length (skipn n buf) <= k)%nat) by (rewrite skipn_length; lia).
    assert (LL : length (skipn n buf) = (length buf - n)%nat) by apply skipn_length.
    destruct comp; try (inversion H; subst; lia);
      (eapply IH in H; [|exact LS]; lia).
Qed.

(* a completed response leaves the builder in its initial state *)
Lemma bparse_complete_initial : forall k buf st st' rest resp,
  (length buf <= k)%nat -> bparse_all st buf = (st', rest, Complete resp) -> st' = Initial.
Proof.
  induction k as [|k IH]; intros buf st st' rest resp Hk B.
  - destruct buf; [|simpl in Hk; lia]. rewrite bparse_all_unfold in B. discriminate.
  - rewrite bparse_all_unfold in B. destruct buf as [|c buf']; [discriminate|]. set (buf := c :: buf') in *.
    rewrite bstep_nonempty in B by discriminate. unfold bstep_ne in B.
    destruct (parse_component buf) as [n comp| | |] eqn:E; try discriminate.
    destruct (parse_ok_stable buf n comp E) as [[L1 L2] _].
    assert (LS : (length (skipn n buf) <= k)%nat) by (rewrite skipn_length; lia).
    destruct comp; try (inversion B; subst; reflexivity); (eapply IH; [exact LS | exact B]).
Qed.

(* a completed response consumed at least one byte *)
Lemma bparse_complete_lt st buf st' rest resp :
  bparse_all st buf = (st', rest, Complete resp) -> (length rest < length buf)%nat.
Proof.
  intros B. rewrite bparse_all_unfold in B.
  destruct buf as [|c buf']; [discriminate|]. set (buf := c :: buf') in *.
  rewrite bstep_nonempty in B by discriminate. unfold bstep_ne in B.
  destruct (parse_component buf) as [n comp| | |] eqn:E; try discriminate.
  destruct (parse_ok_stable buf n comp E) as [[L1 L2] _].
  assert (LL : length (skipn n buf) = (length buf - n)%nat) by apply skipn_length.
  destruct comp; try (inversion B; subst; lia); (apply bparse_rest_le in B; lia).
Qed.

(* ---------- the receive loop against the reference ---------- *)

Definition pol_ok (p : policy) (valid : nat) : Prop :=
  match p with Blocking cap => (valid < cap)%nat | Async => True end.

Definition wf_reader (r : reader) : Prop := Forall (fun c => c <> []) (chunks r).

Definition ref_from (st : bstate) (all : bytes) (t : tail_kind) : outcome * bytes :=
  match bparse_all st all with
  | (_, rest, Complete resp) => (Resp resp, rest)
  | (_, rest, BInvalid) => (ErrInvalid, rest)
  | (st', rest, NeedMore) =>
    match t with
    | TFail k => (ErrIo k, rest)
    | TEof => ((if in_progress st' || negb (beq rest []) then ErrEof else CleanEof), rest)
    end
  end.

Lemma ref_receive_from all t : ref_receive all t = ref_from Initial all t.
Proof. reflexivity. Qed.

Lemma pol_ok_not_overfull p v : pol_ok p v -> overfull p v = false.
Proof. destruct p; simpl; intros H; [|reflexivity]. destruct (Nat.ltb cap v) eqn:E; [|reflexivity]. apply PeanoNat.Nat.ltb_lt in E. lia. Qed.

Lemma pol_ok_space p v : pol_ok p v -> (1 <= space_of p v)%nat.
Proof. destruct p; simpl; intros H; lia. Qed.

Lemma pol_ok_after p v d : pol_ok p v -> (d <= space_of p v)%nat -> pol_ok (after_read p (v + d)) (v + d).
Proof.
  destruct p as [cap|]; simpl; [|auto]. intros H Hd.
  destruct (Nat.eqb (v + d) cap) eqn:E; simpl.
  - apply Nat.eqb_eq in E. lia.
  - apply Nat.eqb_neq in E. lia.
Qed.

Lemma pol_ok_le p v w : pol_ok p v -> (w <= v)%nat -> pol_ok p w.
Proof. destruct p; simpl; intros; [lia | auto]. Qed.

(* what one read returns *)
Lemma read_spec space r : wf_reader r -> (1 <= space)%nat ->
  match read space r with
  | (Some k, _, r') => chunks r = [] /\ rtail r = TFail k /\ r' = r
  | (None, [], r') => chunks r = [] /\ rtail r = TEof /\ r' = r
  | (None, data, r') => data <> [] /\ (length data <= space)%nat /\ rtail r' = rtail r /\ wf_reader r' /\
                        concat (chunks r) = data ++ concat (chunks r')
  end.
Proof.
  intros W Hs. unfold read. destruct r as [cs t]. simpl in *. destruct cs as [|c cs].
  - destruct t; simpl; auto.
  - unfold wf_reader in W. simpl in W. inversion W as [|? ? Hc Hcs]; subst.
    destruct (Nat.leb (length c) space) eqn:E.
    + apply Nat.leb_le in E. destruct c as [|x c]; [congruence|]. simpl.
      repeat split; auto; try discriminate.
    + apply Nat.leb_gt in E.
      destruct (firstn space c) as [|x fs] eqn:F.
      * exfalso. destruct c; [congruence|]. destruct space; [lia|]. simpl in F. discriminate.
      * rewrite <- F. repeat split.
        -- rewrite F. discriminate.
        -- rewrite firstn_length. lia.
        -- unfold wf_reader. simpl. constructor; [|exact Hcs].
           intro Z. apply (f_equal (@length N)) in Z. rewrite skipn_length in Z. simpl in Z. lia.
        -- simpl. rewrite app_assoc, firstn_skipn. reflexivity.
Qed.

Definition stream (buf : bytes) (r : reader) : bytes := buf ++ concat (chunks r).

Theorem recv_loop_ref : forall fuel p st buf r,
  wf_reader r -> pol_ok p (length buf) -> (reader_bytes r < fuel)%nat ->
  match recv_loop fuel p st buf r with
  | (o, c', r') =>
    o = fst (ref_from st (stream buf r) (rtail r)) /\
    (forall resp, o = Resp resp ->
       stream (c_buf c') r' = snd (ref_from st (stream buf r) (rtail r)) /\
       wf_reader r' /\ rtail r' = rtail r /\ pol_ok (c_policy c') (length (c_buf c')) /\ c_state c' = Initial /\
       (length (stream (c_buf c') r') < length (stream buf r))%nat)
  end.
Proof.
  induction fuel as [|fuel IH]; intros p st buf r W P F; [lia|].
  cbn [recv_loop]. rewrite (pol_ok_not_overfull p _ P).
  pose proof (bparse_app (length buf) buf st (concat (chunks r)) (le_n _)) as A. unfold app_verdict in A.
  unfold ref_from, stream.
  destruct (bparse_all st buf) as [[st' rest] v] eqn:B.
  pose proof (bparse_rest_le st buf st' rest v B) as RL.
  destruct v as [resp| |].
  - rewrite A. simpl. split; [reflexivity|]. intros resp' _. repeat split; auto.
    + eapply pol_ok_le; eauto.
    + eapply bparse_complete_initial; [apply le_n | exact B].
    + (* progress: a complete response consumed at least one byte *)
      rewrite !app_length. pose proof (bparse_complete_lt _ _ _ _ _ B). lia.
  - (* NeedMore *)
    assert (P' : pol_ok p (length rest)) by (eapply pol_ok_le; eauto).
    pose proof (read_spec (space_of p (length rest)) r W (pol_ok_space p _ P')) as R.
    destruct (read (space_of p (length rest)) r) as [[e data] r'] eqn:Rd.
    destruct e as [k|].
    + destruct R as (C & T & ->). rewrite C in *. simpl in *. rewrite app_nil_r in *. rewrite B, T.
      split; [reflexivity | intros; discriminate].
    + destruct data as [|d data].
      * destruct R as (C & T & ->). rewrite C in *. simpl in *. rewrite app_nil_r in *. rewrite B, T.
        split; [reflexivity|]. intros resp H. destruct (in_progress st' || negb (beq rest [])); discriminate.
      * destruct R as (Dne & Dl & T & W' & Cc).
        assert (F' : (reader_bytes r' < fuel)%nat).
        { unfold reader_bytes in *. rewrite Cc, app_length in F. simpl in *. lia. }
        assert (P2 : pol_ok (after_read p (length (rest ++ d :: data))) (length (rest ++ d :: data))).
        { rewrite app_length. apply pol_ok_after; assumption. }
        specialize (IH _ st' (rest ++ d :: data) r' W' P2 F').
        destruct (recv_loop fuel _ st' (rest ++ d :: data) r') as [[o c'] r''].
        unfold ref_from, stream in IH. rewrite T in IH.
        rewrite <- app_assoc, <- Cc in IH. rewrite <- A in IH.
        destruct IH as [I1 I2]. split; [exact I1|].
        intros resp H. destruct (I2 resp H) as (J1 & J2 & J3 & J4 & J5 & J6). repeat split; auto.
        rewrite !app_length in *. rewrite Cc, !app_length in *. lia.
  - destruct A as (st'' & rest' & A). rewrite A. simpl. split; [reflexivity | intros; discriminate].
Qed.

(* ---------- repeated receive = reference run, whatever the segmentation ---------- *)

Definition good_outcome (o : outcome) : Prop := o <> Panic /\ o <> OutOfFuel.

Lemma ref_from_good st all t : good_outcome (fst (ref_from st all t)).
Proof.
  unfold ref_from, good_outcome. destruct (bparse_all st all) as [[s r] [x| |]]; simpl; try (split; discriminate).
  destruct t; [destruct (in_progress s || negb (beq r []))|]; split; discriminate.
Qed.

Theorem run_ref : forall fuel c r,
  wf_reader r -> pol_ok (c_policy c) (length (c_buf c)) -> c_state c = Initial ->
  run fuel 0 c r = ref_run fuel (stream (c_buf c) r) (rtail r).
Proof.
  induction fuel as [|fuel IH]; intros c r W P S0; [reflexivity|].
  cbn [run ref_run]. unfold receive. rewrite S0.
  pose proof (recv_loop_ref (S (reader_bytes r)) (c_policy c) Initial (c_buf c) r W P (Nat.lt_succ_diag_r _)) as H.
  destruct (recv_loop (S (reader_bytes r)) (c_policy c) Initial (c_buf c) r) as [[o c'] r'].
  rewrite ref_receive_from. destruct H as [H1 H2].
  destruct (ref_from Initial (stream (c_buf c) r) (rtail r)) as [o2 rest2]. simpl in *. subst o2.
  destruct o as [resp| | | | | |]; try reflexivity.
  destruct (H2 resp eq_refl) as (J1 & J2 & J3 & J4 & J5 & _). rewrite <- J1, <- J3. f_equal. apply IH; assumption.
Qed.

Theorem run_no_panic : forall fuel c r o,
  wf_reader r -> pol_ok (c_policy c) (length (c_buf c)) -> c_state c = Initial -> In o (run fuel 0 c r) -> good_outcome o.
Proof.
  intros fuel c r o W P S0. rewrite run_ref by assumption.
  generalize (stream (c_buf c) r). induction fuel as [|fuel IH]; intros all H; [destruct H|].
  cbn [ref_run] in H. rewrite ref_receive_from in H.
  pose proof (ref_from_good Initial all (rtail r)) as G.
  destruct (ref_from Initial all (rtail r)) as [o2 rest2]. simpl in G.
  destruct o2; try (destruct H as [H|[]]; subst; exact G).
  destruct H as [H|H]; [subst; exact G | eauto].
Qed.

(* the run is long enough: with fuel above the stream length it ends in a terminal outcome *)
Lemma ref_run_terminal : forall fuel all t,
  (length all < fuel)%nat -> exists rs o, ref_run fuel all t = map Resp rs ++ [o] /\ (forall x, o <> Resp x).
Proof.
  induction fuel as [|fuel IH]; intros all t H; [lia|].
  cbn [ref_run]. rewrite ref_receive_from.
  destruct (ref_from Initial all t) as [o rest] eqn:E.
  destruct o as [resp| | | | | |].
  2-7: (eexists [], _; split; [reflexivity | discriminate]).
  assert (L : (length rest < length all)%nat).
  { unfold ref_from in E. destruct (bparse_all Initial all) as [[s r] [x| |]] eqn:B.
    - inversion E; subst. eapply bparse_complete_lt; eauto.
    - destruct t; [destruct (in_progress s || negb (beq r []))|]; discriminate.
    - discriminate. }
  destruct (IH rest t ltac:(lia)) as (rs & o & R & T). exists (resp :: rs), o. rewrite R. split; [reflexivity | exact T].
Qed.

(* ---------- connect against its reference ---------- *)

Inductive ref_conn :=
  | RConnected (version : bytes) (rest : bytes)
  | RConnInvalid | RConnEof | RConnIo (k : N).

Definition ref_connect (all : bytes) (t : tail_kind) : ref_conn :=
  match p_greeting all with
  | ROk n v => RConnected v (skipn n all)
  | RError | RFailure => RConnInvalid
  | RIncomplete => match t with TEof => RConnEof | TFail k => RConnIo k end
  end.

Definition conn_matches (o : connect_outcome) (r' : reader) (x : ref_conn) (t : tail_kind) : Prop :=
  match o, x with
  | Connected v c, RConnected v' rest =>
      v = v' /\ stream (c_buf c) r' = rest /\ wf_reader r' /\ rtail r' = t /\ pol_ok (c_policy c) (length (c_buf c)) /\
      c_state c = Initial
  | ConnInvalid, RConnInvalid => True
  | ConnEof, RConnEof => True
  | ConnIo k, RConnIo k' => k = k'
  | _, _ => False
  end.

Theorem connect_loop_ref : forall fuel p buf r,
  wf_reader r -> pol_ok p (length buf) -> (reader_bytes r < fuel)%nat ->
  (buf = [] \/ p_greeting buf = RIncomplete) ->
  let '(o, r') := connect_loop fuel p buf r in
  conn_matches o r' (ref_connect (stream buf r) (rtail r)) (rtail r).
Proof.
  induction fuel as [|fuel IH]; intros p buf r W P F Hb; [lia|].
  cbn [connect_loop]. rewrite (pol_ok_not_overfull p _ P).
  pose proof (read_spec (space_of p (length buf)) r W (pol_ok_space p _ P)) as R.
  assert (Hinc : p_greeting buf = RIncomplete).
  { destruct Hb as [->|H]; [reflexivity | exact H]. }
  destruct (read (space_of p (length buf)) r) as [[e data] r'] eqn:Rd.
  unfold ref_connect, stream.
  destruct e as [k|].
  - destruct R as (C & T & ->). rewrite C. simpl. rewrite app_nil_r, Hinc, T. simpl. reflexivity.
  - destruct data as [|d data].
    + destruct R as (C & T & ->). rewrite C. simpl. rewrite app_nil_r, Hinc, T. simpl. exact I.
    + destruct R as (Dne & Dl & T & W' & Cc). rewrite Cc, app_assoc.
      set (buf' := buf ++ d :: data) in *.
      assert (P2 : pol_ok (after_read p (length buf')) (length buf')).
      { unfold buf'. rewrite app_length. apply pol_ok_after; assumption. }
      destruct (good_greeting buf') as (G1 & G2 & G3).
      destruct (p_greeting buf') as [n v| | |] eqn:E.
      * destruct (G1 n v eq_refl) as [L S]. rewrite (S (concat (chunks r'))). simpl.
        rewrite skipn_app_le by lia. repeat split; auto.
        eapply pol_ok_le; [exact P2|]. rewrite skipn_length. lia.
      * assert (F' : (reader_bytes r' < fuel)%nat).
        { unfold reader_bytes in *. rewrite Cc, app_length in F. simpl in *. lia. }
        specialize (IH _ buf' r' W' P2 F' (or_intror E)).
        destruct (connect_loop fuel _ buf' r') as [o r'']. unfold ref_connect, stream in IH. rewrite T in IH. exact IH.
      * rewrite (G2 eq_refl). simpl. exact I.
      * rewrite (G3 eq_refl). simpl. exact I.
Qed.

Theorem connect_ref : forall p r,
  wf_reader r -> pol_ok p 0 ->
  let '(o, r') := connect p r in
  conn_matches o r' (ref_connect (concat (chunks r)) (rtail r)) (rtail r).
Proof.
  intros p r W P. unfold connect.
  apply (connect_loop_ref (S (reader_bytes r)) p [] r W P (Nat.lt_succ_diag_r _) (or_introl eq_refl)).
Qed.

(* ---------- invariants survive every outcome, so later calls are safe too ---------- *)

Lemma recv_loop_inv : forall fuel p st buf r,
  wf_reader r -> pol_ok p (length buf) ->
  match recv_loop fuel p st buf r with
  | (o, c', r') => wf_reader r' /\ rtail r' = rtail r /\ pol_ok (c_policy c') (length (c_buf c')) /\
                   (reader_bytes r' <= reader_bytes r)%nat /\ o <> Panic
  end.
Proof.
  induction fuel as [|fuel IH]; intros p st buf r W P.
  - cbn [recv_loop]. rewrite (pol_ok_not_overfull p _ P).
    destruct (bparse_all st buf) as [[st' rest] v] eqn:B.
    pose proof (bparse_rest_le st buf st' rest v B) as RL.
    destruct v; simpl; repeat split; auto; try (eapply pol_ok_le; eauto); discriminate.
  - cbn [recv_loop]. rewrite (pol_ok_not_overfull p _ P).
    destruct (bparse_all st buf) as [[st' rest] v] eqn:B.
    pose proof (bparse_rest_le st buf st' rest v B) as RL.
    assert (P' : pol_ok p (length rest)) by (eapply pol_ok_le; eauto).
    destruct v; simpl; try (repeat split; auto; discriminate).
    pose proof (read_spec (space_of p (length rest)) r W (pol_ok_space p _ P')) as R.
    destruct (read (space_of p (length rest)) r) as [[e data] r'] eqn:Rd.
    destruct e as [k|].
    + destruct R as (C & T & ->). simpl. repeat split; auto. discriminate.
    + destruct data as [|d data].
      * destruct R as (C & T & ->). simpl. repeat split; auto.
        destruct (in_progress st' || negb (beq rest [])); discriminate.
      * destruct R as (Dne & Dl & T & W' & Cc).
        assert (P2 : pol_ok (after_read p (length (rest ++ d :: data))) (length (rest ++ d :: data))).
        { rewrite app_length. apply pol_ok_after; assumption. }
        specialize (IH _ st' (rest ++ d :: data) r' W' P2).
        destruct (recv_loop fuel _ st' (rest ++ d :: data) r') as [[o c'] r''].
        destruct IH as (I1 & I2 & I3 & I4 & I5). repeat split; auto; try congruence.
        unfold reader_bytes in *. rewrite Cc, app_length. lia.
Qed.

Lemma receive_outcome_good c r :
  wf_reader r -> pol_ok (c_policy c) (length (c_buf c)) ->
  match receive c r with (o, _, _) => good_outcome o end.
Proof.
  intros W P. unfold receive.
  pose proof (recv_loop_ref (S (reader_bytes r)) (c_policy c) (c_state c) (c_buf c) r W P (Nat.lt_succ_diag_r _)) as H.
  destruct (recv_loop _ _ _ _ _) as [[o c'] r']. destruct H as [-> _]. apply ref_from_good.
Qed.

Theorem run_extra_good : forall fuel extra c r o,
  wf_reader r -> pol_ok (c_policy c) (length (c_buf c)) -> In o (run fuel extra c r) -> good_outcome o.
Proof.
  induction fuel as [|fuel IH]; intros extra c r o W P H; [destruct H|].
  cbn [run] in H. pose proof (receive_outcome_good c r W P) as G.
  unfold receive in *.
  pose proof (recv_loop_inv (S (reader_bytes r)) (c_policy c) (c_state c) (c_buf c) r W P) as I.
  destruct (recv_loop _ _ _ _ _) as [[o1 c'] r']. destruct I as (I1 & I2 & I3 & _).
  destruct o1; (destruct H as [H|H]; [subst; exact G|]);
    try (destruct extra as [|e]; [destruct H | eapply IH; eauto]).
  eapply IH; eauto.
Qed.
