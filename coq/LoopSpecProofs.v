(* LoopSpecProofs.v — the invariant of the abstract loop system holds along every schedule. *)
From Coq Require Import Arith.
From MPD Require Import Bytes Tables ParserModel BuilderModel ConnModel CommandModel LoopModel LoopProofs LoopSpec.
Open Scope N_scope.

Lemma idle_noidle_distinct : beq idle_line noidle_line = false /\ beq noidle_line idle_line = false.
Proof. split; vm_compute; reflexivity. Qed.

Lemma beq_neq x y : x <> y -> beq x y = false.
Proof. intros H. destruct (beq x y) eqn:E; [apply beq_eq in E; contradiction | reflexivity]. Qed.

Lemma changed_idle_frame ns : changed_of (idle_frame ns) = ns.
Proof.
  unfold changed_of, idle_frame. cbn [f_fields].
  induction ns as [|n ns IH]; cbn [map filter fst snd]; [reflexivity|].
  rewrite beq_refl. cbn [map snd]. f_equal. exact IH.
Qed.

Section Proofs.
Variable reply_fn : bytes -> response.

Notation asys := LoopSpec.asys.
Notation astep := (LoopSpec.astep reply_fn).
Notation Inv := (LoopSpec.Inv reply_fn).
Notation shape := LoopSpec.shape.

Lemma apply_outs_events s ns rest :
  apply_outs (s) (events_of (idle_frame ns) ++ rest) =
  apply_outs (mkA (a_pt s) (a_queue s) (a_c2s s) (a_idle s) (a_pending s) (a_s2c s) (a_violated s)
                  (a_issued s) (a_sent s) (a_reported s) (a_delivered s ++ ns) (a_replies s)) rest.
Proof.
  unfold events_of. rewrite changed_idle_frame.
  revert s. induction ns as [|n ns IH]; intros s; cbn [map app apply_outs].
  - rewrite app_nil_r. destruct s; reflexivity.
  - rewrite IH. cbn. rewrite <- app_assoc. reflexivity.
Qed.

Lemma inv0 : Inv (a0).
Proof.
  unfold LoopSpec.Inv, a0, shape; cbn.
  split; [left; auto|]. split; [reflexivity|]. split; [constructor|].
  split; [intros q []|]. split; [reflexivity|]. split; [reflexivity|]. intros id x [].
Qed.

Lemma single_idle ns : single_frame (resp_of reply_fn (SIdle ns)) = Some (inl (idle_frame ns)).
Proof. reflexivity. Qed.

Lemma wf_beq q : wf_req q -> beq (q_bytes q) idle_line = false /\ beq (q_bytes q) noidle_line = false.
Proof. intros [H1 H2]. split; apply beq_neq; assumption. Qed.

Ltac break :=
  repeat match goal with
         | H : _ /\ _ |- _ => destruct H
         | H : exists _, _ |- _ => destruct H
         | H : _ \/ _ |- _ => destruct H
         end.

Lemma in_app_l {A} (x : A) l m : In x l -> In x (l ++ m).
Proof. intros; apply in_or_app; left; assumption. Qed.

Lemma shape_issued_mono pt queue queue' c2s idle pending s2c viol issued sent sent' reported reported' delivered delivered' replies replies' extra :
  shape (mkA pt queue c2s idle pending s2c viol issued sent reported delivered replies) ->
  shape (mkA pt queue' c2s idle pending s2c viol (issued ++ extra) sent' reported' delivered' replies').
Proof.
  unfold shape; cbn. destruct pt; try tauto.
  - intros (Hw & Hin & H). split; [exact Hw|]. split; [apply in_app_l; exact Hin | exact H].
  - intros (q & H1 & H2 & H3 & H4). exists q. split; [exact H1|]. split; [exact H2|]. split; [apply in_app_l; exact H3 | exact H4].
Qed.

Opaque idle_line noidle_line.

Ltac simp_beq :=
  repeat first
    [ rewrite beq_refl
    | rewrite (proj1 idle_noidle_distinct)
    | rewrite (proj2 idle_noidle_distinct)
    | match goal with
      | H : wf_req ?q |- context [beq (q_bytes ?q) idle_line] => rewrite (proj1 (wf_beq q H))
      | H : wf_req ?q |- context [beq (q_bytes ?q) noidle_line] => rewrite (proj2 (wf_beq q H))
      end ].

Lemma inv_step s l : wf_label l -> Inv s -> Inv (astep s l).
Proof.
  intros Hl HI.
  destruct s as [pt queue c2s idle pending s2c viol issued sent reported delivered replies].
  pose proof HI as (Hsh & Hv & Hq & Hqi & Hev & Hfifo & Hrep).
  cbn [a_pt a_queue a_c2s a_idle a_pending a_s2c a_violated a_issued a_sent a_reported a_delivered a_replies] in *.
  destruct l as [q | | | | | n].
  - (* LIssue *)
    unfold LoopSpec.Inv, astep, LoopSpec.astep; cbn.
    split; [eapply shape_issued_mono; exact Hsh|].
    split; [exact Hv|].
    split; [apply Forall_app; split; [exact Hq | constructor; [exact Hl | constructor]]|].
    split; [intros q0 H0; apply in_app_or in H0; destruct H0 as [H0|[H0|[]]];
            [apply in_app_l; auto | subst; apply in_or_app; right; left; reflexivity]|].
    split; [exact Hev|].
    split; [rewrite <- Hfifo; rewrite !app_assoc; reflexivity|].
    intros id x Hin. destruct (Hrep id x Hin) as (q0 & Ha & Hb & Hc). exists q0. split; [apply in_app_l; exact Ha | auto].
  - (* LTake *)
    unfold astep, LoopSpec.astep; cbn [a_queue a_pt].
    destruct queue as [|q rest]; [exact HI|].
    pose proof (Forall_inv Hq) as Hwq; pose proof (Forall_inv_tail Hq) as Hq'.
    assert (Hinq : In q issued) by (apply Hqi; left; reflexivity).
    unfold shape in Hsh; cbn [a_pt a_c2s a_idle a_s2c a_pending a_issued] in Hsh.
    destruct pt as [ | q0 | id0 | | ]; cbn [wants_cmd]; try exact HI.
    + (* PIdle -> PCancel q *)
      unfold client; cbn. unfold LoopSpec.Inv, shape; cbn.
      split.
      { split; [exact Hwq|]. split; [exact Hinq|].
        revert Hfifo Hev; break; subst c2s idle s2c; cbn; [left | right; left | right; right; left]; eauto. }
      split; [exact Hv|]. split; [exact Hq'|].
      split; [intros q1 H1; apply Hqi; right; exact H1|].
      split; [exact Hev|]. split; [rewrite app_nil_r; exact Hfifo|]. exact Hrep.
    + (* PWindow -> PWait *)
      destruct Hsh as (Hc & Hi & Hs); subst c2s idle s2c.
      unfold client; cbn. unfold LoopSpec.Inv, shape; cbn.
      split.
      { exists q. split; [reflexivity|]. split; [exact Hwq|]. split; [exact Hinq|]. split; [reflexivity|]. right; left; auto. }
      split; [exact Hv|]. split; [exact Hq'|].
      split; [intros q1 H1; apply Hqi; right; exact H1|].
      split; [exact Hev|]. split; [rewrite <- Hfifo; cbn; rewrite <- app_assoc; reflexivity|]. exact Hrep.
  - (* LRecv *)
    unfold astep, LoopSpec.astep; cbn [a_s2c a_pt].
    destruct s2c as [|r rest]; [exact HI|].
    unfold shape in Hsh; cbn [a_pt a_c2s a_idle a_s2c a_pending a_issued] in Hsh.
    destruct pt as [ | q0 | id0 | | ]; cbn [wants_recv]; try exact HI.
    + (* PIdle: only I3 has a response in flight *)
      destruct Hsh as [(_ & _ & Hs) | [(_ & _ & _ & Hs) | (ns & Hc & Hi & Hs)]]; try discriminate Hs.
      inversion Hs; subst r rest c2s idle. clear Hs.
      unfold client. cbn [a_pt cstep]. rewrite single_idle. cbn [a_pt a_queue a_c2s a_idle a_pending a_s2c a_violated a_issued a_sent a_reported a_delivered a_replies sent_by].
      rewrite apply_outs_events. cbn.
      unfold LoopSpec.Inv, shape; cbn.
      split; [left; auto|]. split; [exact Hv|]. split; [exact Hq|]. split; [exact Hqi|].
      split; [cbn in Hev; rewrite app_nil_r in *; exact Hev|].
      split; [rewrite app_nil_r; exact Hfifo|]. exact Hrep.
    + (* PCancel: N3 / N4 *)
      destruct Hsh as (Hw & Hin & Hsh).
      destruct Hsh as [(_ & _ & Hs) | [(_ & _ & _ & Hs) | [(ns & Hc & Hi & Hs) | (ns & Hc & Hi & Hs)]]]; try discriminate Hs;
        inversion Hs; subst r rest c2s idle; clear Hs;
        unfold client; cbn [a_pt cstep]; rewrite single_idle;
        cbn [a_pt a_queue a_c2s a_idle a_pending a_s2c a_violated a_issued a_sent a_reported a_delivered a_replies sent_by];
        rewrite apply_outs_events; cbn;
        unfold LoopSpec.Inv, shape; cbn;
        (split; [exists q0; split; [reflexivity|]; split; [exact Hw|]; split; [exact Hin|]; split; [reflexivity|]; auto|]);
        (split; [exact Hv|]); (split; [exact Hq|]); (split; [exact Hqi|]);
        (split; [cbn in Hev; rewrite app_nil_r in *; exact Hev|]);
        (split; [cbn in Hfifo; rewrite <- app_assoc; exact Hfifo|]); exact Hrep.
    + (* PWait: W2 *)
      destruct Hsh as (q & Hid & Hw & Hin & Hi & Hsh).
      destruct Hsh as [(_ & Hs) | [(_ & Hs) | (Hc & Hs)]]; try discriminate Hs.
      inversion Hs; subst r rest c2s idle id0. clear Hs.
      unfold client; cbn.
      unfold LoopSpec.Inv, shape; cbn.
      split; [auto|]. split; [exact Hv|]. split; [exact Hq|]. split; [exact Hqi|].
      split; [exact Hev|]. split; [rewrite app_nil_r; exact Hfifo|].
      intros id x Hx. apply in_app_or in Hx. destruct Hx as [Hx | [Hx | []]].
      * exact (Hrep id x Hx).
      * inversion Hx; subst. exists q. auto.
  - (* LTimeout *)
    unfold astep, LoopSpec.astep; cbn [a_pt].
    unfold shape in Hsh; cbn [a_pt a_c2s a_idle a_s2c a_pending a_issued] in Hsh.
    destruct pt; try exact HI.
    destruct Hsh as (Hc & Hi & Hs); subst c2s idle s2c.
    unfold client; cbn. unfold LoopSpec.Inv, shape; cbn.
    split; [left; auto|]. split; [exact Hv|]. split; [exact Hq|]. split; [exact Hqi|].
    split; [exact Hev|]. split; [rewrite app_nil_r; exact Hfifo|]. exact Hrep.
  - (* LServe *)
    unfold astep, LoopSpec.astep, serve; cbn [a_c2s a_idle a_pending a_s2c a_pt].
    unfold shape in Hsh; cbn [a_pt a_c2s a_idle a_s2c a_pending a_issued] in Hsh.
    destruct pt as [ | q0 | id0 | | ].
    + destruct Hsh as [(Hc & Hi & Hs) | [(Hc & Hi & Hp & Hs) | (ns & Hc & Hi & Hs)]]; subst c2s idle s2c.
      * simp_beq. destruct pending as [|p ps].
        { unfold LoopSpec.Inv, shape; cbn. split; [right; left; auto|]. repeat split; assumption. }
        { unfold flush, LoopSpec.Inv, shape; cbn. split; [right; right; eexists; auto|].
          split; [exact Hv|]. split; [exact Hq|]. split; [exact Hqi|].
          split; [cbn in Hev; rewrite app_nil_r in *; rewrite Hev; reflexivity|]. split; [exact Hfifo|]. exact Hrep. }
      * unfold LoopSpec.Inv, shape; cbn. split; [right; left; auto|]. repeat split; assumption.
      * unfold LoopSpec.Inv, shape; cbn. split; [right; right; eexists; auto|]. repeat split; assumption.
    + destruct Hsh as (Hw & Hin & Hsh).
      destruct Hsh as [(Hc & Hi & Hs) | [(Hc & Hi & Hp & Hs) | [(ns & Hc & Hi & Hs) | (ns & Hc & Hi & Hs)]]]; subst c2s idle s2c.
      * simp_beq. destruct pending as [|p ps].
        { unfold LoopSpec.Inv, shape; cbn. split; [split; [exact Hw|]; split; [exact Hin|]; right; left; auto|]. repeat split; assumption. }
        { unfold flush, LoopSpec.Inv, shape; cbn. split; [split; [exact Hw|]; split; [exact Hin|]; right; right; left; eexists; auto|].
          split; [exact Hv|]. split; [exact Hq|]. split; [exact Hqi|].
          split; [cbn in Hev; rewrite app_nil_r in *; rewrite Hev; reflexivity|]. split; [exact Hfifo|]. exact Hrep. }
      * subst pending. simp_beq. unfold flush, LoopSpec.Inv, shape; cbn.
        split; [split; [exact Hw|]; split; [exact Hin|]; right; right; right; eexists; auto|].
        split; [exact Hv|]. split; [exact Hq|]. split; [exact Hqi|].
        split; [cbn in Hev; rewrite !app_nil_r in *; exact Hev|]. split; [exact Hfifo|]. exact Hrep.
      * simp_beq. unfold LoopSpec.Inv, shape; cbn.
        split; [split; [exact Hw|]; split; [exact Hin|]; right; right; right; eexists; auto|]. repeat split; assumption.
      * unfold LoopSpec.Inv, shape; cbn.
        split; [split; [exact Hw|]; split; [exact Hin|]; right; right; right; eexists; auto|]. repeat split; assumption.
    + destruct Hsh as (q & Hid & Hw & Hin & Hi & Hsh).
      destruct Hsh as [(Hc & Hs) | [(Hc & Hs) | (Hc & Hs)]]; subst c2s idle s2c id0.
      * simp_beq. unfold LoopSpec.Inv, shape; cbn.
        split; [exists q; split; [reflexivity|]; split; [exact Hw|]; split; [exact Hin|]; split; [reflexivity|]; right; left; auto|].
        repeat split; assumption.
      * simp_beq. unfold LoopSpec.Inv, shape; cbn.
        split; [exists q; split; [reflexivity|]; split; [exact Hw|]; split; [exact Hin|]; split; [reflexivity|]; right; right; auto|].
        repeat split; assumption.
      * exact HI.
    + destruct Hsh as (Hc & Hi & Hs); subst c2s idle s2c.
      unfold LoopSpec.Inv, shape; cbn. repeat split; assumption.
    + contradiction.
  - (* LNotify *)
    unfold astep, LoopSpec.astep; cbn [a_c2s a_idle a_pending a_s2c a_pt].
    unfold shape in Hsh; cbn [a_pt a_c2s a_idle a_s2c a_pending a_issued] in Hsh.
    destruct pt as [ | q0 | id0 | | ].
    + destruct Hsh as [(Hc & Hi & Hs) | [(Hc & Hi & Hp & Hs) | (ns & Hc & Hi & Hs)]]; subst c2s idle s2c.
      * unfold LoopSpec.Inv, shape; cbn. split; [left; auto|]. repeat split; assumption.
      * subst pending. unfold flush, LoopSpec.Inv, shape; cbn. split; [right; right; eexists; auto|].
        split; [exact Hv|]. split; [exact Hq|]. split; [exact Hqi|].
        split; [cbn in Hev; rewrite app_nil_r in *; rewrite Hev; reflexivity|]. split; [exact Hfifo|]. exact Hrep.
      * unfold LoopSpec.Inv, shape; cbn. split; [right; right; eexists; auto|]. repeat split; assumption.
    + destruct Hsh as (Hw & Hin & Hsh).
      destruct Hsh as [(Hc & Hi & Hs) | [(Hc & Hi & Hp & Hs) | [(ns & Hc & Hi & Hs) | (ns & Hc & Hi & Hs)]]]; subst c2s idle s2c.
      * unfold LoopSpec.Inv, shape; cbn. split; [split; [exact Hw|]; split; [exact Hin|]; left; auto|]. repeat split; assumption.
      * subst pending. unfold flush, LoopSpec.Inv, shape; cbn.
        split; [split; [exact Hw|]; split; [exact Hin|]; right; right; left; eexists; auto|].
        split; [exact Hv|]. split; [exact Hq|]. split; [exact Hqi|].
        split; [cbn in Hev; rewrite app_nil_r in *; rewrite Hev; reflexivity|]. split; [exact Hfifo|]. exact Hrep.
      * unfold LoopSpec.Inv, shape; cbn.
        split; [split; [exact Hw|]; split; [exact Hin|]; right; right; left; eexists; auto|]. repeat split; assumption.
      * unfold LoopSpec.Inv, shape; cbn.
        split; [split; [exact Hw|]; split; [exact Hin|]; right; right; right; eexists; auto|]. repeat split; assumption.
    + destruct Hsh as (q & Hid & Hw & Hin & Hi & Hsh). subst idle.
      unfold LoopSpec.Inv, shape; cbn.
      split; [exists q; split; [exact Hid|]; split; [exact Hw|]; split; [exact Hin|]; split; [reflexivity|]; exact Hsh|].
      repeat split; assumption.
    + destruct Hsh as (Hc & Hi & Hs); subst c2s idle s2c.
      unfold LoopSpec.Inv, shape; cbn. repeat split; assumption.
    + contradiction.
Qed.


Lemma inv_fold sch : forall s, Forall wf_label sch -> Inv s -> Inv (fold_left astep sch s).
Proof.
  induction sch as [|l sch IH]; intros s Hw Hs; cbn [fold_left]; [exact Hs|].
  inversion Hw; subst. apply IH; [assumption|]. apply inv_step; assumption.
Qed.

Theorem inv_run sch : Forall wf_label sch -> Inv (arun reply_fn sch).
Proof. intros H. unfold arun. apply inv_fold; [exact H | exact inv0]. Qed.

(* ---- C05 ---- *)
Theorem never_violated sch : Forall wf_label sch -> a_violated (arun reply_fn sch) = false.
Proof. intros H. destruct (inv_run sch H) as (_ & Hv & _). exact Hv. Qed.

(* while the server waits in idle, nothing but (at most one) noidle is on its way to it *)
Theorem idle_only_noidle sch : Forall wf_label sch ->
  a_idle (arun reply_fn sch) = true ->
  a_c2s (arun reply_fn sch) = [] \/ a_c2s (arun reply_fn sch) = [noidle_line].
Proof.
  intros H Hi. destruct (inv_run sch H) as (Hsh & _). unfold shape in Hsh.
  destruct (a_pt (arun reply_fn sch)).
  - destruct Hsh as [(Hc & Hi' & _) | [(Hc & _) | (ns & Hc & Hi' & _)]]; try congruence. left; exact Hc.
  - destruct Hsh as (_ & _ & [(Hc & Hi' & _) | [(Hc & _) | [(ns & Hc & Hi' & _) | (ns & Hc & Hi' & _)]]]); try congruence. right; exact Hc.
  - destruct Hsh as (q & _ & _ & _ & Hi' & _). congruence.
  - destruct Hsh as (_ & Hi' & _). congruence.
  - contradiction.
Qed.

(* a request's bytes are on the wire, or its reply is, only while the loop waits for exactly that
   request; at most one request is outstanding *)
Definition is_req (u : bytes) : bool := negb (beq u idle_line) && negb (beq u noidle_line).
Definition is_reply (r : sresp) : bool := match r with SReply _ => true | SIdle _ => false end.

Theorem one_outstanding sch : Forall wf_label sch ->
  (length (filter is_req (a_c2s (arun reply_fn sch))) + length (filter is_reply (a_s2c (arun reply_fn sch))) <= 1)%nat.
Proof.
  intros H. destruct (inv_run sch H) as (Hsh & _). unfold shape in Hsh.
  destruct (a_pt (arun reply_fn sch)).
  - destruct Hsh as [(Hc & _ & Hs) | [(Hc & _ & _ & Hs) | (ns & Hc & _ & Hs)]]; rewrite Hc, Hs; unfold is_req; cbn; simp_beq; cbn; lia.
  - destruct Hsh as (_ & _ & [(Hc & _ & Hs) | [(Hc & _ & _ & Hs) | [(ns & Hc & _ & Hs) | (ns & Hc & _ & Hs)]]]);
      rewrite Hc, Hs; unfold is_req; cbn; simp_beq; cbn; lia.
  - destruct Hsh as (q & _ & Hw & _ & _ & [(Hc & Hs) | [(Hc & Hs) | (Hc & Hs)]]); rewrite Hc, Hs; unfold is_req; cbn; simp_beq; cbn; lia.
  - destruct Hsh as (Hc & _ & Hs); rewrite Hc, Hs; cbn; lia.
  - contradiction.
Qed.

(* ---- C01 ---- *)
Theorem own_reply sch id x : Forall wf_label sch ->
  In (id, x) (a_replies (arun reply_fn sch)) ->
  exists q, In q (a_issued (arun reply_fn sch)) /\ q_id q = id /\ x = reply_fn (q_bytes q).
Proof. intros H. destruct (inv_run sch H) as (_ & _ & _ & _ & _ & _ & Hr). apply Hr. Qed.

Theorem fifo sch : Forall wf_label sch ->
  a_sent (arun reply_fn sch) ++ held (a_pt (arun reply_fn sch)) ++ a_queue (arun reply_fn sch) = a_issued (arun reply_fn sch).
Proof. intros H. destruct (inv_run sch H) as (_ & _ & _ & _ & _ & Hf & _). exact Hf. Qed.

(* ---- C04 ---- *)
Theorem exactly_once sch : Forall wf_label sch ->
  a_delivered (arun reply_fn sch) ++ flat_map names_of (a_s2c (arun reply_fn sch)) = a_reported (arun reply_fn sch).
Proof. intros H. destruct (inv_run sch H) as (_ & _ & _ & _ & He & _). exact He. Qed.

Corollary quiescent_all_delivered sch : Forall wf_label sch ->
  a_s2c (arun reply_fn sch) = [] -> a_delivered (arun reply_fn sch) = a_reported (arun reply_fn sch).
Proof. intros H Hs. pose proof (exactly_once sch H) as He. rewrite Hs in He. cbn in He. rewrite app_nil_r in He. exact He. Qed.

End Proofs.

(* ------------------------------------------------------------------------------------------ *)
(* Progress: without new requests or changes, every step the scheduler can still take (client
   resumptions and server reads, in ANY order) strictly decreases a measure; when the measure is 0
   the system is quiescent (client idling, server waiting in idle, nothing in flight, nothing
   queued).  So every issued request is answered after at most [mu] such steps, whatever the
   order - the fairness assumption is only that enabled steps are eventually taken. *)

Ltac simp_beq :=
  repeat first
    [ rewrite beq_refl
    | rewrite (proj1 idle_noidle_distinct)
    | rewrite (proj2 idle_noidle_distinct)
    | match goal with
      | H : wf_req ?q |- context [beq (q_bytes ?q) idle_line] => rewrite (proj1 (wf_beq q H))
      | H : wf_req ?q |- context [beq (q_bytes ?q) noidle_line] => rewrite (proj2 (wf_beq q H))
      end ].

Section Progress.
Variable reply_fn : bytes -> response.
Notation astep := (LoopSpec.astep reply_fn).
Notation Inv := (LoopSpec.Inv reply_fn).

Definition internal (l : label) : bool :=
  match l with LTake | LRecv | LTimeout | LServe => true | _ => false end.

Definition phase (s : asys) : nat :=
  match a_pt s with
  | PIdle => length (a_c2s s) + 2 * length (a_s2c s)
  | PCancel _ => 5 + length (a_c2s s)
  | PWait _ => 3 + length (a_c2s s)
  | PWindow => 2
  | PExited => 0
  end.

Definition mu_sys (s : asys) : nat := 8 * length (a_queue s) + 3 * length (a_pending s) + phase s.

Lemma internal_step_decreases s l :
  Inv s -> internal l = true -> astep s l = s \/ (mu_sys (astep s l) < mu_sys s)%nat.
Proof.
  intros HI Hl.
  destruct s as [pt queue c2s idle pending s2c viol issued sent reported delivered replies].
  pose proof HI as (Hsh & Hv & Hq & _).
  cbn [a_pt a_queue a_c2s a_idle a_pending a_s2c a_violated a_issued a_sent a_reported a_delivered a_replies] in *.
  unfold shape in Hsh; cbn [a_pt a_c2s a_idle a_s2c a_pending a_issued] in Hsh.
  destruct l; try discriminate Hl.
  - (* LTake *)
    unfold astep, LoopSpec.astep; cbn [a_queue a_pt].
    destruct queue as [|q rest]; [left; reflexivity|].
    destruct pt as [ | q0 | id0 | | ]; cbn [wants_cmd]; try (left; reflexivity).
    + right. unfold client; cbn. unfold mu_sys, phase; cbn.
      destruct Hsh as [(Hc & _ & Hs) | [(Hc & _ & _ & Hs) | (ns & Hc & _ & Hs)]]; subst c2s s2c; cbn; lia.
    + right. destruct Hsh as (Hc & _ & Hs); subst c2s s2c. unfold client; cbn. unfold mu_sys, phase; cbn. lia.
  - (* LRecv *)
    unfold astep, LoopSpec.astep; cbn [a_s2c a_pt].
    destruct s2c as [|r rest]; [left; reflexivity|].
    destruct pt as [ | q0 | id0 | | ]; cbn [wants_recv]; try (left; reflexivity).
    + right. destruct Hsh as [(_ & _ & Hs) | [(_ & _ & _ & Hs) | (ns & Hc & Hi & Hs)]]; try discriminate Hs.
      inversion Hs; subst r rest c2s idle.
      unfold client. cbn [a_pt cstep]. rewrite single_idle.
      cbn [a_pt a_queue a_c2s a_idle a_pending a_s2c a_violated a_issued a_sent a_reported a_delivered a_replies sent_by].
      rewrite apply_outs_events. cbn. unfold mu_sys, phase; cbn. lia.
    + right. destruct Hsh as (Hw & Hin & Hsh).
      destruct Hsh as [(_ & _ & Hs) | [(_ & _ & _ & Hs) | [(ns & Hc & Hi & Hs) | (ns & Hc & Hi & Hs)]]]; try discriminate Hs;
        inversion Hs; subst r rest c2s idle;
        unfold client; cbn [a_pt cstep]; rewrite single_idle;
        cbn [a_pt a_queue a_c2s a_idle a_pending a_s2c a_violated a_issued a_sent a_reported a_delivered a_replies sent_by];
        rewrite apply_outs_events; cbn; unfold mu_sys, phase; cbn; lia.
    + right. destruct Hsh as (q & Hid & Hw & Hin & Hi & Hsh).
      destruct Hsh as [(_ & Hs) | [(_ & Hs) | (Hc & Hs)]]; try discriminate Hs.
      inversion Hs; subst r rest c2s. unfold client; cbn. unfold mu_sys, phase; cbn. lia.
  - (* LTimeout *)
    unfold astep, LoopSpec.astep; cbn [a_pt].
    destruct pt; try (left; reflexivity).
    right. destruct Hsh as (Hc & _ & Hs); subst c2s s2c. unfold client; cbn. unfold mu_sys, phase; cbn. lia.
  - (* LServe *)
    unfold astep, LoopSpec.astep, serve; cbn [a_c2s a_idle a_pending a_s2c a_pt].
    destruct pt as [ | q0 | id0 | | ].
    + destruct Hsh as [(Hc & Hi & Hs) | [(Hc & Hi & Hp & Hs) | (ns & Hc & Hi & Hs)]]; subst c2s idle s2c; try (left; reflexivity).
      right. simp_beq. destruct pending as [|p ps]; unfold flush, mu_sys, phase; cbn; lia.
    + destruct Hsh as (Hw & Hin & Hsh).
      destruct Hsh as [(Hc & Hi & Hs) | [(Hc & Hi & Hp & Hs) | [(ns & Hc & Hi & Hs) | (ns & Hc & Hi & Hs)]]]; subst c2s idle s2c;
        try (left; reflexivity); right; simp_beq.
      * destruct pending as [|p ps]; unfold flush, mu_sys, phase; cbn; lia.
      * subst pending. unfold flush, mu_sys, phase; cbn; lia.
      * unfold mu_sys, phase; cbn; lia.
    + destruct Hsh as (q & Hid & Hw & Hin & Hi & Hsh).
      destruct Hsh as [(Hc & Hs) | [(Hc & Hs) | (Hc & Hs)]]; subst c2s idle s2c id0; try (left; reflexivity);
        right; simp_beq; unfold mu_sys, phase; cbn; lia.
    + destruct Hsh as (Hc & Hi & Hs); subst c2s. left; reflexivity.
    + contradiction.
Qed.

(* measure 0 = quiescent *)
Lemma mu_zero_quiescent s : Inv s -> mu_sys s = 0%nat ->
  a_pt s = PIdle /\ a_queue s = [] /\ a_c2s s = [] /\ a_s2c s = [] /\ a_idle s = true /\ a_pending s = [].
Proof.
  intros (Hsh & _) Hm. unfold mu_sys, phase in Hm. unfold shape in Hsh.
  destruct (a_pt s); try lia.
  assert (Hq : a_queue s = []) by (destruct (a_queue s); [reflexivity | cbn in Hm; lia]).
  assert (Hp : a_pending s = []) by (destruct (a_pending s); [reflexivity | cbn in Hm; lia]).
  destruct Hsh as [(Hc & _ & Hs) | [(Hc & Hi & _ & Hs) | (ns & Hc & _ & Hs)]]; rewrite Hc, Hs in Hm; cbn in Hm; try lia.
  repeat split; assumption.
Qed.

(* no deadlock: as long as the measure is positive some internal step changes the state *)
Lemma positive_measure_can_step s : Inv s -> (0 < mu_sys s)%nat ->
  exists l, internal l = true /\ (mu_sys (astep s l) < mu_sys s)%nat.
Proof.
  intros HI Hm.
  destruct s as [pt queue c2s idle pending s2c viol issued sent reported delivered replies].
  pose proof HI as (Hsh & _).
  unfold shape in Hsh; cbn [a_pt a_c2s a_idle a_s2c a_pending a_issued] in Hsh.
  Ltac serve_case :=
    exists LServe; split; [reflexivity|];
    unfold LoopSpec.astep, serve; cbn [a_c2s a_idle a_pending a_s2c a_pt]; simp_beq;
    try match goal with |- context [match ?p with [] => _ | _ :: _ => _ end] => destruct p end;
    unfold flush, mu_sys, phase; cbn; lia.
  Ltac recv_idle_case :=
    exists LRecv; split; [reflexivity|];
    unfold LoopSpec.astep; cbn [a_s2c a_pt wants_recv];
    unfold client; cbn [a_pt cstep]; rewrite single_idle;
    cbn [a_pt a_queue a_c2s a_idle a_pending a_s2c a_violated a_issued a_sent a_reported a_delivered a_replies sent_by];
    rewrite apply_outs_events; cbn; unfold mu_sys, phase; cbn; lia.
  destruct pt as [ | q0 | id0 | | ].
  - destruct Hsh as [(Hc & Hi & Hs) | [(Hc & Hi & Hp & Hs) | (ns & Hc & Hi & Hs)]]; subst c2s idle s2c.
    + serve_case.
    + subst pending. destruct queue as [|q rest]; [unfold mu_sys, phase in Hm; cbn in Hm; lia|].
      exists LTake. split; [reflexivity|]. unfold LoopSpec.astep, client; cbn. unfold mu_sys, phase; cbn. lia.
    + recv_idle_case.
  - destruct Hsh as (Hw & Hin & Hsh).
    destruct Hsh as [(Hc & Hi & Hs) | [(Hc & Hi & Hp & Hs) | [(ns & Hc & Hi & Hs) | (ns & Hc & Hi & Hs)]]]; subst c2s idle s2c.
    + serve_case.
    + subst pending. serve_case.
    + serve_case.
    + recv_idle_case.
  - destruct Hsh as (q & Hid & Hw & Hin & Hi & Hsh).
    destruct Hsh as [(Hc & Hs) | [(Hc & Hs) | (Hc & Hs)]]; subst c2s idle s2c id0.
    + serve_case.
    + serve_case.
    + exists LRecv. split; [reflexivity|]. unfold LoopSpec.astep, client; cbn. unfold mu_sys, phase; cbn. lia.
  - destruct Hsh as (Hc & Hi & Hs); subst c2s idle s2c.
    exists LTimeout. split; [reflexivity|]. unfold LoopSpec.astep, client; cbn. unfold mu_sys, phase; cbn. lia.
  - contradiction.
Qed.

(* runs of internal steps that each change the state *)
Inductive iruns : nat -> asys -> asys -> Prop :=
  | IR0 s : iruns 0 s s
  | IRS n s l s' : internal l = true -> astep s l <> s -> iruns n (astep s l) s' -> iruns (S n) s s'.

Lemma inv_internal s l : Inv s -> internal l = true -> Inv (astep s l).
Proof. intros HI Hl. apply inv_step; [destruct l; try discriminate Hl; exact I | exact HI]. Qed.

(* every such run is shorter than the measure, and keeps the invariant *)
Theorem internal_runs_bounded n s s' : Inv s -> iruns n s s' -> (n + mu_sys s' <= mu_sys s)%nat /\ Inv s'.
Proof.
  intros HI H. induction H as [s | n s l s' Hl Hne Hr IH]; [split; [lia | exact HI]|].
  destruct (internal_step_decreases s l HI Hl) as [E | L]; [contradiction|].
  destruct (IH (inv_internal s l HI Hl)) as [Hb HI']. split; [lia | exact HI'].
Qed.

(* a run that cannot be extended ends in the quiescent state: the client idles, the server waits
   in idle, nothing is queued, in flight or pending *)
Theorem maximal_run_is_quiescent n s s' : Inv s -> iruns n s s' ->
  (forall l, internal l = true -> astep s' l = s') ->
  a_pt s' = PIdle /\ a_queue s' = [] /\ a_c2s s' = [] /\ a_s2c s' = [] /\ a_idle s' = true /\ a_pending s' = [].
Proof.
  intros HI H Hmax. destruct (internal_runs_bounded n s s' HI H) as [_ HI'].
  destruct (Nat.eq_dec (mu_sys s') 0) as [Hz | Hnz]; [apply mu_zero_quiescent; assumption|].
  exfalso. destruct (positive_measure_can_step s' HI' ltac:(lia)) as (l & Hl & Hlt).
  rewrite (Hmax l Hl) in Hlt. lia.
Qed.


(* ---------- functional correctness: replies handed out = replies of the requests written, in order ---------- *)

Definition R (q : request) : N * response := (q_id q, reply_fn (q_bytes q)).

(* the bytes of the request in flight *)
Definition inflight (s : asys) : bytes :=
  match a_s2c s with
  | [SReply bs] => bs
  | _ => last (a_c2s s) []
  end.

Definition Inv2 (s : asys) : Prop :=
  match a_pt s with
  | PWait id => exists pre q, a_sent s = pre ++ [q] /\ id = q_id q /\ a_replies s = map R pre /\ inflight s = q_bytes q
  | _ => a_replies s = map R (a_sent s)
  end.

Lemma inv2_0 : Inv2 (a0).
Proof. reflexivity. Qed.

Lemma inv2_step s l : wf_label l -> Inv s -> Inv2 s -> Inv2 (astep s l).
Proof.
  intros Hl HI H2.
  destruct s as [pt queue c2s idle pending s2c viol issued sent reported delivered replies].
  pose proof HI as (Hsh & _).
  unfold shape in Hsh; cbn [a_pt a_c2s a_idle a_s2c a_pending a_issued] in Hsh.
  unfold Inv2 in H2; cbn [a_pt a_sent a_replies] in H2.
  destruct l as [q | | | | | n].
  - (* LIssue *) unfold LoopSpec.astep, Inv2; cbn. destruct pt; exact H2.
  - (* LTake *)
    unfold LoopSpec.astep; cbn [a_queue a_pt].
    destruct queue as [|q rest]; [exact H2|].
    destruct pt as [ | q0 | id0 | | ]; cbn [wants_cmd]; try exact H2.
    + unfold client; cbn. unfold Inv2; cbn. rewrite app_nil_r. exact H2.
    + destruct Hsh as (Hc & _ & Hs); subst c2s s2c. unfold client; cbn. unfold Inv2, inflight; cbn.
      exists sent, q. auto.
  - (* LRecv *)
    unfold LoopSpec.astep; cbn [a_s2c a_pt].
    destruct s2c as [|r rest]; [exact H2|].
    destruct pt as [ | q0 | id0 | | ]; cbn [wants_recv]; try exact H2.
    + destruct Hsh as [(_ & _ & Hs) | [(_ & _ & _ & Hs) | (ns & Hc & Hi & Hs)]]; try discriminate Hs.
      inversion Hs; subst r rest c2s idle.
      unfold client. cbn [a_pt cstep]. rewrite single_idle.
      cbn [a_pt a_queue a_c2s a_idle a_pending a_s2c a_violated a_issued a_sent a_reported a_delivered a_replies sent_by].
      rewrite apply_outs_events. cbn. unfold Inv2; cbn. rewrite app_nil_r. exact H2.
    + destruct Hsh as (Hw & Hin & Hsh).
      destruct Hsh as [(_ & _ & Hs) | [(_ & _ & _ & Hs) | [(ns & Hc & Hi & Hs) | (ns & Hc & Hi & Hs)]]]; try discriminate Hs;
        inversion Hs; subst r rest c2s idle;
        unfold client; cbn [a_pt cstep]; rewrite single_idle;
        cbn [a_pt a_queue a_c2s a_idle a_pending a_s2c a_violated a_issued a_sent a_reported a_delivered a_replies sent_by];
        rewrite apply_outs_events; cbn; unfold Inv2, inflight; cbn; exists sent, q0; auto.
    + destruct Hsh as (q & Hid & Hw & Hin & Hi & Hsh).
      destruct Hsh as [(_ & Hs) | [(_ & Hs) | (Hc & Hs)]]; try discriminate Hs.
      inversion Hs; subst r rest c2s.
      destruct H2 as (pre & q' & Hsent & Hid' & Hrep & Hfl). unfold inflight in Hfl; cbn in Hfl.
      unfold client; cbn. unfold Inv2; cbn. rewrite app_nil_r. subst sent replies.
      rewrite map_app. cbn. unfold R at 3. rewrite <- Hfl, <- Hid'. reflexivity.
  - (* LTimeout *)
    unfold LoopSpec.astep; cbn [a_pt]. destruct pt; try exact H2.
    unfold client; cbn. unfold Inv2; cbn. rewrite app_nil_r. exact H2.
  - (* LServe *)
    unfold LoopSpec.astep, serve; cbn [a_c2s a_idle a_pending a_s2c a_pt].
    destruct pt as [ | q0 | id0 | | ].
    + destruct c2s as [|u rest]; [exact H2|]. destruct idle; [destruct (beq u noidle_line)|destruct (beq u idle_line); [destruct pending|destruct (beq u noidle_line)]];
        unfold flush, Inv2; cbn; exact H2.
    + destruct c2s as [|u rest]; [exact H2|]. destruct idle; [destruct (beq u noidle_line)|destruct (beq u idle_line); [destruct pending|destruct (beq u noidle_line)]];
        unfold flush, Inv2; cbn; exact H2.
    + destruct Hsh as (q & Hid & Hw & Hin & Hi & Hsh).
      destruct H2 as (pre & q' & Hsent & Hid' & Hrep & Hfl).
      destruct Hsh as [(Hc & Hs) | [(Hc & Hs) | (Hc & Hs)]]; subst c2s idle s2c; unfold inflight in Hfl; cbn in Hfl.
      * simp_beq. unfold Inv2, inflight; cbn. exists pre, q'. auto.
      * simp_beq. unfold Inv2, inflight; cbn. exists pre, q'. auto.
      * unfold Inv2, inflight; cbn. exists pre, q'. auto.
    + destruct c2s as [|u rest]; [exact H2|]. destruct idle; [destruct (beq u noidle_line)|destruct (beq u idle_line); [destruct pending|destruct (beq u noidle_line)]];
        unfold flush, Inv2; cbn; exact H2.
    + contradiction.
  - (* LNotify *)
    unfold LoopSpec.astep; cbn [a_c2s a_idle a_pending a_s2c a_pt].
    destruct pt as [ | q0 | id0 | | ]; try (destruct idle; unfold flush, Inv2; cbn; exact H2).
    destruct Hsh as (q & Hid & Hw & Hin & Hi & Hsh). subst idle. unfold Inv2, inflight; cbn. exact H2.
Qed.

Lemma inv2_fold sch : forall s, Forall wf_label sch -> Inv s -> Inv2 s -> Inv2 (fold_left astep sch s).
Proof.
  induction sch as [|l sch IH]; intros s Hw Hs H2; cbn [fold_left]; [exact H2|].
  inversion Hw; subst. apply IH; [assumption | apply inv_step; assumption | apply inv2_step; assumption].
Qed.

Lemma iruns_inv2 n s s' : Inv s -> Inv2 s -> iruns n s s' -> Inv2 s'.
Proof.
  intros HI H2 H. induction H as [s | n s l s' Hl Hne Hr IH]; [exact H2|].
  apply IH; [apply inv_internal; assumption|].
  apply inv2_step; [destruct l; try discriminate Hl; exact I | exact HI | exact H2].
Qed.

(* THE liveness + correctness statement: take any schedule, then let the client and the server
   run (in any order) until nothing more can happen; then every request that was ever issued has
   been handed exactly the server's reply to its own bytes, in issue order, and nothing else *)
Theorem all_answered_in_order sch n s' :
  Forall wf_label sch -> iruns n (arun reply_fn sch) s' ->
  (forall l, internal l = true -> astep s' l = s') ->
  a_replies s' = map R (a_issued s') /\ (n <= mu_sys (arun reply_fn sch))%nat.
Proof.
  intros Hw Hr Hmax.
  pose proof (inv_run reply_fn sch Hw) as HI.
  assert (H2 : Inv2 (arun reply_fn sch)) by (unfold arun; apply inv2_fold; [exact Hw | apply inv0 | exact inv2_0]).
  destruct (internal_runs_bounded n _ s' HI Hr) as [Hb HI'].
  destruct (maximal_run_is_quiescent n _ s' HI Hr Hmax) as (Hp & Hq & _).
  pose proof (iruns_inv2 n _ s' HI H2 Hr) as H2'. unfold Inv2 in H2'. rewrite Hp in H2'.
  destruct HI' as (_ & _ & _ & _ & _ & Hf & _). rewrite Hp, Hq in Hf. cbn in Hf. rewrite app_nil_r in Hf.
  split; [rewrite H2', Hf; reflexivity | lia].
Qed.

End Progress.
