(* DriverFrame.v — case kinds frame / resp (C19). *)
From MPD Require Import Bytes Tables Show ParserModel BuilderModel ConnModel FrameModel DriverConn.
Open Scope N_scope.

Definition show_ob (o : option bytes) : bytes := match o with Some x => hex x | None => [126] end.
Definition show_okv (o : option kv) : bytes :=
  match o with Some (k, v) => hex k ++ [58] ++ hex v | None => [126] end.

(* Iterator::nth(k) / nth_back(k) are, by their std contract, k discarded steps followed by one
   reported step: digits 0-9 are nth, letters A-J nth_back; the mask says which results are shown *)
Definition steps_of (s : bytes) : list (dir * bool) :=
  flat_map (fun c => if c =? 102 then [(Front, true)] else if c =? 98 then [(Back, true)] else if c =? 116 then [(TakeBin, true)]
                     else if in_range 48 57 c then repeat (Front, false) (N.to_nat (c - 48)) ++ [(Front, true)]
                     else if in_range 65 74 c then repeat (Back, false) (N.to_nat (c - 65)) ++ [(Back, true)]
                     else []) s.
Definition dirs_of (s : bytes) : list dir := map fst (steps_of s).
Definition mask_of (s : bytes) : list bool := map snd (steps_of s).

Fixpoint keep {A} (mask : list bool) (l : list A) : list A :=
  match mask, l with
  | true :: m, x :: r => x :: keep m r
  | false :: m, _ :: r => keep m r
  | _, _ => []
  end.

Definition op_of (tok : bytes) : option op :=
  match split_on 58 tok with
  | [name] =>
    if beq name (b "len") then Some OLen else if beq name (b "empty") then Some OIsEmpty
    else if beq name (b "hasbin") then Some OHasBin else if beq name (b "bin") then Some OBin
    else if beq name (b "takebin") then Some OTakeBin else None
  | [name; arg] =>
    if beq name (b "find") then Some (OFind (unhex arg)) else if beq name (b "get") then Some (OGet (unhex arg))
    else if beq name (b "iter") then Some (OIter (dirs_of arg)) else if beq name (b "into") then Some (OInto (dirs_of arg))
    else None
  | _ => None
  end.

Definition show_out (o : out) : bytes :=
  match o with
  | RVal v => b "v=" ++ show_ob v
  | RNat n => b "n=" ++ show_nat n
  | RBool x => b "b=" ++ show_bool x
  | RPairs l => b "p=[" ++ join [44] (map show_okv l) ++ b "]"
  | RMixed l => b "m=[" ++ join [44] (map (fun x => match x with inl o => show_okv o | inr bn => [66] ++ show_ob bn end) l) ++ b "]"
  end.

Fixpoint all_some' {A} (l : list (option A)) : option (list A) :=
  match l with
  | [] => Some []
  | Some x :: r => option_map (cons x) (all_some' r)
  | None :: _ => None
  end.

Definition mframe_of (f : frame) : mframe := mkM (map Some (f_fields f)) (f_binary f).

Definition frame_brief (f : frame) : bytes :=
  b "F(" ++ join [44] (map (fun p => hex (fst p) ++ [58] ++ hex (snd p)) (f_fields f)) ++ b ")bin=" ++ show_ob (f_binary f).

Definition show_item (x : option (frame + err)) : bytes :=
  match x with
  | Some (inl f) => frame_brief f
  | Some (inr e) => [69] ++ show_N (e_code e)
  | None => [126]
  end.

(* response iterators print the size hint BEFORE each reported call: for nth(k) that is the size before the k discarded steps *)
Definition keep_sized {A} (mask : list bool) (l : list (nat * A)) : list (nat * A) :=
  (fix go (mask : list bool) (l : list (nat * A)) (pending : option nat) : list (nat * A) :=
     match mask, l with
     | true :: m, (sz, x) :: r => (match pending with Some p => p | None => sz end, x) :: go m r None
     | false :: m, (sz, _) :: r => go m r (match pending with Some p => Some p | None => Some sz end)
     | _, _ => []
     end) mask l None.

(* one mask per op (outputs of m_run are in op order; an owned iteration ends the run) *)
Definition mask_ops (ops : list op) (masks : list (option (list bool))) : list (option (list bool)) := masks.

Definition run_frame (kind : bytes) (args : list bytes) : bytes :=
  match args with
  | wire :: rest =>
    match ref_receive (unhex wire) TEof with
    | (Resp r, _) =>
      if beq kind (b "frame") then
        match r_frames r with
        | [] => b "noframe"
        | f :: _ =>
          match all_some' (map op_of rest) with
          | None => b "badop"
          | Some ops =>
            let masks := map (fun tok => match split_on 58 tok with
                                         | [name; arg] => if beq name (b "iter") || beq name (b "into") then Some (mask_of arg) else None
                                         | _ => None
                                         end) rest in
            join (b " ; ") (map (fun om => show_out (match fst om, snd om with
                                                       | RPairs l, Some m => RPairs (keep m l)
                                                       | RMixed l, Some m => RMixed (keep m l)
                                                       | o, _ => o
                                                       end))
                                (combine (m_run (mframe_of f) ops) (mask_ops ops masks)))
          end
        end
      else
        match rest with
        | [_; dirs] =>
          let st := steps_of dirs in
          let ds := map (fun p => match fst p with Front => true | _ => false end) st in
          b "[" ++ join [44] (map (fun p => show_nat (fst p) ++ [58] ++ show_item (snd p))
                                  (keep_sized (map snd st) (r_drive (mkR (r_frames r) (r_error r)) ds))) ++ b "]"
        | _ => b "bad-case"
        end
    | _ => b "noresponse"
    end
  | _ => b "bad-case"
  end.

Definition is_frame_kind (k : bytes) : bool := existsb (beq k) [b "frame"; b "resp"].
