(* LoopMuteProofs.v — dropping the event listener changes nothing but the absence of events (definitions and statement: LoopMute.v). *)
From Coq Require Import Lia.
From MPD Require Import Bytes Tables Show ParserModel BuilderModel Grammar ConnModel CommandModel MpdTokenizer
  LoopModel ServerModel CallerModel DriverConn DriverLoop LoopSpec LoopSpecProofs LoopRefine LoopRefineProofs LoopDrainProofs LoopCancel LoopCancelProofs LoopCancelDrainProofs LoopMute.
Open Scope N_scope.

(* ---------- mute commutes with everything that does not look at the listener ---------- *)

Lemma try_receive_mute h x : try_receive (mute h x) = (fst (try_receive x), mute h (snd (try_receive x))).
Proof.
  unfold try_receive. cbn [mute set_ev x_rerr x_inbox x_buf x_bst x_eof].
  destruct (bparse_all (x_bst x) (x_buf x ++ (if x_rerr x then [] else x_inbox x))) as [[st' rest] [r| |]]; cbn [fst snd]; try reflexivity.
  destruct (x_rerr x); [reflexivity|]. destruct (x_eof x); reflexivity.
Qed.

Lemma try_receive_keeps x : x_h (snd (try_receive x)) = x_h x /\ x_evq (snd (try_receive x)) = x_evq x.
Proof.
  unfold try_receive.
  destruct (bparse_all (x_bst x) (x_buf x ++ (if x_rerr x then [] else x_inbox x))) as [[st' rest] [r| |]]; cbn [fst snd]; try (split; reflexivity).
  destruct (x_rerr x); [split; reflexivity|]. destruct (x_eof x); split; reflexivity.
Qed.

Lemma mute_seg_add_res g id t : mute_seg (add_res g id t) = add_res (mute_seg g) id t.
Proof. reflexivity. Qed.
Lemma mute_seg_add_ev g t : mute_seg (add_ev g t) = mute_seg g.
Proof. reflexivity. Qed.

Lemma caller_result_mute h x g id k r :
  caller_result (mute h x) (mute_seg g) id k r = (mute h (fst (caller_result x g id k r)), mute_seg (snd (caller_result x g id k r))) /\
  x_h (fst (caller_result x g id k r)) = x_h x /\ x_evq (fst (caller_result x g id k r)) = x_evq x.
Proof.
  unfold caller_result. destruct k as [single|cmds|cmds|st]; cbn [fst snd]; try (split; [reflexivity|split; reflexivity]).
  destruct (art_step st _) as [st'|fin]; [|split; [reflexivity|split; reflexivity]].
  destruct (art_request st'); split; try reflexivity; split; reflexivity.
Qed.

(* one output of the loop: the same on both sides, except that events and the closing event are shown on one side only *)
Lemma route_mute h x g o : x_evq x = false ->
  exists h', route (mute h x) (mute_seg g) o = (mute h' (fst (route x g o)), mute_seg (snd (route x g o))) /\
             x_h (fst (route x g o)) = x_h x /\ x_evq (fst (route x g o)) = false.
Proof.
  intros Q. destruct o as [bs|id rep|id|n|k|]; cbn [route].
  - exists h. cbn [mute set_ev x_wp]. destruct (x_wp x); cbn [fst snd]; split; try reflexivity; split; try reflexivity; exact Q.
  - change (x_callers (mute h x)) with (x_callers x). destruct (find_caller id (x_callers x)) as [k|].
    + exists h. destruct (caller_result_mute h x g id k (Some rep)) as (E & H1 & H2). split; [exact E|]. split; [exact H1|rewrite H2; exact Q].
    + exists h. cbn [fst snd]. split; [reflexivity|split; [reflexivity|exact Q]].
  - change (x_callers (mute h x)) with (x_callers x). destruct (find_caller id (x_callers x)) as [k|].
    + exists h. destruct (caller_result_mute h x g id k None) as (E & H1 & H2). split; [exact E|]. split; [exact H1|rewrite H2; exact Q].
    + exists h. cbn [fst snd]. split; [reflexivity|split; [reflexivity|exact Q]].
  - rewrite Q. cbn [mute set_ev x_evq x_evh fst snd]. exists (h ++ [b "ev:" ++ hex n]). split; [reflexivity|split; [reflexivity|exact Q]].
  - rewrite Q. cbn [mute set_ev x_evq x_evh fst snd]. exists (h ++ [b "ev:closed(" ++ show_closekind k ++ b ")"]). split; [reflexivity|split; [reflexivity|exact Q]].
  - exists h. cbn [fst snd]. split; [reflexivity|split; [reflexivity|exact Q]].
Qed.

Lemma route_all_mute os : forall h x g, x_evq x = false ->
  exists h', route_all (mute h x) (mute_seg g) os = (mute h' (fst (route_all x g os)), mute_seg (snd (route_all x g os))) /\
             x_h (fst (route_all x g os)) = x_h x /\ x_evq (fst (route_all x g os)) = false.
Proof.
  induction os as [|o os IH]; intros h x g Q; cbn [route_all].
  - exists h. cbn [fst snd]. split; [reflexivity|split; [reflexivity|exact Q]].
  - destruct (route_mute h x g o Q) as (h1 & E & H1 & Q1). rewrite E.
    destruct (route x g o) as [x' g']. cbn [fst snd] in *.
    destruct (IH h1 x' g' Q1) as (h2 & E2 & H2 & Q2). exists h2. rewrite E2. split; [reflexivity|]. split; [rewrite H2; exact H1|exact Q2].
Qed.

Lemma drop_queue_mute q : forall h x g, x_evq x = false ->
  exists h', drop_queue (mute h x) (mute_seg g) q = (mute h' (fst (drop_queue x g q)), mute_seg (snd (drop_queue x g q))) /\
             x_h (fst (drop_queue x g q)) = x_h x /\ x_evq (fst (drop_queue x g q)) = false.
Proof.
  induction q as [|r q IH]; intros h x g Q; cbn [drop_queue].
  - exists h. cbn [fst snd]. split; [reflexivity|split; [reflexivity|exact Q]].
  - destruct (route_mute h x g (ODropResp (q_id r)) Q) as (h1 & E & H1 & Q1). cbn [route] in E, H1, Q1. rewrite E.
    destruct (match find_caller (q_id r) (x_callers x) with Some k => caller_result x g (q_id r) k None | None => (x, g) end) as [x' g'].
    cbn [fst snd] in *. destruct (IH h1 x' g' Q1) as (h2 & E2 & H2 & Q2). exists h2. split; [exact E2|]. split; [rewrite H2; exact H1|exact Q2].
Qed.

Lemma on_exit_mute h x g : x_evq x = false ->
  exists h', on_exit (mute h x) (mute_seg g) = (mute h' (fst (on_exit x g)), mute_seg (snd (on_exit x g))) /\
             x_h (fst (on_exit x g)) = x_h x /\ x_evq (fst (on_exit x g)) = false.
Proof.
  intros Q. unfold on_exit. change (x_pt (mute h x)) with (x_pt x). change (x_queue (mute h x)) with (x_queue x).
  destruct (x_pt x); try (exists h; cbn [fst snd]; split; [reflexivity|split; [reflexivity|exact Q]]).
  exact (drop_queue_mute (x_queue x) h (set_qc x [] (x_callers x)) g Q).
Qed.

Definition mute_ev (h : list bytes) (e : option (cin * xsys)) : option (cin * xsys) :=
  match e with Some (i, y) => Some (i, mute h y) | None => None end.

Lemma client_event_mute h x :
  client_event (mute h x) = mute_ev h (client_event x) /\
  (forall i y, client_event x = Some (i, y) -> x_h y = x_h x /\ x_evq y = x_evq x).
Proof.
  destruct (try_receive_keeps x) as [T1 T2].
  unfold client_event. change (x_pt (mute h x)) with (x_pt x).
  destruct (x_pt x) eqn:EP; cbn [wants_recv wants_cmd]; try (split; [reflexivity|intros; discriminate]).
  - rewrite try_receive_mute. destruct (try_receive x) as [[r|] y]; cbn [fst snd] in *.
    + split; [reflexivity|]. intros i y' E. injection E as <- <-. split; assumption.
    + change (x_queue (mute h y)) with (x_queue y). destruct (x_queue y) as [|q rest].
      * change (chan_closed (mute h y)) with (chan_closed y). destruct (chan_closed y).
        -- split; [reflexivity|]. intros i y' E. injection E as <- <-. split; assumption.
        -- split; [reflexivity|intros; discriminate].
      * split; [reflexivity|]. intros i y' E. injection E as <- <-. split; assumption.
  - rewrite try_receive_mute. destruct (try_receive x) as [[r|] y]; cbn [fst snd] in *.
    + split; [reflexivity|]. intros i y' E. injection E as <- <-. split; assumption.
    + split; [reflexivity|intros; discriminate].
  - rewrite try_receive_mute. destruct (try_receive x) as [[r|] y]; cbn [fst snd] in *.
    + split; [reflexivity|]. intros i y' E. injection E as <- <-. split; assumption.
    + split; [reflexivity|intros; discriminate].
  - change (x_queue (mute h x)) with (x_queue x). destruct (x_queue x) as [|q rest].
    + change (chan_closed (mute h x)) with (chan_closed x). change (x_elapsed (mute h x)) with (x_elapsed x).
      destruct (chan_closed x).
      * split; [reflexivity|]. intros i y' E. injection E as <- <-. split; reflexivity.
      * destruct (idle_timeout_ms <=? x_elapsed x).
        -- split; [reflexivity|]. intros i y' E. injection E as <- <-. split; reflexivity.
        -- split; [reflexivity|intros; discriminate].
    + split; [reflexivity|]. intros i y' E. injection E as <- <-. split; reflexivity.
Qed.

Lemma settle_mute fuel : forall h x g, MInv x ->
  exists h', settle fuel (mute h x) (mute_seg g) = (mute h' (fst (settle fuel x g)), mute_seg (snd (settle fuel x g))) /\
             MInv (fst (settle fuel x g)).
Proof.
  induction fuel as [|f IH]; intros h x g MI; cbn [settle].
  - exists h. cbn [fst snd]. split; [reflexivity|exact MI].
  - rewrite (handshake_done x g (mi_h _ MI)).
    rewrite (handshake_done (mute h x) (mute_seg g)) by (exact (mi_h _ MI)).
    change (x_spawned (mute h x)) with (x_spawned x). change (x_wh (mute h x)) with (x_wh x).
    destruct (negb (x_spawned x)); [exists h; cbn [fst snd]; split; [reflexivity|exact MI]|].
    destruct (x_wh x); [|exists h; cbn [fst snd]; split; [reflexivity|exact MI]].
    destruct (client_event_mute h x) as [E K]. rewrite E.
    destruct (client_event x) as [[i x1]|]; cbn [mute_ev]; [|exists h; cbn [fst snd]; split; [reflexivity|exact MI]].
    destruct (K i x1 eq_refl) as [K1 K2].
    change (x_wfail (mute h x1)) with (x_wfail x1). change (x_pt (mute h x1)) with (x_pt x1).
    change (x_elapsed (mute h x1)) with (x_elapsed x1).
    destruct (cstep (x_wfail x1) (x_pt x1) i) as [p outs].
    set (el := match p with PWindow => match x_pt x1 with PWindow => x_elapsed x1 | _ => 0 end | _ => x_elapsed x1 end).
    change (set_pt (mute h x1) p el) with (mute h (set_pt x1 p el)).
    assert (Q1 : x_evq (set_pt x1 p el) = false) by (cbn [set_pt x_evq]; rewrite K2; exact (mi_evq _ MI)).
    destruct (route_all_mute outs h (set_pt x1 p el) g Q1) as (h3 & E3 & H3 & Q3). rewrite E3.
    destruct (route_all (set_pt x1 p el) g outs) as [x3 g3]. cbn [fst snd] in *.
    destruct (on_exit_mute h3 x3 g3 Q3) as (h4 & E4 & H4 & Q4). rewrite E4.
    destruct (on_exit x3 g3) as [x4 g4]. cbn [fst snd] in *.
    assert (MI4 : MInv x4) by (constructor; [rewrite H4, H3; cbn [set_pt x_h]; rewrite K1; exact (mi_h _ MI)|exact Q4]).
    exact (IH h4 x4 g4 MI4).
Qed.

(* ---------- the label-specific part ---------- *)

Definition mute_pre (h : list bytes) (p : pre) : pre :=
  match p with PNone x => PNone (mute h x) | PRun op x g => PRun op (mute h x) (mute_seg g) end.

Definition pre_minv (p : pre) : Prop := match p with PNone x => MInv x | PRun _ x _ => MInv x end.

Lemma minv_same x x' : MInv x -> x_h x' = x_h x -> x_evq x' = x_evq x -> MInv x'.
Proof. intros [H1 H2] E1 E2. constructor; [rewrite E1; exact H1|rewrite E2; exact H2]. Qed.

Lemma serve_mute h all f : forall x, DriverLoop.serve f all (mute h x) = mute h (DriverLoop.serve f all x).
Proof.
  induction f as [|f IH]; intros x; cbn [DriverLoop.serve]; [reflexivity|].
  change (x_c2s (mute h x)) with (x_c2s x). destruct (take_line (x_c2s x)) as [[line rest]|]; [|reflexivity].
  change (x_cf (mute h x)) with (x_cf x). change (x_srv (mute h x)) with (x_srv x).
  destruct (sline (x_cf x) (x_srv x) line) as [st out].
  change (set_net (mute h x) st rest (x_s2c (mute h x) ++ out)) with (mute h (set_net x st rest (x_s2c x ++ out))).
  destruct all; [apply IH|reflexivity].
Qed.

Lemma serve_keeps all f : forall x, x_h (DriverLoop.serve f all x) = x_h x /\ x_evq (DriverLoop.serve f all x) = x_evq x.
Proof.
  induction f as [|f IH]; intros x; cbn [DriverLoop.serve]; [split; reflexivity|].
  destruct (take_line (x_c2s x)) as [[line rest]|]; [|split; reflexivity].
  destruct (sline (x_cf x) (x_srv x) line) as [st out].
  destruct all; [|split; reflexivity].
  destruct (IH (set_net x st rest (x_s2c x ++ out))) as [E1 E2]. rewrite E1, E2. split; reflexivity.
Qed.

Lemma issue_mute h x g kind id arg :
  issue (mute h x) (mute_seg g) kind id arg = (mute h (fst (issue x g kind id arg)), mute_seg (snd (issue x g kind id arg))) /\
  x_h (fst (issue x g kind id arg)) = x_h x /\ x_evq (fst (issue x g kind id arg)) = x_evq x.
Proof.
  unfold issue.
  change (x_client (mute h x)) with (x_client x). change (x_handle (mute h x)) with (x_handle x).
  change (loop_alive (mute h x)) with (loop_alive x).
  change (x_queue (mute h x)) with (x_queue x). change (x_callers (mute h x)) with (x_callers x).
  destruct (negb (x_client x && x_handle x)); [cbn [fst snd]; repeat split; reflexivity|].
  destruct ((kind =? 105) || (kind =? 99)).
  { destruct (all_some_l (map parse_spec (split_specs arg))) as [[|l ls]|]; try (cbn [fst snd]; repeat split; reflexivity).
    destruct (loop_alive x); cbn [fst snd]; repeat split; reflexivity. }
  destruct ((kind =? 118) || (kind =? 121)).
  { destruct (typed_list_start (map parse_any (split_specs arg))) as [|bs|]; try (cbn [fst snd]; repeat split; reflexivity).
    - destruct (kind =? 118); cbn [fst snd]; repeat split; reflexivity.
    - destruct (loop_alive x); cbn [fst snd]; repeat split; reflexivity. }
  destruct (art_request (art_start (unhex arg))); [|cbn [fst snd]; repeat split; reflexivity].
  destruct (loop_alive x); cbn [fst snd]; repeat split; reflexivity.
Qed.

Ltac mkind K := apply N.eqb_eq in K; subst.
Ltac same_listener MI := apply (minv_same _ _ MI); reflexivity.

(* every label but q, Q and Z *)
Lemma pre_op_mute h x lab kind idtxt arg :
  MInv x -> (kind =? 113) = false -> (kind =? 81) = false -> (kind =? 90) = false ->
  pre_op (mute h x) lab kind idtxt arg = mute_pre h (pre_op x lab kind idtxt arg) /\ pre_minv (pre_op x lab kind idtxt arg).
Proof.
  intros MI K113 K81 K90. unfold pre_op. cbv zeta.
  destruct (kind =? 78) eqn:K.
  { change (x_srv (mute h x)) with (x_srv x). destruct (snotify (x_srv x) (unhex arg)) as [st out].
    cbn [mute_pre pre_minv]. split; [reflexivity|same_listener MI]. }
  clear K. destruct (kind =? 83) eqn:K.
  { cbn [mute_pre pre_minv]. change (x_c2s (mute h x)) with (x_c2s x). rewrite serve_mute. split; [reflexivity|].
    destruct (serve_keeps (beq idtxt [42]) (S (length (x_c2s x))) x) as [E1 E2]. apply (minv_same _ _ MI); assumption. }
  clear K. destruct (kind =? 68) eqn:K.
  { change (x_eof (mute h x)) with (x_eof x). change (x_s2c (mute h x)) with (x_s2c x).
    destruct (if x_eof x then [] else firstn (if read_N idtxt =? 0 then length (x_s2c x) else N.to_nat (read_N idtxt)) (x_s2c x));
      cbn [mute_pre pre_minv]; (split; [reflexivity|]); [exact MI|same_listener MI]. }
  clear K. destruct (kind =? 71) eqn:K.
  { change (x_eof (mute h x)) with (x_eof x).
    destruct (if x_eof x then [] else unhex arg); cbn [mute_pre pre_minv]; (split; [reflexivity|]); [exact MI|same_listener MI]. }
  clear K. destruct (kind =? 101) eqn:K. { cbn [mute_pre pre_minv]. split; [reflexivity|same_listener MI]. }
  clear K. destruct (kind =? 114) eqn:K. { cbn [mute_pre pre_minv]. split; [reflexivity|same_listener MI]. }
  clear K. destruct (kind =? 119) eqn:K. { cbn [mute_pre pre_minv]. split; [reflexivity|same_listener MI]. }
  clear K. destruct (kind =? 104) eqn:K. { cbn [mute_pre pre_minv]. split; [reflexivity|same_listener MI]. }
  clear K. destruct (kind =? 112) eqn:K. { cbn [mute_pre pre_minv]. split; [reflexivity|same_listener MI]. }
  clear K. destruct (kind =? 107) eqn:K. { cbn [mute_pre pre_minv]. split; [reflexivity|exact MI]. }
  rewrite K113, K90, K81.
  clear K. destruct (kind =? 117) eqn:K. { cbn [mute_pre pre_minv]. split; [reflexivity|same_listener MI]. }
  clear K. destruct (kind =? 116) eqn:K. { cbn [mute_pre pre_minv]. split; [reflexivity|same_listener MI]. }
  clear K. destruct (kind =? 120) eqn:K. { cbn [mute_pre pre_minv]. split; [reflexivity|same_listener MI]. }
  clear K. destruct (existsb (N.eqb kind) [105; 99; 118; 121; 97]) eqn:K.
  - destruct (issue_mute h x seg0 kind (read_N idtxt) arg) as (E & H1 & H2).
    change seg0 with (mute_seg seg0) at 1. rewrite E.
    destruct (issue x seg0 kind (read_N idtxt) arg) as [x1 g1]. cbn [fst snd mute_pre pre_minv] in *. split; [reflexivity|].
    apply (minv_same _ _ MI); assumption.
  - cbn [mute_pre pre_minv]. split; [reflexivity|exact MI].
Qed.

(* ---------- one label ---------- *)

Definition mute_out (h : list bytes) (r : option bytes * xsys * option seg) : option bytes * xsys * option seg :=
  let '(o, x', g) := r in (o, mute h x', option_map mute_seg g).

Lemma finish_mute h p : pre_minv p ->
  exists h', finish (mute_pre h p) = mute_out h' (finish p) /\ MInv (snd (fst (finish p))).
Proof.
  destruct p as [x'|op x1 g]; cbn [pre_minv mute_pre finish]; intros MI.
  - exists h. cbn [mute_out option_map fst snd]. split; [reflexivity|exact MI].
  - change (fuel_for (mute h x1)) with (fuel_for x1).
    destruct (settle_mute (fuel_for x1) h x1 g MI) as (h' & E & MI'). exists h'. rewrite E.
    destruct (settle (fuel_for x1) x1 g) as [x2 g2]. cbn [fst snd mute_out option_map] in *. split; [reflexivity|exact MI'].
Qed.

Lemma label_mute h x l : MInv x -> is_drop l = false -> is_poll l = false ->
  exists h', apply_label_g (mute h x) l = mute_out h' (apply_label_g x l) /\ MInv (snd (fst (apply_label_g x l))).
Proof.
  intros MI ND NP. rewrite !apply_label_g_parts. unfold is_drop, is_poll, kind_of in *.
  destruct (fst (label_parts l)) as [|kind idtxt].
  - exists h. cbn [mute_out option_map fst snd]. split; [reflexivity|exact MI].
  - apply Bool.orb_false_elim in NP. destruct NP as [K113 K81]. rewrite !apply_core_pre.
    destruct (pre_op_mute h x l kind idtxt (snd (label_parts l)) MI K113 K81 ND) as [E PI]. rewrite E.
    exact (finish_mute h _ PI).
Qed.

Lemma drop_run x l : is_drop l = true -> apply_label_g x l = finish (PRun l (set_ev x true (x_evh x)) seg0).
Proof.
  intros H. unfold is_drop, kind_of in *.
  destruct (fst (label_parts l)) as [|kind idtxt] eqn:E1; [discriminate|]. apply N.eqb_eq in H. subst kind.
  rewrite (apply_label_g_known x l 90 idtxt _ E1 eq_refl). f_equal.
Qed.

(* the listener goes away: on the side where it stays, nothing happens (t0) *)
Lemma drop_mute x1 x l : MInv x -> is_drop l = true -> set_ev x1 true (x_evh x1) = mute (x_evh x1) x ->
  exists h', apply_label_g x1 l = (Some l, mute h' (snd (fst (apply_label_g x tick0))), option_map mute_seg (snd (apply_label_g x tick0))) /\
             MInv (snd (fst (apply_label_g x tick0))) /\ exists g, snd (apply_label_g x tick0) = Some g.
Proof.
  intros MI HD E. rewrite (drop_run x1 l HD), tick0_run, E. cbn [finish].
  change (fuel_for (mute (x_evh x1) x)) with (fuel_for x). change seg0 with (mute_seg seg0) at 1.
  destruct (settle_mute (fuel_for x) (x_evh x1) x seg0 MI) as (h' & E2 & MI2). rewrite E2. exists h'.
  destruct (settle (fuel_for x) x seg0) as [x2 g2]. cbn [fst snd option_map] in *.
  split; [reflexivity|]. split; [exact MI2|]. exists g2. reflexivity.
Qed.

Lemma drop_not_poll l : is_drop l = true -> is_poll l = false.
Proof. unfold is_drop, is_poll. destruct (kind_of l) as [k|]; [|reflexivity]. intros H. apply N.eqb_eq in H. subst. reflexivity. Qed.

Lemma mute_idem h x : set_ev (mute h x) true (x_evh (mute h x)) = mute h x.
Proof. reflexivity. Qed.

Lemma mute_plain x : MInv x -> set_ev x true (x_evh x) = mute (x_evh x) x.
Proof. reflexivity. Qed.

(* THE THEOREM: the run in which the listener is dropped is the run in which it is not, without the events after the drop *)
Theorem mute_erasure ls : forall (m : bool) h x, MInv x -> mute_ok ls = true ->
  exists h', xrun (if m then mute h x else x) ls =
             ((if m || existsb is_drop ls then mute h' (fst (mute_run m x ls)) else fst (mute_run m x ls)), snd (mute_run m x ls)).
Proof.
  induction ls as [|l r IH]; intros m h x MI OK.
  - cbn [xrun mute_run existsb fst snd]. rewrite Bool.orb_false_r. exists h. destruct m; reflexivity.
  - cbn [mute_ok forallb] in OK. apply andb_prop in OK. destruct OK as [NP OK]. apply Bool.negb_true_iff in NP.
    cbn [xrun mute_run existsb]. unfold mute_label. destruct (is_drop l) eqn:HD.
    + (* the listener is dropped here *)
      rewrite !Bool.orb_true_r. cbn [orb].
      assert (E0 : set_ev (if m then mute h x else x) true (x_evh (if m then mute h x else x)) = mute (x_evh (if m then mute h x else x)) x)
        by (destruct m; reflexivity).
      destruct (drop_mute (if m then mute h x else x) x l MI HD E0) as (h1 & E & MI1 & (g & EG)). rewrite E.
      destruct (apply_label_g x tick0) as [[o x'] og]. cbn [fst snd] in *. subst og. cbn [option_map].
      destruct (IH true h1 x' MI1 OK) as (h2 & E2). cbn [orb] in E2. rewrite E2.
      destruct (mute_run true x' r) as [xf gs]. cbn [fst snd]. exists h2. reflexivity.
    + rewrite !Bool.orb_false_r. cbn [orb].
      destruct m.
      * (* already muted *)
        destruct (label_mute h x l MI HD NP) as (h1 & E & MI1). rewrite E. cbn [orb].
        destruct (apply_label_g x l) as [[o x'] [g|]]; cbn [mute_out option_map fst snd] in *.
        -- destruct (IH true h1 x' MI1 OK) as (h2 & E2). cbn [orb] in E2. rewrite E2.
           destruct (mute_run true x' r) as [xf gs]. cbn [fst snd]. exists h2. reflexivity.
        -- destruct (IH true h1 x' MI1 OK) as (h2 & E2). cbn [orb] in E2. rewrite E2. exists h2. reflexivity.
      * (* not yet *)
        destruct (label_mute h x l MI HD NP) as (_ & _ & MI1). cbn [orb].
        destruct (apply_label_g x l) as [[o x'] [g|]]; cbn [fst snd] in *.
        -- destruct (IH false h x' MI1 OK) as (h2 & E2). cbn [orb] in E2. rewrite E2.
           destruct (mute_run false x' r) as [xf gs]. cbn [fst snd]. exists h2. reflexivity.
        -- destruct (IH false h x' MI1 OK) as (h2 & E2). cbn [orb] in E2. rewrite E2. exists h2. reflexivity.
Qed.

(* ---------- what the theorem says about the segments ---------- *)

Definition seg_muted (gm gp : seg) : Prop :=
  g_w gm = g_w gp /\ g_conn gm = g_conn gp /\ g_res gm = g_res gp /\ g_panic gm = g_panic gp /\ (g_ev gm = g_ev gp \/ g_ev gm = []).

Lemma seg_muted_refl g : seg_muted g g.
Proof. repeat split; auto. Qed.
Lemma seg_muted_mute g : seg_muted (mute_seg g) g.
Proof. repeat split; auto. Qed.

Lemma mute_run_segs ls : forall m x,
  fst (mute_run m x ls) = fst (xrun x (map mute_label ls)) /\
  Forall2 seg_muted (snd (mute_run m x ls)) (snd (xrun x (map mute_label ls))).
Proof.
  induction ls as [|l r IH]; intros m x; cbn [mute_run xrun map]; [split; [reflexivity|constructor]|].
  destruct (apply_label_g x (mute_label l)) as [[o x'] [g|]].
  - destruct (IH (m || is_drop l) x') as [E F].
    destruct (mute_run (m || is_drop l) x' r) as [xf gs]. destruct (xrun x' (map mute_label r)) as [xe ge]. cbn [fst snd] in *.
    split; [exact E|]. constructor; [destruct (m || is_drop l); [apply seg_muted_mute|apply seg_muted_refl]|exact F].
  - exact (IH (m || is_drop l) x').
Qed.

Lemma minv_init cf : MInv (xinit cf).
Proof.
  assert (E : xinit cf = mkX HDone None true false PIdle true [] Initial [] false false false [] [] true 0 false cf
                             s0 idle_line [] false [] false []) by (vm_compute; reflexivity).
  rewrite E. constructor; reflexivity.
Qed.

Lemma muted_parts gm gp : Forall2 seg_muted gm gp ->
  map g_w gm = map g_w gp /\ map g_res gm = map g_res gp /\ map g_conn gm = map g_conn gp /\ map g_panic gm = map g_panic gp /\
  Forall2 (fun a b0 => g_ev a = g_ev b0 \/ g_ev a = []) gm gp.
Proof.
  induction 1 as [|a b0 la lb (W & C & R & P & V) F IH]; cbn [map]; [repeat split; constructor|].
  destruct IH as (W' & R' & C' & P' & V'). rewrite W, R, C, P, W', R', C', P'. repeat split; try reflexivity. constructor; assumption.
Qed.

(* from the start of a session: with the listener dropped somewhere along the way, every segment shows the same writes, connection
   results, caller results and panics as the run in which it is kept, and either the same events or none; the end states differ
   in the listener fields only *)
Theorem exec_mute cf ls : mute_ok ls = true ->
  let segs := snd (xrun (xinit cf) ls) in
  let plain := snd (xrun (xinit cf) (map mute_label ls)) in
  Forall2 seg_muted segs plain /\
  same_but_listener (fst (xrun (xinit cf) ls)) (fst (xrun (xinit cf) (map mute_label ls))).
Proof.
  intros OK segs plain.
  destruct (mute_erasure ls false [] (xinit cf) (minv_init cf) OK) as (h' & E). cbn [orb] in E.
  destruct (mute_run_segs ls false (xinit cf)) as [EF FS].
  unfold segs, plain. rewrite E. cbn [fst snd]. split; [exact FS|].
  rewrite EF. destruct (existsb is_drop ls); reflexivity.
Qed.

(* inside the fault-free fragment: requests go on being answered after the application has dropped its ConnectionEvents — the
   results handed out are the replies to a prefix of the issued requests in issue order, the wire is that of the run with the
   listener kept, the server is never violated, nothing panics *)
Theorem exec_mute_session cf ls gls : mute_ok ls = true -> in_fragment cf (map mute_label ls) gls ->
  let segs := snd (xrun (xinit cf) ls) in
  (exists k, flat_map g_res segs = map (echo_result cf) (firstn k (flat_map issued_of gls))) /\
  map g_w segs = map g_w (snd (xrun (xinit cf) (map mute_label ls))) /\
  Forall (fun g => g_panic g = false) segs /\
  s_violated (x_srv (fst (xrun (xinit cf) ls))) = false.
Proof.
  intros OK [F2 FG] segs.
  destruct (exec_mute cf ls OK) as [FS SL]. fold segs in FS.
  destruct (muted_parts _ _ FS) as (W & R & _ & P & _).
  destruct (exec_session cf (map mute_label ls) gls F2 FG) as (NV & (k & ER) & _ & PN).
  assert (FR : forall (a b0 : list seg), map g_res a = map g_res b0 -> flat_map g_res a = flat_map g_res b0).
  { intros a b0 H. rewrite !flat_map_concat_map, H. reflexivity. }
  split; [exists k; rewrite (FR _ _ R); exact ER|]. split; [exact W|]. split.
  - rewrite Forall_forall in *. intros g Hg. apply (in_map g_panic) in Hg. rewrite P in Hg. apply in_map_iff in Hg.
    destruct Hg as (g' & Eg & Hg'). rewrite <- Eg. exact (PN g' Hg').
  - unfold same_but_listener in SL. assert (ES : x_srv (fst (xrun (xinit cf) ls)) = x_srv (fst (xrun (xinit cf) (map mute_label ls)))).
    { change (x_srv (fst (xrun (xinit cf) ls))) with (x_srv (set_ev (fst (xrun (xinit cf) ls)) false [])). rewrite SL. reflexivity. }
    rewrite ES. exact NV.
Qed.

(* ---------- non-vacuity ---------- *)

(* the listener is dropped while request 1 is in flight; two changes happen afterwards; three requests are answered *)
Definition ex_mute_labs : list bytes :=
  [b "S*"; b "N:706c61796572"; b "D0"; b "c1:status"; b "S*"; b "D0"; b "Z"; b "S*"; b "D0"; b "N:6d69786572"; b "t100"; b "S*"; b "D0";
   b "c2:stats"; b "S*"; b "D0"; b "S*"; b "D0"; b "c3:currentsong"; b "S*"; b "D0"].

Example ex_mute :
  mute_ok ex_mute_labs = true /\
  flat_map g_res (snd (xrun (xinit ex_cf) ex_mute_labs)) =
    map (echo_result ex_cf) [mkReq 1 (b "status" ++ [LF]); mkReq 2 (b "stats" ++ [LF]); mkReq 3 (b "currentsong" ++ [LF])] /\
  flat_map g_ev (snd (xrun (xinit ex_cf) ex_mute_labs)) = map ev_text [b "player"] /\
  flat_map g_ev (snd (xrun (xinit ex_cf) (map mute_label ex_mute_labs))) = map ev_text [b "player"; b "mixer"] /\
  flat_map g_w (snd (xrun (xinit ex_cf) ex_mute_labs)) = flat_map g_w (snd (xrun (xinit ex_cf) (map mute_label ex_mute_labs))).
Proof. repeat split; vm_compute; reflexivity. Qed.

(* the parts, for Props/ *)
Lemma exec_mute_events cf ls : mute_ok ls = true ->
  Forall2 (fun a b0 => g_ev a = g_ev b0 \/ g_ev a = []) (snd (xrun (xinit cf) ls)) (snd (xrun (xinit cf) (map mute_label ls))).
Proof. intros OK. destruct (exec_mute cf ls OK) as [FS _]. exact (proj2 (proj2 (proj2 (proj2 (muted_parts _ _ FS))))). Qed.

Lemma exec_mute_results cf ls : mute_ok ls = true ->
  map g_res (snd (xrun (xinit cf) ls)) = map g_res (snd (xrun (xinit cf) (map mute_label ls))) /\
  map g_w (snd (xrun (xinit cf) ls)) = map g_w (snd (xrun (xinit cf) (map mute_label ls))) /\
  map g_panic (snd (xrun (xinit cf) ls)) = map g_panic (snd (xrun (xinit cf) (map mute_label ls))).
Proof. intros OK. destruct (exec_mute cf ls OK) as [FS _]. destruct (muted_parts _ _ FS) as (W & R & _ & P & _). repeat split; assumption. Qed.

(* ---------- ... and when the connection then ends ---------- *)

(* the listener has gone, then the stream ends (or reads fail): every request still resolves exactly once, in issue order; nobody
   is left waiting; nothing panics — the callers cannot tell that nobody listens for events *)
Definition all_resolved_quietly (gls : list glabel) (segs : list seg) (x' : xsys) : Prop :=
  quiet x' /\ x_callers x' = [] /\
  map fst (flat_map g_res segs) = map q_id (flat_map issued_of gls) /\
  Forall (fun g => g_panic g = false) segs.

Lemma fault_after_mute cf ls gls fl :
  is_drop fl = false -> is_poll fl = false ->
  mute_ok ls = true -> in_fragment cf (map mute_label ls) gls ->
  (let xf := fst (xrun (xinit cf) (map mute_label ls)) in
   let segs := snd (xrun (xinit cf) (map mute_label ls)) in
   exists g', snd (apply_label_g xf fl) = Some g' /\ all_resolved gls segs (snd (fst (apply_label_g xf fl))) g') ->
  all_resolved_quietly gls (snd (xrun (xinit cf) (ls ++ [fl]))) (fst (xrun (xinit cf) (ls ++ [fl]))).
Proof.
  intros ND NP OK IF DR.
  assert (OK2 : mute_ok (ls ++ [fl]) = true).
  { unfold mute_ok in *. rewrite forallb_app, OK. cbn [forallb]. rewrite NP. reflexivity. }
  destruct (exec_mute cf (ls ++ [fl]) OK2) as [FS SL].
  rewrite map_app in FS, SL. cbn [map] in FS, SL. unfold mute_label at 2 in FS. unfold mute_label at 2 in SL. rewrite ND in FS, SL.
  rewrite (xrun_app (xinit cf) (map mute_label ls) [fl]) in FS, SL.
  destruct (exec_session cf (map mute_label ls) gls (proj1 IF) (proj2 IF)) as (_ & _ & _ & PN).
  destruct (xrun (xinit cf) (map mute_label ls)) as [xf segs]. cbn [fst snd] in DR, PN.
  rewrite xrun_one in FS, SL.
  destruct DR as (g' & EG & (Q & CE & IDS & PG)).
  destruct (apply_label_g xf fl) as [[o x'] og]. cbn [fst snd] in *. subst og. cbn [fst snd] in FS, SL.
  destruct (muted_parts _ _ FS) as (_ & R & _ & P & _).
  unfold same_but_listener in SL.
  assert (EQ : forall (T : Type) (f : xsys -> T), (forall y, f (set_ev y false []) = f y) -> f (fst (xrun (xinit cf) (ls ++ [fl]))) = f x').
  { intros T f Hf. rewrite <- (Hf (fst (xrun (xinit cf) (ls ++ [fl])))), SL, Hf. reflexivity. }
  unfold all_resolved_quietly. split; [|split; [|split]].
  - unfold quiet in *. rewrite (EQ _ x_pt (fun y => eq_refl)), (EQ _ x_queue (fun y => eq_refl)). exact Q.
  - rewrite (EQ _ x_callers (fun y => eq_refl)). exact CE.
  - assert (FR : flat_map g_res (snd (xrun (xinit cf) (ls ++ [fl]))) = flat_map g_res (segs ++ [g'])).
    { rewrite !flat_map_concat_map, R. reflexivity. }
    rewrite FR, flat_map_app. cbn [flat_map]. rewrite app_nil_r. exact IDS.
  - assert (PA : Forall (fun g => g_panic g = false) (segs ++ [g'])) by (apply Forall_app; split; [exact PN|constructor; [exact PG|constructor]]).
    rewrite Forall_forall in *. intros g Hg. apply (in_map g_panic) in Hg. rewrite P in Hg. apply in_map_iff in Hg.
    destruct Hg as (g0 & Eg & Hg0). rewrite <- Eg. exact (PA g0 Hg0).
Qed.

Theorem exec_mute_eof_resolves cf ls gls : mute_ok ls = true -> in_fragment cf (map mute_label ls) gls ->
  all_resolved_quietly gls (snd (xrun (xinit cf) (ls ++ [b "e"]))) (fst (xrun (xinit cf) (ls ++ [b "e"]))).
Proof.
  intros OK IF. apply (fault_after_mute cf ls gls (b "e")); try reflexivity; try assumption.
  exact (exec_eof_resolves cf (map mute_label ls) gls IF).
Qed.

Theorem exec_mute_rerr_resolves cf ls gls : mute_ok ls = true -> in_fragment cf (map mute_label ls) gls ->
  all_resolved_quietly gls (snd (xrun (xinit cf) (ls ++ [b "r"]))) (fst (xrun (xinit cf) (ls ++ [b "r"]))).
Proof.
  intros OK IF. apply (fault_after_mute cf ls gls (b "r")); try reflexivity; try assumption.
  exact (exec_rerr_resolves cf (map mute_label ls) gls IF).
Qed.
