(* CommandsParams.v — the abstract parameter values of the predefined commands (shared vocabulary of
   CommandsModel.v, the code side, and CommandsSpec.v, the MPD-reference side): Rust integers as N,
   std::ops::Bound, Duration as (secs, nanos), enums, byte strings, tags, single-tag filters, and
   one constructor of [predef] per public constructor/builder path of commands/definitions.rs.
   Types only. *)
From MPD Require Import Bytes Tables TagModel.
Open Scope N_scope.

(* ---------- std::ops::Bound / RangeBounds ---------- *)
Inductive bound := Included (n : N) | Excluded (n : N) | Unbounded.


(* ---------- commands/mod.rs ---------- *)
Inductive song := SongId (id : N) | SongPos (p : N).
Inductive seek_mode := SeekForward | SeekBackward | SeekAbsolute.
Inductive single_mode := SingleEnabled | SingleDisabled | SingleOneshot.
Inductive rg_mode := RgOff | RgTrack | RgAlbum | RgAuto.

(* enum PositionOrRelative *)
Inductive pos_or_rel := Absolute (p : N) | BeforeCurrent (n : N) | AfterCurrent (n : N).

(* filter.rs: single-tag filters with optional negation (filters are C11's subject) *)
Record sfilter := mk_filter { f_tag : tag; f_op : operator; f_value : bytes; f_neg : bool }.


Inductive sticker_op := StEquals | StLessThan | StGreaterThan.

(* ---------- every public constructor / builder path ---------- *)
Inductive move_from := MfId (id : N) | MfPosition (p : N) | MfRange (lo hi : bound).

Inductive predef :=
  | PClearQueue | PNext | PPing | PPrevious | PStop
  | PReplayGainStatus | PStatus | PStats | PQueue | PQueueAll | PCurrentSong | PGetPlaylists
  | PGetEnabledTagTypes | PReadChannelMessages | PListChannels
  | PClearPlaylist (s : bytes) | PDeletePlaylist (s : bytes) | PSaveQueueAsPlaylist (s : bytes)
  | PSubscribeToChannel (s : bytes) | PUnsubscribeFromChannel (s : bytes) | PGetPlaylist (s : bytes)
  | PSetConsume (x : bool) | PSetPause (x : bool) | PSetRandom (x : bool) | PSetRepeat (x : bool)
  | PQueueSong (s : song) | PQueueRange (lo hi : bound)                 (* Queue::song / Queue::range *)
  | PQueueRangeSong (s : song) | PQueueRangeRange (lo hi : bound)       (* QueueRange::song / ::range *)
  | PSetVolume (v : N) | PSetSingle (m : single_mode) | PSetReplayGainMode (m : rg_mode)
  | PCrossfade (secs nanos : N) | PSeekTo (s : song) (secs nanos : N) | PSeek (m : seek_mode) (secs nanos : N)
  | PShuffleAll | PShuffleRange (lo hi : bound)
  | PPlayCurrent | PPlaySong (s : song)
  | PAdd (uri : bytes) (pos : option pos_or_rel)              (* Add::uri [.at | .before_current | .after_current] *)
  | PDeleteId (id : N) | PDeletePosition (p : N) | PDeleteRange (lo hi : bound)
  | PMove (from : move_from) (to : pos_or_rel)                (* Move::{id,position,range}.{to_position,after_current,before_current} *)
  | PFind (f : sfilter) (sort : option tag) (window : option (bound * bound))
  | PList (t : tag) (f : option sfilter) (group_by : list tag)
  | PCount (f : sfilter) | PCountGroupBy (f : sfilter) (g : tag)    (* Count::new(f).group_by(g) *)
  | PCountGrouped (g : tag) (f : option sfilter)                    (* CountGrouped::new(g)[.filter(f)] *)
  | PRenamePlaylist (from to : bytes)
  | PLoadPlaylist (name : bytes) (r : option (bound * bound))
  | PAddToPlaylist (pl url : bytes) (pos : option N)
  | PRemoveFromPlaylistPosition (pl : bytes) (p : N) | PRemoveFromPlaylistRange (pl : bytes) (lo hi : bound)
  | PMoveInPlaylist (pl : bytes) (from to : N)
  | PListAllInRoot | PListAllInDirectory (d : bytes)
  | PSetBinaryLimit (n : N)
  | PAlbumArt (uri : bytes) (offset : option N) | PAlbumArtEmbedded (uri : bytes) (offset : option N)
  | PTagTypesEnableAll | PTagTypesDisableAll | PTagTypesDisable (l : list tag) | PTagTypesEnable (l : list tag)
  | PStickerGet (uri name : bytes) | PStickerSet (uri name value : bytes) | PStickerDelete (uri name : bytes)
  | PStickerList (uri : bytes) | PStickerFind (uri name : bytes) (flt : option (sticker_op * bytes))
  | PUpdate (uri : option bytes) | PRescan (uri : option bytes)
  | PSendChannelMessage (ch msg : bytes).

