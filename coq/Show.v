(* Show.v — canonical text rendering shared by every case kind of the correspondence harness.
   The implementation-side harness (Rust) prints the same format. *)
From MPD Require Import Bytes.
Open Scope N_scope.

Definition words (l : list bytes) : bytes := join [SP] l.
Definition kv (k : string) (v : bytes) : bytes := b k ++ [61] ++ v.
Definition show_N (n : N) : bytes := render_dec n.
Definition show_nat (n : nat) : bytes := render_dec (N.of_nat n).
Definition show_bool (x : bool) : bytes := if x then [49] else [48].
Definition show_cmp (c : comparison) : bytes :=
  match c with Lt => b "lt" | Eq => b "eq" | Gt => b "gt" end.
Definition show_opt {A} (f : A -> bytes) (o : option A) : bytes :=
  match o with None => b "none" | Some x => b "some:" ++ f x end.

(* decimal numeral -> N for case-file fields (digits only; anything else reads as 0) *)
Definition read_N (s : bytes) : N := dec_value s.
Definition read_nat (s : bytes) : nat := N.to_nat (dec_value s).

Fixpoint strip_prefix (p s : bytes) : option bytes :=
  match p, s with
  | [], _ => Some s
  | a :: p', c :: s' => if a =? c then strip_prefix p' s' else None
  | _ :: _, [] => None
  end.
