(* LoopDrainProofs.v — C08 for the EXECUTABLE loop system: when the stream ends, every request that
   is held, in flight or queued is resolved exactly once, in order, and the loop comes to rest. *)
From Coq Require Import ZifyBool ZifyN ZifyNat.
From Coq Require Import PeanoNat.
From MPD Require Import Bytes Tables Show ParserModel BuilderModel Grammar ConnModel CommandModel MpdTokenizer
  LoopModel ServerModel CallerModel DriverConn DriverLoop ParserProofs ConnProofs RoundTripProofs
  LoopSpec LoopSpecProofs LoopRefine LoopRefineProofs.
Open Scope N_scope.

Ltac xsimp :=
  cbn [x_h x_pw x_client x_failed x_pt x_spawned x_buf x_bst x_inbox x_eof x_rerr x_wfail x_queue x_callers
       x_handle x_elapsed x_evend x_cf x_srv x_c2s x_s2c x_wp x_wh x_evq x_evh
       set_pt set_conn set_qc set_h set_flags set_w set_ev set_net
       g_w g_conn g_res g_ev g_panic add_res add_ev add_w add_conn set_panic] in *.

Section Drain.
Variable cf : sconf.
Notation S2C := (LoopRefine.S2C cf).
Notation wf_s := (LoopRefine.wf_s cf).
Notation echo_reply := (LoopRefine.echo_reply cf).

Definition kraw (c : N * ckind) : Prop := exists k, snd c = KRaw k.

(* the ids of the callers that must be waiting, oldest first *)
Definition ids_out (x : xsys) : list N :=
  match x_pt x with PWait id => [id] | PCancel q => [q_id q] | _ => [] end ++ map q_id (x_queue x).

(* the invariant of the draining phase: the stream has ended ([x_eof]) or every read fails ([x_rerr]); what is
   buffered or still in the transport is a prefix of the encodings of the responses [rs] *)
Record DInv (x : xsys) (rs : list sresp) : Prop := mkDInv {
  d_h : x_h x = HDone;
  d_client : x_client x = true;
  d_spawned : x_spawned x = true;
  d_dead : (x_eof x = true /\ x_rerr x = false) \/ x_rerr x = true;
  d_wfail : x_wfail x = false;
  d_handle : x_handle x = true;
  d_wp : x_wp x = false;
  d_wh : x_wh x = [];
  d_evq : x_evq x = false;
  d_ids : map fst (x_callers x) = ids_out x;
  d_kinds : Forall kraw (x_callers x);
  d_exited : x_pt x = PExited -> x_queue x = [];
  d_s2c_wf : Forall wf_s rs;
  d_s2c : S2C (x_bst x) (x_buf x) (x_inbox x) (x_s2c x) rs
}.

Definition drank (p : point) : nat :=
  match p with PExited => 0 | PIdle => 1 | PCancel _ => 1 | PWindow => 2 | PWait _ => 3 end.
Definition dmu (x : xsys) (rs : list sresp) : nat := 8 * length rs + 4 * length (x_queue x) + drank (x_pt x).

(* resolved ++ outstanding, by id, in order *)
Definition ids (g : seg) (x : xsys) : list N := map fst (g_res g) ++ map fst (x_callers x).

(* ---------- the end of the stream at a receive ---------- *)

(* how a receive ends once the input is dead: a clean end only when reads do not fail *)
Definition ending (x : xsys) (e : rres) : Prop := (e = RClean /\ x_rerr x = false) \/ exists pe, e = RErr pe.

Lemma s2c_regroup st buf inbox wire rs : S2C st buf [] (inbox ++ wire) rs -> S2C st buf inbox wire rs.
Proof. intros [done [P E]]. exists done. split; [exact P|]. cbn [app] in E. exact E. Qed.

Lemma s2c_group st buf inbox wire rs : S2C st buf inbox wire rs -> S2C st buf [] (inbox ++ wire) rs.
Proof. intros [done [P E]]. exists done. split; [exact P|]. cbn [app]. exact E. Qed.

Lemma try_receive_eof x rs : DInv x rs ->
  exists st' rest left,
    (exists e, try_receive x = (Some e, set_conn x rest st' left) /\ ending x e /\
               S2C st' rest left (x_s2c x) rs) \/
    (exists r1 rs', rs = r1 :: rs' /\
       try_receive x = (Some (RResp (resp_of echo_reply r1)), set_conn x rest st' left) /\
       S2C st' rest left (x_s2c x) rs').
Proof.
  intros D. unfold try_receive. destruct (d_dead _ _ D) as [[EO ER]|ER]; rewrite ER.
  - rewrite EO.
    pose proof (recv_sim cf _ _ _ _ _ (d_s2c_wf _ _ D) (d_s2c _ _ D)) as RS.
    destruct (bparse_all (x_bst x) (x_buf x ++ x_inbox x)) as [[st' rest] v].
    exists st', rest, []. destruct v as [r| |].
    + right. destruct RS as [r1 [rs' [E1 [E2 E3]]]]. exists r1, rs'. subst r. auto.
    + left. destruct (in_progress st' || negb (beq rest [])); eexists; (split; [reflexivity|]); split; auto;
        [right; eexists; reflexivity|left; auto].
    + contradiction.
  - pose proof (recv_sim cf _ _ _ _ _ (d_s2c_wf _ _ D) (s2c_group _ _ _ _ _ (d_s2c _ _ D))) as RS.
    destruct (bparse_all (x_bst x) (x_buf x ++ [])) as [[st' rest] v].
    exists st', rest, (x_inbox x). destruct v as [r| |].
    + right. destruct RS as [r1 [rs' [E1 [E2 E3]]]]. exists r1, rs'. subst r. split; [exact E1|]. split; [reflexivity|].
      apply s2c_regroup. exact E3.
    + left. eexists. split; [reflexivity|]. split; [right; eexists; reflexivity|]. apply s2c_regroup. exact RS.
    + contradiction.
Qed.

(* ---------- the loop leaves: the queue is dropped, caller by caller ---------- *)

Definition closed_res (q : request) : N * bytes := (q_id q, show_cmd_result CRClosed).

Definition add_closed (g : seg) (Q : list request) : seg :=
  mkSeg (g_w g) (g_conn g) (g_res g ++ map closed_res Q) (g_ev g) (g_panic g).

Lemma set_qc_twice x a c a' c' : set_qc (set_qc x a c) a' c' = set_qc x a' c'.
Proof. reflexivity. Qed.

Lemma callers_head cs id rest : map fst cs = id :: rest -> Forall kraw cs ->
  exists k cs', cs = (id, KRaw k) :: cs' /\ map fst cs' = rest /\ Forall kraw cs'.
Proof.
  intros E F. destruct cs as [|[cid ck] cs']; [discriminate|]. cbn in E. injection E as -> E.
  pose proof (Forall_inv F) as [k K]. cbn in K. subst ck. exists k, cs'. split; [reflexivity|]. split; [exact E|exact (Forall_inv_tail F)].
Qed.

Lemma drop_queue_full : forall Q x g, map fst (x_callers x) = map q_id Q -> Forall kraw (x_callers x) ->
  drop_queue x g Q = (set_qc x (x_queue x) [], add_closed g Q).
Proof.
  induction Q as [|q Q IH]; intros x g EC FK; cbn [drop_queue].
  - unfold add_closed. cbn [map]. rewrite app_nil_r. destruct g. f_equal.
    destruct (x_callers x) eqn:EX; [|discriminate]. destruct x; cbn in *. subst. reflexivity.
  - cbn [map] in EC. destruct (callers_head _ _ _ EC FK) as [k [cs [E1 [E2 E3]]]].
    rewrite E1. cbn [find_caller]. rewrite N.eqb_refl. cbn [caller_result]. rewrite E1. cbn [remove_caller]. rewrite N.eqb_refl.
    rewrite IH by (xsimp; assumption). xsimp. rewrite set_qc_twice. f_equal.
    unfold add_closed, add_res. cbn. rewrite <- app_assoc. reflexivity.
Qed.

Lemma on_exit_exited x g : x_pt x = PExited -> map fst (x_callers x) = map q_id (x_queue x) -> Forall kraw (x_callers x) ->
  on_exit x g = (set_qc x [] [], add_closed g (x_queue x)).
Proof.
  intros EP EC FK. unfold on_exit. rewrite EP. rewrite drop_queue_full by (xsimp; assumption). reflexivity.
Qed.

Lemma on_exit_alive x g : x_pt x <> PExited -> on_exit x g = (x, g).
Proof. intros NE. unfold on_exit. destruct (x_pt x); try reflexivity. congruence. Qed.

(* ---------- what is reported when the loop leaves ---------- *)

Definition is_closed_ev (t : bytes) : Prop := exists k, t = b "ev:closed(" ++ show_closekind k ++ b ")".

(* the failure reached somebody: a closing event on the event stream, or a protocol error handed to a caller *)
Definition reported (g : seg) : Prop :=
  (exists t, In t (g_ev g) /\ is_closed_ev t) \/ (exists id pe, In (id, show_cmd_result (CRProto pe)) (g_res g)).

Definition grows (g g' : seg) : Prop :=
  (forall t, In t (g_ev g) -> In t (g_ev g')) /\ (forall r, In r (g_res g) -> In r (g_res g')).

Lemma reported_grows g g' : grows g g' -> reported g -> reported g'.
Proof.
  intros [GE GR] [[t [I C]]|[id [pe I]]]; [left; exists t; auto|right; exists id, pe; auto].
Qed.

Lemma grows_trans g1 g2 g3 : grows g1 g2 -> grows g2 g3 -> grows g1 g3.
Proof. intros [A B] [C D]. split; auto. Qed.

Lemma grows_refl g : grows g g.
Proof. split; auto. Qed.

(* one resumption: the invariant, the measure, the accounting of callers — and what it reports *)
Definition dpost (x : xsys) (rs : list sresp) (g : seg) (x' : xsys) (g' : seg) : Prop :=
  (exists rs', DInv x' rs' /\ (dmu x' rs' < dmu x rs)%nat) /\ ids g' x' = ids g x /\ g_panic g' = g_panic g /\
  grows g g' /\ x_rerr x' = x_rerr x /\
  (x_rerr x = true -> x_pt x <> PExited -> x_pt x' = PExited -> reported g').

Ltac destr_dinv D :=
  destruct D as [Dh Dclient Dspawned Ddead Dwfail Dhandle Dwp Dwh Devq Dids Dkinds Dexited Ds2cwf Ds2c].

Ltac grows_tac :=
  split; intros ? HIn; unfold add_closed, ev_seg, add_ev, add_res, add_w in *; cbn [g_ev g_res] in *; rewrite ?in_app_iff; solve [auto].

Ltac not_exit := let EX := fresh "EX" in intros _ _ EX; xsimp; try discriminate EX.

Ltac by_event k :=
  intros _ _ _; left; eexists; split; [unfold add_closed, add_ev, add_res; cbn [g_ev]; rewrite ?in_app_iff; right; left; reflexivity | exists k; reflexivity].

Ltac by_result :=
  intros _ _ _; right; eexists; eexists; unfold add_closed, add_res; cbn [g_res]; rewrite !in_app_iff; left; right; left; reflexivity.

(* the common end of every case: the new state and segment are explicit *)
Ltac finish rs' :=
  eexists; eexists; split; [reflexivity|]; unfold dpost; split; [exists rs'; split|split; [|split; [|split; [|split]]]].

(* the stream ends while the loop idles: it leaves, every queued request is dropped *)
Lemma drain_idle_end x rs g st' buf' left e :
  DInv x rs -> x_pt x = PIdle -> try_receive x = (Some e, set_conn x buf' st' left) -> ending x e ->
  S2C st' buf' left (x_s2c x) rs ->
  exists x' g', xstep x g = Some (x', g') /\ dpost x rs g x' g'.
Proof.
  intros D EP TR EE SC. pose proof D as D'. destr_dinv D'.
  assert (EI : map fst (x_callers x) = map q_id (x_queue x)) by (rewrite Dids; unfold ids_out; rewrite EP; reflexivity).
  unfold xstep, client_event. rewrite EP. cbn [wants_recv wants_cmd]. rewrite TR. xsimp. rewrite Dwfail, EP.
  destruct EE as [[-> NR] | [pe ->]]; cbn [cstep route_all route]; xsimp; rewrite ?Devq;
    (rewrite on_exit_exited by (xsimp; first [reflexivity|assumption])); xsimp; finish rs.
  all: try (match goal with |- DInv _ _ => constructor; xsimp; try assumption; try reflexivity; try (constructor; fail) end).
  all: try (unfold dmu; xsimp; rewrite EP; cbn; lia).
  all: try (unfold ids, add_closed, add_ev; xsimp; rewrite EI, map_app, !map_map, app_nil_r; reflexivity).
  all: try (match goal with |- @eq _ _ _ => reflexivity end).
  all: try (match goal with |- grows _ _ => grows_tac end).
  all: try (intros R _ _; rewrite R in NR; discriminate NR).
  all: try by_event (CKProto pe).
Qed.

(* a well-formed reply has a first frame or is an error *)
Lemma single_some r1 : wf_s r1 ->
  (exists f, single_frame (resp_of echo_reply r1) = Some (inl f)) \/
  (exists e, single_frame (resp_of echo_reply r1) = Some (inr e)).
Proof.
  destruct r1 as [ns|u]; intros W.
  - left. eexists. reflexivity.
  - cbn [LoopRefine.wf_s] in W. cbn [resp_of]. unfold LoopRefine.echo_reply.
    destruct (req_good_cases cf u W) as [[EL [ls [EU [ELL G]]]]|[EL [l [EU [ERL E0]]]]]; rewrite EL.
    + rewrite ELL. destruct (list_good_parts cf ls G) as [_ [_ [WF _]]].
      set (r := reply_of_list cf ls) in *.
      unfold single_frame. destruct (r_frames r) as [|f fs] eqn:EF; [|left; eexists; reflexivity].
      destruct (r_error r) as [e|] eqn:EE; [right; eexists; reflexivity|]. exfalso.
      unfold wf_resp in WF. apply Bool.andb_true_iff in WF. destruct WF as [WF _].
      apply Bool.andb_true_iff in WF. destruct WF as [SHP _].
      unfold wf_shape, aresp_of_list in SHP. cbn [a_form a_error a_frames] in SHP. rewrite EE, EF in SHP. discriminate SHP.
    + rewrite ERL. destruct (echo_line_parts cf l E0) as [_ [_ [_ [_ [WF _]]]]].
      set (r := reply_of_line cf l) in *.
      unfold wf_resp in WF. apply Bool.andb_true_iff in WF. destruct WF as [WF _].
      apply Bool.andb_true_iff in WF. destruct WF as [SHP _].
      unfold wf_shape, aresp_of in SHP. cbn [a_form a_error a_frames] in SHP. rewrite map_length in SHP.
      unfold single_frame. destruct (r_error r) as [e|].
      * apply Nat.eqb_eq in SHP. destruct (r_frames r); [right; eexists; reflexivity|discriminate].
      * apply Nat.eqb_eq in SHP. destruct (r_frames r) as [|f fs]; [discriminate|left; eexists; reflexivity].
Qed.

Lemma drain_idle_frame x rs g st' buf' left r1 rs' f :
  DInv x rs -> x_pt x = PIdle -> rs = r1 :: rs' -> single_frame (resp_of echo_reply r1) = Some (inl f) ->
  try_receive x = (Some (RResp (resp_of echo_reply r1)), set_conn x buf' st' left) -> S2C st' buf' left (x_s2c x) rs' ->
  exists x' g', xstep x g = Some (x', g') /\ dpost x rs g x' g'.
Proof.
  intros D EP ER SF TR SC. pose proof D as D'. destr_dinv D'.
  unfold xstep, client_event. rewrite EP. cbn [wants_recv wants_cmd]. rewrite TR. xsimp. rewrite Dwfail, EP.
  cbn [cstep]. rewrite SF. unfold events_of.
  rewrite route_events by (xsimp; exact Devq). cbn [route_all route]. xsimp. rewrite Dwp.
  rewrite on_exit_alive by (xsimp; discriminate). rewrite ER in Ds2cwf.
  finish rs'.
  - constructor; xsimp; try assumption; try reflexivity; try discriminate.
    + rewrite Dids. unfold ids_out. xsimp. rewrite EP. reflexivity.
    + exact (Forall_inv_tail Ds2cwf).
  - unfold dmu. xsimp. rewrite EP, ER. cbn. lia.
  - unfold ids, ev_seg. xsimp. reflexivity.
  - reflexivity.
  - grows_tac.
  - reflexivity.
  - not_exit.
Qed.

(* a reply that is an error where an idle reply is expected: the loop leaves (ConnectionClosed(InvalidResponse)) *)
Lemma drain_idle_bad x rs g st' buf' left r1 rs' e :
  DInv x rs -> x_pt x = PIdle -> rs = r1 :: rs' -> single_frame (resp_of echo_reply r1) = Some (inr e) ->
  try_receive x = (Some (RResp (resp_of echo_reply r1)), set_conn x buf' st' left) -> S2C st' buf' left (x_s2c x) rs' ->
  exists x' g', xstep x g = Some (x', g') /\ dpost x rs g x' g'.
Proof.
  intros D EP ER SF TR SC. pose proof D as D'. destr_dinv D'.
  assert (EI : map fst (x_callers x) = map q_id (x_queue x)) by (rewrite Dids; unfold ids_out; rewrite EP; reflexivity).
  unfold xstep, client_event. rewrite EP. cbn [wants_recv wants_cmd]. rewrite TR. xsimp. rewrite Dwfail, EP.
  cbn [cstep]. rewrite SF. cbn [route_all route]. xsimp. rewrite ?Devq.
  rewrite on_exit_exited by (xsimp; first [reflexivity|assumption]). xsimp. rewrite ER in Ds2cwf.
  finish rs'.
  - constructor; xsimp; try assumption; try reflexivity; try (constructor; fail). exact (Forall_inv_tail Ds2cwf).
  - unfold dmu. xsimp. rewrite EP, ER. cbn. lia.
  - unfold ids, add_closed, add_ev. xsimp. rewrite EI, map_app, !map_map, app_nil_r. reflexivity.
  - reflexivity.
  - grows_tac.
  - reflexivity.
  - by_event CKInvalidResponse.
Qed.

(* the head caller when a request is held or in flight *)
Lemma head_caller x rs id : DInv x rs -> ((exists q, x_pt x = PCancel q /\ id = q_id q) \/ x_pt x = PWait id) ->
  exists k cs, x_callers x = (id, KRaw k) :: cs /\ map fst cs = map q_id (x_queue x) /\ Forall kraw cs.
Proof.
  intros D EP. apply callers_head; [|exact (d_kinds _ _ D)]. rewrite (d_ids _ _ D). unfold ids_out.
  destruct EP as [[q [EP ->]]|EP]; rewrite EP; reflexivity.
Qed.

Lemma drain_cancel_end x rs g q st' buf' left e :
  DInv x rs -> x_pt x = PCancel q -> try_receive x = (Some e, set_conn x buf' st' left) -> ending x e ->
  S2C st' buf' left (x_s2c x) rs ->
  exists x' g', xstep x g = Some (x', g') /\ dpost x rs g x' g'.
Proof.
  intros D EP TR EE SC. pose proof D as D'. destr_dinv D'.
  destruct (head_caller x rs (q_id q) D (or_introl (ex_intro _ q (conj EP eq_refl)))) as [k [cs [EC [ECS KCS]]]].
  unfold xstep, client_event. rewrite EP. cbn [wants_recv wants_cmd]. rewrite TR. xsimp. rewrite Dwfail, EP.
  destruct EE as [[-> NR] | [pe ->]]; cbn [cstep route_all route]; xsimp;
    rewrite EC; cbn [find_caller]; rewrite N.eqb_refl; cbn [caller_result]; xsimp; rewrite EC; cbn [remove_caller]; rewrite N.eqb_refl;
    (rewrite on_exit_exited by (xsimp; first [reflexivity|assumption])); xsimp; finish rs.
  all: try (match goal with |- DInv _ _ => constructor; xsimp; try assumption; try reflexivity; try (constructor; fail) end).
  all: try (unfold dmu; xsimp; rewrite EP; cbn; lia).
  all: try (unfold ids, add_closed, add_res; xsimp; rewrite EC; cbn [map fst]; rewrite ECS, !map_app, !map_map, app_nil_r, <- app_assoc; reflexivity).
  all: try (match goal with |- @eq _ _ _ => reflexivity end).
  all: try (match goal with |- grows _ _ => grows_tac end).
  all: try (intros R _ _; rewrite R in NR; discriminate NR).
  all: try by_result.
Qed.

Lemma drain_cancel_frame x rs g q st' buf' left r1 rs' f :
  DInv x rs -> x_pt x = PCancel q -> rs = r1 :: rs' -> single_frame (resp_of echo_reply r1) = Some (inl f) ->
  try_receive x = (Some (RResp (resp_of echo_reply r1)), set_conn x buf' st' left) -> S2C st' buf' left (x_s2c x) rs' ->
  exists x' g', xstep x g = Some (x', g') /\ dpost x rs g x' g'.
Proof.
  intros D EP ER SF TR SC. pose proof D as D'. destr_dinv D'.
  unfold xstep, client_event. rewrite EP. cbn [wants_recv wants_cmd]. rewrite TR. xsimp. rewrite Dwfail, EP.
  cbn [cstep]. rewrite SF. unfold events_of.
  rewrite route_events by (xsimp; exact Devq). cbn [route_all route]. xsimp. rewrite Dwp.
  rewrite on_exit_alive by (xsimp; discriminate). rewrite ER in Ds2cwf.
  finish rs'.
  - constructor; xsimp; try assumption; try reflexivity; try discriminate.
    + rewrite Dids. unfold ids_out. xsimp. rewrite EP. reflexivity.
    + exact (Forall_inv_tail Ds2cwf).
  - unfold dmu. xsimp. rewrite EP, ER. cbn. lia.
  - unfold ids, ev_seg. xsimp. reflexivity.
  - reflexivity.
  - grows_tac.
  - reflexivity.
  - not_exit.
Qed.

Lemma drain_cancel_bad x rs g q st' buf' left r1 rs' e :
  DInv x rs -> x_pt x = PCancel q -> rs = r1 :: rs' -> single_frame (resp_of echo_reply r1) = Some (inr e) ->
  try_receive x = (Some (RResp (resp_of echo_reply r1)), set_conn x buf' st' left) -> S2C st' buf' left (x_s2c x) rs' ->
  exists x' g', xstep x g = Some (x', g') /\ dpost x rs g x' g'.
Proof.
  intros D EP ER SF TR SC. pose proof D as D'. destr_dinv D'.
  destruct (head_caller x rs (q_id q) D (or_introl (ex_intro _ q (conj EP eq_refl)))) as [k [cs [EC [ECS KCS]]]].
  unfold xstep, client_event. rewrite EP. cbn [wants_recv wants_cmd]. rewrite TR. xsimp. rewrite Dwfail, EP.
  cbn [cstep]. rewrite SF. cbn [route_all route]. xsimp. rewrite ?Devq. xsimp.
  rewrite EC; cbn [find_caller]; rewrite N.eqb_refl; cbn [caller_result]; xsimp; rewrite EC; cbn [remove_caller]; rewrite N.eqb_refl.
  rewrite on_exit_exited by (xsimp; first [reflexivity|assumption]). xsimp. rewrite ER in Ds2cwf.
  finish rs'.
  - constructor; xsimp; try assumption; try reflexivity; try (constructor; fail). exact (Forall_inv_tail Ds2cwf).
  - unfold dmu. xsimp. rewrite EP, ER. cbn. lia.
  - unfold ids, add_closed, add_res, add_ev. xsimp. rewrite EC. cbn [map fst]. rewrite ECS, !map_app, !map_map, app_nil_r, <- app_assoc. reflexivity.
  - reflexivity.
  - grows_tac.
  - reflexivity.
  - by_event CKInvalidResponse.
Qed.

Lemma drain_wait_resp x rs g id st' buf' left r1 rs' :
  DInv x rs -> x_pt x = PWait id -> rs = r1 :: rs' ->
  try_receive x = (Some (RResp (resp_of echo_reply r1)), set_conn x buf' st' left) -> S2C st' buf' left (x_s2c x) rs' ->
  exists x' g', xstep x g = Some (x', g') /\ dpost x rs g x' g'.
Proof.
  intros D EP ER TR SC. pose proof D as D'. destr_dinv D'.
  destruct (head_caller x rs id D (or_intror EP)) as [k [cs [EC [ECS KCS]]]].
  unfold xstep, client_event. rewrite EP. cbn [wants_recv wants_cmd]. rewrite TR. xsimp. rewrite Dwfail, EP.
  cbn [cstep route_all route]. xsimp.
  rewrite EC; cbn [find_caller]; rewrite N.eqb_refl; cbn [caller_result]; xsimp; rewrite EC; cbn [remove_caller]; rewrite N.eqb_refl.
  rewrite on_exit_alive by (xsimp; discriminate). rewrite ER in Ds2cwf.
  finish rs'.
  - constructor; xsimp; try assumption; try reflexivity; try discriminate; try (unfold ids_out; xsimp; exact ECS).
    exact (Forall_inv_tail Ds2cwf).
  - unfold dmu. xsimp. rewrite EP, ER. cbn. lia.
  - unfold ids, add_res. xsimp. rewrite EC. cbn [map fst]. rewrite map_app, <- app_assoc. reflexivity.
  - reflexivity.
  - grows_tac.
  - reflexivity.
  - not_exit.
Qed.

Lemma drain_wait_end x rs g id st' buf' left e :
  DInv x rs -> x_pt x = PWait id -> try_receive x = (Some e, set_conn x buf' st' left) -> ending x e ->
  S2C st' buf' left (x_s2c x) rs ->
  exists x' g', xstep x g = Some (x', g') /\ dpost x rs g x' g'.
Proof.
  intros D EP TR EE SC. pose proof D as D'. destr_dinv D'.
  destruct (head_caller x rs id D (or_intror EP)) as [k [cs [EC [ECS KCS]]]].
  unfold xstep, client_event. rewrite EP. cbn [wants_recv wants_cmd]. rewrite TR. xsimp. rewrite Dwfail, EP.
  destruct EE as [[-> NR] | [pe ->]]; cbn [cstep route_all route]; xsimp;
    rewrite EC; cbn [find_caller]; rewrite N.eqb_refl; cbn [caller_result]; xsimp; rewrite EC; cbn [remove_caller]; rewrite N.eqb_refl.
  - (* clean end while waiting: the loop leaves *)
    rewrite on_exit_exited by (xsimp; first [reflexivity|assumption]). xsimp.
    finish rs.
    + constructor; xsimp; try assumption; try reflexivity; try (constructor; fail).
    + unfold dmu. xsimp. rewrite EP. cbn. lia.
    + unfold ids, add_closed, add_res. xsimp. rewrite EC. cbn [map fst]. rewrite ECS, !map_app, !map_map, app_nil_r, <- app_assoc. reflexivity.
    + reflexivity.
    + grows_tac.
    + reflexivity.
    + intros R _ _. rewrite R in NR. discriminate NR.
  - (* an error while waiting: the caller gets it; the loop goes on to the window *)
    rewrite on_exit_alive by (xsimp; discriminate).
    finish rs.
    + constructor; xsimp; try assumption; try reflexivity; try discriminate; try (unfold ids_out; xsimp; exact ECS).
    + unfold dmu. xsimp. rewrite EP. cbn. lia.
    + unfold ids, add_res. xsimp. rewrite EC. cbn [map fst]. rewrite map_app, <- app_assoc. reflexivity.
    + reflexivity.
    + grows_tac.
    + reflexivity.
    + not_exit.
Qed.

Lemma drain_window_take x rs g q rest :
  DInv x rs -> x_pt x = PWindow -> x_queue x = q :: rest ->
  exists x' g', xstep x g = Some (x', g') /\ dpost x rs g x' g'.
Proof.
  intros D EP EQ. pose proof D as D'. destr_dinv D'.
  unfold xstep, client_event. rewrite EP. cbn [wants_recv wants_cmd]. rewrite EQ. xsimp. rewrite Dwfail, EP.
  cbn [cstep route_all route]. xsimp. rewrite Dwp.
  rewrite on_exit_alive by (xsimp; discriminate).
  finish rs.
  - constructor; xsimp; try assumption; try reflexivity; try discriminate.
    rewrite Dids. unfold ids_out. xsimp. rewrite EP, EQ. reflexivity.
  - unfold dmu. xsimp. rewrite EP, EQ. cbn. lia.
  - unfold ids. xsimp. reflexivity.
  - reflexivity.
  - grows_tac.
  - reflexivity.
  - not_exit.
Qed.

Lemma drain_window_timeout x rs g :
  DInv x rs -> x_pt x = PWindow -> x_queue x = [] -> (idle_timeout_ms <=? x_elapsed x) = true ->
  exists x' g', xstep x g = Some (x', g') /\ dpost x rs g x' g'.
Proof.
  intros D EP EQ ET. pose proof D as D'. destr_dinv D'.
  unfold xstep, client_event. rewrite EP. cbn [wants_recv wants_cmd]. rewrite EQ.
  unfold chan_closed. rewrite Dhandle. cbn [negb andb]. rewrite ET. rewrite Dwfail, EP.
  cbn [cstep route_all route]. xsimp. rewrite Dwp.
  rewrite on_exit_alive by (xsimp; discriminate).
  finish rs.
  - constructor; xsimp; try assumption; try reflexivity; try discriminate.
    rewrite Dids. unfold ids_out. xsimp. rewrite EP, EQ. reflexivity.
  - unfold dmu. xsimp. rewrite EP, EQ. cbn. lia.
  - unfold ids. xsimp. reflexivity.
  - reflexivity.
  - grows_tac.
  - reflexivity.
  - not_exit.
Qed.

(* ---------- one resumption during the drain ---------- *)

Definition quiet (x : xsys) : Prop := x_pt x = PExited \/ (x_pt x = PWindow /\ x_queue x = []).

Lemma drain_step x rs g : DInv x rs ->
  match xstep x g with
  | None => quiet x
  | Some (x', g') => dpost x rs g x' g'
  end.
Proof.
  intros D. destruct (x_pt x) as [|q|id| |] eqn:EP.
  - destruct (try_receive_eof x rs D) as [st' [rest [left [[e [TR [EE SC]]]|[r1 [rs' [ER [TR SC]]]]]]]].
    + destruct (drain_idle_end x rs g st' rest left e D EP TR EE SC) as [x' [g' [EX P]]]. rewrite EX. exact P.
    + assert (W1 : wf_s r1) by (pose proof (d_s2c_wf _ _ D) as W; rewrite ER in W; exact (Forall_inv W)).
      destruct (single_some r1 W1) as [[f SF]|[e SF]].
      * destruct (drain_idle_frame x rs g st' rest left r1 rs' f D EP ER SF TR SC) as [x' [g' [EX P]]]. rewrite EX. exact P.
      * destruct (drain_idle_bad x rs g st' rest left r1 rs' e D EP ER SF TR SC) as [x' [g' [EX P]]]. rewrite EX. exact P.
  - destruct (try_receive_eof x rs D) as [st' [rest [left [[e [TR [EE SC]]]|[r1 [rs' [ER [TR SC]]]]]]]].
    + destruct (drain_cancel_end x rs g q st' rest left e D EP TR EE SC) as [x' [g' [EX P]]]. rewrite EX. exact P.
    + assert (W1 : wf_s r1) by (pose proof (d_s2c_wf _ _ D) as W; rewrite ER in W; exact (Forall_inv W)).
      destruct (single_some r1 W1) as [[f SF]|[e SF]].
      * destruct (drain_cancel_frame x rs g q st' rest left r1 rs' f D EP ER SF TR SC) as [x' [g' [EX P]]]. rewrite EX. exact P.
      * destruct (drain_cancel_bad x rs g q st' rest left r1 rs' e D EP ER SF TR SC) as [x' [g' [EX P]]]. rewrite EX. exact P.
  - destruct (try_receive_eof x rs D) as [st' [rest [left [[e [TR [EE SC]]]|[r1 [rs' [ER [TR SC]]]]]]]].
    + destruct (drain_wait_end x rs g id st' rest left e D EP TR EE SC) as [x' [g' [EX P]]]. rewrite EX. exact P.
    + destruct (drain_wait_resp x rs g id st' rest left r1 rs' D EP ER TR SC) as [x' [g' [EX P]]]. rewrite EX. exact P.
  - destruct (x_queue x) as [|q rest] eqn:EQ.
    + destruct (idle_timeout_ms <=? x_elapsed x) eqn:ET.
      * destruct (drain_window_timeout x rs g D EP EQ ET) as [x' [g' [EX P]]]. rewrite EX. exact P.
      * assert (EN : xstep x g = None).
        { unfold xstep, client_event. rewrite EP. cbn [wants_recv wants_cmd]. rewrite EQ.
          unfold chan_closed. rewrite (d_handle _ _ D). cbn [negb andb]. rewrite ET. reflexivity. }
        rewrite EN. right. auto.
    + destruct (drain_window_take x rs g q rest D EP EQ) as [x' [g' [EX P]]]. rewrite EX. exact P.
  - assert (EN : xstep x g = None) by (unfold xstep, client_event; rewrite EP; reflexivity).
    rewrite EN. left. exact EP.
Qed.

Lemma settle_unfold_d f x g rs : DInv x rs ->
  settle (S f) x g = match xstep x g with None => (x, g) | Some (x4, g4) => settle f x4 g4 end.
Proof.
  intros D. cbn [settle]. unfold handshake_event. rewrite (d_h _ _ D), (d_spawned _ _ D), (d_wh _ _ D).
  cbn [negb]. unfold xstep. destruct (client_event x) as [[i x1]|]; [|reflexivity].
  destruct (cstep (x_wfail x1) (x_pt x1) i) as [p outs].
  destruct (route_all _ g outs) as [x3 g3]. destruct (on_exit x3 g3) as [x4 g4]. reflexivity.
Qed.

(* the drain comes to rest with nobody left waiting, everybody who was waiting resolved once, in order; and when reads fail,
   leaving the loop always tells somebody *)
Lemma drain_settles : forall f x g rs, DInv x rs -> (dmu x rs < f)%nat ->
  let x' := fst (settle f x g) in let g' := snd (settle f x g) in
  quiet x' /\ x_callers x' = [] /\ map fst (g_res g') = map fst (g_res g) ++ map fst (x_callers x) /\
  g_panic g' = g_panic g /\ grows g g' /\
  (x_rerr x = true -> x_pt x <> PExited -> x_pt x' = PExited -> reported g').
Proof.
  induction f as [|f IH]; intros x g rs D Hf; [lia|].
  rewrite (settle_unfold_d f x g rs D). pose proof (drain_step x rs g D) as DS.
  destruct (xstep x g) as [[x4 g4]|].
  - destruct DS as [[rs' [D4 MU]] [ID [PN [GR [RE RP]]]]].
    assert (Hf4 : (dmu x4 rs' < f)%nat) by lia.
    destruct (IH x4 g4 rs' D4 Hf4) as [Q [C [R [P [GR' RP']]]]]. cbn zeta in *.
    split; [exact Q|]. split; [exact C|]. split; [rewrite R; exact ID|]. split; [rewrite P; exact PN|].
    split; [eapply grows_trans; eassumption|].
    intros RR NE EX. destruct (x_pt x4) eqn:EP4;
      try (apply RP'; [rewrite RE; exact RR|discriminate|exact EX]).
    eapply reported_grows; [exact GR'|]. apply RP; [exact RR|exact NE|reflexivity].
  - cbn [fst snd]. assert (CE : x_callers x = []).
    { pose proof (d_ids _ _ D) as DI. unfold ids_out in DI. destruct DS as [EP|[EP EQ]]; rewrite EP in DI.
      - rewrite (d_exited _ _ D EP) in DI. destruct (x_callers x); [reflexivity|discriminate].
      - rewrite EQ in DI. destruct (x_callers x); [reflexivity|discriminate]. }
    split; [exact DS|]. split; [exact CE|]. rewrite CE. cbn. rewrite app_nil_r.
    split; [reflexivity|]. split; [reflexivity|]. split; [apply grows_refl|]. intros _ NE EX. contradiction.
Qed.

End Drain.

(* ---------- from a fault-free state ---------- *)

Ltac destr_rel HR :=
  destruct HR as [Hh Hclient Hfailed Hspawned Heof Hrerr Hwfail Hhandle Hwp Hwh Hevq Hcf Hpt Hqueue Hcallers Hreqs
                  Hc2s Hwrites Hidle Hpending Hpwf Hviol Hreported Hs2cwf Hs2c].

Ltac compute_eqb :=
  repeat match goal with
         | |- context [N.eqb (Npos ?a) (Npos ?c)] =>
           let v := eval vm_compute in (N.eqb (Npos a) (Npos c)) in change (N.eqb (Npos a) (Npos c)) with v
         end.

Lemma crel_ids cs qs : Forall2 crel cs qs -> map fst cs = map q_id qs /\ Forall kraw cs.
Proof.
  induction 1 as [|c q cs qs [CI CK] _ [IH1 IH2]]; [split; [reflexivity|constructor]|].
  cbn [map]. rewrite CI, IH1. split; [reflexivity|]. constructor; [|exact IH2].
  destruct CK as [[E _]|E]; eexists; exact E.
Qed.

(* the requests whose callers wait, by id, as the executable state sees them *)
Lemma outstanding_ids_out cf x s : Rel cf x s -> Inv2 (echo_reply cf) s -> map q_id (outstanding s) = ids_out x.
Proof.
  intros HR H2. unfold outstanding, ids_out. rewrite (r_pt _ _ _ HR), (r_queue _ _ _ HR), map_app.
  unfold Inv2 in H2. destruct (a_pt s) eqn:EP; try reflexivity.
  destruct H2 as [pre [q [E1 [E2 _]]]]. rewrite E1, last_last, E2. reflexivity.
Qed.

Lemma dinv_of_rel cf x s : Rel cf x s -> Inv (echo_reply cf) s -> Inv2 (echo_reply cf) s ->
  DInv cf (set_flags x true (x_rerr x) (x_wfail x) (x_handle x) (x_evend x)) (a_s2c s).
Proof.
  intros HR HI H2. pose proof (outstanding_ids_out cf x s HR H2) as OI. destr_rel HR.
  destruct (crel_ids _ _ Hcallers) as [CI CK].
  constructor; xsimp; try assumption; try reflexivity.
  - left. split; [reflexivity|assumption].
  - rewrite CI. exact OI.
  - intros EP. exfalso. destruct HI as [SH _]. unfold shape in SH. rewrite <- Hpt, EP in SH. exact SH.
Qed.

Lemma dinv_of_rel_rerr cf x s : Rel cf x s -> Inv (echo_reply cf) s -> Inv2 (echo_reply cf) s ->
  DInv cf (set_flags x (x_eof x) true (x_wfail x) (x_handle x) (x_evend x)) (a_s2c s).
Proof.
  intros HR HI H2. pose proof (outstanding_ids_out cf x s HR H2) as OI. destr_rel HR.
  destruct (crel_ids _ _ Hcallers) as [CI CK].
  constructor; xsimp; try assumption; try reflexivity.
  - right. reflexivity.
  - rewrite CI. exact OI.
  - intros EP. exfalso. destruct HI as [SH _]. unfold shape in SH. rewrite <- Hpt, EP in SH. exact SH.
Qed.

Lemma dmu_bound cf x s : Rel cf x s -> Inv (echo_reply cf) s ->
  (dmu (set_flags x true (x_rerr x) (x_wfail x) (x_handle x) (x_evend x)) (a_s2c s) <
   fuel_for (set_flags x true (x_rerr x) (x_wfail x) (x_handle x) (x_evend x)))%nat.
Proof.
  intros HR HI. pose proof (nu_bound cf s HI) as NB. unfold nu in NB. unfold dmu, fuel_for. xsimp.
  assert (drank (x_pt x) <= 3)%nat by (destruct (x_pt x); cbn; lia). lia.
Qed.

(* the label "e" (end of stream) *)
Lemma label_eof x :
  apply_label_g x (b "e") =
  let x1 := set_flags x true (x_rerr x) (x_wfail x) (x_handle x) (x_evend x) in
  let '(x2, g2) := settle (fuel_for x1) x1 seg0 in (Some (b "e"), x2, Some g2).
Proof.
  unfold apply_label_g. change (split_on 58 (b "e")) with [[101]]. cbv beta iota zeta.
  unfold apply_core. compute_eqb. cbv beta iota zeta. reflexivity.
Qed.

(* the ids of the callers still waiting are those of the issued requests not yet answered, in issue order *)
Lemma outstanding_ids cf x s : Rel cf x s -> Inv (echo_reply cf) s -> Inv2 (echo_reply cf) s ->
  map fst (x_callers x) = map q_id (skipn (length (a_replies s)) (a_issued s)).
Proof.
  intros HR HI H2. destruct (crel_ids _ _ (r_callers _ _ _ HR)) as [CI _]. rewrite CI. f_equal.
  destruct HI as (_ & _ & _ & _ & _ & FF & _). unfold Inv2 in H2. unfold outstanding.
  destruct (a_pt s) eqn:EP;
    try (rewrite H2, map_length, <- FF, skipn_app, Nat.sub_diag, skipn_all; cbn [skipn app]; reflexivity).
  destruct H2 as [pre [q [E1 [E2 [E3 _]]]]]. rewrite E3, map_length, <- FF, E1, <- app_assoc, last_last.
  rewrite skipn_app, Nat.sub_diag, skipn_all. cbn [skipn app held]. reflexivity.
Qed.

Lemma label_rerr x :
  apply_label_g x (b "r") =
  let x1 := set_flags x (x_eof x) true (x_wfail x) (x_handle x) (x_evend x) in
  let '(x2, g2) := settle (fuel_for x1) x1 seg0 in (Some (b "r"), x2, Some g2).
Proof.
  unfold apply_label_g. change (split_on 58 (b "r")) with [[114]]. cbv beta iota zeta.
  unfold apply_core. compute_eqb. cbv beta iota zeta. reflexivity.
Qed.

Lemma dmu_bound_rerr cf x s : Rel cf x s -> Inv (echo_reply cf) s ->
  (dmu (set_flags x (x_eof x) true (x_wfail x) (x_handle x) (x_evend x)) (a_s2c s) <
   fuel_for (set_flags x (x_eof x) true (x_wfail x) (x_handle x) (x_evend x)))%nat.
Proof.
  intros HR HI. pose proof (nu_bound cf s HI) as NB. unfold nu in NB. unfold dmu, fuel_for. xsimp.
  assert (drank (x_pt x) <= 3)%nat by (destruct (x_pt x); cbn; lia). lia.
Qed.

(* what both theorems say about the segment [g'] and the state [x'] after the fault *)
Definition all_resolved (gls : list glabel) (segs : list seg) (x' : xsys) (g' : seg) : Prop :=
  (* the loop has left, or rests in the re-idle window with nothing queued *)
  quiet x' /\
  (* nobody is left waiting *)
  x_callers x' = [] /\
  (* every request ever issued has been resolved exactly once, in issue order: the answered ones before the
     fault, the others (in flight, held, queued) by it *)
  map fst (flat_map g_res segs ++ g_res g') = map q_id (flat_map issued_of gls) /\
  g_panic g' = false.

Lemma fault_resolves cf labs gls x1 :
  in_fragment cf labs gls ->
  let xf := fst (xrun (xinit cf) labs) in
  let segs := snd (xrun (xinit cf) labs) in
  (forall sf, Rel cf xf sf -> Inv (echo_reply cf) sf -> Inv2 (echo_reply cf) sf -> DInv cf x1 (a_s2c sf) /\ (dmu x1 (a_s2c sf) < fuel_for x1)%nat) ->
  x_callers x1 = x_callers xf ->
  all_resolved gls segs (fst (settle (fuel_for x1) x1 seg0)) (snd (settle (fuel_for x1) x1 seg0)).
Proof.
  intros [F2 FG] xf segs HD XC.
  destruct (exec_refines cf labs gls F2 FG) as [sch [nr [ne [WF [IQ [HR [HI [H2 [ER [ED [EA [RS [EV PN]]]]]]]]]]]]].
  fold xf in HR. fold segs in RS. set (sf := fold_left (LoopSpec.astep (echo_reply cf)) sch a0) in *.
  cbn [a0 a_replies app] in ER. change (ansreqs a0) with (@nil request) in EA. cbn [app] in EA.
  assert (ISS : a_issued sf = flat_map issued_of gls).
  { unfold sf. rewrite issued_fold. cbn [a0 a_issued app]. exact IQ. }
  destruct (HD sf HR HI H2) as [D MU].
  pose proof (drain_settles cf (fuel_for x1) x1 seg0 (a_s2c sf) D MU) as DS.
  destruct (settle (fuel_for x1) x1 seg0) as [x2 g2]. cbn [fst snd] in *.
  destruct DS as [Q [C [R [P _]]]]. split; [exact Q|]. split; [exact C|]. split; [|exact P].
  rewrite map_app, R. cbn [seg0 g_res map app]. rewrite XC.
  rewrite (outstanding_ids cf xf sf HR HI H2), RS, ER, map_length, <- ISS.
  (* answered requests = the first |nr| issued requests *)
  destruct (ansreqs_prefix _ sf HI) as [rest E]. rewrite EA in E.
  assert (PRE : map fst (map (res_text cf) nr) = map q_id (firstn (length nr) (a_issued sf))).
  { rewrite E, <- prefix_firstn, map_map. reflexivity. }
  rewrite PRE, <- map_app, firstn_skipn. reflexivity.
Qed.

Theorem exec_eof_resolves cf labs gls : in_fragment cf labs gls ->
  let xf := fst (xrun (xinit cf) labs) in
  let segs := snd (xrun (xinit cf) labs) in
  exists g', snd (apply_label_g xf (b "e")) = Some g' /\
             all_resolved gls segs (snd (fst (apply_label_g xf (b "e")))) g'.
Proof.
  intros IF xf segs. rewrite label_eof. cbv zeta.
  set (x1 := set_flags xf true (x_rerr xf) (x_wfail xf) (x_handle xf) (x_evend xf)).
  pose proof (fault_resolves cf labs gls x1 IF
                (fun sf HR HI H2 => conj (dinv_of_rel cf xf sf HR HI H2) (dmu_bound cf xf sf HR HI)) eq_refl) as FR.
  fold xf segs in FR. destruct (settle (fuel_for x1) x1 seg0) as [x2 g2]. cbn [fst snd] in *.
  exists g2. split; [reflexivity|exact FR].
Qed.

Theorem exec_rerr_resolves cf labs gls : in_fragment cf labs gls ->
  let xf := fst (xrun (xinit cf) labs) in
  let segs := snd (xrun (xinit cf) labs) in
  exists g', snd (apply_label_g xf (b "r")) = Some g' /\
             all_resolved gls segs (snd (fst (apply_label_g xf (b "r")))) g'.
Proof.
  intros IF xf segs. rewrite label_rerr. cbv zeta.
  set (x1 := set_flags xf (x_eof xf) true (x_wfail xf) (x_handle xf) (x_evend xf)).
  pose proof (fault_resolves cf labs gls x1 IF
                (fun sf HR HI H2 => conj (dinv_of_rel_rerr cf xf sf HR HI H2) (dmu_bound_rerr cf xf sf HR HI)) eq_refl) as FR.
  fold xf segs in FR. destruct (settle (fuel_for x1) x1 seg0) as [x2 g2]. cbn [fst snd] in *.
  exists g2. split; [reflexivity|exact FR].
Qed.

(* when reads fail and the loop leaves, somebody is told: a caller gets the protocol error or the event stream gets
   ConnectionClosed (when nobody could be told yet — the loop rests in the re-idle window — it has not left) *)
Theorem exec_rerr_reported cf labs gls : in_fragment cf labs gls ->
  let xf := fst (xrun (xinit cf) labs) in
  forall g', snd (apply_label_g xf (b "r")) = Some g' ->
  x_pt (snd (fst (apply_label_g xf (b "r")))) = PExited -> reported g'.
Proof.
  intros [F2 FG] xf. rewrite label_rerr. cbv zeta.
  set (x1 := set_flags xf (x_eof xf) true (x_wfail xf) (x_handle xf) (x_evend xf)).
  destruct (exec_refines cf labs gls F2 FG) as [sch [nr [ne [WF [IQ [HR [HI [H2 _]]]]]]]].
  fold xf in HR. set (sf := fold_left (LoopSpec.astep (echo_reply cf)) sch a0) in *.
  pose proof (drain_settles cf (fuel_for x1) x1 seg0 (a_s2c sf) (dinv_of_rel_rerr cf xf sf HR HI H2) (dmu_bound_rerr cf xf sf HR HI)) as [_ [_ [_ [_ [_ RP]]]]].
  destruct (settle (fuel_for x1) x1 seg0) as [x2 g2]. cbn [fst snd] in *.
  intros g' E EX. injection E as <-. apply RP; [reflexivity| |exact EX].
  change (x_pt x1) with (x_pt xf). rewrite (r_pt _ _ _ HR). destruct HI as [SH _]. unfold shape in SH.
  intros EP. rewrite EP in SH. exact SH.
Qed.

(* non-vacuity: the example session of LoopRefineProofs, cut while request 1 is in flight (its reply is on the way,
   undelivered), request 2 and a third one queued behind it: the end of the stream resolves all three, in order *)
Example ex_eof :
  let labs := firstn 9 ex_labs ++ [b "c3:currentsong"] in
  let xf := fst (xrun (xinit ex_cf) labs) in
  map fst (x_callers xf) = [1; 2; 3] /\
  match snd (apply_label_g xf (b "e")) with
  | Some g => map fst (g_res g) = [1; 2; 3] /\ x_pt (snd (fst (apply_label_g xf (b "e")))) = PExited
  | None => False
  end.
Proof. vm_compute. auto. Qed.
