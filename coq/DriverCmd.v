(* DriverCmd.v — case kinds for command building (C06, C07, C13 framing) and the tokenizer oracle. *)
From MPD Require Import Bytes Tables Show CommandModel MpdTokenizer.
Open Scope N_scope.

Definition show_cmd_error (e : cmd_error) : bytes :=
  match e with
  | CmdEmpty => b "err empty"
  | CmdInvalidChar i => words [b "err"; b "char"; show_nat i]
  | CmdList => b "err list"
  end.

(* rendered bytes of one argument spec; None = spec not modelled *)
Definition render_spec (spec : bytes) : option bytes :=
  match split_on 58 spec with      (* ':' *)
  | [ty; val] =>
    if existsb (beq ty) [b "s"; b "S"; b "c"; b "cb"] then Some (escape_argument (unhex val))
    else if beq ty (b "r") || beq ty (b "t") then Some (unhex val)      (* r: a user-defined verbatim renderer; t: a hand-made Tag::Other, which renders its text verbatim too *)
    else if beq ty (b "b") then Some (if beq val (b "1") then [49] else [48])
    else if existsb (beq ty) [b "u8"; b "u16"; b "u32"; b "u64"; b "usize"] then Some (render_dec (read_N val))
    else None
  | _ => None
  end.

Fixpoint run_specs (c : bytes) (specs : list bytes) : list bytes :=
  match specs with
  | [] => []
  | s :: r =>
    match render_spec s with
    | None => [b "skip bad-spec"]
    | Some rendered =>
      match add_argument_raw c rendered with
      | (None, c') => words [b "ok"; hex (send_bytes c')] :: run_specs c' r
      | (Some i, c') => words [b "err_char_" ++ show_nat i; hex (send_bytes c')] :: run_specs c' r
      end
    end
  end.

Definition build_simple (spec : bytes) : option bytes :=
  match split_on 44 spec with      (* ',' *)
  | name :: args =>
    match build (unhex name) with
    | inl _ => None
    | inr c => add_all_str c (map unhex args)
    end
  | [] => None
  end.

Fixpoint all_some {A} (l : list (option A)) : option (list A) :=
  match l with
  | [] => Some []
  | Some x :: r => option_map (cons x) (all_some r)
  | None :: _ => None
  end.

Definition run_cmd (kind : bytes) (args : list bytes) : bytes :=
  if beq kind (b "cmd_build") then
    match args with
    | [h] =>
      let s := unhex h in
      if negb (utf8_valid s) then b "skip non-utf8" else
      match build s with
      | inl e => show_cmd_error e
      | inr c => words [b "ok"; hex (send_bytes c)]
      end
    | _ => b "bad-case"
    end
  else if beq kind (b "cmd_args") then
    match args with
    | h :: specs =>
      let s := unhex h in
      if negb (utf8_valid s) then b "skip non-utf8" else
      match build s with
      | inl e => show_cmd_error e
      | inr c => join (b " ; ") (words [b "ok"; hex (send_bytes c)] :: run_specs c specs)
      end
    | _ => b "bad-case"
    end
  else if beq kind (b "cmd_list") then
    match args with
    | how :: specs =>
      match all_some (map build_simple specs) with
      | None => b "skip bad-spec"
      | Some [] => b "skip empty"
      | Some cmds => words [kv "len" (show_nat (length cmds)); kv "bytes" (hex (render_list cmds))]
      end
    | _ => b "bad-case"
    end
  else if beq kind (b "escape") then
    match args with
    | [h] => let s := unhex h in if negb (utf8_valid s) then b "skip non-utf8" else hex (escape_argument s)
    | _ => b "bad-case"
    end
  (* oracle: MPD's tokenizer on the bytes the implementation wrote *)
  else if beq kind (b "tokenize") then
    match args with
    | [h] =>
      match mpd_tokenize (unhex h) with
      | None => b "none"
      | Some l => words (b "some" :: map hex l)
      end
    | _ => b "bad-case"
    end
  else b "unknown-kind".

Definition is_cmd_kind (k : bytes) : bool :=
  existsb (beq k) [b "cmd_build"; b "cmd_args"; b "cmd_list"; b "escape"; b "tokenize"].
