(* TagModel.v — Tag (mpd_client/src/tag.rs) and Subsystem (mpd_client/src/client/mod.rs)
   defined over the tables generated from the source. *)
From MPD Require Import Bytes Tables.
Open Scope N_scope.

Inductive tag := Named (v : tagv) | Other (s : bytes).

Definition tag_as_str (t : tag) : bytes :=
  match t with Named v => tag_name v | Other s => s end.

Inductive tag_result :=
  | TagOk (t : tag)
  | TagEmpty
  | TagInvalidChar (pos : nat).

(* first row of the match_ignore_case! table that matches ignoring ASCII case *)
Fixpoint lookup_row (tbl : list (bytes * tagv)) (s : bytes) : option tagv :=
  match tbl with
  | [] => None
  | (p, v) :: r => if eq_ignore_case s p then Some v else lookup_row r s
  end.

Definition tag_try_from (s : bytes) : tag_result :=
  match s with
  | [] => TagEmpty
  | _ =>
    match index_of (fun c => negb (tag_charset c)) s with
    | Some pos => TagInvalidChar pos
    | None =>
      match lookup_row tag_parse_table s with
      | Some v => TagOk (Named v)
      | None => TagOk (Other s)
      end
    end
  end.

(* Eq / Ord / Hash are one-line impls over as_str (shape-pinned by the translator) *)
Definition tag_eq (t u : tag) : bool := beq (tag_as_str t) (tag_as_str u).
Definition tag_cmp (t u : tag) : comparison := bcmp (tag_as_str t) (tag_as_str u).
Definition tag_pins_ok : bool :=
  pin_tag_eq && pin_tag_cmp && pin_tag_partial_cmp && pin_tag_hash.

(* ---------- subsystems ---------- *)

Inductive subsystem := SNamed (v : subv) | SOther (s : bytes).

Definition sub_as_str (s : subsystem) : bytes :=
  match s with SNamed v => sub_name v | SOther r => r end.

Fixpoint sub_lookup (tbl : list (bytes * subv)) (s : bytes) : option subv :=
  match tbl with
  | [] => None
  | (p, v) :: r => if beq s p then Some v else sub_lookup r s
  end.

Definition sub_from_name (s : bytes) : subsystem :=
  match sub_lookup sub_parse_table s with
  | Some v => SNamed v
  | None => SOther s
  end.

Definition sub_eq (a c : subsystem) : bool := beq (sub_as_str a) (sub_as_str c).
Definition sub_pins_ok : bool := pin_sub_eq && pin_sub_hash.
