(* Extract.v — extraction of the executable model (ExtrOcamlBasic only; N/nat/positive stay the
   extracted inductives). *)
Require Extraction.
Require Import ExtrOcamlBasic.
From MPD Require Import Driver.
Extraction Language OCaml.
Extraction "mdl.ml" dispatch.
