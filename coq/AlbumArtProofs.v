(* AlbumArtProofs.v — lemmas about Client::album_art against the picture-holding server. *)
From MPD Require Import Bytes Tables ParserModel BuilderModel CommandModel LoopModel CallerModel.
Open Scope N_scope.

Lemma art_continue_done st :
  a_size st <= N.of_nat (length (a_out st)) -> art_continue st = inr (ArtSome (a_out st) (a_mime st)).
Proof.
  intros H. unfold art_continue. destruct (N.ltb_spec (N.of_nat (length (a_out st))) (a_size st)); [lia | reflexivity].
Qed.
