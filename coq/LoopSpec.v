(* LoopSpec.v — the abstract (response-level) system the loop theorems are about: the client logic
   is LoopModel.cstep itself; the environment is a rule-abiding MPD server, two FIFO network
   queues and an adversarial scheduler that decides when callers issue requests, when the server
   reads a write, when a subsystem changes, when the client's pending receive completes, which
   branch of select! wins and when the re-idle window expires.  A receive completes with a whole
   response (segmentation is C02's business; a receive cancelled half-way keeps its progress —
   mod.rs parks the builder state — so taking a request never loses part of a reply). *)
From MPD Require Import Bytes Tables ParserModel BuilderModel ConnModel CommandModel LoopModel.
Open Scope N_scope.

Section Abstract.

(* the server's reply to a request, as a function of the bytes of that request *)
Variable reply_fn : bytes -> response.

Inductive sresp := SIdle (names : list bytes) | SReply (req : bytes).

Definition idle_frame (ns : list bytes) : frame := mkFrame (map (fun n => (sub_field_key, n)) ns) None.

Definition resp_of (r : sresp) : response :=
  match r with
  | SIdle ns => mkResp [idle_frame ns] None
  | SReply bs => reply_fn bs
  end.

Definition names_of (r : sresp) : list bytes := match r with SIdle ns => ns | SReply _ => [] end.

Record asys := mkA {
  a_pt : point;
  a_queue : list request;              (* requests enqueued by callers, not yet taken by the loop *)
  a_c2s : list bytes;                  (* writes of the client the server has not read yet *)
  a_idle : bool;                       (* server: waiting in idle *)
  a_pending : list bytes;              (* server: changes not yet reported *)
  a_s2c : list sresp;                  (* responses the client has not received yet *)
  a_violated : bool;                   (* server: something other than noidle arrived during idle *)
  (* ghost history *)
  a_issued : list request;
  a_sent : list request;               (* requests whose bytes were written, in order *)
  a_reported : list bytes;             (* names the server wrote in changed: lines *)
  a_delivered : list bytes;            (* names delivered as events *)
  a_replies : list (N * response)      (* (responder, response handed to it) *)
}.

Inductive label :=
  | LIssue (q : request)
  | LTake                  (* commands.recv() yields the head of the queue *)
  | LRecv                  (* the pending receive completes *)
  | LTimeout               (* the re-idle window expires *)
  | LServe                 (* the server reads the next write *)
  | LNotify (n : bytes).   (* a subsystem changes *)

Definition a0 : asys := mkA PIdle [] [idle_line] false [] [] false [] [] [] [] [].

Fixpoint apply_outs (s : asys) (outs : list cout) : asys :=
  match outs with
  | [] => s
  | o :: r =>
    apply_outs
      (match o with
       | OWrite bs => mkA (a_pt s) (a_queue s) (a_c2s s ++ [bs]) (a_idle s) (a_pending s) (a_s2c s) (a_violated s)
                          (a_issued s) (a_sent s) (a_reported s) (a_delivered s) (a_replies s)
       | OEvent n => mkA (a_pt s) (a_queue s) (a_c2s s) (a_idle s) (a_pending s) (a_s2c s) (a_violated s)
                         (a_issued s) (a_sent s) (a_reported s) (a_delivered s ++ [n]) (a_replies s)
       | OReply id (RepResp x) => mkA (a_pt s) (a_queue s) (a_c2s s) (a_idle s) (a_pending s) (a_s2c s) (a_violated s)
                         (a_issued s) (a_sent s) (a_reported s) (a_delivered s) (a_replies s ++ [(id, x)])
       | _ => s
       end) r
  end.

(* the request whose bytes a client step writes, if any *)
Definition sent_by (p : point) (i : cin) (p' : point) : list request :=
  match p, i, p' with
  | PCancel q, _, PWait _ => [q]
  | PWindow, InCmd (Some q), PWait _ => [q]
  | _, _, _ => []
  end.

Definition client (s : asys) (i : cin) : asys :=
  let '(p', outs) := cstep false (a_pt s) i in
  apply_outs (mkA p' (a_queue s) (a_c2s s) (a_idle s) (a_pending s) (a_s2c s) (a_violated s)
                  (a_issued s) (a_sent s ++ sent_by (a_pt s) i p') (a_reported s) (a_delivered s) (a_replies s)) outs.

Definition flush (s : asys) (c2s : list bytes) : asys :=
  mkA (a_pt s) (a_queue s) c2s false [] (a_s2c s ++ [SIdle (a_pending s)]) (a_violated s)
      (a_issued s) (a_sent s) (a_reported s ++ a_pending s) (a_delivered s) (a_replies s).

Definition serve (s : asys) : asys :=
  match a_c2s s with
  | [] => s
  | u :: rest =>
    if a_idle s then
      if beq u noidle_line then flush s rest
      else mkA (a_pt s) (a_queue s) rest (a_idle s) (a_pending s) (a_s2c s) true
               (a_issued s) (a_sent s) (a_reported s) (a_delivered s) (a_replies s)
    else if beq u idle_line then
      match a_pending s with
      | [] => mkA (a_pt s) (a_queue s) rest true [] (a_s2c s) (a_violated s)
                  (a_issued s) (a_sent s) (a_reported s) (a_delivered s) (a_replies s)
      | _ => flush s rest
      end
    else if beq u noidle_line then
      mkA (a_pt s) (a_queue s) rest false (a_pending s) (a_s2c s) (a_violated s)
          (a_issued s) (a_sent s) (a_reported s) (a_delivered s) (a_replies s)
    else
      mkA (a_pt s) (a_queue s) rest false (a_pending s) (a_s2c s ++ [SReply u]) (a_violated s)
          (a_issued s) (a_sent s) (a_reported s) (a_delivered s) (a_replies s)
  end.

Definition astep (s : asys) (l : label) : asys :=
  match l with
  | LIssue q => mkA (a_pt s) (a_queue s ++ [q]) (a_c2s s) (a_idle s) (a_pending s) (a_s2c s) (a_violated s)
                    (a_issued s ++ [q]) (a_sent s) (a_reported s) (a_delivered s) (a_replies s)
  | LTake =>
    match a_queue s with
    | q :: rest =>
      if wants_cmd (a_pt s)
      then client (mkA (a_pt s) rest (a_c2s s) (a_idle s) (a_pending s) (a_s2c s) (a_violated s)
                       (a_issued s) (a_sent s) (a_reported s) (a_delivered s) (a_replies s)) (InCmd (Some q))
      else s
    | [] => s
    end
  | LRecv =>
    match a_s2c s with
    | r :: rest =>
      if wants_recv (a_pt s)
      then client (mkA (a_pt s) (a_queue s) (a_c2s s) (a_idle s) (a_pending s) rest (a_violated s)
                       (a_issued s) (a_sent s) (a_reported s) (a_delivered s) (a_replies s)) (InRecv (RResp (resp_of r)))
      else s
    | [] => s
    end
  | LTimeout => match a_pt s with PWindow => client s InTimeout | _ => s end
  | LServe => serve s
  | LNotify n =>
    let s' := mkA (a_pt s) (a_queue s) (a_c2s s) (a_idle s) (a_pending s ++ [n]) (a_s2c s) (a_violated s)
                  (a_issued s) (a_sent s) (a_reported s) (a_delivered s) (a_replies s) in
    if a_idle s then flush s' (a_c2s s) else s'
  end.

Definition arun (sch : list label) : asys := fold_left astep sch a0.

(* a request is not itself the idle or noidle command (issuing those through the client is a
   misuse the session rules cannot survive) *)
Definition wf_req (q : request) : Prop := q_bytes q <> idle_line /\ q_bytes q <> noidle_line.

Definition wf_label (l : label) : Prop := match l with LIssue q => wf_req q | _ => True end.

(* ---------- the invariant: the shapes of DESIGN.md ---------- *)

Definition held (p : point) : list request := match p with PCancel q => [q] | _ => [] end.

Definition shape (s : asys) : Prop :=
  match a_pt s with
  | PIdle =>
    (a_c2s s = [idle_line] /\ a_idle s = false /\ a_s2c s = []) \/                               (* I1 *)
    (a_c2s s = [] /\ a_idle s = true /\ a_pending s = [] /\ a_s2c s = []) \/                      (* I2 *)
    (exists ns, a_c2s s = [] /\ a_idle s = false /\ a_s2c s = [SIdle ns])                         (* I3 *)
  | PCancel q =>
    wf_req q /\ In q (a_issued s) /\
    ((a_c2s s = [idle_line; noidle_line] /\ a_idle s = false /\ a_s2c s = []) \/                  (* N1 *)
     (a_c2s s = [noidle_line] /\ a_idle s = true /\ a_pending s = [] /\ a_s2c s = []) \/          (* N2 *)
     (exists ns, a_c2s s = [noidle_line] /\ a_idle s = false /\ a_s2c s = [SIdle ns]) \/          (* N3: the race *)
     (exists ns, a_c2s s = [] /\ a_idle s = false /\ a_s2c s = [SIdle ns]))                       (* N4 *)
  | PWait id =>
    exists q, id = q_id q /\ wf_req q /\ In q (a_issued s) /\ a_idle s = false /\
    ((a_c2s s = [noidle_line; q_bytes q] /\ a_s2c s = []) \/                                      (* W1' *)
     (a_c2s s = [q_bytes q] /\ a_s2c s = []) \/                                                   (* W1 *)
     (a_c2s s = [] /\ a_s2c s = [SReply (q_bytes q)]))                                            (* W2 *)
  | PWindow => a_c2s s = [] /\ a_idle s = false /\ a_s2c s = []                                   (* T *)
  | PExited => False
  end.

Definition Inv (s : asys) : Prop :=
  shape s /\
  a_violated s = false /\
  Forall wf_req (a_queue s) /\
  (forall q, In q (a_queue s) -> In q (a_issued s)) /\
  a_delivered s ++ flat_map names_of (a_s2c s) = a_reported s /\
  a_sent s ++ held (a_pt s) ++ a_queue s = a_issued s /\
  (forall id x, In (id, x) (a_replies s) ->
     exists q, In q (a_issued s) /\ q_id q = id /\ x = reply_fn (q_bytes q)).

End Abstract.
