(* C06 — command arguments reach the server byte for byte.  Statements only. *)
From MPD Require Import Bytes Tables CommandModel MpdTokenizer CommandProofs EscapeProofs.
Open Scope N_scope.

(* Full statement: for every accepted command name and every sequence of accepted string
   arguments, MPD's tokenizer splits the written line into exactly that name and those arguments.
   [K] is the explicit, witnessed failing class (known finding K-C06): arguments sent without
   quotes although the unquoted form cannot carry them. *)
Theorem c06_tokenize_roundtrip : forall name args c0 c,
  wf_bytes name -> Forall wf_bytes args ->
  build name = inr c0 ->
  add_all_str c0 args = Some c ->
  Forall (fun a => K a = false) args ->
  mpd_tokenize (send_bytes c) = Some (name :: args).
Proof. exact tokenize_roundtrip. Qed.

(* the excluded class, in plain terms: non-empty, no byte <= 0x20, and a backslash or quote *)
Theorem c06_K_characterisation : forall a, wf_bytes a ->
  K a = true <-> (a <> [] /\ Forall (fun c => is_ws c = false) a /\
                  Exists (fun c => c = BS \/ c = DQ \/ c = SQ) a).
Proof. exact K_characterisation. Qed.

(* one quoted argument, for arbitrary bytes (no NUL needed at this level): escaping followed by
   MPD's NextString is the identity *)
Theorem c06_quoted_identity : forall a tail,
  wf_bytes a -> sep_tail tail ->
  string_body (escape_body a ++ DQ :: tail) = Some (a, strip_left tail).
Proof. exact string_body_escape. Qed.

(* members of the failing class on which the unrestricted statement is false *)
Theorem c06_refuted_K :
  K (b "Joe's") = true /\ mpd_tokenize (send_bytes (b "find" ++ wire [b "Joe's"])) = None /\
  K [97; 92; 98] = true /\
  mpd_tokenize (send_bytes (b "find" ++ wire [[97; 92; 98]])) = Some [b "find"; [97; 92; 92; 98]].
Proof. repeat split; vm_compute; reflexivity. Qed.

(* non-vacuity: blanks, quotes, backslash and non-ASCII in one accepted command *)
Example c06_ex :
  let args := [b "a b"; [34; 32; 39; 92]; [195; 164]; b "x"; []; [97; 13; 98]] in
  Forall (fun a => K a = false) args /\
  exists c, add_all_str (b "find") args = Some c /\ mpd_tokenize (send_bytes c) = Some (b "find" :: args).
Proof. split; [repeat constructor | eexists; split; vm_compute; reflexivity]. Qed.

Print Assumptions c06_tokenize_roundtrip.
Print Assumptions c06_K_characterisation.
Print Assumptions c06_quoted_identity.
Print Assumptions c06_refuted_K.
