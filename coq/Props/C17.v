(* C17 — album art is reassembled byte-exactly for any size and chunk limit.  Statements only.
   Model: CallerModel.art_step (Client::album_art as a state machine over the results of its
   requests; each request gets its own reply whatever else the connection is doing - C01).  The
   server side is a picture [pic] whose size field parses to its length, and an ARBITRARY sequence
   of positive chunk limits, one per request (a concurrent binarylimit does not matter). *)
From Coq Require Import Arith Sorted.
From MPD Require Import Bytes Tables BuilderModel CommandModel LoopModel CallerModel CallerProofs.
Open Scope N_scope.

(* from any proper prefix of the picture, the offset loop returns exactly the picture (and the MIME
   type of the embedded source), issuing at most (bytes left) requests at strictly increasing
   offsets inside the picture *)
Theorem c17_exact : forall uri pic mime szb,
  parse_uint 64 szb = Some (N.of_nat (length pic)) -> forall limit, (forall k, (1 <= limit k)%nat) ->
  forall d n k emb fuel,
  (n < length pic)%nat -> d = (length pic - n)%nat -> (d <= fuel)%nat ->
  exists offs,
    art_loop uri pic mime szb limit fuel k emb (firstn n pic) = (ArtSome pic (if emb then mime else None), offs) /\
    (length offs <= d)%nat /\ (forall o, In o offs -> (n <= o < length pic)%nat) /\ StronglySorted lt offs.
Proof. exact art_loop_exact. Qed.

(* the whole call against one source (embedded picture, or the cover file after the fallback): the
   first request is at offset 0, the following ones at strictly increasing offsets, at most |pic|
   of them, and the result is exactly the picture - for EVERY picture (the empty one included) and
   EVERY sequence of positive chunk limits *)
Theorem c17_whole_call : forall uri pic mime szb,
  parse_uint 64 szb = Some (N.of_nat (length pic)) -> forall limit, (forall k, (1 <= limit k)%nat) -> forall emb,
  exists offs, art_whole uri pic mime szb limit emb = (ArtSome pic (if emb then mime else None), 0%nat :: offs) /\
               (length offs <= length pic)%nat /\ StronglySorted lt (0%nat :: offs).
Proof. exact art_whole_exact. Qed.

(* the first request is at offset 0 and its chunk starts the loop (or completes a small picture) *)
Theorem c17_first_request : forall uri pic mime szb limit,
  parse_uint 64 szb = Some (N.of_nat (length pic)) ->
  first_step pic mime szb limit (art_start uri) 0 =
  art_continue (mkArt uri (ALoop true) (firstn (limit 0%nat) pic) (N.of_nat (length pic)) mime).
Proof. intros. apply embedded_first. assumption. Qed.

(* fallback exactly when the embedded-picture command yields nothing or is unknown (code 5, read from the source) *)
Theorem c17_fallback_empty : forall uri f,
  f_binary f = None -> art_step (art_start uri) (CROk [f]) = inl (mkArt uri ATryFile [] 0 None).
Proof. exact art_fallback_on_empty. Qed.

Theorem c17_fallback_unknown : forall uri e fs,
  e_code e = album_art_fallback_code -> art_step (art_start uri) (CRAck e fs) = inl (mkArt uri ATryFile [] 0 None).
Proof. exact art_fallback_on_unknown. Qed.

Theorem c17_other_errors_propagate : forall uri e fs,
  e_code e <> album_art_fallback_code -> art_step (art_start uri) (CRAck e fs) = inr (ArtErr (CRAck e fs)).
Proof. exact art_propagates_other_errors. Qed.

Theorem c17_absent : forall uri f,
  f_binary f = None -> art_step (mkArt uri ATryFile [] 0 None) (CROk [f]) = inr ArtNone.
Proof. exact art_absent. Qed.

Theorem c17_file_errors_propagate : forall uri e fs,
  art_step (mkArt uri ATryFile [] 0 None) (CRAck e fs) = inr (ArtErr (CRAck e fs)).
Proof. exact art_file_errors_propagate. Qed.

Example c17_ex :
  let pic := b "OK" ++ [LF] ++ b "binary: 3" ++ [LF; 0; 255] in
  snd (art_loop (b "u") pic (Some (b "image/png")) (b "15") (fun k => S (k mod 2)) 20 0 true []) = [0; 1; 3; 4; 6; 7; 9; 10; 12; 13]%nat /\
  fst (art_loop (b "u") pic (Some (b "image/png")) (b "15") (fun k => S (k mod 2)) 20 0 true []) = ArtSome pic (Some (b "image/png")).
Proof. split; vm_compute; reflexivity. Qed.

Print Assumptions c17_exact.
Print Assumptions c17_whole_call.
Print Assumptions c17_first_request.
Print Assumptions c17_fallback_empty.
Print Assumptions c17_fallback_unknown.
Print Assumptions c17_other_errors_propagate.
Print Assumptions c17_absent.
