(* C17 — every request is answered with its own reply, in issue order.  Statements only. *)
From MPD Require Import Bytes Tables LoopModel LoopProofs.
Open Scope N_scope.

Theorem c17_placeholder : forall wf p i p' outs bs,
  cstep wf p i = (p', outs) -> In (OWrite bs) outs ->
  bs = idle_line \/ bs = noidle_line \/
  (exists q, (p = PCancel q \/ i = InCmd (Some q)) /\ bs = q_bytes q).
Proof. exact cstep_writes. Qed.
Print Assumptions c17_placeholder.
