(* C19 — frames and responses behave as ordered collections of what the server sent.  Statements only. *)
From MPD Require Import Bytes FrameModel FrameProofs.
Open Scope N_scope.

(* Refinement: for EVERY frame (any holes) and EVERY sequence of find / get / len / is_empty /
   has_binary / binary / take_binary / borrowed iteration (any mix of next and next_back) / owned
   iteration (with its take_binary), the slot vector gives the outputs of the ordered multimap. *)
Theorem c19_frame_refines_multimap : forall ops f, m_run f ops = s_run (abs (slots f)) (mbin f) ops.
Proof. exact frame_refines. Qed.

(* the multimap spec is the one the property describes *)
Theorem c19_find_is_first_match : forall l k v, s_find l k = Some v <->
  exists l1 l2 k', l = l1 ++ (k', v) :: l2 /\ beq k' k = true /\ Forall (fun p => beq (fst p) k = false) l1.
Proof. exact s_find_first. Qed.

Theorem c19_get_removes_exactly_first_match : forall l k,
  match s_get l k with
  | (Some v, l') => exists l1 l2 k', l = l1 ++ (k', v) :: l2 /\ l' = l1 ++ l2 /\ beq k' k = true /\
                                     Forall (fun p => beq (fst p) k = false) l1
  | (None, l') => l' = l /\ Forall (fun p => beq (fst p) k = false) l
  end.
Proof. exact s_get_removes_first. Qed.

Theorem c19_case_sensitive : forall k k', beq k' k = true <-> k' = k.
Proof. intros. apply beq_eq. Qed.

Theorem c19_forward_is_wire_order : forall l, s_iter l (repeat Front (length l)) = map Some l.
Proof. exact s_iter_front_all. Qed.
Theorem c19_backward_is_reverse_order : forall l, s_iter l (repeat Back (length l)) = map Some (rev l).
Proof. exact s_iter_back_all. Qed.
Theorem c19_fused : forall ds, s_iter [] ds = map (fun _ => None) (filter (fun d => match d with TakeBin => false | _ => true end) ds).
Proof. exact s_iter_exhausted. Qed.
Theorem c19_len_agrees_with_iteration : forall s, m_len s = length (abs s).
Proof. exact len_abs. Qed.

(* responses: frames in order then the error, from either end, with exact size hints *)
Theorem c19_response_refines_sequence : forall (F E : Type) ds (it : @riter F E),
  r_drive it ds = q_drive (r_abs it) ds.
Proof. intros F E. exact response_refines. Qed.

Example c19_ex :
  let f := mkM [Some (b "a", b "1"); None; Some (b "A", b "2"); Some (b "a", b "3")] (Some (b "x")) in
  m_run f [OFind (b "a"); OGet (b "a"); OFind (b "a"); OLen; OIter [Back; Front; Front; Front]; OInto [Front; TakeBin; TakeBin; Back; Back]] =
  [RVal (Some (b "1")); RVal (Some (b "1")); RVal (Some (b "3")); RNat 2;
   RPairs [Some (b "a", b "3"); Some (b "A", b "2"); None; None];
   RMixed [inl (Some (b "A", b "2")); inr (Some (b "x")); inr None; inl (Some (b "a", b "3")); inl None]].
Proof. vm_compute. reflexivity. Qed.

Print Assumptions c19_frame_refines_multimap.
Print Assumptions c19_find_is_first_match.
Print Assumptions c19_get_removes_exactly_first_match.
Print Assumptions c19_forward_is_wire_order.
Print Assumptions c19_backward_is_reverse_order.
Print Assumptions c19_fused.
Print Assumptions c19_len_agrees_with_iteration.
Print Assumptions c19_response_refines_sequence.
