(* C09 — arbitrary peer bytes never panic or hang the protocol layer.  Statements only.
   In the model every place where the Rust code can panic (slice indexing / split_off past the
   valid length) is an explicit Panic outcome and every loop runs on explicit fuel; "no panic, no
   hang" is the theorem that neither Panic nor OutOfFuel is ever produced. *)
From MPD Require Import Bytes Tables ParserModel BuilderModel ConnModel ParserProofs ConnProofs.
Open Scope N_scope.

(* every outcome of every receive call — including [extra] calls made after an error — for
   arbitrary chunks, both policies, any capacity >= 1 *)
Theorem c09_no_panic_no_hang : forall fuel extra c r o,
  wf_reader r -> pol_ok (c_policy c) (length (c_buf c)) -> In o (run fuel extra c r) -> o <> Panic /\ o <> OutOfFuel.
Proof. exact run_extra_good. Qed.

(* a single receive performs at most (bytes left in the reader + 1) reads: that fuel is never exhausted *)
Theorem c09_receive_terminates : forall c r,
  wf_reader r -> pol_ok (c_policy c) (length (c_buf c)) ->
  match receive c r with (o, _, _) => o <> Panic /\ o <> OutOfFuel end.
Proof. exact receive_outcome_good. Qed.

(* connect: its outcome is one of connected / invalid / eof / io (never Panic, never out of fuel) *)
Theorem c09_connect_total : forall p r,
  wf_reader r -> pol_ok p 0 ->
  let '(o, r') := connect p r in
  conn_matches o r' (ref_connect (concat (chunks r)) (rtail r)) (rtail r).
Proof. exact connect_ref. Qed.

(* every component consumes between 1 and all of the buffered bytes, so the builder loop cannot spin
   and `msg.len() - (data_length + 1)` cannot underflow *)
Theorem c09_component_consumes : forall a n c,
  parse_component a = ROk n c -> (1 <= n <= length a)%nat /\ forall x, parse_component (a ++ x) = ROk n c.
Proof. exact parse_ok_stable. Qed.

(* an invalid verdict is final: more bytes never turn it into data *)
Theorem c09_invalid_is_final : forall a,
  parse_component a = RError \/ parse_component a = RFailure ->
  forall x, parse_component (a ++ x) = RError \/ parse_component (a ++ x) = RFailure.
Proof. exact parse_invalid_stable. Qed.

(* the named edge cases, by computation on the model *)
Example c09_edge_cases :
  parse_component (b "ACK [18446744073709551616@0] {} x" ++ [LF]) = RError /\
  parse_component (b "a: " ++ [255; LF]) = RError /\
  parse_component (b "a: x" ++ [0] ++ b "y" ++ [LF]) = ROk 7 (CField (b "a") (b "x" ++ [0] ++ b "y")) /\
  parse_component (b "binary: 18446744073709551615" ++ [LF] ++ b "abc") = RIncomplete /\
  parse_component (b "binary: 18446744073709551616" ++ [LF]) =
    ROk 29 (CField (b "binary") (b "18446744073709551616")) /\
  parse_component (b "binary: 2" ++ [LF] ++ b "abX") = RFailure /\
  parse_component (b "f o") = RError /\
  parse_component (b "fo") = RIncomplete.
Proof. repeat split; vm_compute; reflexivity. Qed.

Print Assumptions c09_no_panic_no_hang.
Print Assumptions c09_receive_terminates.
Print Assumptions c09_connect_total.
Print Assumptions c09_component_consumes.
Print Assumptions c09_invalid_is_final.
