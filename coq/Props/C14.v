(* C14 — placeholder while the model is being tied; statements follow. *)
From MPD Require Import Bytes SongStd SongModel.
Example c14_placeholder : qsongs_model true [] = Ok [].
Proof. reflexivity. Qed.
Print Assumptions c14_placeholder.
