(* C14 — Song listings decode to the songs the server listed.  Statements only.
   [ch] is the cfg: true = feature chrono on (timestamps checked by chrono), false = off.
   Model: SongModel.v (SongBuilder of responses/song.rs as it is now; key sets regenerated from the
   source into Tables.v).  Spec: SongSpec.v (abstract listings, encoder, the reference [expected_q]).
   std's float / integer parsing and chrono are modelled in SongStd.v / Bytes.v (trusted): the
   theorems say every decoded value is std's reading of exactly the text of that song's own line. *)
From MPD Require Import Bytes Tables TagModel SongStd SongModel SongSpec SongProofs.
Open Scope N_scope.

(* Queue / QueueRange (SongInQueue::from_frame_multi): for EVERY well-formed listing — any number of
   entries, songs with any subset, order and repetition of attribute and tag lines, directory and
   playlist entries with or without their own Last-Modified anywhere in between — the decoded
   result is one song per file entry, in server order, each the reference's song of that entry.
   ([listed_songs] is [flat_map]: [expected_q] of every SongE, nothing for DirE / PlaylistE.) *)
Theorem c14_multi : forall ch l, wf_listing ch l ->
  qsongs_model ch (enc_listing l) = Ok (listed_songs ch l).
Proof. exact multi_q_correct. Qed.

(* Find / GetPlaylist / ListAllIn (Song::from_frame_multi): the same songs without the queue part *)
Theorem c14_multi_song : forall ch l, wf_listing ch l ->
  songs_model ch (enc_listing l) = Ok (map q_song (listed_songs ch l)).
Proof. exact multi_correct. Qed.

Theorem c14_song_view : forall ch l,
  map q_song (listed_songs ch l) =
  flat_map (fun e => match e with SongE u a => [expected_song ch u a] | _ => [] end) l.
Proof. exact listed_songs_plain. Qed.

Theorem c14_one_song_per_file_entry : forall ch l,
  length (listed_songs ch l) = length (filter (fun e => match e with SongE _ _ => true | _ => false end) l).
Proof. exact listed_songs_count. Qed.

Theorem c14_server_order : forall ch l,
  map (fun q => s_url (q_song q)) (listed_songs ch l) =
  flat_map (fun e => match e with SongE u _ => [u] | _ => [] end) l.
Proof. exact listed_songs_urls. Qed.

(* CurrentSong (SongInQueue::from_frame_single): the song of the last entry if that entry is a song;
   for the replies currentsong really has (no entry / one song) that is: None / that song *)
Theorem c14_single : forall ch l, wf_listing ch l ->
  single_model ch (enc_listing l) = Ok (last_song ch l).
Proof. exact single_correct. Qed.
Theorem c14_single_one : forall ch u a, wf_entry ch (SongE u a) ->
  single_model ch (enc_listing [SongE u a]) = Ok (Some (expected_q ch u a)).
Proof. exact single_one. Qed.
Theorem c14_single_none : forall ch, single_model ch (enc_listing []) = Ok None.
Proof. exact single_none. Qed.

(* the reference's tag map read by key: the values of a tag are the values of exactly the lines
   carrying that tag (in any letter case), in line order *)
Theorem c14_tag_values_in_order : forall attrs t,
  tm_get (exp_tags attrs) t = values_of t (tag_lines attrs).
Proof. intros. apply tm_get_group. Qed.

(* entry boundaries, for ALL inputs (any builder state with a song in progress, any following
   fields, any timestamp text): the song completed by a directory / playlist line is the builder's
   state BEFORE that line — the entry's Last-Modified is attributed to no song ... *)
Theorem c14_dir_lm_not_attributed : forall ch x k n t r, b_url x <> [] -> is_dir_or_playlist k ->
  run ch x ((k, n) :: (b "Last-Modified", t) :: r) =
  (s <- into_song x ;; l <- run ch b_default r ;; Ok (s :: l)).
Proof. exact dir_lm_not_attributed. Qed.
(* ... and with no song in progress both lines leave no trace *)
Theorem c14_idle_dir_lm_skipped : forall ch k n t r, is_dir_or_playlist k ->
  run ch b_default ((k, n) :: (b "Last-Modified", t) :: r) = run ch b_default r.
Proof. exact idle_dir_lm_skipped. Qed.
(* hence the decoded songs of a listing do not depend on directory / playlist modification dates,
   nor on the presence of such entries *)
Theorem c14_dir_lm_irrelevant : forall ch l1 l2 n lm lm', wf_listing ch (l1 ++ l2) ->
  qsongs_model ch (enc_listing (l1 ++ DirE n lm :: l2)) = qsongs_model ch (enc_listing (l1 ++ DirE n lm' :: l2))
  /\ qsongs_model ch (enc_listing (l1 ++ PlaylistE n lm :: l2)) = qsongs_model ch (enc_listing (l1 ++ PlaylistE n lm' :: l2))
  /\ qsongs_model ch (enc_listing (l1 ++ DirE n lm :: l2)) = qsongs_model ch (enc_listing (l1 ++ l2)).
Proof. exact dir_lm_irrelevant. Qed.
(* any key in is_start_field completes the song in progress and is then handled afresh *)
Theorem c14_entry_boundary : forall ch x k v r, b_url x <> [] -> is_start_field k = true ->
  run ch x ((k, v) :: r) = (s <- into_song x ;; l <- run ch b_default ((k, v) :: r) ;; Ok (s :: l)).
Proof. exact run_boundary. Qed.

(* C12's song part: for EVERY field list whose keys the parser can produce, none of the three
   decoders panics (Tag::try_from(..).unwrap(): the parser's key alphabet is try_from's, C20;
   assert!(!url.is_empty()): into_song is only reached with a song in progress) *)
Theorem c14_no_panic : forall ch fields, Forall parser_key (map fst fields) ->
  qsongs_model ch fields <> Panic /\ songs_model ch fields <> Panic /\ single_model ch fields <> Panic.
Proof. exact no_panic. Qed.

(* the builder invariant by itself, for arbitrary keys: a completed song always has the non-empty
   url of the builder that was in progress *)
Theorem c14_builder_invariant : forall ch x k v p, field ch x k v = Ok p ->
  match fst p with Some s => s_url (q_song s) <> [] /\ s_url (q_song s) = b_url x | None => True end.
Proof. exact builder_invariant. Qed.

(* the key sets regenerated from song.rs are the ones the protocol uses *)
Theorem c14_key_tables :
  (is_start_field (b "file") = true /\ is_start_field (b "directory") = true /\ is_start_field (b "playlist") = true)
  /\ song_url_key = b "file"
  /\ (existsb (beq (b "directory")) start_skip_fields = true /\ existsb (beq (b "playlist")) start_skip_fields = true
      /\ existsb (beq (b "Last-Modified")) start_skip_fields = true)
  /\ forallb (fun k => existsb (beq k) reserved_keys) start_fields = true.
Proof.
  exact (conj start_fields_are_the_entry_keys (conj url_key_is_file (conj idle_skips start_fields_reserved_b))).
Qed.

(* integers on the wire: rendering then Rust's str::parse is the identity below the width *)
Theorem c14_uint_roundtrip : forall bits n, n < 2 ^ bits -> parse_uint bits (render_dec n) = Some n.
Proof. exact parse_uint_render. Qed.

(* non-vacuity: two songs, an interleaved directory with its own Last-Modified and a playlist,
   Artist in three letter cases, duration after Time, a Range, an unknown tag *)
Example c14_ex :
  wf_listing true ex_listing /\
  qsongs_model true (enc_listing ex_listing) = Ok (listed_songs true ex_listing) /\
  listed_songs true ex_listing =
  [ mkQ 3 12 None 0
        (mkSong (b "a/one.flac") (Some (DNanos 215336000000))
                [(Named T_Artist, [b "X"; b "Y"; b "Z: z"])] None
                (Some (mkTs (b "2020-06-12T17:53:00Z") true)));
    mkQ 0 0 (Some (DNanos 1500000000, Some (DNanos 3250000000))) 7
        (mkSong (b "b.mp3") None [(Other (b "Foo"), [b "v"])] (Some (b "44100:16:2")) None) ].
Proof.
  exact (conj ex_listing_wf (conj (multi_q_correct true ex_listing ex_listing_wf) ex_listing_songs)).
Qed.
(* a malformed reply is an error, not a song: attribute before any file; empty url then attribute *)
Example c14_ex_malformed :
  qsongs_model true [(b "Title", b "x"); (b "file", b "a")] = Err (EUnexpected (b "file") (b "Title")) /\
  qsongs_model true [(b "file", []); (b "Title", b "x")] = Err (EUnexpected (b "file") (b "Title")) /\
  qsongs_model true [(b "file", b "a"); (b "Pos", b "-1")] = Err (EInvalid (b "Pos") (b "-1")).
Proof. vm_compute. auto. Qed.

Print Assumptions c14_multi.
Print Assumptions c14_multi_song.
Print Assumptions c14_song_view.
Print Assumptions c14_one_song_per_file_entry.
Print Assumptions c14_server_order.
Print Assumptions c14_single.
Print Assumptions c14_single_one.
Print Assumptions c14_tag_values_in_order.
Print Assumptions c14_dir_lm_not_attributed.
Print Assumptions c14_idle_dir_lm_skipped.
Print Assumptions c14_dir_lm_irrelevant.
Print Assumptions c14_entry_boundary.
Print Assumptions c14_no_panic.
Print Assumptions c14_builder_invariant.
Print Assumptions c14_key_tables.
Print Assumptions c14_uint_roundtrip.
Print Assumptions c14_ex.
