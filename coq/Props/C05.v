(* C05 — the client's output is always a legal MPD session.  Statements only. *)
From MPD Require Import Bytes Tables LoopModel LoopProofs.
Open Scope N_scope.

Theorem c05_writes_are_idle_noidle_or_the_request : forall wf p i p' outs bs,
  cstep wf p i = (p', outs) -> In (OWrite bs) outs ->
  bs = idle_line \/ bs = noidle_line \/
  (exists q, (p = PCancel q \/ i = InCmd (Some q)) /\ bs = q_bytes q).
Proof. exact cstep_writes. Qed.

Print Assumptions c05_writes_are_idle_noidle_or_the_request.
