(* C05 — the client's output is always a legal MPD session (idle/noidle discipline).
   Statements only; proofs in LoopProofs.v / LoopSpecProofs.v.  The system is LoopSpec.v: the client
   logic is LoopModel.cstep (the model compared with the real run loop by the replayer), the
   environment a rule-abiding server and an adversarial scheduler (callers, server timing,
   notifications, select! choice, timer expiry).  [reply_fn] is the server's reply to a request:
   universally quantified. *)
From MPD Require Import Bytes Tables BuilderModel LoopModel LoopProofs LoopSpec LoopSpecProofs ServerModel DriverLoop LoopRefine LoopRefineProofs LoopCancel LoopCancelProofs LoopMute LoopMuteProofs.
Open Scope N_scope.

(* for EVERY schedule the server never receives anything but noidle while it waits in idle *)
Theorem c05_legal_session : forall reply_fn sch,
  Forall wf_label sch -> a_violated (arun reply_fn sch) = false.
Proof. exact never_violated. Qed.

Theorem c05_idle_only_noidle : forall reply_fn sch,
  Forall wf_label sch -> a_idle (arun reply_fn sch) = true ->
  a_c2s (arun reply_fn sch) = [] \/ a_c2s (arun reply_fn sch) = [noidle_line].
Proof. exact idle_only_noidle. Qed.

(* at most one request is outstanding (its bytes on the way to the server or its reply on the way back) *)
Theorem c05_one_outstanding : forall reply_fn sch,
  Forall wf_label sch ->
  (length (filter is_req (a_c2s (arun reply_fn sch))) + length (filter is_reply (a_s2c (arun reply_fn sch))) <= 1)%nat.
Proof. exact one_outstanding. Qed.

(* the whole invariant (the ten shapes of DESIGN.md): a request is written only after the idle
   reply was consumed (from PCancel) or from the window where no idle is pending *)
Theorem c05_invariant : forall reply_fn sch, Forall wf_label sch -> Inv reply_fn (arun reply_fn sch).
Proof. exact inv_run. Qed.

(* everything the loop writes is idle, noidle, or the request it was handed *)
Theorem c05_writes : forall wf p i p' outs bs,
  cstep wf p i = (p', outs) -> In (OWrite bs) outs ->
  bs = idle_line \/ bs = noidle_line \/ (exists q, (p = PCancel q \/ i = InCmd (Some q)) /\ bs = q_bytes q).
Proof. exact cstep_writes. Qed.

(* idle on entry; idle again after every idle reply and when the window expires *)
Theorem c05_idle_on_entry : loop_entry false = (PIdle, [OWrite idle_line]).
Proof. reflexivity. Qed.

Theorem c05_reidle_after_timeout : cstep false PWindow InTimeout = (PIdle, [OWrite idle_line]).
Proof. reflexivity. Qed.

Theorem c05_reidle_after_event : forall reply_fn ns,
  cstep false PIdle (InRecv (RResp (resp_of reply_fn (SIdle ns)))) = (PIdle, map OEvent ns ++ [OWrite idle_line]).
Proof.
  intros. change (cstep false PIdle (InRecv (RResp (resp_of reply_fn (SIdle ns)))))
    with (PIdle, events_of (idle_frame ns) ++ [OWrite idle_line]).
  unfold events_of. rewrite changed_idle_frame. reflexivity.
Qed.

(* every step the scheduler can still take (client resumptions, server reads - no new requests or
   changes) strictly decreases a measure or changes nothing; at measure 0 the client idles, the
   server waits in idle and nothing is in flight: the session always returns to idle, so
   notifications keep flowing *)
Theorem c05_returns_to_idle : forall reply_fn n s s',
  Inv reply_fn s -> iruns reply_fn n s s' ->
  (forall l, internal l = true -> astep reply_fn s' l = s') ->
  a_pt s' = PIdle /\ a_queue s' = [] /\ a_c2s s' = [] /\ a_s2c s' = [] /\ a_idle s' = true /\ a_pending s' = [].
Proof. exact maximal_run_is_quiescent. Qed.

Theorem c05_runs_are_bounded : forall reply_fn n s s',
  Inv reply_fn s -> iruns reply_fn n s s' -> (n + mu_sys s' <= mu_sys s)%nat /\ Inv reply_fn s'.
Proof. exact internal_runs_bounded. Qed.

(* non-vacuity: the noidle race (the server answers idle while the client cancels it) is a
   reachable schedule; the request still gets the reply to its own bytes *)
Example c05_race :
  let q := mkReq 7 (b "status" ++ [LF]) in
  let rf := fun bs => mkResp [mkFrame [(b "echo", bs)] None] None in
  let s := arun rf [LServe; LNotify (b "player"); LIssue q; LTake; LRecv; LServe; LServe; LRecv] in
  wf_label (LIssue q) /\ a_violated s = false /\ a_delivered s = [b "player"] /\
  a_replies s = [(7, rf (q_bytes q))] /\ a_pt s = PWindow.
Proof. cbn zeta. split; [split; discriminate|]. vm_compute. auto. Qed.

(* ---- the EXECUTABLE system ----
   DriverLoop.v is the byte-level system whose printed trace the replayer compares with the real
   client's, label by label (kind [loopm]).  For every label sequence of the fault-free fragment
   (LoopRefine.v: single echo requests, changes, server reads, deliveries of any size, clock
   advances, in ANY order and number) its run IS a run of the abstract system above: there is a
   schedule of the abstract system that the relation [Rel] ties to the executable state (control
   point, queue, the bytes on both wires as the concatenation of the abstract messages with the
   builder parked anywhere inside the first one, the server's state), the abstract invariant holds
   there, and the results / events in the segments are the abstract replies / deliveries. *)
Theorem c05_exec_refines : forall cf labs gls, in_fragment cf labs gls ->
  run_rel cf a0 gls (fst (xrun (xinit cf) labs)) (snd (xrun (xinit cf) labs)).
Proof. exact exec_refines_abstract. Qed.

(* hence the simulated server of the executable system never sees anything but noidle while idling *)
Theorem c05_exec_legal_session : forall cf labs gls, in_fragment cf labs gls ->
  s_violated (x_srv (fst (xrun (xinit cf) labs))) = false.
Proof. exact exec_never_violated. Qed.

(* ... on the wire: what the client has written and the server has not read yet is the rest of a sequence of whole requests (the
   server may be half-way through a command list: then [pre] is what it has read of it), at most one of them a request, and
   while the simulated server waits in idle only (at most one) noidle is on its way to it *)
Theorem c05_exec_wire : forall cf labs gls, in_fragment cf labs gls ->
  let xf := fst (xrun (xinit cf) labs) in
  exists ws pre, concat ws = pre ++ x_c2s xf /\ Forall (write_ok cf) ws /\
    (s_list (x_srv xf) = None -> pre = []) /\
    (length (filter is_req ws) <= 1)%nat /\
    (s_idle (x_srv xf) = true -> ws = [] \/ ws = [noidle_line]).
Proof. exact exec_wire. Qed.

(* the segments [run_loopm] prints — what the real client's trace is compared with — are the
   renderings of the structured segments of [xrun] *)
Theorem c05_exec_trace_text : forall cf labs gls t0, in_fragment cf labs gls ->
  snd (run_labels (xstart cf) (b "D0" :: labs) [] [t0]) =
  [t0; greet_text] ++ map seg_text (snd (xrun (xinit cf) labs)).
Proof. exact exec_trace_text. Qed.

(* no step of the executable system panics, and settle's fuel is never exhausted *)
Theorem c05_exec_no_panic : forall cf labs gls, in_fragment cf labs gls ->
  Forall (fun g => g_panic g = false) (snd (xrun (xinit cf) labs)).
Proof. exact exec_no_panic. Qed.

(* non-vacuity: a session of 19 labels (a change before the first request, a reply delivered in two
   pieces, a request taken inside the re-idle window, a change reported after the window expired) *)
Example c05_exec_fragment_inhabited : in_fragment ex_cf ex_labs ex_gls.
Proof. exact ex_fragment. Qed.

(* callers giving up (x<id>) do not change the session: label by label the client writes the same bytes as in the run in which every
   x<id> is replaced by a no-op, and what the server has not yet read and the server's state (including its violation flag) end up the
   same — for every label list without h / a and with distinct request ids, faults included (Props/C01.v c01_cancel_erasure).  In
   particular a request whose caller has gone is still written and answered: the session stays in step with the server. *)
Theorem c05_exec_cancel_wire : forall cf ls, cancel_ok [] ls = true ->
  map g_w (snd (xrun (xinit cf) ls)) = map g_w (snd (xrun (xinit cf) (map erase_label ls))) /\
  x_c2s (fst (xrun (xinit cf) ls)) = x_c2s (fst (xrun (xinit cf) (map erase_label ls))) /\
  x_srv (fst (xrun (xinit cf) ls)) = x_srv (fst (xrun (xinit cf) (map erase_label ls))).
Proof. exact exec_cancel_w. Qed.

(* ---- the application drops its ConnectionEvents (label Z) — LoopMute.v ----
   THE theorem: from any connected state, for every label list without q / Q (faults, cancellations, handle drop, typed lists and
   album art included), the run in which the listener is dropped is the run in which it is kept ([mute_run]: Z replaced by a no-op),
   with the events after the drop not shown — same writes, same caller results, same connection, queue, callers and server. *)
Theorem c05_listener_erasure : forall ls (m : bool) h x, MInv x -> mute_ok ls = true ->
  exists h', xrun (if m then mute h x else x) ls =
             ((if m || existsb is_drop ls then mute h' (fst (mute_run m x ls)) else fst (mute_run m x ls)), snd (mute_run m x ls)).
Proof. exact mute_erasure. Qed.

(* inside the fault-free fragment: the session goes on unchanged after the listener has gone — the requests are written and answered
   (results = replies to a prefix of the issued requests in issue order), the bytes on the wire are those of the run with the listener
   kept (so idle is still re-issued after every reply and every notification), the server is never violated, nothing panics *)
Theorem c05_exec_listener_dropped : forall cf ls gls, mute_ok ls = true -> in_fragment cf (map mute_label ls) gls ->
  let segs := snd (xrun (xinit cf) ls) in
  (exists k, flat_map g_res segs = map (echo_result cf) (firstn k (flat_map issued_of gls))) /\
  map g_w segs = map g_w (snd (xrun (xinit cf) (map mute_label ls))) /\
  Forall (fun g => g_panic g = false) segs /\
  s_violated (x_srv (fst (xrun (xinit cf) ls))) = false.
Proof. exact exec_mute_session. Qed.

Example c05_listener_example :
  mute_ok ex_mute_labs = true /\
  flat_map g_res (snd (xrun (xinit ex_cf) ex_mute_labs)) =
    map (echo_result ex_cf) [mkReq 1 (b "status" ++ [LF]); mkReq 2 (b "stats" ++ [LF]); mkReq 3 (b "currentsong" ++ [LF])] /\
  flat_map g_ev (snd (xrun (xinit ex_cf) ex_mute_labs)) = map ev_text [b "player"] /\
  flat_map g_ev (snd (xrun (xinit ex_cf) (map mute_label ex_mute_labs))) = map ev_text [b "player"; b "mixer"] /\
  flat_map g_w (snd (xrun (xinit ex_cf) ex_mute_labs)) = flat_map g_w (snd (xrun (xinit ex_cf) (map mute_label ex_mute_labs))).
Proof. exact ex_mute. Qed.

Print Assumptions c05_legal_session.
Print Assumptions c05_idle_only_noidle.
Print Assumptions c05_one_outstanding.
Print Assumptions c05_invariant.
Print Assumptions c05_writes.
Print Assumptions c05_reidle_after_event.
Print Assumptions c05_returns_to_idle.
Print Assumptions c05_runs_are_bounded.
Print Assumptions c05_exec_refines.
Print Assumptions c05_exec_legal_session.
Print Assumptions c05_exec_wire.
Print Assumptions c05_exec_trace_text.
Print Assumptions c05_exec_no_panic.
Print Assumptions c05_exec_cancel_wire.
Print Assumptions c05_listener_erasure.
Print Assumptions c05_exec_listener_dropped.
