(* C20 — Tags and subsystems compare, hash and parse by protocol name.
   Only statements; every proof is [exact lemma]. *)
From MPD Require Import Bytes Tables TagModel TagSpec TagProofs.
Open Scope N_scope.

Theorem c20_tag_roundtrip : forall v, tag_try_from (tag_name v) = TagOk (Named v).
Proof. exact tag_roundtrip. Qed.

Theorem c20_parse_table_sound : Forall (fun pv => tag_name (snd pv) = fst pv) tag_parse_table.
Proof. exact parse_table_sound. Qed.

Theorem c20_case_insensitive : forall s v,
  eq_ignore_case s (tag_name v) = true -> tag_try_from s = TagOk (Named v).
Proof. exact case_insensitive. Qed.

Theorem c20_rejects_empty : tag_try_from [] = TagEmpty.
Proof. exact rejects_empty. Qed.

Theorem c20_rejects_bad_char : forall s c,
  In c s -> tag_charset c = false -> exists pos, tag_try_from s = TagInvalidChar pos.
Proof. exact rejects_bad_char. Qed.

Theorem c20_accepts_iff : forall s,
  (exists t, tag_try_from s = TagOk t) <-> (s <> [] /\ Forall (fun c => tag_charset c = true) s).
Proof. exact accepts_iff. Qed.

Theorem c20_charset_is_protocol : forall c, c < 256 -> tag_charset c = parser_key_charset c.
Proof. exact charset_is_protocol. Qed.

Theorem c20_other_verbatim : forall s s', tag_try_from s = TagOk (Other s') -> s' = s.
Proof. exact other_verbatim. Qed.

Theorem c20_eq_is_name_eq : forall t u, tag_eq t u = true <-> tag_as_str t = tag_as_str u.
Proof. exact tag_eq_iff. Qed.

Theorem c20_hash_coherent : forall (H : bytes -> N) t u,
  tag_eq t u = true -> tag_hash H t = tag_hash H u.
Proof. exact tag_hash_coherent. Qed.

Theorem c20_cmp_eq : forall t u, tag_cmp t u = Eq <-> tag_eq t u = true.
Proof. exact tag_cmp_eq_iff. Qed.

Theorem c20_cmp_antisym : forall t u, tag_cmp u t = CompOpp (tag_cmp t u).
Proof. intros t u. exact (bcmp_antisym _ _). Qed.

Theorem c20_cmp_trans : forall t u w, tag_cmp t u = Lt -> tag_cmp u w = Lt -> tag_cmp t w = Lt.
Proof. intros t u w. exact (bcmp_lt_trans _ _ _). Qed.

Theorem c20_subsystem_name : forall s, sub_as_str (sub_from_name s) = s.
Proof. exact subsystem_name_preserved. Qed.

Theorem c20_subsystem_named : forall v, sub_from_name (sub_name v) = SNamed v.
Proof. exact subsystem_named_roundtrip. Qed.

Theorem c20_subsystem_hash_coherent : forall (H : bytes -> N) s u,
  sub_eq s u = true -> sub_hash H s = sub_hash H u.
Proof. exact sub_hash_coherent. Qed.

(* spec side: every name the library attaches to a variant is a tag / subsystem name of MPD,
   and no two variants share a name up to letter case *)
Theorem c20_names_are_mpd_names : forall v, In (tag_name v) mpd_tag_names.
Proof. exact names_are_mpd_names. Qed.
Theorem c20_names_distinct : forall v w, eq_ignore_case (tag_name v) (tag_name w) = true -> v = w.
Proof. exact names_distinct. Qed.
Theorem c20_sub_names_are_mpd_names : forall v, In (sub_name v) mpd_subsystem_names.
Proof. exact sub_names_are_mpd_names. Qed.

(* full round trip, with the known-failing class (finding K-C20) excluded explicitly ... *)
Theorem c20_roundtrip_all : forall t,
  valid_name (tag_as_str t) -> ~ noncanonical_known t ->
  exists u, tag_try_from (tag_as_str t) = TagOk u /\ tag_eq u t = true.
Proof. exact roundtrip_all. Qed.

(* ... and a member of that class on which the unrestricted statement fails *)
Theorem c20_roundtrip_refuted :
  exists t, valid_name (tag_as_str t) /\ noncanonical_known t /\
            forall u, tag_try_from (tag_as_str t) = TagOk u -> tag_eq u t = false.
Proof. exact roundtrip_refuted. Qed.

(* the one-line Eq/Ord/Hash impls still have the shape the model hard-codes *)
Theorem c20_pins : tag_pins_ok = true /\ sub_pins_ok = true.
Proof. split; vm_compute; reflexivity. Qed.

(* non-vacuity: Subsystem playlist <-> Queue; a mixed-case name parses *)
Example c20_ex_queue : sub_from_name (b "playlist") = SNamed S_Queue /\ sub_as_str (SNamed S_Queue) = b "playlist".
Proof. split; vm_compute; reflexivity. Qed.
Example c20_ex_case : tag_try_from (b "aLbUmArTiSt") = TagOk (Named T_AlbumArtist).
Proof. vm_compute. reflexivity. Qed.

Print Assumptions c20_tag_roundtrip.
Print Assumptions c20_parse_table_sound.
Print Assumptions c20_case_insensitive.
Print Assumptions c20_rejects_bad_char.
Print Assumptions c20_accepts_iff.
Print Assumptions c20_charset_is_protocol.
Print Assumptions c20_other_verbatim.
Print Assumptions c20_eq_is_name_eq.
Print Assumptions c20_hash_coherent.
Print Assumptions c20_cmp_eq.
Print Assumptions c20_cmp_antisym.
Print Assumptions c20_cmp_trans.
Print Assumptions c20_subsystem_name.
Print Assumptions c20_subsystem_named.
Print Assumptions c20_roundtrip_all.
Print Assumptions c20_roundtrip_refuted.
Print Assumptions c20_pins.
Print Assumptions c20_names_are_mpd_names.
Print Assumptions c20_names_distinct.
Print Assumptions c20_sub_names_are_mpd_names.
