(* C08 — when the connection ends, every request resolves and the failure is reported.
   Statements only. *)
From MPD Require Import Bytes Tables BuilderModel LoopModel LoopProofs LoopSpec ServerModel DriverLoop LoopRefine LoopRefineProofs LoopDrainProofs LoopCancel LoopCancelProofs LoopCancelDrainProofs LoopMute LoopMuteProofs.
Open Scope N_scope.

(* no responder is ever forgotten: at every resumption each responder the loop holds (or has just
   taken from the queue) is answered, dropped (its caller gets ConnectionClosed) or still held *)
Theorem c08_responders_accounted : forall wf p i p' outs id,
  enabled p i = true -> cstep wf p i = (p', outs) -> In id (holds p ++ taken i) ->
  answered outs id \/ In id (holds p').
Proof. exact responders_accounted. Qed.

(* a loop that has left holds nothing and says nothing more *)
Theorem c08_exited_is_final : forall wf i, cstep wf PExited i = (PExited, []) /\ holds PExited = [].
Proof. intros. split; [apply exited_is_silent | reflexivity]. Qed.

(* at most one closing event, only while leaving, after every other event *)
Theorem c08_one_closing_event : forall wf p i p' outs,
  cstep wf p i = (p', outs) ->
  (existsb is_closed outs = true -> p' = PExited) /\
  (length (filter is_closed outs) <= 1)%nat /\
  no_event_after_closed outs = true.
Proof. exact closing_event_last. Qed.

(* once the transport is dead (every receive ends at once with end-of-stream or an error) the loop
   leaves after at most 3*|queue|+3 resumptions, whatever the queue holds and whichever enabled
   event is chosen - so no request can hang *)
Theorem c08_dead_transport_exits : forall r wf n s s',
  terminal r = true -> druns r wf n s s' -> (forall s'', ~ dstep r wf s' s'') ->
  fst s' = PExited /\ (n <= 3 * length (snd s) + 3)%nat.
Proof. exact dead_exits. Qed.

Theorem c08_always_a_step : forall r wf p qs, p <> PExited -> exists s', dstep r wf (p, qs) s'.
Proof. exact dead_progress. Qed.

(* an unclean end is surfaced: a receive error reaches the responder in flight, or, when the loop
   idles, becomes the closing event *)
Theorem c08_failure_surfaced : forall wf e,
  cstep wf PIdle (InRecv (RErr e)) = (PExited, [OClosed (CKProto e)]) /\
  (forall q, cstep wf (PCancel q) (InRecv (RErr e)) = (PExited, [OReply (q_id q) (RepProto e)])) /\
  (forall id, cstep wf (PWait id) (InRecv (RErr e)) = (PWindow, [OReply id (RepProto e)])).
Proof. intros; repeat split. Qed.

(* a clean close, or the last handle dropped while idle: the loop leaves silently *)
Theorem c08_clean_close_is_silent : forall wf,
  cstep wf PIdle (InRecv RClean) = (PExited, []) /\ cstep wf PIdle (InCmd None) = (PExited, []).
Proof. intros; split; reflexivity. Qed.

(* ... and when it has left, every responder it held at the start and every request it took from
   the queue on the way has been answered or dropped (its caller woke with a result); what is still
   queued is dropped with the loop's State (client/mod.rs: do_send maps that to ConnectionClosed) *)
Theorem c08_dead_transport_resolves_all : forall r wf s outs tk s',
  drunso r wf s outs tk s' -> fst s' = PExited ->
  forall id, In id (holds (fst s) ++ tk) -> answered outs id.
Proof. exact dead_all_resolved. Qed.

Theorem c08_queue_taken_in_order : forall r wf s outs tk s',
  drunso r wf s outs tk s' -> exists taken_reqs, snd s = taken_reqs ++ snd s' /\ tk = map q_id taken_reqs.
Proof. exact drunso_queue. Qed.

Example c08_drain_example :
  let q := fun n => mkReq n [] in
  druns (RErr EIo) false 7 (PWait 1, [q 2; q 3]) (PExited, []).
Proof.
  cbn zeta.
  repeat (eapply DRS; [first [eapply DRecv; reflexivity | eapply DCmd; reflexivity | eapply DTimeout; reflexivity]|]).
  apply DR0.
Qed.

(* ---- the EXECUTABLE system: a fault-free session of any length, then the stream ends ----
   [xrun] is the byte-level system the replayer compares with the real client (Props/C05.v,
   c05_exec_refines); the label "e" closes the server's side of the transport.  Whatever was going
   on — a request in flight with none, part or all of its reply undelivered, a request held behind
   a cancelled idle, any number queued, the re-idle window open — once the system has settled:
   the loop has left (or rests in the window with nothing queued), no caller is left waiting, and
   the ids resolved before the end followed by the ids resolved by it are exactly the ids of ALL
   issued requests in issue order: every request resolved exactly once, none lost, none twice. *)
Theorem c08_exec_eof_resolves : forall cf labs gls, in_fragment cf labs gls ->
  let xf := fst (xrun (xinit cf) labs) in
  let segs := snd (xrun (xinit cf) labs) in
  exists g', snd (apply_label_g xf (b "e")) = Some g' /\
             all_resolved gls segs (snd (fst (apply_label_g xf (b "e")))) g'.
Proof. exact exec_eof_resolves. Qed.

(* the same when, instead, every read of the transport starts to fail (label "r") *)
Theorem c08_exec_rerr_resolves : forall cf labs gls, in_fragment cf labs gls ->
  let xf := fst (xrun (xinit cf) labs) in
  let segs := snd (xrun (xinit cf) labs) in
  exists g', snd (apply_label_g xf (b "r")) = Some g' /\
             all_resolved gls segs (snd (fst (apply_label_g xf (b "r")))) g'.
Proof. exact exec_rerr_resolves. Qed.

(* ... and when reads fail and the loop leaves, the failure reaches somebody: a caller is handed the protocol error, or the
   event stream gets ConnectionClosed *)
Theorem c08_exec_rerr_reported : forall cf labs gls, in_fragment cf labs gls ->
  let xf := fst (xrun (xinit cf) labs) in
  forall g', snd (apply_label_g xf (b "r")) = Some g' ->
  x_pt (snd (fst (apply_label_g xf (b "r")))) = PExited ->
  (exists t, In t (g_ev g') /\ exists k, t = b "ev:closed(" ++ show_closekind k ++ b ")") \/
  (exists id pe, In (id, show_cmd_result (CRProto pe)) (g_res g')).
Proof. exact exec_rerr_reported. Qed.

(* [all_resolved] spelled out *)
Theorem c08_all_resolved_means : forall gls segs x' g', all_resolved gls segs x' g' <->
  (x_pt x' = PExited \/ (x_pt x' = PWindow /\ x_queue x' = [])) /\
  x_callers x' = [] /\
  map fst (flat_map g_res segs ++ g_res g') = map q_id (flat_map issued_of gls) /\
  g_panic g' = false.
Proof. intros; reflexivity. Qed.

(* the draining phase by itself, from ANY state satisfying its invariant (stream ended; what is
   buffered is a prefix of well-formed responses): each resumption strictly decreases a measure and
   keeps "resolved ++ still waiting" constant *)
Theorem c08_exec_drain_step : forall cf x rs g, DInv cf x rs ->
  match xstep x g with
  | None => quiet x
  | Some (x', g') => dpost cf x rs g x' g'
  end.
Proof. exact drain_step. Qed.

(* ---- ... and when callers have given up before the connection ends (LoopCancelDrainProofs.v) ----
   For every label list in the domain of the cancellation theorem (Props/C01.v) whose erasure lies in the fault-free fragment,
   followed by the end of the stream (or by failing reads): the loop is quiet, NOBODY is left waiting, nothing panics, and the results
   handed out before and by the fault are those of all issued requests in issue order with only results of cancelled callers
   missing — a caller that has not given up is always told. *)
Theorem c08_exec_cancel_eof_resolves : forall cf ls gls, cancel_ok [] ls = true -> in_fragment cf (map erase_label ls) gls ->
  all_resolved_but (cancels ls) gls (snd (xrun (xinit cf) (ls ++ [b "e"]))) (fst (xrun (xinit cf) (ls ++ [b "e"]))).
Proof. exact exec_cancel_eof_resolves. Qed.

Theorem c08_exec_cancel_rerr_resolves : forall cf ls gls, cancel_ok [] ls = true -> in_fragment cf (map erase_label ls) gls ->
  all_resolved_but (cancels ls) gls (snd (xrun (xinit cf) (ls ++ [b "r"]))) (fst (xrun (xinit cf) (ls ++ [b "r"]))).
Proof. exact exec_cancel_rerr_resolves. Qed.

Theorem c08_all_resolved_but_means : forall call gls segs x',
  all_resolved_but call gls segs x' <->
  (quiet x' /\ x_callers x' = [] /\
   (exists full, dropped call (flat_map g_res segs) full /\ map fst full = map q_id (flat_map issued_of gls)) /\
   Forall (fun g => g_panic g = false) segs).
Proof. intros. reflexivity. Qed.

(* request 1 cancelled in flight, request 2 queued, then the stream ends: request 2 is told, nobody waits *)
Example c08_cancel_eof_example :
  cancel_ok [] ex_cancel_eof_labs = true /\
  in_fragment ex_cf (map erase_label ex_cancel_eof_labs)
    [GNotify (b "player"); GIssue 1 (b "status"); GIssue 2 (b "stats"); GServe true; GDeliver 3; GTick 0; GDeliver 0] /\
  map fst (flat_map g_res (snd (xrun (xinit ex_cf) (ex_cancel_eof_labs ++ [b "e"])))) = [2] /\
  map fst (flat_map g_res (snd (xrun (xinit ex_cf) (map erase_label ex_cancel_eof_labs ++ [b "e"])))) = [1; 2].
Proof. exact ex_cancel_eof. Qed.

(* ---- ... and when the application has dropped its ConnectionEvents before the connection ends (LoopMuteProofs.v) ----
   Nobody listens for the closing event, yet every request still resolves exactly once, in issue order, nobody is left waiting and
   nothing panics: the loop notices the end of the stream (or the failing reads) all the same. *)
Theorem c08_exec_listener_dropped_eof : forall cf ls gls, mute_ok ls = true -> in_fragment cf (map mute_label ls) gls ->
  all_resolved_quietly gls (snd (xrun (xinit cf) (ls ++ [b "e"]))) (fst (xrun (xinit cf) (ls ++ [b "e"]))).
Proof. exact exec_mute_eof_resolves. Qed.

Theorem c08_exec_listener_dropped_rerr : forall cf ls gls, mute_ok ls = true -> in_fragment cf (map mute_label ls) gls ->
  all_resolved_quietly gls (snd (xrun (xinit cf) (ls ++ [b "r"]))) (fst (xrun (xinit cf) (ls ++ [b "r"]))).
Proof. exact exec_mute_rerr_resolves. Qed.

Theorem c08_all_resolved_quietly_means : forall gls segs x',
  all_resolved_quietly gls segs x' <->
  (quiet x' /\ x_callers x' = [] /\ map fst (flat_map g_res segs) = map q_id (flat_map issued_of gls) /\ Forall (fun g => g_panic g = false) segs).
Proof. intros. reflexivity. Qed.

Print Assumptions c08_responders_accounted.
Print Assumptions c08_one_closing_event.
Print Assumptions c08_dead_transport_exits.
Print Assumptions c08_always_a_step.
Print Assumptions c08_dead_transport_resolves_all.
Print Assumptions c08_queue_taken_in_order.
Print Assumptions c08_exec_eof_resolves.
Print Assumptions c08_exec_rerr_resolves.
Print Assumptions c08_exec_rerr_reported.
Print Assumptions c08_exec_drain_step.
Print Assumptions c08_exec_cancel_eof_resolves.
Print Assumptions c08_exec_cancel_rerr_resolves.
Print Assumptions c08_exec_listener_dropped_eof.
Print Assumptions c08_exec_listener_dropped_rerr.
