(* C08 — when the connection ends, every request resolves and the failure is reported.
   Statements only. *)
From MPD Require Import Bytes Tables BuilderModel LoopModel LoopProofs.
Open Scope N_scope.

(* no responder is ever forgotten: at every resumption each responder the loop holds (or has just
   taken from the queue) is answered, dropped (its caller gets ConnectionClosed) or still held *)
Theorem c08_responders_accounted : forall wf p i p' outs id,
  enabled p i = true -> cstep wf p i = (p', outs) -> In id (holds p ++ taken i) ->
  answered outs id \/ In id (holds p').
Proof. exact responders_accounted. Qed.

(* a loop that has left holds nothing and says nothing more *)
Theorem c08_exited_is_final : forall wf i, cstep wf PExited i = (PExited, []) /\ holds PExited = [].
Proof. intros. split; [apply exited_is_silent | reflexivity]. Qed.

(* at most one closing event, only while leaving, after every other event *)
Theorem c08_one_closing_event : forall wf p i p' outs,
  cstep wf p i = (p', outs) ->
  (existsb is_closed outs = true -> p' = PExited) /\
  (length (filter is_closed outs) <= 1)%nat /\
  no_event_after_closed outs = true.
Proof. exact closing_event_last. Qed.

(* once the transport is dead (every receive ends at once with end-of-stream or an error) the loop
   leaves after at most 3*|queue|+3 resumptions, whatever the queue holds and whichever enabled
   event is chosen - so no request can hang *)
Theorem c08_dead_transport_exits : forall r wf n s s',
  terminal r = true -> druns r wf n s s' -> (forall s'', ~ dstep r wf s' s'') ->
  fst s' = PExited /\ (n <= 3 * length (snd s) + 3)%nat.
Proof. exact dead_exits. Qed.

Theorem c08_always_a_step : forall r wf p qs, p <> PExited -> exists s', dstep r wf (p, qs) s'.
Proof. exact dead_progress. Qed.

(* an unclean end is surfaced: a receive error reaches the responder in flight, or, when the loop
   idles, becomes the closing event *)
Theorem c08_failure_surfaced : forall wf e,
  cstep wf PIdle (InRecv (RErr e)) = (PExited, [OClosed (CKProto e)]) /\
  (forall q, cstep wf (PCancel q) (InRecv (RErr e)) = (PExited, [OReply (q_id q) (RepProto e)])) /\
  (forall id, cstep wf (PWait id) (InRecv (RErr e)) = (PWindow, [OReply id (RepProto e)])).
Proof. intros; repeat split. Qed.

(* a clean close, or the last handle dropped while idle: the loop leaves silently *)
Theorem c08_clean_close_is_silent : forall wf,
  cstep wf PIdle (InRecv RClean) = (PExited, []) /\ cstep wf PIdle (InCmd None) = (PExited, []).
Proof. intros; split; reflexivity. Qed.

(* ... and when it has left, every responder it held at the start and every request it took from
   the queue on the way has been answered or dropped (its caller woke with a result); what is still
   queued is dropped with the loop's State (client/mod.rs: do_send maps that to ConnectionClosed) *)
Theorem c08_dead_transport_resolves_all : forall r wf s outs tk s',
  drunso r wf s outs tk s' -> fst s' = PExited ->
  forall id, In id (holds (fst s) ++ tk) -> answered outs id.
Proof. exact dead_all_resolved. Qed.

Theorem c08_queue_taken_in_order : forall r wf s outs tk s',
  drunso r wf s outs tk s' -> exists taken_reqs, snd s = taken_reqs ++ snd s' /\ tk = map q_id taken_reqs.
Proof. exact drunso_queue. Qed.

Example c08_drain_example :
  let q := fun n => mkReq n [] in
  druns (RErr EIo) false 7 (PWait 1, [q 2; q 3]) (PExited, []).
Proof.
  cbn zeta.
  repeat (eapply DRS; [first [eapply DRecv; reflexivity | eapply DCmd; reflexivity | eapply DTimeout; reflexivity]|]).
  apply DR0.
Qed.

Print Assumptions c08_responders_accounted.
Print Assumptions c08_one_closing_event.
Print Assumptions c08_dead_transport_exits.
Print Assumptions c08_always_a_step.
Print Assumptions c08_dead_transport_resolves_all.
Print Assumptions c08_queue_taken_in_order.
