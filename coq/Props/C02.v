(* C02 — parsed responses do not depend on how the byte stream is split into reads.  Statements only. *)
From MPD Require Import Bytes Tables ParserModel BuilderModel ConnModel ParserProofs ConnProofs.
Open Scope N_scope.

(* One receive call, any buffer policy that always offers room (blocking: valid < cap, with the
   doubling; async: unbounded), any segmentation: its outcome is the reference outcome on the
   whole remaining stream, and after a response the unread stream is exactly the reference's rest. *)
Theorem c02_receive_is_reference : forall fuel p st buf r,
  wf_reader r -> pol_ok p (length buf) -> (reader_bytes r < fuel)%nat ->
  match recv_loop fuel p st buf r with
  | (o, c', r') =>
    o = fst (ref_from st (stream buf r) (rtail r)) /\
    (forall resp, o = Resp resp ->
       stream (c_buf c') r' = snd (ref_from st (stream buf r) (rtail r)) /\
       wf_reader r' /\ rtail r' = rtail r /\ pol_ok (c_policy c') (length (c_buf c')) /\ c_state c' = Initial /\
       (length (stream (c_buf c') r') < length (stream buf r))%nat)
  end.
Proof. exact recv_loop_ref. Qed.

(* The sequence of outcomes of repeated receive calls is the segmentation-free reference run. *)
Theorem c02_run_is_reference : forall fuel c r,
  wf_reader r -> pol_ok (c_policy c) (length (c_buf c)) -> c_state c = Initial ->
  run fuel 0 c r = ref_run fuel (stream (c_buf c) r) (rtail r).
Proof. exact run_ref. Qed.

(* Corollaries in the property's own words. *)
Theorem c02_same_bytes_same_outcomes : forall fuel p1 p2 r1 r2,
  wf_reader r1 -> wf_reader r2 -> pol_ok p1 0 -> pol_ok p2 0 ->
  concat (chunks r1) = concat (chunks r2) -> rtail r1 = rtail r2 ->
  run fuel 0 (mkConn p1 [] Initial) r1 = run fuel 0 (mkConn p2 [] Initial) r2.
Proof.
  intros fuel p1 p2 r1 r2 W1 W2 P1 P2 E T.
  rewrite (run_ref fuel (mkConn p1 [] Initial) r1 W1 P1 eq_refl), (run_ref fuel (mkConn p2 [] Initial) r2 W2 P2 eq_refl).
  unfold stream. simpl. rewrite E, T. reflexivity.
Qed.

Theorem c02_blocking_equals_async : forall fuel cap r,
  wf_reader r -> (1 <= cap)%nat ->
  run fuel 0 (mkConn (Blocking cap) [] Initial) r = run fuel 0 (mkConn Async [] Initial) r.
Proof.
  intros fuel cap r W C. apply c02_same_bytes_same_outcomes; simpl; auto.
Qed.

(* the reference run is complete: with fuel above the stream length it ends in a terminal outcome *)
Theorem c02_reference_run_ends : forall fuel all t,
  (length all < fuel)%nat -> exists rs o, ref_run fuel all t = map Resp rs ++ [o] /\ (forall x, o <> Resp x).
Proof. exact ref_run_terminal. Qed.

(* connect: same statement; the bytes after the greeting stay available (repair of D1) *)
Theorem c02_connect_is_reference : forall p r,
  wf_reader r -> pol_ok p 0 ->
  let '(o, r') := connect p r in
  conn_matches o r' (ref_connect (concat (chunks r)) (rtail r)) (rtail r).
Proof. exact connect_ref. Qed.

(* the streaming grammar is prefix-stable: the fact everything above rests on *)
Theorem c02_parser_prefix_stable : good parse_component /\ good p_greeting.
Proof. exact (conj good_parse_component good_greeting). Qed.

(* non-vacuity: one stream, three segmentations, a 7-byte blocking buffer that must double *)
Example c02_ex :
  let s := b "foo: bar" ++ [LF] ++ b "binary: 3" ++ [LF] ++ b "abc" ++ [LF] ++ b "OK" ++ [LF] ++ b "x" in
  let r1 := mkReader [s] TEof in
  let r2 := mkReader (map (fun c => [c]) s) TEof in
  let r3 := mkReader [firstn 10 s; skipn 10 s] TEof in
  wf_reader r2 /\
  run 50 0 (mkConn (Blocking 7) [] Initial) r1 = run 50 0 (mkConn Async [] Initial) r2 /\
  run 50 0 (mkConn (Blocking 1) [] Initial) r3 = run 50 0 (mkConn Async [] Initial) r2 /\
  length (run 50 0 (mkConn Async [] Initial) r2) = 2%nat.
Proof. split; [vm_compute; repeat constructor; discriminate | repeat split; vm_compute; reflexivity]. Qed.

Print Assumptions c02_receive_is_reference.
Print Assumptions c02_run_is_reference.
Print Assumptions c02_same_bytes_same_outcomes.
Print Assumptions c02_blocking_equals_async.
Print Assumptions c02_reference_run_ends.
Print Assumptions c02_connect_is_reference.
Print Assumptions c02_parser_prefix_stable.
