(* C10 — end of stream is clean only on a response boundary.  Statements only. *)
From MPD Require Import Bytes Tables ParserModel BuilderModel ConnModel ParserProofs ConnProofs GrammarProofs.
Open Scope N_scope.

(* For EVERY byte string (well-formed or not) that remains when the stream ends: the end is
   reported clean iff nothing at all remains after the last complete response. *)
Theorem c10_clean_iff_nothing_left : forall all, fst (ref_from Initial all TEof) = CleanEof <-> all = [].
Proof. exact clean_eof_iff. Qed.

Theorem c10_eof_outcomes : forall all,
  let o := fst (ref_from Initial all TEof) in
  (exists r, o = Resp r) \/ o = ErrInvalid \/ (o = CleanEof /\ all = []) \/ (o = ErrEof /\ all <> []).
Proof. exact eof_outcomes. Qed.

(* with C02 this is the behaviour of both connections under every segmentation, and the complete
   responses before the end are still delivered: the run is [responses ++ one terminal outcome] *)
Theorem c10_run_shape : forall fuel c r,
  wf_reader r -> pol_ok (c_policy c) (length (c_buf c)) -> c_state c = Initial -> (length (stream (c_buf c) r) < fuel)%nat ->
  exists rs o, run fuel 0 c r = map Resp rs ++ [o] /\ (forall x, o <> Resp x).
Proof.
  intros fuel c r W P S0 F. rewrite (run_ref fuel c r W P S0). apply ref_run_terminal. exact F.
Qed.

(* once something of a response has been consumed the builder never reports "nothing in progress" *)
Theorem c10_progress_is_remembered : forall k buf st st' rest,
  (length buf <= k)%nat -> st <> Initial -> bparse_all st buf = (st', rest, NeedMore) -> st' <> Initial.
Proof. exact needmore_keeps_progress. Qed.

(* greeting: a stream ending inside an otherwise possible greeting line needs more bytes, hence
   (connect_ref) is an unexpected EOF under every segmentation *)
Theorem c10_greeting_cut_prefix : forall p, is_prefix p GP = true -> p <> GP -> p_greeting p = RIncomplete.
Proof. exact greeting_incomplete_prefix. Qed.
Theorem c10_greeting_cut_version : forall v, no_lf_b v = true -> p_greeting (GP ++ v) = RIncomplete.
Proof. exact greeting_incomplete_version. Qed.

(* both disjuncts of the EOF test are needed: complete lines without OK / a partial OK *)
Example c10_ex :
  fst (ref_from Initial (b "a: b" ++ [LF]) TEof) = ErrEof /\
  fst (ref_from Initial (b "OK") TEof) = ErrEof /\
  fst (ref_from Initial (b "binary: 5" ++ [LF] ++ b "ab") TEof) = ErrEof /\
  ref_run 9 (b "OK" ++ [LF] ++ b "x: y" ++ [LF] ++ b "list_OK" ++ [LF]) TEof =
    [Resp (mkResp [empty_frame] None); ErrEof] /\
  ref_run 9 (b "OK" ++ [LF]) TEof = [Resp (mkResp [empty_frame] None); CleanEof].
Proof. repeat split; vm_compute; reflexivity. Qed.

Print Assumptions c10_clean_iff_nothing_left.
Print Assumptions c10_eof_outcomes.
Print Assumptions c10_run_shape.
Print Assumptions c10_progress_is_remembered.
Print Assumptions c10_greeting_cut_prefix.
Print Assumptions c10_greeting_cut_version.
